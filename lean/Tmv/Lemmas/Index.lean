import Tmv.Model.Index
set_option linter.unusedSimpArgs false
/-! Byte-level lemmas about the tx index key layout. -/
namespace Tmv.Index
open Tmv.Query

theorem digit_byte (c : Char) (h : c.isDigit = true) :
    isDigit (UInt8.ofNat c.toNat) = true ∧ (UInt8.ofNat c.toNat).toNat = c.toNat := by
  have h1 : 48 ≤ c.toNat ∧ c.toNat ≤ 57 := by
    simp [Char.isDigit] at h
    obtain ⟨a, b⟩ := h
    have a' := UInt32.le_iff_toNat_le.mp a
    have b' := UInt32.le_iff_toNat_le.mp b
    simp at a' b'
    exact ⟨a', b'⟩
  have h2 : (UInt8.ofNat c.toNat).toNat = c.toNat := by
    simp [UInt8.toNat_ofNat']; omega
  refine ⟨?_, h2⟩
  simp [isDigit, UInt8.le_iff_toNat_le, h2]
  omega

theorem dec_isDigit (n : Nat) : ∀ b ∈ dec n, isDigit b = true := by
  intro b hb
  simp only [dec, List.mem_map] at hb
  obtain ⟨c, hc, rfl⟩ := hb
  exact (digit_byte c (Nat.isDigit_of_mem_toDigits (by decide) (by decide) hc)).1

theorem digitsVal_map (l : List Char) (hl : ∀ c ∈ l, c.isDigit = true) (init : Nat) :
    (l.map fun c => UInt8.ofNat c.toNat).foldl (fun acc c => acc * 10 + (c.toNat - 48)) init =
    Nat.ofDigitChars 10 l init := by
  induction l generalizing init with
  | nil => simp
  | cons c cs ih =>
    simp only [List.map_cons, List.foldl_cons, Nat.ofDigitChars_cons]
    rw [ih (fun x hx => hl x (List.mem_cons_of_mem _ hx))]
    have := (digit_byte c (hl c List.mem_cons_self)).2
    rw [this]
    congr 1
    have : '0'.toNat = 48 := by decide
    rw [this]; omega

theorem digitsVal_dec (n : Nat) : digitsVal (dec n) = n := by
  unfold digitsVal dec
  rw [digitsVal_map _ (fun c hc => Nat.isDigit_of_mem_toDigits (by decide) (by decide) hc)]
  exact Nat.ofDigitChars_ten_toDigits

theorem dec_inj {a b : Nat} (h : dec a = dec b) : a = b := by
  rw [← digitsVal_dec a, ← digitsVal_dec b, h]

theorem dec_ne_nil (n : Nat) : dec n ≠ [] := by
  simp [dec, Nat.toDigits_ne_nil]

theorem dec_nosep (n : Nat) : sep ∉ dec n := by
  intro h
  have := dec_isDigit n sep h
  simp [isDigit, sep] at this


/-! ### separator lemmas -/

theorem append_sep_inj {a c x y : Str} (ha : sep ∉ a) (hc : sep ∉ c)
    (h : a ++ sep :: x = c ++ sep :: y) : a = c ∧ x = y := by
  induction a generalizing c with
  | nil =>
    cases c with
    | nil => simpa using h
    | cons d c' =>
      simp at h
      exact absurd (h.1 ▸ List.mem_cons_self) hc
  | cons e a' ih =>
    cases c with
    | nil =>
      simp at h
      exact absurd (h.1 ▸ List.mem_cons_self) ha
    | cons d c' =>
      simp at h
      obtain ⟨h1, h2⟩ := h
      have := ih (fun m => ha (List.mem_cons_of_mem _ m)) (fun m => hc (List.mem_cons_of_mem _ m)) h2
      exact ⟨by rw [h1, this.1], this.2⟩

theorem prefix_sep {a c x y : Str} (ha : sep ∉ a) (hc : sep ∉ c) :
    (a ++ sep :: x) <+: (c ++ sep :: y) ↔ a = c ∧ x <+: y := by
  constructor
  · rintro ⟨t, ht⟩
    rw [List.append_assoc, List.cons_append] at ht
    have := append_sep_inj ha hc ht
    exact ⟨this.1, ⟨t, this.2⟩⟩
  · rintro ⟨rfl, t, rfl⟩
    exact ⟨t, by simp⟩

theorem not_prefix_of_nosep {p x h : Str} (hh : sep ∉ h) : ¬ (p ++ sep :: x) <+: h := by
  rintro ⟨t, ht⟩
  apply hh
  rw [← ht]
  simp

theorem dropWhile_nosep (a t : Str) (ha : sep ∉ a) :
    (a ++ sep :: t).dropWhile (· != sep) = sep :: t := by
  induction a with
  | nil => simp [List.dropWhile]
  | cons e a' ih =>
    have he : e ≠ sep := fun h => ha (h ▸ List.mem_cons_self)
    simp [List.dropWhile, he]
    simpa using ih (fun m => ha (List.mem_cons_of_mem _ m))

theorem takeWhile_nosep (a t : Str) (ha : sep ∉ a) :
    (a ++ sep :: t).takeWhile (· != sep) = a := by
  induction a with
  | nil => simp [List.takeWhile]
  | cons e a' ih =>
    have he : e ≠ sep := fun h => ha (h ▸ List.mem_cons_self)
    simp [List.takeWhile, he]
    simpa using ih (fun m => ha (List.mem_cons_of_mem _ m))

theorem extractValue_key (k v : Str) (h i : Nat) (hk : sep ∉ k) (hv : sep ∉ v) :
    extractValue (keyForEvent k v h i) = v := by
  unfold extractValue keyForEvent
  rw [dropWhile_nosep k _ hk]
  simp only [List.drop_succ_cons, List.drop_zero]
  exact takeWhile_nosep v _ hv

theorem isTagKey_key (k v : Str) (h i : Nat) (hk : sep ∉ k) (hv : sep ∉ v) :
    isTagKey (keyForEvent k v h i) = true := by
  unfold isTagKey keyForEvent
  have c1 := List.count_eq_zero.mpr hk
  have c2 := List.count_eq_zero.mpr hv
  have c3 := List.count_eq_zero.mpr (dec_nosep h)
  have c4 := List.count_eq_zero.mpr (dec_nosep i)
  simp [List.count_append, List.count_cons, c1, c2, c3, c4]

theorem keyForEvent_inj {k v k' v' : Str} {h i h' i' : Nat}
    (hk : sep ∉ k) (hv : sep ∉ v) (hk' : sep ∉ k') (hv' : sep ∉ v')
    (e : keyForEvent k v h i = keyForEvent k' v' h' i') : k = k' ∧ v = v' ∧ h = h' ∧ i = i' := by
  unfold keyForEvent at e
  obtain ⟨e1, e⟩ := append_sep_inj hk hk' e
  obtain ⟨e2, e⟩ := append_sep_inj hv hv' e
  obtain ⟨e3, e4⟩ := append_sep_inj (dec_nosep h) (dec_nosep h') e
  exact ⟨e1, e2, dec_inj e3, dec_inj e4⟩

theorem sep_mem_key (k v : Str) (h i : Nat) : sep ∈ keyForEvent k v h i := by
  simp [keyForEvent]

/-! ### database lemmas -/

theorem mem_dbSet (db : DB) (k : Bytes) (v : Val) (row : Bytes × Val) :
    row ∈ dbSet db k v ↔ row = (k, v) ∨ (row ∈ db ∧ row.1 ≠ k) := by
  unfold dbSet
  split
  · rename_i hany
    simp only [List.mem_map]
    constructor
    · rintro ⟨p, hp, rfl⟩
      by_cases hpk : p.1 = k
      · left; simp [hpk]
      · right; simp [hpk, hp]
    · rintro (rfl | ⟨hr, hne⟩)
      · simp only [List.any_eq_true] at hany
        obtain ⟨p, hp, hpk⟩ := hany
        exact ⟨p, hp, by simp [beq_iff_eq.mp hpk]⟩
      · exact ⟨row, hr, by simp [hne]⟩
  · rename_i hany
    simp only [List.mem_append, List.mem_singleton]
    constructor
    · rintro (hr | rfl)
      · right; refine ⟨hr, ?_⟩
        intro e; apply hany
        simp only [List.any_eq_true]
        exact ⟨row, hr, by simp [e]⟩
      · left; rfl
    · rintro (rfl | ⟨hr, _⟩)
      · right; rfl
      · left; exact hr


/-! ### the rows of a history -/

def setAll (db : DB) (rows : List (Bytes × Val)) : DB := rows.foldl (fun d row => dbSet d row.1 row.2) db

/-- no two rows share a key unless they are the same row -/
def Functional (rows : List (Bytes × Val)) : Prop :=
  ∀ a ∈ rows, ∀ b ∈ rows, a.1 = b.1 → a = b

theorem setAll_sound (db : DB) (rows : List (Bytes × Val)) (row : Bytes × Val)
    (h : row ∈ setAll db rows) : row ∈ db ∨ row ∈ rows := by
  induction rows generalizing db with
  | nil => exact Or.inl h
  | cons x xs ih =>
    simp only [setAll, List.foldl_cons] at h
    rcases ih _ h with h1 | h1
    · rcases (mem_dbSet db x.1 x.2 row).mp h1 with rfl | ⟨h2, _⟩
      · right; simp
      · left; exact h2
    · right; exact List.mem_cons_of_mem _ h1

theorem setAll_complete (db : DB) (rows : List (Bytes × Val)) (row : Bytes × Val)
    (hf : Functional (db ++ rows)) (h : row ∈ db ∨ row ∈ rows) : row ∈ setAll db rows := by
  induction rows generalizing db with
  | nil => simpa [setAll] using h
  | cons x xs ih =>
    simp only [setAll, List.foldl_cons]
    apply ih
    · intro a ha b hb hab
      have conv : ∀ z, z ∈ dbSet db x.1 x.2 ++ xs → z ∈ db ++ x :: xs := by
        intro z hz
        rcases List.mem_append.mp hz with hz | hz
        · rcases (mem_dbSet db x.1 x.2 z).mp hz with rfl | ⟨h2, _⟩
          · simp
          · simp [h2]
        · simp [hz]
      exact hf a (conv a ha) b (conv b hb) hab
    · rcases h with h | h
      · left
        apply (mem_dbSet db x.1 x.2 row).mpr
        by_cases e : row.1 = x.1
        · left
          exact hf row (by simp [h]) x (by simp) e
        · right; exact ⟨h, e⟩
      · rcases List.mem_cons.mp h with rfl | h
        · left; exact (mem_dbSet db row.1 row.2 row).mpr (Or.inl rfl)
        · right; exact h

theorem dbSet_keys_nodup (db : DB) (k : Bytes) (v : Val) (h : (db.map (·.1)).Nodup) :
    ((dbSet db k v).map (·.1)).Nodup := by
  unfold dbSet
  split
  · have : (db.map fun p => if (p.1 == k) = true then (k, v) else p).map (·.1) = db.map (·.1) := by
      rw [List.map_map]
      apply List.map_congr_left
      intro p _
      by_cases e : p.1 = k <;> simp [e]
    rw [this]; exact h
  · rename_i hany
    rw [List.map_append]
    apply List.nodup_append.mpr
    refine ⟨h, by simp, ?_⟩
    intro a ha b hb
    simp at hb
    subst hb
    intro e; subst e
    apply hany
    simp only [List.mem_map] at ha
    obtain ⟨p, hp, hpk⟩ := ha
    simp only [List.any_eq_true]
    exact ⟨p, hp, by simp [hpk]⟩

theorem setAll_keys_nodup (db : DB) (rows : List (Bytes × Val)) (h : (db.map (·.1)).Nodup) :
    ((setAll db rows).map (·.1)).Nodup := by
  induction rows generalizing db with
  | nil => exact h
  | cons x xs ih => exact ih _ (dbSet_keys_nodup db x.1 x.2 h)

variable (H : Bytes → Bytes)

/-- every composite key/value `AddBatch` writes a secondary row for: the indexed attributes and
the height row (`tx.height/<h>/<h>/<i>`) -/
def attrsAll (r : TxResult) : List (Str × Str) := indexedAttrs r ++ [(txHeightKey, dec r.height)]

def rowsOf (r : TxResult) : List (Bytes × Val) :=
  (attrsAll r).map (fun kv => (keyForEvent kv.1 kv.2 r.height r.index, Val.hash (H r.tx))) ++
    [(H r.tx, Val.result r)]

theorem addOne_eq (db : DB) (r : TxResult) : addOne H db r = setAll db (rowsOf H r) := by
  simp [addOne, setAll, rowsOf, attrsAll, List.foldl_append, List.foldl_map, keyForHeight]

theorem addBatch_eq (db : DB) (rs : List TxResult) :
    addBatch H db rs = setAll db (rs.flatMap (rowsOf H)) := by
  induction rs generalizing db with
  | nil => rfl
  | cons r rest ih =>
    simp only [addBatch, List.foldl_cons, List.flatMap_cons] at ih ⊢
    rw [ih, addOne_eq]
    simp [setAll, List.foldl_append]

/-- hypotheses under which the index is exact (each one is violated by a listed known finding) -/
structure CleanHist (hist : List TxResult) : Prop where
  hashInj : ∀ r ∈ hist, ∀ r' ∈ hist, H r.tx = H r'.tx → r = r'
  posInj : ∀ r ∈ hist, ∀ r' ∈ hist, r.height = r'.height → r.index = r'.index → r = r'
  hashNoSep : ∀ r ∈ hist, sep ∉ H r.tx
  hashNonempty : ∀ r ∈ hist, H r.tx ≠ []
  keysClean : ∀ r ∈ hist, ∀ kv ∈ indexedAttrs r, sep ∉ kv.1 ∧ sep ∉ kv.2

theorem txHeightKey_nosep : sep ∉ txHeightKey := by decide

theorem attrsAll_clean {hist : List TxResult} (hc : CleanHist H hist) {r : TxResult} (hr : r ∈ hist)
    {kv : Str × Str} (hkv : kv ∈ attrsAll r) : sep ∉ kv.1 ∧ sep ∉ kv.2 := by
  rcases List.mem_append.mp hkv with h | h
  · exact hc.keysClean r hr kv h
  · simp at h; subst h
    exact ⟨txHeightKey_nosep, dec_nosep _⟩

theorem functional_rows {hist : List TxResult} (hc : CleanHist H hist) :
    Functional (hist.flatMap (rowsOf H)) := by
  intro a ha b hb hab
  simp only [List.mem_flatMap] at ha hb
  obtain ⟨r, hr, ha⟩ := ha
  obtain ⟨r', hr', hb⟩ := hb
  simp only [rowsOf, List.mem_append, List.mem_map, List.mem_singleton] at ha hb
  rcases ha with ⟨kv, hkv, rfl⟩ | rfl <;> rcases hb with ⟨kv', hkv', rfl⟩ | rfl
  · simp only at hab
    have c1 := attrsAll_clean H hc hr hkv
    have c2 := attrsAll_clean H hc hr' hkv'
    obtain ⟨_, _, e3, e4⟩ := keyForEvent_inj c1.1 c1.2 c2.1 c2.2 hab
    have := hc.posInj r hr r' hr' e3 e4
    subst this
    rw [hab]
  · simp only at hab
    exact absurd (hab ▸ sep_mem_key _ _ _ _) (hc.hashNoSep r' hr')
  · simp only at hab
    exact absurd (hab.symm ▸ sep_mem_key _ _ _ _) (hc.hashNoSep r hr)
  · simp only at hab
    have := hc.hashInj r hr r' hr' hab
    subst this; rfl

/-- the database after indexing `hist` holds exactly the rows of its results -/
theorem mem_db_iff {hist : List TxResult} (hc : CleanHist H hist) (row : Bytes × Val) :
    row ∈ addBatch H [] hist ↔ row ∈ hist.flatMap (rowsOf H) := by
  rw [addBatch_eq]
  constructor
  · intro h
    rcases setAll_sound _ _ _ h with h | h
    · cases h
    · exact h
  · intro h
    exact setAll_complete _ _ _ (by simpa using functional_rows H hc) (Or.inr h)

theorem db_keys_nodup (hist : List TxResult) : ((addBatch H [] hist).map (·.1)).Nodup := by
  rw [addBatch_eq]
  exact setAll_keys_nodup _ _ (by simp)

theorem dbGet_of_mem {hist : List TxResult} (hc : CleanHist H hist) (row : Bytes × Val)
    (h : row ∈ hist.flatMap (rowsOf H)) : dbGet (addBatch H [] hist) row.1 = some row.2 := by
  unfold dbGet
  have hm := (mem_db_iff H hc row).mpr h
  cases hfind : (addBatch H [] hist).find? (·.1 == row.1) with
  | none =>
    have := List.find?_eq_none.mp hfind row hm
    simp at this
  | some x =>
    have hx := List.find?_some hfind
    have hxm := List.mem_of_find?_eq_some hfind
    have hx' := (mem_db_iff H hc x).mp hxm
    have := functional_rows H hc x hx' row h (by simpa using hx)
    simp [this]

/-! ### the event map of an indexed tx -/

def valuesOf (l : List (Str × Str)) (k : Str) : List Str := (l.filter (fun kv => kv.1 == k)).map (·.2)

def optApp (o : Option (List Str)) (vs : List Str) : Option (List Str) :=
  if vs = [] then o else some (o.getD [] ++ vs)

theorem optApp_optApp (o : Option (List Str)) (a b : List Str) :
    optApp (optApp o a) b = optApp o (a ++ b) := by
  unfold optApp
  by_cases ha : a = [] <;> by_cases hb : b = [] <;> simp [ha, hb]

theorem lookup_cons (x : Str × List Str) (xs : Events) (k : Str) :
    lookup (x :: xs) k = if x.1 = k then some x.2 else lookup xs k := by
  unfold lookup
  by_cases h : x.1 = k <;> simp [List.find?_cons, h]

theorem lookup_map_append (ev : Events) (k' v k : Str) :
    lookup (ev.map fun p => if (p.1 == k') = true then (p.1, p.2 ++ [v]) else p) k =
    (lookup ev k).map (fun vs => if k = k' then vs ++ [v] else vs) := by
  induction ev with
  | nil => rfl
  | cons p rest ih =>
    have hfst : (if (p.1 == k') = true then (p.1, p.2 ++ [v]) else p).1 = p.1 := by split <;> rfl
    rw [List.map_cons, lookup_cons, lookup_cons, hfst, ih]
    by_cases hpk : p.1 = k
    · rw [if_pos hpk, if_pos hpk]
      by_cases hpk' : p.1 = k'
      · have : k = k' := hpk.symm.trans hpk'
        simp [hpk', this]
      · have : ¬ k = k' := fun e => hpk' (hpk.trans e)
        simp [hpk', this]
    · rw [if_neg hpk, if_neg hpk]

theorem lookup_append_new (ev : Events) (k' v k : Str) (hno : ev.any (·.1 == k') = false) :
    lookup (ev ++ [(k', [v])]) k = if k = k' then some [v] else lookup ev k := by
  unfold lookup
  rw [List.find?_append]
  by_cases hk : k = k'
  · subst hk
    have : ev.find? (fun p => p.1 == k) = none := by
      apply List.find?_eq_none.mpr
      intro x hx
      have := List.any_eq_false.mp hno x hx
      simpa using this
    simp [this]
  · have : ¬ k' = k := fun e => hk e.symm
    cases h : ev.find? (fun p => p.1 == k) <;> simp [h, hk, this]

theorem lookup_groupInsert (ev : Events) (k' v k : Str) :
    lookup (groupInsert ev k' v) k = optApp (lookup ev k) (if k = k' then [v] else []) := by
  unfold groupInsert
  split
  · rename_i hany
    rw [lookup_map_append]
    by_cases hk : k = k'
    · subst hk
      simp only [if_true, optApp]
      cases h : lookup ev k with
      | none =>
        exfalso
        simp only [List.any_eq_true] at hany
        obtain ⟨p, hp, hpk⟩ := hany
        unfold lookup at h
        simp only [Option.map_eq_none_iff] at h
        have := List.find?_eq_none.mp h p hp
        exact this hpk
      | some vs => simp
    · simp [hk, optApp]
  · rename_i hany
    have hany : ev.any (·.1 == k') = false := by
      cases h : ev.any (·.1 == k') with
      | false => rfl
      | true => exact absurd h hany
    rw [lookup_append_new ev k' v k hany]
    by_cases hk : k = k'
    · subst hk
      have : lookup ev k = none := by
        unfold lookup
        simp only [Option.map_eq_none_iff]
        apply List.find?_eq_none.mpr
        intro x hx
        have := List.any_eq_false.mp hany x hx
        simpa using this
      simp [optApp, this]
    · simp [hk, optApp]

theorem lookup_fold (l : List (Str × Str)) (ev : Events) (k : Str) :
    lookup (l.foldl (fun ev kv => groupInsert ev kv.1 kv.2) ev) k = optApp (lookup ev k) (valuesOf l k) := by
  induction l generalizing ev with
  | nil => simp [valuesOf, optApp]
  | cons kv rest ih =>
    simp only [List.foldl_cons]
    rw [ih, lookup_groupInsert, optApp_optApp]
    congr 1
    by_cases h : kv.1 = k
    · have : k = kv.1 := h.symm
      simp [valuesOf, List.filter_cons, h]
    · have : ¬ k = kv.1 := fun e => h e.symm
      simp [valuesOf, List.filter_cons, h, this]

theorem eventsOf_eq (r : TxResult) :
    eventsOf r = (attrsAll r).foldl (fun ev kv => groupInsert ev kv.1 kv.2) [] := by
  simp [eventsOf, attrsAll, List.foldl_append]

theorem lookup_eventsOf (r : TxResult) (k : Str) :
    lookup (eventsOf r) k =
      if valuesOf (attrsAll r) k = [] then none else some (valuesOf (attrsAll r) k) := by
  rw [eventsOf_eq, lookup_fold]
  simp [optApp, lookup]

theorem mem_valuesOf (l : List (Str × Str)) (k v : Str) : v ∈ valuesOf l k ↔ (k, v) ∈ l := by
  simp only [valuesOf, List.mem_map, List.mem_filter]
  constructor
  · rintro ⟨kv, ⟨hm, hk⟩, rfl⟩
    have : kv.1 = k := by simpa using hk
    rw [← this]; exact hm
  · intro h
    exact ⟨(k, v), ⟨h, by simp⟩, rfl⟩

theorem eventsOf_nonempty (r : TxResult) : (eventsOf r).isEmpty = false := by
  have h := lookup_eventsOf r txHeightKey
  have hv : dec r.height ∈ valuesOf (attrsAll r) txHeightKey := by
    rw [mem_valuesOf]; simp [attrsAll]
  have hne : valuesOf (attrsAll r) txHeightKey ≠ [] := fun e => by rw [e] at hv; cases hv
  rw [if_neg hne] at h
  cases he : eventsOf r with
  | nil => rw [he] at h; simp [lookup] at h
  | cons _ _ => rfl


/-! ### canonical decimals -/

theorem isNumCh_of_digit (b : UInt8) (h : isDigit b = true) : isNumCh b = true := by
  simp [isNumCh, h]

theorem numRun_digits (l : Str) (h : ∀ b ∈ l, isDigit b = true) : numRun l = l := by
  unfold numRun
  have h1 : l.dropWhile (fun c => !isNumCh c) = l := by
    cases l with
    | nil => rfl
    | cons a t => simp [List.dropWhile, isNumCh_of_digit a (h a List.mem_cons_self)]
  rw [h1]
  clear h1
  induction l with
  | nil => rfl
  | cons a t ih =>
    simp only [List.takeWhile, isNumCh_of_digit a (h a List.mem_cons_self)]
    rw [ih (fun b hb => h b (List.mem_cons_of_mem _ hb))]

theorem convInt_dec (n : Nat) (hn : n ≤ maxInt64) : convInt (dec n) = .ok n := by
  unfold convInt
  simp only [numRun_digits _ (dec_isDigit n)]
  have hd : (dec n).contains dot = false := by
    cases h : (dec n).contains dot with
    | false => rfl
    | true =>
      have := dec_isDigit n dot (by simpa using h)
      simp [isDigit, dot] at this
  simp only [hd, Bool.false_eq_true, if_false, parseDigits, digitsVal_dec, hn, if_true]
  have : (dec n).isEmpty = false := by
    cases h : dec n with
    | nil => exact absurd h (dec_ne_nil n)
    | cons _ _ => rfl
  simp [this]

/-- numeric equality against canonical decimal values is equality of the decimal text -/
theorem matchValues_int_eq (n : Nat) (vs : List Str)
    (hcan : ∀ v ∈ vs, ∃ m, m ≤ maxInt64 ∧ v = dec m) :
    matchValues .eq (.int n) vs = .ok (vs.any (· == dec n)) := by
  induction vs with
  | nil => rfl
  | cons v rest ih =>
    obtain ⟨m, hm, rfl⟩ := hcan v List.mem_cons_self
    have ih' := ih (fun v hv => hcan v (List.mem_cons_of_mem _ hv))
    unfold matchValues
    simp only [matchValue, convInt_dec m hm, cmpInt]
    by_cases e : m = n
    · subst e; simp
    · have h1 : ¬ dec m = dec n := fun h => e (dec_inj h)
      have h2 : (m == n) = false := by simp [e]
      have h3 : (dec m == dec n) = false := by simp [h1]
      rw [h2]
      simp only [List.any_cons, h3, Bool.false_or, ih']

/-! ### conditions without numeric comparison: what the scan finds is what `Matches` accepts -/

/-- the test such a condition applies to one attribute value -/
def valTest (c : Cond) (v : Str) : Bool :=
  match c.op, c.operand with
  | .eq, .str s => v == s
  | .eq, .int n => v == dec n
  | .exists, _ => true
  | .contains, .str s => isInfix s v
  | _, _ => false

/-- conditions of the string class: `k = 's'`, `k EXISTS` (dotted key), `k CONTAINS 's'`, with no
separator in the key / the equality operand and a key other than `tx.hash` -/
def StrCond (c : Cond) : Prop :=
  sep ∉ c.key ∧ c.key ≠ txHashKey ∧
  ((c.op = .eq ∧ ∃ s, c.operand = .str s ∧ sep ∉ s) ∨
   (c.op = .exists ∧ c.operand = .none ∧ c.key.contains dot = true) ∨
   (c.op = .contains ∧ ∃ s, c.operand = .str s) ∨
   (c.op = .eq ∧ ∃ n, c.operand = .int n ∧ n ≤ maxInt64 ∧ c.key ≠ txHeightKey))

def strTest (op : Op) (s v : Str) : Bool :=
  match op with
  | .eq => v == s
  | .contains => isInfix s v
  | _ => false

theorem matchValues_str (op : Op) (s : Str) (vs : List Str) :
    matchValues op (.str s) vs = .ok (vs.any (strTest op s)) := by
  induction vs with
  | nil => rfl
  | cons v rest ih =>
    unfold matchValues
    cases op <;> simp [matchValue, strTest, ih] <;> (split <;> simp_all)

/-- the condition holds of a tx iff one of the values indexed under its key passes the test -/
def condHolds (c : Cond) (r : TxResult) : Bool := (valuesOf (attrsAll r) c.key).any (valTest c)

theorem condMatch_strCond (c : Cond) (hc : StrCond c) (r : TxResult)
    (hcan : ∀ n, c.operand = .int n → ∀ v ∈ valuesOf (attrsAll r) c.key, ∃ m, m ≤ maxInt64 ∧ v = dec m) :
    condMatch c (eventsOf r) = .ok (condHolds c r) := by
  obtain ⟨_, _, h⟩ := hc
  unfold condMatch condHolds
  rw [lookup_eventsOf]
  rcases h with ⟨hop, s, hs, _⟩ | ⟨hop, hnone, hdot⟩ | ⟨hop, s, hs⟩ | ⟨hop, n, hn, hle, _⟩
  · rw [hop, hs]; simp only
    have ht : valTest c = strTest .eq s := by funext v; simp [valTest, strTest, hop, hs]
    by_cases he : valuesOf (attrsAll r) c.key = []
    · simp [he]
    · simp only [he, if_false, matchValues_str, ht]
  · rw [hop, hnone]; simp only [hdot, if_true]
    by_cases he : valuesOf (attrsAll r) c.key = []
    · simp [he]
    · simp only [he, if_false]
      congr 1
      cases hv : valuesOf (attrsAll r) c.key with
      | nil => exact absurd hv he
      | cons a b => simp [valTest, hop]
  · rw [hop, hs]; simp only
    have ht : valTest c = strTest .contains s := by funext v; simp [valTest, strTest, hop, hs]
    by_cases he : valuesOf (attrsAll r) c.key = []
    · simp [he]
    · simp only [he, if_false, matchValues_str, ht]
  · rw [hop, hn]; simp only
    have hgt : ¬ n > maxInt64 := Nat.not_lt.mpr hle
    simp only [hgt, if_false]
    have ht : valTest c = (· == dec n) := by funext v; simp [valTest, hop, hn]
    by_cases he : valuesOf (attrsAll r) c.key = []
    · simp [he]
    · simp only [he, if_false, matchValues_int_eq n _ (hcan n hn), ht]

theorem matchConds_all (q : Query) (r : TxResult) (hq : ∀ c ∈ q, StrCond c)
    (hcan : ∀ c ∈ q, ∀ n, c.operand = .int n →
      ∀ v ∈ valuesOf (attrsAll r) c.key, ∃ m, m ≤ maxInt64 ∧ v = dec m) :
    matchConds q (eventsOf r) = .ok (q.all fun c => condHolds c r) := by
  induction q with
  | nil => rfl
  | cons c rest ih =>
    unfold matchConds
    rw [condMatch_strCond c (hq c List.mem_cons_self) r (hcan c List.mem_cons_self)]
    cases h : condHolds c r with
    | false => simp [h]
    | true => simp [h, ih (fun c' hc' => hq c' (List.mem_cons_of_mem _ hc'))
        (fun c' hc' => hcan c' (List.mem_cons_of_mem _ hc'))]


/-! ### scan side -/

def secRow (r : TxResult) (kv : Str × Str) : Bytes × Val :=
  (keyForEvent kv.1 kv.2 r.height r.index, Val.hash (H r.tx))

theorem mem_db_cases {hist : List TxResult} (hc : CleanHist H hist) (row : Bytes × Val) :
    row ∈ addBatch H [] hist ↔
      ∃ r ∈ hist, (∃ kv ∈ attrsAll r, row = secRow H r kv) ∨ row = (H r.tx, Val.result r) := by
  rw [mem_db_iff H hc]
  simp only [List.mem_flatMap, rowsOf, List.mem_append, List.mem_map, List.mem_singleton, secRow]
  constructor
  · rintro ⟨r, hr, h⟩
    refine ⟨r, hr, ?_⟩
    rcases h with ⟨kv, hkv, rfl⟩ | rfl
    · exact Or.inl ⟨kv, hkv, rfl⟩
    · exact Or.inr rfl
  · rintro ⟨r, hr, h⟩
    refine ⟨r, hr, ?_⟩
    rcases h with ⟨kv, hkv, rfl⟩ | rfl
    · exact Or.inl ⟨kv, hkv, rfl⟩
    · exact Or.inr rfl

/-- rows under the prefix `k/` -/
theorem mem_prefix1 {hist : List TxResult} (hc : CleanHist H hist) (k : Str) (hk : sep ∉ k)
    (row : Bytes × Val) :
    row ∈ prefixRows (addBatch H [] hist) (startKey [k]) ↔
      ∃ r ∈ hist, ∃ kv ∈ attrsAll r, kv.1 = k ∧ row = secRow H r kv := by
  have hp : startKey [k] = k ++ sep :: [] := by simp [startKey]
  simp only [prefixRows, List.mem_filter, List.isPrefixOf_iff_prefix, hp, mem_db_cases H hc]
  constructor
  · rintro ⟨⟨r, hr, h⟩, hpre⟩
    rcases h with ⟨kv, hkv, rfl⟩ | rfl
    · have cl := attrsAll_clean H hc hr hkv
      simp only [secRow, keyForEvent] at hpre
      have := (prefix_sep hk cl.1).mp hpre
      exact ⟨r, hr, kv, hkv, this.1.symm, rfl⟩
    · exact absurd hpre (not_prefix_of_nosep (hc.hashNoSep r hr))
  · rintro ⟨r, hr, kv, hkv, rfl, rfl⟩
    have cl := attrsAll_clean H hc hr hkv
    refine ⟨⟨r, hr, Or.inl ⟨kv, hkv, rfl⟩⟩, ?_⟩
    simp only [secRow, keyForEvent]
    exact (prefix_sep hk cl.1).mpr ⟨rfl, List.nil_prefix⟩

/-- rows under the prefix `k/s/` -/
theorem mem_prefix2 {hist : List TxResult} (hc : CleanHist H hist) (k s : Str) (hk : sep ∉ k)
    (hs : sep ∉ s) (row : Bytes × Val) :
    row ∈ prefixRows (addBatch H [] hist) (startKey [k, s]) ↔
      ∃ r ∈ hist, ∃ kv ∈ attrsAll r, kv.1 = k ∧ kv.2 = s ∧ row = secRow H r kv := by
  have hp : startKey [k, s] = k ++ sep :: (s ++ sep :: []) := by simp [startKey]
  simp only [prefixRows, List.mem_filter, List.isPrefixOf_iff_prefix, hp, mem_db_cases H hc]
  constructor
  · rintro ⟨⟨r, hr, h⟩, hpre⟩
    rcases h with ⟨kv, hkv, rfl⟩ | rfl
    · have cl := attrsAll_clean H hc hr hkv
      simp only [secRow, keyForEvent] at hpre
      have h1 := (prefix_sep hk cl.1).mp hpre
      have h2 := (prefix_sep hs cl.2).mp h1.2
      exact ⟨r, hr, kv, hkv, h1.1.symm, h2.1.symm, rfl⟩
    · exact absurd hpre (not_prefix_of_nosep (hc.hashNoSep r hr))
  · rintro ⟨r, hr, kv, hkv, rfl, rfl, rfl⟩
    have cl := attrsAll_clean H hc hr hkv
    refine ⟨⟨r, hr, Or.inl ⟨kv, hkv, rfl⟩⟩, ?_⟩
    simp only [secRow, keyForEvent]
    exact (prefix_sep hk cl.1).mpr ⟨rfl, (prefix_sep hs cl.2).mpr ⟨rfl, List.nil_prefix⟩⟩

theorem condRows_strCond {hist : List TxResult} (hc : CleanHist H hist) (c : Cond) (hs : StrCond c) :
    ∃ rows, condRows (addBatch H [] hist) c 0 = some rows ∧
      ∀ row, row ∈ rows ↔
        ∃ r ∈ hist, ∃ kv ∈ attrsAll r, kv.1 = c.key ∧ valTest c kv.2 = true ∧ row = secRow H r kv := by
  obtain ⟨hk, _, h⟩ := hs
  rcases h with ⟨hop, s, hso, hsn⟩ | ⟨hop, hnone, _⟩ | ⟨hop, s, hso⟩ | ⟨hop, n, hso, _, _⟩
  rotate_left 3
  · refine ⟨_, by simp only [condRows, hop]; rfl, ?_⟩
    intro row
    have : startKeyFor c 0 = startKey [c.key, dec n] := by simp [startKeyFor, hso, operandStr]
    rw [this, mem_prefix2 H hc c.key (dec n) hk (dec_nosep n)]
    constructor
    · rintro ⟨r, hr, kv, hkv, h1, h2, h3⟩
      exact ⟨r, hr, kv, hkv, h1, by simp [valTest, hop, hso, h2], h3⟩
    · rintro ⟨r, hr, kv, hkv, h1, h2, h3⟩
      exact ⟨r, hr, kv, hkv, h1, by simpa [valTest, hop, hso] using h2, h3⟩
  · refine ⟨_, by simp only [condRows, hop]; rfl, ?_⟩
    intro row
    have : startKeyFor c 0 = startKey [c.key, s] := by simp [startKeyFor, hso, operandStr]
    rw [this, mem_prefix2 H hc c.key s hk hsn]
    constructor
    · rintro ⟨r, hr, kv, hkv, h1, h2, h3⟩
      exact ⟨r, hr, kv, hkv, h1, by simp [valTest, hop, hso, h2], h3⟩
    · rintro ⟨r, hr, kv, hkv, h1, h2, h3⟩
      exact ⟨r, hr, kv, hkv, h1, by simpa [valTest, hop, hso] using h2, h3⟩
  · refine ⟨_, by simp only [condRows, hop]; rfl, ?_⟩
    intro row
    rw [mem_prefix1 H hc c.key hk]
    constructor
    · rintro ⟨r, hr, kv, hkv, h1, h3⟩
      exact ⟨r, hr, kv, hkv, h1, by simp [valTest, hop], h3⟩
    · rintro ⟨r, hr, kv, hkv, h1, _, h3⟩
      exact ⟨r, hr, kv, hkv, h1, h3⟩
  · refine ⟨_, by simp only [condRows, hop, hso]; rfl, ?_⟩
    intro row
    simp only [List.mem_filter, mem_prefix1 H hc c.key hk]
    constructor
    · rintro ⟨⟨r, hr, kv, hkv, h1, rfl⟩, htest⟩
      have cl := attrsAll_clean H hc hr hkv
      simp only [secRow, isTagKey_key _ _ _ _ cl.1 cl.2, extractValue_key _ _ _ _ cl.1 cl.2,
        Bool.true_and] at htest
      exact ⟨r, hr, kv, hkv, h1, by simp [valTest, hop, hso, htest], rfl⟩
    · rintro ⟨r, hr, kv, hkv, h1, h2, rfl⟩
      have cl := attrsAll_clean H hc hr hkv
      refine ⟨⟨r, hr, kv, hkv, h1, rfl⟩, ?_⟩
      simp only [secRow, isTagKey_key _ _ _ _ cl.1 cl.2, extractValue_key _ _ _ _ cl.1 cl.2,
        Bool.true_and]
      simpa [valTest, hop, hso] using h2


/-! ### the intersection loop of `Search` -/

theorem valHashes_all_hash (rows : DB) (h : ∀ row ∈ rows, ∃ x, row.2 = Val.hash x) :
    ∃ hs, valHashes rows = some hs ∧ ∀ x, x ∈ hs ↔ ∃ row ∈ rows, row.2 = Val.hash x := by
  induction rows with
  | nil => exact ⟨[], rfl, by simp⟩
  | cons row rest ih =>
    obtain ⟨hs, e, hm⟩ := ih (fun r hr => h r (List.mem_cons_of_mem _ hr))
    obtain ⟨x, hx⟩ := h row List.mem_cons_self
    unfold valHashes at e ⊢
    refine ⟨x :: hs, ?_, ?_⟩
    · simp [List.mapM_cons, hx, e]
    · intro y
      simp only [List.mem_cons, hm]
      constructor
      · rintro (rfl | ⟨r, hr, e'⟩)
        · exact ⟨row, Or.inl rfl, hx⟩
        · exact ⟨r, Or.inr hr, e'⟩
      · rintro ⟨r, (rfl | hr), e'⟩
        · left; rw [hx] at e'; exact (Val.hash.inj e').symm
        · right; exact ⟨r, hr, e'⟩

/-- one scan step on an already initialised set is an intersection -/
theorem scanStep_some (L hs : List Bytes) (rows : DB) (hv : valHashes rows = some hs) :
    ∃ L', scanStep (.ok (some L)) (some rows) = .ok (some L') ∧ ∀ x, x ∈ L' ↔ x ∈ L ∧ x ∈ hs := by
  unfold scanStep
  by_cases hL : L = []
  · subst hL
    exact ⟨[], by simp, by simp⟩
  · have h1 : (some L == some ([] : List Bytes)) = false := by simp [hL]
    simp only [h1, Bool.false_eq_true, if_false, hv, applyScan]
    have h2 : L.isEmpty = false := by cases L <;> simp_all
    simp only [h2, Bool.false_eq_true, if_false]
    by_cases hh : hs.isEmpty = true
    · have : hs = [] := by cases hs <;> simp_all
      subst this
      exact ⟨[], by simp, by simp⟩
    · simp only [hh, if_false]
      exact ⟨_, rfl, by intro x; simp [List.mem_filter]⟩

theorem scanStep_none (hs : List Bytes) (rows : DB) (hv : valHashes rows = some hs) :
    ∃ L', scanStep (.ok none) (some rows) = .ok (some L') ∧ ∀ x, x ∈ L' ↔ x ∈ hs := by
  unfold scanStep
  have h1 : ((none : Option (List Bytes)) == some []) = false := rfl
  simp only [h1, Bool.false_eq_true, if_false, hv, applyScan]
  exact ⟨_, rfl, fun x => List.mem_eraseDups⟩

/-- the loop over conditions whose scans succeed computes the intersection of their hash sets -/
theorem fold_scan (db : DB) (q : Query) (S : Cond → List Bytes)
    (hS : ∀ c ∈ q, ∃ rows, condRows db c 0 = some rows ∧ ∃ hs, valHashes rows = some hs ∧ ∀ x, x ∈ hs ↔ x ∈ S c)
    (L : List Bytes) :
    ∃ L', q.foldl (fun st c => scanStep st (condRows db c 0)) (.ok (some L)) = .ok (some L') ∧
      ∀ x, x ∈ L' ↔ x ∈ L ∧ ∀ c ∈ q, x ∈ S c := by
  induction q generalizing L with
  | nil => exact ⟨L, rfl, by simp⟩
  | cons c rest ih =>
    obtain ⟨rows, hr, hs, hv, hm⟩ := hS c List.mem_cons_self
    obtain ⟨L1, e1, m1⟩ := scanStep_some L hs rows hv
    obtain ⟨L', e', m'⟩ := ih (fun c' hc' => hS c' (List.mem_cons_of_mem _ hc')) L1
    refine ⟨L', ?_, ?_⟩
    · simp only [List.foldl_cons, hr, e1, e']
    · intro x
      rw [m', m1, hm]
      simp only [List.mem_cons, forall_eq_or_imp, and_assoc]

theorem fold_scan_first (db : DB) (q : Query) (hq : q ≠ []) (S : Cond → List Bytes)
    (hS : ∀ c ∈ q, ∃ rows, condRows db c 0 = some rows ∧ ∃ hs, valHashes rows = some hs ∧ ∀ x, x ∈ hs ↔ x ∈ S c) :
    ∃ L', q.foldl (fun st c => scanStep st (condRows db c 0)) (.ok none) = .ok (some L') ∧
      ∀ x, x ∈ L' ↔ ∀ c ∈ q, x ∈ S c := by
  cases q with
  | nil => exact absurd rfl hq
  | cons c rest =>
    obtain ⟨rows, hr, hs, hv, hm⟩ := hS c List.mem_cons_self
    obtain ⟨L1, e1, m1⟩ := scanStep_none hs rows hv
    obtain ⟨L', e', m'⟩ := fold_scan db rest S (fun c' hc' => hS c' (List.mem_cons_of_mem _ hc')) L1
    refine ⟨L', ?_, ?_⟩
    · simp only [List.foldl_cons, hr, e1, e']
    · intro x
      rw [m', m1, hm]
      simp only [List.mem_cons, forall_eq_or_imp]

theorem condHolds_iff (c : Cond) (r : TxResult) :
    condHolds c r = true ↔ ∃ kv ∈ attrsAll r, kv.1 = c.key ∧ valTest c kv.2 = true := by
  simp only [condHolds, List.any_eq_true]
  constructor
  · rintro ⟨v, hv, ht⟩
    exact ⟨(c.key, v), (mem_valuesOf _ _ _).mp hv, rfl, ht⟩
  · rintro ⟨kv, hkv, hk, ht⟩
    refine ⟨kv.2, (mem_valuesOf _ _ _).mpr ?_, ht⟩
    rw [← hk]; exact hkv



/-! ### range scans over canonical decimals -/

theorem parseInt_dec (m : Nat) (hm : m ≤ maxInt64) : parseInt (dec m) = some (m : Int) := by
  have hd := dec_isDigit m
  have hv := digitsVal_dec m
  cases hl : dec m with
  | nil => exact absurd hl (dec_ne_nil m)
  | cons d ds =>
    rw [hl] at hd hv
    have hd0 : isDigit d = true := hd d List.mem_cons_self
    have h45 : d ≠ 45 := by intro e; rw [e] at hd0; simp [isDigit] at hd0
    have h43 : d ≠ 43 := by intro e; rw [e] at hd0; simp [isDigit] at hd0
    have hall : (d :: ds).all isDigit = true := List.all_eq_true.mpr hd
    simp [parseInt, h45, h43, hall, hv, hm]

/-- the numeric test `matchRange` applies to a parsed value -/
def inR (r : QRange) (m : Nat) : Bool :=
  (match lowerBoundValue r with | some lo => decide (lo ≤ (m : Int)) | none => true) &&
  (match upperBoundValue r with | some hi => decide ((m : Int) ≤ hi) | none => true)

/-- every value indexed under `k` is a canonical decimal within int64 -/
def CanonKey (hist : List TxResult) (k : Str) : Prop :=
  ∀ r ∈ hist, ∀ kv ∈ attrsAll r, kv.1 = k → ∃ m, m ≤ maxInt64 ∧ kv.2 = dec m

theorem mem_rangeRows {hist : List TxResult} (hc : CleanHist H hist) (r : QRange) (hk : sep ∉ r.key)
    (hcan : CanonKey hist r.key) (row : Bytes × Val) :
    row ∈ rangeRows (addBatch H [] hist) r ↔
      ∃ rr ∈ hist, ∃ kv ∈ attrsAll rr, kv.1 = r.key ∧
        (∃ m, kv.2 = dec m ∧ inR r m = true) ∧ row = secRow H rr kv := by
  simp only [rangeRows, List.mem_filter, mem_prefix1 H hc r.key hk]
  constructor
  · rintro ⟨⟨rr, hrr, kv, hkv, h1, rfl⟩, htest⟩
    have cl := attrsAll_clean H hc hrr hkv
    obtain ⟨m, hm, hv⟩ := hcan rr hrr kv hkv h1
    simp only [secRow, isTagKey_key _ _ _ _ cl.1 cl.2, extractValue_key _ _ _ _ cl.1 cl.2,
      Bool.true_and] at htest
    simp only [hv, parseInt_dec m hm] at htest
    exact ⟨rr, hrr, kv, hkv, h1, ⟨m, hv, htest⟩, rfl⟩
  · rintro ⟨rr, hrr, kv, hkv, h1, ⟨m, hv, ht⟩, rfl⟩
    have cl := attrsAll_clean H hc hrr hkv
    obtain ⟨m', hm', hv'⟩ := hcan rr hrr kv hkv h1
    have : m' = m := dec_inj (hv'.symm.trans hv)
    subst this
    refine ⟨⟨rr, hrr, kv, hkv, h1, rfl⟩, ?_⟩
    simp only [secRow, isTagKey_key _ _ _ _ cl.1 cl.2, extractValue_key _ _ _ _ cl.1 cl.2,
      Bool.true_and]
    simp only [hv, parseInt_dec m' hm']
    exact ht

/-- numeric comparison against canonical values never fails and compares the numbers -/
theorem matchValues_int_canon (op : Op) (n : Nat) (ms : List Nat) (hms : ∀ m ∈ ms, m ≤ maxInt64) :
    matchValues op (.int n) (ms.map dec) = .ok (ms.any fun m => cmpInt op m n) := by
  induction ms with
  | nil => rfl
  | cons m rest ih =>
    have ih' := ih (fun x hx => hms x (List.mem_cons_of_mem _ hx))
    simp only [List.map_cons, List.any_cons]
    unfold matchValues
    simp only [matchValue, convInt_dec m (hms m List.mem_cons_self)]
    cases h : cmpInt op m n with
    | true => simp
    | false => simp [ih']


theorem canon_list (vs : List Str) (h : ∀ v ∈ vs, ∃ m, m ≤ maxInt64 ∧ v = dec m) :
    ∃ ms : List Nat, vs = ms.map dec ∧ ∀ m ∈ ms, m ≤ maxInt64 := by
  induction vs with
  | nil => exact ⟨[], rfl, by simp⟩
  | cons v rest ih =>
    obtain ⟨m, hm, rfl⟩ := h v List.mem_cons_self
    obtain ⟨ms, e, hms⟩ := ih (fun x hx => h x (List.mem_cons_of_mem _ hx))
    refine ⟨m :: ms, by simp [e], ?_⟩
    intro x hx
    rcases List.mem_cons.mp hx with rfl | hx
    · exact hm
    · exact hms x hx

/-- a lower / an upper bound condition on key `k` -/
def loCond (k : Str) (a : Nat) (inc : Bool) : Cond :=
  { key := k, op := if inc then .ge else .gt, operand := .int a }
def hiCond (k : Str) (b : Nat) (inc : Bool) : Cond :=
  { key := k, op := if inc then .le else .lt, operand := .int b }

/-- the interval `LookForRanges` builds from one lower and one upper bound on the same key -/
def window (k : Str) (a : Nat) (incA : Bool) (b : Nat) (incB : Bool) : QRange :=
  { key := k, lower := some a, upper := some b, incLower := incA, incUpper := incB }

theorem lookForRanges_lo_hi (k : Str) (a : Nat) (incA : Bool) (b : Nat) (incB : Bool) :
    lookForRanges [loCond k a incA, hiCond k b incB] = [window k a incA b incB] ∧
    lookForRanges [hiCond k b incB, loCond k a incA] = [window k a incA b incB] := by
  cases incA <;> cases incB <;>
    simp [lookForRanges, addRange, updRange, loCond, hiCond, isRangeOp, operandNat, window]

theorem inR_window (k : Str) (a : Nat) (incA : Bool) (b : Nat) (incB : Bool) (m : Nat)
    (ha : incA = false → a < maxInt64) :
    inR (window k a incA b incB) m =
      (cmpInt (loCond k a incA).op m a && cmpInt (hiCond k b incB).op m b) := by
  have hne : incA = false → ¬ a = maxInt64 := fun h e => by have := ha h; omega
  cases incA <;> cases incB <;>
    simp [inR, window, lowerBoundValue, upperBoundValue, loCond, hiCond, cmpInt, hne]
  · have h1 : ¬ ((a : Int) = (maxInt64 : Int)) := by have := hne rfl; omega
    rw [if_neg h1]; congr 1 <;> (apply decide_eq_decide.mpr; omega)
  · have h1 : ¬ ((a : Int) = (maxInt64 : Int)) := by have := hne rfl; omega
    rw [if_neg h1]; congr 1; apply decide_eq_decide.mpr; omega
  · congr 1; apply decide_eq_decide.mpr; omega


/-- a query made of range conditions that `LookForRanges` folds into ONE interval is answered by
that interval's scan alone -/
theorem search_single_range (db : DB) (q : Query) (W : QRange) (hs : List Bytes)
    (h1 : conditionsOK q = true) (h2 : lookForHash q = none) (h3 : lookForRanges q = [W])
    (h4 : lookForHeight q = none) (h5 : q.filter (fun c => !isRangeOp c.op) = [])
    (hv : valHashes (rangeRows db W) = some hs) :
    ∃ L, search db q = .hashes L ∧ ∀ x, x ∈ L ↔ x ∈ hs := by
  obtain ⟨L, e, m⟩ := scanStep_none hs (rangeRows db W) hv
  refine ⟨L, ?_, m⟩
  simp only [search, h1, h2, h3, h4, h5, Bool.not_true, Bool.false_eq_true, if_false,
    List.foldl_cons, List.foldl_nil, e, Option.getD_none]

/-- `Matches` on a two-sided window over a single canonical value -/
theorem matches_window (k : Str) (a : Nat) (incA : Bool) (b : Nat) (incB : Bool)
    (ha : a ≤ maxInt64) (hb : b ≤ maxInt64) (hax : incA = false → a < maxInt64)
    (r : TxResult) (hcan : ∀ v ∈ valuesOf (attrsAll r) k, ∃ m, m ≤ maxInt64 ∧ v = dec m)
    (hsingle : (valuesOf (attrsAll r) k).length ≤ 1) :
    («matches» [loCond k a incA, hiCond k b incB] (eventsOf r) = .ok true ↔
      ∃ m, (k, dec m) ∈ attrsAll r ∧ inR (window k a incA b incB) m = true) ∧
    («matches» [hiCond k b incB, loCond k a incA] (eventsOf r) = .ok true ↔
      ∃ m, (k, dec m) ∈ attrsAll r ∧ inR (window k a incA b incB) m = true) := by
  obtain ⟨ms, hvs, hms⟩ := canon_list _ hcan
  have hga : ¬ a > maxInt64 := Nat.not_lt.mpr ha
  have hgb : ¬ b > maxInt64 := Nat.not_lt.mpr hb
  have hlook := lookup_eventsOf r k
  have hmem : ∀ m, (k, dec m) ∈ attrsAll r ↔ dec m ∈ valuesOf (attrsAll r) k :=
    fun m => (mem_valuesOf _ _ _).symm
  match ms, hvs, hms with
  | [], hvs, _ =>
    simp only [List.map_nil] at hvs
    rw [hvs] at hlook
    simp only [if_true] at hlook
    have hno : ¬ ∃ m, (k, dec m) ∈ attrsAll r ∧ inR (window k a incA b incB) m = true := by
      rintro ⟨m, h, _⟩; rw [hmem, hvs] at h; cases h
    constructor <;>
    · simp only [hno, iff_false]
      cases incA <;> cases incB <;>
        simp [«matches», eventsOf_nonempty, matchConds, condMatch, loCond, hiCond, hlook, hga, hgb]
  | [m], hvs, hms =>
    simp only [List.map_cons, List.map_nil] at hvs
    rw [hvs] at hlook
    simp only [List.cons_ne_nil, if_false] at hlook
    have hm := hms m List.mem_cons_self
    have hex : (∃ m', (k, dec m') ∈ attrsAll r ∧ inR (window k a incA b incB) m' = true) ↔
        inR (window k a incA b incB) m = true := by
      constructor
      · rintro ⟨m', h, hin⟩
        rw [hmem, hvs] at h
        simp only [List.mem_cons, List.not_mem_nil, or_false] at h
        rw [dec_inj h] at hin; exact hin
      · intro hin; exact ⟨m, by rw [hmem, hvs]; simp, hin⟩
    have hlo : ∀ op, matchValues op (.int a) [dec m] = .ok (cmpInt op m a) := by
      intro op
      have := matchValues_int_canon op a [m] (by simpa using hm)
      simpa using this
    have hhi : ∀ op, matchValues op (.int b) [dec m] = .ok (cmpInt op m b) := by
      intro op
      have := matchValues_int_canon op b [m] (by simpa using hm)
      simpa using this
    rw [hex, inR_window k a incA b incB m hax]
    constructor <;>
    · cases incA <;> cases incB <;>
        simp only [«matches», eventsOf_nonempty, matchConds, condMatch, loCond, hiCond, hlook, hga,
          hgb, hlo, hhi, Bool.false_eq_true, if_false, if_true] <;>
        (cases cmpInt _ m a <;> cases cmpInt _ m b <;> simp)
  | _ :: _ :: _, hvs, _ =>
    rw [hvs] at hsingle
    simp at hsingle

end Tmv.Index
