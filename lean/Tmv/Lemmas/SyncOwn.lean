import Tmv.Lemmas.SyncLog
import Tmv.Lemmas.SyncOwnNode
/-! A correct node's own votes are recorded in its own vote sets once its internal queue is empty
(C03, ingredient of the network-level good round): the vote is signed, queued, and handled by
`addVote` within the same `Cons.step`; it is for a round the node tracks, it is well signed, and the
node never signs two different votes of one type in one round (`G`), so it is never refused.

The node-level part (Lemmas/SyncOwnNode.lean) shows that one input of the receive routine keeps
"every signed vote is recorded or still queued" provided the input is no future-round timeout and no
vote carrying the node's own index; the net (`LogInv`, Lemmas/SyncLog.lean) only ever hands a node
such inputs. -/
namespace Tmv.Sync
open Tmv.Cons

/-- own votes: every vote the node signed is recorded in its vote set or still waits in its queue
(only halted / decided nodes stop handling their queue) -/
def OwnRecorded (me : Nat) (s : NodeState) : Prop :=
  s.halted = false → s.decided = none →
  ∀ t r b, Output.signVote t r b ∈ s.out →
    s.votes.has (r : Int) t b me ∨ Internal.vote ⟨t, r, b, me, true, me, me⟩ ∈ s.queue

/-- what is kept per node (whose index is a validator index): well-formed vote sets, the rounds up
to the node's round are tracked, signed votes are recorded or queued -/
structure OwnOK (c : SCfg) (nd : Node) : Prop where
  wf : HVS.WF (nodeCfg c.cfg nd.idx) nd.s.votes
  rt : RT nd.s
  oq : OQ nd.idx nd.s

/-- the invariant of reachable nets: `LogInv` and, per node, `OwnOK` -/
structure OwnInv (c : SCfg) (net : Net) : Prop where
  log : LogInv net
  own : ∀ nd ∈ net.nodes, nd.idx < c.cfg.n → OwnOK c nd

/-- at the boundaries of `Cons.step`, a recorded vote of the node itself is one it signed -/
theorem mine_of_LogInv {net : Net} (h : LogInv net) (nd : Node) (hm : nd ∈ net.nodes) : Mine nd.idx nd.s := by
  intro r t k hh
  rcases h.recorded nd hm _ _ _ _ hh with ⟨_, rn, hrn, ho⟩ | ⟨w, hw, hwval, hwt, hwr, hwb⟩
  · have : rn = r := by exact_mod_cast hrn
    subst this; exact ho
  · have hwr' : w.round = r := by exact_mod_cast hwr
    have s2 := h.signed nd hm w hw hwval
    rw [hwt, hwr', hwb] at s2
    exact s2

theorem OwnInv.init (c : SCfg) (correct : List Nat) (hn : correct.Nodup) : OwnInv c (Net.init correct) := by
  refine ⟨LogInv.init correct hn, ?_⟩
  intro nd hm _
  unfold Net.init at hm
  simp only [List.mem_map] at hm
  obtain ⟨i, _, e⟩ := hm
  subst e
  exact ⟨HVS.WF.init _, RTI.init, OQI.init i⟩

theorem input_OwnInv (c : SCfg) (net : Net) (i : Nat) (inp : Input) (h : OwnInv c net)
    (hok : ∀ nd, net.nodes[i]? = some nd → InputOK net nd inp) : OwnInv c (net.input c i inp) := by
  refine ⟨input_LogInv c net i inp h.log hok, ?_⟩
  unfold Net.input
  cases hi : net.nodes[i]? with
  | none => exact h.own
  | some nd =>
    dsimp only
    have hmem : nd ∈ net.nodes := List.mem_of_getElem? hi
    obtain ⟨hnf, hvote⟩ := hok nd hi
    intro x hx hlt
    unfold setNode at hx
    rcases List.mem_or_eq_of_mem_set hx with h1 | h1
    · exact h.own x h1 hlt
    · subst h1
      have hlt' : nd.idx < c.cfg.n := hlt
      have hnd := h.log.nodes nd hmem
      have ho := h.own nd hmem hlt'
      have mid : Mid (nodeCfg c.cfg nd.idx) nd.idx nd.s :=
        ⟨hnd.g, hnd.n, ho.wf, mine_of_LogInv h.log nd hmem, ho.rt, ho.oq⟩
      have mid' := step_Mid (c := nodeCfg c.cfg nd.idx) (me := nd.idx) rfl hlt' inp hnf
        (fun v peer hv => (hvote v peer hv).2) mid
      exact ⟨mid'.wf, mid'.rt, mid'.own⟩

/-- changes of flags, clock and tickers -/
theorem OwnInv.of_same {c : SCfg} {n n' : Net} (h : OwnInv c n) (hl : n'.log = n.log)
    (hn : n'.nodes = n.nodes) : OwnInv c n' :=
  ⟨h.log.of_same hl hn, by rw [hn]; exact h.own⟩

theorem foldl_OwnInv {c : SCfg} {α} (l : List α) (f : Net → α → Net)
    (hf : ∀ a n, OwnInv c n → OwnInv c (f n a)) (n : Net) (h : OwnInv c n) : OwnInv c (l.foldl f n) := by
  induction l generalizing n with
  | nil => exact h
  | cons a l ih => exact ih _ (hf a n h)

theorem deliver_OwnInv (c : SCfg) (net : Net) (i k : Nat) (h : OwnInv c net) : OwnInv c (net.deliver c i k) := by
  unfold Net.deliver
  split
  · rename_i nd m hi hk
    split
    · exact h
    · rename_i hown
      apply input_OwnInv c net i _ h
      intro nd' hi'
      rw [hi] at hi'; cases hi'
      refine ⟨?_, ?_⟩
      · cases m <;> exact trivial
      · intro v peer hv
        cases m with
        | proposal p => cases hv
        | block b => cases hv
        | vote w =>
          simp only [Msg.toInput, Input.vote.injEq] at hv
          obtain ⟨e, _⟩ := hv
          subst e
          refine ⟨List.mem_of_getElem? hk, ?_⟩
          intro e
          apply hown
          simp [Msg.own, Msg.signer, e]
  · exact h

theorem claim_OwnInv (c : SCfg) (net : Net) (i j : Nat) (h : OwnInv c net) : OwnInv c (net.claim c i j) := by
  unfold Net.claim
  split
  · exact h
  · split
    · exact h
    · rename_i p _ _
      apply foldl_OwnInv (claimsOf p.s)
        (fun net (x : Nat × VType × Bid) => net.input c i (.peerMaj23 x.1 x.2.1 (1 + p.idx) x.2.2)) _ net h
      intro x n hn
      apply input_OwnInv c n i _ hn
      intro nd _
      exact ⟨trivial, fun v peer hv => by cases hv⟩

theorem closure_OwnInv (c : SCfg) (net : Net) (h : OwnInv c net) : OwnInv c (net.closure c) := by
  have hpassNode : ∀ i n, OwnInv c n → OwnInv c (n.passNode c i) := by
    intro i n hn
    unfold Net.passNode
    have h1 := foldl_OwnInv (List.range n.nodes.length) (fun net j => net.claim c i j)
      (fun j n hn => claim_OwnInv c n i j hn) n hn
    exact foldl_OwnInv _ (fun net k => net.deliver c i k) (fun k n hn => deliver_OwnInv c n i k hn) _ h1
  have hpass : ∀ n, OwnInv c n → OwnInv c (n.pass c) := by
    intro n hn
    unfold Net.pass
    exact foldl_OwnInv _ (fun net i => net.passNode c i) (fun i n hn => hpassNode i n hn) n hn
  have hloop : ∀ fuel n, OwnInv c n → OwnInv c (closureLoop c fuel n) := by
    intro fuel
    induction fuel with
    | zero => intro n hn; exact hn
    | succ f ih =>
      intro n hn
      unfold closureLoop
      dsimp only
      split
      · exact hpass n hn
      · exact ih _ (hpass n hn)
  unfold Net.closure
  exact (hloop closureFuel net h).of_same rfl rfl

theorem fire_OwnInv (c : SCfg) (net : Net) (i : Nat) (h : OwnInv c net) : OwnInv c (net.fire c i) := by
  unfold Net.fire
  cases hi : net.nodes[i]? with
  | none => exact h
  | some nd =>
    dsimp only
    cases hp : nd.tick.pending with
    | none => exact h
    | some x =>
      obtain ⟨r, st, e⟩ := x
      dsimp only
      have hmem : nd ∈ net.nodes := List.mem_of_getElem? hi
      have hlt : i < net.nodes.length := by
        rcases Nat.lt_or_ge i net.nodes.length with h1 | h1
        · exact h1
        · rw [List.getElem?_eq_none h1] at hi; cases hi
      have hnd := h.log.nodes nd hmem
      -- the net with the timer cleared
      let nd0 : Node := { nd with tick := { nd.tick with pending := none } }
      have hnodes0 : ∀ x ∈ setNode net.nodes i nd0, x ∈ net.nodes ∨ x = nd0 := by
        intro x hx
        unfold setNode at hx
        exact List.mem_or_eq_of_mem_set hx
      have h0 : OwnInv c { net with nodes := setNode net.nodes i nd0, now := max net.now e } := by
        refine ⟨⟨?_, ?_, ?_, ?_⟩, ?_⟩
        · intro x hx
          rcases hnodes0 x hx with hx' | hx'
          · exact h.log.nodes x hx'
          · subst hx'
            exact ⟨hnd.g, hnd.n, fun _ _ _ hh => by cases hh⟩
        · have : (setNode net.nodes i nd0).map (·.idx) = net.nodes.map (·.idx) := by
            unfold setNode
            rw [List.map_set]
            have : (net.nodes.map (·.idx))[i]? = some nd.idx := by rw [List.getElem?_map, hi]; rfl
            exact list_set_self_of_getElem? _ _ _ this
          show ((setNode net.nodes i nd0).map (·.idx)).Nodup
          rw [this]; exact h.log.idxNodup
        · intro x hx v hv hval
          rcases hnodes0 x hx with hx' | hx'
          · exact h.log.signed x hx' v hv hval
          · subst hx'; exact h.log.signed nd hmem v hv hval
        · intro x hx r' t k u hh
          rcases hnodes0 x hx with hx' | hx'
          · exact h.log.recorded x hx' r' t k u hh
          · subst hx'; exact h.log.recorded nd hmem r' t k u hh
        · intro x hx hxlt
          rcases hnodes0 x hx with hx' | hx'
          · exact h.own x hx' hxlt
          · subst hx'
            have ho := h.own nd hmem hxlt
            exact ⟨ho.wf, ho.rt, ho.oq⟩
      apply input_OwnInv c _ i _ h0
      intro nd' hi'
      have : (setNode net.nodes i nd0)[i]? = some nd0 := by
        unfold setNode; exact List.getElem?_set_self hlt
      have hi'' : nd' = nd0 := by
        have h1 : (setNode net.nodes i nd0)[i]? = some nd' := hi'
        rw [this] at h1; exact (Option.some.inj h1).symm
      subst hi''
      refine ⟨?_, fun v peer hv => by cases hv⟩
      show r ≤ nd.s.round
      rcases hnd.pend r st e hp with h1 | h1
      · omega
      · exact hnd.n.sched r st h1

/-- every scheduler / adversary move keeps the invariant -/
theorem op_OwnInv (c : SCfg) (net : Net) (op : Op) (h : OwnInv c net) : OwnInv c (net.op c op) := by
  cases op with
  | dl i k => exact (deliver_OwnInv c net i k h).of_same rfl rfl
  | byz m =>
    refine ⟨op_LogInv c net (.byz m) h.log, ?_⟩
    have : (net.op c (.byz m)).nodes = net.nodes := by
      show ((net.byz m).getD net).nodes = net.nodes
      unfold Net.byz
      dsimp only
      split <;> split <;> rfl
    rw [this]; exact h.own
  | claim i j => exact (claim_OwnInv c net i j h).of_same rfl rfl
  | byzclaim i r t peer b =>
    show OwnInv c (if net.faultyPeer c peer then net.input c i (.peerMaj23 r t peer b) else net)
    split
    · apply input_OwnInv c net i _ h
      intro nd _
      exact ⟨trivial, fun v peer hv => by cases hv⟩
    · exact h
  | fire i =>
    show OwnInv c (if net.synced ∧ !net.closed then net else if net.fireAllowed c i then net.fire c i else net)
    split
    · exact h
    · split
      · exact fire_OwnInv c net i h
      · exact h
  | closure => exact closure_OwnInv c net h
  | sync => exact h.of_same rfl rfl

theorem run_OwnInv (c : SCfg) (correct : List Nat) (hn : correct.Nodup) (ops : List Op) :
    OwnInv c ((Net.init correct).run c ops) := by
  unfold Net.run
  have : ∀ (l : List Op) (n : Net), OwnInv c n → OwnInv c (l.foldl (Net.op c) n) := by
    intro l
    induction l with
    | nil => intro n h; exact h
    | cons a l ih => intro n h; exact ih _ (op_OwnInv c n a h)
  exact this ops _ (OwnInv.init c correct hn)

/-- every node (with a validator index) of every reachable net: every vote it signed is recorded in
its vote sets or still waits in its internal queue — halted / decided or not -/
theorem own_votes_recorded_or_queued (c : SCfg) (correct : List Nat) (hn : correct.Nodup) (ops : List Op)
    (nd : Node) (hm : nd ∈ ((Net.init correct).run c ops).nodes) (hlt : nd.idx < c.cfg.n) :
    OwnRecorded nd.idx nd.s :=
  fun _ _ => ((run_OwnInv c correct hn ops).own nd hm hlt).oq

/-- **every live node of every reachable net whose queue is empty (it always is between the moves of
the scheduler: the stream compares the queue length after every move) has recorded every vote it
signed** -/
theorem own_votes_recorded (c : SCfg) (correct : List Nat) (hn : correct.Nodup) (ops : List Op)
    (nd : Node) (hm : nd ∈ ((Net.init correct).run c ops).nodes)
    (hlt : nd.idx < c.cfg.n) (hlive : nd.s.halted = false ∧ nd.s.decided = none)
    (hq : nd.s.queue = [])
    (t : VType) (r : Nat) (b : Bid) (hs : Output.signVote t r b ∈ nd.s.out) :
    nd.s.votes.has (r : Int) t b nd.idx := by
  rcases own_votes_recorded_or_queued c correct hn ops nd hm hlt hlive.1 hlive.2 t r b hs with h | h
  · exact h
  · rw [hq] at h; cases h

end Tmv.Sync
