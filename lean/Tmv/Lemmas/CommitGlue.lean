import Tmv.Lemmas.ConsCommit
import Tmv.Props.C07
/-! Glue between the vote-set commit of the node model (Tmv/Model/VoteSetCommit.lean, C02) and the
`VerifyCommit` model (Tmv/Model/CommitVerify.lean, C07): a concretisation of a `makeCommit` result as a
`CommitVerify.Commit`, and the proof that `verifyCommit` accepts it. -/
namespace Tmv.Cons
open Tmv.CommitVerify

/-- what the abstract model leaves open: chain id, height, the concrete block id of each block, validator
addresses, and for each validator the timestamp and signature of its stored precommit -/
structure Glue (σ : Type) where
  chainID : String
  height : Int
  bidOf : Nat → BlockID
  addrOf : Nat → Bytes
  tsOf : Nat → Int
  sigOf : Nat → Nat → Bid → σ        -- validator, round, voted value ↦ the signature in its precommit

def flagCode : SigFlag → Nat
  | .absent => flagAbsent | .commit => flagCommit | .nil => flagNil

variable {σ : Type}

/-- the validator set of configuration `c` (key of validator `i` is `i`) -/
def Glue.vals (g : Glue σ) (c : Cfg) : List Validator :=
  (List.range c.n).map fun i => ⟨g.addrOf i, i, (c.power i : Int)⟩

/-- one commit signature: flag, address, and the timestamp/signature of the slot's canonical vote -/
def Glue.sig (g : Glue σ) (r : Nat) (vs : VoteSet) (flags : List SigFlag) (i : Nat) : CommitSig σ :=
  ⟨flagCode (flags.getD i .absent), g.addrOf i, g.tsOf i, g.sigOf i r ((alookup vs.votes i).getD none)⟩

/-- the `types.Commit` that `MakeCommit` builds: block id of `b`, one signature per validator slot -/
def Glue.commit (g : Glue σ) (c : Cfg) (r b : Nat) (vs : VoteSet) (flags : List SigFlag) : Commit σ :=
  { height := g.height, round := r, blockID := g.bidOf b, sigs := (List.range c.n).map (g.sig r vs flags) }

/-- the sign bytes of validator `i`'s precommit for `bid` in round `r` -/
def Glue.signBytes (g : Glue σ) (r : Nat) (bid : Bid) (i : Nat) : SignBytes :=
  { type := precommitType, height := g.height, round := r, blockID := bid.map g.bidOf, ts := g.tsOf i,
    chainID := g.chainID }

theorem natCast_sum_range (f : Nat → Nat) (n : Nat) :
    (((List.range n).map fun i => ((f i : Nat) : Int)).sum : Int) = (((List.range n).map f).sum : Nat) := by
  induction n with
  | zero => simp
  | succ n ih =>
    rw [List.range_succ, List.map_append, List.map_append, List.sum_append, List.sum_append, ih]
    simp

theorem vals_getElem (g : Glue σ) (c : Cfg) (i : Nat) (v : Validator) (h : (g.vals c)[i]? = some v) :
    i < c.n ∧ v = ⟨g.addrOf i, i, (c.power i : Int)⟩ := by
  unfold Glue.vals at h
  rw [List.getElem?_map] at h
  cases hr : (List.range c.n)[i]? with
  | none => rw [hr] at h; simp at h
  | some j =>
    rw [hr] at h
    simp at h
    by_cases hi : i < c.n
    · rw [List.getElem?_range hi] at hr
      cases hr
      exact ⟨hi, h.symm⟩
    · have : (List.range c.n)[i]? = none := by simp; omega
      rw [this] at hr; cases hr

theorem powerAt_vals (g : Glue σ) (c : Cfg) (i : Nat) (h : i < c.n) : powerAt (g.vals c) i = (c.power i : Int) := by
  unfold powerAt Glue.vals
  simp [h]

theorem sumPower_vals (g : Glue σ) (c : Cfg) : sumPower (g.vals c) = (c.total : Int) := by
  unfold sumPower Glue.vals Cfg.total
  rw [List.map_map, ← natCast_sum_range]
  rfl

theorem nonNeg_vals (g : Glue σ) (c : Cfg) : NonNeg (g.vals c) := by
  intro v hv
  unfold Glue.vals at hv
  simp at hv
  obtain ⟨i, _, rfl⟩ := hv
  exact Int.natCast_nonneg _

/-- `fbSum` over a mapped index range -/
theorem fbSum_range' (vals : List Validator) (f : Nat → CommitSig σ) (m k : Nat) :
    fbSum vals ((List.range' k m).map f) k =
      ((List.range' k m).map fun i => if (f i).flag = flagCommit then powerAt vals i else 0).sum := by
  induction m generalizing k with
  | zero => simp [fbSum]
  | succ m ih =>
    rw [List.range'_succ]
    simp only [List.map_cons, fbSum, List.sum_cons]
    rw [ih]

theorem flagCode_commit (f : SigFlag) : flagCode f = flagCommit ↔ f = .commit := by
  cases f <;> simp [flagCode, flagCommit, flagAbsent, flagNil]

theorem fbSum_commit (g : Glue σ) (c : Cfg) (r b : Nat) (vs : VoteSet) (flags : List SigFlag) (hl : flags.length = c.n) :
    fbSum (g.vals c) (g.commit c r b vs flags).sigs 0 = (commitPower c flags : Int) := by
  unfold Glue.commit
  simp only []
  rw [List.range_eq_range', fbSum_range']
  unfold commitPower
  rw [hl, ← natCast_sum_range, List.range_eq_range']
  congr 1
  apply List.map_congr_left
  intro i hi
  have hin : i < c.n := by simpa using (List.mem_range'_1.mp hi).2
  unfold Glue.sig
  simp only [flagCode_commit]
  rw [powerAt_vals g c i hin]
  split <;> simp

theorem sigs_getElem (g : Glue σ) (c : Cfg) (r b : Nat) (vs : VoteSet) (flags : List SigFlag) (i : Nat)
    (s : CommitSig σ) (h : (g.commit c r b vs flags).sigs[i]? = some s) : i < c.n ∧ s = g.sig r vs flags i := by
  unfold Glue.commit at h
  simp only [] at h
  rw [List.getElem?_map] at h
  by_cases hi : i < c.n
  · rw [List.getElem?_range hi] at h
    simp at h
    exact ⟨hi, h.symm⟩
  · have : (List.range c.n)[i]? = none := by simp; omega
    rw [this] at h; simp at h

theorem zero_validBasic : BlockID.zero.validBasic = true := by decide
theorem zero_isZero : BlockID.zero.isZero = true := by decide

/-- **`verifyCommit` accepts the commit** built from flags that mark exactly the slots voting `b`, carry
more than two thirds, and whose non-absent slots hold votes with verifying signatures -/
theorem Glue.verifyCommit_ok (g : Glue σ) (sigOK : Nat → SignBytes → σ → Bool) (c : Cfg) (r b : Nat)
    (vs : VoteSet) (flags : List SigFlag) (hlen : flags.length = c.n)
    (hcommit : ∀ i, i < c.n → (flags.getD i .absent = .commit ↔ alookup vs.votes i = some (some b)))
    (hnil : ∀ i, i < c.n → (flags.getD i .absent = .nil ↔ alookup vs.votes i = some none))
    (hpow : 2 * c.total < 3 * commitPower c flags)
    (hmax : (c.total : Int) ≤ maxTotalVotingPower)
    (hvb : (g.bidOf b).validBasic = true) (hnz : (g.bidOf b).isZero = false)
    (hsig : ∀ i, i < c.n → ∀ bid, alookup vs.votes i = some bid → (bid = some b ∨ bid = none) →
      sigOK i (g.signBytes r bid i) (g.sigOf i r bid) = true) :
    verifyCommit sigOK (g.vals c) g.chainID (g.bidOf b) g.height (g.commit c r b vs flags) = .ok := by
  have hall : AllValid sigOK (g.vals c) g.chainID (g.commit c r b vs flags) := by
    intro i v s hv hs hne
    obtain ⟨hi, rfl⟩ := vals_getElem g c i v hv
    obtain ⟨_, rfl⟩ := sigs_getElem g c r b vs flags i s hs
    cases hf : flags.getD i .absent with
    | absent =>
      have e : (g.sig r vs flags i).flag = flagAbsent := by unfold Glue.sig; rw [hf]; rfl
      exact absurd e hne
    | commit =>
      have hvote := (hcommit i hi).1 hf
      have e : g.sig r vs flags i = ⟨flagCommit, g.addrOf i, g.tsOf i, g.sigOf i r (some b)⟩ := by
        unfold Glue.sig; rw [hf, hvote]; rfl
      rw [e]
      refine ⟨g.signBytes r (some b) i, ?_, hsig i hi (some b) hvote (Or.inl rfl)⟩
      simp [voteSignBytes, sigBlockID, flagCommit, flagAbsent, Glue.commit, hvb, canonBlockID, hnz, Glue.signBytes]
    | nil =>
      have hvote := (hnil i hi).1 hf
      have e : g.sig r vs flags i = ⟨flagNil, g.addrOf i, g.tsOf i, g.sigOf i r none⟩ := by
        unfold Glue.sig; rw [hf, hvote]; rfl
      rw [e]
      refine ⟨g.signBytes r none i, ?_, hsig i hi none hvote (Or.inr rfl)⟩
      simp [voteSignBytes, sigBlockID, flagCommit, flagAbsent, flagNil, Glue.commit, zero_validBasic, canonBlockID,
        zero_isZero, Glue.signBytes]
  have hlen' : (g.vals c).length = (g.commit c r b vs flags).sigs.length := by
    simp [Glue.vals, Glue.commit]
  have hex := Tmv.Props.C07.verifyCommit_exact sigOK (g.vals c) g.chainID (g.commit c r b vs flags)
    (nonNeg_vals g c) (by rw [sumPower_vals]; exact hmax) hlen' hall
  have e1 : (g.commit c r b vs flags).blockID = g.bidOf b := rfl
  have e2 : (g.commit c r b vs flags).height = g.height := rfl
  rw [e1, e2] at hex
  rw [hex, fbSum_commit g c r b vs flags hlen, sumPower_vals]
  omega

end Tmv.Cons
