import Tmv.Model.Validate
/-! Helper lemmas for C06: guard lists, weighted median, proto size bounds. -/
namespace Tmv.Validate
open Tmv.ProtoSize

/-! ### guard lists -/

theorem firstErr_ok_iff (l : List (Bool × Err)) :
    firstErr l = .ok () ↔ ∀ p ∈ l, p.1 = false := by
  induction l with
  | nil => simp [firstErr]
  | cons p r ih =>
    obtain ⟨c, e⟩ := p
    cases c <;> simp [firstErr, ih]

theorem firstErr_error_mem (l : List (Bool × Err)) (e : Err) (h : firstErr l = .error e) :
    (true, e) ∈ l := by
  induction l with
  | nil => simp [firstErr] at h
  | cons p r ih =>
    obtain ⟨c, e'⟩ := p
    cases c
    · simp [firstErr] at h; exact List.mem_cons_of_mem _ (ih h)
    · simp [firstErr] at h; subst h; exact List.mem_cons_self

/-- `validateBlock` accepts iff no guard fires -/
theorem validateBlock_ok_iff (env : Env) (st : State) (b : Block) :
    validateBlock env st b = .ok () ↔
      (∀ p ∈ headerGuards b.header, p.1 = false) ∧
      ∃ c, b.lastCommit = some c ∧
        (∀ p ∈ ([ (badCommit c, Err.lastCommitBasic),
            (b.header.lastCommitHash != env.hCommit c, .lastCommitHash),
            (b.header.dataHash != env.hData b.txs, .dataHash),
            (b.evidence.any (fun e => !e.basic), .evidenceBasic),
            (b.header.evidenceHash != env.hEv b.evidence, .evidenceHash) ]
          ++ stateGuards env st b c
          ++ [ (!env.evAdmissible st b.evidence, .evidenceCheck) ]), p.1 = false) := by
  unfold validateBlock
  cases hh : firstErr (headerGuards b.header) with
  | error e =>
    simp only [reduceCtorEq, false_iff]
    intro ⟨h1, _⟩
    rw [(firstErr_ok_iff _).mpr h1] at hh
    cases hh
  | ok u =>
    have h1 := (firstErr_ok_iff _).mp (by cases u; exact hh)
    cases hc : b.lastCommit with
    | none => simp
    | some c =>
      simp only [Option.some.injEq, exists_eq_left']
      rw [firstErr_ok_iff]
      exact ⟨fun h => ⟨h1, h⟩, fun h => h.2⟩

end Tmv.Validate

/-! ### proto sizes -/
namespace Tmv.Validate
open Tmv.ProtoSize

theorem sov_pos (n : Nat) : 1 ≤ sov n := by unfold sov; repeat (first | omega | split)
theorem sov_le_10 (n : Nat) : sov n ≤ 10 := by unfold sov; repeat (first | omega | split)
theorem sov_lt7 {n : Nat} (h : n < 128) : sov n = 1 := by unfold sov; simp [h]
theorem sov_lt14 {n : Nat} (h : n < 16384) : sov n ≤ 2 := by unfold sov; repeat (first | omega | split)
theorem sov_lt28 {n : Nat} (h : n < 268435456) : sov n ≤ 4 := by unfold sov; repeat (first | omega | split)
theorem sov_lt35 {n : Nat} (h : n < 34359738368) : sov n ≤ 5 := by unfold sov; repeat (first | omega | split)
theorem sov_lt63 {n : Nat} (h : n < 9223372036854775808) : sov n ≤ 9 := by unfold sov; repeat (first | omega | split)

theorem sovInt_le_10 (x : Int) : sovInt x ≤ 10 := by unfold sovInt; split; omega; exact sov_le_10 _
theorem fVar_le_11 (x : Int) : fVar x ≤ 11 := by unfold fVar; have := sovInt_le_10 x; split <;> omega
theorem fVar_nonneg_lt35 {x : Int} (h0 : 0 ≤ x) (h : x < 34359738368) : fVar x ≤ 6 := by
  unfold fVar sovInt; have := @sov_lt35 x.toNat (by omega); split <;> (try split) <;> omega
theorem fVar_nonneg_lt63 {x : Int} (h0 : 0 ≤ x) (h : x < 9223372036854775808) : fVar x ≤ 10 := by
  unfold fVar sovInt; have := @sov_lt63 x.toNat (by omega); split <;> (try split) <;> omega
theorem fVar_lt7 {x : Int} (h0 : 0 ≤ x) (h : x < 128) : fVar x ≤ 2 := by
  unfold fVar sovInt; have := @sov_lt7 x.toNat (by omega); split <;> (try split) <;> omega
theorem fBytes_le {n k : Nat} (h : n ≤ k) (hk : k < 128) : fBytes n ≤ k + 2 := by
  unfold fBytes; have := @sov_lt7 n (by omega); split <;> omega
theorem fMsg_lt7 {n : Nat} (h : n < 128) : fMsg n = n + 2 := by
  unfold fMsg; have := sov_lt7 h; omega

theorem timeSize_le (t : Time) : timeSize t ≤ 17 := by
  unfold timeSize
  have h1 := fVar_le_11 (secOf t)
  have h2 : fVar (nanosOf t) ≤ 6 := by
    apply fVar_nonneg_lt35 <;> (unfold nanosOf; omega)
  omega
end Tmv.Validate
namespace Tmv.Validate
open Tmv.ProtoSize

theorem commitSigSize_le (s : CommitSig) (h : badCommitSig s = false) : commitSigSize s ≤ 109 := by
  unfold badCommitSig at h
  have ht := timeSize_le s.ts
  have hm : fMsg (timeSize s.ts) ≤ 19 := by rw [fMsg_lt7 (by omega)]; omega
  unfold commitSigSize
  split at h
  · cases h
  · rename_i hf
    simp only [bne_iff_ne, ne_eq, Bool.and_eq_true, not_and, Decidable.not_not] at hf
    have hflag : s.flag = 1 ∨ s.flag = 2 ∨ s.flag = 3 := by
      unfold flagAbsent flagCommit flagNil at hf
      by_cases h1 : s.flag = 1
      · exact Or.inl h1
      · by_cases h2 : s.flag = 2
        · exact Or.inr (Or.inl h2)
        · exact Or.inr (Or.inr (hf ⟨h1, h2⟩))
    have hfv : fVar (s.flag : Int) ≤ 2 := fVar_lt7 (by omega) (by omega)
    split at h
    · simp only [Bool.or_eq_false_iff, bne_eq_false_iff_eq] at h
      have ha := @fBytes_le s.addr.length 20 (by omega) (by omega)
      have hs := @fBytes_le s.sig.length 64 (by omega) (by omega)
      omega
    · simp only [Bool.or_eq_false_iff, bne_eq_false_iff_eq, beq_eq_false_iff_ne, ne_eq,
        decide_eq_false_iff_not, Nat.not_lt] at h
      have ha := @fBytes_le s.addr.length 20 (by unfold addressSize at h; simp [Facts.c06_AddressSize] at h; omega) (by omega)
      have hs := @fBytes_le s.sig.length 64 (by unfold maxSignatureSize at h; omega) (by omega)
      omega

theorem sigsSize_le (l : List CommitSig) (h : ∀ s ∈ l, badCommitSig s = false) :
    sigsSize l ≤ 111 * l.length := by
  induction l with
  | nil => simp [sigsSize]
  | cons s r ih =>
    have h1 := commitSigSize_le s (h s List.mem_cons_self)
    have h2 := ih (fun x hx => h x (List.mem_cons_of_mem _ hx))
    simp only [sigsSize, List.length_cons]
    rw [fMsg_lt7 (by omega)]
    omega

theorem blockIDSize_le (b : BlockID) (h1 : b.hash.length ≤ 32) (h2 : b.psHash.length ≤ 32)
    (h3 : b.total < 4294967296) : blockIDSize b ≤ 76 := by
  unfold blockIDSize pshSize
  have a := @fBytes_le b.hash.length 32 h1 (by omega)
  have c := @fBytes_le b.psHash.length 32 h2 (by omega)
  have d : fVar (b.total : Int) ≤ 6 := fVar_nonneg_lt35 (by omega) (by omega)
  rw [fMsg_lt7 (by omega)]
  omega
end Tmv.Validate
namespace Tmv.Validate
open Tmv.ProtoSize

theorem fBytes_le2 {n k : Nat} (h : n ≤ k) (hk : k < 16384) : fBytes n ≤ k + 3 := by
  unfold fBytes; have := @sov_lt14 n (by omega); split <;> omega

theorem commitSize_le (c : Commit) (n : Nat) (hs : ∀ s ∈ c.sigs, badCommitSig s = false)
    (hn : c.sigs.length ≤ n) (hh : 0 ≤ c.height ∧ c.height < 9223372036854775808)
    (hr : 0 ≤ c.round ∧ c.round < 2147483648)
    (hb : c.blockID.hash.length ≤ 32 ∧ c.blockID.psHash.length ≤ 32 ∧ c.blockID.total < 4294967296) :
    commitSize c ≤ 94 + 111 * n := by
  unfold commitSize
  have h1 := sigsSize_le c.sigs hs
  have h2 := blockIDSize_le c.blockID hb.1 hb.2.1 hb.2.2
  have h3 : fVar c.height ≤ 10 := fVar_nonneg_lt63 hh.1 hh.2
  have h4 : fVar c.round ≤ 6 := fVar_nonneg_lt35 hr.1 (by omega)
  rw [fMsg_lt7 (by omega)]
  have : 111 * c.sigs.length ≤ 111 * n := Nat.mul_le_mul_left _ hn
  omega

/-- field bounds of a header a node can hold: a one-byte block protocol version (it is 11), chain
id within `MaxChainIDLen`, int64 height, hashes of at most `tmhash.Size` bytes, a 20-byte proposer
address; the application hash may be up to 182 bytes (then the header is at most 619 = 626 - 7) -/
structure HeaderBounds (h : Header) : Prop where
  vb : h.versionBlock < 128
  chain : h.chainID.length ≤ 50
  height : 0 ≤ h.height ∧ h.height < 9223372036854775808
  lbid : h.lastBlockID.hash.length ≤ 32 ∧ h.lastBlockID.psHash.length ≤ 32 ∧ h.lastBlockID.total < 4294967296
  lch : h.lastCommitHash.length ≤ 32
  dh : h.dataHash.length ≤ 32
  vh : h.valsHash.length ≤ 32
  nvh : h.nextValsHash.length ≤ 32
  ch : h.consensusHash.length ≤ 32
  lrh : h.lastResultsHash.length ≤ 32
  eh : h.evidenceHash.length ≤ 32
  prop : h.proposer.length ≤ 20
  app : h.appHash.length ≤ 182

theorem headerSize_le (h : Header) (b : HeaderBounds h) : headerSize h + 7 ≤ 626 := by
  unfold headerSize versionSize
  have v1 : fVar (h.versionBlock : Int) ≤ 2 := fVar_lt7 (by omega) (by have := b.vb; omega)
  have v2 := fVar_le_11 (h.versionApp : Int)
  have t := timeSize_le h.time
  have l := blockIDSize_le h.lastBlockID b.lbid.1 b.lbid.2.1 b.lbid.2.2
  have c := @fBytes_le h.chainID.length 50 b.chain (by omega)
  have hh : fVar h.height ≤ 10 := fVar_nonneg_lt63 b.height.1 b.height.2
  have a1 := @fBytes_le h.lastCommitHash.length 32 b.lch (by omega)
  have a2 := @fBytes_le h.dataHash.length 32 b.dh (by omega)
  have a3 := @fBytes_le h.valsHash.length 32 b.vh (by omega)
  have a4 := @fBytes_le h.nextValsHash.length 32 b.nvh (by omega)
  have a5 := @fBytes_le h.consensusHash.length 32 b.ch (by omega)
  have a6 := @fBytes_le h.lastResultsHash.length 32 b.lrh (by omega)
  have a7 := @fBytes_le h.evidenceHash.length 32 b.eh (by omega)
  have a8 := @fBytes_le h.proposer.length 20 b.prop (by omega)
  have a9 := @fBytes_le2 h.appHash.length 182 b.app (by omega)
  rw [fMsg_lt7 (by omega), fMsg_lt7 (by omega), fMsg_lt7 (by omega)]
  omega

theorem maxDataBytes_some {M e n d : Int} (h : maxDataBytes M e n = some d) :
    d = M - 11 - 626 - (94 + 111 * n) - e ∧ 0 ≤ d := by
  have e1 : maxOverheadForBlock = 11 := rfl
  have e2 : maxHeaderBytes = 626 := rfl
  have e3 : maxCommitOverheadBytes = 94 := rfl
  have e4 : maxCommitSigBytes = 109 := rfl
  unfold maxDataBytes at h
  simp only at h
  split at h
  · cases h
  · rename_i hr
    simp only [Option.some.injEq] at h
    unfold maxCommitBytes at h hr
    rw [e1, e2, e3, e4] at h hr
    constructor <;> omega

/-- the arithmetic of `MaxDataBytes`: header, commit, evidence and data within their budgeted
parts ⇒ the marshalled block is within `maxBytes` (all four length prefixes included) -/
theorem blockSize_le (b : Block) (c : Commit) (hc : b.lastCommit = some c) (M : Int)
    (hM : M ≤ maxBlockSizeBytes) (hh : headerSize b.header + 7 ≤ 626) (n : Nat)
    (hcs : commitSize c ≤ 94 + 111 * n) (d : Int)
    (hd : maxDataBytes M (evListSize b.evidence : Nat) n = some d) (hds : (dataSize b.txs : Int) ≤ d) :
    (blockSize b : Int) ≤ M := by
  have e5 : maxBlockSizeBytes = 104857600 := rfl
  rw [e5] at hM
  obtain ⟨hd1, hd2⟩ := maxDataBytes_some hd
  unfold blockSize
  rw [hc]
  simp only
  have s1 := @sov_lt28 (dataSize b.txs) (by omega)
  have s2 := @sov_lt28 (evListSize b.evidence) (by omega)
  have s3 := @sov_lt28 (commitSize c) (by omega)
  have s4 := @sov_lt14 (headerSize b.header) (by omega)
  unfold fMsg
  omega
end Tmv.Validate

namespace Tmv.Validate
open Tmv.ProtoSize

/-! ### weighted median -/


theorem totalWeight_cons (x : Time × Int) (l : List (Time × Int)) :
    totalWeight (x :: l) = x.2 + totalWeight l := by simp [totalWeight]

theorem lowWeight_cons (L : Time) (x : Time × Int) (l : List (Time × Int)) :
    lowWeight L (x :: l) = (if x.1 ≤ L then x.2 else 0) + lowWeight L l := by
  unfold lowWeight
  by_cases h : x.1 ≤ L <;> simp [h]

theorem totalWeight_insert (x : Time × Int) (l : List (Time × Int)) :
    totalWeight (insertByTime x l) = x.2 + totalWeight l := by
  induction l with
  | nil => simp [insertByTime, totalWeight]
  | cons y r ih =>
    unfold insertByTime
    split
    · simp [totalWeight_cons]
    · rw [totalWeight_cons, ih, totalWeight_cons]; omega

theorem lowWeight_insert (L : Time) (x : Time × Int) (l : List (Time × Int)) :
    lowWeight L (insertByTime x l) = (if x.1 ≤ L then x.2 else 0) + lowWeight L l := by
  induction l with
  | nil => simp [insertByTime, lowWeight_cons]
  | cons y r ih =>
    unfold insertByTime
    split
    · simp [lowWeight_cons]
    · rw [lowWeight_cons, ih, lowWeight_cons]; omega

theorem totalWeight_sort (l : List (Time × Int)) : totalWeight (sortByTime l) = totalWeight l := by
  induction l with
  | nil => rfl
  | cons x r ih => simp [sortByTime, totalWeight_insert, totalWeight_cons, ih]

theorem lowWeight_sort (L : Time) (l : List (Time × Int)) : lowWeight L (sortByTime l) = lowWeight L l := by
  induction l with
  | nil => rfl
  | cons x r ih => simp [sortByTime, lowWeight_insert, lowWeight_cons, ih]

theorem lowWeight_nonneg (L : Time) (l : List (Time × Int)) (hw : ∀ y ∈ l, 0 ≤ y.2) :
    0 ≤ lowWeight L l := by
  induction l with
  | nil => simp [lowWeight]
  | cons a q ih =>
    rw [lowWeight_cons]
    have h1 := hw a List.mem_cons_self
    have h2 := ih (fun y hy => hw y (List.mem_cons_of_mem _ hy))
    split <;> omega

/-- ascending by time -/
def Sorted : List (Time × Int) → Prop
  | [] => True
  | x :: r => (∀ y ∈ r, x.1 ≤ y.1) ∧ Sorted r

theorem mem_insert (x y : Time × Int) (l : List (Time × Int)) :
    y ∈ insertByTime x l ↔ y = x ∨ y ∈ l := by
  induction l with
  | nil => simp [insertByTime]
  | cons z r ih =>
    unfold insertByTime
    split
    · simp
    · simp [ih]; constructor
      · rintro (h | h | h) <;> simp [h]
      · rintro (h | h | h) <;> simp [h]

theorem sorted_insert (x : Time × Int) (l : List (Time × Int)) (h : Sorted l) : Sorted (insertByTime x l) := by
  induction l with
  | nil => simp [insertByTime, Sorted]
  | cons z r ih =>
    unfold insertByTime
    split
    · rename_i hlt
      refine ⟨?_, h⟩
      intro y hy
      rcases List.mem_cons.mp hy with rfl | hy
      · exact Int.le_of_lt hlt
      · exact Int.le_trans (Int.le_of_lt hlt) (h.1 y hy)
    · rename_i hge
      refine ⟨?_, ih h.2⟩
      intro y hy
      rcases (mem_insert x y r).mp hy with rfl | hy
      · exact Int.not_lt.mp hge
      · exact h.1 y hy

theorem sorted_sort (l : List (Time × Int)) : Sorted (sortByTime l) := by
  induction l with
  | nil => trivial
  | cons x r ih => exact sorted_insert x _ ih

theorem mem_sort (y : Time × Int) (l : List (Time × Int)) : y ∈ sortByTime l ↔ y ∈ l := by
  induction l with
  | nil => simp [sortByTime]
  | cons x r ih => simp [sortByTime, mem_insert, ih]

/-- on a list whose entries are all later than `L`, the loop returns a time later than `L`
as soon as it selects anything -/
theorem pick_gt_of_all_gt (L : Time) (l : List (Time × Int)) (m : Int)
    (hall : ∀ y ∈ l, L < y.1) (hm : m ≤ totalWeight l) (hpos : 0 < m) : L < pick l m := by
  induction l generalizing m with
  | nil => simp [totalWeight] at hm; omega
  | cons x r ih =>
    obtain ⟨t, w⟩ := x
    unfold pick
    split
    · exact hall (t, w) List.mem_cons_self
    · rename_i hnw
      apply ih
      · intro y hy; exact hall y (List.mem_cons_of_mem _ hy)
      · rw [totalWeight_cons] at hm; simp at hm; omega
      · omega

/-- the selection loop on a time-sorted list with non-negative weights: if the weight stamped
at or before `L` stays strictly below the starting value, the selected time is later than `L` -/
theorem pick_gt (L : Time) (l : List (Time × Int)) (m : Int) (hs : Sorted l)
    (hw : ∀ y ∈ l, 0 ≤ y.2) (hlow : lowWeight L l < m) (hm : m ≤ totalWeight l) : L < pick l m := by
  induction l generalizing m with
  | nil => simp [totalWeight, lowWeight] at hm hlow; omega
  | cons x r ih =>
    obtain ⟨t, w⟩ := x
    have hnn := lowWeight_nonneg L ((t, w) :: r) hw
    by_cases ht : t ≤ L
    · have hw0 : 0 ≤ w := hw (t, w) List.mem_cons_self
      have hlr := lowWeight_nonneg L r (fun y hy => hw y (List.mem_cons_of_mem _ hy))
      rw [lowWeight_cons] at hlow
      simp only [ht, if_true] at hlow
      unfold pick
      split
      · omega
      · apply ih
        · exact hs.2
        · intro y hy; exact hw y (List.mem_cons_of_mem _ hy)
        · omega
        · rw [totalWeight_cons] at hm; simp only at hm; omega
    · apply pick_gt_of_all_gt
      · intro y hy
        rcases List.mem_cons.mp hy with rfl | hy
        · exact Int.not_le.mp ht
        · exact Int.lt_of_lt_of_le (Int.not_le.mp ht) (hs.1 y hy)
      · exact hm
      · omega

/-- `WeightedMedian` is later than `L` when the votes stamped at or before `L` weigh strictly
less than `floor(total/2)` -/
theorem weightedMedian_gt (L : Time) (l : List (Time × Int)) (hw : ∀ y ∈ l, 0 ≤ y.2)
    (hlow : 2 * lowWeight L l + 2 ≤ totalWeight l) : L < weightedMedian l (totalWeight l) := by
  unfold weightedMedian
  have hlow0 := lowWeight_nonneg L l hw
  have hd : Int.tdiv (totalWeight l) 2 = totalWeight l / 2 :=
    Int.tdiv_eq_ediv_of_nonneg (by omega)
  apply pick_gt
  · exact sorted_sort l
  · intro y hy; exact hw y ((mem_sort y l).mp hy)
  · rw [lowWeight_sort, hd]; omega
  · rw [totalWeight_sort, hd]; omega

end Tmv.Validate

/-! ### exact characterisation of the median rule -/
namespace Tmv.Validate
open Tmv.ProtoSize

theorem lowWeight_pos_exists (L : Time) (l : List (Time × Int)) (h : 0 < lowWeight L l) :
    ∃ y ∈ l, y.1 ≤ L := by
  induction l with
  | nil => simp [lowWeight] at h
  | cons x r ih =>
    rw [lowWeight_cons] at h
    by_cases hx : x.1 ≤ L
    · exact ⟨x, List.mem_cons_self, hx⟩
    · simp only [hx, if_false] at h
      obtain ⟨y, hy, hyl⟩ := ih (by omega)
      exact ⟨y, List.mem_cons_of_mem _ hy, hyl⟩

theorem lowWeight_zero_no_early (L : Time) (l : List (Time × Int)) (hpos : ∀ y ∈ l, 0 < y.2)
    (h : lowWeight L l = 0) : ∀ y ∈ l, L < y.1 := by
  induction l with
  | nil => intro y hy; cases hy
  | cons x r ih =>
    rw [lowWeight_cons] at h
    have hx := hpos x List.mem_cons_self
    have hr := lowWeight_nonneg L r (fun y hy => Int.le_of_lt (hpos y (List.mem_cons_of_mem _ hy)))
    by_cases hxl : x.1 ≤ L
    · simp only [hxl, if_true] at h; omega
    · simp only [hxl, if_false] at h
      intro y hy
      rcases List.mem_cons.mp hy with rfl | hy
      · exact Int.not_le.mp hxl
      · exact ih (fun y hy => hpos y (List.mem_cons_of_mem _ hy)) (by omega) y hy

/-- the loop on a non-empty list whose entries are all later than `L` -/
theorem pick_gt_of_all_gt' (L : Time) (l : List (Time × Int)) (m : Int) (hne : l ≠ [])
    (hall : ∀ y ∈ l, L < y.1) (hm : m ≤ totalWeight l) : L < pick l m := by
  induction l generalizing m with
  | nil => exact absurd rfl hne
  | cons x r ih =>
    obtain ⟨t, w⟩ := x
    unfold pick
    split
    · exact hall (t, w) List.mem_cons_self
    · rename_i hnw
      rw [totalWeight_cons] at hm
      simp only at hm
      by_cases hr : r = []
      · subst hr; simp [totalWeight] at hm; omega
      · exact ih (m - w) hr (fun y hy => hall y (List.mem_cons_of_mem _ hy)) (by omega)

/-- the loop stops at or before the last entry stamped `≤ L` once their weight reaches the
starting value -/
theorem pick_le (L : Time) (l : List (Time × Int)) (m : Int) (hs : Sorted l)
    (hw : ∀ y ∈ l, 0 ≤ y.2) (hex : ∃ y ∈ l, y.1 ≤ L) (hlow : m ≤ lowWeight L l) : pick l m ≤ L := by
  induction l generalizing m with
  | nil => obtain ⟨y, hy, _⟩ := hex; cases hy
  | cons x r ih =>
    obtain ⟨t, w⟩ := x
    have ht : t ≤ L := by
      obtain ⟨y, hy, hyl⟩ := hex
      rcases List.mem_cons.mp hy with rfl | hy
      · exact hyl
      · exact Int.le_trans (hs.1 y hy) hyl
    unfold pick
    split
    · exact ht
    · rename_i hnw
      rw [lowWeight_cons] at hlow
      simp only [ht, if_true] at hlow
      apply ih
      · exact hs.2
      · intro y hy; exact hw y (List.mem_cons_of_mem _ hy)
      · exact lowWeight_pos_exists L r (by omega)
      · omega

theorem sort_ne_nil (l : List (Time × Int)) (h : l ≠ []) : sortByTime l ≠ [] := by
  intro hs
  cases l with
  | nil => exact h rfl
  | cons x r =>
    have : x ∈ sortByTime (x :: r) := (mem_sort x _).mpr List.mem_cons_self
    rw [hs] at this; cases this

/-- upper half: the median is not later than `hi` when the votes stamped `≤ hi` weigh at least
`floor(total/2)` -/
theorem weightedMedian_le (hi : Time) (l : List (Time × Int)) (hw : ∀ y ∈ l, 0 ≤ y.2)
    (hex : ∃ y ∈ l, y.1 ≤ hi) (hlow : totalWeight l / 2 ≤ lowWeight hi l) :
    weightedMedian l (totalWeight l) ≤ hi := by
  unfold weightedMedian
  have hT : 0 ≤ totalWeight l := by
    have := lowWeight_nonneg (hi) l hw
    have h2 : lowWeight hi l ≤ totalWeight l := by
      clear hlow hex this
      induction l with
      | nil => simp [lowWeight, totalWeight]
      | cons x r ih =>
        rw [lowWeight_cons, totalWeight_cons]
        have := ih (fun y hy => hw y (List.mem_cons_of_mem _ hy))
        have := hw x List.mem_cons_self
        split <;> omega
    omega
  have hd : Int.tdiv (totalWeight l) 2 = totalWeight l / 2 := Int.tdiv_eq_ediv_of_nonneg hT
  apply pick_le
  · exact sorted_sort l
  · intro y hy; exact hw y ((mem_sort y l).mp hy)
  · obtain ⟨y, hy, hyl⟩ := hex; exact ⟨y, (mem_sort y l).mpr hy, hyl⟩
  · rw [lowWeight_sort, hd]; exact hlow

/-- **Exactly when the weighted median is later than `L`** (positive weights; `F` = weight
stamped at or before `L`, `T` = total weight): iff `2F + 2 ≤ T`, or nobody stamped that early,
(or there is no vote at all and `L` precedes Go's zero time, which `WeightedMedian` then returns).
So `F < floor(T/2)` is the exact tolerance of the `floor(T/2)` / `median <= weight` rule. -/
theorem weightedMedian_gt_iff (L : Time) (l : List (Time × Int)) (hpos : ∀ y ∈ l, 0 < y.2) :
    L < weightedMedian l (totalWeight l) ↔
      (2 * lowWeight L l + 2 ≤ totalWeight l ∨ (lowWeight L l = 0 ∧ l ≠ []) ∨ (l = [] ∧ L < zeroTime)) := by
  have hw : ∀ y ∈ l, 0 ≤ y.2 := fun y hy => Int.le_of_lt (hpos y hy)
  have hF := lowWeight_nonneg L l hw
  constructor
  · intro hgt
    by_cases hl : l = []
    · subst hl
      right; right
      exact ⟨rfl, by simpa [weightedMedian, sortByTime, pick] using hgt⟩
    · by_cases h0 : lowWeight L l = 0
      · right; left; exact ⟨h0, hl⟩
      · left
        by_cases hc : 2 * lowWeight L l + 2 ≤ totalWeight l
        · exact hc
        · exfalso
          have hle : weightedMedian l (totalWeight l) ≤ L := by
            apply weightedMedian_le L l hw (lowWeight_pos_exists L l (by omega))
            omega
          exact absurd hgt (Int.not_lt.mpr hle)
  · rintro (h | ⟨h0, hl⟩ | ⟨hl, hz⟩)
    · exact weightedMedian_gt L l hw h
    · unfold weightedMedian
      apply pick_gt_of_all_gt' L _ _ (sort_ne_nil l hl)
      · intro y hy
        exact lowWeight_zero_no_early L l hpos h0 y ((mem_sort y l).mp hy)
      · rw [totalWeight_sort]
        have hT : 0 ≤ totalWeight l := by
          clear h0 hl hF
          induction l with
          | nil => simp [totalWeight]
          | cons x r ih =>
            rw [totalWeight_cons]
            have := ih (fun y hy => hpos y (List.mem_cons_of_mem _ hy)) (fun y hy => hw y (List.mem_cons_of_mem _ hy))
            have := hw x List.mem_cons_self
            omega
        rw [Int.tdiv_eq_ediv_of_nonneg hT]; omega
    · subst hl
      simpa [weightedMedian, sortByTime, pick] using hz

/-- **median between correct** (both halves, exact tolerances of the `floor(T/2)` rule): let the
correct voters' timestamps lie in `[lo, hi]` (at least one of them is in the commit). If the weight
stamped before `lo` is below `floor(T/2)` (or nil) and the weight stamped after `hi` is at most
`ceil(T/2)`, the median lies in `[lo, hi]`. The rule is asymmetric: it tolerates `ceil(T/2)` late
weight but only `floor(T/2) - 1` early weight. -/
theorem median_between_correct (l : List (Time × Int)) (lo hi : Time) (hpos : ∀ y ∈ l, 0 < y.2)
    (hcorrect : ∃ y ∈ l, lo ≤ y.1 ∧ y.1 ≤ hi)
    (hearly : 2 * lowWeight (lo - 1) l + 2 ≤ totalWeight l ∨ lowWeight (lo - 1) l = 0)
    (hlate : 2 * (totalWeight l - lowWeight hi l) ≤ totalWeight l + 1) :
    lo ≤ weightedMedian l (totalWeight l) ∧ weightedMedian l (totalWeight l) ≤ hi := by
  have hw : ∀ y ∈ l, 0 ≤ y.2 := fun y hy => Int.le_of_lt (hpos y hy)
  obtain ⟨y, hy, hylo, hyhi⟩ := hcorrect
  have hne : l ≠ [] := by intro h; subst h; cases hy
  constructor
  · have : lo - 1 < weightedMedian l (totalWeight l) := by
      rw [weightedMedian_gt_iff (lo - 1) l hpos]
      rcases hearly with h | h
      · exact Or.inl h
      · exact Or.inr (Or.inl ⟨h, hne⟩)
    have h := Int.add_one_le_of_lt this
    rwa [Int.sub_add_cancel] at h
  · apply weightedMedian_le hi l hw ⟨y, hy, hyhi⟩
    omega

end Tmv.Validate
