import Tmv.Model.MempoolV0Async
import Tmv.Lemmas.MempoolV0
/-! The asynchronous (FIFO client) discipline of the v0 mempool: invariants. -/
namespace Tmv.Mempool.V0
open Tmv Tmv.Mempool

def Req.isFirst : Req → Bool
  | .first _ _ => true
  | .recheck _ => false

/-- no recheck in flight -/
structure AIdle (a : AState) : Prop where
  inv : Inv a.s
  cursor : a.cursor = none
  queue : ∀ r ∈ a.queue, r.isFirst = true
  ok : a.panicked = false

/-- a recheck is in flight (or has just been completed and no later response handled yet):
the pool is `kept ++ rem`, `kept` = snapshot entries already answered and accepted, `rem` = the
entries whose answers are still queued, in order, followed by the requests sent since. -/
structure ARecheck (a : AState) (kept rem : List Bytes) (firsts : List Req) : Prop where
  inv : Inv a.s
  keys : keys a.s = kept ++ rem
  kept : ∀ k ∈ kept, accepted a.s.post (a.rv k) = true
  queue : a.queue = rem.map Req.recheck ++ firsts
  firsts : ∀ r ∈ firsts, r.isFirst = true
  cursor : a.cursor = rem.head?
  endTx : rem ≠ [] → a.endTx = rem.getLast?
  ok : a.panicked = false

theorem dropWhile_split (c : Bytes) : ∀ (kept : List Bytes) (txs : List MemTx) (rem : List Bytes),
    txs.map (·.tx) = kept ++ c :: rem → c ∉ kept →
    ∃ e rest, txs.dropWhile (fun e => decide (e.tx ≠ c)) = e :: rest ∧ e.tx = c ∧
      rest.map (·.tx) = rem := by
  intro kept
  induction kept with
  | nil =>
    intro txs rem h _
    match txs, h with
    | e :: rest, h =>
      simp only [List.map_cons, List.nil_append, List.cons.injEq] at h
      refine ⟨e, rest, ?_, h.1, h.2⟩
      simp [h.1]
  | cons k kept ih =>
    intro txs rem h hn
    match txs, h with
    | e :: rest, h =>
      simp only [List.map_cons, List.cons_append, List.cons.injEq] at h
      have hne : e.tx ≠ c := by
        intro heq; apply hn; rw [← heq, h.1]; exact List.mem_cons_self
      obtain ⟨e', rest', h1, h2, h3⟩ := ih rest rem h.2 (fun hm => hn (List.mem_cons_of_mem _ hm))
      refine ⟨e', rest', ?_, h2, h3⟩
      simp [hne]
      simpa using h1

theorem erase_append_not_mem (c : Bytes) (kept rem : List Bytes) (h : c ∉ kept) :
    (kept ++ c :: rem).erase c = kept ++ rem := by
  induction kept with
  | nil => simp
  | cons k kept ih =>
    have hne : ¬ (k == c) = true := by
      simp; intro e; apply h; rw [e]; exact List.mem_cons_self
    simp only [List.cons_append, List.erase_cons, hne]
    simp [ih (fun hm => h (List.mem_cons_of_mem _ hm))]

/-- sending never disturbs either invariant (only the cache and the queue's tail change) -/
theorem checkTxFront_core (s : State) (tx : Bytes) :
    (checkTxFront s tx).1.txs = s.txs ∧ (checkTxFront s tx).1.txsMap = s.txsMap ∧
    (checkTxFront s tx).1.txsBytes = s.txsBytes ∧ (checkTxFront s tx).1.post = s.post ∧
    (checkTxFront s tx).1.cfg = s.cfg := by
  unfold checkTxFront
  split
  · exact ⟨rfl, rfl, rfl, rfl, rfl⟩
  · split
    · exact ⟨rfl, rfl, rfl, rfl, rfl⟩
    · split
      · exact ⟨rfl, rfl, rfl, rfl, rfl⟩
      · simp only
        split <;> exact ⟨rfl, rfl, rfl, rfl, rfl⟩

theorem inv_of_core_eq {s s' : State} (h1 : s'.txs = s.txs) (h2 : s'.txsMap = s.txsMap)
    (h3 : s'.txsBytes = s.txsBytes) (hi : Inv s) : Inv s' := by
  unfold Inv; rw [h1, h2, h3]; exact hi

theorem asend_spec (a : AState) (tx : Bytes) (v : Verdict) :
    (asend a tx v).1.s.txs = a.s.txs ∧ (asend a tx v).1.s.txsMap = a.s.txsMap ∧
    (asend a tx v).1.s.txsBytes = a.s.txsBytes ∧ (asend a tx v).1.s.post = a.s.post ∧
    (asend a tx v).1.cursor = a.cursor ∧ (asend a tx v).1.endTx = a.endTx ∧
    (asend a tx v).1.rv = a.rv ∧ (asend a tx v).1.panicked = a.panicked ∧
    ((asend a tx v).1.queue = a.queue ∨ (asend a tx v).1.queue = a.queue ++ [.first tx v]) := by
  obtain ⟨h1, h2, h3, h4, _⟩ := checkTxFront_core a.s tx
  unfold asend
  simp only
  split <;> exact ⟨h1, h2, h3, h4, rfl, rfl, rfl, rfl, by simp⟩

theorem aidle_send {a : AState} (h : AIdle a) (tx : Bytes) (v : Verdict) : AIdle (asend a tx v).1 := by
  obtain ⟨h1, h2, h3, _, h5, _, _, h8, h9⟩ := asend_spec a tx v
  refine ⟨inv_of_core_eq h1 h2 h3 h.inv, h5.trans h.cursor, ?_, h8.trans h.ok⟩
  rcases h9 with h9 | h9
  · rw [h9]; exact h.queue
  · rw [h9]; intro r hr
    rcases List.mem_append.1 hr with hr | hr
    · exact h.queue r hr
    · simp at hr; rw [hr]; rfl

theorem aidle_deliver {a : AState} (h : AIdle a) : AIdle (adeliver a) := by
  unfold adeliver
  match hq : a.queue with
  | [] => simp only; exact h
  | r :: q =>
    simp only [h.cursor]
    have hr : r.isFirst = true := h.queue r (by rw [hq]; exact List.mem_cons_self)
    match r, hr with
    | .first tx v, _ =>
      simp only [Option.isSome_none, Bool.false_eq_true, if_false]
      refine ⟨inv_resCbFirstTime h.inv tx v, ?_, ?_, ?_⟩
      · rfl
      · exact fun r' hr' => h.queue r' (by rw [hq]; exact List.mem_cons_of_mem _ hr')
      · exact h.ok

theorem adeliver_queue_len (a : AState) (h : a.queue ≠ []) :
    (adeliver a).queue.length + 1 = a.queue.length := by
  unfold adeliver
  match hq : a.queue with
  | [] => exact absurd hq h
  | r :: q =>
    simp only
    have : ∀ (b : AState) (c tx : Bytes) (v : Verdict), (resCbRecheckA b c tx v).queue = b.queue := by
      intro b c tx v; unfold resCbRecheckA; split <;> rfl
    cases r with
    | recheck tx =>
      simp only
      split
      · simp
      · rw [this]; simp
    | first tx v =>
      simp only
      split
      · split <;> simp
      · split
        · rw [this]; simp
        · rw [this]; simp

theorem aidle_drain (n : Nat) : ∀ {a : AState}, AIdle a → a.queue.length ≤ n →
    AIdle (adrain n a) ∧ (adrain n a).queue = [] := by
  induction n with
  | zero =>
    intro a h hl
    have : a.queue = [] := List.length_eq_zero_iff.1 (by omega)
    exact ⟨h, this⟩
  | succ n ih =>
    intro a h hl
    unfold adrain
    split
    · rename_i hq; exact ⟨h, hq⟩
    · rename_i hq
      have := adeliver_queue_len a hq
      exact ih (aidle_deliver h) (by omega)

/-- `Update` from an idle state starts a recheck phase (or stays idle) -/
theorem aupdate_spec {a : AState} (h : AIdle a) (ht : Int) (block : List (Bytes × Nat))
    (pre post : Option Int) (rv : Bytes → Verdict) :
    AIdle (aupdate a ht block pre post rv) ∨
    ARecheck (aupdate a ht block pre post rv) [] (keys (aupdate a ht block pre post rv).s) [] := by
  obtain ⟨hd, hq⟩ := aidle_drain a.queue.length h (Nat.le_refl _)
  unfold aupdate
  simp only
  generalize adrain a.queue.length a = b at hd hq
  have hi0 : Inv ({ b.s with height := ht, pre := newFilter pre b.s.pre, post := newFilter post b.s.post } : State) := hd.inv
  have hi2 := inv_commitAll block hi0
  split
  · right
    rename_i hc
    refine ⟨hi2, by simp, fun _ hk => (by cases hk), ?_, fun _ hr => (by cases hr), ?_, ?_, hd.ok⟩
    · simp [hq, keys]
    · show (List.head? _).map _ = (keys _).head?
      simp [keys, List.head?_map]
    · intro _
      show (List.getLast? _).map _ = (keys _).getLast?
      simp [keys, List.getLast?_map]
  · left
    exact ⟨hi2, hd.cursor, (by rw [hq]; intro r hr; cases hr), hd.ok⟩

theorem arecheck_send {a : AState} {kept rem : List Bytes} {firsts : List Req}
    (h : ARecheck a kept rem firsts) (tx : Bytes) (v : Verdict) :
    ∃ firsts', ARecheck (asend a tx v).1 kept rem firsts' := by
  obtain ⟨h1, h2, h3, h4, h5, h6, h7, h8, h9⟩ := asend_spec a tx v
  have hk : keys (asend a tx v).1.s = keys a.s := by simp [keys, h1]
  rcases h9 with h9 | h9
  · exact ⟨firsts, inv_of_core_eq h1 h2 h3 h.inv, hk.trans h.keys, by rw [h4, h7]; exact h.kept,
      h9.trans h.queue, h.firsts, h5.trans h.cursor, fun hr => h6.trans (h.endTx hr), h8.trans h.ok⟩
  · refine ⟨firsts ++ [.first tx v], inv_of_core_eq h1 h2 h3 h.inv, hk.trans h.keys,
      by rw [h4, h7]; exact h.kept, ?_, ?_, h5.trans h.cursor, fun hr => h6.trans (h.endTx hr),
      h8.trans h.ok⟩
    · rw [h9, h.queue, List.append_assoc]
    · intro r hr
      rcases List.mem_append.1 hr with hr | hr
      · exact h.firsts r hr
      · simp at hr; rw [hr]; rfl

/-- the answer to the recheck of the entry under the cursor: the skipping loop finds it at once -/
theorem arecheck_deliver_recheck {a : AState} {kept rem : List Bytes} {firsts : List Req} (c : Bytes)
    (h : ARecheck a kept (c :: rem) firsts) :
    (accepted a.s.post (a.rv c) = true ∧ ARecheck (adeliver a) (kept ++ [c]) rem firsts) ∨
    (accepted a.s.post (a.rv c) = false ∧ ARecheck (adeliver a) kept rem firsts) := by
  have hnd : (kept ++ c :: rem).Nodup := h.keys ▸ h.inv.nodup
  have hck : c ∉ kept := by
    intro hm
    have := (List.nodup_append.1 hnd).2.2 c hm c List.mem_cons_self
    exact this rfl
  have hcr : c ∉ rem := (List.nodup_cons.1 (List.nodup_append.1 hnd).2.1).1
  obtain ⟨e, rest, hdw, hec, hrest⟩ := dropWhile_split c kept a.s.txs rem h.keys hck
  have hcur : a.cursor = some c := by rw [h.cursor]; rfl
  have hend : a.endTx = (c :: rem).getLast? := h.endTx (by simp)
  have hq : a.queue = Req.recheck c :: (rem.map Req.recheck ++ firsts) := by rw [h.queue]; rfl
  have hseek : seek c a.endTx (a.s.txs.dropWhile (fun e => decide (e.tx ≠ c))) =
      .found (rem.head?) := by
    rw [hdw]; unfold seek; simp only [hec, if_true]
    rw [← hrest]; simp [List.head?_map]
  have hendc : (some c = a.endTx) ↔ rem = [] := by
    rw [hend]
    cases rem with
    | nil => simp
    | cons r rs =>
      simp only [List.getLast?_cons_cons, reduceCtorEq, iff_false]
      intro heq
      have : c ∈ (r :: rs) := by
        have := List.mem_of_getLast? heq.symm
        exact this
      exact hcr this
  have hcin : c ∈ keys a.s := by rw [h.keys]; simp
  unfold adeliver
  rw [hq]
  simp only [hcur]
  unfold resCbRecheckA
  simp only [hseek]
  by_cases hacc : accepted a.s.post (a.rv c) = true
  · left
    refine ⟨hacc, ?_⟩
    simp only [hacc, if_true]
    refine ⟨h.inv, by rw [h.keys]; simp, ?_, rfl, h.firsts, ?_, ?_, h.ok⟩
    · intro k hk
      rcases List.mem_append.1 hk with hk | hk
      · exact h.kept k hk
      · simp at hk; rw [hk]; exact hacc
    · show (if some c = a.endTx then none else rem.head?) = rem.head?
      split
      · rename_i he; rw [hendc.1 he]; rfl
      · rfl
    · intro hr
      show a.endTx = rem.getLast?
      rw [hend]
      cases rem with
      | nil => exact absurd rfl hr
      | cons r rs => simp
  · right
    have hacc' : accepted a.s.post (a.rv c) = false := by simpa using hacc
    refine ⟨hacc', ?_⟩
    simp only [hacc', Bool.false_eq_true, if_false]
    refine ⟨inv_removeTx h.inv c _ hcin, ?_, h.kept, rfl, h.firsts, ?_, ?_, h.ok⟩
    · rw [keys_removeTx, h.keys]; exact erase_append_not_mem c kept rem hck
    · show (if some c = a.endTx then none else rem.head?) = rem.head?
      split
      · rename_i he; rw [hendc.1 he]; rfl
      · rfl
    · intro hr
      show a.endTx = rem.getLast?
      rw [hend]
      cases rem with
      | nil => exact absurd rfl hr
      | cons r rs => simp

/-- the recheck is complete and the next response belongs to a later `CheckTx` -/
theorem arecheck_deliver_first {a : AState} {kept : List Bytes} {firsts : List Req}
    (h : ARecheck a kept [] firsts) : AIdle (adeliver a) := by
  have hidle : AIdle a := ⟨h.inv, by rw [h.cursor]; rfl, by rw [h.queue]; simpa using h.firsts, h.ok⟩
  exact aidle_deliver hidle

/-- all operations of the asynchronous discipline -/
inductive AOpF
  | send (tx : Bytes) (v : Verdict)
  | deliver
  | update (h : Int) (block : List (Bytes × Nat)) (pre post : Option Int) (rv : Bytes → Verdict)

def astepF (a : AState) : AOpF → AState
  | .send tx v => (asend a tx v).1
  | .deliver => adeliver a
  | .update h b pre post rv => aupdate a h b pre post rv

def arunF (a : AState) (ops : List AOpF) : AState := ops.foldl astepF a

/-- either idle or in a recheck phase -/
def APhase (a : AState) : Prop := AIdle a ∨ ∃ kept rem firsts, ARecheck a kept rem firsts

theorem aidle_of_recheck_done {a : AState} {kept : List Bytes} {firsts : List Req}
    (h : ARecheck a kept [] firsts) : AIdle a :=
  ⟨h.inv, by rw [h.cursor]; rfl, by rw [h.queue]; simpa using h.firsts, h.ok⟩

theorem aphase_deliver {a : AState} (h : APhase a) : APhase (adeliver a) := by
  rcases h with h | ⟨kept, rem, firsts, h⟩
  · exact Or.inl (aidle_deliver h)
  · cases rem with
    | nil => exact Or.inl (arecheck_deliver_first h)
    | cons c rem =>
      rcases arecheck_deliver_recheck c h with ⟨_, h'⟩ | ⟨_, h'⟩
      · exact Or.inr ⟨_, _, _, h'⟩
      · exact Or.inr ⟨_, _, _, h'⟩

theorem aphase_send {a : AState} (h : APhase a) (tx : Bytes) (v : Verdict) :
    APhase (asend a tx v).1 := by
  rcases h with h | ⟨kept, rem, firsts, h⟩
  · exact Or.inl (aidle_send h tx v)
  · obtain ⟨f', h'⟩ := arecheck_send h tx v
    exact Or.inr ⟨_, _, f', h'⟩

theorem aidle_of_phase_empty {a : AState} (h : APhase a) (hq : a.queue = []) : AIdle a := by
  rcases h with h | ⟨kept, rem, firsts, h⟩
  · exact h
  · have : rem = [] := by
      have := h.queue; rw [hq] at this
      cases rem with
      | nil => rfl
      | cons c r => simp at this
    subst this
    exact aidle_of_recheck_done h

theorem adrain_phase (n : Nat) : ∀ {a : AState}, APhase a → a.queue.length ≤ n →
    AIdle (adrain n a) ∧ (adrain n a).queue = [] := by
  induction n with
  | zero =>
    intro a h hl
    have hq : a.queue = [] := List.length_eq_zero_iff.1 (by omega)
    exact ⟨aidle_of_phase_empty h hq, hq⟩
  | succ n ih =>
    intro a h hl
    unfold adrain
    split
    · rename_i hq
      exact ⟨aidle_of_phase_empty h hq, hq⟩
    · rename_i hq
      have := adeliver_queue_len a hq
      exact ih (aphase_deliver h) (by omega)

/-- `Update` (which first lets every pending response be handled) from any phase -/
theorem aupdate_phase {a : AState} (h : APhase a) (ht : Int) (block : List (Bytes × Nat))
    (pre post : Option Int) (rv : Bytes → Verdict) :
    AIdle (aupdate a ht block pre post rv) ∨
    ARecheck (aupdate a ht block pre post rv) [] (keys (aupdate a ht block pre post rv).s) [] := by
  obtain ⟨hd, hq⟩ := adrain_phase a.queue.length h (Nat.le_refl _)
  unfold aupdate
  simp only
  generalize adrain a.queue.length a = b at hd hq
  have hi0 : Inv ({ b.s with height := ht, pre := newFilter pre b.s.pre, post := newFilter post b.s.post } : State) := hd.inv
  have hi2 := inv_commitAll block hi0
  split
  · right
    refine ⟨hi2, by simp, fun _ hk => (by cases hk), ?_, fun _ hr => (by cases hr), ?_, ?_, hd.ok⟩
    · simp [hq, keys]
    · show (List.head? _).map _ = (keys _).head?
      simp [keys, List.head?_map]
    · intro _
      show (List.getLast? _).map _ = (keys _).getLast?
      simp [keys, List.getLast?_map]
  · left
    exact ⟨hi2, hd.cursor, (by rw [hq]; intro r hr; cases hr), hd.ok⟩

theorem aphase_stepF {a : AState} (h : APhase a) (op : AOpF) : APhase (astepF a op) := by
  cases op with
  | send tx v => exact aphase_send h tx v
  | deliver => exact aphase_deliver h
  | update ht b pre post rv =>
    rcases aupdate_phase h ht b pre post rv with h' | h'
    · exact Or.inl h'
    · exact Or.inr ⟨_, _, _, h'⟩

theorem aphase_init (cfg : Cfg) (h : Int) : APhase (ainit cfg h) :=
  Or.inl ⟨inv_init cfg h, rfl, fun _ hr => (by cases hr), rfl⟩

theorem aphase_runF (ops : List AOpF) : ∀ {a : AState}, APhase a → APhase (arunF a ops) := by
  induction ops with
  | nil => intro a h; exact h
  | cons o r ih => intro a h; exact ih (aphase_stepF h o)

theorem aphase_facts {a : AState} (h : APhase a) : Inv a.s ∧ a.panicked = false := by
  rcases h with h | ⟨_, _, _, h⟩
  · exact ⟨h.inv, h.ok⟩
  · exact ⟨h.inv, h.ok⟩

def countDeliver : List AOp → Nat
  | [] => 0
  | .deliver :: r => countDeliver r + 1
  | .send _ _ :: r => countDeliver r

/-- while at most as many responses as there are pending rechecks have been handled, the state is
in the recheck phase and exactly that many snapshot entries have been answered -/
theorem arun_recheck_phase : ∀ (ops : List AOp) (a : AState) (kept rem : List Bytes) (firsts : List Req),
    ARecheck a kept rem firsts → countDeliver ops ≤ rem.length →
    ∃ kept' rem' firsts', ARecheck (arun a ops) kept' rem' firsts' ∧
      rem'.length + countDeliver ops = rem.length ∧ (arun a ops).rv = a.rv ∧
      (arun a ops).s.post = a.s.post := by
  intro ops
  induction ops with
  | nil => intro a kept rem firsts h _; exact ⟨kept, rem, firsts, h, by simp [countDeliver], rfl, rfl⟩
  | cons o r ih =>
    intro a kept rem firsts h hc
    cases o with
    | send tx v =>
      obtain ⟨f', h'⟩ := arecheck_send h tx v
      obtain ⟨_, _, _, h4, _, _, h7, _, _⟩ := asend_spec a tx v
      obtain ⟨k2, r2, f2, g1, g2, g3, g4⟩ := ih (asend a tx v).1 kept rem f' h' (by simpa [countDeliver] using hc)
      exact ⟨k2, r2, f2, g1, by simpa [countDeliver] using g2, g3.trans h7, g4.trans h4⟩
    | deliver =>
      cases rem with
      | nil => simp [countDeliver] at hc
      | cons c rem =>
        have hrv : (adeliver a).rv = a.rv ∧ (adeliver a).s.post = a.s.post := by
          have hq : a.queue = Req.recheck c :: (rem.map Req.recheck ++ firsts) := by rw [h.queue]; rfl
          have hcur : a.cursor = some c := by rw [h.cursor]; rfl
          unfold adeliver
          rw [hq]
          simp only [hcur]
          unfold resCbRecheckA
          split <;> (try simp only) <;> (try split) <;>
            first | exact ⟨rfl, rfl⟩ | (refine ⟨?_, ?_⟩ <;> first | rfl | trivial | simp [removeTx])
        have hc' : countDeliver r ≤ rem.length := by simp [countDeliver] at hc; omega
        rcases arecheck_deliver_recheck c h with ⟨_, h'⟩ | ⟨_, h'⟩
        · obtain ⟨k2, r2, f2, g1, g2, g3, g4⟩ := ih (adeliver a) _ rem firsts h' hc'
          exact ⟨k2, r2, f2, g1, by simp [countDeliver]; omega, g3.trans hrv.1, g4.trans hrv.2⟩
        · obtain ⟨k2, r2, f2, g1, g2, g3, g4⟩ := ih (adeliver a) _ rem firsts h' hc'
          exact ⟨k2, r2, f2, g1, by simp [countDeliver]; omega, g3.trans hrv.1, g4.trans hrv.2⟩

/-! ### RemoveTxByKey / Flush under the discipline -/

theorem erase_append_mem_left (k : Bytes) (kept rem : List Bytes) (h : k ∈ kept) :
    (kept ++ rem).erase k = kept.erase k ++ rem := List.erase_append_left _ h

theorem arecheck_remove {a : AState} {kept rem : List Bytes} {firsts : List Req}
    (h : ARecheck a kept rem firsts) (tx : Bytes) (hal : ∀ r ∈ a.queue, r.isRecheckOf tx = false) :
    ∃ kept', ARecheck (aremoveByKey a tx) kept' rem firsts ∧ (∀ k ∈ kept', k ∈ kept) := by
  have hnr : tx ∉ rem := by
    intro hm
    have : Req.recheck tx ∈ a.queue := by
      rw [h.queue]; exact List.mem_append_left _ (List.mem_map_of_mem (f := Req.recheck) hm)
    have := hal _ this
    simp [Req.isRecheckOf] at this
  unfold aremoveByKey
  split
  · rename_i hm
    have hk : tx ∈ keys a.s := (mem_map_iff h.inv tx).1 hm
    have hkept : tx ∈ kept := by
      rw [h.keys] at hk
      rcases List.mem_append.1 hk with hk | hk
      · exact hk
      · exact absurd hk hnr
    refine ⟨kept.erase tx, ⟨inv_removeTx h.inv tx false hk, ?_, ?_, h.queue, h.firsts, h.cursor, h.endTx, h.ok⟩,
      fun k hk' => List.mem_of_mem_erase hk'⟩
    · show keys (removeTx a.s tx false) = kept.erase tx ++ rem
      rw [keys_removeTx, h.keys]; exact erase_append_mem_left tx kept rem hkept
    · intro k hk'; exact h.kept k (List.mem_of_mem_erase hk')
  · exact ⟨kept, h, fun _ hk => hk⟩

theorem aidle_remove {a : AState} (h : AIdle a) (tx : Bytes) : AIdle (aremoveByKey a tx) := by
  unfold aremoveByKey
  split
  · rename_i hm
    exact ⟨inv_removeTx h.inv tx false ((mem_map_iff h.inv tx).1 hm), h.cursor, h.queue, h.ok⟩
  · exact h

theorem aidle_flush {a : AState} (h : AIdle a) : AIdle (aflush a) :=
  ⟨inv_flush a.s, h.cursor, h.queue, h.ok⟩

theorem rem_nil_of_flush_allowed {a : AState} {kept rem : List Bytes} {firsts : List Req}
    (h : ARecheck a kept rem firsts) (hal : Allowed a .flush) : rem = [] := by
  cases rem with
  | nil => rfl
  | cons c r =>
    have : Req.recheck c ∈ a.queue := by rw [h.queue]; simp
    exact (hal _ this).elim

theorem aphase_stepG {a : AState} (h : APhase a) (op : AOpG) (hal : Allowed a op) :
    APhase (astepG a op) := by
  cases op with
  | send tx v => exact aphase_send h tx v
  | deliver => exact aphase_deliver h
  | update ht b pre post rv =>
    rcases aupdate_phase h ht b pre post rv with h' | h'
    · exact Or.inl h'
    · exact Or.inr ⟨_, _, _, h'⟩
  | removeByKey tx =>
    rcases h with h | ⟨kept, rem, firsts, h⟩
    · exact Or.inl (aidle_remove h tx)
    · obtain ⟨k', h', _⟩ := arecheck_remove h tx hal
      exact Or.inr ⟨k', rem, firsts, h'⟩
  | flush =>
    rcases h with h | ⟨kept, rem, firsts, h⟩
    · exact Or.inl (aidle_flush h)
    · have := rem_nil_of_flush_allowed h hal
      subst this
      exact Or.inl (aidle_flush (aidle_of_recheck_done h))

theorem aphase_runG (ops : List AOpG) : ∀ {a : AState}, APhase a → Disciplined a ops →
    APhase (arunG a ops) := by
  induction ops with
  | nil => intro a h _; exact h
  | cons o r ih => intro a h hd; exact ih (aphase_stepG h o hd.1) hd.2

def AOpG.isUpdate : AOpG → Bool
  | .update _ _ _ _ _ => true
  | _ => false

def countDeliverG : List AOpG → Nat
  | [] => 0
  | .deliver :: r => countDeliverG r + 1
  | _ :: r => countDeliverG r

/-- the recheck phase under the discipline: sends, answers, allowed removals (and an allowed flush,
which can only come when nothing is pending) -/
theorem arunG_recheck_phase : ∀ (ops : List AOpG) (a : AState) (kept rem : List Bytes) (firsts : List Req),
    ARecheck a kept rem firsts → Disciplined a ops → (∀ o ∈ ops, o.isUpdate = false) →
    countDeliverG ops ≤ rem.length →
    ∃ kept' rem' firsts', ARecheck (arunG a ops) kept' rem' firsts' ∧
      rem'.length + countDeliverG ops = rem.length ∧ (arunG a ops).rv = a.rv ∧
      (arunG a ops).s.post = a.s.post := by
  intro ops
  induction ops with
  | nil => intro a kept rem firsts h _ _ _; exact ⟨kept, rem, firsts, h, by simp [countDeliverG], rfl, rfl⟩
  | cons o r ih =>
    intro a kept rem firsts h hd hnu hc
    have hnu' : ∀ o' ∈ r, o'.isUpdate = false := fun o' ho' => hnu o' (List.mem_cons_of_mem _ ho')
    cases o with
    | send tx v =>
      obtain ⟨f', h'⟩ := arecheck_send h tx v
      obtain ⟨_, _, _, h4, _, _, h7, _, _⟩ := asend_spec a tx v
      obtain ⟨k2, r2, f2, g1, g2, g3, g4⟩ := ih (asend a tx v).1 kept rem f' h' hd.2 hnu'
        (by simpa [countDeliverG] using hc)
      exact ⟨k2, r2, f2, g1, by simpa [countDeliverG] using g2, g3.trans h7, g4.trans h4⟩
    | deliver =>
      cases rem with
      | nil => simp [countDeliverG] at hc
      | cons c rem =>
        have hrv : (adeliver a).rv = a.rv ∧ (adeliver a).s.post = a.s.post := by
          have hq : a.queue = Req.recheck c :: (rem.map Req.recheck ++ firsts) := by rw [h.queue]; rfl
          have hcur : a.cursor = some c := by rw [h.cursor]; rfl
          unfold adeliver
          rw [hq]
          simp only [hcur]
          unfold resCbRecheckA
          split <;> (try simp only) <;> (try split) <;>
            first | exact ⟨rfl, rfl⟩ | (refine ⟨?_, ?_⟩ <;> first | rfl | trivial | simp [removeTx])
        have hc' : countDeliverG r ≤ rem.length := by simp [countDeliverG] at hc; omega
        rcases arecheck_deliver_recheck c h with ⟨_, h'⟩ | ⟨_, h'⟩
        · obtain ⟨k2, r2, f2, g1, g2, g3, g4⟩ := ih (adeliver a) _ rem firsts h' hd.2 hnu' hc'
          exact ⟨k2, r2, f2, g1, by simp [countDeliverG]; omega, g3.trans hrv.1, g4.trans hrv.2⟩
        · obtain ⟨k2, r2, f2, g1, g2, g3, g4⟩ := ih (adeliver a) _ rem firsts h' hd.2 hnu' hc'
          exact ⟨k2, r2, f2, g1, by simp [countDeliverG]; omega, g3.trans hrv.1, g4.trans hrv.2⟩
    | update ht b pre post rv =>
      have := hnu (.update ht b pre post rv) List.mem_cons_self
      simp [AOpG.isUpdate] at this
    | removeByKey tx =>
      obtain ⟨k', h', _⟩ := arecheck_remove h tx hd.1
      have hsame : (aremoveByKey a tx).rv = a.rv ∧ (aremoveByKey a tx).s.post = a.s.post := by
        unfold aremoveByKey; split <;> exact ⟨rfl, rfl⟩
      obtain ⟨k2, r2, f2, g1, g2, g3, g4⟩ := ih (aremoveByKey a tx) k' rem firsts h' hd.2 hnu'
        (by simpa [countDeliverG] using hc)
      exact ⟨k2, r2, f2, g1, by simpa [countDeliverG] using g2, g3.trans hsame.1, g4.trans hsame.2⟩
    | flush =>
      have hrem := rem_nil_of_flush_allowed h hd.1
      subst hrem
      have h' : ARecheck (aflush a) [] [] firsts :=
        ⟨inv_flush a.s, by simp [aflush, keys, flush], fun _ hk => (by cases hk), h.queue, h.firsts,
          h.cursor, fun hr => absurd rfl hr, h.ok⟩
      obtain ⟨k2, r2, f2, g1, g2, g3, g4⟩ := ih (aflush a) [] [] firsts h' hd.2 hnu'
        (by simpa [countDeliverG] using hc)
      exact ⟨k2, r2, f2, g1, by simpa [countDeliverG] using g2, g3, g4⟩

end Tmv.Mempool.V0
