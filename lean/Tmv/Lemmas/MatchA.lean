import Tmv.Lemmas.IndexExact
set_option linter.unusedSimpArgs false
set_option linter.unusedVariables false
/-! The match-side lemmas over an arbitrary attribute list `A` (composite key, value), so that they
serve both the events of a tx (`attrsAll r`) and the begin/end events of a block. -/
namespace Tmv.Index
open Tmv.Query

/-- the event map built from an attribute list (what `validateAndStringifyEvents` + the reserved
keys produce: values grouped per composite key, in order) -/
def evOf (A : List (Str × Str)) : Events := A.foldl (fun ev kv => groupInsert ev kv.1 kv.2) []

theorem eventsOf_evOf (r : TxResult) : eventsOf r = evOf (attrsAll r) := eventsOf_eq r

theorem lookup_evOf (A : List (Str × Str)) (k : Str) :
    lookup (evOf A) k = if valuesOf A k = [] then none else some (valuesOf A k) := by
  rw [evOf, lookup_fold]
  simp [optApp, lookup]

theorem evOf_nonempty (A : List (Str × Str)) (kv : Str × Str) (h : kv ∈ A) : (evOf A).isEmpty = false := by
  have hl := lookup_evOf A kv.1
  have hv : kv.2 ∈ valuesOf A kv.1 := (mem_valuesOf _ _ _).mpr h
  have hne : valuesOf A kv.1 ≠ [] := fun e => by rw [e] at hv; cases hv
  rw [if_neg hne] at hl
  cases he : evOf A with
  | nil => rw [he] at hl; simp [lookup] at hl
  | cons _ _ => rfl

/-- the condition classes of the language the theorems cover (no float/TIME/DATE; numbers within
int64; `EXISTS` on a dotted key; `> MaxInt64` excluded) -/
def CondClass (c : Cond) : Prop :=
  (c.op = .eq ∧ ∃ s, c.operand = .str s) ∨
  (c.op = .eq ∧ ∃ n, c.operand = .int n ∧ n ≤ maxInt64) ∨
  (c.op = .exists ∧ c.operand = .none ∧ c.key.contains dot = true) ∨
  (c.op = .contains ∧ ∃ s, c.operand = .str s) ∨
  (isRangeOp c.op = true ∧ RangeCondOK c)

theorem CleanCond.toClass {c : Cond} (h : CleanCond c) : CondClass c := by
  obtain ⟨_, _, h⟩ := h
  rcases h with ⟨a, s, b, _⟩ | h | h | h | h
  · exact Or.inl ⟨a, s, b⟩
  · exact Or.inr (Or.inl h)
  · exact Or.inr (Or.inr (Or.inl h))
  · exact Or.inr (Or.inr (Or.inr (Or.inl h)))
  · exact Or.inr (Or.inr (Or.inr (Or.inr h)))

def holdsA (c : Cond) (A : List (Str × Str)) : Bool := (valuesOf A c.key).any (valTestG c)

theorem holdsA_iff (c : Cond) (A : List (Str × Str)) :
    holdsA c A = true ↔ ∃ kv ∈ A, kv.1 = c.key ∧ valTestG c kv.2 = true := by
  simp only [holdsA, List.any_eq_true]
  constructor
  · rintro ⟨v, hv, ht⟩
    exact ⟨(c.key, v), (mem_valuesOf _ _ _).mp hv, rfl, ht⟩
  · rintro ⟨kv, hkv, hk, ht⟩
    refine ⟨kv.2, (mem_valuesOf _ _ _).mpr ?_, ht⟩
    rw [← hk]; exact hkv

def CanonForA (c : Cond) (A : List (Str × Str)) : Prop :=
  ∀ n, c.operand = .int n → ∀ v ∈ valuesOf A c.key, ∃ m, m ≤ maxInt64 ∧ v = dec m

theorem condMatch_A (c : Cond) (hc : CondClass c) (A : List (Str × Str)) (hcan : CanonForA c A) :
    condMatch c (evOf A) = .ok (holdsA c A) := by
  unfold condMatch holdsA
  rw [lookup_evOf]
  rcases hc with ⟨hop, s, hs⟩ | ⟨hop, n, hn, hle⟩ | ⟨hop, hnone, hdot⟩ | ⟨hop, s, hs⟩ | ⟨hrange, n, hn, hle, _⟩
  · rw [hop, hs]; simp only
    have ht : valTestG c = strTest .eq s := by funext v; simp [valTestG, strTest, hop, hs]
    by_cases he : valuesOf A c.key = []
    · simp [he]
    · simp only [he, if_false, matchValues_str, ht]
  · rw [hop, hn]; simp only
    have hgt : ¬ n > maxInt64 := Nat.not_lt.mpr hle
    simp only [hgt, if_false]
    have ht : valTestG c = (· == dec n) := by funext v; simp [valTestG, hop, hn]
    by_cases he : valuesOf A c.key = []
    · simp [he]
    · simp only [he, if_false, matchValues_int_eq n _ (hcan n hn), ht]
  · rw [hop, hnone]; simp only [hdot, if_true]
    by_cases he : valuesOf A c.key = []
    · simp [he]
    · simp only [he, if_false]
      congr 1
      cases hv : valuesOf A c.key with
      | nil => exact absurd hv he
      | cons a b => simp [valTestG, hop]
  · rw [hop, hs]; simp only
    have ht : valTestG c = strTest .contains s := by funext v; simp [valTestG, strTest, hop, hs]
    by_cases he : valuesOf A c.key = []
    · simp [he]
    · simp only [he, if_false, matchValues_str, ht]
  · have hgt : ¬ n > maxInt64 := Nat.not_lt.mpr hle
    have hne : c.op ≠ .exists := by intro e; rw [e] at hrange; cases hrange
    obtain ⟨ms, hvs, hms⟩ := canon_list _ (hcan n hn)
    have hany : (valuesOf A c.key).any (valTestG c) = ms.any (fun m => cmpInt c.op m n) := by
      rw [hvs, List.any_map]
      congr 1
      funext m
      simp only [Function.comp]
      rw [valTestG_range c n m hrange hn]
      simp [cSem, hn]
    rw [hany]
    have hcm := condMatch_int c n hn hne (evOf A)
    unfold condMatch at hcm
    rw [lookup_evOf] at hcm
    rw [hcm, if_neg hgt]
    by_cases he : valuesOf A c.key = []
    · have : ms = [] := by
        rw [he] at hvs
        exact List.map_eq_nil_iff.mp hvs.symm
      rw [if_pos he, this]; rfl
    · rw [if_neg he]
      simp only
      rw [hvs]
      exact matchValues_int_canon c.op n ms hms

theorem matchConds_A (q : Query) (A : List (Str × Str)) (hq : ∀ c ∈ q, CondClass c)
    (hcan : ∀ c ∈ q, CanonForA c A) :
    matchConds q (evOf A) = .ok (q.all fun c => holdsA c A) := by
  induction q with
  | nil => rfl
  | cons c rest ih =>
    unfold matchConds
    rw [condMatch_A c (hq c List.mem_cons_self) A (hcan c List.mem_cons_self)]
    cases h : holdsA c A with
    | false => simp [h]
    | true => simp [h, ih (fun c' hc' => hq c' (List.mem_cons_of_mem _ hc'))
        (fun c' hc' => hcan c' (List.mem_cons_of_mem _ hc'))]

theorem matches_A (q : Query) (A : List (Str × Str)) (hne : ∃ kv, kv ∈ A)
    (hq : ∀ c ∈ q, CondClass c) (hcan : ∀ c ∈ q, CanonForA c A) :
    «matches» q (evOf A) = .ok true ↔ ∀ c ∈ q, holdsA c A = true := by
  obtain ⟨kv, hkv⟩ := hne
  simp only [«matches», evOf_nonempty A kv hkv, Bool.false_eq_true, if_false, matchConds_A q A hq hcan]
  constructor
  · intro h; injection h with h; exact List.all_eq_true.mp h
  · intro h; rw [List.all_eq_true.mpr h]

/-- per item: the merged interval of a key accepts one of the item's values iff every range
condition on that key holds of the item -/
theorem range_item (q : Query) (hconds : ∀ c ∈ q, CondClass c)
    (oneLower : ∀ k, ((rangeConds q).filter fun c => decide (c.key = k) && isLower c.op).length ≤ 1)
    (oneUpper : ∀ k, ((rangeConds q).filter fun c => decide (c.key = k) && isUpper c.op).length ≤ 1)
    (A : List (Str × Str)) (hcanA : ∀ c ∈ q, CanonForA c A)
    (hsingle : ∀ k, 2 ≤ ((rangeConds q).filter fun c => decide (c.key = k)).length → (valuesOf A k).length ≤ 1)
    (W : QRange) (hW : W ∈ lookForRanges q) :
    (∃ m, (W.key, dec m) ∈ A ∧ inR W m = true) ↔
      ∀ c ∈ rangeConds q, c.key = W.key → holdsA c A = true := by
  have spec := lookForRanges_spec q
  have hcs : ∀ c ∈ rangeConds q, isRangeOp c.op = true ∧ c ∈ q := by
    intro c hc
    have := List.mem_filter.mp hc
    exact ⟨this.2, this.1⟩
  have hok : ∀ c ∈ rangeConds q, RangeCondOK c := by
    intro c hc
    obtain ⟨hr', hcq⟩ := hcs c hc
    rcases hconds c hcq with ⟨hop, _⟩ | ⟨hop, _⟩ | ⟨hop, _⟩ | ⟨hop, _⟩ | ⟨_, hok⟩
    · rw [hop] at hr'; cases hr'
    · rw [hop] at hr'; cases hr'
    · rw [hop] at hr'; cases hr'
    · rw [hop] at hr'; cases hr'
    · exact hok
  let Ck := (rangeConds q).filter fun c => decide (c.key = W.key)
  obtain ⟨c0, hc0, hk0⟩ := spec.onlyKeys W hW
  have hc0k : c0 ∈ Ck := List.mem_filter.mpr ⟨hc0, by simp [hk0]⟩
  have hCkne : Ck ≠ [] := fun e => by rw [e] at hc0k; cases hc0k
  obtain ⟨n0, hn0, _, _⟩ := hok c0 hc0
  have hcan0 := hcanA c0 (hcs c0 hc0).2 n0 hn0
  rw [hk0] at hcan0
  obtain ⟨ms, hvs, hms⟩ := canon_list _ hcan0
  have hmem : ∀ m, (W.key, dec m) ∈ A ↔ m ∈ ms := by
    intro m
    rw [← mem_valuesOf, hvs, List.mem_map]
    constructor
    · rintro ⟨m', hm', e⟩; rw [← dec_inj e]; exact hm'
    · intro h; exact ⟨m, h, rfl⟩
  have hsem : ∀ m, inR W m = Ck.all (cSem · m) := by
    intro m
    have hW' : W = rangeOf (rangeConds q) W.key := spec.isFold W hW
    rw [inR_eq]
    have := rangeOf_sem (rangeConds q) W.key (fun c hc => (hcs c hc).1) hok (oneLower W.key)
      (oneUpper W.key) m
    rw [← hW'] at this
    exact this
  have hholds : ∀ c ∈ Ck, (holdsA c A = true ↔ ∃ m ∈ ms, cSem c m = true) := by
    intro c hc
    obtain ⟨hcr, hck⟩ := List.mem_filter.mp hc
    have hck : c.key = W.key := by simpa using hck
    obtain ⟨n, hn, _, _⟩ := hok c hcr
    unfold holdsA
    rw [hck, hvs, List.any_map, List.any_eq_true]
    constructor
    · rintro ⟨m, hm, ht⟩
      exact ⟨m, hm, by rw [← valTestG_range c n m (hcs c hcr).1 hn]; exact ht⟩
    · rintro ⟨m, hm, ht⟩
      exact ⟨m, hm, by simp only [Function.comp]; rw [valTestG_range c n m (hcs c hcr).1 hn]; exact ht⟩
  have hlen : ms.length ≤ 1 ∨ Ck.length ≤ 1 := by
    by_cases h2 : 2 ≤ Ck.length
    · left
      have := hsingle W.key h2
      rw [hvs, List.length_map] at this
      exact this
    · right; omega
  have hswap := exists_forall_swap ms Ck (fun c m => cSem c m = true) hCkne hlen
  constructor
  · rintro ⟨m, hm, hin⟩ c hc hk
    have hcCk : c ∈ Ck := List.mem_filter.mpr ⟨hc, by simp [hk]⟩
    rw [hholds c hcCk]
    rw [hsem m, List.all_eq_true] at hin
    exact ⟨m, (hmem m).mp hm, hin c hcCk⟩
  · intro hall
    have : ∀ c ∈ Ck, ∃ m ∈ ms, cSem c m = true := by
      intro c hc
      obtain ⟨hcr, hck⟩ := List.mem_filter.mp hc
      exact (hholds c hc).mp (hall c hcr (by simpa using hck))
    obtain ⟨m, hm, hp⟩ := hswap.mpr this
    exact ⟨m, (hmem m).mpr hm, by rw [hsem m, List.all_eq_true]; exact hp⟩

end Tmv.Index
