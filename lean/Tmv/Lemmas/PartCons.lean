import Tmv.Model.PartSet
/-! `addProposalBlockPart` over any message sequence: the part set it fills is `addAll` of some of
the offered parts, and the bytes handed to the block decoder are the reassembly of a complete such set. -/
namespace Tmv.PartSet
open Tmv.Merkle
variable (H : Bytes → Bytes)

def addAll' (ps : PartSet) (offers : List Part) : PartSet :=
  offers.foldl (fun s p => (addPart H s p).1) ps

theorem addAll'_snoc (ps : PartSet) (acc : List Part) (p : Part) :
    addAll' H ps (acc ++ [p]) = (addPart H (addAll' H ps acc) p).1 := by
  simp [addAll', List.foldl_append]

/-- what the consensus state holds, relative to the header it started from and the parts on offer -/
def ConsInv (init : PartSet) (all : List Part) (s : PartsState) : Prop :=
  (∃ acc : List Part, (∀ p ∈ acc, p ∈ all) ∧ s.parts = some (addAll' H init acc)) ∧
  (∀ b, s.block = some b → ∃ acc' : List Part, (∀ p ∈ acc', p ∈ all) ∧
      isComplete (addAll' H init acc') = true ∧ b = assemble (addAll' H init acc'))

theorem consAddPart_inv (init : PartSet) (all : List Part) (s : PartsState) (h r : Int) (p : Part)
    (hp : p ∈ all) (hi : ConsInv H init all s) : ConsInv H init all (consAddPart H s h r p).1 := by
  unfold consAddPart
  split; · exact hi
  split; · exact hi
  split; · exact hi
  split; · exact hi
  rename_i ps hps
  obtain ⟨⟨acc, hacc, hparts⟩, hblock⟩ := hi
  have hps' : ps = addAll' H init acc := by rw [hparts] at hps; exact (Option.some.inj hps).symm
  have hmem : ∀ q ∈ acc ++ [p], q ∈ all := by
    intro q hq
    rcases List.mem_append.mp hq with h1 | h1
    · exact hacc q h1
    · simp at h1; subst h1; exact hp
  have hnew : (addPart H ps p).1 = addAll' H init (acc ++ [p]) := by
    rw [addAll'_snoc, hps']
  simp only []
  split; · exact ⟨⟨acc, hacc, hparts⟩, hblock⟩
  split; · exact ⟨⟨acc, hacc, hparts⟩, hblock⟩
  split
  · exact ⟨⟨acc ++ [p], hmem, by simp [hnew]⟩, hblock⟩
  split
  · rename_i hc
    refine ⟨⟨acc ++ [p], hmem, by simp [hnew]⟩, ?_⟩
    intro b hb
    simp only [Option.some.injEq] at hb
    refine ⟨acc ++ [p], hmem, ?_, ?_⟩
    · rw [← hnew]; simp only [Bool.and_eq_true] at hc; exact hc.2
    · rw [← hnew]; exact hb.symm
  · exact ⟨⟨acc ++ [p], hmem, by simp [hnew]⟩, hblock⟩

/-- messages as they arrive: (height, round, part) -/
def consRun (s : PartsState) (msgs : List (Int × Int × Part)) : PartsState :=
  msgs.foldl (fun st m => (consAddPart H st m.1 m.2.1 m.2.2).1) s

theorem consRun_inv (init : PartSet) (all : List Part) :
    ∀ (msgs : List (Int × Int × Part)) (s : PartsState), (∀ m ∈ msgs, m.2.2 ∈ all) →
      ConsInv H init all s → ConsInv H init all (consRun H s msgs) := by
  intro msgs
  induction msgs with
  | nil => intro s _ h; exact h
  | cons m ms ih =>
    intro s hm h
    exact ih _ (fun x hx => hm x (List.mem_cons_of_mem _ hx))
      (consAddPart_inv H init all s m.1 m.2.1 m.2.2 (hm m List.mem_cons_self) h)

end Tmv.PartSet
