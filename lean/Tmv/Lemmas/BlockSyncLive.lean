import Tmv.Lemmas.BlockSync
/-! Lemmas for the liveness part of C13: what one uninterrupted fair-retry round with an honest
peer does to an arbitrary well-formed node. -/
namespace Tmv.BlockSync

/-! ### requesters by offset -/

theorem req?_add (p : Pool) (k : Nat) : p.req? (p.height + k) = p.requesters[k]? := by
  unfold Pool.req? Pool.idx?
  have h1 : ¬ (p.height + (k : Int) < p.height) := by omega
  have h2 : (p.height + (k : Int) - p.height).toNat = k := by omega
  simp only [h1, if_false, h2]
  by_cases hk : k < p.requesters.length
  · simp [hk]
  · simp only [hk, if_false]
    exact (List.getElem?_eq_none (by omega)).symm

theorem setReq_add (p : Pool) (k : Nat) (r : Requester) (hk : k < p.requesters.length) :
    p.setReq (p.height + k) r = { p with requesters := p.requesters.set k r } := by
  unfold Pool.setReq Pool.idx?
  have h1 : ¬ (p.height + (k : Int) < p.height) := by omega
  have h2 : (p.height + (k : Int) - p.height).toNat = k := by omega
  simp [h1, h2, hk]

/-! ### peers -/

theorem find?_map_id (f : Peer → Peer) (hf : ∀ q, (f q).id = q.id) (x : Nat) :
    ∀ l : List Peer, (l.map f).find? (·.id = x) = (l.find? (·.id = x)).map f := by
  intro l
  induction l with
  | nil => rfl
  | cons a t ih =>
    simp only [List.map_cons, List.find?_cons, hf]
    split
    · rfl
    · exact ih

theorem incrIf_id (w : Nat) (q : Peer) : (Peer.incrIf w q).id = q.id := by
  unfold Peer.incrIf; split <;> rfl

theorem decrIf_id (w : Nat) (q : Peer) : (Peer.decrIf w q).id = q.id := by
  unfold Peer.decrIf; split <;> rfl

end Tmv.BlockSync

namespace Tmv.BlockSync

/-- requester `r'` has the peer and block of `r` -/
def SamePB (g : Requester → Requester) : Prop := ∀ r, (g r).peer = r.peer ∧ (g r).block = r.block

theorem samePB_id : SamePB id := fun _ => ⟨rfl, rfl⟩

theorem samePB_mark (w : Nat) :
    SamePB (fun r => if r.peer = some w then r.signalRedo w else r) := by
  intro r
  by_cases h : r.peer = some w
  · simp only [h, if_true]
    unfold Requester.signalRedo
    split <;> simp [h]
  · simp [h]

theorem removePeer_reqs (p : Pool) (w : Nat) :
    (p.removePeer w).requesters =
      p.requesters.map (fun r => if r.peer = some w then r.signalRedo w else r) ∧
    (p.removePeer w).height = p.height := by
  unfold Pool.removePeer
  split <;> exact ⟨rfl, rfl⟩

/-- node well-formedness kept by every operation -/
structure WF (n : Node) : Prop where
  height : n.pool.height = startHeight n.st
  pos : 0 < n.st.initialHeight ∧ 0 ≤ n.st.lastHeight
  reqs : ∀ (i : Nat) (r : Requester) (b : Block), n.pool.requesters[i]? = some r → r.block = some b →
    b.height = n.pool.height + i ∧ r.peer.isSome
  peers : ∀ q ∈ n.pool.peers, q.id ∈ n.connected

/-- stage A of the fair round: the honest peer reconnects and reports its range -/
theorem fair_stageA (n : Node) (w : Nat) (base tip : Int) (hw : WF n)
    (hb : 0 ≤ base) (hbt : base ≤ tip) :
    let n3 := ((((n.disconnect w).1.connect w).1).recvStatus w base tip).1
    n3.st = n.st ∧ n3.store = n.store ∧ n3.pool.height = n.pool.height ∧ w ∈ n3.connected ∧
    n3.pool.peer? w = some ⟨w, base, tip, 0, false⟩ ∧ tip ≤ n3.pool.maxPeerHeight ∧
    (∃ g, SamePB g ∧ n3.pool.requesters = n.pool.requesters.map g) ∧
    (∀ q ∈ n3.pool.peers, q.id ∈ n3.connected) ∧ n3.pool.numPending = n.pool.numPending := by
  -- after disconnect + connect: w connected, not in the pool
  have h12 : ∃ n2 : Node, ((n.disconnect w).1.connect w).1 = n2 ∧ n2.st = n.st ∧ n2.store = n.store ∧
      n2.pool.height = n.pool.height ∧ w ∈ n2.connected ∧ n2.pool.peer? w = none ∧
      (∃ g, SamePB g ∧ n2.pool.requesters = n.pool.requesters.map g) ∧
      (∀ q ∈ n2.pool.peers, q.id ∈ n2.connected) ∧ n2.pool.numPending = n.pool.numPending := by
    refine ⟨_, rfl, ?_⟩
    unfold Node.disconnect
    by_cases hc : w ∈ n.connected
    · simp only [hc, if_true]
      have hnot : w ∉ List.filter (fun x => decide (x ≠ w)) n.connected := by simp
      unfold Node.connect
      simp only [hnot, if_false]
      obtain ⟨hr, hh⟩ := removePeer_reqs n.pool w
      refine ⟨(by first | rfl | trivial), (by first | rfl | trivial), hh, by simp, removePeer_self _ _, ⟨_, samePB_mark w, hr⟩, ?_, (by unfold Pool.removePeer; split <;> rfl)⟩
      intro q hq
      have hq0 := removePeer_peers_sub n.pool w q hq
      have hne : q.id ≠ w := by
        have := removePeer_self n.pool w
        rw [peer?_none_iff] at this
        exact this q hq
      have := hw.peers q hq0
      simp [this, hne]
    · simp only [hc, if_false]
      unfold Node.connect
      simp only [hc, if_false]
      have hnone : n.pool.peer? w = none := by
        rw [peer?_none_iff]
        intro q hq he
        exact hc (he ▸ hw.peers q hq)
      refine ⟨(by first | rfl | trivial), (by first | rfl | trivial), (by first | rfl | trivial), by simp, hnone, ⟨id, samePB_id, by simp⟩, ?_, (by first | rfl | trivial)⟩
      intro q hq
      have := hw.peers q hq
      simp [this]
  obtain ⟨n2, e2, hst, hsto, hh, hc, hnone, hg, hp, hnum⟩ := h12
  simp only [e2]
  unfold Node.recvStatus
  have hnc : ¬ w ∉ n2.connected := by simpa using hc
  have hval : ¬ (base < 0 ∨ tip < 0 ∨ base > tip) := by omega
  simp only [hnc, if_false, hval]
  unfold Pool.setPeerRange
  simp only [hnone, Option.isSome_none, Bool.false_eq_true, if_false]
  refine ⟨hst, hsto, hh, hc, ?_, ?_, hg, ?_, hnum⟩
  · unfold Pool.peer?
    have : n2.pool.peers.find? (fun q => decide (q.id = w)) = none := hnone
    simp [List.find?_append, this]
  · split <;> omega
  · intro q hq
    simp only [List.mem_append, List.mem_singleton] at hq
    rcases hq with hq | rfl
    · exact hp q hq
    · exact hc

end Tmv.BlockSync

namespace Tmv.BlockSync

def Requester.idle (r : Requester) : Prop := r.peer = none ∧ r.block = none

/-- no requester holds a block without a peer -/
def ReqsOK (l : List Requester) : Prop := ∀ r ∈ l, r.peer = none → r.block = none

theorem mkreq_spec (p : Pool) (hok : ReqsOK p.requesters) (hnp : p.numPending ≤ p.requesters.length) :
    p.routineStep.height = p.height ∧ p.routineStep.peers = p.peers ∧
    p.routineStep.maxPeerHeight = p.maxPeerHeight ∧ ReqsOK p.routineStep.requesters ∧
    p.requesters.length ≤ p.routineStep.requesters.length ∧
    p.routineStep.numPending ≤ p.routineStep.requesters.length ∧
    (p.height + p.requesters.length ≤ p.maxPeerHeight →
      p.routineStep.requesters.length = p.requesters.length + 1 ∨ 600 ≤ p.requesters.length) := by
  unfold Pool.routineStep Facts.c13_maxPendingRequests Facts.c13_maxTotalRequesters
  split
  · rename_i h; exact ⟨rfl, rfl, rfl, hok, Nat.le_refl _, hnp, fun _ => Or.inr (by omega)⟩
  split
  · rename_i h; exact ⟨rfl, rfl, rfl, hok, Nat.le_refl _, hnp, fun _ => Or.inr (by omega)⟩
  unfold Pool.makeNextRequester
  split
  · rename_i h; exact ⟨rfl, rfl, rfl, hok, Nat.le_refl _, hnp, fun h' => by omega⟩
  · refine ⟨rfl, rfl, rfl, ?_, by simp, by simp; omega, fun _ => Or.inl (by simp)⟩
    intro r hr
    simp only [List.mem_append, List.mem_singleton] at hr
    rcases hr with hr | rfl
    · exact hok r hr
    · intro _; rfl

/-- the retry timer on the requester at offset `k` -/
theorem rtimeout_at (p : Pool) (k : Nat) (r : Requester) (hr : p.requesters[k]? = some r)
    (hok : ReqsOK p.requesters) :
    ∃ r', r'.idle ∧ (p.rtimeout (p.height + k)).1.requesters = p.requesters.set k r' ∧
      (p.rtimeout (p.height + k)).1.height = p.height ∧
      (p.rtimeout (p.height + k)).1.peers = p.peers ∧
      (p.rtimeout (p.height + k)).1.maxPeerHeight = p.maxPeerHeight := by
  have hk : k < p.requesters.length := (List.getElem?_eq_some_iff.mp hr).1
  have hmem : r ∈ p.requesters := List.mem_of_getElem? hr
  unfold Pool.rtimeout
  rw [req?_add, hr]
  simp only
  by_cases hp : r.peer = none
  · simp only [hp, Option.isNone_none, if_true]
    refine ⟨r, ⟨hp, hok r hmem hp⟩, ?_, (by first | rfl | trivial), (by first | rfl | trivial), (by first | rfl | trivial)⟩
    obtain ⟨hk2, heq⟩ := List.getElem?_eq_some_iff.mp hr
    subst heq
    exact (List.set_getElem_self hk2).symm
  · have : r.peer.isNone = false := by cases h : r.peer <;> simp_all
    simp only [this, Bool.false_eq_true, if_false]
    unfold Pool.resetReq
    have hk' : k < ({ p with numPending := if r.block.isSome then p.numPending + 1 else p.numPending } : Pool).requesters.length := hk
    have := setReq_add ({ p with numPending := if r.block.isSome then p.numPending + 1 else p.numPending }) k
      { r with peer := none, block := none } hk'
    simp only at this
    rw [this]
    exact ⟨_, ⟨rfl, rfl⟩, rfl, rfl, rfl, rfl⟩

theorem reqsOK_set (l : List Requester) (k : Nat) (r : Requester) (hok : ReqsOK l) (hr : r.idle) :
    ReqsOK (l.set k r) := by
  intro x hx
  rcases List.mem_or_eq_of_mem_set hx with h | rfl
  · exact hok x h
  · intro _; exact hr.2

/-- stage B: two requesters exist and are back in the picking state -/
theorem fair_stageB (p : Pool) (tip : Int) (hok : ReqsOK p.requesters) (htip : p.height < tip)
    (hmax : tip ≤ p.maxPeerHeight) (hnp : p.numPending ≤ p.requesters.length) :
    let p4 := (((p.routineStep.routineStep).rtimeout p.height).1.rtimeout (p.height + 1)).1
    p4.height = p.height ∧ p4.peers = p.peers ∧
    ∃ r0 r1 rest, p4.requesters = r0 :: r1 :: rest ∧ r0.idle ∧ r1.idle := by
  obtain ⟨a1, a2, a3, a4, a5, a7, a6⟩ := mkreq_spec p hok hnp
  obtain ⟨b1, b2, b3, b4, b5, _, b6⟩ := mkreq_spec p.routineStep a4 a7
  generalize hq : p.routineStep.routineStep = q at *
  have hlen : 2 ≤ q.requesters.length := by
    rw [a1, a3] at b6
    by_cases h0 : p.requesters.length = 0
    · have h1 := a6 (by rw [h0]; simp; omega)
      rcases h1 with h1 | h1
      · have h2 := b6 (by rw [h1, h0]; simp; omega)
        omega
      · omega
    · by_cases h1 : p.requesters.length = 1
      · have h2 := a6 (by rw [h1]; simp; omega)
        omega
      · omega
  have hqh : q.height = p.height := by rw [b1, a1]
  obtain ⟨x0, hx0⟩ : ∃ x, q.requesters[0]? = some x := ⟨q.requesters[0], by simp [List.getElem?_eq_getElem, show 0 < q.requesters.length by omega]⟩
  obtain ⟨r0, hi0, e0, h0, pe0, _⟩ := rtimeout_at q 0 x0 hx0 b4
  simp only [Int.natCast_zero, Int.add_zero] at e0 h0 pe0
  rw [← hqh]
  generalize hq1 : (q.rtimeout q.height).1 = q1 at *
  have hok1 : ReqsOK q1.requesters := by rw [e0]; exact reqsOK_set _ _ _ b4 hi0
  have hlen1 : 2 ≤ q1.requesters.length := by rw [e0]; simpa using hlen
  obtain ⟨x1, hx1⟩ : ∃ x, q1.requesters[1]? = some x := ⟨q1.requesters[1], by simp [List.getElem?_eq_getElem, show 1 < q1.requesters.length by omega]⟩
  obtain ⟨r1, hi1, e1, h1, pe1, _⟩ := rtimeout_at q1 1 x1 hx1 hok1
  rw [h0] at e1 h1 pe1
  simp only [Int.natCast_one] at e1 h1 pe1
  refine ⟨by rw [h1], by rw [pe1, pe0, b2, a2], ?_⟩
  rw [e1, e0]
  match hm : q.requesters, hlen with
  | a :: b :: rest, _ =>
    refine ⟨r0, r1, rest, by simp, hi0, hi1⟩

end Tmv.BlockSync

namespace Tmv.BlockSync

theorem available_of (q : Peer) (h : Int) (hn : q.numPending < 20) (hb : q.base ≤ h) (ht : h ≤ q.height) :
    q.available h = true := by
  unfold Peer.available maxPendingRequestsPerPeer Facts.c13_maxPendingRequestsPerPeer
  have h1 : ¬ (q.numPending ≥ 20) := by omega
  have h2 : ¬ (h < q.base) := by omega
  have h3 : ¬ (h > q.height) := by omega
  simp [h1, h2, h3]

/-- `pick` of an available peer for the idle requester at offset `k` -/
theorem pick_at (p : Pool) (k : Nat) (w : Nat) (r : Requester) (q : Peer)
    (hr : p.requesters[k]? = some r) (hidle : r.peer = none) (hq : p.peer? w = some q)
    (hav : q.available (p.height + k) = true) :
    (p.pick (p.height + k) w).1.requesters = p.requesters.set k { r with peer := some w } ∧
    (p.pick (p.height + k) w).1.height = p.height ∧
    (p.pick (p.height + k) w).1.peer? w = some { q with numPending := q.numPending + 1, armed := true } := by
  have hk : k < p.requesters.length := (List.getElem?_eq_some_iff.mp hr).1
  have hqid : q.id = w := by
    have := List.find?_some hq; simpa using this
  unfold Pool.pick
  rw [req?_add, hr]
  simp only [hidle, Option.isSome_none, Bool.false_eq_true, if_false, hq, hav, if_true]
  have hk' : k < ({ p with peers := p.peers.map (Peer.incrIf w) } : Pool).requesters.length := hk
  have hs := setReq_add ({ p with peers := p.peers.map (Peer.incrIf w) }) k { r with peer := some w } hk'
  simp only at hs
  rw [hs]
  refine ⟨rfl, rfl, ?_⟩
  unfold Pool.peer?
  simp only
  rw [find?_map_id (Peer.incrIf w) (incrIf_id w) w]
  have : p.peers.find? (fun x => decide (x.id = w)) = some q := hq
  rw [this]
  simp [Peer.incrIf, hqid]

/-- `AddBlock` of the expected block from the expected, armed peer -/
theorem addBlock_at (p : Pool) (k : Nat) (w : Nat) (r : Requester) (q : Peer) (b : Block)
    (hb : b.height = p.height + k)
    (hr : p.requesters[k]? = some r) (hp : r.peer = some w) (hblk : r.block = none)
    (hq : p.peer? w = some q) (harm : q.armed = true) :
    (p.addBlock w b).2 = .added ∧
    (p.addBlock w b).1.requesters = p.requesters.set k { r with block := some b } ∧
    (p.addBlock w b).1.height = p.height ∧
    (p.addBlock w b).1.peer? w = some { q with numPending := q.numPending - 1 } := by
  have hk : k < p.requesters.length := (List.getElem?_eq_some_iff.mp hr).1
  have hqid : q.id = w := by
    have := List.find?_some hq; simpa using this
  unfold Pool.addBlock
  rw [hb, req?_add, hr]
  have hc : ¬ (r.block.isSome = true ∨ r.peer ≠ some w) := by simp [hblk, hp]
  simp only [hc, if_false, hq, harm, if_true]
  have hk' : k < ({ p with numPending := p.numPending - 1, peers := p.peers.map (Peer.decrIf w) } : Pool).requesters.length := hk
  have hs := setReq_add ({ p with numPending := p.numPending - 1, peers := p.peers.map (Peer.decrIf w) }) k
    { r with block := some b } hk'
  simp only at hs
  rw [hs]
  refine ⟨by first | rfl | trivial | simp [harm], by first | rfl | trivial, by first | rfl | trivial, ?_⟩
  unfold Pool.peer?
  simp only
  rw [find?_map_id (Peer.decrIf w) (decrIf_id w) w]
  have : p.peers.find? (fun x => decide (x.id = w)) = some q := hq
  rw [this]
  simp [Peer.decrIf, hqid, harm]

end Tmv.BlockSync

namespace Tmv.BlockSync
variable (sigOK : Nat → SignBytes → Nat → Bool)

/-- a block as an honest peer serves it: decodes and passes `ValidateBasic` -/
def Block.wellFormed (b : Block) : Prop := b.lastCommit.basicOK = true ∧ b.malformed = false

/-- stage C: both requesters pick the honest peer, it answers both, the pair is processed -/
theorem fair_stageC (m : Node) (w : Nat) (q : Peer) (r0 r1 : Requester) (rest : List Requester)
    (b1 b2 : Block)
    (hreqs : m.pool.requesters = r0 :: r1 :: rest) (hi0 : r0.idle) (hi1 : r1.idle)
    (hq : m.pool.peer? w = some q) (hq0 : q.numPending = 0)
    (hbase : q.base ≤ m.pool.height) (htip : m.pool.height + 1 ≤ q.height)
    (hconn : w ∈ m.connected)
    (hb1 : b1.height = m.pool.height) (hb2 : b2.height = m.pool.height + 1)
    (hw1 : b1.wellFormed) (hw2 : b2.wellFormed)
    (hok : checkPair sigOK m.st b1 b2 = .ok ()) :
    let m' := m.run sigOK [.pick m.pool.height w, .pick (m.pool.height + 1) w, .block w b1, .block w b2, .process]
    m'.store = (b1, b2.lastCommit) :: m.store ∧ m'.st = applyBlock m.st b1 ∧
      m'.pool.height = m.pool.height + 1 := by
  have c0 : m.pool.height = m.pool.height + ((0 : Nat) : Int) := by simp
  have c1 : m.pool.height + 1 = m.pool.height + ((1 : Nat) : Int) := by simp
  -- pick for the first requester
  have g0 : m.pool.requesters[0]? = some r0 := by rw [hreqs]; rfl
  obtain ⟨p1r, p1h, p1q⟩ := pick_at m.pool 0 w r0 q g0 hi0.1 hq
    (available_of q _ (by omega) (by simpa using hbase) (by simp; omega))
  rw [← c0] at p1r p1h p1q
  generalize hP1 : (m.pool.pick m.pool.height w).1 = P1 at *
  -- pick for the second requester
  have g1 : P1.requesters[1]? = some r1 := by rw [p1r, hreqs]; rfl
  have hav1 : ({ q with numPending := q.numPending + 1, armed := true } : Peer).available (P1.height + ((1 : Nat) : Int)) = true :=
    available_of _ _ (by simp; omega) (by simp; omega) (by simp; omega)
  obtain ⟨p2r, p2h, p2q⟩ := pick_at P1 1 w r1 _ g1 hi1.1 p1q hav1
  rw [p1h, ← c1] at p2r p2h p2q
  generalize hP2 : (P1.pick (m.pool.height + 1) w).1 = P2 at *
  have hP2reqs : P2.requesters = { r0 with peer := some w } :: { r1 with peer := some w } :: rest := by
    rw [p2r, p1r, hreqs]; rfl
  -- first block
  have a0 : P2.requesters[0]? = some { r0 with peer := some w } := by rw [hP2reqs]; rfl
  have hb1' : b1.height = P2.height + ((0 : Nat) : Int) := by rw [p2h]; simpa using hb1
  obtain ⟨A1res, A1r, A1h, A1q⟩ := addBlock_at P2 0 w _ _ b1 hb1' a0 rfl hi0.2 p2q rfl
  generalize hP3 : (P2.addBlock w b1) = P3 at *
  have hP3reqs : P3.1.requesters = { r0 with peer := some w, block := some b1 } :: { r1 with peer := some w } :: rest := by
    rw [A1r, hP2reqs]; rfl
  -- second block
  have a1 : P3.1.requesters[1]? = some { r1 with peer := some w } := by rw [hP3reqs]; rfl
  have hb2' : b2.height = P3.1.height + ((1 : Nat) : Int) := by rw [A1h, p2h]; simpa using hb2
  obtain ⟨A2res, A2r, A2h, A2q⟩ := addBlock_at P3.1 1 w _ _ b2 hb2' a1 rfl hi1.2 A1q rfl
  generalize hP4 : (P3.1.addBlock w b2) = P4 at *
  have hP4reqs : P4.1.requesters = { r0 with peer := some w, block := some b1 } ::
      { r1 with peer := some w, block := some b2 } :: rest := by
    rw [A2r, hP3reqs]; rfl
  have hP4h : P4.1.height = m.pool.height := by rw [A2h, A1h, p2h]
  -- the node after the two picks and the two deliveries
  have hrun : m.run sigOK [.pick m.pool.height w, .pick (m.pool.height + 1) w, .block w b1, .block w b2]
      = { m with pool := P4.1 } := by
    simp only [Node.run, List.foldl_cons, List.foldl_nil, Node.apply]
    rw [hP1, hP2]
    have hnc : ¬ w ∉ m.connected := by simpa using hconn
    unfold Node.recvBlock
    simp only [hnc, if_false, hw1.1, hw1.2, Bool.not_true, Bool.or_false, Bool.false_eq_true]
    rw [hP3]
    simp only [A1res]
    simp only [hnc, if_false, hw2.1, hw2.2, Bool.not_true, Bool.or_false, Bool.false_eq_true]
    rw [hP4]
    simp only [A2res]
  have hsplit : m.run sigOK [.pick m.pool.height w, .pick (m.pool.height + 1) w, .block w b1, .block w b2, .process]
      = (({ m with pool := P4.1 } : Node).processStep sigOK).1 := by
    have : [Op.pick m.pool.height w, .pick (m.pool.height + 1) w, .block w b1, .block w b2, .process]
        = [Op.pick m.pool.height w, .pick (m.pool.height + 1) w, .block w b1, .block w b2] ++ [.process] := rfl
    rw [this]
    unfold Node.run
    rw [List.foldl_append]
    have := hrun
    unfold Node.run at this
    rw [this]
    rfl
  simp only [hsplit]
  have hpeek : P4.1.peekTwo = (some b1, some b2) := by
    unfold Pool.peekTwo
    have e0 : P4.1.height = P4.1.height + ((0 : Nat) : Int) := by simp
    have e1 : P4.1.height + 1 = P4.1.height + ((1 : Nat) : Int) := by simp
    rw [e1, req?_add, hP4reqs]
    conv => lhs; arg 1; rw [e0, req?_add, hP4reqs]
    rfl
  unfold Node.processStep
  simp only [hpeek, hok]
  unfold Pool.pop
  rw [hP4reqs]
  exact ⟨rfl, rfl, by simp [hP4h]⟩

end Tmv.BlockSync

namespace Tmv.BlockSync
variable (sigOK : Nat → SignBytes → Nat → Bool)

/-- one fair-retry round for the two heights in front (`h` = the pool's height): the honest peer
`w` (re)connects and reports its range, the two requesters exist, their retry timers have fired,
both are assigned to `w`, `w` answers both requests, the processing loop runs once -/
def fairRound (h : Int) (w : Nat) (base tip : Int) (b1 b2 : Block) : List Op :=
  [.disconnect w, .connect w, .status w base tip, .mkreq, .mkreq, .rtimeout h, .rtimeout (h + 1),
   .pick h w, .pick (h + 1) w, .block w b1, .block w b2, .process]

theorem run_append (n : Node) (l1 l2 : List Op) :
    n.run sigOK (l1 ++ l2) = (n.run sigOK l1).run sigOK l2 := by
  unfold Node.run; rw [List.foldl_append]

/-- from ANY well-formed node, the fair round saves and executes the first of two blocks that pass
the check on the node's state, with the second's commit as seen commit -/
theorem fairRound_saves (n : Node) (hw : WF n) (hnp : n.pool.numPending ≤ n.pool.requesters.length)
    (w : Nat) (base tip : Int) (b1 b2 : Block)
    (hb0 : 0 ≤ base) (hbase : base ≤ n.pool.height) (htip : n.pool.height < tip)
    (hb1 : b1.height = n.pool.height) (hb2 : b2.height = n.pool.height + 1)
    (hw1 : b1.wellFormed) (hw2 : b2.wellFormed)
    (hok : checkPair sigOK n.st b1 b2 = .ok ()) :
    let n' := n.run sigOK (fairRound n.pool.height w base tip b1 b2)
    n'.store = (b1, b2.lastCommit) :: n.store ∧ n'.st = applyBlock n.st b1 ∧
      n'.pool.height = n.pool.height + 1 := by
  obtain ⟨a_st, a_store, a_h, a_conn, a_peer, a_max, ⟨g, hg, a_reqs⟩, _, a_num⟩ :=
    fair_stageA n w base tip hw hb0 (by omega)
  generalize hn3 : ((((n.disconnect w).1.connect w).1).recvStatus w base tip).1 = n3 at *
  have hok3 : ReqsOK n3.pool.requesters := by
    rw [a_reqs]
    intro r' hr' hnone
    obtain ⟨r, hr, rfl⟩ := List.mem_map.mp hr'
    obtain ⟨i, hi, hget⟩ := List.getElem_of_mem hr
    have hgi : n.pool.requesters[i]? = some r := by rw [List.getElem?_eq_getElem hi, hget]
    rw [(hg r).2]
    rw [(hg r).1] at hnone
    cases hb : r.block with
    | none => rfl
    | some b =>
      have := (hw.reqs i r b hgi hb).2
      rw [hnone] at this; simp at this
  obtain ⟨b_h, b_peers, r0, r1, rest, b_reqs, hi0, hi1⟩ :=
    fair_stageB n3.pool tip hok3 (by rw [a_h]; exact htip) a_max
      (by rw [a_num, a_reqs]; simpa using hnp)
  generalize hp4 : (((n3.pool.routineStep.routineStep).rtimeout n3.pool.height).1.rtimeout
    (n3.pool.height + 1)).1 = p4 at *
  -- the first seven operations
  have hrun7 : n.run sigOK [.disconnect w, .connect w, .status w base tip, .mkreq, .mkreq,
      .rtimeout n.pool.height, .rtimeout (n.pool.height + 1)] = { n3 with pool := p4 } := by
    simp only [Node.run, List.foldl_cons, List.foldl_nil, Node.apply]
    rw [hn3, ← a_h, hp4]
  have hsplit : fairRound n.pool.height w base tip b1 b2 =
      [.disconnect w, .connect w, .status w base tip, .mkreq, .mkreq,
        .rtimeout n.pool.height, .rtimeout (n.pool.height + 1)] ++
      [.pick n.pool.height w, .pick (n.pool.height + 1) w, .block w b1, .block w b2, .process] := rfl
  simp only [hsplit, run_append, hrun7]
  have hph : p4.height = n.pool.height := by rw [b_h, a_h]
  have hq : p4.peer? w = some ⟨w, base, tip, 0, false⟩ := by
    unfold Pool.peer? at a_peer ⊢
    rw [b_peers]; exact a_peer
  have := fair_stageC sigOK ({ n3 with pool := p4 } : Node) w ⟨w, base, tip, 0, false⟩ r0 r1 rest b1 b2
    b_reqs hi0 hi1 hq rfl (by simp [hph]; exact hbase) (by simp [hph]; omega) a_conn
    (by simp [hph, hb1]) (by simp [hph, hb2]) hw1 hw2 (by simpa [a_st] using hok)
  simp only [hph] at this
  simpa [a_st, a_store] using this

end Tmv.BlockSync
