import Tmv.Lemmas.Merkle
/-! The RFC-6962 root binds the whole list (its length included): equal roots ⇒ equal lists, or an
explicit collision of `H`. (C10 proves position binding of proofs; C06 needs list binding.) -/
namespace Tmv.Merkle
variable (H : Bytes → Bytes)

/-- `rootF` does not depend on the fuel once it covers the list -/
theorem rootF_fuel : ∀ (f : Nat) (items : List Bytes), items.length ≤ f →
    rootF H f items = rootF H items.length items := by
  intro f
  induction f using Nat.strongRecOn with
  | _ f ih =>
    intro items hle
    match items, hle with
    | [], _ => cases f <;> simp [rootF]
    | [x], hle =>
      cases f with
      | zero => simp at hle
      | succ f => simp [rootF]
    | a :: b :: c, hle =>
      cases f with
      | zero => simp at hle
      | succ f =>
        have h2 : 2 ≤ (a :: b :: c).length := by simp
        obtain ⟨hk0, hk⟩ := splitPoint_lt h2
        generalize hitems : (a :: b :: c) = items at *
        have hlen : items.length = c.length + 2 := by subst hitems; simp
        have e1 : rootF H (f+1) items =
            innerHash H (rootF H f (items.take (splitPoint items.length)))
              (rootF H f (items.drop (splitPoint items.length))) := by
          subst hitems; simp [rootF]
        have e2 : rootF H items.length items =
            innerHash H (rootF H (items.length - 1) (items.take (splitPoint items.length)))
              (rootF H (items.length - 1) (items.drop (splitPoint items.length))) := by
          rw [hlen]; subst hitems; simp [rootF]
        rw [e1, e2]
        have ht : (items.take (splitPoint items.length)).length = splitPoint items.length := by
          simp; omega
        have hd : (items.drop (splitPoint items.length)).length = items.length - splitPoint items.length := by
          simp
        rw [ih f (by omega) _ (by rw [ht]; omega), ih f (by omega) _ (by rw [hd]; omega),
          ih (items.length - 1) (by omega) _ (by rw [ht]; omega),
          ih (items.length - 1) (by omega) _ (by rw [hd]; omega)]

theorem rootF_inj (L : Nat) (hlen : ∀ x, (H x).length = L) :
    ∀ (f : Nat) (a b : List Bytes), a.length ≤ f → b.length ≤ f →
      rootF H f a = rootF H f b → a = b ∨ Nonempty (Collision H) := by
  intro f
  induction f with
  | zero =>
    intro a b ha hb _
    left
    have : a = [] := List.eq_nil_of_length_eq_zero (by omega)
    have : b = [] := List.eq_nil_of_length_eq_zero (by omega)
    simp [*]
  | succ f ih =>
    intro a b ha hb h
    have split2 : ∀ (x y : Bytes) (z : List Bytes), rootF H (f+1) (x :: y :: z) =
        innerHash H (rootF H f ((x :: y :: z).take (splitPoint (x :: y :: z).length)))
          (rootF H f ((x :: y :: z).drop (splitPoint (x :: y :: z).length))) := by
      intro x y z; simp [rootF]
    match a, b, ha, hb, h with
    | [], [], _, _, _ => left; rfl
    | [], [y], _, _, h =>
      right; simp [rootF, leafHash] at h
      exact ⟨⟨[], 0 :: y, by simp, h⟩⟩
    | [x], [], _, _, h =>
      right; simp [rootF, leafHash] at h
      exact ⟨⟨0 :: x, [], by simp, h⟩⟩
    | [], y1 :: y2 :: z, _, _, h =>
      right; rw [split2] at h; simp only [rootF, innerHash] at h
      exact ⟨⟨[], _, by simp, h⟩⟩
    | x1 :: x2 :: z, [], _, _, h =>
      right; rw [split2] at h; simp only [rootF, innerHash] at h
      exact ⟨⟨_, [], by simp, h⟩⟩
    | [x], [y], _, _, h =>
      simp [rootF, leafHash] at h
      by_cases e : x = y
      · left; rw [e]
      · right; exact ⟨⟨0 :: x, 0 :: y, by simp [e], h⟩⟩
    | [x], y1 :: y2 :: z, _, _, h =>
      right; rw [split2] at h
      simp only [rootF] at h
      exact leaf_inner_ne H _ _ _ h
    | x1 :: x2 :: z, [y], _, _, h =>
      right; rw [split2] at h
      simp only [rootF] at h
      exact leaf_inner_ne H _ _ _ h.symm
    | x1 :: x2 :: xs, y1 :: y2 :: ys, ha, hb, h =>
      rw [split2, split2] at h
      generalize hA : (x1 :: x2 :: xs) = A at *
      generalize hB : (y1 :: y2 :: ys) = B at *
      have hA2 : 2 ≤ A.length := by subst hA; simp
      have hB2 : 2 ≤ B.length := by subst hB; simp
      obtain ⟨ka0, ka⟩ := splitPoint_lt hA2
      obtain ⟨kb0, kb⟩ := splitPoint_lt hB2
      rcases inner_inj H L (rootF_len H L hlen _ _) (rootF_len H L hlen _ _) h with ⟨hl, hr⟩ | hc
      · rcases ih _ _ (by simp; omega) (by simp; omega) hl with e1 | hc
        · rcases ih _ _ (by simp; omega) (by simp; omega) hr with e2 | hc
          · left
            rw [← List.take_append_drop (splitPoint A.length) A,
              ← List.take_append_drop (splitPoint B.length) B, e1, e2]
          · right; exact hc
        · right; exact hc
      · right; exact hc

/-- **the root binds the list** -/
theorem root_inj (L : Nat) (hlen : ∀ x, (H x).length = L) (a b : List Bytes)
    (h : root H a = root H b) : a = b ∨ Nonempty (Collision H) := by
  unfold root at h
  rw [← rootF_fuel H (max a.length b.length) a (Nat.le_max_left _ _),
    ← rootF_fuel H (max a.length b.length) b (Nat.le_max_right _ _)] at h
  exact rootF_inj H L hlen _ a b (Nat.le_max_left _ _) (Nat.le_max_right _ _) h

/-- equal lists of hashes ⇒ equal preimage lists, or a collision -/
theorem map_hash_inj (H : Bytes → Bytes) : ∀ (a b : List Bytes), a.map H = b.map H →
    a = b ∨ Nonempty (Collision H)
  | [], [], _ => Or.inl rfl
  | [], _ :: _, h => by simp at h
  | _ :: _, [], h => by simp at h
  | x :: a, y :: b, h => by
    simp only [List.map_cons, List.cons.injEq] at h
    by_cases e : x = y
    · rcases map_hash_inj H a b h.2 with r | r
      · left; rw [e, r]
      · right; exact r
    · right; exact ⟨⟨x, y, e, h.1⟩⟩

end Tmv.Merkle
