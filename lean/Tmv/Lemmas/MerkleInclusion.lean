import Tmv.Lemmas.Merkle
namespace Tmv.Merkle
variable (H : Bytes → Bytes)

/-- Inclusion without any assumption on the stated (index,total): whatever path shape the proof
claims, recomputing the genuine root from `leafHash leaf` means `leaf` is one of the items
(or a collision is exhibited). -/
theorem fromAunts_inclusion (L : Nat) (hlen : ∀ x, (H x).length = L) :
    ∀ (fuel : Nat) (items : List Bytes), items.length ≤ fuel → items ≠ [] →
    ∀ (fuel' idx total : Nat) (leaf : Bytes) (aunts : List Bytes),
      fromAunts H fuel' idx total (leafHash H leaf) aunts = some (rootF H fuel items) →
      leaf ∈ items ∨ Nonempty (Collision H) := by
  intro fuel
  induction fuel with
  | zero =>
    intro items hle hne
    cases items with
    | nil => exact absurd rfl hne
    | cons a t => simp at hle
  | succ f ih =>
    intro items hle hne fuel' idx total leaf aunts h
    have hl : (leafHash H leaf).length = L := by simp [leafHash, hlen]
    cases fuel' with
    | zero => simp [fromAunts] at h
    | succ g =>
    match items, hne with
    | [x], _ =>
      simp only [rootF] at h
      unfold fromAunts at h
      split at h; · cases h
      split at h
      · split at h
        · simp at h
          by_cases hx : (0 :: leaf : Bytes) = 0 :: x
          · left; simp [(List.cons.inj hx).2]
          · right; exact ⟨⟨_, _, hx, h⟩⟩
        · cases h
      · split at h; · cases h
        simp only at h
        split at h
        · simp [Option.map_eq_some_iff] at h
          obtain ⟨l, _, hl2⟩ := h
          right; exact leaf_inner_ne H x _ _ hl2.symm
        · simp [Option.map_eq_some_iff] at h
          obtain ⟨r, _, hr2⟩ := h
          right; exact leaf_inner_ne H x _ _ hr2.symm
    | a :: b :: c, _ =>
      have hlen2 : 2 ≤ (a :: b :: c).length := by simp
      obtain ⟨hk0, hk⟩ := splitPoint_lt hlen2
      generalize hitems : (a :: b :: c) = items at *
      have hroot : rootF H (f+1) items =
          innerHash H (rootF H f (items.take (splitPoint items.length)))
                      (rootF H f (items.drop (splitPoint items.length))) := by
        subst hitems; simp [rootF]
      rw [hroot] at h
      have htl : (items.take (splitPoint items.length)).length = splitPoint items.length := by
        simp; omega
      have hdl : (items.drop (splitPoint items.length)).length = items.length - splitPoint items.length := by
        simp
      have hll := rootF_len H L hlen f (items.take (splitPoint items.length))
      unfold fromAunts at h
      split at h; · cases h
      split at h
      · split at h
        · simp at h
          right; exact leaf_inner_ne H leaf _ _ h
        · cases h
      · split at h; · cases h
        rename_i last restRev _
        simp only at h
        split at h
        · simp [Option.map_eq_some_iff] at h
          obtain ⟨l, hl1, hl2⟩ := h
          have hl' := fromAunts_len H L hlen _ _ _ _ _ _ hl hl1
          rcases inner_inj H L hl' hll hl2 with ⟨e1, _⟩ | hc
          · subst e1
            rcases ih (items.take (splitPoint items.length)) (by rw [htl]; omega)
                (by intro hh; rw [hh] at htl; simp at htl; omega) _ _ _ leaf _ hl1 with hm | hc
            · left; exact List.mem_of_mem_take hm
            · right; exact hc
          · right; exact hc
        · simp [Option.map_eq_some_iff] at h
          obtain ⟨r, hr1, hr2⟩ := h
          have hrl := fromAunts_len H L hlen _ _ _ _ _ _ hl hr1
          by_cases hlastlen : last.length = L
          · rcases inner_inj H L hlastlen hll hr2 with ⟨_, e2⟩ | hc
            · subst e2
              rcases ih (items.drop (splitPoint items.length)) (by rw [hdl]; omega)
                  (by intro hh; rw [hh] at hdl; simp at hdl; omega) _ _ _ leaf _ hr1 with hm | hc
              · left; exact List.mem_of_mem_drop hm
              · right; exact hc
            · right; exact hc
          · right
            refine ⟨⟨1 :: (last ++ r), 1 :: (rootF H f (items.take (splitPoint items.length)) ++ rootF H f (items.drop (splitPoint items.length))), ?_, hr2⟩⟩
            intro hc
            have h1 := (List.cons.inj hc).2
            have := congrArg List.length h1
            simp [hrl, hll, rootF_len H L hlen] at this
            exact hlastlen this

end Tmv.Merkle
