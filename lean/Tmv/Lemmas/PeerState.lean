import Tmv.Model.PeerState
/-! Invariant of the consensus peer state under validated messages and the node's gossip calls. -/
namespace Tmv.PeerState
open Tmv.PeerMsgs

/-- a bit array the peer state may hold: nil, or consistent, non-empty and at most `B` bits -/
def Good (B : Int) : Option BitArr → Prop
  | none => True
  | some b => 1 ≤ b.bits ∧ b.bits ≤ B ∧ (b.elems : Int) = (b.bits + 63) / 64

/-- every array of the peer round state is `Good` -/
structure Inv (B : Int) (p : PRS) : Prop where
  pbp : Good B p.pbp
  pol : Good B p.pol
  prevotes : Good B p.prevotes
  precommits : Good B p.precommits
  lastCommit : Good B p.lastCommit
  catchup : Good B p.catchup

theorem good_none (B : Int) : Good B none := trivial

theorem good_newBitArray (B n : Int) (h : n ≤ B) : Good B (newBitArray n) := by
  unfold newBitArray
  split
  · trivial
  · simp only [Good]
    omega

theorem inv_init (B : Int) : Inv B {} := ⟨trivial, trivial, trivial, trivial, trivial, trivial⟩

theorem good_setIndex (B : Int) (b : Option BitArr) (h : Good B b) (i : Int) (hi : 0 ≤ i) :
    setIndex b i = some () := by
  unfold setIndex
  cases b with
  | none => simp [indexPanics]
  | some a =>
    obtain ⟨h1, _, h3⟩ := h
    simp only [indexPanics]
    split
    · simp
    · rename_i hlt
      have h4 : ¬ (Int.tdiv i 64 < 0) := by
        have := Int.tdiv_nonneg hi (by decide : (0:Int) ≤ 64); omega
      have h5 : ¬ (Int.tdiv i 64 ≥ (a.elems : Int)) := by
        rw [h3, Int.tdiv_eq_ediv_of_nonneg hi]; omega
      simp [h4, h5]

theorem numElems_nonneg (bits : Int) (h : 0 ≤ bits) : numElems bits = (bits + 63) / 64 := by
  unfold numElems
  exact Int.tdiv_eq_ediv_of_nonneg (by omega)

theorem good_getVoteBitArray (B : Int) (p : PRS) (h : Inv B p) (height round t : Int) :
    Good B (getVoteBitArray p height round t) := by
  unfold getVoteBitArray
  repeat' split
  all_goals first | trivial | exact h.prevotes | exact h.precommits | exact h.catchup | exact h.pol | exact h.lastCommit


theorem inv_applyNewRoundStep (B : Int) (p : PRS) (m : NewRoundStep) (h : Inv B p) :
    Inv B (applyNewRoundStep p m) := by
  obtain ⟨h1, h2, h3, h4, h5, h6⟩ := h
  unfold applyNewRoundStep
  simp only
  split
  · exact ⟨h1, h2, h3, h4, h5, h6⟩
  · constructor <;> (repeat' split) <;> first | trivial | assumption

theorem inv_ensureVoteBitArrays (B : Int) (p : PRS) (height n : Int) (hn : n ≤ B) (h : Inv B p) :
    Inv B (ensureVoteBitArrays p height n) := by
  obtain ⟨h1, h2, h3, h4, h5, h6⟩ := h
  have g := good_newBitArray B n hn
  unfold ensureVoteBitArrays
  split
  · constructor <;> simp only <;> (try split) <;> first | assumption | exact g
  · split
    · constructor <;> simp only <;> (try split) <;> first | assumption | exact g
    · exact ⟨h1, h2, h3, h4, h5, h6⟩

theorem inv_ensureCatchupCommitRound (B : Int) (p : PRS) (height round n : Int) (hn : n ≤ B) (h : Inv B p) :
    Inv B (ensureCatchupCommitRound p height round n) := by
  obtain ⟨h1, h2, h3, h4, h5, h6⟩ := h
  have g := good_newBitArray B n hn
  unfold ensureCatchupCommitRound
  split
  · exact ⟨h1, h2, h3, h4, h5, h6⟩
  · split
    · exact ⟨h1, h2, h3, h4, h5, h6⟩
    · constructor <;> simp only <;> (try split) <;> first | assumption | exact g

theorem setHasVote_ok (B : Int) (p : PRS) (h : Inv B p) (height round t i : Int) (hi : 0 ≤ i) :
    setHasVote p height round t i = some p := by
  unfold setHasVote
  have g := good_getVoteBitArray B p h height round t
  cases hb : getVoteBitArray p height round t with
  | none => rfl
  | some b =>
    rw [hb] at g
    simp [good_setIndex B (some b) g i hi]


/-- consistent (possibly empty) array, as the node or a validated VoteSetBits provides -/
def Consistent : Option BitArr → Prop
  | none => True
  | some b => 0 ≤ b.bits ∧ (b.elems : Int) = (b.bits + 63) / 64

theorem good_consistent (B : Int) (a : Option BitArr) (h : Good B a) : Consistent a := by
  cases a with
  | none => trivial
  | some b => exact ⟨by have := h.1; omega, h.2.2⟩

theorem consistent_of_validateBasic (a : Option BitArr) (h : BitArr.validateBasic a = true) : Consistent a := by
  cases a with
  | none => trivial
  | some b =>
    simp only [BitArr.validateBasic, Bool.and_eq_true, decide_eq_true_eq] at h
    exact h

theorem copyBits_ok (bits : Int) (h : 0 ≤ bits) :
    copyBits bits = some { bits := bits, elems := ((bits + 63) / 64).toNat } := by
  unfold copyBits
  rw [numElems_nonneg bits h]
  have : ¬ ((bits + 63) / 64 < 0) := by omega
  simp [this]

/-- `Sub` of consistent arrays does not panic; the result is nil or has the first operand's size -/
theorem sub_ok (a o : Option BitArr) (ha : Consistent a) (ho : Consistent o) :
    ∃ r, sub a o = some r ∧ Consistent r ∧ (∀ x, r = some x → ∃ y, a = some y ∧ x.bits = y.bits) := by
  cases a with
  | none => exact ⟨none, rfl, trivial, by intro x hx; cases hx⟩
  | some x =>
    cases o with
    | none => exact ⟨none, rfl, trivial, by intro x hx; cases hx⟩
    | some y =>
      obtain ⟨hx0, hxe⟩ := ha
      simp only [sub, subWith, copyBits_ok x.bits hx0]
      have : subLoopOk (min x.elems y.elems) ((x.bits + 63) / 64).toNat y.elems = true := by
        simp only [subLoopOk, Bool.and_eq_true, decide_eq_true_eq]; omega
      simp only [this, if_true]
      exact ⟨_, rfl, ⟨hx0, by simp; omega⟩, by intro z hz; cases hz; exact ⟨x, rfl, rfl⟩⟩

/-- `Or` of consistent arrays does not panic -/
theorem or_ok (a o : Option BitArr) (ha : Consistent a) (ho : Consistent o) :
    ∃ r, or a o = some r ∧ Consistent r := by
  cases a with
  | none =>
    cases o with
    | none => exact ⟨none, rfl, trivial⟩
    | some y => exact ⟨some y, rfl, ho⟩
  | some x =>
    cases o with
    | none => exact ⟨some x, rfl, ha⟩
    | some y =>
      obtain ⟨hx0, hxe⟩ := ha
      obtain ⟨hy0, hye⟩ := ho
      have hm : 0 ≤ max x.bits y.bits := by omega
      simp only [or, copyBits_ok _ hm]
      have : ¬ (min x.elems y.elems > ((max x.bits y.bits + 63) / 64).toNat) := by omega
      simp only [this, if_false]
      exact ⟨_, rfl, ⟨hm, by simp; omega⟩⟩

theorem pickRandomOk_of (a : Option BitArr) (h : ∀ x, a = some x → 1 ≤ x.bits ∧ (x.elems : Int) = (x.bits + 63) / 64) :
    pickRandomOk a = true := by
  cases a with
  | none => rfl
  | some x =>
    obtain ⟨h1, h2⟩ := h x rfl
    simp only [pickRandomOk, Bool.and_eq_true, decide_eq_true_eq]
    omega


/-- everything that can touch a peer's state: the peer's messages (after `ValidateBasic`) and the
calls of the node's own gossip routines, with the node-side inputs they use -/
inductive Op
  | newRoundStep (m : NewRoundStep)
  | newValidBlock (m : NewValidBlock) (isCommit : Bool)
  | proposalPOL (m : ProposalPOL)
  | hasVote (m : HasVote)
  | voteSetBits (m : VoteSetBits) (t : Int) (ourVotes : Option BitArr)
  | proposal (height round polRound : Int) (total : Nat)
  | blockPart (height round : Int) (index : Nat)
  | vote (nodeHeight valSize lastCommitSize vh vr vt vidx : Int)
  | pickSendVote (v : OurVotes) (pick : Option Int)
  | gossipPart (ourTotal : Int) (pick : Option Int)
  | catchupPart (pick : Option Int)
  | initParts (total : Nat)

/-- the transition; `none` = the Go code panics -/
def step (p : PRS) : Op → Option PRS
  | .newRoundStep m => some (applyNewRoundStep p m)
  | .newValidBlock m c => some (applyNewValidBlock p m c)
  | .proposalPOL m => some (applyProposalPOL p m)
  | .hasVote m => applyHasVote p m
  | .voteSetBits m t our => applyVoteSetBits p m t our
  | .proposal h r pr total => some (setHasProposal p h r pr total)
  | .blockPart h r i => setHasProposalBlockPart p h r i
  | .vote nh vs lcs vh vr vt vi => receiveVote p nh vs lcs vh vr vt vi
  | .pickSendVote v pick => pickSendVote p v pick
  | .gossipPart t pick => gossipPart p t pick
  | .catchupPart pick => gossipCatchupPart p pick
  | .initParts total => some (initProposalBlockParts p total)

/-- what is known about an op: messages passed `ValidateBasic` (for a proposal: the part-count
bound); what the node supplies is consistent and at most `B` (its validator count / part count);
an index returned by `PickRandom` is non-negative -/
def Op.admissible (B : Int) : Op → Prop
  | .newRoundStep _ => True
  | .newValidBlock m _ => m.valid = true
  | .proposalPOL m => m.valid = true
  | .hasVote m => m.valid = true
  | .voteSetBits m _ our => m.valid = true ∧ Consistent our
  | .proposal _ _ _ total => (total : Int) ≤ maxBlockPartsCount
  | .blockPart _ _ _ => True
  | .vote _ vs lcs _ _ _ vi => vs ≤ B ∧ lcs ≤ B ∧ 0 ≤ vi
  | .pickSendVote v pick => v.size ≤ B ∧ ∀ i, pick = some i → 0 ≤ i
  | .gossipPart t pick => t ≤ B ∧ ∀ i, pick = some i → 0 ≤ i
  | .catchupPart pick => ∀ i, pick = some i → 0 ≤ i
  | .initParts total => (total : Int) ≤ B

theorem good_of_nvb (B : Int) (hB : maxBlockPartsCount ≤ B) (m : NewValidBlock) (h : m.valid = true) :
    Good B m.parts := by
  unfold NewValidBlock.valid at h
  cases hp : m.parts with
  | none => trivial
  | some b =>
    simp only [hp, size, BitArr.validateBasic] at h
    by_cases h1 : m.height < 0 <;> simp only [h1, if_true, if_false] at h
    · cases h
    by_cases h2 : m.round < 0 <;> simp only [h2, if_true, if_false] at h
    · cases h
    split at h
    · cases h
    split at h
    · cases h
    split at h
    · cases h
    split at h
    · cases h
    split at h
    · cases h
    rename_i _ hv h0 _ hmax
    simp only [Bool.and_eq_true, decide_eq_true_eq] at hv
    have hv' : 0 ≤ b.bits ∧ (b.elems : Int) = (b.bits + 63) / 64 := by
      by_cases c1 : 0 ≤ b.bits
      · by_cases c2 : (b.elems : Int) = (b.bits + 63) / 64
        · exact ⟨c1, c2⟩
        · simp [c1, c2] at hv
      · simp [c1] at hv
    exact ⟨by omega, by omega, hv'.2⟩


theorem vb_cases (b : BitArr) (hv : ¬ ¬ (decide (0 ≤ b.bits) && decide ((b.elems : Int) = (b.bits + 63) / 64)) = true) :
    0 ≤ b.bits ∧ (b.elems : Int) = (b.bits + 63) / 64 := by
  by_cases c1 : 0 ≤ b.bits
  · by_cases c2 : (b.elems : Int) = (b.bits + 63) / 64
    · exact ⟨c1, c2⟩
    · simp [c1, c2] at hv
  · simp [c1] at hv

theorem good_of_pol (B : Int) (hB : maxVotesCount ≤ B) (m : ProposalPOL) (h : m.valid = true) :
    Good B m.pol := by
  unfold ProposalPOL.valid at h
  cases hp : m.pol with
  | none => trivial
  | some b =>
    simp only [hp, size, BitArr.validateBasic] at h
    split at h
    · cases h
    split at h
    · cases h
    split at h
    · cases h
    split at h
    · cases h
    split at h
    · cases h
    rename_i _ _ hv h0 hmax
    have hv' := vb_cases b hv
    exact ⟨by omega, by omega, hv'.2⟩

theorem consistent_of_vsb (m : VoteSetBits) (h : m.valid = true) : Consistent m.votes := by
  unfold VoteSetBits.valid at h
  cases hp : m.votes with
  | none => trivial
  | some b =>
    simp only [hp, size, BitArr.validateBasic] at h
    split at h
    · cases h
    split at h
    · cases h
    split at h
    · cases h
    split at h
    · cases h
    rename_i _ _ _ hv
    exact vb_cases b hv

theorem hasVote_index (m : HasVote) (h : m.valid = true) : 0 ≤ m.index := by
  unfold HasVote.valid at h
  by_cases c : m.index < 0
  · simp [c] at h
  · omega

/-- `validated_handlers_in_bounds`, one step: from a peer state whose arrays are all `Good`, an
admissible op never panics and leaves all arrays `Good` -/
theorem step_ok (B : Int) (hB1 : maxBlockPartsCount ≤ B) (hB2 : maxVotesCount ≤ B)
    (p : PRS) (h : Inv B p) (op : Op) (ha : op.admissible B) :
    ∃ p', step p op = some p' ∧ Inv B p' := by
  cases op with
  | newRoundStep m => exact ⟨_, rfl, inv_applyNewRoundStep B p m h⟩
  | newValidBlock m c =>
    refine ⟨_, rfl, ?_⟩
    have g := good_of_nvb B hB1 m ha
    obtain ⟨h1, h2, h3, h4, h5, h6⟩ := h
    unfold applyNewValidBlock
    split
    · exact ⟨h1, h2, h3, h4, h5, h6⟩
    · split
      · exact ⟨h1, h2, h3, h4, h5, h6⟩
      · exact ⟨g, h2, h3, h4, h5, h6⟩
  | proposalPOL m =>
    refine ⟨_, rfl, ?_⟩
    have g := good_of_pol B hB2 m ha
    obtain ⟨h1, h2, h3, h4, h5, h6⟩ := h
    unfold applyProposalPOL
    split
    · exact ⟨h1, h2, h3, h4, h5, h6⟩
    · split
      · exact ⟨h1, h2, h3, h4, h5, h6⟩
      · exact ⟨h1, g, h3, h4, h5, h6⟩
  | hasVote m =>
    refine ⟨p, ?_, h⟩
    simp only [step, applyHasVote]
    split
    · rfl
    · exact setHasVote_ok B p h _ _ _ _ (hasVote_index m ha)
  | voteSetBits m t our =>
    refine ⟨p, ?_, h⟩
    obtain ⟨hv, hc⟩ := ha
    simp only [step, applyVoteSetBits]
    have g := good_getVoteBitArray B p h m.height m.round t
    cases hb : getVoteBitArray p m.height m.round t with
    | none => rfl
    | some v =>
      rw [hb] at g
      cases our with
      | none => rfl
      | some o =>
        obtain ⟨r, hr, hrc, _⟩ := sub_ok (some v) (some o) (good_consistent B _ g) hc
        obtain ⟨r2, hr2, _⟩ := or_ok r m.votes hrc (consistent_of_vsb m hv)
        simp [hr, hr2]
  | proposal hh r pr total =>
    refine ⟨_, rfl, ?_⟩
    have g := good_newBitArray B total (by simp only [Op.admissible] at ha; omega)
    obtain ⟨h1, h2, h3, h4, h5, h6⟩ := h
    unfold setHasProposal
    split
    · exact ⟨h1, h2, h3, h4, h5, h6⟩
    · split
      · exact ⟨h1, h2, h3, h4, h5, h6⟩
      · simp only
        split
        · exact ⟨h1, h2, h3, h4, h5, h6⟩
        · exact ⟨g, trivial, h3, h4, h5, h6⟩
  | blockPart hh r i =>
    refine ⟨p, ?_, h⟩
    simp only [step, setHasProposalBlockPart]
    split
    · rfl
    · simp [good_setIndex B p.pbp h.pbp i (by omega)]
  | vote nh vs lcs vh vr vt vi =>
    obtain ⟨a1, a2, a3⟩ := ha
    have i1 := inv_ensureVoteBitArrays B p nh vs a1 h
    have i2 := inv_ensureVoteBitArrays B _ (nh - 1) lcs a2 i1
    exact ⟨_, setHasVote_ok B _ i2 vh vr vt vi a3, i2⟩
  | pickSendVote v pick =>
    obtain ⟨a1, a2⟩ := ha
    simp only [step, pickSendVote]
    split
    · exact ⟨p, rfl, h⟩
    · have i1 : Inv B (if v.isCommit = true then ensureCatchupCommitRound p v.height v.round v.size else p) := by
        split
        · exact inv_ensureCatchupCommitRound B p _ _ _ a1 h
        · exact h
      have i2 := inv_ensureVoteBitArrays B _ v.height v.size a1 i1
      generalize ensureVoteBitArrays _ v.height v.size = p2 at i2
      have g := good_getVoteBitArray B p2 i2 v.height v.round v.type
      cases hb : getVoteBitArray p2 v.height v.round v.type with
      | none => exact ⟨p2, rfl, i2⟩
      | some ps =>
        rw [hb] at g
        have gn := good_newBitArray B v.size a1
        obtain ⟨d, hd, hdc, hdb⟩ := sub_ok (newBitArray v.size) (some ps) (good_consistent B _ gn) (good_consistent B _ g)
        have hpk : pickRandomOk d = true := by
          apply pickRandomOk_of
          intro x hx
          obtain ⟨y, hy, hxy⟩ := hdb x hx
          rw [hx] at hdc
          rw [hy] at gn
          exact ⟨by rw [hxy]; exact gn.1, hdc.2⟩
        simp only [hd, hpk]
        cases pick with
        | none => exact ⟨p2, by simp, i2⟩
        | some i => exact ⟨p2, by simpa using setHasVote_ok B p2 i2 _ _ _ i (a2 i rfl), i2⟩
  | gossipPart t pick =>
    obtain ⟨a1, a2⟩ := ha
    simp only [step, gossipPart]
    have gn := good_newBitArray B t a1
    obtain ⟨d, hd, hdc, hdb⟩ := sub_ok (newBitArray t) p.pbp (good_consistent B _ gn) (good_consistent B _ h.pbp)
    have hpk : pickRandomOk d = true := by
      apply pickRandomOk_of
      intro x hx
      obtain ⟨y, hy, hxy⟩ := hdb x hx
      rw [hx] at hdc
      rw [hy] at gn
      exact ⟨by rw [hxy]; exact gn.1, hdc.2⟩
    simp only [hd, hpk]
    cases pick with
    | none => exact ⟨p, by simp, h⟩
    | some i =>
      refine ⟨p, ?_, h⟩
      simp [setHasProposalBlockPart, good_setIndex B p.pbp h.pbp i (a2 i rfl)]
  | catchupPart pick =>
    simp only [step, gossipCatchupPart, not]
    have hpk : pickRandomOk p.pbp = true := by
      apply pickRandomOk_of
      intro x hx
      have := h.pbp
      rw [hx] at this
      exact ⟨this.1, this.2.2⟩
    simp only [hpk]
    cases pick with
    | none => exact ⟨p, by simp, h⟩
    | some i =>
      refine ⟨p, ?_, h⟩
      simp [setHasProposalBlockPart, good_setIndex B p.pbp h.pbp i (ha i rfl)]
  | initParts total =>
    refine ⟨_, rfl, ?_⟩
    have g := good_newBitArray B total ha
    obtain ⟨h1, h2, h3, h4, h5, h6⟩ := h
    unfold initProposalBlockParts
    split
    · exact ⟨h1, h2, h3, h4, h5, h6⟩
    · exact ⟨g, h2, h3, h4, h5, h6⟩


/-- a run of ops from a peer state; `none` as soon as one step panics -/
def run : PRS → List Op → Option PRS
  | p, [] => some p
  | p, op :: ops => (step p op).bind fun p' => run p' ops

theorem run_ok (B : Int) (hB1 : maxBlockPartsCount ≤ B) (hB2 : maxVotesCount ≤ B) (ops : List Op) :
    ∀ (p : PRS), Inv B p → (∀ op ∈ ops, op.admissible B) → ∃ p', run p ops = some p' ∧ Inv B p' := by
  induction ops with
  | nil => intro p h _; exact ⟨p, rfl, h⟩
  | cons op ops ih =>
    intro p h ha
    obtain ⟨p1, h1, i1⟩ := step_ok B hB1 hB2 p h op (ha op (by simp))
    obtain ⟨p2, h2, i2⟩ := ih p1 i1 (fun o ho => ha o (by simp [ho]))
    exact ⟨p2, by simp [run, h1, h2], i2⟩

end Tmv.PeerState
