import Tmv.Model.PeerState
/-! Invariant of the consensus peer state under validated messages and the node's gossip calls. -/
namespace Tmv.PeerState
open Tmv.PeerMsgs

/-- a bit array the peer state may hold: nil, or consistent, non-empty and at most `B` bits -/
def Good (B : Int) : Option BitArr → Prop
  | none => True
  | some b => 1 ≤ b.bits ∧ b.bits ≤ B ∧ (b.elems : Int) = (b.bits + 63) / 64

/-- every array of the peer round state is `Good` -/
structure Inv (B : Int) (p : PRS) : Prop where
  pbp : Good B p.pbp
  pol : Good B p.pol
  prevotes : Good B p.prevotes
  precommits : Good B p.precommits
  lastCommit : Good B p.lastCommit
  catchup : Good B p.catchup

theorem good_none (B : Int) : Good B none := trivial

theorem good_newBitArray (B n : Int) (h : n ≤ B) : Good B (newBitArray n) := by
  unfold newBitArray
  split
  · trivial
  · simp only [Good]
    omega

theorem inv_init (B : Int) : Inv B {} := ⟨trivial, trivial, trivial, trivial, trivial, trivial⟩

theorem good_setIndex (B : Int) (b : Option BitArr) (h : Good B b) (i : Int) (hi : 0 ≤ i) :
    setIndex b i = some () := by
  unfold setIndex
  cases b with
  | none => simp [indexPanics]
  | some a =>
    obtain ⟨h1, _, h3⟩ := h
    simp only [indexPanics]
    split
    · simp
    · rename_i hlt
      have h4 : ¬ (Int.tdiv i 64 < 0) := by
        have := Int.tdiv_nonneg hi (by decide : (0:Int) ≤ 64); omega
      have h5 : ¬ (Int.tdiv i 64 ≥ (a.elems : Int)) := by
        rw [h3, Int.tdiv_eq_ediv_of_nonneg hi]; omega
      simp [h4, h5]

theorem numElems_nonneg (bits : Int) (h : 0 ≤ bits) : numElems bits = (bits + 63) / 64 := by
  unfold numElems
  exact Int.tdiv_eq_ediv_of_nonneg (by omega)

theorem good_getVoteBitArray (B : Int) (p : PRS) (h : Inv B p) (height round t : Int) :
    Good B (getVoteBitArray p height round t) := by
  unfold getVoteBitArray
  repeat' split
  all_goals first | trivial | exact h.prevotes | exact h.precommits | exact h.catchup | exact h.pol | exact h.lastCommit


theorem inv_applyNewRoundStep (B : Int) (p : PRS) (m : NewRoundStep) (h : Inv B p) :
    Inv B (applyNewRoundStep p m) := by
  obtain ⟨h1, h2, h3, h4, h5, h6⟩ := h
  unfold applyNewRoundStep
  simp only
  split
  · exact ⟨h1, h2, h3, h4, h5, h6⟩
  · constructor <;> (repeat' split) <;> first | trivial | assumption

theorem inv_ensureVoteBitArrays (B : Int) (p : PRS) (height n : Int) (hn : n ≤ B) (h : Inv B p) :
    Inv B (ensureVoteBitArrays p height n) := by
  obtain ⟨h1, h2, h3, h4, h5, h6⟩ := h
  have g := good_newBitArray B n hn
  unfold ensureVoteBitArrays
  split
  · constructor <;> simp only <;> (try split) <;> first | assumption | exact g
  · split
    · constructor <;> simp only <;> (try split) <;> first | assumption | exact g
    · exact ⟨h1, h2, h3, h4, h5, h6⟩

theorem inv_ensureCatchupCommitRound (B : Int) (p : PRS) (height round n : Int) (hn : n ≤ B) (h : Inv B p) :
    Inv B (ensureCatchupCommitRound p height round n) := by
  obtain ⟨h1, h2, h3, h4, h5, h6⟩ := h
  have g := good_newBitArray B n hn
  unfold ensureCatchupCommitRound
  split
  · exact ⟨h1, h2, h3, h4, h5, h6⟩
  · split
    · exact ⟨h1, h2, h3, h4, h5, h6⟩
    · constructor <;> simp only <;> (try split) <;> first | assumption | exact g

theorem setHasVote_ok (B : Int) (p : PRS) (h : Inv B p) (height round t i : Int) (hi : 0 ≤ i) :
    setHasVote p height round t i = some p := by
  unfold setHasVote
  have g := good_getVoteBitArray B p h height round t
  cases hb : getVoteBitArray p height round t with
  | none => rfl
  | some b =>
    rw [hb] at g
    simp [good_setIndex B (some b) g i hi]


end Tmv.PeerState
