import Tmv.Props.C15
import Tmv.Lemmas.SignNode
/-! Bridge between the record-level WAL of `Tmv.SignNode` (C04) and the byte-level model of
`libs/autofile` Group + `consensus/wal.go` (C15, `Tmv.Wal`): the receive routine's WAL operations as
C15 history operations, and C15's history theorem in the form C04 uses — whatever the log holds at
the moment of a successful `FlushAndSync` is a prefix of what every later reader returns. -/
namespace Tmv.SignNode
open Tmv.Wal

variable {S I : Type}

/-- the WAL operations of one incarnation handling the inputs `is` from core state `s`: every input is
written before it is handled; if handling it issues a signing request (or it is an own message) the
log is flushed and fsynced first (`SignNode.handle`) -/
def walOps (enc : I → Bytes) (k : Core S I) : S → List (I × Int) → List HOp
  | _, [] => []
  | s, (i, _) :: rest =>
    (HOp.write (enc i) :: (if k.internal i || !(k.step s i).2.isEmpty then [HOp.sync] else [])) ++
      walOps enc k (k.step s i).1 rest

theorem walOps_recs (enc : I → Bytes) (k : Core S I) (s : S) (is : List (I × Int)) :
    (walOps enc k s is).flatMap HOp.recs = is.map (fun p => enc p.1) := by
  induction is generalizing s with
  | nil => rfl
  | cons a is ih =>
    obtain ⟨i, t⟩ := a
    simp only [walOps, List.flatMap_append, List.flatMap_cons, ih, List.map_cons]
    split <;> simp [HOp.recs]

theorem walOps_ws (enc : I → Bytes) (k : Core S I) (s : S) (is : List (I × Int)) :
    ∀ op ∈ walOps enc k s is, (∃ d, op = .write d) ∨ op = .sync := by
  induction is generalizing s with
  | nil => intro op h; cases h
  | cons a is ih =>
    obtain ⟨i, t⟩ := a
    intro op h
    simp only [walOps, List.mem_append, List.mem_cons] at h
    rcases h with (h | h) | h
    · exact Or.inl ⟨_, h⟩
    · split at h
      · simp at h; exact Or.inr h
      · cases h
    · exact ih _ op h

/-- a history of writes and syncs only: the log is what it was plus what was written -/
theorem steps_ws_wlog (P : Params) (G : Good P) (Sz dhl dtl kk : Nat) (ops : List HOp)
    (hws : ∀ op ∈ ops, (∃ d, op = .write d) ∨ op = .sync) :
    ∀ (g g' : Group) (hs : List Bytes), HInv P g hs → Steps P Sz dhl dtl kk g ops g' →
      (∃ hs', HInv P g' hs') ∧ wlog P g' = wlog P g ++ ops.flatMap HOp.recs := by
  induction ops with
  | nil =>
    intro g g' hs hi st
    cases st
    exact ⟨⟨hs, hi⟩, by simp⟩
  | cons op ops ih =>
    intro g g' hs hi st
    cases st with
    | cons s1 st' =>
      have hws' : ∀ op ∈ ops, (∃ d, op = .write d) ∨ op = .sync := fun o ho => hws o (List.mem_cons_of_mem _ ho)
      rcases hws op (List.mem_cons_self ..) with ⟨d, rfl⟩ | rfl
      · cases s1 with
        | write hd hw =>
          obtain ⟨h1, _, h3⟩ := write_step P G Sz g _ hs d hi hd hw
          obtain ⟨a, b⟩ := ih hws' _ g' _ h1 st'
          exact ⟨a, by rw [b, h3]; simp [HOp.recs]⟩
      · cases s1 with
        | sync =>
          obtain ⟨h1, _, h3, _⟩ := sync_step P G g hs hi
          obtain ⟨a, b⟩ := ih hws' _ g' _ h1 st'
          exact ⟨a, by rw [b, h3]; simp [HOp.recs]⟩

/-- **C15's history theorem in the form C04 uses.** From any state satisfying the WAL invariant, after
ANY history `ops1` (writes, rotations, prunings, crash/reopen/recover cycles …) reaching `g1`, a
successful `FlushAndSync`, and ANY further history `ops2` without a pruning: a reader over the
whole group returns records of which everything the log held at the moment of the fsync is a prefix
(every synced record, in order, nothing in between) — or a checksum collision is exhibited. -/
theorem synced_log_is_prefix_of_reader (P : Params) (G : Good P) (Sz dhl dtl kk : Nat)
    (ops1 ops2 : List HOp) (g g1 g' : Group) (hs : List Bytes) (hi : HInv P g hs)
    (st1 : Steps P Sz dhl dtl kk g ops1 g1) (st2 : Steps P Sz dhl dtl kk (flushAndSync g1) ops2 g')
    (hnp : ops2.any HOp.isPrune = false) :
    (∃ R e, (readAll P g').1 = (R, e) ∧ e.isMsg = false ∧ wlog P g1 <+: R ∧
        R.Sublist (wlog P g ++ (ops1 ++ [HOp.sync] ++ ops2).flatMap HOp.recs)) ∨ Collision P := by
  rcases history P G Sz dhl dtl kk ops1 g g1 hs hi st1 with ⟨hs1, i1, _, _⟩ | hc
  · have stS : Steps P Sz dhl dtl kk g (ops1 ++ [HOp.sync]) (flushAndSync g1) :=
      Steps.append st1 (Steps.cons Step.sync Steps.nil)
    rcases Tmv.Props.C15.durable_returned_history P G Sz dhl dtl kk (ops1 ++ [HOp.sync]) ops2 g
        (flushAndSync g1) g' hs hi stS st2 with ⟨dropped, kept, R, e, h1, h2, h3, h4, h5, h6⟩ | hc
    · left
      have hd := (sync_step P G g1 hs1 i1).2.1
      have : dropped = [] := h2 hnp
      rw [this, List.nil_append, hd] at h1
      exact ⟨R, e, h3, h4, by rw [h1]; exact h5, h6⟩
    · exact Or.inr hc
  · exact Or.inr hc

theorem reqsAt_mid (k : Core S I) (w r : List I) (i : I) :
    reqsAt k (w ++ [i] ++ r) w.length = (k.step (runCore k k.init w) i).2 := by
  rw [reqsAt_append k (w ++ [i]) r w.length (by simp), reqsAt_last]

end Tmv.SignNode
