import Tmv.Lemmas.CommitVerify
import Tmv.Model.CommitDecode
/-! Lemmas about the decoding / ValidateBasic glue of C07 (core-only). -/
namespace Tmv.CommitVerify
section
variable {σ : Type} (sigLen : σ → Nat)

/-- what `CommitSig.ValidateBasic` guarantees about a slot -/
def SlotWF (s : CommitSig σ) : Prop :=
  (s.flag = flagAbsent ∨ s.flag = flagCommit ∨ s.flag = flagNil) ∧
  (s.flag = flagAbsent → s.addr = [] ∧ s.ts = zeroTime ∧ sigLen s.sig = 0) ∧
  (s.flag ≠ flagAbsent → s.addr.length = addressSize ∧ 0 < sigLen s.sig ∧ sigLen s.sig ≤ maxSignatureSize)

theorem sigValidateBasic_none {s : CommitSig σ} : sigValidateBasic sigLen s = none ↔ SlotWF sigLen s := by
  unfold sigValidateBasic SlotWF
  by_cases hk : s.flag = flagAbsent ∨ s.flag = flagCommit ∨ s.flag = flagNil
  · simp only [hk, not_true_eq_false, if_false, true_and]
    by_cases ha : s.flag = flagAbsent
    · simp only [ha, if_true, ne_eq, not_true_eq_false, false_implies, and_true, true_implies]
      by_cases h1 : s.addr.length = 0
      · have h1' : s.addr = [] := List.length_eq_zero_iff.mp h1
        by_cases h2 : s.ts = zeroTime
        · by_cases h3 : sigLen s.sig = 0 <;> simp [h1', h2, h3]
        · simp [h1', h2]
      · have : s.addr ≠ [] := fun h => h1 (by simp [h])
        simp [h1, this]
    · simp only [ha, if_false, false_implies, true_and, ne_eq, not_false_eq_true, true_implies]
      by_cases h1 : s.addr.length = addressSize
      · by_cases h2 : sigLen s.sig = 0
        · simp [h1, h2]
        · by_cases h3 : sigLen s.sig > maxSignatureSize
          · simp [h1, h2, h3] <;> omega
          · simp [h1, h2, h3] <;> omega
      · simp [h1]
  · simp [hk]

theorem firstSigErr_none {ss : List (CommitSig σ)} :
    firstSigErr sigLen ss = none ↔ ∀ s ∈ ss, SlotWF sigLen s := by
  induction ss with
  | nil => simp [firstSigErr]
  | cons s ss ih =>
    simp only [firstSigErr, List.mem_cons, forall_eq_or_imp]
    cases h : sigValidateBasic sigLen s with
    | some e =>
      simp only [reduceCtorEq, false_iff, not_and]
      intro hw; rw [(sigValidateBasic_none sigLen).mpr hw] at h; cases h
    | none => simp only [ih]; exact ⟨fun hh => ⟨(sigValidateBasic_none sigLen).mp h, hh⟩, fun hh => hh.2⟩

/-- what a successfully decoded commit guarantees -/
def CommitWF (c : Commit σ) : Prop :=
  c.blockID.validBasic = true ∧ 0 ≤ c.height ∧ 0 ≤ c.round ∧
  (1 ≤ c.height → c.blockID.isZero = false ∧ c.sigs ≠ []) ∧
  ∀ s ∈ c.sigs, SlotWF sigLen s

theorem commitFromProto_ok {w c : Commit σ} (h : commitFromProto sigLen w = .ok c) :
    c = w ∧ CommitWF sigLen c ∧ commitValidateBasic sigLen c = none := by
  unfold commitFromProto at h
  split at h; · cases h
  rename_i hb
  split at h; · cases h
  rename_i hs
  split at h; · cases h
  rename_i hv
  injection h with h; subst h
  refine ⟨rfl, ⟨by simpa using hb, ?_, ?_, ?_, (firstSigErr_none sigLen).mp hs⟩, hv⟩
  all_goals (unfold commitValidateBasic at hv)
  · by_cases h0 : w.height < 0
    · simp [h0] at hv
    · omega
  · by_cases h0 : w.height < 0
    · simp [h0] at hv
    · by_cases h1 : w.round < 0
      · simp [h0, h1] at hv
      · omega
  · intro h1
    have h0 : ¬ w.height < 0 := by omega
    have h1' : w.height ≥ 1 := h1
    by_cases hr : w.round < 0
    · simp [h0, hr] at hv
    · simp only [h0, hr, if_false, h1', if_true] at hv
      cases hz : w.blockID.isZero
      · refine ⟨rfl, ?_⟩
        intro he; simp [hz, he] at hv
      · simp [hz] at hv

/-- a successfully decoded validator set: the validators as sent, all powers non-negative, all
addresses of address size, a total within bounds that is the SUM of the powers — whatever total
the wire claimed -/
theorem firstValErr_none : ∀ (vs : List Validator) (i : Nat), firstValErr vs i = none →
    ∀ v ∈ vs, 0 ≤ v.power ∧ v.addr.length = addressSize := by
  intro vs; induction vs with
  | nil => intro i _ v hv; simp at hv
  | cons w vs ih =>
    intro i h v hv
    simp only [firstValErr] at h
    cases hw : valValidateBasic w with
    | some e => simp [hw] at h
    | none =>
      simp only [hw] at h
      rcases List.mem_cons.mp hv with rfl | hv
      · unfold valValidateBasic at hw
        by_cases h1 : v.power < 0
        · simp [h1] at hw
        · by_cases h2 : v.addr.length ≠ addressSize
          · simp [h1, h2] at hw
          · exact ⟨by omega, by simpa using h2⟩
      · exact ih (i + 1) h v hv

theorem valSetFromProto_ok {w : WireValSet} {vs : List Validator} (h : valSetFromProto w = .ok vs) :
    vs = w.validators ∧ vs ≠ [] ∧ NonNeg vs ∧ (∀ v ∈ vs, v.addr.length = addressSize) ∧
    totalVotingPower vs = some (sumPower vs) ∧ sumPower vs ≤ maxTotalVotingPower := by
  unfold valSetFromProto at h
  split at h; · cases h
  split at h; · cases h
  rename_i T hT
  split at h; · cases h
  rename_i hv
  injection h with h; subst h
  unfold setValidateBasic at hv
  by_cases he : w.validators.length = 0
  · simp [he] at hv
  · simp only [he, if_false] at hv
    cases hf : firstValErr w.validators 0 with
    | some ie => obtain ⟨i, e⟩ := ie; simp [hf] at hv
    | none =>
      have hall := firstValErr_none w.validators 0 hf
      have hnn : NonNeg w.validators := fun v hv => (hall v hv).1
      obtain ⟨hTs, hTm⟩ := total_spec hnn hT
      refine ⟨rfl, ?_, hnn, fun v hv => (hall v hv).2, by rw [hT, hTs], hTs ▸ hTm⟩
      intro hnil; simp [hnil] at he

/-- the total on the wire plays no role -/
theorem valSetFromProto_ignores_wire_total (w : WireValSet) (t : Int) :
    valSetFromProto { w with total := t } = valSetFromProto w := rfl

end
/-! ### no panics on well-formed commits -/
section
variable {σ : Type} (sigOK : Nat → SignBytes → σ → Bool) (vs : List Validator) (chainID : String)
  (c : Commit σ)

def Res.isPanic (r : Res) : Prop := r = .panicFlag ∨ r = .panicBlockID ∨ r = .panicIndex

theorem voteSignBytes_ok_of_wf {s : CommitSig σ}
    (hk : s.flag = flagAbsent ∨ s.flag = flagCommit ∨ s.flag = flagNil)
    (hb : c.blockID.validBasic = true) : ∃ sb, voteSignBytes chainID c s = .ok sb := by
  unfold voteSignBytes sigBlockID
  have hz : BlockID.zero.validBasic = true := by decide
  have e1 : ¬ (flagCommit = flagAbsent) := by decide
  have e2 : ¬ (flagNil = flagAbsent) := by decide
  have e3 : ¬ (flagNil = flagCommit) := by decide
  rcases hk with h | h | h
  · simp [h, hz]
  · simp [h, e1, hb]
  · simp [h, e2, e3, hz]

theorem fullLoop_no_panic : ∀ (ss : List (CommitSig σ)) (idx : Nat) (tally : Int) (r : Res),
    (∀ s ∈ ss, s.flag = flagAbsent ∨ s.flag = flagCommit ∨ s.flag = flagNil) →
    c.blockID.validBasic = true → idx + ss.length ≤ vs.length →
    fullLoop sigOK vs chainID c ss idx tally = .error r → ¬ r.isPanic := by
  intro ss; induction ss with
  | nil => intro idx tally r _ _ _ h; simp [fullLoop] at h
  | cons s ss ih =>
    intro idx tally r hk hb hl h
    have hk' := fun s' hs' => hk s' (List.mem_cons_of_mem _ hs')
    simp only [List.length_cons] at hl
    obtain ⟨sb, hsb⟩ := voteSignBytes_ok_of_wf chainID c (hk s (by simp)) hb
    have hv : vs[idx]? = some vs[idx] := List.getElem?_eq_getElem (by omega)
    simp only [fullLoop, hv, hsb] at h
    split at h
    · exact ih _ _ _ hk' hb (by omega) h
    · split at h
      · injection h with h; subst h; intro hp; rcases hp with hp | hp | hp <;> cases hp
      · exact ih _ _ _ hk' hb (by omega) h

theorem lightLoop_no_panic (needed : Int) : ∀ (ss : List (CommitSig σ)) (idx : Nat) (tally : Int) (r : Res),
    (∀ s ∈ ss, s.flag = flagAbsent ∨ s.flag = flagCommit ∨ s.flag = flagNil) →
    c.blockID.validBasic = true → idx + ss.length ≤ vs.length →
    lightLoop sigOK vs chainID c needed ss idx tally = .error r → ¬ r.isPanic := by
  intro ss; induction ss with
  | nil => intro idx tally r _ _ _ h; simp [lightLoop] at h
  | cons s ss ih =>
    intro idx tally r hk hb hl h
    have hk' := fun s' hs' => hk s' (List.mem_cons_of_mem _ hs')
    simp only [List.length_cons] at hl
    obtain ⟨sb, hsb⟩ := voteSignBytes_ok_of_wf chainID c (hk s (by simp)) hb
    have hv : vs[idx]? = some vs[idx] := List.getElem?_eq_getElem (by omega)
    simp only [lightLoop, hv, hsb] at h
    split at h
    · exact ih _ _ _ hk' hb (by omega) h
    · split at h
      · injection h with h; subst h; intro hp; rcases hp with hp | hp | hp <;> cases hp
      · split at h
        · injection h with h; subst h; intro hp; rcases hp with hp | hp | hp <;> cases hp
        · exact ih _ _ _ hk' hb (by omega) h

theorem trustLoop_no_panic (needed : Int) : ∀ (ss : List (CommitSig σ)) (idx : Nat)
    (seen : List (Nat × Nat)) (tally : Int) (r : Res),
    (∀ s ∈ ss, s.flag = flagAbsent ∨ s.flag = flagCommit ∨ s.flag = flagNil) →
    c.blockID.validBasic = true →
    trustLoop sigOK vs chainID c needed ss idx seen tally = .error r → ¬ r.isPanic := by
  intro ss; induction ss with
  | nil => intro idx seen tally r _ _ h; simp [trustLoop] at h
  | cons s ss ih =>
    intro idx seen tally r hk hb h
    have hk' := fun s' hs' => hk s' (List.mem_cons_of_mem _ hs')
    obtain ⟨sb, hsb⟩ := voteSignBytes_ok_of_wf chainID c (hk s (by simp)) hb
    simp only [trustLoop, hsb] at h
    split at h
    · exact ih _ _ _ _ hk' hb h
    · split at h
      · exact ih _ _ _ _ hk' hb h
      · split at h
        · injection h with h; subst h; intro hp; rcases hp with hp | hp | hp <;> cases hp
        · split at h
          · injection h with h; subst h; intro hp; rcases hp with hp | hp | hp <;> cases hp
          · split at h
            · injection h with h; subst h; intro hp; rcases hp with hp | hp | hp <;> cases hp
            · exact ih _ _ _ _ hk' hb h
end
/-! ### an invalid block id -/
section
variable {σ : Type} (sigOK : Nat → SignBytes → σ → Bool) (vs : List Validator) (chainID : String)
  (c : Commit σ)

theorem voteSignBytes_invalid_bid {s : CommitSig σ} (hf : s.flag = flagCommit)
    (hb : c.blockID.validBasic = false) : voteSignBytes chainID c s = .error .panicBlockID := by
  unfold voteSignBytes sigBlockID
  have e1 : ¬ (flagCommit = flagAbsent) := by decide
  simp [hf, e1, hb]

/-- with an invalid block id no for-block slot is ever tallied -/
theorem fullLoop_invalid_bid (hb : c.blockID.validBasic = false) :
    ∀ (ss : List (CommitSig σ)) (idx : Nat) (tally t : Int),
      fullLoop sigOK vs chainID c ss idx tally = .ok t → t = tally := by
  intro ss; induction ss with
  | nil => intro idx tally t h; simp only [fullLoop] at h; injection h with h; exact h.symm
  | cons s ss ih =>
    intro idx tally t h
    simp only [fullLoop] at h
    split at h
    · exact ih _ _ _ h
    · split at h
      · cases h
      · split at h
        · cases h
        · rename_i sb hsb
          split at h
          · cases h
          · by_cases hf : s.flag = flagCommit
            · rw [voteSignBytes_invalid_bid chainID c hf hb] at hsb; cases hsb
            · simp only [if_neg hf] at h; exact ih _ _ _ h

theorem lightLoop_invalid_bid (hb : c.blockID.validBasic = false) (needed : Int) :
    ∀ (ss : List (CommitSig σ)) (idx : Nat) (tally : Int),
      lightLoop sigOK vs chainID c needed ss idx tally ≠ .error .ok := by
  intro ss; induction ss with
  | nil => intro idx tally h; simp [lightLoop] at h
  | cons s ss ih =>
    intro idx tally h
    simp only [lightLoop] at h
    split at h
    · exact ih _ _ h
    · rename_i hf
      have hf : s.flag = flagCommit := by simpa using hf
      rw [voteSignBytes_invalid_bid chainID c hf hb] at h
      split at h
      · cases h
      · simp at h

theorem trustLoop_invalid_bid (hb : c.blockID.validBasic = false) (needed : Int) :
    ∀ (ss : List (CommitSig σ)) (idx : Nat) (seen : List (Nat × Nat)) (tally : Int),
      trustLoop sigOK vs chainID c needed ss idx seen tally ≠ .error .ok := by
  intro ss; induction ss with
  | nil => intro idx seen tally h; simp [trustLoop] at h
  | cons s ss ih =>
    intro idx seen tally h
    simp only [trustLoop] at h
    split at h
    · exact ih _ _ _ h
    · rename_i hf
      have hf : s.flag = flagCommit := by simpa using hf
      rw [voteSignBytes_invalid_bid chainID c hf hb] at h
      split at h
      · exact ih _ _ _ h
      · split at h
        · cases h
        · simp at h
end
theorem fullLoop_ne_error_ok {σ : Type} (sigOK : Nat → SignBytes → σ → Bool) (vs : List Validator)
    (chainID : String) (c : Commit σ) :
    ∀ (ss : List (CommitSig σ)) (idx : Nat) (tally : Int),
      fullLoop sigOK vs chainID c ss idx tally ≠ .error .ok := by
  intro ss; induction ss with
  | nil => intro idx tally hc; simp [fullLoop] at hc
  | cons s ss ih =>
    intro idx tally hc
    simp only [fullLoop] at hc
    split at hc
    · exact ih _ _ hc
    · split at hc
      · cases hc
      · split at hc
        · rename_i p hp; injection hc with hc; subst hc
          exact (voteSignBytes_ne_notEnough chainID c hp).2 rfl
        · split at hc
          · cases hc
          · exact ih _ _ hc

end Tmv.CommitVerify
