import Tmv.Lemmas.ValChain
/-! `PruneStates` preserves the store invariant: it only touches heights below `to`, never removes
or rewrites a stored record it decided to keep, and under the invariant never rewrites at all. -/
namespace Tmv.ValStore
open Tmv.ValSet

def Stored (t : Tbl Info) (k : Int) : Prop := ∃ c p, t.get k = some ⟨c, some p⟩

/-- relation between the table before a prune (`t0`) and any table state during/after it -/
structure PQ (t0 : Tbl Info) (b : Int) (keep : List Int) (t : Tbl Info) : Prop where
  hi : ∀ k, b ≤ k → t.get k = t0.get k
  any : ∀ k, t.get k = t0.get k ∨ t.get k = none ∨ (k ∈ keep ∧ ¬ Stored t0 k ∧ t0.get k ≠ none)
  kept : ∀ k, k ∈ keep → Stored t0 k → t.get k = t0.get k

theorem PQ.refl (t0 : Tbl Info) (b : Int) (keep : List Int) : PQ t0 b keep t0 :=
  ⟨fun _ _ => rfl, fun _ => Or.inl rfl, fun _ _ _ => rfl⟩

theorem hasSet_of_stored {t : Tbl Info} {k : Int} (h : Stored t k) : hasSet (t.get k) = true := by
  obtain ⟨c, p, e⟩ := h; rw [e]; rfl

theorem pruneOne_PQ (t0 : Tbl Info) (b : Int) (keep kp : List Int) (s s' : PruneSt) (h : Int)
    (hb : h < b) (hc : PQ t0 b keep s.committed.vals) (hbt : PQ t0 b keep s.batch.vals)
    (hr : pruneOne keep kp s h = .ok s') :
    PQ t0 b keep s'.committed.vals ∧ PQ t0 b keep s'.batch.vals := by
  unfold pruneOne at hr
  simp only at hr
  -- the validators part
  have key : ∀ bv, (if keep.contains h then
      if hasSet (s.committed.vals.get h) then (.ok s.batch.vals : Except PruneRes (Tbl Info))
      else
        match loadValidators s.committed.vals h with
        | .ok vs =>
          (match s.committed.vals.get h with
           | none => .error .panic
           | some _ =>
             match toProto vs with
             | none => .error .errLoad
             | some p => .ok (s.batch.vals.put h ⟨h, some p⟩))
        | .panic => .error .panic
        | _ => .error .errLoad
    else .ok (s.batch.vals.del h)) = .ok bv → PQ t0 b keep bv := by
    intro bv hbv
    by_cases hk : keep.contains h = true
    · simp only [hk, if_true] at hbv
      have hmem : h ∈ keep := by simpa using hk
      by_cases hs : hasSet (s.committed.vals.get h) = true
      · simp only [hs, if_true, Except.ok.injEq] at hbv
        rw [← hbv]; exact hbt
      · have hs' : hasSet (s.committed.vals.get h) = false := by simpa using hs
        rw [hs'] at hbv
        simp only [Bool.false_eq_true, if_false] at hbv
        have hnst : ¬ Stored t0 h := by
          intro hst
          have := hc.kept h hmem hst
          apply hs; rw [this]; exact hasSet_of_stored hst
        split at hbv
        · split at hbv
          · cases hbv
          · rename_i x hsome
            split at hbv
            · cases hbv
            · rename_i p _
              simp only [Except.ok.injEq] at hbv
              rw [← hbv]
              have hpres : t0.get h ≠ none := by
                rcases hc.any h with e | e | ⟨_, _, e⟩
                · rw [← e, hsome]; simp
                · rw [e] at hsome; cases hsome
                · exact e
              constructor
              · intro k hk'; rw [Tbl.get_put]
                have : ¬ k = h := by omega
                simp only [this, if_false]; exact hbt.hi k hk'
              · intro k; rw [Tbl.get_put]
                by_cases hkh : k = h
                · subst hkh; right; right; exact ⟨hmem, hnst, hpres⟩
                · simp only [hkh, if_false]; exact hbt.any k
              · intro k hkm hst; rw [Tbl.get_put]
                by_cases hkh : k = h
                · subst hkh; exact absurd hst hnst
                · simp only [hkh, if_false]; exact hbt.kept k hkm hst
        · cases hbv
        · cases hbv
    · simp only [hk] at hbv
      simp only [Bool.false_eq_true, if_false, Except.ok.injEq] at hbv
      have hnm : h ∉ keep := by simpa using hk
      rw [← hbv]
      constructor
      · intro k hk'; rw [Tbl.get_del]
        have : ¬ k = h := by omega
        simp only [this, if_false]; exact hbt.hi k hk'
      · intro k; rw [Tbl.get_del]
        by_cases hkh : k = h
        · simp [hkh]
        · simp only [hkh, if_false]; exact hbt.any k
      · intro k hkm hst; rw [Tbl.get_del]
        have : ¬ k = h := fun e => hnm (e ▸ hkm)
        simp only [this, if_false]; exact hbt.kept k hkm hst
  split at hr
  · cases hr
  · rename_i bv hbv
    have hq := key bv hbv
    split at hr
    · cases hr
    · rename_i bp _
      split at hr
      · simp only [Except.ok.injEq] at hr
        rw [← hr]; exact ⟨hq, hq⟩
      · simp only [Except.ok.injEq] at hr
        rw [← hr]; exact ⟨hc, hq⟩

theorem pruneOne_err (keep kp : List Int) (s : PruneSt) (h : Int) (e : PruneRes)
    (hr : pruneOne keep kp s h = .error e) : e = .errLoad ∨ e = .panic := by
  unfold pruneOne at hr
  simp only at hr
  split at hr
  · rename_i e' he'
    simp only [Except.error.injEq] at hr
    subst hr
    split at he'
    · split at he'
      · cases he'
      · split at he'
        · split at he'
          · cases he'; right; rfl
          · split at he'
            · cases he'; left; rfl
            · cases he'
        · cases he'; right; rfl
        · cases he'; left; rfl
    · cases he'
  · split at hr
    · rename_i e' he'
      simp only [Except.error.injEq] at hr
      subst hr
      split at he'
      · split at he'
        · cases he'; left; rfl
        · split at he'
          · cases he'
          · split at he'
            · split at he'
              · cases he'
              · cases he'; left; rfl
            · cases he'; left; rfl
      · cases he'
    · split at hr <;> cases hr

theorem pruneLoop_PQ (t0 : Tbl Info) (b : Int) (keep kp : List Int) (n : Nat) (h : Int) (s : PruneSt)
    (hb : h < b) (hc : PQ t0 b keep s.committed.vals) (hbt : PQ t0 b keep s.batch.vals) :
    PQ t0 b keep (pruneLoop keep kp n h s).1.vals ∧
    ((pruneLoop keep kp n h s).2 = .ok ∨ (pruneLoop keep kp n h s).2 = .errLoad ∨
      (pruneLoop keep kp n h s).2 = .panic) := by
  induction n generalizing h s with
  | zero => exact ⟨hbt, Or.inl rfl⟩
  | succ m ih =>
    unfold pruneLoop
    cases hr : pruneOne keep kp s h with
    | error e =>
      simp only
      rcases pruneOne_err _ _ _ _ _ hr with e1 | e1
      · exact ⟨hc, Or.inr (Or.inl e1)⟩
      · exact ⟨hc, Or.inr (Or.inr e1)⟩
    | ok s' =>
      simp only
      obtain ⟨h1, h2⟩ := pruneOne_PQ t0 b keep kp s s' h hb hc hbt hr
      exact ih (h - 1) s' (by omega) h1 h2

/-- the heights `PruneStates(from, to)` decides to keep -/
def keepOf (t : Tbl Info) (b : Int) : List Int :=
  match t.get b with
  | some vi => if vi.set = none then [vi.lhc, lastStoredHeightFor b vi.lhc] else []
  | none => []

/-- either the call returned before the loop (database untouched) or the record at `to` exists
and the resulting table is related to the old one by `PQ` -/
theorem pruneStates_spec (db : DB) (a b : Int) :
    let r := pruneStates db a b
    ((r.2 = .errArgs ∨ r.2 = .errNoVals ∨ r.2 = .errNoParams) ∧ r.1 = db) ∨
    (¬ (r.2 = .errArgs ∨ r.2 = .errNoVals ∨ r.2 = .errNoParams) ∧
      (∃ vi, db.vals.get b = some vi) ∧ PQ db.vals b (keepOf db.vals b) r.1.vals) := by
  simp only
  unfold pruneStates
  split
  · left; exact ⟨Or.inl rfl, rfl⟩
  · split
    · left; exact ⟨Or.inl rfl, rfl⟩
    · split
      · left; exact ⟨Or.inr (Or.inl rfl), rfl⟩
      · rename_i vi hvi
        split
        · left; exact ⟨Or.inr (Or.inr rfl), rfl⟩
        · rename_i pc _
          right
          have hk : keepOf db.vals b = (if vi.set = none then [vi.lhc, lastStoredHeightFor b vi.lhc] else []) := by
            unfold keepOf; rw [hvi]
          rw [← hk]
          have := pruneLoop_PQ db.vals b (keepOf db.vals b) (if pc ≠ b then [pc] else [])
            (b - a).toNat (b - 1) ⟨db, db, 0⟩ (by omega) (PQ.refl _ _ _) (PQ.refl _ _ _)
          refine ⟨?_, ⟨vi, hvi⟩, this.1⟩
          rcases this.2 with e | e | e <;> rw [e] <;> simp

/-- under the invariant every present record that `PruneStates` keeps already has its set -/
theorem keep_stored (s : Sys) (hi : Inv s) (b k : Int) (hbt : b ≤ tip s.st)
    (hk : k ∈ keepOf s.db.vals b) (hp : s.db.vals.get k ≠ none) : Stored s.db.vals k := by
  unfold keepOf at hk
  cases hvi : s.db.vals.get b with
  | none => simp [hvi] at hk
  | some vi =>
    simp only [hvi] at hk
    by_cases hset : vi.set = none
    · simp only [hset, if_true] at hk
      cases hinfo : s.db.vals.get k with
      | none => exact absurd hinfo hp
      | some info =>
        have hGb := hi.grec b vi hbt hvi
        have hb0 : 0 ≤ b := by have := hGb.pos; omega
        have hls := lsf_eq b vi.lhc hb0
        have hkb0 : k ≤ b := by
          have := hGb.lhc_le
          simp only [List.mem_cons, List.mem_nil_iff, or_false] at hk
          rcases hk with e | e
          · omega
          · rw [hls] at e; split at e <;> omega
        have hGk := hi.grec k info (by omega) hinfo
        have hsome : info.set.isSome := by
          rw [hGk.set_iff]
          have hcases : k = vi.lhc ∨ (k = b - b % 100000 ∧ vi.lhc ≤ k) := by
            simp only [List.mem_cons, List.mem_nil_iff, or_false] at hk
            rcases hk with e | e
            · left; exact e
            · rw [hls] at e; split at e
              · right; exact ⟨e, by omega⟩
              · left; exact e
          rcases hcases with e | ⟨e, hle⟩
          · left
            have hkb : k ≤ b := by rw [e]; exact hGb.lhc_le
            have := (hGk.mono b vi hkb hbt hvi).2 (by omega)
            omega
          · right; omega
        obtain ⟨c, st⟩ := info
        cases st with
        | none => simp at hsome
        | some p => exact ⟨c, p, hinfo⟩
    · simp [hset] at hk

theorem inv_prune (s : Sys) (hi : Inv s) (a b : Int)
    (hsafe : s.clean = true ∨ b ≤ tip s.st ∨ s.db.vals.get b = none) :
    Inv (s.step (.prune a b)) := by
  show Inv ⟨(pruneStates s.db a b).1, s.st, s.truth,
      if (pruneStates s.db a b).2 = .errArgs ∨ (pruneStates s.db a b).2 = .errNoVals ∨
         (pruneStates s.db a b).2 = .errNoParams then s.base
      else if s.base ≤ b then b else s.base, s.clean⟩
  rcases pruneStates_spec s.db a b with ⟨he, hdb⟩ | ⟨hne, ⟨vi, hvi⟩, hq⟩
  · simp only [he, if_true, hdb]
    exact hi
  · simp only [hne, if_false]
    generalize (pruneStates s.db a b).1 = db' at hq
    have hbtip : b ≤ tip s.st := by
      rcases hsafe with hcl | hle | hnone
      · by_cases hlt : tip s.st < b
        · have := hi.above hcl b hlt; rw [this] at hvi; cases hvi
        · omega
      · exact hle
      · rw [hnone] at hvi; cases hvi
    have hGb := hi.grec b vi hbtip hvi
    -- the new table is a sub-table of the old one
    have hsub : ∀ k info, db'.vals.get k = some info → s.db.vals.get k = some info := by
      intro k info hk
      rcases hq.any k with e | e | ⟨hm, hns, hp⟩
      · rw [← e]; exact hk
      · rw [e] at hk; cases hk
      · exact absurd (keep_stored s hi b k hbtip hm hp) hns
    have hbase : s.base ≤ (if s.base ≤ b then b else s.base) ∧ b ≤ (if s.base ≤ b then b else s.base) ∧
        ((if s.base ≤ b then b else s.base) = b ∨ (if s.base ≤ b then b else s.base) = s.base) := by
      split <;> omega
    generalize (if s.base ≤ b then b else s.base) = base' at hbase
    refine ⟨by have := hi.base_pos; show 1 ≤ base'; omega, ?_, hi.ih_pos, hi.lbh_nonneg, hi.next_full,
      hi.rec_tip, ?_, ?_, ?_, ?_, hi.cur_full, hi.last_full,
      fun hb => hi.cur_truth (by have hb' : base' ≤ tip s.st - 1 := hb; omega),
      fun h0 hb => hi.last_truth h0 (by have hb' : base' ≤ tip s.st - 2 := hb; omega)⟩
    · show base' ≤ tip s.st
      have := hi.base_le
      omega
    · intro info hinfo
      exact hi.lhvc_tip info (hsub _ _ hinfo)
    · intro h h1 h2
      have h1' : base' ≤ h := h1
      have hbh : b ≤ h := by omega
      obtain ⟨info, hget, hg⟩ := hi.good h (by omega) h2
      refine ⟨info, by show db'.vals.get h = some info; rw [hq.hi h hbh]; exact hget, ?_⟩
      constructor
      · exact hg.stored
      · intro hn
        obtain ⟨hlt, i2, p2, v, hg2, hs2, hf2, hinc, htr⟩ := hg.pointer hn
        refine ⟨hlt, i2, p2, v, ?_, hs2, hf2, hinc, htr⟩
        show db'.vals.get _ = some i2
        by_cases hlsb : b ≤ lastStoredHeightFor h info.lhc
        · rw [hq.hi _ hlsb]; exact hg2
        · -- the target is below `to`: it is the kept last-stored height of `to`
          have hst : Stored s.db.vals (lastStoredHeightFor h info.lhc) := by
            obtain ⟨c2, st2⟩ := i2
            simp only at hs2; subst hs2
            exact ⟨c2, p2, hg2⟩
          rw [hq.kept _ ?_ hst]; exact hg2
          have hG := hi.grec h info h2 hget
          have hh0 : 0 ≤ h := by have := hG.pos; omega
          have hb0 : 0 ≤ b := by have := hGb.pos; omega
          have hlsh := lsf_eq h info.lhc hh0
          have hlsbb := lsf_eq b vi.lhc hb0
          have hm := hGb.mono h info hbh h2 hget
          have hlhc_lt : info.lhc < b := by
            rw [hlsh] at hlsb; split at hlsb <;> omega
          have hceq : vi.lhc = info.lhc := hm.2 (by omega)
          have hlseq : lastStoredHeightFor h info.lhc = lastStoredHeightFor b vi.lhc := by
            rw [hlsh, hlsbb, hceq]
            rw [hlsh] at hlsb
            split <;> split <;> omega
          have hviset : vi.set = none := by
            cases hvs : vi.set with
            | none => rfl
            | some p =>
              exfalso
              have := hGb.set_iff.mp (by simp [hvs])
              rw [hlseq, hlsbb] at hlsb
              have := hGb.lhc_le
              split at hlsb <;> omega
          unfold keepOf
          rw [hvi]
          simp only [hviset, if_true, hlseq]
          simp
    · intro k info hkt hk
      have hk0 := hsub k info hk
      have hG := hi.grec k info hkt hk0
      exact ⟨hG.pos, hG.lhc_le, hG.set_iff,
        fun k2 i2 hk2 hk2t hg2 => hG.mono k2 i2 hk2 hk2t (hsub _ _ hg2)⟩
    · intro hcl k hk
      have hk' : tip s.st < k := hk
      show db'.vals.get k = none
      rw [hq.hi k (by omega)]
      exact hi.above hcl k hk

end Tmv.ValStore
