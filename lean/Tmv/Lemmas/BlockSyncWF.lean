import Tmv.Lemmas.BlockSyncLive
/-! `WF` is an invariant of every operation (C13 liveness). -/
namespace Tmv.BlockSync

def ReqsWF (h : Int) (l : List Requester) : Prop :=
  ∀ (i : Nat) (r : Requester) (b : Block), l[i]? = some r → r.block = some b →
    b.height = h + i ∧ r.peer.isSome

def PeersIn (ps : List Peer) (conn : List Nat) : Prop := ∀ q ∈ ps, q.id ∈ conn

theorem reqsWF_map (h : Int) (l : List Requester) (g : Requester → Requester) (hg : SamePB g)
    (hl : ReqsWF h l) : ReqsWF h (l.map g) := by
  intro i r b hr hb
  rw [List.getElem?_map] at hr
  cases hx : l[i]? with
  | none => simp [hx] at hr
  | some x =>
    simp only [hx, Option.map_some, Option.some.injEq] at hr
    subst hr
    have := hl i x b hx (by rw [← (hg x).2]; exact hb)
    exact ⟨this.1, by rw [(hg x).1]; exact this.2⟩

theorem reqsWF_set (h : Int) (l : List Requester) (k : Nat) (r : Requester) (hl : ReqsWF h l)
    (hr : ∀ b, r.block = some b → b.height = h + k ∧ r.peer.isSome) : ReqsWF h (l.set k r) := by
  intro i x b hx hb
  by_cases hik : k = i
  · subst hik
    by_cases hlt : k < l.length
    · rw [List.getElem?_set_self hlt] at hx
      cases hx; exact hr b hb
    · rw [List.getElem?_eq_none (by simp; omega)] at hx; cases hx
  · rw [List.getElem?_set_ne hik] at hx
    exact hl i x b hx hb

theorem reqsWF_append_fresh (h : Int) (l : List Requester) (hl : ReqsWF h l) :
    ReqsWF h (l ++ [Requester.fresh]) := by
  intro i r b hr hb
  by_cases hi : i < l.length
  · rw [List.getElem?_append_left hi] at hr; exact hl i r b hr hb
  · rw [List.getElem?_append_right (by omega)] at hr
    cases hj : i - l.length with
    | zero => simp [hj, Requester.fresh] at hr; subst hr; cases hb
    | succ j => simp [hj] at hr

theorem reqsWF_tail (h : Int) (a : Requester) (l : List Requester) (hl : ReqsWF h (a :: l)) :
    ReqsWF (h + 1) l := by
  intro i r b hr hb
  have := hl (i + 1) r b (by simpa using hr) hb
  exact ⟨by have := this.1; push_cast at this; omega, this.2⟩

/-- `setReq` at an arbitrary height -/
theorem setReq_spec (p : Pool) (h : Int) (r : Requester) (hl : ReqsWF p.height p.requesters)
    (hr : ∀ b, r.block = some b → b.height = h ∧ r.peer.isSome) :
    ReqsWF p.height (p.setReq h r).requesters ∧ (p.setReq h r).height = p.height ∧
      (p.setReq h r).peers = p.peers := by
  unfold Pool.setReq Pool.idx?
  split
  · rename_i i hi
    split at hi; · cases hi
    rename_i hge
    split at hi
    · cases hi
      refine ⟨reqsWF_set _ _ _ _ hl (fun b hb => ⟨?_, (hr b hb).2⟩), rfl, rfl⟩
      have := (hr b hb).1
      omega
    · cases hi
  · exact ⟨hl, rfl, rfl⟩

theorem req?_mem (p : Pool) (h : Int) (r : Requester) (hr : p.req? h = some r) :
    ∃ i : Nat, p.requesters[i]? = some r ∧ h = p.height + i := by
  unfold Pool.req? Pool.idx? at hr
  split at hr
  · rename_i i hi
    split at hi; · cases hi
    split at hi
    · cases hi; exact ⟨_, hr, by omega⟩
    · cases hi
  · cases hr

theorem removePeer_wf (p : Pool) (w : Nat) (conn : List Nat) (hl : ReqsWF p.height p.requesters)
    (hp : PeersIn p.peers conn) :
    ReqsWF (p.removePeer w).height (p.removePeer w).requesters ∧ (p.removePeer w).height = p.height ∧
      PeersIn (p.removePeer w).peers conn ∧ PeersIn (p.removePeer w).peers (conn.filter (· ≠ w)) := by
  obtain ⟨hr, hh⟩ := removePeer_reqs p w
  refine ⟨by rw [hr, hh]; exact reqsWF_map _ _ _ (samePB_mark w) hl, hh, ?_, ?_⟩
  · intro q hq; exact hp q (removePeer_peers_sub p w q hq)
  · intro q hq
    have hne : q.id ≠ w := by
      have := removePeer_self p w
      rw [peer?_none_iff] at this
      exact this q hq
    have := hp q (removePeer_peers_sub p w q hq)
    simp [this, hne]

theorem wf_stopPeer (n : Node) (w : Nat) (hw : WF n) : WF (n.stopPeer w) := by
  unfold Node.stopPeer
  split
  · obtain ⟨a, b, _, d⟩ := removePeer_wf n.pool w n.connected hw.reqs hw.peers
    exact ⟨by rw [b]; exact hw.height, hw.pos, a, d⟩
  · exact hw

theorem wf_pool (n : Node) (p : Pool) (hw : WF n) (hh : p.height = n.pool.height)
    (hr : ReqsWF p.height p.requesters) (hp : PeersIn p.peers n.connected) :
    WF { n with pool := p } :=
  ⟨by rw [hh]; exact hw.height, hw.pos, hr, hp⟩

theorem peersIn_map (ps : List Peer) (conn : List Nat) (f : Peer → Peer) (hf : ∀ q, (f q).id = q.id)
    (hp : PeersIn ps conn) : PeersIn (ps.map f) conn := by
  intro q hq
  obtain ⟨x, hx, rfl⟩ := List.mem_map.mp hq
  rw [hf]; exact hp x hx

end Tmv.BlockSync

namespace Tmv.BlockSync
variable (sigOK : Nat → SignBytes → Nat → Bool)

/-- `setReq` on a pool that differs from the node's only in counters / peer bookkeeping -/
theorem wf_setReq_of (n : Node) (q : Pool) (hw : WF n) (hqh : q.height = n.pool.height)
    (hqr : q.requesters = n.pool.requesters) (hqp : PeersIn q.peers n.connected)
    (h : Int) (r : Requester) (hr : ∀ b, r.block = some b → b.height = h ∧ r.peer.isSome) :
    WF { n with pool := q.setReq h r } := by
  have hl : ReqsWF q.height q.requesters := by rw [hqh, hqr]; exact hw.reqs
  obtain ⟨a, b, c⟩ := setReq_spec q h r hl hr
  exact wf_pool n _ hw (by rw [b, hqh]) (by rw [b]; exact a) (by rw [c]; exact hqp)

theorem wf_resetReq (n : Node) (h : Int) (r : Requester) (hw : WF n) :
    WF { n with pool := n.pool.resetReq h r } := by
  unfold Pool.resetReq
  exact wf_setReq_of n
    ({ n.pool with numPending := if r.block.isSome then n.pool.numPending + 1 else n.pool.numPending })
    hw rfl rfl hw.peers h { r with peer := none, block := none } (fun b hb => by simp at hb)

theorem wf_processStep (n : Node) (hw : WF n) : WF (n.processStep sigOK).1 := by
  unfold Node.processStep
  split
  · rename_i first second hpk
    split
    · -- failed: redo both
      rw [redoBoth_eq]
      have step : ∀ (m : Node) (h : Int), WF m → WF (m.redoStop h).1 := by
        intro m h hm
        unfold Node.redoStop Pool.redoRequest
        cases hq : m.pool.req? h with
        | none => simpa using hm
        | some r =>
          cases hp : r.peer with
          | none => simpa [hp] using hm
          | some id =>
            simp only [hp]
            obtain ⟨a, b, c, _⟩ := removePeer_wf m.pool id m.connected hm.reqs hm.peers
            exact wf_stopPeer _ id (wf_pool m _ hm b a c)
      exact step _ _ (step _ _ hw)
    · split
      · -- saved
        rename_i p hpop
        unfold Pool.pop at hpop
        cases hreq : n.pool.requesters with
        | nil => simp [hreq] at hpop
        | cons a l =>
          simp only [hreq, Option.some.injEq] at hpop
          subst hpop
          -- first is the block of requester 0, so its height is the pool's
          have hfirst : first.height = n.pool.height := by
            unfold Pool.peekTwo at hpk
            have e0 : n.pool.height = n.pool.height + ((0 : Nat) : Int) := by simp
            have : (n.pool.req? n.pool.height).bind (·.block) = some first := by
              have := congrArg Prod.fst hpk; simpa using this
            rw [e0, req?_add] at this
            cases hx : n.pool.requesters[0]? with
            | none => simp [hx] at this
            | some x =>
              simp only [hx, Option.bind_some] at this
              have := (hw.reqs 0 x first hx this).1
              simpa using this
          have hpos : 0 < n.pool.height := by
            rw [hw.height]; unfold startHeight
            split <;> have := hw.pos <;> omega
          refine ⟨?_, ?_, ?_, ?_⟩
          · simp only [applyBlock, startHeight, hfirst]
            have : ¬ (n.pool.height + 1 = 1) := by omega
            simp [this]
          · simp only [applyBlock, hfirst]; exact ⟨hw.pos.1, by omega⟩
          · have := hw.reqs
            rw [hreq] at this
            exact reqsWF_tail _ a l this
          · exact hw.peers
      · exact hw
  · exact hw

theorem wf_apply (n : Node) (op : Op) (hw : WF n) : WF (n.apply sigOK op) := by
  cases op with
  | process => exact wf_processStep sigOK n hw
  | restart =>
    simp only [Node.apply, Node.restart]
    split
    · split
      · exact ⟨rfl, hw.pos, by intro i r b hr; simp [Node.new, Pool.new] at hr,
          by intro q hq; simp [Node.new, Pool.new] at hq⟩
      · exact hw
    · split
      · exact ⟨rfl, hw.pos, by intro i r b hr; simp [Node.new, Pool.new] at hr,
          by intro q hq; simp [Node.new, Pool.new] at hq⟩
      · exact hw
  | connect id =>
    simp only [Node.apply, Node.connect]
    split
    · exact hw
    · exact ⟨hw.height, hw.pos, hw.reqs, fun q hq => by simp [hw.peers q hq]⟩
  | disconnect id =>
    simp only [Node.apply, Node.disconnect]
    split
    · obtain ⟨a, b, _, d⟩ := removePeer_wf n.pool id n.connected hw.reqs hw.peers
      exact ⟨by rw [b]; exact hw.height, hw.pos, a, d⟩
    · exact hw
  | status id b h =>
    simp only [Node.apply, Node.recvStatus]
    split; · exact hw
    rename_i hc
    split
    · exact wf_stopPeer n id hw
    · refine wf_pool n _ hw rfl hw.reqs ?_
      unfold Pool.setPeerRange
      simp only
      split
      · exact peersIn_map _ _ _ (fun q => by split <;> rfl) hw.peers
      · intro q hq
        simp only [List.mem_append, List.mem_singleton] at hq
        rcases hq with hq | rfl
        · exact hw.peers q hq
        · simpa using hc
  | block id b =>
    simp only [Node.apply, Node.recvBlock]
    split; · exact hw
    split; · exact wf_stopPeer n id hw
    have hadd : WF { n with pool := (n.pool.addBlock id b).1 } := by
      unfold Pool.addBlock
      cases hq : n.pool.req? b.height with
      | none => simpa using hw
      | some r =>
        simp only
        split
        · exact hw
        · rename_i hcond
          have hpeer : r.peer = some id := by
            by_cases h : r.peer = some id
            · exact h
            · exact absurd (Or.inr h) hcond
          exact wf_setReq_of n
            ({ n.pool with numPending := n.pool.numPending - 1, peers := n.pool.peers.map (Peer.decrIf id) })
            hw rfl rfl (peersIn_map _ _ _ (decrIf_id id) hw.peers) b.height { r with block := some b }
            (fun b' hb' => by
              have : b = b' := by simpa using hb'
              subst this; exact ⟨rfl, by simp [hpeer]⟩)
    generalize (n.pool.addBlock id b).snd = res
    cases res <;> first | exact hadd | exact wf_stopPeer _ id hadd
  | mkreq =>
    simp only [Node.apply]
    unfold Pool.routineStep
    split; · exact hw
    split; · exact hw
    unfold Pool.makeNextRequester
    split
    · exact hw
    · exact wf_pool n _ hw rfl (reqsWF_append_fresh _ _ hw.reqs) hw.peers
  | pick h w =>
    simp only [Node.apply]
    unfold Pool.pick
    cases hq : n.pool.req? h with
    | none => exact hw
    | some r =>
      simp only
      split; · exact hw
      rename_i hbusy
      have hnone : r.peer = none := by cases hp : r.peer <;> simp_all
      have hblk : r.block = none := by
        obtain ⟨i, hi, _⟩ := req?_mem n.pool h r hq
        cases hb : r.block with
        | none => rfl
        | some b => have := (hw.reqs i r b hi hb).2; rw [hnone] at this; simp at this
      split
      · split
        · exact wf_setReq_of n ({ n.pool with peers := n.pool.peers.map (Peer.incrIf w) })
            hw rfl rfl (peersIn_map _ _ _ (incrIf_id w) hw.peers) h { r with peer := some w }
            (fun b hb => by simp [hblk] at hb)
        · split <;> exact hw
      · split <;> exact hw
  | rstep h =>
    simp only [Node.apply]
    unfold Pool.rstep
    cases hq : n.pool.req? h with
    | none => exact hw
    | some r =>
      simp only
      split; · exact hw
      cases hd : r.redo with
      | none => exact hw
      | some id =>
        simp only
        split
        · exact wf_resetReq n h _ hw
        · obtain ⟨i, hi, _⟩ := req?_mem n.pool h r hq
          exact wf_setReq_of n n.pool hw rfl rfl hw.peers h { r with redo := none }
            (fun b hb => ⟨by have := (hw.reqs i r b hi hb).1; omega, (hw.reqs i r b hi hb).2⟩)
  | rtimeout h =>
    simp only [Node.apply]
    unfold Pool.rtimeout
    cases hq : n.pool.req? h with
    | none => exact hw
    | some r =>
      simp only
      split
      · exact hw
      · exact wf_resetReq n h _ hw
  | peerTimeout id =>
    simp only [Node.apply, Node.peerTimeout]
    split
    · obtain ⟨a, b, c, _⟩ := removePeer_wf n.pool id n.connected hw.reqs hw.peers
      exact wf_stopPeer _ id (wf_pool n _ hw b a c)
    · exact hw

theorem wf_run (n : Node) (ops : List Op) (hw : WF n) : WF (n.run sigOK ops) := by
  induction ops generalizing n with
  | nil => exact hw
  | cons op rest ih =>
    simp only [Node.run, List.foldl_cons]
    exact ih _ (wf_apply sigOK n op hw)

end Tmv.BlockSync

namespace Tmv.BlockSync
variable (sigOK : Nat → SignBytes → Nat → Bool)

/-- the state changes only when the processing step saves, and then by the checked first block -/
theorem apply_st (n : Node) (op : Op) :
    (n.apply sigOK op).st = n.st ∨
      ∃ first second, n.pool.peekTwo = (some first, some second) ∧
        checkPair sigOK n.st first second = .ok () ∧ (n.apply sigOK op).st = applyBlock n.st first := by
  cases op with
  | process =>
    simp only [Node.apply]
    unfold Node.processStep
    split
    · rename_i first second hpk
      split
      · left; exact (redoBoth_st n first.height second.height).1
      · rename_i hc
        split
        · right; exact ⟨first, second, hpk, by cases ‹Unit›; exact hc, rfl⟩
        · left; rfl
    · left; rfl
  | restart => left; simp only [Node.apply, Node.restart]; split <;> split <;> rfl
  | connect id => left; simp only [Node.apply, Node.connect]; split <;> rfl
  | disconnect id => left; simp only [Node.apply, Node.disconnect]; split <;> rfl
  | status id b h =>
    left; simp only [Node.apply, Node.recvStatus]
    split; · rfl
    split
    · exact (stopPeer_st n id).1
    · rfl
  | block id b =>
    left; simp only [Node.apply, Node.recvBlock]
    split; · rfl
    split
    · exact (stopPeer_st n id).1
    · generalize (n.pool.addBlock id b).snd = res
      cases res <;> first | rfl | exact (stopPeer_st _ id).1
  | mkreq => left; rfl
  | pick h w => left; rfl
  | rstep h => left; rfl
  | rtimeout h => left; rfl
  | peerTimeout id =>
    left; simp only [Node.apply, Node.peerTimeout]
    split
    · exact (stopPeer_st _ id).1
    · rfl

/-- the state in front of block `start + k` of the chain -/
def canonSt (st0 : St) (chain : Int → Block) (start : Int) : Nat → St
  | 0 => st0
  | k + 1 => applyBlock (canonSt st0 chain start k) (chain (start + k))

/-- what is assumed of the chain the honest peer serves, and of the validators (no fork):
* `pairOK`: consecutive blocks pass the node's check on the canonical state (the commit in block
  `h+1` has +2/3 of the set in force at `h` for block `h`, and block `h` validates);
* `noFork`: whatever pair passes the check on a canonical state leads to the same next state — more
  than 2/3 never signed two different blocks of one height, and an id determines the block -/
structure HonestChain (st0 : St) (chain : Int → Block) (start tip : Int) : Prop where
  heights : ∀ h, (chain h).height = h
  wellFormed : ∀ h, (chain h).wellFormed
  pairOK : ∀ k : Nat, start + k < tip →
    checkPair sigOK (canonSt st0 chain start k) (chain (start + k)) (chain (start + k + 1)) = .ok ()
  noFork : ∀ (k : Nat) (b b' : Block), b.height = start + k →
    checkPair sigOK (canonSt st0 chain start k) b b' = .ok () →
    applyBlock (canonSt st0 chain start k) b = canonSt st0 chain start (k + 1)

/-- the node is on the canonical chain, `k` blocks in -/
def Canon (st0 : St) (chain : Int → Block) (start : Int) (k : Nat) (n : Node) : Prop :=
  n.st = canonSt st0 chain start k ∧ n.pool.height = start + k

theorem canon_apply (st0 : St) (chain : Int → Block) (start tip : Int)
    (hc : HonestChain sigOK st0 chain start tip) (n : Node) (op : Op) (k : Nat) (hw : WF n)
    (hk : Canon st0 chain start k n) :
    ∃ k', k ≤ k' ∧ Canon st0 chain start k' (n.apply sigOK op) := by
  have hw' := wf_apply sigOK n op hw
  rcases apply_st sigOK n op with hst | ⟨first, second, hpk, hok, hst⟩
  · refine ⟨k, Nat.le_refl _, ?_⟩
    refine ⟨by rw [hst]; exact hk.1, ?_⟩
    rw [hw'.height, hst, ← hw.height]; exact hk.2
  · -- first sits in requester 0: its height is the pool's
    have hfirst : first.height = n.pool.height := by
      unfold Pool.peekTwo at hpk
      have e0 : n.pool.height = n.pool.height + ((0 : Nat) : Int) := by simp
      have : (n.pool.req? n.pool.height).bind (·.block) = some first := by
        have := congrArg Prod.fst hpk; simpa using this
      rw [e0, req?_add] at this
      cases hx : n.pool.requesters[0]? with
      | none => simp [hx] at this
      | some x =>
        simp only [hx, Option.bind_some] at this
        have := (hw.reqs 0 x first hx this).1
        simpa using this
    have hpos : 0 < n.pool.height := by
      rw [hw.height]; unfold startHeight
      split <;> have := hw.pos <;> omega
    refine ⟨k + 1, Nat.le_succ _, ?_⟩
    have hnf := hc.noFork k first second (by rw [hfirst, hk.2]) (by rw [← hk.1]; exact hok)
    refine ⟨by rw [hst, hk.1]; exact hnf, ?_⟩
    rw [hw'.height, hst]
    simp only [applyBlock, startHeight, hfirst]
    have : ¬ (n.pool.height + 1 = 1) := by omega
    simp only [this, if_false]
    rw [hk.2]; push_cast; omega

theorem canon_run (st0 : St) (chain : Int → Block) (start tip : Int)
    (hc : HonestChain sigOK st0 chain start tip) (ops : List Op) :
    ∀ (n : Node) (k : Nat), WF n → Canon st0 chain start k n →
      ∃ k', k ≤ k' ∧ Canon st0 chain start k' (n.run sigOK ops) := by
  induction ops with
  | nil => intro n k _ hk; exact ⟨k, Nat.le_refl _, hk⟩
  | cons op rest ih =>
    intro n k hw hk
    obtain ⟨k1, h1, c1⟩ := canon_apply sigOK st0 chain start tip hc n op k hw hk
    obtain ⟨k2, h2, c2⟩ := ih _ k1 (wf_apply sigOK n op hw) c1
    exact ⟨k2, Nat.le_trans h1 h2, by simpa [Node.run] using c2⟩

/-- a schedule: arbitrary segments (whatever peers send, in any order) each followed — while the
tip is not reached — by one fair-retry round for the two heights then in front -/
def fairRun (w : Nat) (base tip : Int) (chain : Int → Block) : List (List Op) → Node → Node
  | [], n => n
  | A :: rest, n =>
    let n1 := n.run sigOK A
    let n2 := if n1.pool.height < tip then
        n1.run sigOK (fairRound n1.pool.height w base tip (chain n1.pool.height) (chain (n1.pool.height + 1)))
      else n1
    fairRun w base tip chain rest n2

end Tmv.BlockSync
