import Tmv.Lemmas.Light
namespace Tmv.Light

def SameTrust (c c' : Client) : Prop := c'.cfg = c.cfg ∧ c'.store = c.store ∧ c'.latest = c.latest

theorem SameTrust.rfl' (c : Client) : SameTrust c c := ⟨rfl, rfl, rfl⟩
theorem SameTrust.trans {a b c : Client} (h1 : SameTrust a b) (h2 : SameTrust b c) : SameTrust a c :=
  ⟨h2.1.trans h1.1, h2.2.1.trans h1.2.1, h2.2.2.trans h1.2.2⟩

theorem findLoop_same (remove : Bool) (height : Int) :
    ∀ (arr : List Nat) (c : Client) (rm : List Nat) (last : Option PErr) (c' : Client)
      (r : Except Err LightBlock),
      findLoop remove height arr c rm last = (c', r) → SameTrust c c' := by
  intro arr
  induction arr with
  | nil =>
    intro c rm last c' r h
    simp only [findLoop] at h
    obtain ⟨rfl, _⟩ := Prod.mk.inj h
    split <;> exact ⟨rfl, rfl, rfl⟩
  | cons i rest ih =>
    intro c rm last c' r h
    simp only [findLoop] at h
    split at h
    · exact ih _ _ _ _ _ h
    · split at h
      · split at h
        · obtain ⟨rfl, _⟩ := Prod.mk.inj h; exact ⟨rfl, rfl, rfl⟩
        · obtain ⟨rfl, _⟩ := Prod.mk.inj h; exact ⟨rfl, rfl, rfl⟩
      · split at h
        · have h2 := ih _ _ _ _ _ h; exact ⟨h2.1, h2.2.1, h2.2.2⟩
        · have h2 := ih _ _ _ _ _ h; exact ⟨h2.1, h2.2.1, h2.2.2⟩

theorem findNewPrimary_same {c : Client} {height : Int} {remove : Bool} {c' : Client}
    {r : Except Err LightBlock} (h : findNewPrimary c height remove = (c', r)) : SameTrust c c' := by
  unfold findNewPrimary at h
  split at h
  · obtain ⟨rfl, _⟩ := Prod.mk.inj h; exact ⟨rfl, rfl, rfl⟩
  · exact findLoop_same _ _ _ _ _ _ _ _ h

theorem lightBlockFromPrimary_same {c : Client} {height : Int} {c' : Client}
    {r : Except Err LightBlock} (h : lightBlockFromPrimary c height = (c', r)) : SameTrust c c' := by
  unfold lightBlockFromPrimary at h
  simp only at h
  split at h
  · obtain ⟨rfl, _⟩ := Prod.mk.inj h; exact ⟨rfl, rfl, rfl⟩
  · have h2 := findNewPrimary_same h; exact ⟨h2.1, h2.2.1, h2.2.2⟩

theorem handleConflictingHeaders_same {c : Client} {trace : List LightBlock} {b : LightBlock}
    {idx : Nat} {now : Int} {c' : Client} {r : Option Err}
    (h : handleConflictingHeaders c trace b idx now = (c', r)) :
    SameTrust c c' ∧ c'.witnesses = c.witnesses := by
  unfold handleConflictingHeaders at h
  split at h
  · obtain ⟨rfl, _⟩ := Prod.mk.inj h; exact ⟨⟨rfl, rfl, rfl⟩, rfl⟩
  · simp only at h
    split at h
    · obtain ⟨rfl, _⟩ := Prod.mk.inj h; exact ⟨⟨rfl, rfl, rfl⟩, rfl⟩
    · split at h
      · split at h
        · obtain ⟨rfl, _⟩ := Prod.mk.inj h; exact ⟨⟨rfl, rfl, rfl⟩, rfl⟩
        · split at h
          · obtain ⟨rfl, _⟩ := Prod.mk.inj h; exact ⟨⟨rfl, rfl, rfl⟩, rfl⟩
          · obtain ⟨rfl, _⟩ := Prod.mk.inj h; exact ⟨⟨rfl, rfl, rfl⟩, rfl⟩
      · obtain ⟨rfl, _⟩ := Prod.mk.inj h; exact ⟨⟨rfl, rfl, rfl⟩, rfl⟩


theorem hashCompare_matched {h lb : LightBlock} {idx : Nat} (e : hashCompare h lb idx = .matched) :
    lb.hash = h.hash := by
  unfold hashCompare at e
  split at e
  · cases e
  · rename_i hne
    simp at hne
    exact hne.symm

theorem getTarget_replied {k : Calls} {w : Prov} {ht : Int} {k' : Calls} {b : Bool} {lb : LightBlock}
    (e : getTargetBlockOrLatest k w ht = (k', .ok (b, lb))) : ∃ n x, w.script n x = .ok lb := by
  unfold getTargetBlockOrLatest at e
  simp only [ask] at e
  split at e
  · cases e
  · rename_i lb0 hr
    split at e
    · simp at e; exact ⟨_, _, e.2.2 ▸ hr⟩
    · split at e
      · split at e
        · rename_i lb2 hr2
          simp at e; exact ⟨_, _, e.2.2 ▸ hr2⟩
        · cases e
      · simp at e; exact ⟨_, _, e.2.2 ▸ hr⟩


theorem compare_matched {k : Calls} {h : LightBlock} {w : Prov} {idx : Nat} {k' : Calls}
    (e : compareNewHeaderWithWitness k h w idx = (k', .matched)) : Replied w h.hash := by
  unfold compareNewHeaderWithWitness at e
  simp only [ask] at e
  split at e
  · rename_i lb hr
    simp at e
    exact ⟨_, _, lb, hr, hashCompare_matched e.2⟩
  · cases e
  · cases e
  · cases e
  · split at e
    · cases e
    · rename_i lb hg
      simp at e
      obtain ⟨n, x, hs⟩ := getTarget_replied (Prod.ext rfl hg)
      exact ⟨n, x, lb, hs, hashCompare_matched e.2⟩
    · rename_i lb hg
      split at e
      · cases e
      · split at e
        · cases e
        · rename_i lb' hg'
          simp at e
          obtain ⟨n, x, hs⟩ := getTarget_replied (Prod.ext rfl hg')
          exact ⟨n, x, lb', hs, hashCompare_matched e.2⟩
        · split at e <;> cases e


theorem detectLoop_spec (trace : List LightBlock) (h : LightBlock) (now : Int) :
    ∀ (arr : List Nat) (c : Client) (matched : Bool) (rm : List Nat) (c' : Client)
      (r : Except Err Unit),
      detectLoop trace h now arr c matched rm = (c', r) →
      SameTrust c c' ∧
      (r = .ok () → matched = true ∨ ∃ (i : Nat) (w : Prov), c.witnesses[i]? = some w ∧ Replied w h.hash) := by
  intro arr
  induction arr with
  | nil =>
    intro c matched rm c' r e
    simp only [detectLoop] at e
    split at e
    · obtain ⟨rfl, rfl⟩ := Prod.mk.inj e
      exact ⟨⟨rfl, rfl, rfl⟩, fun h => by cases h⟩
    · obtain ⟨rfl, rfl⟩ := Prod.mk.inj e
      refine ⟨⟨rfl, rfl, rfl⟩, fun h => ?_⟩
      split at h
      · rename_i hm; exact Or.inl hm
      · cases h
  | cons i rest ih =>
    intro c matched rm c' r e
    simp only [detectLoop] at e
    split at e
    · exact ih _ _ _ _ _ e
    · rename_i w hw
      split at e
      · -- matched
        rename_i k hcmp
        have h2 := ih _ _ _ _ _ e
        refine ⟨⟨h2.1.1, h2.1.2.1, h2.1.2.2⟩, fun _ => Or.inr ⟨i, w, hw, ?_⟩⟩
        exact compare_matched (Prod.ext rfl hcmp)
      · -- conflict
        split at e
        · rename_i c2 err hh
          obtain ⟨rfl, rfl⟩ := Prod.mk.inj e
          have h3 := (handleConflictingHeaders_same hh).1
          exact ⟨⟨h3.1, h3.2.1, h3.2.2⟩, fun h => by cases h⟩
        · rename_i c2 hh
          have h3 := handleConflictingHeaders_same hh
          have h2 := ih _ _ _ _ _ e
          refine ⟨⟨h2.1.1.trans h3.1.1, h2.1.2.1.trans h3.1.2.1, h2.1.2.2.trans h3.1.2.2⟩, fun hr => ?_⟩
          have := h2.2 hr
          rw [h3.2] at this
          exact this
      · have h2 := ih _ _ _ _ _ e
        exact ⟨⟨h2.1.1, h2.1.2.1, h2.1.2.2⟩, h2.2⟩
      · have h2 := ih _ _ _ _ _ e
        exact ⟨⟨h2.1.1, h2.1.2.1, h2.1.2.2⟩, h2.2⟩

end Tmv.Light
