import Tmv.Lemmas.SyncNet
import Tmv.Lemmas.VoteReachRun
/-! What `closure` (the idealised gossip of C03) achieves: when the closure loop ends because a
gossip pass changed nothing, every logged vote has been handed to every node during that last pass,
so — for a node that is live, tracks the vote's round and holds no conflicting vote of that
validator — the vote is recorded in the node's vote set. -/
namespace Tmv.Sync
open Tmv.Cons

/-- one input of the receive routine only extends the vote sets (no bookkeeping of which votes) -/
theorem drain_XT (c : Cfg) (fuel : Nat) (s : NodeState) (h0 : HVS)
    (h : HExt c (fun _ _ _ => True) h0 s.votes) : HExt c (fun _ _ _ => True) h0 (drain c fuel s).votes := by
  induction fuel generalizing s with
  | zero => unfold drain; exact h
  | succ n ih =>
    by_cases h1 : s.halted = true ∨ s.decided.isSome = true
    · rw [drain_succ_stop n s (Or.inl h1)]; exact h
    · cases hq : s.queue with
      | nil => rw [drain_succ_stop n s (Or.inr hq)]; exact h
      | cons m rest =>
        rw [drain_succ_cons n s m rest h1 hq]
        apply ih
        have h' : HExt c (fun _ _ _ => True) h0 ({ s with queue := rest } : NodeState).votes := h
        exact handleInternal_X (s := { s with queue := rest }) m (fun _ _ => trivial) h'

theorem step_XT (c : Cfg) (s : NodeState) (i : Input) :
    HExt c (fun _ _ _ => True) s.votes (Cons.step c s i).votes := by
  unfold Cons.step
  split
  · exact HExt.refl c _ _
  · exact drain_XT c _ _ _ (handleInput_X i (fun _ _ _ => trivial) (HExt.refl c _ _))

/-! ### a node-wise "later stage" relation between nets -/

structure NodeLater (c : SCfg) (nd nd' : Node) : Prop where
  idx : nd'.idx = nd.idx
  ext : HExt (nodeCfg c.cfg nd.idx) (fun _ _ _ => True) nd.s.votes nd'.s.votes
  halted : nd.s.halted = true → nd'.s.halted = true
  decided : nd.s.decided.isSome = true → nd'.s.decided.isSome = true

theorem NodeLater.refl (c : SCfg) (nd : Node) : NodeLater c nd nd :=
  ⟨rfl, HExt.refl _ _ _, id, id⟩

theorem NodeLater.trans {c : SCfg} {a b d : Node} (h₁ : NodeLater c a b) (h₂ : NodeLater c b d) :
    NodeLater c a d :=
  ⟨h₂.idx.trans h₁.idx, h₁.ext.trans (by rw [← h₁.idx]; exact h₂.ext),
   fun h => h₂.halted (h₁.halted h), fun h => h₂.decided (h₁.decided h)⟩

def Later2 (c : SCfg) (n n' : Net) : Prop :=
  (∃ ext, n'.log = n.log ++ ext) ∧ n'.nodes.length = n.nodes.length ∧
  ∀ (i : Nat) (nd nd' : Node), n.nodes[i]? = some nd → n'.nodes[i]? = some nd' → NodeLater c nd nd'

theorem Later2.refl (c : SCfg) (n : Net) : Later2 c n n := by
  refine ⟨⟨[], by simp⟩, rfl, ?_⟩
  intro i nd nd' h h'
  rw [h] at h'; cases h'; exact NodeLater.refl c nd

theorem getElem?_some_of_length_eq {α} {l l' : List α} (h : l'.length = l.length) {i : Nat} {x : α}
    (hx : l[i]? = some x) : ∃ y, l'[i]? = some y := by
  have hlt : i < l.length := by
    rcases Nat.lt_or_ge i l.length with h1 | h1
    · exact h1
    · rw [List.getElem?_eq_none h1] at hx; cases hx
  exact ⟨l'[i]'(by omega), List.getElem?_eq_getElem (by omega)⟩

theorem Later2.trans {c : SCfg} {a b d : Net} (h₁ : Later2 c a b) (h₂ : Later2 c b d) : Later2 c a d := by
  obtain ⟨⟨e₁, l₁⟩, n₁, f₁⟩ := h₁
  obtain ⟨⟨e₂, l₂⟩, n₂, f₂⟩ := h₂
  refine ⟨⟨e₁ ++ e₂, by rw [l₂, l₁, List.append_assoc]⟩, by rw [n₂, n₁], ?_⟩
  intro i nd nd' h h'
  obtain ⟨ndb, hb⟩ := getElem?_some_of_length_eq n₁ h
  exact (f₁ i nd ndb h hb).trans (f₂ i ndb nd' hb h')

def Pres2 (c : SCfg) (f : Net → Net) : Prop := ∀ n, Later2 c n (f n)

theorem Pres2.foldl {c : SCfg} {α} (l : List α) (f : Net → α → Net) (h : ∀ a, Pres2 c (fun n => f n a)) :
    Pres2 c (fun n => l.foldl f n) := by
  induction l with
  | nil => intro n; exact Later2.refl c n
  | cons a l ih => intro n; simp only [List.foldl]; exact (h a n).trans (ih (f n a))

/-- the state of node `i` after an input -/
theorem input_node (c : SCfg) (net : Net) (i : Nat) (inp : Input) (nd : Node) (hi : net.nodes[i]? = some nd) :
    ∃ nd', (net.input c i inp).nodes[i]? = some nd' ∧ nd'.idx = nd.idx ∧
      nd'.s = Cons.step (nodeCfg c.cfg nd.idx) nd.s inp := by
  have hlt : i < net.nodes.length := by
    rcases Nat.lt_or_ge i net.nodes.length with h | h
    · exact h
    · rw [List.getElem?_eq_none h] at hi; cases hi
  unfold Net.input
  rw [hi]
  dsimp only
  refine ⟨(harvest c.tmo net.now net.log nd (Cons.step (nodeCfg c.cfg nd.idx) nd.s inp)).2, ?_, ?_, ?_⟩
  · simp [setNode, List.getElem?_set_self hlt]
  · simp [harvest]
  · simp [harvest]

theorem step_halted (c : Cfg) (s : NodeState) (i : Input) (h : s.halted = true) : Cons.step c s i = s := by
  unfold Cons.step; simp [h]

theorem input_pres2 (c : SCfg) (i : Nat) (inp : Input) : Pres2 c (fun n => n.input c i inp) := by
  intro n
  show Later2 c n (n.input c i inp)
  have hl := input_pres c i inp n
  refine ⟨hl.2.1, hl.2.2, ?_⟩
  intro j nd nd' h h'
  cases hi : n.nodes[i]? with
  | none =>
    have : n.input c i inp = n := by unfold Net.input; rw [hi]
    rw [this, h] at h'; cases h'; exact NodeLater.refl c nd
  | some ndi =>
    by_cases hij : i = j
    · subst hij
      rw [hi] at h; cases h
      obtain ⟨nd2, h2, hidx, hs⟩ := input_node c n i inp nd hi
      rw [h2] at h'; cases h'
      refine ⟨hidx, ?_, ?_, ?_⟩
      · rw [hs]; exact step_XT _ _ _
      · intro hh; rw [hs, step_halted _ _ _ hh]; exact hh
      · intro hd; rw [hs, step_decided _ _ _ hd]; exact hd
    · have : (n.input c i inp).nodes[j]? = n.nodes[j]? := by
        unfold Net.input
        rw [hi]
        dsimp only
        simp [setNode, List.getElem?_set_ne hij]
      rw [this, h] at h'; cases h'; exact NodeLater.refl c nd

theorem deliver_pres2 (c : SCfg) (i k : Nat) : Pres2 c (fun n => n.deliver c i k) := by
  intro n
  show Later2 c n (n.deliver c i k)
  unfold Net.deliver
  split
  · split
    · exact Later2.refl c n
    · exact input_pres2 c i _ n
  · exact Later2.refl c n

theorem claim_pres2 (c : SCfg) (i j : Nat) : Pres2 c (fun n => n.claim c i j) := by
  intro n
  show Later2 c n (n.claim c i j)
  unfold Net.claim
  split
  · exact Later2.refl c n
  · split
    · exact Later2.refl c n
    · rename_i p _ _
      exact Pres2.foldl (claimsOf p.s)
        (fun net (x : Nat × VType × Bid) => net.input c i (.peerMaj23 x.1 x.2.1 (1 + p.idx) x.2.2))
        (fun x => input_pres2 c i _) n

theorem passNode_pres2 (c : SCfg) (i : Nat) : Pres2 c (fun n => n.passNode c i) := by
  intro n
  show Later2 c n (n.passNode c i)
  unfold Net.passNode
  have h1 := Pres2.foldl (List.range n.nodes.length) (fun net j => net.claim c i j) (fun j => claim_pres2 c i j) n
  exact h1.trans (Pres2.foldl _ (fun net k => net.deliver c i k) (fun k => deliver_pres2 c i k) _)

/-- a fold passes through the step of any of its elements: before it the accumulator is a later
stage of the start, after it the end is a later stage of the step's result -/
theorem foldl_through {c : SCfg} {α} (f : Net → α → Net) (hf : ∀ a, Pres2 c (fun n => f n a))
    (l : List α) (a : α) (ha : a ∈ l) (b : Net) :
    ∃ b1, Later2 c b b1 ∧ Later2 c (f b1 a) (l.foldl f b) := by
  induction l generalizing b with
  | nil => cases ha
  | cons x l ih =>
    simp only [List.foldl]
    rcases List.mem_cons.1 ha with h | h
    · subst h
      exact ⟨b, Later2.refl c b, Pres2.foldl l f hf (f b a)⟩
    · obtain ⟨b1, h1, h2⟩ := ih h (f b x)
      exact ⟨b1, (hf x b).trans h1, h2⟩

theorem pass_pres2 (c : SCfg) : Pres2 c (fun n => n.pass c) := by
  intro n
  show Later2 c n (n.pass c)
  unfold Net.pass
  exact Pres2.foldl _ (fun net i => net.passNode c i) (fun i => passNode_pres2 c i) n

/-- one vote input at a live node that tracks the round and holds no conflicting vote: recorded -/
theorem step_vote_records (c : Cfg) (s : NodeState) (v : Vote) (peer : Peer) (hw : HVS.WF c s.votes)
    (hv : v.wellSigned c) (hlive : s.halted = false ∧ s.decided = none)
    (ht : (s.votes.getVoteSet (v.round : Int) v.typ).isSome = true)
    (ho : s.votes.only (v.round : Int) v.typ v.bid v.val) :
    (Cons.step c s (.vote v peer)).votes.has (v.round : Int) v.typ v.bid v.val := by
  have hrec := HVS.addVote_records hw v peer hv ht ho
  have hl : ¬ (s.halted = true ∨ s.decided.isSome = true) := by rw [hlive.1, hlive.2]; simp
  have e : Cons.step c s (.vote v peer) = drain c drainFuel (Cons.addVote c s v peer) := by
    unfold Cons.step; simp only [hl, if_false]; rfl
  rw [e]
  have h2 : HExt c (fun _ _ _ => True) (s.votes.addVote c v peer).1 (Cons.addVote c s v peer).votes := by
    unfold Cons.addVote
    dsimp only
    split
    · exact HExt.refl c _ _
    · split
      · exact afterPrevote_X _ (HExt.refl c _ _)
      · exact afterPrecommit_X _ (HExt.refl c _ _)
  exact (drain_XT c _ _ _ h2).has hrec

theorem getVoteSet_isSome_of_rounds (h h' : HVS) (e : h.sets.map (·.1) = h'.sets.map (·.1)) (r : Int) (t : VType) :
    (h.getVoteSet r t).isSome = (h'.getVoteSet r t).isSome := by
  have key : ∀ g : HVS, (g.getVoteSet r t).isSome = (g.sets.map (·.1)).any (· = r) := by
    intro g
    unfold HVS.getVoteSet HVS.getRound
    rw [Option.isSome_map, ← alookup_any, List.any_map]
    rfl
  rw [key h, key h', e]

theorem nodeSig_rounds (nd : Node) : (nodeSig nd).sets.map (·.round) = nd.s.votes.sets.map (·.1) := by
  simp [nodeSig, List.map_map, Function.comp_def]

theorem list_append_length_eq {α} {l e : List α} (h : (l ++ e).length = l.length) : e = [] := by
  rw [List.length_append] at h
  exact List.eq_nil_of_length_eq_zero (by omega)

/-- **a gossip pass that changes nothing has recorded every logged vote** at every node that can
take it -/
theorem pass_records_votes (c : SCfg) (n0 : Net) (hsig : (n0.pass c).sig = n0.sig)
    (hwf : AllNodes (fun idx s => HVS.WF (nodeCfg c.cfg idx) s.votes) n0)
    (i k : Nat) (nd : Node) (v : Vote)
    (hi : (n0.pass c).nodes[i]? = some nd) (hk : (n0.pass c).log[k]? = some (.vote v))
    (hv : v.wellSigned (nodeCfg c.cfg nd.idx)) (hnot : v.val ≠ nd.idx)
    (hlive : nd.s.halted = false ∧ nd.s.decided = none)
    (ht : (nd.s.votes.getVoteSet (v.round : Int) v.typ).isSome = true)
    (ho : nd.s.votes.only (v.round : Int) v.typ v.bid v.val) :
    nd.s.votes.has (v.round : Int) v.typ v.bid v.val := by
  have hL := pass_pres2 c n0
  have hL' : Later2 c n0 (n0.pass c) := hL
  -- the log is constant during the pass
  have hlen : (n0.pass c).log.length = n0.log.length := congrArg NetSig.logLen hsig
  have hnodes : (n0.pass c).nodes.map nodeSig = n0.nodes.map nodeSig := congrArg NetSig.nodes hsig
  have hklt : k < n0.log.length := by
    rcases Nat.lt_or_ge k (n0.pass c).log.length with h | h
    · omega
    · rw [List.getElem?_eq_none h] at hk; cases hk
  have hilt : i < n0.nodes.length := by
    rcases Nat.lt_or_ge i (n0.pass c).nodes.length with h | h
    · rw [← hL'.2.1]; exact h
    · rw [List.getElem?_eq_none h] at hi; cases hi
  -- any net between n0 and the end of the pass has the same log
  have hlogmid : ∀ m : Net, Later2 c n0 m → Later2 c m (n0.pass c) → m.log = n0.log := by
    intro m h1 h2
    obtain ⟨e1, he1⟩ := h1.1
    obtain ⟨e2, he2⟩ := h2.1
    have : ((n0.log ++ e1) ++ e2).length = n0.log.length := by rw [← he1, ← he2]; exact hlen
    rw [List.append_assoc] at this
    have := list_append_length_eq this
    have he1' : e1 = [] := (List.append_eq_nil_iff.1 this).1
    rw [he1, he1', List.append_nil]
  -- the pass goes through node i …
  have hpass : n0.pass c = (List.range n0.nodes.length).foldl (fun net i => net.passNode c i) n0 := rfl
  obtain ⟨b1, hb1, hb1'⟩ := foldl_through (c := c) (fun net i => net.passNode c i) (fun i => passNode_pres2 c i)
    (List.range n0.nodes.length) i (List.mem_range.2 hilt) n0
  rw [← hpass] at hb1'
  -- … and inside it through the delivery of log entry k
  let bc : Net := (List.range b1.nodes.length).foldl (fun net j => net.claim c i j) b1
  have hbc : Later2 c b1 bc :=
    Pres2.foldl (List.range b1.nodes.length) (fun net j => net.claim c i j) (fun j => claim_pres2 c i j) b1
  have hpn : b1.passNode c i = (List.range bc.log.length).foldl (fun net k => net.deliver c i k) bc := rfl
  have hbcEnd : Later2 c bc (n0.pass c) := by
    refine Later2.trans ?_ hb1'
    rw [hpn]
    exact Pres2.foldl _ (fun net k => net.deliver c i k) (fun k => deliver_pres2 c i k) bc
  have hbclog : bc.log = n0.log := hlogmid bc (hb1.trans hbc) hbcEnd
  obtain ⟨b2, hb2, hb2'⟩ := foldl_through (c := c) (fun net k => net.deliver c i k) (fun k => deliver_pres2 c i k)
    (List.range bc.log.length) k (List.mem_range.2 (by rw [hbclog]; exact hklt)) bc
  rw [← hpn] at hb2'
  have h02 : Later2 c n0 b2 := (hb1.trans hbc).trans hb2
  have h3End : Later2 c (b2.deliver c i k) (n0.pass c) := hb2'.trans hb1'
  have h2End : Later2 c b2 (n0.pass c) := (deliver_pres2 c i k b2).trans h3End
  have hb2log : b2.log = n0.log := hlogmid b2 h02 h2End
  -- the nodes at position i
  obtain ⟨nd0, hnd0⟩ : ∃ y, n0.nodes[i]? = some y := ⟨n0.nodes[i], List.getElem?_eq_getElem hilt⟩
  obtain ⟨nd2, hnd2⟩ := getElem?_some_of_length_eq h02.2.1 hnd0
  have hl02 : NodeLater c nd0 nd2 := h02.2.2 i nd0 nd2 hnd0 hnd2
  have hl2E : NodeLater c nd2 nd := h2End.2.2 i nd2 nd hnd2 hi
  have hidx2 : nd2.idx = nd.idx := hl2E.idx.symm
  have hidx0 : nd0.idx = nd.idx := by rw [← hl02.idx, hidx2]
  -- the delivery is an input of node i
  have hk2 : b2.log[k]? = some (.vote v) := by
    rw [hb2log]
    have : (n0.pass c).log = n0.log := hlogmid _ hL' (Later2.refl c _)
    rw [← this]; exact hk
  have hdel : b2.deliver c i k = b2.input c i (.vote v (1 + v.val)) := by
    unfold Net.deliver
    rw [hnd2, hk2]
    have : (Msg.vote v).own nd2.idx = false := by
      simp [Msg.own, Msg.signer, hidx2, hnot]
    simp [this, Msg.toInput]
  obtain ⟨nd3, hnd3, hidx3, hs3⟩ := input_node c b2 i (.vote v (1 + v.val)) nd2 hnd2
  rw [← hdel] at hnd3
  have hl3E : NodeLater c nd3 nd := h3End.2.2 i nd3 nd hnd3 hi
  -- conditions at nd2, from the conditions at the end
  have hlive2 : nd2.s.halted = false ∧ nd2.s.decided = none := by
    constructor
    · cases h : nd2.s.halted with
      | false => rfl
      | true => have := hl2E.halted h; rw [hlive.1] at this; cases this
    · cases h : nd2.s.decided with
      | none => rfl
      | some d => have := hl2E.decided (by rw [h]; rfl); rw [hlive.2] at this; cases this
  have hext2E : HExt (nodeCfg c.cfg nd.idx) (fun _ _ _ => True) nd2.s.votes nd.s.votes := by
    have := hl2E.ext; rw [hidx2] at this; exact this
  have hext02 : HExt (nodeCfg c.cfg nd.idx) (fun _ _ _ => True) nd0.s.votes nd2.s.votes := by
    have := hl02.ext; rw [hidx0] at this; exact this
  have ho2 : nd2.s.votes.only (v.round : Int) v.typ v.bid v.val := by
    intro vs2 hg2 k' hk'
    obtain ⟨vs, hg, hh⟩ := hext2E.has (⟨vs2, hg2, hk'⟩ : nd2.s.votes.has (v.round : Int) v.typ k' v.val)
    exact ho vs hg k' hh
  have ht0 : (nd0.s.votes.getVoteSet (v.round : Int) v.typ).isSome = true := by
    have hsigi : nodeSig nd = nodeSig nd0 := by
      have h1 : ((n0.pass c).nodes.map nodeSig)[i]? = some (nodeSig nd) := by
        rw [List.getElem?_map, hi]; rfl
      have h2 : (n0.nodes.map nodeSig)[i]? = some (nodeSig nd0) := by
        rw [List.getElem?_map, hnd0]; rfl
      rw [hnodes, h2] at h1
      exact (Option.some.inj h1).symm
    have hr : nd.s.votes.sets.map (·.1) = nd0.s.votes.sets.map (·.1) := by
      rw [← nodeSig_rounds nd, ← nodeSig_rounds nd0, hsigi]
    rw [← getVoteSet_isSome_of_rounds _ _ hr]; exact ht
  have ht2 : (nd2.s.votes.getVoteSet (v.round : Int) v.typ).isSome = true := hext02.tracked ht0
  have hwf0 : HVS.WF (nodeCfg c.cfg nd.idx) nd0.s.votes := by
    have := hwf nd0 (List.mem_of_getElem? hnd0); rw [hidx0] at this; exact this
  have hwf2 : HVS.WF (nodeCfg c.cfg nd.idx) nd2.s.votes := hext02.wf hwf0
  -- recorded by the step, kept until the end
  have hrec3 : nd3.s.votes.has (v.round : Int) v.typ v.bid v.val := by
    rw [hs3, hidx2]
    exact step_vote_records _ _ v _ hwf2 hv hlive2 ht2 ho2
  have hext3E : HExt (nodeCfg c.cfg nd.idx) (fun _ _ _ => True) nd3.s.votes nd.s.votes := by
    have := hl3E.ext; rw [hidx3, hidx2] at this; exact this
  exact hext3E.has hrec3

/-- the `k`-th iterate of the gossip pass -/
def passIter (c : SCfg) : Nat → Net → Net
  | 0, n => n
  | k + 1, n => passIter c k (n.pass c)

/-- the closure loop ended because a pass changed nothing (not because the fuel ran out): the result
is one more pass over some iterate `n0` of the pass on `net`, and that pass left the signature alone -/
def Net.closureConverged (c : SCfg) (net : Net) : Prop :=
  ∃ k, net.closure c = { (passIter c k net).pass c with closed := true } ∧
    ((passIter c k net).pass c).sig = (passIter c k net).sig

theorem passIter_keeps {P : Nat → NodeState → Prop} (c : SCfg)
    (hstep : ∀ idx s inp, P idx s → P idx (Cons.step (nodeCfg c.cfg idx) s inp)) (k : Nat) :
    Keeps P (passIter c k) := by
  induction k with
  | zero => intro n hn; exact hn
  | succ k ih =>
    intro n hn
    show AllNodes P (passIter c k (n.pass c))
    apply ih
    have hpassNode : ∀ i, Keeps P (fun n => n.passNode c i) := by
      intro i n hn
      show AllNodes P (n.passNode c i)
      unfold Net.passNode
      have h1 := Keeps.foldl (List.range n.nodes.length) (fun net j => net.claim c i j)
        (fun j => claim_keeps c hstep i j) n hn
      exact Keeps.foldl _ (fun net k => net.deliver c i k) (fun k => deliver_keeps c hstep i k) _ h1
    show AllNodes P (n.pass c)
    unfold Net.pass
    exact Keeps.foldl _ (fun net i => net.passNode c i) hpassNode n hn


/-- the executable test for convergence: `closureCount` (what the driver prints for every closure of
every generated run, and the Go side counts independently on the real nodes) -/
theorem closureCount_pos (c : SCfg) : ∀ (fuel : Nat) (net : Net) (j : Nat),
    closureCount c fuel net = some j → 0 < j := by
  intro fuel
  induction fuel with
  | zero => intro net j h; simp [closureCount] at h
  | succ f ih =>
    intro net j h
    unfold closureCount at h
    dsimp only at h
    split at h
    · cases h; omega
    · cases hc : closureCount c f (net.pass c) with
      | none => rw [hc] at h; simp at h
      | some i => rw [hc] at h; simp at h; omega

theorem closureLoop_of_count (c : SCfg) : ∀ (fuel : Nat) (net : Net) (k : Nat),
    closureCount c fuel net = some (k + 1) →
    closureLoop c fuel net = (passIter c k net).pass c ∧
      ((passIter c k net).pass c).sig = (passIter c k net).sig := by
  intro fuel
  induction fuel with
  | zero => intro net k h; simp [closureCount] at h
  | succ f ih =>
    intro net k h
    unfold closureCount at h
    unfold closureLoop
    dsimp only at h ⊢
    by_cases hs : (net.pass c).sig = net.sig
    · simp only [hs, if_true, Option.some.injEq] at h ⊢
      have : k = 0 := by omega
      subst this
      exact ⟨rfl, hs⟩
    · simp only [hs, if_false] at h ⊢
      cases hc : closureCount c f (net.pass c) with
      | none => rw [hc] at h; simp at h
      | some j =>
        rw [hc] at h
        simp only [Option.map_some, Option.some.injEq] at h
        cases j with
        | zero => exact absurd (closureCount_pos c f _ 0 hc) (by omega)
        | succ j =>
          have hk : k = j + 1 := by omega
          subst hk
          exact ih (net.pass c) j hc

theorem closureConverged_of_count (c : SCfg) (net : Net) (k : Nat)
    (h : closureCount c closureFuel net = some (k + 1)) : net.closureConverged c := by
  obtain ⟨h1, h2⟩ := closureLoop_of_count c closureFuel net k h
  exact ⟨k, by unfold Net.closure; rw [h1], h2⟩

/-- **closure records every logged vote** at every node that can take it: if the closure loop ended
at a fixpoint, then at every node that is live, tracks the vote's round and holds no conflicting vote
of that validator, every logged vote of another validator is recorded. -/
theorem closure_records_votes (c : SCfg) (net : Net) (hconv : net.closureConverged c)
    (hwf : AllNodes (fun idx s => HVS.WF (nodeCfg c.cfg idx) s.votes) net)
    (i k : Nat) (nd : Node) (v : Vote)
    (hi : (net.closure c).nodes[i]? = some nd) (hk : (net.closure c).log[k]? = some (.vote v))
    (hv : v.wellSigned (nodeCfg c.cfg nd.idx)) (hnot : v.val ≠ nd.idx)
    (hlive : nd.s.halted = false ∧ nd.s.decided = none)
    (ht : (nd.s.votes.getVoteSet (v.round : Int) v.typ).isSome = true)
    (ho : nd.s.votes.only (v.round : Int) v.typ v.bid v.val) :
    nd.s.votes.has (v.round : Int) v.typ v.bid v.val := by
  obtain ⟨j, hc, hsig⟩ := hconv
  rw [hc] at hi hk
  have hwf0 : AllNodes (fun idx s => HVS.WF (nodeCfg c.cfg idx) s.votes) (passIter c j net) :=
    passIter_keeps c (fun idx s inp h => (step_XT _ s inp).wf h) j net hwf
  exact pass_records_votes c (passIter c j net) hsig hwf0 i k nd v hi hk hv hnot hlive ht ho

/-- **after a converged closure a majority that exists in the log is recorded at every node that can
take it**: validators `Q` (distinct, carrying the quorum) have their votes of type `t`, round `r`,
value `b` in the log (the node's own one, if it is among them, is recorded at the node); the node is
live, tracks the round and holds no conflicting vote of any of them. Then the node's vote set of
(r, t) has the recorded +2/3 majority `b`. -/
theorem closure_spreads_majority (c : SCfg) (net : Net) (hconv : net.closureConverged c)
    (hwf : AllNodes (fun idx s => HVS.WF (nodeCfg c.cfg idx) s.votes) net)
    (i : Nat) (nd : Node) (hi : (net.closure c).nodes[i]? = some nd)
    (r : Nat) (t : VType) (b : Bid) (Q : List Nat) (hn : Q.Nodup)
    (hlt : ∀ u ∈ Q, u < c.cfg.n)
    (hlog : ∀ u ∈ Q, u ≠ nd.idx → ∃ k : Nat, (net.closure c).log[k]? = some (Msg.vote ⟨t, r, b, u, true, u, u⟩))
    (hself : nd.idx ∈ Q → nd.s.votes.has (r : Int) t b nd.idx)
    (hlive : nd.s.halted = false ∧ nd.s.decided = none)
    (ht : (nd.s.votes.getVoteSet (r : Int) t).isSome = true)
    (honly : ∀ u ∈ Q, nd.s.votes.only (r : Int) t b u)
    (hp : (nodeCfg c.cfg nd.idx).quorum ≤ (Q.map (nodeCfg c.cfg nd.idx).power).sum) :
    maj23Of (nd.s.votes.getVoteSet (r : Int) t) = some b := by
  -- the node's vote sets are well-formed (kept by the closure)
  have hwfc : AllNodes (fun idx s => HVS.WF (nodeCfg c.cfg idx) s.votes) (net.closure c) :=
    closure_keeps c (fun idx s inp h => (step_XT _ s inp).wf h) net hwf
  have hwfn : HVS.WF (nodeCfg c.cfg nd.idx) nd.s.votes := hwfc nd (List.mem_of_getElem? hi)
  have hhas : ∀ u ∈ Q, nd.s.votes.has (r : Int) t b u := by
    intro u hu
    by_cases hs : u = nd.idx
    · rw [hs]; exact hself (by rw [← hs]; exact hu)
    · obtain ⟨k, hk⟩ := hlog u hu hs
      exact closure_records_votes c net hconv hwf i k nd ⟨t, r, b, u, true, u, u⟩ hi hk
        ⟨hlt u hu, rfl, rfl, rfl⟩ hs hlive ht (honly u hu)
  cases hg : nd.s.votes.getVoteSet (r : Int) t with
  | none => rw [hg] at ht; cases ht
  | some vs =>
    show maj23Of (some vs) = some b
    simp only [maj23Of, Option.bind]
    apply VoteSet.quorum_majority (hwfn _ _ vs hg) b Q hn _ hp
    intro u hu
    obtain ⟨vs', hg', hh⟩ := hhas u hu
    rw [hg] at hg'; cases hg'
    exact ⟨hlt u hu, hh, honly u hu vs hg⟩


end Tmv.Sync
