import Tmv.Lemmas.PipelineInv
/-! Soundness of the incarnation plan (C05): whatever fail index kills an incarnation, the disk it
leaves is one of the disks the pipeline invariant covers. -/
namespace Tmv.Pipeline

/-- `Q` holds of the disk at every point where an incarnation can die: before every effect, at
every fail point, at the clean stop -/
def PrefItems (Q : Disk → Prop) (c : Chain) : Disk → List Item → Prop
  | d, [] => Q d
  | d, .fail :: r => PrefItems Q c d r
  | d, .eff e :: r => Q d ∧ PrefItems Q c (applyEff d e) r
  | d, .prune h :: r => Q d ∧ PrefItems Q c (applyEffs d (pruneEffs c d h)) r

/-- the disk after all items -/
def endItems (c : Chain) : Disk → List Item → Disk
  | d, [] => d
  | d, .fail :: r => endItems c d r
  | d, .eff e :: r => endItems c (applyEff d e) r
  | d, .prune h :: r => endItems c (applyEffs d (pruneEffs c d h)) r

theorem PrefItems.head {Q c d items} (h : PrefItems Q c d items) : Q d := by
  induction items generalizing d with
  | nil => exact h
  | cons it r ih =>
    cases it with
    | fail => exact ih h
    | eff e => exact h.1
    | prune hh => exact h.1

theorem PrefItems.append {Q c d A B} (h1 : PrefItems Q c d A) (h2 : PrefItems Q c (endItems c d A) B) :
    PrefItems Q c d (A ++ B) := by
  induction A generalizing d with
  | nil => exact h2
  | cons it r ih =>
    cases it with
    | fail => exact ih h1 h2
    | eff e => exact ⟨h1.1, ih h1.2 h2⟩
    | prune hh => exact ⟨h1.1, ih h1.2 h2⟩

theorem endItems_append (c : Chain) (d : Disk) (A B : List Item) :
    endItems c d (A ++ B) = endItems c (endItems c d A) B := by
  induction A generalizing d with
  | nil => rfl
  | cons it r ih => cases it <;> exact ih _

/-- wherever `runItems` stops, `Q` holds of the disk it returns -/
theorem runItems_sound {Q c exitH} :
    ∀ (items : List Item) (d : Disk) (f : Option Nat) (nHs done : Nat), PrefItems Q c d items →
      Q (runItems c exitH items d f nHs done).1
  | [], d, _, _, _, h => h
  | .fail :: rest, d, some 0, _, _, h => PrefItems.head (items := rest) h
  | .fail :: rest, d, some (i + 1), nHs, done, h => runItems_sound rest d (some i) nHs (done + 1) h
  | .fail :: rest, d, none, nHs, done, h => runItems_sound rest d none nHs (done + 1) h
  | .prune hh :: rest, d, f, nHs, done, h => by
    simp only [runItems]
    exact runItems_sound rest _ f nHs (done + 1) h.2
  | .eff e :: rest, d, f, nHs, done, h => by
    simp only [runItems]
    split
    · exact h.1
    · exact runItems_sound rest _ f nHs (done + 1) h.2

/-! ## items without prune steps are effect lists with fail points in between -/

def strip : List Item → List Eff
  | [] => []
  | .eff e :: r => e :: strip r
  | _ :: r => strip r

def pruneFree : List Item → Bool
  | [] => true
  | .prune _ :: _ => false
  | _ :: r => pruneFree r

theorem prefItems_of_prefAll {Q c} : ∀ (items : List Item) (d : Disk), pruneFree items = true →
    PrefAll Q d (strip items) → PrefItems Q c d items
  | [], _, _, h => h
  | .fail :: r, d, hp, h => prefItems_of_prefAll r d hp h
  | .eff e :: r, d, hp, h => ⟨h.1, prefItems_of_prefAll r _ hp h.2⟩
  | .prune _ :: _, _, hp, _ => by simp [pruneFree] at hp

theorem endItems_strip {c} : ∀ (items : List Item) (d : Disk), pruneFree items = true →
    endItems c d items = applyEffs d (strip items)
  | [], _, _ => rfl
  | .fail :: r, d, hp => endItems_strip r d hp
  | .eff e :: r, d, hp => by
    simp only [endItems, strip, applyEffs, List.foldl_cons]
    exact endItems_strip r _ hp
  | .prune _ :: _, _, hp => by simp [pruneFree] at hp

theorem strip_append (A B : List Item) : strip (A ++ B) = strip A ++ strip B := by
  induction A with
  | nil => rfl
  | cons it r ih => cases it <;> simp [strip, ih]

theorem pruneFree_append (A B : List Item) : pruneFree (A ++ B) = (pruneFree A && pruneFree B) := by
  induction A with
  | nil => simp [pruneFree]
  | cons it r ih => cases it <;> simp [pruneFree, ih]

theorem strip_map_eff (es : List Eff) : strip (es.map .eff) = es := by
  induction es with
  | nil => rfl
  | cons e r ih => simp [strip, ih]

theorem pruneFree_map_eff (es : List Eff) : pruneFree (es.map .eff) = true := by
  induction es with
  | nil => rfl
  | cons e r ih => simpa [pruneFree] using ih

theorem strip_flatMap (g : Eff → List Item) (hg : ∀ e, strip (g e) = [e] ∧ pruneFree (g e) = true) (es : List Eff) :
    strip (es.flatMap g) = es ∧ pruneFree (es.flatMap g) = true := by
  induction es with
  | nil => exact ⟨rfl, rfl⟩
  | cons e r ih =>
    simp only [List.flatMap_cons, strip_append, pruneFree_append, ih.1, ih.2, (hg e).1, (hg e).2]
    simp

theorem strip_weaveReal (es : List Eff) : strip (weaveReal es) = es ∧ pruneFree (weaveReal es) = true :=
  strip_flatMap realItems (by intro e; cases e <;> simp [realItems, strip, pruneFree]) es

theorem strip_weaveMock (es : List Eff) : strip (weaveMock es) = es ∧ pruneFree (weaveMock es) = true := by
  have := strip_flatMap mockItems (by intro e; cases e <;> simp [mockItems, strip, pruneFree]) es
  simp only [weaveMock, List.singleton_append, strip, pruneFree]
  exact this

theorem strip_hsTail (r : HsResult) (es : List Eff) : strip (hsTail r es) = es ∧ pruneFree (hsTail r es) = true := by
  unfold hsTail
  cases r.branch <;> first | exact strip_weaveMock es | exact strip_weaveReal es

/-- the start plan is the start program with fail points in between -/
theorem strip_planStart (c : Chain) (d : Disk) :
    strip (planStart c d) = startEffs c d ∧ pruneFree (planStart c d) = true := by
  unfold planStart startEffs
  by_cases hok : (handshake c d).outcome = .ok
  · simp only [hok, if_true]
    have ht := strip_hsTail (handshake c d) ((handshake c d).effs.drop (hsSplit c d (handshake c d)))
    simp only [strip_append, pruneFree_append, strip_map_eff, pruneFree_map_eff, ht.1, ht.2, List.take_append_drop,
      Bool.true_and]
    by_cases hm : (applyEffs d (handshake c d).effs).walEnd ≠ (applyEffs d (handshake c d).effs).stateH
    · simp [hm, strip, pruneFree]
    · simp [hm, strip, pruneFree]
  · simp only [hok, if_false]
    exact ⟨strip_map_eff _, pruneFree_map_eff _⟩

/-! ## the heights an incarnation decides -/

/-- dying here leaves a disk the invariant covers, and the first block is only stored after genesis -/
def PQ (c : Chain) (d : Disk) : Prop := CrashOK c d ∧ GenOK d

theorem DInv.pvSign {c : Chain} {d : Disk} {k st a : Nat} {p : Option Pending} (h : DInv c d k st a p)
    (hh v : Nat) : DInv c (applyEff d (.pvSign hh v)) k st a p := by
  simp only [applyEff]
  split
  · exact ⟨h.stateH, h.stateHash, h.storeH, h.app, h.pr⟩
  · exact ⟨h.stateH, h.stateHash, h.storeH, h.app, h.pr⟩

theorem strip_planApplyReal (c : Chain) (h : Nat) :
    strip (planApplyReal c h) = applyBlockReal c h ∧ pruneFree (planApplyReal c h) = true := by
  simp only [planApplyReal, applyBlockReal, strip_append, pruneFree_append, strip_map_eff, pruneFree_map_eff]
  simp [strip, pruneFree]

theorem PrefAll.pq {c : Chain} {d : Disk} {es : List Eff} (h : PrefAll (CrashOK c) d es)
    (hgs : d.genesisSaved = true) : PrefAll (PQ c) d es :=
  PrefAll.and h (PrefAll.gs hgs)

theorem pq_of {c : Chain} {d : Disk} (h : CrashOK c d) (hgs : d.genesisSaved = true) : PQ c d :=
  ⟨h, fun _ => hgs⟩

/-- the commit part of a height on a synced node (whatever happened to the votes) -/
theorem fin_run {c : Chain} {d : Disk} {m st : Nat} (h : Good c d m) (hgs : d.genesisSaved = true)
    (hst : st < ht c (m + 1)) :
    PrefItems (PQ c) c d (finItems c st (ht c (m + 1))) ∧ Good c (endItems c d (finItems c st (ht c (m + 1)))) (m + 1) ∧
      (endItems c d (finItems c st (ht c (m + 1)))).genesisSaved = true := by
  let H := ht c (m + 1)
  let d1 := applyEff d (.saveBlock H)
  have h1 : DInv c d1 m (m + 1) m none := by
    refine ⟨h.stateH, h.stateHash, rfl, h.app, ?_, h.pr.2.1, h.pr.2.2⟩
    show (if d.storeBase = 0 then H else d.storeBase) ≤ ht c (m + 1)
    split
    · exact Nat.le_refl _
    · exact h.pr.1
  let d2 := applyEff d1 (.walEnd H)
  have h2 : DInv c d2 m (m + 1) m none := ⟨h1.stateH, h1.stateHash, h1.storeH, h1.app, h1.pr⟩
  have g1 : d1.genesisSaved = true := hgs
  have g2 : d2.genesisSaved = true := hgs
  have hr := applyBlockReal_run h2
  let d3 := applyEffs d2 (applyBlockReal c H)
  have g3 : d3.genesisSaved = true := applyEffs_gs g2
  have hp := prune_run (c := c) (d0 := d3) (d := d3) (m := m + 1) hr.2
  let d4 := applyEffs d3 (pruneEffs c d3 H)
  have g4 : d4.genesisSaved = true := applyEffs_gs g3
  have sa := strip_planApplyReal c H
  have hA : PrefItems (PQ c) c d2 (planApplyReal c H) :=
    prefItems_of_prefAll _ _ sa.2 (by rw [sa.1]; exact PrefAll.pq hr.1 g2)
  have eA : endItems c d2 (planApplyReal c H) = d3 := by rw [endItems_strip _ _ sa.2, sa.1]
  have hfin : finItems c st (ht c (m + 1)) = [.fail, .eff (.saveBlock H), .fail, .eff (.walEnd H), .fail] ++ planApplyReal c H ++ [.fail, .prune H, .fail] := by
    simp [finItems, hst, H]
  rw [hfin]
  have e1 : endItems c d [.fail, .eff (.saveBlock H), .fail, .eff (.walEnd H), .fail] = d2 := rfl
  refine ⟨?_, ?_, ?_⟩
  · refine PrefItems.append (PrefItems.append ?_ (by rw [e1]; exact hA)) ?_
    · exact ⟨pq_of (crashOK_same h) hgs, pq_of (crashOK_store h1) g1, pq_of (crashOK_store h2) g2⟩
    · rw [endItems_append, e1, eA]
      exact ⟨pq_of (crashOK_same hr.2) g3, pq_of (crashOK_same hp.2) g4⟩
  · rw [endItems_append, endItems_append, e1, eA]; exact hp.2
  · rw [endItems_append, endItems_append, e1, eA]; exact g4

/-- the votes of a height leave a synced node synced -/
theorem votes_run {c : Chain} {d : Disk} {m : Nat} (w s hh : Nat) (h : Good c d m) (hgs : d.genesisSaved = true) :
    PrefItems (PQ c) c d (voteItems w s hh) ∧ Good c (endItems c d (voteItems w s hh)) m ∧
      (endItems c d (voteItems w s hh)).genesisSaved = true := by
  have sv : ∀ (x : Disk) (v : Nat), Good c x m → x.genesisSaved = true →
      Good c (applyEff x (.signVote hh v)) m ∧ (applyEff x (.signVote hh v)).genesisSaved = true :=
    fun x v hx hg => ⟨DInv.signVote hx hh v, applyEff_gs hg⟩
  have pv : ∀ (x : Disk) (v : Nat), Good c x m → x.genesisSaved = true →
      Good c (applyEff x (.pvSign hh v)) m ∧ (applyEff x (.pvSign hh v)).genesisSaved = true :=
    fun x v hx hg => ⟨DInv.pvSign hx hh v, applyEff_gs hg⟩
  unfold voteItems
  split
  · have v1 := sv d 1 h hgs
    have v2 := sv _ 2 v1.1 v1.2
    exact ⟨⟨pq_of (crashOK_same h) hgs, pq_of (crashOK_same v1.1) v1.2, pq_of (crashOK_same v2.1) v2.2⟩, v2.1, v2.2⟩
  · split
    · have v0 := pv d 2 h hgs
      have v1 := sv _ 1 v0.1 v0.2
      have v2 := sv _ 2 v1.1 v1.2
      exact ⟨⟨pq_of (crashOK_same h) hgs, pq_of (crashOK_same v0.1) v0.2, pq_of (crashOK_same v1.1) v1.2,
        pq_of (crashOK_same v2.1) v2.2⟩, v2.1, v2.2⟩
    · have v0 := pv d 2 h hgs
      have v2 := sv _ 2 v0.1 v0.2
      exact ⟨⟨pq_of (crashOK_same h) hgs, pq_of (crashOK_same v0.1) v0.2, pq_of (crashOK_same v2.1) v2.2⟩, v2.1, v2.2⟩

/-- one height of the plan on a synced node, for every combination of replayed / signed votes -/
theorem height_run {c : Chain} {d : Disk} {m st : Nat} (w s : Nat) (h : Good c d m) (hgs : d.genesisSaved = true)
    (hst : st < ht c (m + 1)) :
    PrefItems (PQ c) c d (planHeight c st w s (ht c (m + 1))) ∧
      Good c (endItems c d (planHeight c st w s (ht c (m + 1)))) (m + 1) ∧
      (endItems c d (planHeight c st w s (ht c (m + 1)))).genesisSaved = true := by
  unfold planHeight
  split
  · have hf := fin_run (st := st) h hgs hst
    refine ⟨PrefItems.append hf.1 (pq_of (crashOK_same hf.2.1) hf.2.2), ?_, ?_⟩
    · rw [endItems_append]; exact hf.2.1
    · rw [endItems_append]; exact hf.2.2
  · have hv := votes_run w s (ht c (m + 1)) h hgs
    have hf := fin_run (st := st) hv.2.1 hv.2.2 hst
    refine ⟨PrefItems.append hv.1 hf.1, ?_, ?_⟩
    · rw [endItems_append]; exact hf.2.1
    · rw [endItems_append]; exact hf.2.2

theorem heights_run {c : Chain} : ∀ (n m : Nat) (d : Disk) (st w s : Nat), Good c d m → d.genesisSaved = true →
    st < ht c (m + 1) → PrefItems (PQ c) c d (planHeights c st w s (ht c (m + 1)) n)
  | 0, _, _, _, _, _, h, hgs, _ => pq_of (crashOK_same h) hgs
  | n + 1, m, d, st, w, s, h, hgs, hst => by
    have hh := height_run w s h hgs hst
    simp only [planHeights, nxt_ht]
    exact PrefItems.append hh.1 (heights_run n (m + 1) _ 0 0 0 hh.2.1 hh.2.2 (ht_pos c (m + 1)))

/-- the (re)start without the WAL side: every crash prefix of the start program is covered, the
completed start leaves a synced node with the genesis state saved -/
theorem start_run' {c : Chain} {d : Disk} (h : Inv c d) (hgen : GenOK d) :
    PrefAll (PQ c) d (startEffs c d) ∧ (∃ m, Good c (applyEffs d (startEffs c d)) m) ∧
      (applyEffs d (startEffs c d)).genesisSaved = true := by
  obtain ⟨hok, hpre, ⟨m, hg⟩, hq, hgs⟩ := handshake_run h hgen
  have hgp := PrefAll.genOK hgen (startEffs_no_saveBlock hq)
  let d' := applyEffs d (handshake c d).effs
  by_cases hm : d'.walEnd = d'.stateH
  · have : startEffs c d = (handshake c d).effs := by
      simp only [startEffs, hok, if_true]
      have : ¬ (applyEffs d (handshake c d).effs).walEnd ≠ (applyEffs d (handshake c d).effs).stateH := by
        simpa using hm
      simp [this]
    rw [this] at hgp ⊢
    exact ⟨PrefAll.and hpre hgp, ⟨m, hg⟩, hgs⟩
  · have : startEffs c d = (handshake c d).effs ++ [.walEnd d'.stateH] := by
      simp only [startEffs, hok, if_true]
      have : (applyEffs d (handshake c d).effs).walEnd ≠ (applyEffs d (handshake c d).effs).stateH := hm
      simp [this, d']
    rw [this] at hgp ⊢
    have hg2 : Good c (applyEff d' (.walEnd d'.stateH)) m := ⟨hg.stateH, hg.stateHash, hg.storeH, hg.app, hg.pr⟩
    refine ⟨PrefAll.and (PrefAll.append hpre ⟨crashOK_same hg, crashOK_same hg2⟩) hgp, ⟨m, ?_⟩, ?_⟩
    · rw [applyEffs_append]; exact hg2
    · rw [applyEffs_append]; exact applyEffs_gs hgs

theorem incarnation_post (c : Chain) (d : Disk) (f : Option Nat) (exitH mh : Nat) :
    (incarnation c d f exitH mh).2.1 = none ∨
      (incarnation c d f exitH mh).2.1 = some (applyEffs d (handshake c d).effs) := by
  have key : ∀ (b : Bool) (x : Disk), postOf b x = none ∨ postOf b x = some x := by
    intro b x; cases b <;> simp [postOf]
  unfold incarnation
  dsimp only
  exact key _ _

/-- **one incarnation is sound**: whatever fail index kills it (or none), the disk it leaves is
covered by the pipeline invariant, and the disk it reports right after its handshake is synced -/
theorem incarnation_sound {c : Chain} {d : Disk} (h : Inv c d) (hgen : GenOK d) (f : Option Nat)
    (exitH mh : Nat) :
    Inv c (crash (incarnation c d f exitH mh).1) ∧ GenOK (crash (incarnation c d f exitH mh).1) ∧
      ∀ post, (incarnation c d f exitH mh).2.1 = some post → ∃ m, Good c post m := by
  obtain ⟨hpre, ⟨m, hg⟩, hgs⟩ := start_run' h hgen
  have sp := strip_planStart c d
  have hA : PrefItems (PQ c) c d (planStart c d) := prefItems_of_prefAll _ _ sp.2 (by rw [sp.1]; exact hpre)
  have eA : endItems c d (planStart c d) = applyEffs d (startEffs c d) := by rw [endItems_strip _ _ sp.2, sp.1]
  have hst : (applyEffs d (startEffs c d)).storeH < ht c (m + 1) := by rw [hg.storeH]; exact ht_lt c (by omega)
  have hh0 : nxt c (applyEffs d (startEffs c d)).stateH = ht c (m + 1) := by rw [hg.stateH, nxt_ht]
  have key : ∀ w s, PrefItems (PQ c) c d (planStart c d ++
      planHeights c (applyEffs d (startEffs c d)).storeH w s (nxt c (applyEffs d (startEffs c d)).stateH) mh) := by
    intro w s
    refine PrefItems.append hA ?_
    rw [eA, hh0]
    exact heights_run mh m _ _ w s hg hgs hst
  have hrun := fun w s => runItems_sound (Q := PQ c) (exitH := exitH) _ d f
    ((planStart c d).take ((planStart c d).length -
      (if (handshake c d).outcome = .ok ∧ (applyEffs d (handshake c d).effs).walEnd ≠ (applyEffs d (handshake c d).effs).stateH
       then 1 else 0))).length 0 (key w s)
  refine ⟨?_, ?_, ?_⟩
  · simp only [incarnation]
    exact (hrun _ _).1
  · simp only [incarnation]
    exact (hrun _ _).2
  · intro post hp
    rcases incarnation_post c d f exitH mh with e | e
    · rw [e] at hp; cases hp
    · rw [e] at hp
      cases hp
      obtain ⟨_, _, hgood, _, _⟩ := handshake_run h hgen
      exact hgood

/-- the invariant a node-stream case carries from incarnation to incarnation -/
theorem runIncs_sound {c : Chain} (exitH mh : Nat) :
    ∀ (fs : List (Option Nat)) (d : Disk), Inv c d → GenOK d →
      Inv c (runIncs c exitH mh fs d) ∧ GenOK (runIncs c exitH mh fs d)
  | [], d, h, hg => ⟨h, hg⟩
  | f :: fs, d, h, hg => by
    have hs := incarnation_sound h hg f exitH mh
    simp only [runIncs]
    split
    · exact ⟨hs.1, hs.2.1⟩
    · exact runIncs_sound exitH mh fs _ hs.1 hs.2.1

end Tmv.Pipeline
