import Tmv.Model.Cons
/-! Signer invariant of the node model: whatever inputs arrive, the signatures released through
`sign` (CheckHRS + same-HRS comparison) never conflict for one (round, step). -/
namespace Tmv.Cons

/-- the (round, signer step, payload) a released signature stands for -/
def sigKey : Output → Option (Nat × Nat × Payload)
  | .signProposal r b pol => some (r, 1, .prop b pol)
  | .signVote t r b => some (r, t.code, .vote b)
  | _ => none

/-- `k ≤ last` in the signer's lexicographic (round, step) order, with equal payload on equality -/
def Covered (k last : Nat × Nat × Payload) : Prop :=
  k.1 < last.1 ∨ (k.1 = last.1 ∧ (k.2.1 < last.2.1 ∨ (k.2.1 = last.2.1 ∧ k.2.2 = last.2.2)))

/-- invariant on (outputs, last sign state) -/
structure SInv (out : List Output) (lss : Option (Nat × Nat × Payload)) : Prop where
  bound : ∀ o ∈ out, ∀ k, sigKey o = some k → ∃ l, lss = some l ∧ Covered k l
  uniq : ∀ o₁ ∈ out, ∀ o₂ ∈ out, ∀ r cd p₁ p₂, sigKey o₁ = some (r, cd, p₁) → sigKey o₂ = some (r, cd, p₂) → p₁ = p₂

def SignInv (s : NodeState) : Prop := SInv s.out s.lss

theorem SInv.nil : SInv [] none := ⟨by simp, by simp⟩

/-- appending an output that is not a signature keeps the invariant -/
theorem SInv.push_other {out lss} (h : SInv out lss) (o : Output) (ho : sigKey o = none) :
    SInv (out ++ [o]) lss := by
  constructor
  · intro o' ho' k hk
    rcases List.mem_append.1 ho' with h1 | h1
    · exact h.bound o' h1 k hk
    · simp at h1; subst h1; simp [ho] at hk
  · intro o₁ h₁ o₂ h₂ r cd p₁ p₂ k₁ k₂
    rcases List.mem_append.1 h₁ with a | a <;> rcases List.mem_append.1 h₂ with b | b
    · exact h.uniq o₁ a o₂ b r cd p₁ p₂ k₁ k₂
    · simp at b; subst b; simp [ho] at k₂
    · simp at a; subst a; simp [ho] at k₁
    · simp at a; subst a; simp [ho] at k₁

/-- what an accepting `sign` does -/
theorem sign_some {c : Cfg} (hc : c.checkHRS = true) {s s' : NodeState} {round code : Nat} {p : Payload}
    (hs : sign c s round code p = some s') :
    (s' = s ∧ s.lss = some (round, code, p)) ∨
    (s' = { s with lss := some (round, code, p) } ∧
      (s.lss = none ∨ ∃ lr lc lp, s.lss = some (lr, lc, lp) ∧ (lr < round ∨ (lr = round ∧ lc < code)))) := by
  unfold sign at hs
  simp only [hc, Bool.not_true, Bool.false_eq_true, if_false] at hs
  split at hs
  · rename_i hl
    cases hs
    exact Or.inr ⟨rfl, Or.inl hl⟩
  · rename_i lr lc lp hl
    split at hs
    · cases hs
    · split at hs
      · split at hs
        · cases hs
        · split at hs
          · split at hs
            · cases hs
              rename_i h2 _ h4 h5
              exact Or.inl ⟨rfl, by rw [hl, h2, h4, h5]⟩
            · cases hs
          · cases hs
            rename_i h2 h3 h4
            exact Or.inr ⟨rfl, Or.inr ⟨lr, lc, lp, hl, Or.inr ⟨h2, by omega⟩⟩⟩
      · cases hs
        rename_i h1 h2
        exact Or.inr ⟨rfl, Or.inr ⟨lr, lc, lp, hl, Or.inl (by omega)⟩⟩

/-- a released signature: the output `o` stands for `(round, code, p)` and the signer accepted it -/
theorem SInv.push_signed {c : Cfg} (hc : c.checkHRS = true) {s s' : NodeState} {round code : Nat} {p : Payload}
    (h : SInv s.out s.lss) (hs : sign c s round code p = some s') (o : Output)
    (ho : sigKey o = some (round, code, p)) :
    SInv (s'.out ++ [o]) s'.lss := by
  rcases sign_some hc hs with ⟨rfl, hl⟩ | ⟨rfl, hl⟩
  · refine ⟨?_, ?_⟩
    · intro o' ho' k hk
      rcases List.mem_append.1 ho' with h1 | h1
      · exact h.bound o' h1 k hk
      · simp at h1; subst h1
        rw [ho] at hk; cases hk
        exact ⟨_, hl, by simp [Covered]⟩
    · intro o₁ h₁ o₂ h₂ r cd p₁ p₂ k₁ k₂
      have old : ∀ o' ∈ s'.out, ∀ q, sigKey o' = some (round, code, q) → q = p := by
        intro o' ho' q hq
        obtain ⟨l, hl', hcov⟩ := h.bound o' ho' _ hq
        rw [hl] at hl'; cases hl'
        simp [Covered] at hcov
        exact hcov
      rcases List.mem_append.1 h₁ with a | a <;> rcases List.mem_append.1 h₂ with b | b
      · exact h.uniq o₁ a o₂ b r cd p₁ p₂ k₁ k₂
      · simp at b; subst b; rw [ho] at k₂; cases k₂
        exact old o₁ a _ k₁
      · simp at a; subst a; rw [ho] at k₁; cases k₁
        exact (old o₂ b _ k₂).symm
      · simp at a b; subst a; subst b; rw [k₁] at k₂; cases k₂; rfl
  · have old : ∀ o' ∈ s.out, ∀ q, sigKey o' = some (round, code, q) → False := by
      intro o' ho' q hq
      obtain ⟨l, hl', hcov⟩ := h.bound o' ho' _ hq
      rcases hl with hn | ⟨lr, lc, lp, hl, hlt⟩
      · rw [hn] at hl'; cases hl'
      · rw [hl] at hl'; cases hl'
        simp only [Covered] at hcov
        omega
    refine ⟨?_, ?_⟩
    · intro o' ho' k hk
      rcases List.mem_append.1 ho' with h1 | h1
      · obtain ⟨l, hl', hcov⟩ := h.bound o' h1 k hk
        refine ⟨_, rfl, ?_⟩
        rcases hl with hn | ⟨lr, lc, lp, hl, hlt⟩
        · rw [hn] at hl'; cases hl'
        · rw [hl] at hl'; cases hl'
          simp only [Covered] at hcov ⊢
          omega
      · simp at h1; subst h1
        rw [ho] at hk; cases hk
        exact ⟨_, rfl, by simp [Covered]⟩
    · intro o₁ h₁ o₂ h₂ r cd p₁ p₂ k₁ k₂
      rcases List.mem_append.1 h₁ with a | a <;> rcases List.mem_append.1 h₂ with b | b
      · exact h.uniq o₁ a o₂ b r cd p₁ p₂ k₁ k₂
      · simp at b; subst b; rw [ho] at k₂; cases k₂
        exact (old o₁ a _ k₁).elim
      · simp at a; subst a; rw [ho] at k₁; cases k₁
        exact (old o₂ b _ k₂).elim
      · simp at a b; subst a; subst b; rw [k₁] at k₂; cases k₂; rfl

theorem SInv.of_append {out lss} {o : Output} (h : SInv (out ++ [o]) lss) : SInv out lss :=
  ⟨fun o' ho' k hk => h.bound o' (List.mem_append_left _ ho') k hk,
   fun o₁ h₁ o₂ h₂ => h.uniq o₁ (List.mem_append_left _ h₁) o₂ (List.mem_append_left _ h₂)⟩

/-- `sign` touches nothing but the last-sign state -/
theorem sign_fields {c : Cfg} {s s' : NodeState} {r cd : Nat} {p : Payload} (hs : sign c s r cd p = some s') :
    s'.round = s.round ∧ s'.out = s.out ∧ s'.halted = s.halted ∧ s'.validRound = s.validRound := by
  unfold sign at hs
  repeat' split at hs
  all_goals first | (cases hs; simp) | simp at hs

end Tmv.Cons

namespace Tmv.Cons
/-! ### every function of the node model keeps the signer invariant -/

/-- extensible one-step closer: each `f_inv` lemma below registers itself -/
syntax "sinv_step " term : tactic
macro_rules | `(tactic| sinv_step $_) => `(tactic| assumption)
macro_rules | `(tactic| sinv_step $_) => `(tactic| rfl)
/-- normalise projections of record updates, then chain the registered lemmas -/
macro "sinv " hc:term : tactic =>
  `(tactic| repeat' (first | sinv_step $hc | (dsimp only; sinv_step $hc)))

attribute [local irreducible] emit panicWith sign signAddVote decideProposal doPrevote enterPrevote enterPropose
  enterNewRound newRoundReset enterPrevoteWait unlock enterPrecommit enterPrecommitWait finalizeCommit tryFinalizeCommit
  enterCommit setProposal handleCompleteProposal addBlockPart addVote onPolka prevoteTransitions afterPrevote afterPrecommit handleInternal handleTimeout
  handleTxsAvailable handleInput drain step run HVS.addVote HVS.setRound HVS.setPeerMaj23 HVS.polRound
  isProposalComplete maj23Of hasAnyOf hashesTo hasHeader

section
variable {c : Cfg} (hc : c.checkHRS = true)

theorem emit_inv {s : NodeState} (o : Output) (ho : sigKey o = none) (h : SInv s.out s.lss) :
    SInv (emit s o).out (emit s o).lss := by
  unfold emit; split
  · exact h
  · exact h.push_other o ho
macro_rules | `(tactic| sinv_step $_) => `(tactic| apply emit_inv)

theorem panicWith_inv {s : NodeState} (w : String) (h : SInv s.out s.lss) :
    SInv (panicWith s w).out (panicWith s w).lss := by
  unfold panicWith; split
  · exact h
  · exact h.push_other _ rfl
macro_rules | `(tactic| sinv_step $_) => `(tactic| apply panicWith_inv)

include hc

theorem signAddVote_inv {s : NodeState} (t : VType) (bid : Bid) (h : SInv s.out s.lss) :
    SInv (signAddVote c s t bid).out (signAddVote c s t bid).lss := by
  unfold signAddVote
  split
  · exact h
  · split
    · exact h
    · split
      · rename_i s' hsig
        have := h.push_signed hc hsig (.signVote t s.round bid) (by simp [sigKey])
        show SInv (emit s' _).out (emit s' _).lss
        unfold emit; split
        · exact this.of_append
        · exact this
      · exact h
macro_rules | `(tactic| sinv_step $hc) => `(tactic| apply signAddVote_inv $hc)

theorem decideProposal_inv {s : NodeState} (round me : Nat) (h : SInv s.out s.lss) :
    SInv (decideProposal c s round me).out (decideProposal c s round me).lss := by
  unfold decideProposal
  simp only []
  split
  · rename_i s' hsig
    have := h.push_signed hc hsig (.signProposal round (s.validBlock.getD c.ownBlock) s.validRound) (by simp [sigKey])
    show SInv (emit s' _).out (emit s' _).lss
    unfold emit; split
    · exact this.of_append
    · exact this
  · exact h
macro_rules | `(tactic| sinv_step $hc) => `(tactic| apply decideProposal_inv $hc)

theorem doPrevote_inv {s : NodeState} (h : SInv s.out s.lss) :
    SInv (doPrevote c s).out (doPrevote c s).lss := by
  unfold doPrevote; repeat' split
  all_goals sinv hc
macro_rules | `(tactic| sinv_step $hc) => `(tactic| apply doPrevote_inv $hc)

theorem enterPrevote_inv {s : NodeState} (r : Nat) (h : SInv s.out s.lss) :
    SInv (enterPrevote c s r).out (enterPrevote c s r).lss := by
  unfold enterPrevote; (try simp only []); repeat' split
  all_goals sinv hc
macro_rules | `(tactic| sinv_step $hc) => `(tactic| apply enterPrevote_inv $hc)

theorem enterPropose_inv {s : NodeState} (r : Nat) (h : SInv s.out s.lss) :
    SInv (enterPropose c s r).out (enterPropose c s r).lss := by
  unfold enterPropose; (try simp only []); repeat' split
  all_goals sinv hc
macro_rules | `(tactic| sinv_step $hc) => `(tactic| apply enterPropose_inv $hc)

omit hc in
theorem newRoundReset_inv {s : NodeState} (r : Nat) (h : SInv s.out s.lss) :
    SInv (newRoundReset s r).out (newRoundReset s r).lss := by
  unfold newRoundReset; simp only []; split <;> exact h
macro_rules | `(tactic| sinv_step $_) => `(tactic| apply newRoundReset_inv)

theorem enterNewRound_inv {s : NodeState} (r : Nat) (h : SInv s.out s.lss) :
    SInv (enterNewRound c s r).out (enterNewRound c s r).lss := by
  unfold enterNewRound; (try simp only []); repeat' split
  all_goals sinv hc
macro_rules | `(tactic| sinv_step $hc) => `(tactic| apply enterNewRound_inv $hc)

omit hc in
theorem unlock_inv {s : NodeState} (h : SInv s.out s.lss) : SInv (unlock s).out (unlock s).lss := by
  unfold unlock; exact h
macro_rules | `(tactic| sinv_step $_) => `(tactic| apply unlock_inv)

theorem enterPrevoteWait_inv {s : NodeState} (r : Nat) (h : SInv s.out s.lss) :
    SInv (enterPrevoteWait c s r).out (enterPrevoteWait c s r).lss := by
  unfold enterPrevoteWait; (try simp only []); repeat' split
  all_goals sinv hc
macro_rules | `(tactic| sinv_step $hc) => `(tactic| apply enterPrevoteWait_inv $hc)

theorem enterPrecommit_inv {s : NodeState} (r : Nat) (h : SInv s.out s.lss) :
    SInv (enterPrecommit c s r).out (enterPrecommit c s r).lss := by
  unfold enterPrecommit; (try simp only []); repeat' split
  all_goals sinv hc
macro_rules | `(tactic| sinv_step $hc) => `(tactic| apply enterPrecommit_inv $hc)

theorem enterPrecommitWait_inv {s : NodeState} (r : Nat) (h : SInv s.out s.lss) :
    SInv (enterPrecommitWait c s r).out (enterPrecommitWait c s r).lss := by
  unfold enterPrecommitWait; (try simp only []); repeat' split
  all_goals sinv hc
macro_rules | `(tactic| sinv_step $hc) => `(tactic| apply enterPrecommitWait_inv $hc)

theorem finalizeCommit_inv {s : NodeState} (h : SInv s.out s.lss) :
    SInv (finalizeCommit c s).out (finalizeCommit c s).lss := by
  unfold finalizeCommit; (try simp only []); repeat' split
  all_goals sinv hc
macro_rules | `(tactic| sinv_step $hc) => `(tactic| apply finalizeCommit_inv $hc)

theorem tryFinalizeCommit_inv {s : NodeState} (h : SInv s.out s.lss) :
    SInv (tryFinalizeCommit c s).out (tryFinalizeCommit c s).lss := by
  unfold tryFinalizeCommit; (try simp only []); repeat' split
  all_goals sinv hc
macro_rules | `(tactic| sinv_step $hc) => `(tactic| apply tryFinalizeCommit_inv $hc)

theorem enterCommit_inv {s : NodeState} (r : Nat) (h : SInv s.out s.lss) :
    SInv (enterCommit c s r).out (enterCommit c s r).lss := by
  unfold enterCommit; (try simp only []); repeat' split
  all_goals sinv hc
macro_rules | `(tactic| sinv_step $hc) => `(tactic| apply enterCommit_inv $hc)

theorem setProposal_inv {s : NodeState} (p : Proposal) (h : SInv s.out s.lss) :
    SInv (setProposal c s p).out (setProposal c s p).lss := by
  unfold setProposal; (try simp only []); repeat' split
  all_goals sinv hc
macro_rules | `(tactic| sinv_step $hc) => `(tactic| apply setProposal_inv $hc)

theorem handleCompleteProposal_inv {s : NodeState} (h : SInv s.out s.lss) :
    SInv (handleCompleteProposal c s).out (handleCompleteProposal c s).lss := by
  unfold handleCompleteProposal; (try simp only []); repeat' split
  all_goals sinv hc
macro_rules | `(tactic| sinv_step $hc) => `(tactic| apply handleCompleteProposal_inv $hc)

theorem addBlockPart_inv {s : NodeState} (b : Nat) (h : SInv s.out s.lss) :
    SInv (addBlockPart c s b).out (addBlockPart c s b).lss := by
  unfold addBlockPart; (try simp only []); repeat' split
  all_goals sinv hc
macro_rules | `(tactic| sinv_step $hc) => `(tactic| apply addBlockPart_inv $hc)

omit hc in
theorem onPolka_inv {s : NodeState} (vr : Nat) (bid : Bid) (h : SInv s.out s.lss) :
    SInv (onPolka s vr bid).out (onPolka s vr bid).lss := by
  unfold onPolka; (try simp only []); repeat' split
  all_goals sinv hc
macro_rules | `(tactic| sinv_step $_) => `(tactic| apply onPolka_inv)

theorem prevoteTransitions_inv {s : NodeState} (vr : Nat) (h : SInv s.out s.lss) :
    SInv (prevoteTransitions c s vr).out (prevoteTransitions c s vr).lss := by
  unfold prevoteTransitions; (try simp only []); repeat' split
  all_goals sinv hc
macro_rules | `(tactic| sinv_step $hc) => `(tactic| apply prevoteTransitions_inv $hc)

theorem afterPrevote_inv {s : NodeState} (vr : Nat) (h : SInv s.out s.lss) :
    SInv (afterPrevote c s vr).out (afterPrevote c s vr).lss := by
  unfold afterPrevote; (try simp only []); repeat' split
  all_goals sinv hc
macro_rules | `(tactic| sinv_step $hc) => `(tactic| apply afterPrevote_inv $hc)

theorem afterPrecommit_inv {s : NodeState} (vr : Nat) (h : SInv s.out s.lss) :
    SInv (afterPrecommit c s vr).out (afterPrecommit c s vr).lss := by
  unfold afterPrecommit; (try simp only []); repeat' split
  all_goals sinv hc
macro_rules | `(tactic| sinv_step $hc) => `(tactic| apply afterPrecommit_inv $hc)

theorem addVote_inv {s : NodeState} (v : Vote) (peer : Peer) (h : SInv s.out s.lss) :
    SInv (addVote c s v peer).out (addVote c s v peer).lss := by
  unfold addVote; (try simp only []); repeat' split
  all_goals sinv hc
macro_rules | `(tactic| sinv_step $hc) => `(tactic| apply addVote_inv $hc)

theorem handleInternal_inv {s : NodeState} (m : Internal) (h : SInv s.out s.lss) :
    SInv (handleInternal c s m).out (handleInternal c s m).lss := by
  unfold handleInternal; (try simp only []); repeat' split
  all_goals sinv hc
macro_rules | `(tactic| sinv_step $hc) => `(tactic| apply handleInternal_inv $hc)

theorem handleTimeout_inv {s : NodeState} (r : Nat) (st : Step) (h : SInv s.out s.lss) :
    SInv (handleTimeout c s r st).out (handleTimeout c s r st).lss := by
  unfold handleTimeout; (try simp only []); repeat' split
  all_goals sinv hc
macro_rules | `(tactic| sinv_step $hc) => `(tactic| apply handleTimeout_inv $hc)

theorem handleTxsAvailable_inv {s : NodeState} (h : SInv s.out s.lss) :
    SInv (handleTxsAvailable c s).out (handleTxsAvailable c s).lss := by
  unfold handleTxsAvailable; (try simp only []); repeat' split
  all_goals sinv hc
macro_rules | `(tactic| sinv_step $hc) => `(tactic| apply handleTxsAvailable_inv $hc)

theorem handleInput_inv {s : NodeState} (i : Input) (h : SInv s.out s.lss) :
    SInv (handleInput c s i).out (handleInput c s i).lss := by
  unfold handleInput; (try simp only []); repeat' split
  all_goals sinv hc
macro_rules | `(tactic| sinv_step $hc) => `(tactic| apply handleInput_inv $hc)

theorem drain_inv (fuel : Nat) {s : NodeState} (h : SInv s.out s.lss) :
    SInv (drain c fuel s).out (drain c fuel s).lss := by
  induction fuel generalizing s with
  | zero => unfold drain; exact h
  | succ n ih =>
    unfold drain; repeat' split
    all_goals first | exact h | (apply ih; sinv hc)

theorem step_inv {s : NodeState} (i : Input) (h : SInv s.out s.lss) :
    SInv (step c s i).out (step c s i).lss := by
  unfold step; split
  · exact h
  · exact drain_inv hc _ (handleInput_inv hc i h)

theorem run_inv (is : List Input) {s : NodeState} (h : SInv s.out s.lss) :
    SInv (run c s is).out (run c s is).lss := by
  induction is generalizing s with
  | nil => unfold run; exact h
  | cons i is ih =>
    have := ih (step_inv hc i h)
    unfold run at this ⊢
    simpa [List.foldl] using this

end
end Tmv.Cons
