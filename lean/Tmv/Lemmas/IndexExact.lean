import Tmv.Lemmas.Index
import Tmv.Lemmas.Ranges
set_option linter.unusedSimpArgs false
set_option linter.unusedVariables false
/-! Lemmas for the general exactness theorem of the kv tx index (`search_exact_clean`). -/
namespace Tmv.Index
open Tmv.Query

/-- the test a clean condition applies to one attribute value -/
def valTestG (c : Cond) (v : Str) : Bool :=
  match c.op, c.operand with
  | .eq, .str s => v == s
  | .eq, .int n => v == dec n
  | .exists, _ => true
  | .contains, .str s => isInfix s v
  | op, .int n => cmpInt op (digitsVal v) n
  | _, _ => false

/-- the conditions of the query language the theorem covers.  Excluded, each a known finding or a
stated exclusion: the key `tx.hash` (shortcut), a separator in the key or in an equality operand,
`EXISTS` on a key without '.', numbers outside int64, `> MaxInt64`; floats, TIME and DATE. -/
def CleanCond (c : Cond) : Prop :=
  sep ∉ c.key ∧ c.key ≠ txHashKey ∧
  ((c.op = .eq ∧ ∃ s, c.operand = .str s ∧ sep ∉ s) ∨
   (c.op = .eq ∧ ∃ n, c.operand = .int n ∧ n ≤ maxInt64) ∨
   (c.op = .exists ∧ c.operand = .none ∧ c.key.contains dot = true) ∨
   (c.op = .contains ∧ ∃ s, c.operand = .str s) ∨
   (isRangeOp c.op = true ∧ RangeCondOK c))

def condHoldsG (c : Cond) (r : TxResult) : Bool := (valuesOf (attrsAll r) c.key).any (valTestG c)

theorem condHoldsG_iff (c : Cond) (r : TxResult) :
    condHoldsG c r = true ↔ ∃ kv ∈ attrsAll r, kv.1 = c.key ∧ valTestG c kv.2 = true := by
  simp only [condHoldsG, List.any_eq_true]
  constructor
  · rintro ⟨v, hv, ht⟩
    exact ⟨(c.key, v), (mem_valuesOf _ _ _).mp hv, rfl, ht⟩
  · rintro ⟨kv, hkv, hk, ht⟩
    refine ⟨kv.2, (mem_valuesOf _ _ _).mpr ?_, ht⟩
    rw [← hk]; exact hkv

/-- the values of `c`'s key in `r` are canonical decimals whenever `c` compares numerically -/
def CanonFor (c : Cond) (r : TxResult) : Prop :=
  ∀ n, c.operand = .int n → ∀ v ∈ valuesOf (attrsAll r) c.key, ∃ m, m ≤ maxInt64 ∧ v = dec m

theorem condMatch_int (c : Cond) (n : Nat) (hn : c.operand = .int n) (hne : c.op ≠ .exists) (ev : Events) :
    condMatch c ev = if n > maxInt64 then .error .queryNum else
      match lookup ev c.key with
      | none => .ok false
      | some vs => matchValues c.op (.int n) vs := by
  unfold condMatch
  rw [hn]
  cases hop : c.op <;> first | rfl | exact absurd hop hne

theorem condMatch_clean (c : Cond) (hc : CleanCond c) (r : TxResult) (hcan : CanonFor c r) :
    condMatch c (eventsOf r) = .ok (condHoldsG c r) := by
  obtain ⟨_, _, h⟩ := hc
  unfold condMatch condHoldsG
  rw [lookup_eventsOf]
  rcases h with ⟨hop, s, hs, _⟩ | ⟨hop, n, hn, hle⟩ | ⟨hop, hnone, hdot⟩ | ⟨hop, s, hs⟩ | ⟨hrange, n, hn, hle, _⟩
  · rw [hop, hs]; simp only
    have ht : valTestG c = strTest .eq s := by funext v; simp [valTestG, strTest, hop, hs]
    by_cases he : valuesOf (attrsAll r) c.key = []
    · simp [he]
    · simp only [he, if_false, matchValues_str, ht]
  · rw [hop, hn]; simp only
    have hgt : ¬ n > maxInt64 := Nat.not_lt.mpr hle
    simp only [hgt, if_false]
    have ht : valTestG c = (· == dec n) := by funext v; simp [valTestG, hop, hn]
    by_cases he : valuesOf (attrsAll r) c.key = []
    · simp [he]
    · simp only [he, if_false, matchValues_int_eq n _ (hcan n hn), ht]
  · rw [hop, hnone]; simp only [hdot, if_true]
    by_cases he : valuesOf (attrsAll r) c.key = []
    · simp [he]
    · simp only [he, if_false]
      congr 1
      cases hv : valuesOf (attrsAll r) c.key with
      | nil => exact absurd hv he
      | cons a b => simp [valTestG, hop]
  · rw [hop, hs]; simp only
    have ht : valTestG c = strTest .contains s := by funext v; simp [valTestG, strTest, hop, hs]
    by_cases he : valuesOf (attrsAll r) c.key = []
    · simp [he]
    · simp only [he, if_false, matchValues_str, ht]
  · have hgt : ¬ n > maxInt64 := Nat.not_lt.mpr hle
    have hne : c.op ≠ .exists := by intro e; rw [e] at hrange; cases hrange
    obtain ⟨ms, hvs, hms⟩ := canon_list _ (hcan n hn)
    have ht : ∀ m, valTestG c (dec m) = cmpInt c.op m n := by
      intro m
      unfold valTestG
      rw [hn, digitsVal_dec]
      cases hop : c.op <;> first | rfl | (rw [hop] at hrange; cases hrange)
    have hany : (valuesOf (attrsAll r) c.key).any (valTestG c) = ms.any (fun m => cmpInt c.op m n) := by
      rw [hvs, List.any_map]
      congr 1
      funext m
      exact ht m
    rw [hany]
    have hcm := condMatch_int c n hn hne (eventsOf r)
    unfold condMatch at hcm
    rw [lookup_eventsOf] at hcm
    rw [hcm, if_neg hgt]
    by_cases he : valuesOf (attrsAll r) c.key = []
    · have : ms = [] := by
        rw [he] at hvs
        exact List.map_eq_nil_iff.mp hvs.symm
      rw [if_pos he, this]; rfl
    · rw [if_neg he]
      simp only
      rw [hvs]
      exact matchValues_int_canon c.op n ms hms

theorem matchConds_clean (q : Query) (r : TxResult) (hq : ∀ c ∈ q, CleanCond c)
    (hcan : ∀ c ∈ q, CanonFor c r) :
    matchConds q (eventsOf r) = .ok (q.all fun c => condHoldsG c r) := by
  induction q with
  | nil => rfl
  | cons c rest ih =>
    unfold matchConds
    rw [condMatch_clean c (hq c List.mem_cons_self) r (hcan c List.mem_cons_self)]
    cases h : condHoldsG c r with
    | false => simp [h]
    | true => simp [h, ih (fun c' hc' => hq c' (List.mem_cons_of_mem _ hc'))
        (fun c' hc' => hcan c' (List.mem_cons_of_mem _ hc'))]

theorem matches_clean (q : Query) (r : TxResult) (hq : ∀ c ∈ q, CleanCond c)
    (hcan : ∀ c ∈ q, CanonFor c r) :
    «matches» q (eventsOf r) = .ok true ↔ ∀ c ∈ q, condHoldsG c r = true := by
  simp only [«matches», eventsOf_nonempty, Bool.false_eq_true, if_false, matchConds_clean q r hq hcan]
  constructor
  · intro h; injection h with h; exact List.all_eq_true.mp h
  · intro h; rw [List.all_eq_true.mpr h]


/-! ### scans -/
variable (H : Bytes → Bytes)

/-- rows under the prefix `k/s/<h>/` (the `tx.height = h` narrowing of equality conditions) -/
theorem mem_prefix3 {hist : List TxResult} (hc : CleanHist H hist) (k s : Str) (h : Nat) (hk : sep ∉ k)
    (hs : sep ∉ s) (row : Bytes × Val) :
    row ∈ prefixRows (addBatch H [] hist) (startKey [k, s, dec h]) ↔
      ∃ r ∈ hist, ∃ kv ∈ attrsAll r, kv.1 = k ∧ kv.2 = s ∧ r.height = h ∧ row = secRow H r kv := by
  have hp : startKey [k, s, dec h] = k ++ sep :: (s ++ sep :: (dec h ++ sep :: [])) := by simp [startKey]
  simp only [prefixRows, List.mem_filter, List.isPrefixOf_iff_prefix, hp, mem_db_cases H hc]
  constructor
  · rintro ⟨⟨r, hr, h'⟩, hpre⟩
    rcases h' with ⟨kv, hkv, rfl⟩ | rfl
    · have cl := attrsAll_clean H hc hr hkv
      simp only [secRow, keyForEvent] at hpre
      have h1 := (prefix_sep hk cl.1).mp hpre
      have h2 := (prefix_sep hs cl.2).mp h1.2
      have h3 := (prefix_sep (dec_nosep h) (dec_nosep r.height)).mp h2.2
      exact ⟨r, hr, kv, hkv, h1.1.symm, h2.1.symm, (dec_inj h3.1).symm, rfl⟩
    · exact absurd hpre (not_prefix_of_nosep (hc.hashNoSep r hr))
  · rintro ⟨r, hr, kv, hkv, rfl, rfl, rfl, rfl⟩
    have cl := attrsAll_clean H hc hr hkv
    refine ⟨⟨r, hr, Or.inl ⟨kv, hkv, rfl⟩⟩, ?_⟩
    simp only [secRow, keyForEvent]
    exact (prefix_sep hk cl.1).mpr ⟨rfl, (prefix_sep hs cl.2).mpr ⟨rfl,
      (prefix_sep (dec_nosep _) (dec_nosep _)).mpr ⟨rfl, List.nil_prefix⟩⟩⟩

/-- what the scan of a non-range clean condition finds, with the height narrowing `h` -/
theorem condRows_clean {hist : List TxResult} (hc : CleanHist H hist) (c : Cond) (hcl : CleanCond c)
    (hnr : isRangeOp c.op = false) (h : Nat) :
    ∃ rows, condRows (addBatch H [] hist) c h = some rows ∧
      ∀ row, row ∈ rows ↔
        ∃ r ∈ hist, ∃ kv ∈ attrsAll r, kv.1 = c.key ∧ valTestG c kv.2 = true ∧
          (c.op = .eq → h > 0 → r.height = h) ∧ row = secRow H r kv := by
  obtain ⟨hk, _, hcases⟩ := hcl
  -- equality with operand text `s`
  have eqCase : ∀ s, sep ∉ s → c.op = .eq → operandStr c.operand = s → (∀ v, valTestG c v = (v == s)) →
      ∃ rows, condRows (addBatch H [] hist) c h = some rows ∧
      ∀ row, row ∈ rows ↔
        ∃ r ∈ hist, ∃ kv ∈ attrsAll r, kv.1 = c.key ∧ valTestG c kv.2 = true ∧
          (c.op = .eq → h > 0 → r.height = h) ∧ row = secRow H r kv := by
    intro s hsn hop hos hvt
    refine ⟨_, by simp only [condRows, hop]; rfl, ?_⟩
    intro row
    by_cases hh : h > 0
    · have : startKeyFor c h = startKey [c.key, s, dec h] := by simp [startKeyFor, hh, hos]
      rw [this, mem_prefix3 H hc c.key s h hk hsn]
      constructor
      · rintro ⟨r, hr, kv, hkv, h1, h2, h3, h4⟩
        exact ⟨r, hr, kv, hkv, h1, by simp [hvt, h2], fun _ _ => h3, h4⟩
      · rintro ⟨r, hr, kv, hkv, h1, h2, h3, h4⟩
        exact ⟨r, hr, kv, hkv, h1, by simpa [hvt] using h2, h3 hop hh, h4⟩
    · have : startKeyFor c h = startKey [c.key, s] := by simp [startKeyFor, hh, hos]
      rw [this, mem_prefix2 H hc c.key s hk hsn]
      constructor
      · rintro ⟨r, hr, kv, hkv, h1, h2, h4⟩
        exact ⟨r, hr, kv, hkv, h1, by simp [hvt, h2], fun _ hp => absurd hp hh, h4⟩
      · rintro ⟨r, hr, kv, hkv, h1, h2, _, h4⟩
        exact ⟨r, hr, kv, hkv, h1, by simpa [hvt] using h2, h4⟩
  rcases hcases with ⟨hop, s, hso, hsn⟩ | ⟨hop, n, hso, _⟩ | ⟨hop, hnone, _⟩ | ⟨hop, s, hso⟩ | ⟨hr, _⟩
  · exact eqCase s hsn hop (by simp [hso, operandStr]) (by intro v; simp [valTestG, hop, hso])
  · exact eqCase (dec n) (dec_nosep n) hop (by simp [hso, operandStr]) (by intro v; simp [valTestG, hop, hso])
  · refine ⟨_, by simp only [condRows, hop]; rfl, ?_⟩
    intro row
    rw [mem_prefix1 H hc c.key hk]
    constructor
    · rintro ⟨r, hr, kv, hkv, h1, h3⟩
      exact ⟨r, hr, kv, hkv, h1, by simp [valTestG, hop], by simp [hop], h3⟩
    · rintro ⟨r, hr, kv, hkv, h1, _, _, h3⟩
      exact ⟨r, hr, kv, hkv, h1, h3⟩
  · refine ⟨_, by simp only [condRows, hop, hso]; rfl, ?_⟩
    intro row
    simp only [List.mem_filter, mem_prefix1 H hc c.key hk]
    constructor
    · rintro ⟨⟨r, hr, kv, hkv, h1, rfl⟩, htest⟩
      have cl := attrsAll_clean H hc hr hkv
      simp only [secRow, isTagKey_key _ _ _ _ cl.1 cl.2, extractValue_key _ _ _ _ cl.1 cl.2,
        Bool.true_and] at htest
      exact ⟨r, hr, kv, hkv, h1, by simp [valTestG, hop, hso, htest], by simp [hop], rfl⟩
    · rintro ⟨r, hr, kv, hkv, h1, h2, _, rfl⟩
      have cl := attrsAll_clean H hc hr hkv
      refine ⟨⟨r, hr, kv, hkv, h1, rfl⟩, ?_⟩
      simp only [secRow, isTagKey_key _ _ _ _ cl.1 cl.2, extractValue_key _ _ _ _ cl.1 cl.2,
        Bool.true_and]
      simpa [valTestG, hop, hso] using h2
  · rw [hr] at hnr; cases hnr

/-- the hashes a scan contributes (total version of `valHashes`) -/
def hashesOf (rows : Option DB) : List Bytes := (rows.bind valHashes).getD []

/-- a loop of scans that all succeed is the intersection loop over their hash lists -/
theorem fold_scanStep {X : Type} (xs : List X) (f : X → Option DB)
    (hf : ∀ x ∈ xs, ∃ rows hs, f x = some rows ∧ valHashes rows = some hs)
    (st : Option (List Bytes)) :
    xs.foldl (fun st x => scanStep st (f x)) (.ok st) = .ok (interFold st (xs.map fun x => hashesOf (f x))) := by
  induction xs generalizing st with
  | nil => rfl
  | cons x rest ih =>
    obtain ⟨rows, hs, e1, e2⟩ := hf x List.mem_cons_self
    have hstep : scanStep (.ok st) (f x) = .ok (interStep st (hashesOf (f x))) := by
      simp only [scanStep, e1, e2, hashesOf, Option.bind_some, Option.getD_some, interStep]
      by_cases h : (st == some []) = true
      · simp [h]
      · simp [h]
    simp only [List.foldl_cons, List.map_cons, hstep]
    rw [ih (fun y hy => hf y (List.mem_cons_of_mem _ hy))]
    rfl


/-! ### hypotheses of the general theorem -/

/-- the range conditions of a query, in order (what `LookForRanges` folds) -/
def rangeConds (q : Query) : List Cond := q.filter fun c => isRangeOp c.op
/-- the other conditions, in order (the second loop of `Search`) -/
def otherConds (q : Query) : List Cond := q.filter fun c => !isRangeOp c.op

/-- a query the theorem covers, relative to the indexed history -/
structure CleanQuery (hist : List TxResult) (q : Query) : Prop where
  nonempty : q ≠ []
  conds : ∀ c ∈ q, CleanCond c
  /-- at most one lower and one upper bound per key (else: finding `range-conditions-merged-per-key`) -/
  oneLower : ∀ k, ((rangeConds q).filter fun c => decide (c.key = k) && isLower c.op).length ≤ 1
  oneUpper : ∀ k, ((rangeConds q).filter fun c => decide (c.key = k) && isUpper c.op).length ≤ 1
  /-- numerically compared values are canonical decimals (else: `noncanonical-number-value`) -/
  canon : ∀ c ∈ q, ∀ r ∈ hist, CanonFor c r
  /-- a key with both bounds carries one value per tx (else: `range-conditions-merged-per-key`) -/
  single : ∀ k, 2 ≤ ((rangeConds q).filter fun c => decide (c.key = k)).length →
    ∀ r ∈ hist, (valuesOf (attrsAll r) k).length ≤ 1

/-- the application does not emit the reserved key `tx.height` (else: `reserved-key-emitted-by-app`) -/
def NoReserved (hist : List TxResult) : Prop :=
  ∀ r ∈ hist, ∀ kv ∈ indexedAttrs r, kv.1 ≠ txHeightKey

theorem valTestG_range (c : Cond) (n m : Nat) (hr : isRangeOp c.op = true) (hn : c.operand = .int n) :
    valTestG c (dec m) = cSem c m := by
  unfold valTestG cSem
  rw [hn, digitsVal_dec]
  cases hop : c.op <;> first | rfl | (rw [hop] at hr; cases hr)

theorem inR_eq (W : QRange) (m : Nat) : inR W m = (inLo W m && inHi W m) := rfl

theorem canonKey_of {hist : List TxResult} (c : Cond) (n : Nat) (hn : c.operand = .int n)
    (h : ∀ r ∈ hist, CanonFor c r) : CanonKey hist c.key := by
  intro r hr kv hkv hk
  have : kv.2 ∈ valuesOf (attrsAll r) c.key := by
    rw [mem_valuesOf, ← hk]; exact hkv
  exact h r hr n hn kv.2 this

/-- per tx: the merged interval of a key accepts one of the tx's values iff every range
condition on that key holds of the tx -/
theorem range_tx {hist : List TxResult} {q : Query} (hq : CleanQuery hist q) (W : QRange)
    (hW : W ∈ lookForRanges q) (r : TxResult) (hr : r ∈ hist) :
    (∃ m, (W.key, dec m) ∈ attrsAll r ∧ inR W m = true) ↔
      ∀ c ∈ rangeConds q, c.key = W.key → condHoldsG c r = true := by
  have spec := lookForRanges_spec q
  have hcs : ∀ c ∈ rangeConds q, isRangeOp c.op = true ∧ c ∈ q := by
    intro c hc
    have := List.mem_filter.mp hc
    exact ⟨this.2, this.1⟩
  have hok : ∀ c ∈ rangeConds q, RangeCondOK c := by
    intro c hc
    obtain ⟨hr', hcq⟩ := hcs c hc
    obtain ⟨_, _, h⟩ := hq.conds c hcq
    rcases h with ⟨hop, _⟩ | ⟨hop, _⟩ | ⟨hop, _⟩ | ⟨hop, _⟩ | ⟨_, hok⟩
    · rw [hop] at hr'; cases hr'
    · rw [hop] at hr'; cases hr'
    · rw [hop] at hr'; cases hr'
    · rw [hop] at hr'; cases hr'
    · exact hok
  -- the conditions on this key
  let Ck := (rangeConds q).filter fun c => decide (c.key = W.key)
  obtain ⟨c0, hc0, hk0⟩ := spec.onlyKeys W hW
  have hc0k : c0 ∈ Ck := List.mem_filter.mpr ⟨hc0, by simp [hk0]⟩
  have hCkne : Ck ≠ [] := fun e => by rw [e] at hc0k; cases hc0k
  obtain ⟨n0, hn0, _, _⟩ := hok c0 hc0
  -- canonical values of the key
  have hcan0 := hq.canon c0 (hcs c0 hc0).2 r hr n0 hn0
  rw [hk0] at hcan0
  obtain ⟨ms, hvs, hms⟩ := canon_list _ hcan0
  have hmem : ∀ m, (W.key, dec m) ∈ attrsAll r ↔ m ∈ ms := by
    intro m
    rw [← mem_valuesOf, hvs, List.mem_map]
    constructor
    · rintro ⟨m', hm', e⟩; rw [← dec_inj e]; exact hm'
    · intro h; exact ⟨m, h, rfl⟩
  -- meaning of the interval
  have hsem : ∀ m, inR W m = Ck.all (cSem · m) := by
    intro m
    have hW' : W = rangeOf (rangeConds q) W.key := spec.isFold W hW
    rw [inR_eq]
    have := rangeOf_sem (rangeConds q) W.key (fun c hc => (hcs c hc).1) hok (hq.oneLower W.key)
      (hq.oneUpper W.key) m
    rw [← hW'] at this
    exact this
  have hholds : ∀ c ∈ Ck, (condHoldsG c r = true ↔ ∃ m ∈ ms, cSem c m = true) := by
    intro c hc
    obtain ⟨hcr, hck⟩ := List.mem_filter.mp hc
    have hck : c.key = W.key := by simpa using hck
    obtain ⟨n, hn, _, _⟩ := hok c hcr
    unfold condHoldsG
    rw [hck, hvs, List.any_map, List.any_eq_true]
    constructor
    · rintro ⟨m, hm, ht⟩
      exact ⟨m, hm, by rw [← valTestG_range c n m (hcs c hcr).1 hn]; exact ht⟩
    · rintro ⟨m, hm, ht⟩
      exact ⟨m, hm, by simp only [Function.comp]; rw [valTestG_range c n m (hcs c hcr).1 hn]; exact ht⟩
  have hlen : ms.length ≤ 1 ∨ Ck.length ≤ 1 := by
    by_cases h2 : 2 ≤ Ck.length
    · left
      have := hq.single W.key h2 r hr
      rw [hvs, List.length_map] at this
      exact this
    · right; omega
  have hswap := exists_forall_swap ms Ck (fun c m => cSem c m = true) hCkne hlen
  constructor
  · rintro ⟨m, hm, hin⟩ c hc hk
    have hcCk : c ∈ Ck := List.mem_filter.mpr ⟨hc, by simp [hk]⟩
    rw [hholds c hcCk]
    rw [hsem m, List.all_eq_true] at hin
    exact ⟨m, (hmem m).mp hm, hin c hcCk⟩
  · intro hall
    have : ∀ c ∈ Ck, ∃ m ∈ ms, cSem c m = true := by
      intro c hc
      obtain ⟨hcr, hck⟩ := List.mem_filter.mp hc
      exact (hholds c hc).mp (hall c hcr (by simpa using hck))
    obtain ⟨m, hm, hp⟩ := hswap.mpr this
    exact ⟨m, (hmem m).mpr hm, by rw [hsem m, List.all_eq_true]; exact hp⟩

/-- per tx: when the query has `tx.height = n` (n > 0), the equality condition itself pins the
height, so narrowing the other equality scans to height `n` loses nothing -/
theorem height_pinned {hist : List TxResult} (hres : NoReserved hist) (q : Query) (n : Nat)
    (hh : lookForHeight q = some n) (r : TxResult) (hr : r ∈ hist)
    (hall : ∀ c ∈ otherConds q, condHoldsG c r = true) : r.height = n := by
  unfold lookForHeight at hh
  obtain ⟨ch, hch, he⟩ := List.exists_of_findSome?_eq_some hh
  by_cases hk : (ch.key == txHeightKey && ch.op == .eq) = true
  · rw [if_pos hk] at he
    simp only [Bool.and_eq_true, beq_iff_eq] at hk
    have hop : ch.operand = .int n := by
      cases ho : ch.operand <;> simp_all [operandNat]
    have hmem : ch ∈ otherConds q := List.mem_filter.mpr ⟨hch, by simp [hk.2, isRangeOp]⟩
    obtain ⟨kv, hkv, hkk, ht⟩ := (condHoldsG_iff ch r).mp (hall ch hmem)
    have hv : kv.2 = dec n := by simpa [valTestG, hk.2, hop] using ht
    rcases List.mem_append.mp hkv with h | h
    · exact absurd (hkk.trans hk.1) (hres r hr kv h)
    · simp only [List.mem_singleton] at h
      rw [h] at hv
      exact dec_inj hv
  · rw [if_neg hk] at he; cases he


/-! ### each scan of a clean query succeeds and contributes a known set of hashes -/

/-- scan of a merged interval -/
theorem scan_range_ok {hist : List TxResult} (hc : CleanHist H hist) {q : Query} (hq : CleanQuery hist q)
    (W : QRange) (hW : W ∈ lookForRanges q) :
    ∃ hs, valHashes (rangeRows (addBatch H [] hist) W) = some hs ∧
      ∀ x, x ∈ hs ↔ ∃ r ∈ hist, H r.tx = x ∧ ∃ m, (W.key, dec m) ∈ attrsAll r ∧ inR W m = true := by
  have spec := lookForRanges_spec q
  obtain ⟨c0, hc0, hk0⟩ := spec.onlyKeys W hW
  obtain ⟨hc0q, hr0⟩ := List.mem_filter.mp hc0
  obtain ⟨hsep, _, h⟩ := hq.conds c0 hc0q
  have hok : RangeCondOK c0 := by
    rcases h with ⟨hop, _⟩ | ⟨hop, _⟩ | ⟨hop, _⟩ | ⟨hop, _⟩ | ⟨_, hok⟩
    · rw [hop] at hr0; cases hr0
    · rw [hop] at hr0; cases hr0
    · rw [hop] at hr0; cases hr0
    · rw [hop] at hr0; cases hr0
    · exact hok
  obtain ⟨n0, hn0, _, _⟩ := hok
  have hcanK : CanonKey hist W.key := by
    rw [← hk0]; exact canonKey_of c0 n0 hn0 (hq.canon c0 hc0q)
  have hsepW : sep ∉ W.key := by rw [← hk0]; exact hsep
  have hrows := mem_rangeRows H hc W hsepW hcanK
  obtain ⟨hs, ev, hmem⟩ := valHashes_all_hash (rangeRows (addBatch H [] hist) W) (by
    intro row hrow
    obtain ⟨rr, _, kv, _, _, _, rfl⟩ := (hrows row).mp hrow
    exact ⟨_, rfl⟩)
  refine ⟨hs, ev, ?_⟩
  intro x
  rw [hmem]
  constructor
  · rintro ⟨row, hrow, hx⟩
    obtain ⟨rr, hrr, kv, hkv, hk1, ⟨m, hv, hin⟩, rfl⟩ := (hrows row).mp hrow
    simp only [secRow, Val.hash.injEq] at hx
    have : kv = (W.key, dec m) := Prod.ext hk1 hv
    exact ⟨rr, hrr, hx, m, by rw [← this]; exact hkv, hin⟩
  · rintro ⟨r, hr, hx, m, hkv, hin⟩
    exact ⟨secRow H r (W.key, dec m), (hrows _).mpr ⟨r, hr, (W.key, dec m), hkv, rfl, ⟨m, rfl, hin⟩, rfl⟩,
      by simp [secRow, hx]⟩

/-- scan of a non-range condition under the height narrowing `h` -/
theorem scan_cond_ok {hist : List TxResult} (hc : CleanHist H hist) {q : Query} (hq : CleanQuery hist q)
    (c : Cond) (hcq : c ∈ otherConds q) (h : Nat) :
    ∃ rows hs, condRows (addBatch H [] hist) c h = some rows ∧ valHashes rows = some hs ∧
      ∀ x, x ∈ hs ↔ ∃ r ∈ hist, H r.tx = x ∧ condHoldsG c r = true ∧ (c.op = .eq → h > 0 → r.height = h) := by
  obtain ⟨hcq', hnr⟩ := List.mem_filter.mp hcq
  have hnr : isRangeOp c.op = false := by simpa using hnr
  obtain ⟨rows, e, hm⟩ := condRows_clean H hc c (hq.conds c hcq') hnr h
  obtain ⟨hs, ev, hmem⟩ := valHashes_all_hash rows (by
    intro row hrow
    obtain ⟨r, _, kv, _, _, _, _, rfl⟩ := (hm row).mp hrow
    exact ⟨_, rfl⟩)
  refine ⟨rows, hs, e, ev, ?_⟩
  intro x
  rw [hmem]
  constructor
  · rintro ⟨row, hrow, hx⟩
    obtain ⟨r, hr, kv, hkv, hk, ht, hh, rfl⟩ := (hm row).mp hrow
    simp only [secRow, Val.hash.injEq] at hx
    exact ⟨r, hr, hx, (condHoldsG_iff c r).mpr ⟨kv, hkv, hk, ht⟩, hh⟩
  · rintro ⟨r, hr, hx, hh, hn⟩
    obtain ⟨kv, hkv, hk, ht⟩ := (condHoldsG_iff c r).mp hh
    exact ⟨secRow H r kv, (hm _).mpr ⟨r, hr, kv, hkv, hk, ht, hn, rfl⟩, by simp [secRow, hx]⟩

theorem hashesOf_some (rows : DB) (hs : List Bytes) (h : valHashes rows = some hs) :
    hashesOf (some rows) = hs := by simp [hashesOf, h]

/-- `Search` on a clean query: the intersection of the scans of the merged intervals and of the
other conditions -/
theorem search_clean_compute {hist : List TxResult} (hc : CleanHist H hist) {q : Query}
    (hq : CleanQuery hist q) :
    ∃ L, search (addBatch H [] hist) q = .hashes L ∧ L.Nodup ∧
      ∀ x, x ∈ L ↔
        (∀ W ∈ lookForRanges q, ∃ r ∈ hist, H r.tx = x ∧ ∃ m, (W.key, dec m) ∈ attrsAll r ∧ inR W m = true) ∧
        (∀ c ∈ otherConds q, ∃ r ∈ hist, H r.tx = x ∧ condHoldsG c r = true ∧
          (c.op = .eq → (lookForHeight q).getD 0 > 0 → r.height = (lookForHeight q).getD 0)) := by
  let db := addBatch H [] hist
  let h := (lookForHeight q).getD 0
  have h1 : conditionsOK q = true := by
    simp only [conditionsOK, List.all_eq_true]
    intro c hcq
    obtain ⟨_, _, hcase⟩ := hq.conds c hcq
    rcases hcase with ⟨_, s, hs, _⟩ | ⟨_, n, hn, hle⟩ | ⟨_, hn, _⟩ | ⟨_, s, hs⟩ | ⟨_, n, hn, hle, _⟩
    · simp [hs]
    · simp [hn, hle]
    · simp [hn]
    · simp [hs]
    · simp [hn, hle]
  have h2 : lookForHash q = none := by
    simp only [lookForHash, List.findSome?_eq_none_iff]
    intro c hcq
    have := (hq.conds c hcq).2.1
    simp [this]
  have hfR : ∀ W ∈ lookForRanges q, ∃ rows hs, (some (rangeRows db W) : Option DB) = some rows ∧ valHashes rows = some hs := by
    intro W hW
    obtain ⟨hs, ev, _⟩ := scan_range_ok H hc hq W hW
    exact ⟨_, hs, rfl, ev⟩
  have hfC : ∀ c ∈ otherConds q, ∃ rows hs, condRows db c h = some rows ∧ valHashes rows = some hs := by
    intro c hcq
    obtain ⟨rows, hs, e, ev, _⟩ := scan_cond_ok H hc hq c hcq h
    exact ⟨rows, hs, e, ev⟩
  have e1 := fold_scanStep (lookForRanges q) (fun W => some (rangeRows db W)) hfR none
  have e2 := fold_scanStep (otherConds q) (fun c => condRows db c h) hfC
    (interFold none ((lookForRanges q).map fun W => hashesOf (some (rangeRows db W))))
  rw [interFold_append] at e2
  -- the list of scans is not empty
  have hne : ((lookForRanges q).map fun W => hashesOf (some (rangeRows db W))) ++
      ((otherConds q).map fun c => hashesOf (condRows db c h)) ≠ [] := by
    obtain ⟨c0, hc0⟩ := List.exists_mem_of_ne_nil q hq.nonempty
    by_cases hr0 : isRangeOp c0.op = true
    · have : c0 ∈ rangeConds q := List.mem_filter.mpr ⟨hc0, hr0⟩
      obtain ⟨W, hW, _⟩ := (lookForRanges_spec q).covers c0 this
      intro e
      have := List.append_eq_nil_iff.mp e
      have h' := List.map_eq_nil_iff.mp this.1
      rw [h'] at hW; cases hW
    · have : c0 ∈ otherConds q := List.mem_filter.mpr ⟨hc0, by simpa using hr0⟩
      intro e
      have := List.append_eq_nil_iff.mp e
      have h' := List.map_eq_nil_iff.mp this.2
      rw [h'] at this
      rename_i hmem; rw [h'] at hmem; cases hmem
  obtain ⟨L, eL, mL⟩ := interFold_none _ hne
  refine ⟨L, ?_, interFold_none_nodup _ L eL, ?_⟩
  · simp only [search, h1, h2, Bool.not_true, Bool.false_eq_true, if_false]
    show (match (otherConds q).foldl (fun st c => scanStep st (condRows db c h))
        ((lookForRanges q).foldl (fun st r => scanStep st (some (rangeRows db r))) (.ok none)) with
      | .error e => e | .ok none => .hashes [] | .ok (some hs) => .hashes hs) = .hashes L
    rw [e1, e2, eL]
  · intro x
    rw [mL]
    simp only [List.mem_append, List.mem_map]
    constructor
    · intro hall
      refine ⟨?_, ?_⟩
      · intro W hW
        obtain ⟨hs, ev, hm⟩ := scan_range_ok H hc hq W hW
        have := hall (hashesOf (some (rangeRows db W))) (Or.inl ⟨W, hW, rfl⟩)
        rw [hashesOf_some _ _ ev] at this
        exact (hm x).mp this
      · intro c hcq
        obtain ⟨rows, hs, e, ev, hm⟩ := scan_cond_ok H hc hq c hcq h
        have := hall (hashesOf (condRows db c h)) (Or.inr ⟨c, hcq, rfl⟩)
        rw [e, hashesOf_some _ _ ev] at this
        exact (hm x).mp this
    · rintro ⟨hR, hC⟩ hs' (⟨W, hW, rfl⟩ | ⟨c, hcq, rfl⟩)
      · obtain ⟨hs, ev, hm⟩ := scan_range_ok H hc hq W hW
        rw [hashesOf_some _ _ ev]
        exact (hm x).mpr (hR W hW)
      · obtain ⟨rows, hs, e, ev, hm⟩ := scan_cond_ok H hc hq c hcq h
        rw [e, hashesOf_some _ _ ev]
        exact (hm x).mpr (hC c hcq)

end Tmv.Index
