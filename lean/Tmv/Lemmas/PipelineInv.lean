import Tmv.Lemmas.Pipeline
/-! The crash invariant of the commit pipeline (C05) and its preservation by `finalizeCommit`,
by the handshake, and by a crash after any prefix of either. -/
namespace Tmv.Pipeline

/-- state at `n` (canonical app hash), block store at `st`, application at `ah` with open
execution `p` and a journal the grammar accepts -/
structure DInv (c : Chain) (d : Disk) (n st ah : Nat) (p : Option Pending) : Prop where
  stateH : d.stateH = n
  stateHash : d.stateHash = hist c n
  storeH : d.storeH = st
  app : AppAt c d.app ah p

/-- all three cursors at `n`, nothing open -/
def Good (c : Chain) (d : Disk) (n : Nat) : Prop := DInv c d n n n none

/-- what a crash can leave: the three cursors differ by at most one, in the order
state ≤ app ≤ store, and when the application is ahead of the state the responses of that block
are the ones saved last -/
def Inv (c : Chain) (d : Disk) : Prop :=
  ∃ n, DInv c d n n n none ∨ DInv c d n (n + 1) n none ∨
    (DInv c d n (n + 1) (n + 1) none ∧ d.lastResp = some (n + 1))

/-- the predicate carried over every prefix: dying here leaves an `Inv` disk -/
def CrashOK (c : Chain) (d : Disk) : Prop := Inv c (crash d)

theorem DInv.crash {c d n st ah p} (h : DInv c d n st ah p) : DInv c (crash d) n st ah none :=
  ⟨h.stateH, h.stateHash, h.storeH, h.app.restart⟩

theorem crashOK_same {c d n p} (h : DInv c d n n n p) : CrashOK c d := ⟨n, .inl h.crash⟩
theorem crashOK_store {c d n p} (h : DInv c d n (n + 1) n p) : CrashOK c d := ⟨n, .inr (.inl h.crash)⟩
theorem crashOK_app {c d n} (h : DInv c d n (n + 1) (n + 1) none) (hr : d.lastResp = some (n + 1)) :
    CrashOK c d := ⟨n, .inr (.inr ⟨h.crash, by simpa [Pipeline.crash] using hr⟩)⟩

/-- the deliver loop of `execBlockOnProxyApp` -/
theorem deliver_run {c : Chain} {n st : Nat} (Q : Disk → Prop)
    (hQ : ∀ d' p, DInv c d' n st n p → Q d') :
    ∀ (rest pre : List Tx) (d : Disk), pre ++ rest = c (n + 1) →
      DInv c d n st n (some ⟨n + 1, pre, false⟩) →
      PrefAll Q d (rest.map (Eff.deliver (n + 1))) ∧
        DInv c (applyEffs d (rest.map (Eff.deliver (n + 1)))) n st n (some ⟨n + 1, c (n + 1), false⟩)
  | [], pre, d, hp, h => by
    have : pre = c (n + 1) := by simpa using hp
    subst this
    exact ⟨hQ _ _ h, by simpa [applyEffs] using h⟩
  | tx :: rest, pre, d, hp, h => by
    have hget : (c (n + 1))[pre.length]? = some tx := by
      rw [← hp]; simp
    have h' : DInv c (applyEff d (.deliver (n + 1) tx)) n st n (some ⟨n + 1, pre ++ [tx], false⟩) :=
      ⟨h.stateH, h.stateHash, h.storeH, h.app.deliver hget⟩
    have ih := deliver_run Q hQ rest (pre ++ [tx]) _ (by simpa using hp) h'
    exact ⟨⟨hQ _ _ h, ih.1⟩, by simpa [applyEffs] using ih.2⟩

/-- `execBlockOnProxyApp`: Begin, the block's txs in order, End -/
theorem exec_run {c : Chain} {d : Disk} {n st : Nat} (Q : Disk → Prop)
    (hQ : ∀ d' p, DInv c d' n st n p → Q d') (h : DInv c d n st n none) :
    PrefAll Q d (execEffs c (n + 1)) ∧
      DInv c (applyEffs d (execEffs c (n + 1))) n st n (some ⟨n + 1, c (n + 1), true⟩) := by
  have hb : DInv c (applyEff d (.begin (n + 1))) n st n (some ⟨n + 1, [], false⟩) :=
    ⟨h.stateH, h.stateHash, h.storeH, h.app.begin⟩
  have hd := deliver_run Q hQ (c (n + 1)) [] _ (by simp) hb
  have he : DInv c (applyEff (applyEffs (applyEff d (.begin (n + 1))) ((c (n + 1)).map (Eff.deliver (n + 1))))
      (.endBlock (n + 1))) n st n (some ⟨n + 1, c (n + 1), true⟩) :=
    ⟨hd.2.stateH, hd.2.stateHash, hd.2.storeH, hd.2.app.endBlock⟩
  unfold execEffs
  refine ⟨?_, ?_⟩
  · refine PrefAll.append (PrefAll.append ⟨hQ _ _ h, hQ _ _ hb⟩ ?_) ?_
    · simpa [applyEffs] using hd.1
    · simp only [applyEffs_append]
      exact ⟨by simpa [applyEffs] using hQ _ _ hd.2, by simpa [applyEffs, PrefAll] using hQ _ _ he⟩
  · simpa [applyEffs] using he

/-- `ApplyBlock` on the real application, block already in the store -/
theorem applyBlockReal_run {c : Chain} {d : Disk} {n : Nat} (h : DInv c d n (n + 1) n none) :
    PrefAll (CrashOK c) d (applyBlockReal c (n + 1)) ∧
      Good c (applyEffs d (applyBlockReal c (n + 1))) (n + 1) := by
  have hx := exec_run (CrashOK c) (fun _ _ h' => crashOK_store h') h
  let d1 := applyEffs d (execEffs c (n + 1))
  have h1 : DInv c d1 n (n + 1) n (some ⟨n + 1, c (n + 1), true⟩) := hx.2
  let d2 := applyEff d1 (.saveResp (n + 1))
  have h2 : DInv c d2 n (n + 1) n (some ⟨n + 1, c (n + 1), true⟩) :=
    ⟨h1.stateH, h1.stateHash, h1.storeH, h1.app⟩
  let d3 := applyEff d2 .appCommit
  have h3 : DInv c d3 n (n + 1) (n + 1) none := ⟨h2.stateH, h2.stateHash, h2.storeH, h2.app.commit⟩
  have h3r : d3.lastResp = some (n + 1) := rfl
  let d4 := applyEff d3 (.saveState (n + 1))
  have h4 : DInv c d4 (n + 1) (n + 1) (n + 1) none :=
    ⟨rfl, h3.app.hash, h3.storeH, h3.app⟩
  unfold applyBlockReal
  refine ⟨PrefAll.append hx.1 ?_, ?_⟩
  · exact ⟨crashOK_store h1, crashOK_store h2, crashOK_app h3 h3r, crashOK_same h4⟩
  · show DInv c (applyEffs d _) _ _ _ _
    rw [applyEffs_append]
    exact h4

/-- `ApplyBlock` on the mock application: the real one is not called -/
theorem applyBlockMock_run {c : Chain} {d : Disk} {n : Nat} (h : DInv c d n (n + 1) (n + 1) none)
    (hr : d.lastResp = some (n + 1)) :
    PrefAll (CrashOK c) d (applyBlockMock (n + 1)) ∧
      Good c (applyEffs d (applyBlockMock (n + 1))) (n + 1) := by
  let d1 := applyEff d (.saveResp (n + 1))
  have h1 : DInv c d1 n (n + 1) (n + 1) none := ⟨h.stateH, h.stateHash, h.storeH, h.app⟩
  let d2 := applyEff d1 (.saveState (n + 1))
  have h2 : DInv c d2 (n + 1) (n + 1) (n + 1) none := ⟨rfl, h1.app.hash, h1.storeH, h1.app⟩
  exact ⟨⟨crashOK_app h hr, crashOK_app h1 rfl, crashOK_same h2⟩, by simpa [applyEffs, applyBlockMock, Good] using h2⟩

/-! ## the WAL marker / privval layer -/

/-- effects that leave block-store height, WAL marker and privval height alone -/
def quiet : Eff → Bool
  | .signVote _ => false
  | .saveBlock _ => false
  | .walEnd _ => false
  | _ => true

/-- a vote of the height in progress (store + 1) is only ever signed when the WAL holds the
previous height's #ENDHEIGHT, so that the vote's WAL record can be replayed -/
def WInv (d : Disk) : Prop := d.pvH ≤ d.storeH + 1 ∧ (d.pvH = d.storeH + 1 → d.walEnd = d.storeH)

theorem applyEff_quiet {d : Disk} {e : Eff} (h : quiet e = true) :
    (applyEff d e).storeH = d.storeH ∧ (applyEff d e).walEnd = d.walEnd ∧ (applyEff d e).pvH = d.pvH := by
  cases e <;> simp [quiet] at h <;> simp [applyEff]

theorem applyEffs_quiet {d : Disk} {es : List Eff} (h : ∀ e ∈ es, quiet e = true) :
    (applyEffs d es).storeH = d.storeH ∧ (applyEffs d es).walEnd = d.walEnd ∧ (applyEffs d es).pvH = d.pvH := by
  induction es generalizing d with
  | nil => simp [applyEffs]
  | cons e es ih =>
    have h1 := applyEff_quiet (d := d) (h e (by simp))
    have h2 := ih (d := applyEff d e) (fun e' he' => h e' (by simp [he']))
    simp only [applyEffs, List.foldl_cons] at h2 ⊢
    exact ⟨h2.1.trans h1.1, h2.2.1.trans h1.2.1, h2.2.2.trans h1.2.2⟩

theorem WInv.congr {d d' : Disk} (h : WInv d) (h1 : d'.storeH = d.storeH) (h2 : d'.walEnd = d.walEnd)
    (h3 : d'.pvH = d.pvH) : WInv d' := by
  unfold WInv at *; rw [h1, h2, h3]; exact h

theorem PrefAll.and {Q1 Q2 : Disk → Prop} {d : Disk} {es : List Eff} (h1 : PrefAll Q1 d es)
    (h2 : PrefAll Q2 d es) : PrefAll (fun x => Q1 x ∧ Q2 x) d es := by
  induction es generalizing d with
  | nil => exact ⟨h1, h2⟩
  | cons e es ih => exact ⟨⟨h1.1, h2.1⟩, ih h1.2 h2.2⟩

theorem PrefAll.winv_quiet {d : Disk} {es : List Eff} (h : WInv d) (hq : ∀ e ∈ es, quiet e = true) :
    PrefAll WInv d es := by
  induction es generalizing d with
  | nil => exact h
  | cons e es ih =>
    have h1 := applyEff_quiet (d := d) (hq e (by simp))
    exact ⟨h, ih (h.congr h1.1 h1.2.1 h1.2.2) (fun e' he' => hq e' (by simp [he']))⟩

theorem quiet_exec (c : Chain) (h : Nat) : ∀ e ∈ execEffs c h, quiet e = true := by
  intro e he
  simp only [execEffs, List.mem_append, List.mem_cons, List.mem_map, List.not_mem_nil, or_false] at he
  rcases he with (rfl | ⟨tx, _, rfl⟩) | rfl <;> rfl

theorem quiet_real (c : Chain) (h : Nat) : ∀ e ∈ applyBlockReal c h, quiet e = true := by
  intro e he
  simp only [applyBlockReal, List.mem_append, List.mem_cons, List.not_mem_nil, or_false] at he
  rcases he with he | rfl | rfl | rfl
  · exact quiet_exec c h e he
  all_goals rfl

theorem quiet_mock (h : Nat) : ∀ e ∈ applyBlockMock h, quiet e = true := by
  intro e he
  simp only [applyBlockMock, List.mem_cons, List.not_mem_nil, or_false] at he
  rcases he with rfl | rfl <;> rfl

/-- the predicate carried over every prefix of a running node's programs -/
def StepOK (c : Chain) (d : Disk) : Prop := CrashOK c d ∧ WInv d

/-- deciding height `n+1` on a synced node whose WAL holds #ENDHEIGHT `n`: enabled, every crash
prefix leaves an `Inv`/`WInv` disk, the complete run leaves a synced node at `n+1` with its marker -/
theorem finalize_run {c : Chain} {d : Disk} {n : Nat} (h : Good c d n) (hw : d.walEnd = n)
    (hwi : WInv d) (hgs : d.genesisSaved = true) :
    ∃ es, finalizeEffs c d (d.stateH + 1) = some es ∧ PrefAll (StepOK c) d es ∧
      Good c (applyEffs d es) (n + 1) ∧ (applyEffs d es).walEnd = n + 1 ∧ WInv (applyEffs d es) := by
  have hs := h.stateH
  have hv : validBlock c d (n + 1) = true := by
    simp [validBlock, h.stateH, h.stateHash, hgs]
  have hlt : d.storeH < n + 1 := by rw [h.storeH]; omega
  let d0 := applyEff d (.signVote (n + 1))
  have h0 : DInv c d0 n n n none := ⟨h.stateH, h.stateHash, h.storeH, h.app⟩
  let d1 := applyEff d0 (.saveBlock (n + 1))
  have h1 : DInv c d1 n (n + 1) n none := ⟨h.stateH, h.stateHash, rfl, h.app⟩
  let d2 := applyEff d1 (.walEnd (n + 1))
  have h2 : DInv c d2 n (n + 1) n none := ⟨h1.stateH, h1.stateHash, h1.storeH, h1.app⟩
  have hr := applyBlockReal_run h2
  have w0 : WInv d0 := ⟨by show n + 1 ≤ d.storeH + 1; rw [h.storeH]; omega, fun _ => by show d.walEnd = d.storeH; rw [hw, h.storeH]⟩
  have w1 : WInv d1 := ⟨by show n + 1 ≤ n + 1 + 1; omega, fun e => by have : n + 1 = n + 1 + 1 := e; omega⟩
  have w2 : WInv d2 := ⟨by show n + 1 ≤ n + 1 + 1; omega, fun e => by have : n + 1 = n + 1 + 1 := e; omega⟩
  have hq := applyEffs_quiet (d := d2) (quiet_real c (n + 1))
  refine ⟨[.signVote (n + 1)] ++ [.saveBlock (n + 1)] ++ [.walEnd (n + 1)] ++ applyBlockReal c (n + 1), ?_, ?_, ?_, ?_, ?_⟩
  · simp [finalizeEffs, hs, hv, hlt]
  · exact ⟨⟨crashOK_same h, hwi⟩, ⟨crashOK_same h0, w0⟩, ⟨crashOK_store h1, w1⟩,
      PrefAll.and hr.1 (PrefAll.winv_quiet w2 (quiet_real c (n + 1)))⟩
  · simpa [applyEffs] using hr.2
  · have : (applyEffs d2 (applyBlockReal c (n + 1))).walEnd = n + 1 := hq.2.1
    simpa [applyEffs] using this
  · have : WInv (applyEffs d2 (applyBlockReal c (n + 1))) := w2.congr hq.1 hq.2.1 hq.2.2
    simpa [applyEffs] using this

/-- InitChain (+ genesis state save) on a disk whose application has committed nothing -/
theorem initChain_run {c : Chain} {d : Disk} {st : Nat} (h : DInv c d 0 st 0 none)
    (hQ : ∀ d', DInv c d' 0 st 0 none → CrashOK c d') :
    PrefAll (CrashOK c) d [.initChain, .saveGenesis] ∧
      DInv c (applyEffs d [.initChain, .saveGenesis]) 0 st 0 none ∧
      (applyEffs d [.initChain, .saveGenesis]).genesisSaved = true := by
  have h1 : DInv c (applyEff d .initChain) 0 st 0 none :=
    ⟨h.stateH, h.stateHash, h.storeH, h.app.initChain⟩
  have h2 : DInv c (applyEff (applyEff d .initChain) .saveGenesis) 0 st 0 none :=
    ⟨h.stateH, h.stateHash, h.storeH, h.app.initChain⟩
  exact ⟨⟨hQ _ h, hQ _ h1, hQ _ h2⟩, h2, rfl⟩

theorem applyEff_gs {d : Disk} {e : Eff} (h : d.genesisSaved = true) : (applyEff d e).genesisSaved = true := by
  cases e <;> simp [applyEff, h]

theorem applyEffs_gs {d : Disk} {es : List Eff} (h : d.genesisSaved = true) :
    (applyEffs d es).genesisSaved = true := by
  induction es generalizing d with
  | nil => simpa [applyEffs] using h
  | cons e es ih => simpa [applyEffs] using ih (applyEff_gs (e := e) h)

/-- the handshake on any disk a crash can leave: it completes (`ok`), every crash prefix of the
recovery leaves an `Inv` disk again, and the completed recovery leaves the three cursors equal -/
theorem handshake_run {c : Chain} {d : Disk} (h : Inv c d) (hgen : 0 < d.storeH → d.genesisSaved = true) :
    (handshake c d).outcome = .ok ∧ PrefAll (CrashOK c) d (handshake c d).effs ∧
      (∃ m, Good c (applyEffs d (handshake c d).effs) m) ∧
      (∀ e ∈ (handshake c d).effs, quiet e = true) ∧
      (applyEffs d (handshake c d).effs).genesisSaved = true := by
  obtain ⟨n, h | h | ⟨h, hr⟩⟩ := h
  · -- synced
    have ha := h.app.height; have hs := h.storeH; have ht := h.stateH
    have hh : d.app.hash = d.stateHash := by rw [h.app.hash, h.stateHash]
    cases n with
    | zero =>
      have hi := initChain_run h (fun _ h' => crashOK_same h')
      have : handshake c d = ⟨[.initChain, .saveGenesis], .storeEmpty, .ok, 0⟩ := by
        simp [handshake, ha, hs, ht, hh]
      rw [this]
      exact ⟨rfl, hi.1, ⟨0, hi.2.1⟩, (by intro e he; simp at he; rcases he with rfl | rfl <;> rfl), hi.2.2⟩
    | succ n =>
      have : handshake c d = ⟨[], .synced, .ok, 0⟩ := by
        simp [handshake, ha, hs, ht, hh]
      rw [this]
      exact ⟨rfl, crashOK_same h, ⟨n + 1, h⟩, by simp, by simpa [applyEffs] using hgen (by rw [hs]; omega)⟩
  · -- block saved, not executed: replay the last block on the real application
    have ha := h.app.height; have hs := h.storeH; have ht := h.stateH
    cases n with
    | zero =>
      have hi := initChain_run h (fun _ h' => crashOK_store h')
      have hv : validBlock c (applyEffs d [.initChain, .saveGenesis]) 1 = true := by
        simp [validBlock, hi.2.1.stateH, hi.2.1.stateHash, hi.2.2]
      have : handshake c d = ⟨[.initChain, .saveGenesis] ++ applyBlockReal c 1, .lastReal, .ok, 1⟩ := by
        simp [handshake, ha, hs, ht, hv]
      rw [this]
      have hr := applyBlockReal_run hi.2.1
      exact ⟨rfl, PrefAll.append hi.1 hr.1, ⟨1, by rw [applyEffs_append]; exact hr.2⟩, by
        intro e he
        rcases List.mem_append.mp he with he | he
        · simp at he; rcases he with rfl | rfl <;> rfl
        · exact quiet_real c 1 e he, by rw [applyEffs_append]; exact applyEffs_gs hi.2.2⟩
    | succ n =>
      have hv : validBlock c (applyEffs d []) (n + 1 + 1) = true := by
        simp [validBlock, applyEffs, h.stateH, h.stateHash]
      have : handshake c d = ⟨applyBlockReal c (n + 1 + 1), .lastReal, .ok, 1⟩ := by
        have e1 : ¬ (n + 1 < n) := by omega
        simp [handshake, ha, hs, ht, hv, e1]
      rw [this]
      have hr := applyBlockReal_run h
      exact ⟨rfl, hr.1, ⟨n + 1 + 1, hr.2⟩, quiet_real c (n + 1 + 1), applyEffs_gs (hgen (by rw [hs]; omega))⟩
  · -- application committed, state not saved: replay with the mock application
    have ha := h.app.height; have hs := h.storeH; have ht := h.stateH
    have hgs : d.genesisSaved = true := hgen (by rw [hs]; omega)
    have hv : validBlock c (applyEffs d []) (n + 1) = true := by
      simp [validBlock, applyEffs, h.stateH, h.stateHash, hgs]
    have : handshake c d = ⟨applyBlockMock (n + 1), .lastMock, .ok, 1⟩ := by
      have e1 : ¬ (n + 1 < n) := by omega
      simp [handshake, ha, hs, ht, hv, hr, e1]
    rw [this]
    have hm := applyBlockMock_run h hr
    exact ⟨rfl, hm.1, ⟨n + 1, hm.2⟩, quiet_mock (n + 1), applyEffs_gs hgs⟩

/-- a complete (re)start — handshake, then the repaired `catchupReplay` writing a missing marker —
on any disk a crash can leave: every crash prefix leaves an `Inv`/`WInv` disk; run to completion
the three cursors are equal, the WAL holds the marker of that height, and the node is live -/
theorem start_run {c : Chain} {d : Disk} (h : Inv c d) (hw : WInv d)
    (hgen : 0 < d.storeH → d.genesisSaved = true) :
    (handshake c d).outcome = .ok ∧ PrefAll (StepOK c) d (startEffs c d) ∧
      (∃ m, Good c (applyEffs d (startEffs c d)) m) ∧
      (applyEffs d (startEffs c d)).walEnd = (applyEffs d (startEffs c d)).stateH ∧
      WInv (applyEffs d (startEffs c d)) ∧ liveAfter c d = true ∧
      (applyEffs d (startEffs c d)).genesisSaved = true := by
  obtain ⟨hok, hpre, ⟨m, hg⟩, hq, hgs⟩ := handshake_run h hgen
  have hf := applyEffs_quiet (d := d) hq
  let d' := applyEffs d (handshake c d).effs
  have hw' : WInv d' := hw.congr hf.1 hf.2.1 hf.2.2
  have hst : d'.storeH = m := hg.storeH
  have hsh : d'.stateH = m := hg.stateH
  have hpre' : PrefAll (StepOK c) d (handshake c d).effs := PrefAll.and hpre (PrefAll.winv_quiet hw hq)
  have hlive : liveAfter c d = true := by
    simp only [liveAfter, Bool.or_eq_true, decide_eq_true_eq]
    show d'.walEnd = d'.stateH ∨ d'.pvH ≤ d'.stateH
    have h1 := hw'.1
    by_cases hp : d'.pvH = d'.storeH + 1
    · left; rw [hw'.2 hp, hst, hsh]
    · right; rw [hsh]; rw [hst] at h1 hp; omega
  by_cases hm : d'.walEnd = d'.stateH
  · have : startEffs c d = (handshake c d).effs := by
      simp only [startEffs, hok, if_true]
      have : ¬ (applyEffs d (handshake c d).effs).walEnd ≠ (applyEffs d (handshake c d).effs).stateH := by
        simpa using hm
      simp [this]
    rw [this]
    exact ⟨hok, hpre', ⟨m, hg⟩, hm, hw', hlive, hgs⟩
  · have : startEffs c d = (handshake c d).effs ++ [.walEnd d'.stateH] := by
      simp only [startEffs, hok, if_true]
      have : (applyEffs d (handshake c d).effs).walEnd ≠ (applyEffs d (handshake c d).effs).stateH := hm
      simp [this, d']
    rw [this]
    have hg2 : Good c (applyEff d' (.walEnd d'.stateH)) m := ⟨hg.stateH, hg.stateHash, hg.storeH, hg.app⟩
    have hw2 : WInv (applyEff d' (.walEnd d'.stateH)) :=
      ⟨hw'.1, fun _ => by show d'.stateH = d'.storeH; rw [hsh, hst]⟩
    refine ⟨hok, PrefAll.append hpre' ⟨⟨crashOK_same hg, hw'⟩, ⟨crashOK_same hg2, hw2⟩⟩, ⟨m, ?_⟩, ?_, ?_, hlive, ?_⟩
    · rw [applyEffs_append]; exact hg2
    · rw [applyEffs_append]; rfl
    · rw [applyEffs_append]; exact hw2
    · rw [applyEffs_append]; exact applyEffs_gs hgs

/-- block 1 can only be in the store after the genesis state was completed and saved -/
def GenOK (d : Disk) : Prop := 0 < d.storeH → d.genesisSaved = true

theorem PrefAll.gs {d : Disk} {es : List Eff} (h : d.genesisSaved = true) : PrefAll GenOK d es := by
  induction es generalizing d with
  | nil => exact fun _ => h
  | cons e es ih => exact ⟨fun _ => h, ih (applyEff_gs h)⟩

theorem genOK_step {d : Disk} {e : Eff} (h : GenOK d) (hs : ∀ x, e ≠ .saveBlock x) : GenOK (applyEff d e) := by
  cases e <;> first | exact absurd rfl (hs _) | (intro hp; first | exact h hp | rfl)

theorem PrefAll.genOK {d : Disk} {es : List Eff} (h : GenOK d) (hs : ∀ e ∈ es, ∀ x, e ≠ .saveBlock x) :
    PrefAll GenOK d es := by
  induction es generalizing d with
  | nil => exact h
  | cons e es ih =>
    exact ⟨h, ih (genOK_step h (hs e (by simp))) (fun e' he' => hs e' (by simp [he']))⟩

theorem startEffs_no_saveBlock {c : Chain} {d : Disk} (hq : ∀ e ∈ (handshake c d).effs, quiet e = true) :
    ∀ e ∈ startEffs c d, ∀ x, e ≠ .saveBlock x := by
  intro e he x hx
  subst hx
  simp only [startEffs] at he
  split at he
  · rcases List.mem_append.mp he with he | he
    · have := hq _ he; simp [quiet] at this
    · split at he <;> simp at he
  · have := hq _ he; simp [quiet] at this

end Tmv.Pipeline
