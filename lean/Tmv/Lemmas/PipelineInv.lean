import Tmv.Lemmas.Pipeline
/-! The crash invariant of the commit pipeline (C05) and its preservation by `finalizeCommit`,
by the handshake (including the replay of any number of blocks to an application that is behind),
and by a crash after any prefix of either. Positions are block indexes (`ht c k` = height of the
k-th block, `ht c 0 = 0`), so that a genesis `InitialHeight` above 1 is covered. -/
namespace Tmv.Pipeline

/-- state after `k` blocks (canonical app hash), block store after `st` blocks, application after
`a` blocks with open execution `p` and a journal the grammar accepts -/
theorem ht_le (c : Chain) {a b : Nat} (h : a ≤ b) : ht c a ≤ ht c b := by
  rcases Nat.lt_or_eq_of_le h with e | e
  · exact Nat.le_of_lt (ht_lt c e)
  · rw [e]; exact Nat.le_refl _

/-- pruning never got ahead of what recovery needs: the block store's base is at most the block
after the application's, and the state store still has the validator sets from the application's
and the state's block on -/
def PruneOK (c : Chain) (d : Disk) (k a : Nat) : Prop :=
  d.storeBase ≤ ht c (a + 1) ∧ d.statesBase ≤ ht c a ∧ d.statesBase ≤ ht c k

theorem PruneOK.appSucc {c : Chain} {d : Disk} {k a : Nat} (h : PruneOK c d k a) : PruneOK c d k (a + 1) :=
  ⟨Nat.le_trans h.1 (ht_le c (by omega)), Nat.le_trans h.2.1 (ht_le c (by omega)), h.2.2⟩

theorem PruneOK.stateSucc {c : Chain} {d : Disk} {k a : Nat} (h : PruneOK c d k a) : PruneOK c d (k + 1) a :=
  ⟨h.1, h.2.1, Nat.le_trans h.2.2 (ht_le c (by omega))⟩

theorem hlowA_of {c : Chain} {d : Disk} {k a : Nat} (hp : PruneOK c d k a) (ha : d.app.height = ht c a) :
    ¬ (d.app.height = 0 ∧ c.ih < d.storeBase) := by
  intro ⟨h0, h1⟩
  have : a = 0 := by
    cases a with
    | zero => rfl
    | succ a' => have := ht_pos c a'; omega
  subst this
  have := hp.1
  simp [ht, Chain.ih] at this h1
  omega

theorem hlowB_of {c : Chain} {d : Disk} {k a : Nat} (hp : PruneOK c d k a) (ha : d.app.height = ht c a) :
    ¬ (0 < d.app.height ∧ d.app.height < d.storeBase - 1) := by
  intro ⟨h0, h1⟩
  have hb := hp.1
  cases a with
  | zero => rw [ha] at h0; simp at h0
  | succ a' =>
    rw [ha] at h1
    rw [ht_succ] at hb h1
    omega

/-- the validator set needed to execute block `a+1` on an application after `a` blocks is there -/
theorem valsOK_of {c : Chain} {d : Disk} {a b : Nat} (hs : d.statesBase ≤ ht c a) (hab : a ≤ b) :
    valsOK c d (ht c (b + 1)) = true := by
  simp only [valsOK, Bool.or_eq_true, decide_eq_true_eq]
  cases b with
  | zero => left; left; simp [ht, Chain.ih]
  | succ b' =>
    left; right
    have h1 : ht c (b' + 1 + 1) - 1 = ht c (b' + 1) := by rw [ht_succ, ht_succ]; omega
    rw [h1]
    exact Nat.le_trans hs (ht_le c hab)

structure DInv (c : Chain) (d : Disk) (k st a : Nat) (p : Option Pending) : Prop where
  stateH : d.stateH = ht c k
  stateHash : d.stateHash = histK c k
  storeH : d.storeH = ht c st
  app : AppAt c d.app a p
  pr : PruneOK c d k a

/-- all three cursors after `k` blocks, nothing open -/
def Good (c : Chain) (d : Disk) (k : Nat) : Prop := DInv c d k k k none

/-- what crashes and snapshot restores of the application can leave: the store is at the state or
one block ahead; the application is anywhere at or behind the state, or (with the store) one block
ahead of it, and then the responses of that block are the ones saved last -/
def Inv (c : Chain) (d : Disk) : Prop :=
  ∃ k, (∃ a, a ≤ k ∧ (DInv c d k k a none ∨ DInv c d k (k + 1) a none)) ∨
    (DInv c d k (k + 1) (k + 1) none ∧ d.lastResp = some (ht c (k + 1)))

/-- the predicate carried over every prefix: dying here leaves an `Inv` disk -/
def CrashOK (c : Chain) (d : Disk) : Prop := Inv c (crash d)

theorem DInv.crash {c d n st ah p} (h : DInv c d n st ah p) : DInv c (crash d) n st ah none :=
  ⟨h.stateH, h.stateHash, h.storeH, h.app.restart, h.pr⟩

theorem crashOK_behind {c d k st a p} (h : DInv c d k st a p) (ha : a ≤ k) (hst : st = k ∨ st = k + 1) :
    CrashOK c d := by
  cases hst with
  | inl e => exact ⟨k, .inl ⟨a, ha, .inl (e ▸ h.crash)⟩⟩
  | inr e => exact ⟨k, .inl ⟨a, ha, .inr (e ▸ h.crash)⟩⟩

theorem crashOK_same {c d n p} (h : DInv c d n n n p) : CrashOK c d :=
  crashOK_behind h (Nat.le_refl _) (.inl rfl)
theorem crashOK_store {c d n p} (h : DInv c d n (n + 1) n p) : CrashOK c d :=
  crashOK_behind h (Nat.le_refl _) (.inr rfl)
theorem crashOK_app {c d n} (h : DInv c d n (n + 1) (n + 1) none) (hr : d.lastResp = some (ht c (n + 1))) :
    CrashOK c d := ⟨n, .inr ⟨h.crash, by simpa [Pipeline.crash] using hr⟩⟩

/-- the deliver loop of `execBlockOnProxyApp` (block `a+1` on an application after `a` blocks) -/
theorem deliver_run {c : Chain} {k st a : Nat} (Q : Disk → Prop)
    (hQ : ∀ d' p, DInv c d' k st a p → Q d') :
    ∀ (rest pre : List Tx) (d : Disk), pre ++ rest = c (ht c (a + 1)) →
      DInv c d k st a (some ⟨ht c (a + 1), pre, false⟩) →
      PrefAll Q d (rest.map (Eff.deliver (ht c (a + 1)))) ∧
        DInv c (applyEffs d (rest.map (Eff.deliver (ht c (a + 1))))) k st a
          (some ⟨ht c (a + 1), c (ht c (a + 1)), false⟩)
  | [], pre, d, hp, h => by
    have : pre = c (ht c (a + 1)) := by simpa using hp
    subst this
    exact ⟨hQ _ _ h, by simpa [applyEffs] using h⟩
  | tx :: rest, pre, d, hp, h => by
    have hget : (c (ht c (a + 1)))[pre.length]? = some tx := by
      rw [← hp]; simp
    have h' : DInv c (applyEff d (.deliver (ht c (a + 1)) tx)) k st a (some ⟨ht c (a + 1), pre ++ [tx], false⟩) :=
      ⟨h.stateH, h.stateHash, h.storeH, h.app.deliver hget, h.pr⟩
    have ih := deliver_run Q hQ rest (pre ++ [tx]) _ (by simpa using hp) h'
    exact ⟨⟨hQ _ _ h, ih.1⟩, by simpa [applyEffs] using ih.2⟩

/-- `execBlockOnProxyApp`: Begin, the block's txs in order, End -/
theorem exec_run {c : Chain} {d : Disk} {k st a : Nat} (Q : Disk → Prop)
    (hQ : ∀ d' p, DInv c d' k st a p → Q d') (h : DInv c d k st a none) :
    PrefAll Q d (execEffs c (ht c (a + 1))) ∧
      DInv c (applyEffs d (execEffs c (ht c (a + 1)))) k st a
        (some ⟨ht c (a + 1), c (ht c (a + 1)), true⟩) := by
  have hb : DInv c (applyEff d (.begin (ht c (a + 1)))) k st a (some ⟨ht c (a + 1), [], false⟩) :=
    ⟨h.stateH, h.stateHash, h.storeH, h.app.begin, h.pr⟩
  have hd := deliver_run Q hQ (c (ht c (a + 1))) [] _ (by simp) hb
  have he : DInv c (applyEff (applyEffs (applyEff d (.begin (ht c (a + 1))))
      ((c (ht c (a + 1))).map (Eff.deliver (ht c (a + 1))))) (.endBlock (ht c (a + 1)))) k st a
      (some ⟨ht c (a + 1), c (ht c (a + 1)), true⟩) :=
    ⟨hd.2.stateH, hd.2.stateHash, hd.2.storeH, hd.2.app.endBlock, hd.2.pr⟩
  unfold execEffs
  refine ⟨?_, ?_⟩
  · refine PrefAll.append (PrefAll.append ⟨hQ _ _ h, hQ _ _ hb⟩ ?_) ?_
    · simpa [applyEffs] using hd.1
    · simp only [applyEffs_append]
      exact ⟨by simpa [applyEffs] using hQ _ _ hd.2, by simpa [applyEffs, PrefAll] using hQ _ _ he⟩
  · simpa [applyEffs] using he

/-- `sm.ExecCommitBlock` of block `a+1` on an application that is behind the state -/
theorem execCommit_run {c : Chain} {d : Disk} {k st a : Nat} (ha : a + 1 ≤ k) (hst : st = k ∨ st = k + 1)
    (h : DInv c d k st a none) :
    PrefAll (CrashOK c) d (execCommit c (ht c (a + 1))) ∧
      DInv c (applyEffs d (execCommit c (ht c (a + 1)))) k st (a + 1) none := by
  have hx := exec_run (CrashOK c) (fun _ _ h' => crashOK_behind h' (by omega) hst) h
  have h2 : DInv c (applyEff (applyEffs d (execEffs c (ht c (a + 1)))) .appCommit) k st (a + 1) none :=
    ⟨hx.2.stateH, hx.2.stateHash, hx.2.storeH, hx.2.app.commit, hx.2.pr.appSucc⟩
  unfold execCommit
  refine ⟨PrefAll.append hx.1 ⟨crashOK_behind hx.2 (by omega) hst, crashOK_behind h2 ha hst⟩, ?_⟩
  rw [applyEffs_append]
  exact h2

/-- `ApplyBlock` on the real application, block already in the store -/
theorem applyBlockReal_run {c : Chain} {d : Disk} {n : Nat} (h : DInv c d n (n + 1) n none) :
    PrefAll (CrashOK c) d (applyBlockReal c (ht c (n + 1))) ∧
      Good c (applyEffs d (applyBlockReal c (ht c (n + 1)))) (n + 1) := by
  have hx := exec_run (CrashOK c) (fun _ _ h' => crashOK_store h') h
  let d1 := applyEffs d (execEffs c (ht c (n + 1)))
  have h1 : DInv c d1 n (n + 1) n (some ⟨ht c (n + 1), c (ht c (n + 1)), true⟩) := hx.2
  let d2 := applyEff d1 (.saveResp (ht c (n + 1)))
  have h2 : DInv c d2 n (n + 1) n (some ⟨ht c (n + 1), c (ht c (n + 1)), true⟩) :=
    ⟨h1.stateH, h1.stateHash, h1.storeH, h1.app, h1.pr⟩
  let d3 := applyEff d2 .appCommit
  have h3 : DInv c d3 n (n + 1) (n + 1) none := ⟨h2.stateH, h2.stateHash, h2.storeH, h2.app.commit, h2.pr.appSucc⟩
  have h3r : d3.lastResp = some (ht c (n + 1)) := rfl
  let d4 := applyEff d3 (.saveState (ht c (n + 1)))
  have h4 : DInv c d4 (n + 1) (n + 1) (n + 1) none :=
    ⟨rfl, h3.app.hash, h3.storeH, h3.app, h3.pr.stateSucc⟩
  unfold applyBlockReal
  refine ⟨PrefAll.append hx.1 ?_, ?_⟩
  · exact ⟨crashOK_store h1, crashOK_store h2, crashOK_app h3 h3r, crashOK_same h4⟩
  · show DInv c (applyEffs d _) _ _ _ _
    rw [applyEffs_append]
    exact h4

/-- `ApplyBlock` on the mock application: the real one is not called -/
theorem applyBlockMock_run {c : Chain} {d : Disk} {n : Nat} (h : DInv c d n (n + 1) (n + 1) none)
    (hr : d.lastResp = some (ht c (n + 1))) :
    PrefAll (CrashOK c) d (applyBlockMock (ht c (n + 1))) ∧
      Good c (applyEffs d (applyBlockMock (ht c (n + 1)))) (n + 1) := by
  let d1 := applyEff d (.saveResp (ht c (n + 1)))
  have h1 : DInv c d1 n (n + 1) (n + 1) none := ⟨h.stateH, h.stateHash, h.storeH, h.app, h.pr⟩
  let d2 := applyEff d1 (.saveState (ht c (n + 1)))
  have h2 : DInv c d2 (n + 1) (n + 1) (n + 1) none := ⟨rfl, h1.app.hash, h1.storeH, h1.app, h1.pr.stateSucc⟩
  exact ⟨⟨crashOK_app h hr, crashOK_app h1 rfl, crashOK_same h2⟩, by simpa [applyEffs, applyBlockMock, Good] using h2⟩

/-! ## the WAL marker / privval layer -/

/-- effects that leave block-store height, WAL marker and privval alone -/
def quiet : Eff → Bool
  | .signVote _ _ => false
  | .pvSign _ _ => false
  | .saveBlock _ => false
  | .walEnd _ => false
  | _ => true  -- incl. pruneBlocks / pruneStates: they move the store's base, not its height

/-- a vote of the height in progress (the one after the store) is only ever signed when the WAL
holds the previous height's #ENDHEIGHT, so that the vote's WAL record can be replayed -/
def WInv (c : Chain) (d : Disk) : Prop :=
  (d.pvH ≤ d.storeH ∨ d.pvH = nxt c d.storeH) ∧ (d.pvH = nxt c d.storeH → d.walEnd = d.storeH)

theorem applyEff_quiet {d : Disk} {e : Eff} (h : quiet e = true) :
    (applyEff d e).storeH = d.storeH ∧ (applyEff d e).walEnd = d.walEnd ∧ (applyEff d e).pvH = d.pvH := by
  cases e <;> simp [quiet] at h <;> simp only [applyEff] <;> (try split) <;> simp

theorem applyEffs_quiet {d : Disk} {es : List Eff} (h : ∀ e ∈ es, quiet e = true) :
    (applyEffs d es).storeH = d.storeH ∧ (applyEffs d es).walEnd = d.walEnd ∧ (applyEffs d es).pvH = d.pvH := by
  induction es generalizing d with
  | nil => simp [applyEffs]
  | cons e es ih =>
    have h1 := applyEff_quiet (d := d) (h e (by simp))
    have h2 := ih (d := applyEff d e) (fun e' he' => h e' (by simp [he']))
    simp only [applyEffs, List.foldl_cons] at h2 ⊢
    exact ⟨h2.1.trans h1.1, h2.2.1.trans h1.2.1, h2.2.2.trans h1.2.2⟩

theorem WInv.congr {c : Chain} {d d' : Disk} (h : WInv c d) (h1 : d'.storeH = d.storeH) (h2 : d'.walEnd = d.walEnd)
    (h3 : d'.pvH = d.pvH) : WInv c d' := by
  unfold WInv at *; rw [h1, h2, h3]; exact h

theorem PrefAll.and {Q1 Q2 : Disk → Prop} {d : Disk} {es : List Eff} (h1 : PrefAll Q1 d es)
    (h2 : PrefAll Q2 d es) : PrefAll (fun x => Q1 x ∧ Q2 x) d es := by
  induction es generalizing d with
  | nil => exact ⟨h1, h2⟩
  | cons e es ih => exact ⟨⟨h1.1, h2.1⟩, ih h1.2 h2.2⟩

theorem PrefAll.winv_quiet {c : Chain} {d : Disk} {es : List Eff} (h : WInv c d) (hq : ∀ e ∈ es, quiet e = true) :
    PrefAll (WInv c) d es := by
  induction es generalizing d with
  | nil => exact h
  | cons e es ih =>
    have h1 := applyEff_quiet (d := d) (hq e (by simp))
    exact ⟨h, ih (h.congr h1.1 h1.2.1 h1.2.2) (fun e' he' => hq e' (by simp [he']))⟩

theorem quiet_exec (c : Chain) (h : Nat) : ∀ e ∈ execEffs c h, quiet e = true := by
  intro e he
  simp only [execEffs, List.mem_append, List.mem_cons, List.mem_map, List.not_mem_nil, or_false] at he
  rcases he with (rfl | ⟨tx, _, rfl⟩) | rfl <;> rfl

theorem quiet_execCommit (c : Chain) (h : Nat) : ∀ e ∈ execCommit c h, quiet e = true := by
  intro e he
  simp only [execCommit, List.mem_append, List.mem_cons, List.not_mem_nil, or_false] at he
  rcases he with he | rfl
  · exact quiet_exec c h e he
  · rfl

theorem quiet_real (c : Chain) (h : Nat) : ∀ e ∈ applyBlockReal c h, quiet e = true := by
  intro e he
  simp only [applyBlockReal, List.mem_append, List.mem_cons, List.not_mem_nil, or_false] at he
  rcases he with he | rfl | rfl | rfl
  · exact quiet_exec c h e he
  all_goals rfl

theorem quiet_mock (h : Nat) : ∀ e ∈ applyBlockMock h, quiet e = true := by
  intro e he
  simp only [applyBlockMock, List.mem_cons, List.not_mem_nil, or_false] at he
  rcases he with rfl | rfl <;> rfl

/-- the predicate carried over every prefix of a running node's programs -/
def StepOK (c : Chain) (d : Disk) : Prop := CrashOK c d ∧ WInv c d

theorem applyEff_gs {d : Disk} {e : Eff} (h : d.genesisSaved = true) : (applyEff d e).genesisSaved = true := by
  cases e <;> simp [applyEff, h]
  case signVote hh v => split <;> simp [h]
  case pvSign hh v => split <;> simp [h]
  case pruneBlocks r => split <;> simp [h]

theorem applyEffs_gs {d : Disk} {es : List Eff} (h : d.genesisSaved = true) :
    (applyEffs d es).genesisSaved = true := by
  induction es generalizing d with
  | nil => simpa [applyEffs] using h
  | cons e es ih => simpa [applyEffs] using ih (applyEff_gs (e := e) h)

theorem DInv.signVote {c : Chain} {d : Disk} {k st a : Nat} {p : Option Pending} (h : DInv c d k st a p)
    (hh v : Nat) : DInv c (applyEff d (.signVote hh v)) k st a p := by
  simp only [applyEff]
  split
  · exact ⟨h.stateH, h.stateHash, h.storeH, h.app, h.pr⟩
  · exact ⟨h.stateH, h.stateHash, h.storeH, h.app, h.pr⟩

theorem Good.pruneBlocks {c : Chain} {d : Disk} {m : Nat} (h : Good c d m) (r : Nat) :
    Good c (applyEff d (.pruneBlocks r)) m := by
  simp only [applyEff]
  split
  · rename_i hc
    refine ⟨h.stateH, h.stateHash, h.storeH, h.app, ?_, h.pr.2.1, h.pr.2.2⟩
    show r ≤ ht c (m + 1)
    have := hc.2; rw [h.storeH] at this
    exact Nat.le_trans this (ht_le c (by omega))
  · exact h

theorem Good.pruneStates {c : Chain} {d : Disk} {m : Nat} (h : Good c d m) (r kept : Nat) (hr : r ≤ ht c m) :
    Good c (applyEff d (.pruneStates r kept)) m :=
  ⟨h.stateH, h.stateHash, h.storeH, h.app, h.pr.1, hr, hr⟩

theorem quiet_pruneList (c : Chain) (r h : Nat) : ∀ e ∈ pruneList c r h, quiet e = true := by
  intro e he
  simp only [pruneList] at he
  split at he <;> simp at he
  · rcases he with rfl | rfl <;> rfl
  · subst he; rfl

theorem quiet_prune (c : Chain) (d : Disk) (h : Nat) : ∀ e ∈ pruneEffs c d h, quiet e = true := by
  intro e he
  cases hc : pruneCond c d h <;> simp [pruneEffs, hc] at he
  exact quiet_pruneList c _ _ e he

theorem pruneList_run {c : Chain} {d : Disk} {m : Nat} (h : Good c d m) (r : Nat) :
    PrefAll (CrashOK c) d (pruneList c r (ht c m)) ∧ Good c (applyEffs d (pruneList c r (ht c m))) m := by
  have h1 := h.pruneBlocks r
  by_cases hr : r ≤ ht c m
  · have h2 := h1.pruneStates r (c.valLHC r) hr
    simp only [pruneList, hr, if_true]
    exact ⟨⟨crashOK_same h, crashOK_same h1, crashOK_same h2⟩, h2⟩
  · simp only [pruneList, hr, if_false]
    exact ⟨⟨crashOK_same h, crashOK_same h1⟩, h1⟩

/-- `cs.pruneBlocks` on a synced node: each crash point leaves a synced node -/
theorem prune_run {c : Chain} {d0 d : Disk} {m : Nat} (h : Good c d m) :
    PrefAll (CrashOK c) d (pruneEffs c d0 (ht c m)) ∧ Good c (applyEffs d (pruneEffs c d0 (ht c m))) m := by
  cases hc : pruneCond c d0 (ht c m) <;> simp only [pruneEffs, hc]
  · exact ⟨crashOK_same h, h⟩
  · exact pruneList_run h _

/-- deciding block `n+1` on a synced node whose WAL holds the #ENDHEIGHT of block `n`: enabled,
every crash prefix leaves an `Inv`/`WInv` disk, the complete run leaves a synced node after `n+1`
blocks with its marker -/
theorem finalize_run {c : Chain} {d : Disk} {n : Nat} (h : Good c d n) (hw : d.walEnd = ht c n)
    (hwi : WInv c d) (hgs : d.genesisSaved = true) :
    ∃ es, finalizeEffs c d (nxt c d.stateH) = some es ∧ PrefAll (StepOK c) d es ∧
      Good c (applyEffs d es) (n + 1) ∧ (applyEffs d es).walEnd = ht c (n + 1) ∧ WInv c (applyEffs d es) := by
  have hs := h.stateH
  have hnx : nxt c d.stateH = ht c (n + 1) := by rw [hs, nxt_ht]
  have hv : validBlock c d (ht c (n + 1)) = true := by
    simp [validBlock, h.stateH, h.stateHash, hgs, nxt_ht, hist_pred_ht]
  have hlt : d.storeH < ht c (n + 1) := by rw [h.storeH]; exact ht_lt c (by omega)
  have hnxs : nxt c d.storeH = ht c (n + 1) := by rw [h.storeH, nxt_ht]
  let H := ht c (n + 1)
  let d0 := applyEff d (.signVote H 1)
  have h0 : DInv c d0 n n n none := DInv.signVote h H 1
  have f0 : d0.storeH = d.storeH ∧ d0.walEnd = d.walEnd ∧ d0.pvH = H := by
    simp only [d0, applyEff]; split <;> simp_all
  let d0' := applyEff d0 (.signVote H 2)
  have h0' : DInv c d0' n n n none := DInv.signVote h0 H 2
  have f0' : d0'.storeH = d.storeH ∧ d0'.walEnd = d.walEnd ∧ d0'.pvH = H := by
    simp only [d0', applyEff]; split <;> simp_all
  let d1 := applyEff d0' (.saveBlock H)
  have h1 : DInv c d1 n (n + 1) n none := by
    refine ⟨h0'.stateH, h0'.stateHash, rfl, h0'.app, ?_, h0'.pr.2.1, h0'.pr.2.2⟩
    show (if d0'.storeBase = 0 then H else d0'.storeBase) ≤ ht c (n + 1)
    split
    · exact Nat.le_refl _
    · exact h0'.pr.1
  have f1 : d1.storeH = H ∧ d1.pvH = H := ⟨rfl, f0'.2.2⟩
  let d2 := applyEff d1 (.walEnd H)
  have h2 : DInv c d2 n (n + 1) n none := ⟨h1.stateH, h1.stateHash, h1.storeH, h1.app, h1.pr⟩
  have f2 : d2.storeH = H ∧ d2.pvH = H ∧ d2.walEnd = H := ⟨rfl, f0'.2.2, rfl⟩
  have hr := applyBlockReal_run h2
  have hHlt : H < nxt c H := by
    show ht c (n + 1) < nxt c (ht c (n + 1)); rw [nxt_ht]; exact ht_lt c (by omega)
  have w0 : WInv c d0 := by
    refine ⟨.inr ?_, fun _ => ?_⟩
    · rw [f0.2.2, f0.1, hnxs]
    · rw [f0.2.1, f0.1, hw, h.storeH]
  have w0' : WInv c d0' := by
    refine ⟨.inr ?_, fun _ => ?_⟩
    · rw [f0'.2.2, f0'.1, hnxs]
    · rw [f0'.2.1, f0'.1, hw, h.storeH]
  have w1 : WInv c d1 := by
    refine ⟨.inl ?_, fun e => ?_⟩
    · rw [f1.1, f1.2]; exact Nat.le_refl _
    · rw [f1.1, f1.2] at e; omega
  have w2 : WInv c d2 := by
    refine ⟨.inl ?_, fun e => ?_⟩
    · rw [f2.1, f2.2.1]; exact Nat.le_refl _
    · rw [f2.1, f2.2.1] at e; omega
  have hq := applyEffs_quiet (d := d2) (quiet_real c H)
  let d3 := applyEffs d2 (applyBlockReal c H)
  have hp := prune_run (c := c) (d0 := d) (d := d3) (m := n + 1) hr.2
  have hqp := applyEffs_quiet (d := d3) (quiet_prune c d H)
  have w3 : WInv c d3 := w2.congr hq.1 hq.2.1 hq.2.2
  refine ⟨[.signVote H 1, .signVote H 2] ++ [.saveBlock H] ++ [.walEnd H] ++ applyBlockReal c H ++ pruneEffs c d H,
    ?_, ?_, ?_, ?_, ?_⟩
  · rw [hnx]; simp [finalizeEffs, hv, hlt, H]
  · refine PrefAll.append ?_ ?_
    · exact ⟨⟨crashOK_same h, hwi⟩, ⟨crashOK_same h0, w0⟩, ⟨crashOK_same h0', w0'⟩, ⟨crashOK_store h1, w1⟩,
        PrefAll.and hr.1 (PrefAll.winv_quiet w2 (quiet_real c H))⟩
    · have : applyEffs d ([.signVote H 1, .signVote H 2] ++ [.saveBlock H] ++ [.walEnd H] ++ applyBlockReal c H) = d3 := by
        simp [applyEffs, d3, d2, d1, d0', d0]
      rw [this]
      exact PrefAll.and hp.1 (PrefAll.winv_quiet w3 (quiet_prune c d H))
  · rw [applyEffs_append]
    have : applyEffs d ([.signVote H 1, .signVote H 2] ++ [.saveBlock H] ++ [.walEnd H] ++ applyBlockReal c H) = d3 := by
      simp [applyEffs, d3, d2, d1, d0', d0]
    rw [this]; exact hp.2
  · rw [applyEffs_append]
    have : applyEffs d ([.signVote H 1, .signVote H 2] ++ [.saveBlock H] ++ [.walEnd H] ++ applyBlockReal c H) = d3 := by
      simp [applyEffs, d3, d2, d1, d0', d0]
    rw [this, hqp.2.1]; exact hq.2.1
  · rw [applyEffs_append]
    have : applyEffs d ([.signVote H 1, .signVote H 2] ++ [.saveBlock H] ++ [.walEnd H] ++ applyBlockReal c H) = d3 := by
      simp [applyEffs, d3, d2, d1, d0', d0]
    rw [this]; exact w3.congr hqp.1 hqp.2.1 hqp.2.2

/-! ## the handshake -/

/-- heights of the blocks `a+1 .. a+m` -/
def hts (c : Chain) : Nat → Nat → List Nat
  | _, 0 => []
  | a, m + 1 => ht c (a + 1) :: hts c (a + 1) m

theorem range'_hts (c : Chain) (a m : Nat) : List.range' (ht c (a + 1)) m = hts c a m := by
  induction m generalizing a with
  | zero => rfl
  | succ m ih =>
    have : ht c (a + 1) + 1 = ht c (a + 1 + 1) := by rw [ht_succ, ht_succ]; omega
    simp [List.range'_succ, hts, this, ih]

/-- the loop of `replayBlocks`: `m` blocks executed and committed on an application that is at
least `m` blocks behind the state; never trips the app-hash assertion; every crash prefix is `Inv` -/
theorem replayLoop_run {c : Chain} {d0 : Disk} {k st : Nat} (hst : st = k ∨ st = k + 1) :
    ∀ (m a : Nat) (acc : List Eff) (appHash : Hist) (n : Nat), a + m ≤ k → d0.statesBase ≤ ht c a →
      DInv c (applyEffs d0 acc) k st a none → (appHash = [] ∨ appHash = histK c a) →
      ∃ es hash', replayLoop c d0 (hts c a m) acc appHash n = .ok (acc ++ es, hash', n + m) ∧
        (0 < m → hash' = histK c (a + m)) ∧
        PrefAll (CrashOK c) (applyEffs d0 acc) es ∧ DInv c (applyEffs d0 (acc ++ es)) k st (a + m) none ∧
        (∀ e ∈ es, quiet e = true)
  | 0, a, acc, appHash, n, _, _, h, _ => by
    refine ⟨[], appHash, by simp [hts, replayLoop], by omega, crashOK_behind h (by omega) hst, by simpa using h, by simp⟩
  | m + 1, a, acc, appHash, n, ham, hs0, h, hh => by
    have hvals : valsOK c d0 (ht c (a + 1)) = true := valsOK_of hs0 (Nat.le_refl a)
    have hx := execCommit_run (c := c) (a := a) (by omega) hst h
    have hchk : ¬ (appHash ≠ [] ∧ appHash ≠ hist c (ht c (a + 1) - 1)) := by
      rw [hist_pred_ht]
      rcases hh with e | e <;> simp [e]
    have h' : DInv c (applyEffs d0 (acc ++ execCommit c (ht c (a + 1)))) k st (a + 1) none := by
      rw [applyEffs_append]; exact hx.2
    obtain ⟨es, hash', hr, hhash, hpre, hfin, hq⟩ :=
      replayLoop_run hst m (a + 1) (acc ++ execCommit c (ht c (a + 1)))
        (applyEffs d0 (acc ++ execCommit c (ht c (a + 1)))).app.hash (n + 1) (by omega)
        (Nat.le_trans hs0 (ht_le c (by omega))) h' (.inr h'.app.hash)
    refine ⟨execCommit c (ht c (a + 1)) ++ es, hash', ?_, ?_, ?_, ?_, ?_⟩
    · simp only [hts, replayLoop, hchk, if_false, hvals, Bool.not_true, Bool.false_eq_true]
      rw [hr]
      simp [List.append_assoc]; omega
    · intro _
      by_cases hm : 0 < m
      · rw [hhash hm]; congr 1; omega
      · have hm0 : m = 0 := by omega
        subst hm0
        have hr' := hr
        simp [hts, replayLoop] at hr'
        rw [← hr'.2, h'.app.hash]
    · refine PrefAll.append hx.1 ?_
      rw [← applyEffs_append]; exact hpre
    · rw [← List.append_assoc]
      have : a + (m + 1) = a + 1 + m := by omega
      rw [this]; exact hfin
    · intro e he
      rcases List.mem_append.mp he with he | he
      · exact quiet_execCommit c _ e he
      · exact hq e he

/-- the `pre` of the handshake: InitChain iff the application reports height 0, the genesis state
completed and saved iff moreover the state is empty -/
def hsPre (d : Disk) : List Eff :=
  if d.app.height = 0 then [.initChain] ++ (if d.stateH = 0 then [.saveGenesis] else []) else []

theorem quiet_hsPre (d : Disk) : ∀ e ∈ hsPre d, quiet e = true := by
  intro e he
  simp only [hsPre] at he
  split at he
  · split at he <;> simp at he
    · rcases he with rfl | rfl <;> rfl
    · subst he; rfl
  · simp at he

/-- running `pre`: the application (which reports 0 if anything is sent) sees at most InitChain -/
theorem hsPre_run {c : Chain} {d : Disk} {k st a : Nat} (h : DInv c d k st a none)
    (hQ : ∀ d', DInv c d' k st a none → CrashOK c d') :
    PrefAll (CrashOK c) d (hsPre d) ∧ DInv c (applyEffs d (hsPre d)) k st a none ∧
      (d.app.height = 0 → d.stateH = 0 → (applyEffs d (hsPre d)).genesisSaved = true) := by
  by_cases ha0 : d.app.height = 0
  · have : a = 0 := by
      have := h.app.height; rw [ha0] at this
      cases a with
      | zero => rfl
      | succ a' => have := ht_pos c a'; omega
    subst this
    have h1 : DInv c (applyEff d .initChain) k st 0 none :=
      ⟨h.stateH, h.stateHash, h.storeH, h.app.initChain, h.pr⟩
    have h2 : DInv c (applyEff (applyEff d .initChain) .saveGenesis) k st 0 none :=
      ⟨h.stateH, h.stateHash, h.storeH, h.app.initChain, h.pr⟩
    by_cases hs : d.stateH = 0
    · have : hsPre d = [.initChain, .saveGenesis] := by simp [hsPre, ha0, hs]
      rw [this]
      exact ⟨⟨hQ _ h, hQ _ h1, hQ _ h2⟩, h2, fun _ _ => rfl⟩
    · have : hsPre d = [.initChain] := by simp [hsPre, ha0, hs]
      rw [this]
      exact ⟨⟨hQ _ h, hQ _ h1⟩, h1, fun _ e => absurd e hs⟩
  · have : hsPre d = [] := by simp [hsPre, ha0]
    rw [this]
    exact ⟨hQ _ h, by simpa [applyEffs] using h, fun e => absurd e ha0⟩

/-! evaluation of the case analysis, from facts about the three heights only -/

theorem handshake_storeEmpty (c : Chain) (d : Disk) (h0 : d.storeH = 0) (hh : d.app.hash = d.stateHash) :
    handshake c d = ⟨hsPre d, .storeEmpty, .ok, 0⟩ := by
  unfold handshake hsPre; simp [h0, hh]

theorem handshake_synced (c : Chain) (d : Disk) (h0 : d.storeH ≠ 0)
    (hlowA : ¬ (d.app.height = 0 ∧ c.ih < d.storeBase))
    (hlowB : ¬ (0 < d.app.height ∧ d.app.height < d.storeBase - 1)) (h4 : d.storeH = d.stateH)
    (h5 : d.app.height = d.storeH) (hnx : ¬ (d.stateH > nxt c d.stateH)) (hh : d.app.hash = d.stateHash) :
    handshake c d = ⟨hsPre d, .synced, .ok, 0⟩ := by
  unfold handshake hsPre
  have h1 : ¬ (d.storeH < d.app.height) := by omega
  have h2 : ¬ (d.storeH < d.stateH) := by omega
  have h3 : ¬ (d.storeH > nxt c d.stateH) := by rw [h4]; exact hnx
  have h6 : ¬ (d.app.height < d.storeH) := by omega
  simp only [h0, if_false, hlowA, hlowB, h1, h2, h3, h4 ▸ h6, h6]
  simp [h4, h4 ▸ h5, hh]

theorem handshake_noMutate (c : Chain) (d : Disk) (h0 : d.storeH ≠ 0)
    (hlowA : ¬ (d.app.height = 0 ∧ c.ih < d.storeBase))
    (hlowB : ¬ (0 < d.app.height ∧ d.app.height < d.storeBase - 1)) (h4 : d.storeH = d.stateH)
    (h5 : d.app.height < d.storeH) (hnx : ¬ (d.stateH > nxt c d.stateH)) :
    handshake c d = replayBlocks c d (hsPre d) d.app.height d.storeH false .replayNoMutate := by
  unfold handshake hsPre
  have h1 : ¬ (d.storeH < d.app.height) := by omega
  have h2 : ¬ (d.storeH < d.stateH) := by omega
  have h3 : ¬ (d.storeH > nxt c d.stateH) := by rw [h4]; exact hnx
  simp only [h0, if_false, hlowA, hlowB, h1, h2, h3]
  simp [h4] at h5 ⊢
  intro h6; omega

theorem handshake_next (c : Chain) (d : Disk) (h0 : d.storeH ≠ 0)
    (hlowA : ¬ (d.app.height = 0 ∧ c.ih < d.storeBase))
    (hlowB : ¬ (0 < d.app.height ∧ d.app.height < d.storeBase - 1)) (h1 : ¬ (d.storeH < d.app.height))
    (h4 : d.storeH = nxt c d.stateH) (hne : d.storeH ≠ d.stateH) (h2 : ¬ (d.storeH < d.stateH)) :
    handshake c d =
      (if d.app.height < d.stateH then replayBlocks c d (hsPre d) d.app.height d.storeH true .replayMutate
       else if d.app.height = d.stateH then
        if validBlock c (applyEffs d (hsPre d)) d.storeH then
          if valsOK c d d.storeH then ⟨hsPre d ++ applyBlockReal c d.storeH, .lastReal, .ok, 1⟩
          else ⟨hsPre d, .lastReal, .panicValsPruned, 0⟩
        else ⟨hsPre d, .lastReal, .errInvalidBlock, 0⟩
       else if d.app.height = d.storeH then
        if d.lastResp = some d.storeH then
          if validBlock c (applyEffs d (hsPre d)) d.storeH then
            if valsOK c d d.storeH then ⟨hsPre d ++ applyBlockMock d.storeH, .lastMock, .ok, 1⟩
            else ⟨hsPre d, .lastMock, .panicValsPruned, 0⟩
          else ⟨hsPre d, .lastMock, .errInvalidBlock, 0⟩
        else ⟨hsPre d, .lastMock, .errNoResp, 0⟩
       else ⟨hsPre d, .uncovered, .panicUncovered, 0⟩) := by
  unfold handshake hsPre
  have h3 : ¬ (d.storeH > nxt c d.stateH) := by omega
  simp only [h0, if_false, hlowA, hlowB, h1, h2, h3, hne]
  simp [← h4]

theorem first_ht (c : Chain) (a : Nat) :
    (if ht c a + 1 = 1 then c.ih else ht c a + 1) = ht c (a + 1) := by
  cases a with
  | zero => simp [ht, Chain.ih]
  | succ a' =>
    have h1 := ht_succ c a'
    have h2 := ht_succ c (a' + 1)
    split <;> omega

/-- `replayBlocks(..., mutateState=false)`: the application is behind a synced store/state -/
theorem replayBlocks_noMutate_run {c : Chain} {d : Disk} {k a : Nat} (br : Branch)
    (h : DInv c d (k + 1) (k + 1) a none) (ha : a < k + 1) :
    let r := replayBlocks c d (hsPre d) d.app.height d.storeH false br
    r.outcome = .ok ∧ PrefAll (CrashOK c) d r.effs ∧ Good c (applyEffs d r.effs) (k + 1) ∧
      (∀ e ∈ r.effs, quiet e = true) := by
  have hp := hsPre_run h (fun _ h' => crashOK_behind h' (by omega) (.inl rfl))
  obtain ⟨es, hash', hloop, hhash, hlpre, hfin, hlq⟩ :=
    replayLoop_run (c := c) (d0 := d) (k := k + 1) (st := k + 1) (.inl rfl) (k + 1 - a) a (hsPre d) [] 0
      (by omega) h.pr.2.1 hp.2.1 (.inl rfl)
  have hlen : ht c (k + 1) + 1 - ht c (a + 1) = k + 1 - a := by rw [ht_succ, ht_succ]; omega
  have hfinal : DInv c (applyEffs d (hsPre d ++ es)) (k + 1) (k + 1) (k + 1) none := by
    have : a + (k + 1 - a) = k + 1 := by omega
    rw [this] at hfin; exact hfin
  have hhash' : hash' = histK c (k + 1) := by
    have := hhash (by omega); rw [this]; congr 1; omega
  have hres : replayBlocks c d (hsPre d) d.app.height d.storeH false br
      = ⟨hsPre d ++ es, br, .ok, 0 + (k + 1 - a)⟩ := by
    simp only [replayBlocks, Bool.false_eq_true, if_false, h.app.height, first_ht, h.storeH, hlen, range'_hts,
      hloop]
    simp [hhash', hfinal.stateHash]
  simp only [hres]
  refine ⟨trivial, PrefAll.append hp.1 hlpre, hfinal, ?_⟩
  intro e he
  rcases List.mem_append.mp he with he | he
  · exact quiet_hsPre d e he
  · exact hlq e he

/-- `replayBlocks(..., mutateState=true)`: the application is behind the state, the store one ahead -/
theorem replayBlocks_mutate_run {c : Chain} {d : Disk} {k a : Nat} (br : Branch)
    (h : DInv c d (k + 1) (k + 1 + 1) a none) (ha : a < k + 1) :
    let r := replayBlocks c d (hsPre d) d.app.height d.storeH true br
    r.outcome = .ok ∧ PrefAll (CrashOK c) d r.effs ∧ Good c (applyEffs d r.effs) (k + 1 + 1) ∧
      (∀ e ∈ r.effs, quiet e = true) := by
  have hp := hsPre_run h (fun _ h' => crashOK_behind h' (by omega) (.inr rfl))
  obtain ⟨es, hash', hloop, hhash, hlpre, hfin, hlq⟩ :=
    replayLoop_run (c := c) (d0 := d) (k := k + 1) (st := k + 1 + 1) (.inr rfl) (k + 1 - a) a (hsPre d) [] 0
      (by omega) h.pr.2.1 hp.2.1 (.inl rfl)
  have hpred : ht c (k + 1 + 1) - 1 = ht c (k + 1) := by rw [ht_succ, ht_succ]; omega
  have hlen : ht c (k + 1) + 1 - ht c (a + 1) = k + 1 - a := by rw [ht_succ, ht_succ]; omega
  have hfinal : DInv c (applyEffs d (hsPre d ++ es)) (k + 1) (k + 1 + 1) (k + 1) none := by
    have : a + (k + 1 - a) = k + 1 := by omega
    rw [this] at hfin; exact hfin
  have hv : validBlock c (applyEffs d (hsPre d ++ es)) (ht c (k + 1 + 1)) = true := by
    have := ht_pos c k
    simp [validBlock, hfinal.stateH, hfinal.stateHash, nxt_ht, hist_pred_ht, this]
  have hvals : valsOK c (applyEffs d (hsPre d ++ es)) (ht c (k + 1 + 1)) = true :=
    valsOK_of hfinal.pr.2.2 (Nat.le_refl _)
  have hr := applyBlockReal_run hfinal
  have hres : replayBlocks c d (hsPre d) d.app.height d.storeH true br
      = ⟨hsPre d ++ es ++ applyBlockReal c (ht c (k + 1 + 1)), br, .ok, 0 + (k + 1 - a) + 1⟩ := by
    simp only [replayBlocks, if_true, h.app.height, first_ht, h.storeH, hpred, hlen, range'_hts, hloop, hv, hvals]
  simp only [hres]
  refine ⟨trivial, PrefAll.append (PrefAll.append hp.1 hlpre) hr.1, ?_, ?_⟩
  · rw [applyEffs_append]; exact hr.2
  · intro e he
    rcases List.mem_append.mp he with he | he
    · rcases List.mem_append.mp he with he | he
      · exact quiet_hsPre d e he
      · exact hlq e he
    · exact quiet_real c _ e he

theorem nxt_gt (c : Chain) (k : Nat) : ¬ (ht c k > nxt c (ht c k)) := by
  rw [nxt_ht]; have := ht_lt c (show k < k + 1 by omega); omega

/-- block 1 can only be in the store after the genesis state was completed and saved -/
def GenOK (d : Disk) : Prop := 0 < d.storeH → d.genesisSaved = true

/-- the handshake on any disk that crashes and snapshot restores of the application can leave: it
completes (`ok`), every crash prefix of the recovery leaves an `Inv` disk again, and the completed
recovery leaves the three cursors equal -/
theorem handshake_run {c : Chain} {d : Disk} (h : Inv c d) (hgen : GenOK d) :
    (handshake c d).outcome = .ok ∧ PrefAll (CrashOK c) d (handshake c d).effs ∧
      (∃ m, Good c (applyEffs d (handshake c d).effs) m) ∧
      (∀ e ∈ (handshake c d).effs, quiet e = true) ∧
      (applyEffs d (handshake c d).effs).genesisSaved = true := by
  obtain ⟨k, ⟨a, hak, h | h⟩ | ⟨h, hr⟩⟩ := h
  · -- store = state
    have ha := h.app.height; have hs := h.storeH; have hst := h.stateH
    have h4 : d.storeH = d.stateH := by rw [hs, hst]
    cases k with
    | zero =>
      have ha0 : a = 0 := by omega
      subst ha0
      have hp := hsPre_run h (fun _ h' => crashOK_same h')
      have := handshake_storeEmpty c d (by rw [hs]; rfl) (by rw [h.app.hash, h.stateHash])
      rw [this]
      exact ⟨rfl, hp.1, ⟨0, hp.2.1⟩, quiet_hsPre d, hp.2.2 (by rw [ha]; rfl) (by rw [hst]; rfl)⟩
    | succ k =>
      have hpos := ht_pos c k
      have h0 : d.storeH ≠ 0 := by rw [hs]; omega
      have hgs : d.genesisSaved = true := hgen (by rw [hs]; exact hpos)
      have hlowA := hlowA_of h.pr ha
      have hlowB := hlowB_of h.pr ha
      have hnx : ¬ (d.stateH > nxt c d.stateH) := by rw [hst]; exact nxt_gt c _
      by_cases hEq : a = k + 1
      · subst hEq
        have hp := hsPre_run h (fun _ h' => crashOK_same h')
        have := handshake_synced c d h0 hlowA hlowB h4 (by rw [ha, hs]) hnx (by rw [h.app.hash, h.stateHash])
        rw [this]
        exact ⟨rfl, hp.1, ⟨_, hp.2.1⟩, quiet_hsPre d, applyEffs_gs hgs⟩
      · have hlt : a < k + 1 := by omega
        have := handshake_noMutate c d h0 hlowA hlowB h4 (by rw [ha, hs]; exact ht_lt c hlt) hnx
        rw [this]
        have hr := replayBlocks_noMutate_run .replayNoMutate h hlt
        exact ⟨hr.1, hr.2.1, ⟨_, hr.2.2.1⟩, hr.2.2.2, applyEffs_gs hgs⟩
  · -- block saved, state not advanced
    have ha := h.app.height; have hs := h.storeH; have hst := h.stateH
    have hpos := ht_pos c k
    have h0 : d.storeH ≠ 0 := by rw [hs]; omega
    have hgs : d.genesisSaved = true := hgen (by rw [hs]; exact hpos)
    have hlowA := hlowA_of h.pr ha
    have hlowB := hlowB_of h.pr ha
    have hak' : ht c a ≤ ht c k := by
      rcases Nat.lt_or_eq_of_le hak with e | e
      · exact Nat.le_of_lt (ht_lt c e)
      · rw [e]; exact Nat.le_refl _
    have hkk : ht c k < ht c (k + 1) := ht_lt c (by omega)
    have hn := handshake_next c d h0 hlowA hlowB (by rw [hs, ha]; omega) (by rw [hs, hst, nxt_ht])
      (by rw [hs, hst]; omega) (by rw [hs, hst]; omega)
    rw [hn]
    by_cases hEq : a = k
    · subst hEq
      have hp := hsPre_run h (fun _ h' => crashOK_store h')
      have hv : validBlock c (applyEffs d (hsPre d)) d.storeH = true := by
        have hgs' : (applyEffs d (hsPre d)).genesisSaved = true := applyEffs_gs hgs
        rw [hs]
        simp [validBlock, hp.2.1.stateH, hp.2.1.stateHash, nxt_ht, hist_pred_ht, hgs']
      have hr := applyBlockReal_run hp.2.1
      have e1 : ¬ (d.app.height < d.stateH) := by rw [ha, hst]; omega
      have e2 : d.app.height = d.stateH := by rw [ha, hst]
      have hvals : valsOK c d d.storeH = true := by rw [hs]; exact valsOK_of h.pr.2.1 (Nat.le_refl _)
      rw [if_neg e1, if_pos e2, if_pos hv, if_pos hvals, hs]
      refine ⟨rfl, PrefAll.append hp.1 hr.1, ⟨_, by rw [applyEffs_append]; exact hr.2⟩, ?_, applyEffs_gs hgs⟩
      intro e he
      rcases List.mem_append.mp he with he | he
      · exact quiet_hsPre d e he
      · exact quiet_real c _ e he
    · have hlt : a < k := by omega
      obtain ⟨k', rfl⟩ : ∃ k', k = k' + 1 := ⟨k - 1, by omega⟩
      have e1 : d.app.height < d.stateH := by rw [ha, hst]; exact ht_lt c hlt
      rw [if_pos e1]
      have hr := replayBlocks_mutate_run .replayMutate h hlt
      exact ⟨hr.1, hr.2.1, ⟨_, hr.2.2.1⟩, hr.2.2.2, applyEffs_gs hgs⟩
  · -- application committed, state not saved: replay with the mock application
    have ha := h.app.height; have hs := h.storeH; have hst := h.stateH
    have hpos := ht_pos c k
    have h0 : d.storeH ≠ 0 := by rw [hs]; omega
    have hgs : d.genesisSaved = true := hgen (by rw [hs]; exact hpos)
    have hlowA := hlowA_of h.pr ha
    have hlowB := hlowB_of h.pr ha
    have hkk : ht c k < ht c (k + 1) := ht_lt c (by omega)
    have hn := handshake_next c d h0 hlowA hlowB (by rw [hs, ha]; omega) (by rw [hs, hst, nxt_ht])
      (by rw [hs, hst]; omega) (by rw [hs, hst]; omega)
    rw [hn]
    have hane : d.app.height ≠ 0 := by rw [ha]; omega
    have hpre : hsPre d = [] := by simp [hsPre, hane]
    have hv : validBlock c (applyEffs d (hsPre d)) d.storeH = true := by
      rw [hpre, hs]
      simp [validBlock, applyEffs, hst, h.stateHash, nxt_ht, hist_pred_ht, hgs]
    have e1 : ¬ (d.app.height < d.stateH) := by rw [ha, hst]; omega
    have e2 : ¬ (d.app.height = d.stateH) := by rw [ha, hst]; omega
    have e3 : d.app.height = d.storeH := by rw [ha, hs]
    have e4 : d.lastResp = some d.storeH := by rw [hr, hs]
    have hvals : valsOK c d d.storeH = true := by rw [hs]; exact valsOK_of h.pr.2.2 (Nat.le_refl _)
    rw [if_neg e1, if_neg e2, if_pos e3, if_pos e4, if_pos hv, if_pos hvals, hpre, hs]
    have hm := applyBlockMock_run h hr
    exact ⟨rfl, by simpa using hm.1, ⟨_, by simpa using hm.2⟩, by simpa using quiet_mock (ht c (k + 1)),
      applyEffs_gs hgs⟩

/-- a complete (re)start — handshake, then the repaired `catchupReplay` writing a missing marker —
on any disk that crashes and snapshot restores can leave: every crash prefix leaves an `Inv`/`WInv`
disk; run to completion the three cursors are equal, the WAL holds the marker of that height, and
the node is live -/
theorem start_run {c : Chain} {d : Disk} (h : Inv c d) (hw : WInv c d) (hgen : GenOK d) :
    (handshake c d).outcome = .ok ∧ PrefAll (StepOK c) d (startEffs c d) ∧
      (∃ m, Good c (applyEffs d (startEffs c d)) m) ∧
      (applyEffs d (startEffs c d)).walEnd = (applyEffs d (startEffs c d)).stateH ∧
      WInv c (applyEffs d (startEffs c d)) ∧ liveAfter c d = true ∧
      (applyEffs d (startEffs c d)).genesisSaved = true := by
  obtain ⟨hok, hpre, ⟨m, hg⟩, hq, hgs⟩ := handshake_run h hgen
  have hf := applyEffs_quiet (d := d) hq
  let d' := applyEffs d (handshake c d).effs
  have hw' : WInv c d' := hw.congr hf.1 hf.2.1 hf.2.2
  have hst : d'.storeH = ht c m := hg.storeH
  have hsh : d'.stateH = ht c m := hg.stateH
  have hpre' : PrefAll (StepOK c) d (handshake c d).effs := PrefAll.and hpre (PrefAll.winv_quiet hw hq)
  have hlive : liveAfter c d = true := by
    simp only [liveAfter, Bool.or_eq_true, decide_eq_true_eq]
    show d'.walEnd = d'.stateH ∨ d'.pvH ≤ d'.stateH
    rcases hw'.1 with h1 | h1
    · right; rw [hsh, ← hst]; exact h1
    · left; rw [hw'.2 h1, hst, hsh]
  by_cases hm : d'.walEnd = d'.stateH
  · have : startEffs c d = (handshake c d).effs := by
      simp only [startEffs, hok, if_true]
      have : ¬ (applyEffs d (handshake c d).effs).walEnd ≠ (applyEffs d (handshake c d).effs).stateH := by
        simpa using hm
      simp [this]
    rw [this]
    exact ⟨hok, hpre', ⟨m, hg⟩, hm, hw', hlive, hgs⟩
  · have : startEffs c d = (handshake c d).effs ++ [.walEnd d'.stateH] := by
      simp only [startEffs, hok, if_true]
      have : (applyEffs d (handshake c d).effs).walEnd ≠ (applyEffs d (handshake c d).effs).stateH := hm
      simp [this, d']
    rw [this]
    have hg2 : Good c (applyEff d' (.walEnd d'.stateH)) m := ⟨hg.stateH, hg.stateHash, hg.storeH, hg.app, hg.pr⟩
    have hw2 : WInv c (applyEff d' (.walEnd d'.stateH)) :=
      ⟨hw'.1, fun _ => by show d'.stateH = d'.storeH; rw [hsh, hst]⟩
    refine ⟨hok, PrefAll.append hpre' ⟨⟨crashOK_same hg, hw'⟩, ⟨crashOK_same hg2, hw2⟩⟩, ⟨m, ?_⟩, ?_, ?_, hlive, ?_⟩
    · rw [applyEffs_append]; exact hg2
    · rw [applyEffs_append]; rfl
    · rw [applyEffs_append]; exact hw2
    · rw [applyEffs_append]; exact applyEffs_gs hgs

theorem PrefAll.gs {d : Disk} {es : List Eff} (h : d.genesisSaved = true) : PrefAll GenOK d es := by
  induction es generalizing d with
  | nil => exact fun _ => h
  | cons e es ih => exact ⟨fun _ => h, ih (applyEff_gs h)⟩

theorem genOK_step {d : Disk} {e : Eff} (h : GenOK d) (hs : ∀ x, e ≠ .saveBlock x) : GenOK (applyEff d e) := by
  cases e with
  | saveBlock x => exact absurd rfl (hs x)
  | saveGenesis => intro _; rfl
  | signVote hh v =>
    intro hp
    simp only [applyEff] at hp ⊢
    split at hp <;> (split <;> exact h hp)
  | pvSign hh v =>
    intro hp
    simp only [applyEff] at hp ⊢
    split at hp <;> (split <;> exact h hp)
  | pruneBlocks r =>
    intro hp
    simp only [applyEff] at hp ⊢
    split at hp <;> (split <;> exact h hp)
  | _ => exact h

theorem PrefAll.genOK {d : Disk} {es : List Eff} (h : GenOK d) (hs : ∀ e ∈ es, ∀ x, e ≠ .saveBlock x) :
    PrefAll GenOK d es := by
  induction es generalizing d with
  | nil => exact h
  | cons e es ih =>
    exact ⟨h, ih (genOK_step h (hs e (by simp))) (fun e' he' => hs e' (by simp [he']))⟩

theorem startEffs_no_saveBlock {c : Chain} {d : Disk} (hq : ∀ e ∈ (handshake c d).effs, quiet e = true) :
    ∀ e ∈ startEffs c d, ∀ x, e ≠ .saveBlock x := by
  intro e he x hx
  subst hx
  simp only [startEffs] at he
  split at he
  · rcases List.mem_append.mp he with he | he
    · have := hq _ he; simp [quiet] at this
    · split at he <;> simp at he
  · have := hq _ he; simp [quiet] at this

end Tmv.Pipeline