import Tmv.Lemmas.EvidenceInv
/-! Lemmas about the light-client-attack part of the evidence model: byzantine-validator
computation, `VerifyLightClientAttack` as a conjunction. -/
namespace Tmv.Evidence
variable (c : Ctx)

/-! ### what VerifyLightClientAttack establishes -/

theorem mem_insertByPower (v x : Validator) (l : List Validator) :
    x ∈ insertByPower v l ↔ x = v ∨ x ∈ l := by
  induction l with
  | nil => simp [insertByPower]
  | cons y ys ih =>
    unfold insertByPower
    split
    · simp [ih]; constructor
      · rintro (h | h | h)
        · exact Or.inr (Or.inl h)
        · exact Or.inl h
        · exact Or.inr (Or.inr h)
      · rintro (h | h | h)
        · exact Or.inr (Or.inl h)
        · exact Or.inl h
        · exact Or.inr (Or.inr h)
    · simp

/-- sorting by power keeps exactly the same validators -/
theorem mem_sortByPower (x : Validator) (l : List Validator) : x ∈ sortByPower l ↔ x ∈ l := by
  induction l with
  | nil => simp [sortByPower]
  | cons y ys ih =>
    have : sortByPower (y :: ys) = insertByPower y (sortByPower ys) := rfl
    rw [this, mem_insertByPower, ih]; simp

theorem length_insertByPower (v : Validator) (l : List Validator) :
    (insertByPower v l).length = l.length + 1 := by
  induction l with
  | nil => simp [insertByPower]
  | cons y ys ih => unfold insertByPower; split <;> simp [ih]

theorem length_sortByPower (l : List Validator) : (sortByPower l).length = l.length := by
  induction l with
  | nil => simp [sortByPower]
  | cons y ys ih =>
    have : sortByPower (y :: ys) = insertByPower y (sortByPower ys) := rfl
    rw [this, length_insertByPower, ih]; simp

/-- lunatic attack: exactly the members of the common set that have a for-block slot in the
conflicting commit -/
theorem mem_lunaticSigners (l : LCA) (cv : List Validator) (v : Validator) :
    v ∈ lunaticSigners l cv ↔
      ∃ s ∈ l.sigs, s.flag = CommitVerify.flagCommit ∧ findVal cv s.addr = some v := by
  unfold lunaticSigners
  simp only [List.mem_filterMap]
  constructor
  · rintro ⟨s, hs, h⟩
    split at h
    · exact ⟨s, hs, by assumption, h⟩
    · cases h
  · rintro ⟨s, hs, hf, h⟩
    exact ⟨s, hs, by simp [hf, h]⟩

/-- equivocation: every listed validator is a member of the conflicting set named by a slot that is
present (not absent) in the conflicting commit while the slot of the same position is present in
the trusted commit -/
theorem mem_equivocators (l : LCA) : ∀ (sigs : List CSig) (fl : List Nat) (r : List Validator),
    equivocators l sigs fl = some r → ∀ v ∈ r,
      ∃ (i : Nat) (s : CSig), sigs[i]? = some s ∧ s.flag ≠ CommitVerify.flagAbsent ∧
        (∃ f : Nat, fl[i]? = some f ∧ f ≠ CommitVerify.flagAbsent) ∧ findVal l.cvals s.addr = some v := by
  intro sigs
  induction sigs with
  | nil => intro fl r h v hv; simp [equivocators] at h; subst h; simp at hv
  | cons s ss ih =>
    intro fl r h v hv
    unfold equivocators at h
    split at h
    · -- absent slot
      cases fl with
      | nil =>
        simp only at h
        obtain ⟨i, s', h1, h2, ⟨f, h3, _⟩, _⟩ := ih [] r h v hv
        simp at h3
      | cons f ft =>
        simp only at h
        obtain ⟨i, s', h1, h2, ⟨f', h3, h4⟩, h5⟩ := ih ft r h v hv
        exact ⟨i + 1, s', by simpa using h1, h2, ⟨f', by simpa using h3, h4⟩, h5⟩
    · rename_i hna
      cases fl with
      | nil => simp at h
      | cons f ft =>
        simp only at h
        split at h
        · obtain ⟨i, s', h1, h2, ⟨f', h3, h4⟩, h5⟩ := ih ft r h v hv
          exact ⟨i + 1, s', by simpa using h1, h2, ⟨f', by simpa using h3, h4⟩, h5⟩
        · rename_i hfa
          split at h
          · obtain ⟨i, s', h1, h2, ⟨f', h3, h4⟩, h5⟩ := ih ft r h v hv
            exact ⟨i + 1, s', by simpa using h1, h2, ⟨f', by simpa using h3, h4⟩, h5⟩
          · rename_i w hw
            cases hr : equivocators l ss ft with
            | none => simp [hr] at h
            | some r' =>
              simp [hr] at h
              subst h
              simp at hv
              rcases hv with hv | hv
              · subst hv
                exact ⟨0, s, by simp, hna, ⟨f, by simp, hfa⟩, hw⟩
              · obtain ⟨i, s', h1, h2, ⟨f', h3, h4⟩, h5⟩ := ih ft r' hr v hv
                exact ⟨i + 1, s', by simpa using h1, h2, ⟨f', by simpa using h3, h4⟩, h5⟩

/-- the three attacks, as `GetByzantineValidators` classifies them -/
theorem getByz_classification (l : LCA) (cv : List Validator) (t : Block) (vs : List Validator)
    (h : getByz l cv t = some vs) :
    (headerInvalid l t = true → vs = sortByPower (lunaticSigners l cv)) ∧
    (headerInvalid l t = false → t.round = l.round →
        ∃ r, equivocators l l.sigs t.flags = some r ∧ vs = sortByPower r) ∧
    (headerInvalid l t = false → t.round ≠ l.round → vs = []) := by
  unfold getByz at h
  refine ⟨?_, ?_, ?_⟩
  · intro hi; simp [hi] at h; exact h.symm
  · intro hi hr
    simp [hi, hr] at h
    obtain ⟨r, h1, h2⟩ := h
    exact ⟨r, h1, h2.symm⟩
  · intro hi hr
    simp [hi, hr] at h; exact h

/-- the loop of `validateABCIEvidence` accepts exactly the same (address, power) list -/
theorem byzMatch_ok_iff : ∀ (vs : List Validator) (bs : List (String × Int)), vs.length = bs.length →
    (byzMatch vs bs = .ok () ↔ bs = vs.map (fun v => (v.addr, v.power))) := by
  intro vs
  induction vs with
  | nil => intro bs h; cases bs <;> simp_all [byzMatch]
  | cons v vs ih =>
    intro bs h
    cases bs with
    | nil => simp at h
    | cons b bs =>
      simp at h
      unfold byzMatch
      by_cases h1 : b.1 = v.addr
      · by_cases h2 : b.2 = v.power
        · simp [h1, h2, ih bs h]
          intro _; exact Prod.ext h1 h2
        · simp [h1, h2]
          intro h3; exact absurd (congrArg Prod.snd h3) (by simpa using h2)
      · simp [h1]
        intro h3; exact absurd (congrArg Prod.fst h3) (by simpa using h1)

/-- `VerifyLightClientAttack` accepts: what the evidence must show against the node's own chain
(`commonVals` = validator set at the common height, `trusted` = the node's header / commit at height
`th`) -/
structure LCAAttack (l : LCA) (commonVals : List Validator) (th : Int) (trusted : Block) : Prop where
  /-- lunatic jump: one light-client verification step from the common validators -/
  jump : l.common ≠ l.cfh →
    CommitVerify.verifyCommitLightTrusting c.csigOK (commonVals.map toCV) c.chainID (toCommit l) 1 3 = .ok
  /-- same height: the conflicting header is correctly derived from the trusted state -/
  derived : l.common = l.cfh → headerInvalid l trusted = false
  /-- +2/3 of the conflicting validator set signed the conflicting block -/
  commit : CommitVerify.verifyCommitLight c.csigOK (l.cvals.map toCV) c.chainID someBlockID l.cfh (toCommit l) = .ok
  /-- the claimed total voting power is the common set's -/
  total : totalOf commonVals = some l.tvp
  /-- it conflicts: not merely a later block with a later time, and not the node's own header -/
  notLater : ¬ (l.cfh > th ∧ l.cft > trusted.time)
  differs : trusted.hash ≠ l.chash
  /-- the listed byzantine validators are exactly (address and power, in order) the ones
  `GetByzantineValidators` derives -/
  byz : ∃ vs, getByz l commonVals trusted = some vs ∧ l.byz = vs.map (fun v => (v.addr, v.power))

theorem cvOK_iff (r : CommitVerify.Res) : cvOK r = .ok () ↔ r = .ok := by
  cases r <;> simp [cvOK]

theorem validateABCI_ok_iff (l : LCA) (cv : List Validator) (t : Block) (htot : totalOf cv = some l.tvp) :
    validateABCI l cv t = .ok () ↔
      ∃ vs, getByz l cv t = some vs ∧ l.byz = vs.map (fun v => (v.addr, v.power)) := by
  unfold validateABCI
  simp only [htot, ne_eq, not_true_eq_false, ↓reduceIte]
  cases hg : getByz l cv t with
  | none => simp
  | some vs =>
    simp only [Option.some.injEq, exists_eq_left']
    by_cases h0 : vs.length = 0 ∧ l.byz.length ≠ 0
    · simp [h0]
      intro h; have := congrArg List.length h; simp at this; omega
    · rw [if_neg h0]
      by_cases h1 : vs.length = l.byz.length
      · simp [h1, byzMatch_ok_iff vs l.byz h1]
      · simp [h1]
        intro h; have := congrArg List.length h; simp at this; omega

theorem verifyLightClientAttack_ok_iff (l : LCA) (cv : List Validator) (th : Int) (t : Block) :
    verifyLightClientAttack c l l.common cv th t = .ok () ↔ LCAAttack c l cv th t := by
  unfold verifyLightClientAttack
  constructor
  · intro h
    simp only at h
    split at h
    · cases h
    · rename_i hj
      split at h
      · cases h
      · rename_i hc
        split at h
        · cases h
        · rename_i total htot
          split at h
          · cases h
          · rename_i htvp
            split at h
            · cases h
            · rename_i hnl
              split at h
              · cases h
              · rename_i hd
                have htot' : totalOf cv = some l.tvp := by
                  rw [htot]; simp at htvp; rw [htvp]
                refine ⟨?_, ?_, (cvOK_iff _).1 hc, htot', hnl, ?_, (validateABCI_ok_iff l cv t htot').1 h⟩
                · intro hne
                  simp only [hne, ne_eq, not_false_eq_true, ↓reduceIte] at hj
                  split at hj <;> first | rfl | cases hj
                  all_goals assumption
                · intro heq
                  simp only [heq, ne_eq, not_true_eq_false, ↓reduceIte] at hj
                  split at hj
                  · cases hj
                  · rename_i hh; simpa using hh
                · intro hh; exact hd ⟨hnl, hh⟩
  · intro h
    by_cases hne : l.common = l.cfh
    · simp [hne, h.derived hne, (cvOK_iff _).2 h.commit, h.total, h.notLater, h.differs,
        (validateABCI_ok_iff l cv t h.total).2 h.byz]
    · simp [hne, h.jump hne, (cvOK_iff _).2 h.commit, h.total, h.notLater, h.differs,
        (validateABCI_ok_iff l cv t h.total).2 h.byz]

theorem lcaOK_iff (l : LCA) (th : Int) :
    lcaOK c l th = true ↔
      ∃ cb tb, blockAt c l.common = some cb ∧ blockAt c th = some tb ∧ LCAAttack c l cb.vals th tb := by
  unfold lcaOK lcaVerdict
  cases h1 : blockAt c l.common with
  | none => simp
  | some cb =>
    cases h2 : blockAt c th with
    | none => simp
    | some tb =>
      simp only [Option.some.injEq, exists_and_left, exists_eq_left']
      rw [← verifyLightClientAttack_ok_iff]
      cases h3 : verifyLightClientAttack c l l.common cb.vals th tb <;> simp

end Tmv.Evidence
