import Tmv.Lemmas.Merkle
namespace Tmv.Merkle
variable (H : Bytes → Bytes)

/-- Completeness at the level of `computeHashFromAunts`: generated aunts recompute the root. -/
theorem fromAunts_auntsF :
    ∀ (fuel : Nat) (items : List Bytes) (i : Nat) (hi : i < items.length),
      items.length ≤ fuel →
      fromAunts H fuel i items.length (leafHash H (items[i]?.getD [])) (auntsF H fuel items i)
        = some (rootF H fuel items) := by
  intro fuel
  induction fuel with
  | zero => intro items i hi hle; omega
  | succ f ih =>
    intro items i hi hle
    match items, hi with
    | [x], hi =>
      have : i = 0 := by simp at hi; omega
      subst this
      simp [fromAunts, auntsF, rootF]
    | a :: b :: c, hi =>
      have hlen2 : 2 ≤ (a :: b :: c).length := by simp
      obtain ⟨hk0, hk⟩ := splitPoint_lt hlen2
      generalize hitems : (a :: b :: c) = items at *
      have hroot : rootF H (f+1) items =
          innerHash H (rootF H f (items.take (splitPoint items.length)))
                      (rootF H f (items.drop (splitPoint items.length))) := by
        subst hitems; simp [rootF]
      have haunts : auntsF H (f+1) items i =
          if i < splitPoint items.length then
            auntsF H f (items.take (splitPoint items.length)) i ++ [rootF H f (items.drop (splitPoint items.length))]
          else auntsF H f (items.drop (splitPoint items.length)) (i - splitPoint items.length)
                 ++ [rootF H f (items.take (splitPoint items.length))] := by
        subst hitems; simp [auntsF]
      rw [hroot, haunts]
      unfold fromAunts
      have hn1 : ¬ items.length = 1 := by omega
      have hn0 : ¬ items.length = 0 := by omega
      have hnot : ¬ (i ≥ items.length ∨ items.length = 0) := by omega
      simp only [hnot, hn1, if_false]
      by_cases hlt : i < splitPoint items.length
      · simp only [hlt, if_true, List.reverse_append, List.reverse_cons, List.reverse_nil,
          List.nil_append, List.singleton_append, List.reverse_reverse]
        have htl : (items.take (splitPoint items.length)).length = splitPoint items.length := by
          simp; omega
        have := ih (items.take (splitPoint items.length)) i (by rw [htl]; exact hlt) (by rw [htl]; omega)
        rw [htl] at this
        have hget : (items.take (splitPoint items.length))[i]? = items[i]? := by
          simp [List.getElem?_take, hlt]
        rw [hget] at this
        rw [this]; rfl
      · simp only [hlt, if_false, List.reverse_append, List.reverse_cons, List.reverse_nil,
          List.nil_append, List.singleton_append, List.reverse_reverse]
        have hdl : (items.drop (splitPoint items.length)).length = items.length - splitPoint items.length := by
          simp
        have hi' : i - splitPoint items.length < (items.drop (splitPoint items.length)).length := by
          rw [hdl]; omega
        have := ih (items.drop (splitPoint items.length)) (i - splitPoint items.length) hi' (by rw [hdl]; omega)
        rw [hdl] at this
        have hget : (items.drop (splitPoint items.length))[i - splitPoint items.length]? = items[i]? := by
          simp [List.getElem?_drop]
          congr 1; omega
        rw [hget] at this
        rw [this]; rfl

end Tmv.Merkle
