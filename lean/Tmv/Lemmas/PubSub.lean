import Tmv.Model.PubSub
set_option linter.unusedSimpArgs false
/-! Helper lemmas for the C19 pub/sub theorems. -/
namespace Tmv.PubSub
open Tmv.Query

/-- ops that can touch what client `c` observes: its own commands and every publication -/
def relevant (c : Str) : PsOp → Bool
  | .sub c' _ _ _ => c' == c
  | .unsub c' _ => c' == c
  | .unsubAll c' => c' == c
  | .pub _ => true
  | .read c' _ => c' == c

/-- ops issued by client `c` itself (their answers are what `c` sees) -/
def ownOp (c : Str) : PsOp → Bool
  | .pub _ => false
  | o => relevant c o

/-- everything the server holds about client `c` -/
def viewS (c : Str) (s : State) : State :=
  { registry := s.registry.filter (·.1 == c), recs := s.recs.filter (·.client == c) }

theorem cancel_client (w : Reason) (r : Rec) : (cancel w r).client = r.client := by
  unfold cancel; split <;> rfl

theorem deliver_client (m : Msg) (r : Rec) : (deliver m r).client = r.client := by
  unfold deliver
  split
  · rfl
  · split
    · split
      · rfl
      · split <;> rfl
    · rfl

theorem readRec_client (r : Rec) : (readRec r).1.client = r.client := by
  unfold readRec
  split
  · rfl
  · split <;> rfl

theorem filter_map_comm {α} (g : α → Bool) (f : α → α) (h : ∀ x, g (f x) = g x) (l : List α) :
    (l.map f).filter g = (l.filter g).map f := by
  induction l with
  | nil => rfl
  | cons x xs ih =>
    simp only [List.map_cons, List.filter_cons, h]
    split <;> simp [ih]

theorem mapFirst_filter_own (p g : Rec → Bool) (f : Rec → Rec × Out)
    (hp : ∀ r, p r = true → g r = true) (hf : ∀ r, g (f r).1 = g r) (l : List Rec) :
    (mapFirst p f l).1.filter g = (mapFirst p f (l.filter g)).1 ∧
    (mapFirst p f l).2 = (mapFirst p f (l.filter g)).2 := by
  induction l with
  | nil => simp [mapFirst]
  | cons x xs ih =>
    by_cases hpx : p x = true
    · have hg := hp x hpx
      simp [mapFirst, hpx, List.filter_cons, hg, hf]
    · by_cases hgx : g x = true
      · simp [mapFirst, hpx, List.filter_cons, hgx, ih.1, ih.2]
      · simp [mapFirst, hpx, List.filter_cons, hgx, ih.1, ih.2]

theorem mapFirst_filter_other (p g : Rec → Bool) (f : Rec → Rec × Out)
    (hp : ∀ r, p r = true → g r = false) (hf : ∀ r, g (f r).1 = g r) (l : List Rec) :
    (mapFirst p f l).1.filter g = l.filter g := by
  induction l with
  | nil => simp [mapFirst]
  | cons x xs ih =>
    by_cases hpx : p x = true
    · have hg := hp x hpx
      simp [mapFirst, hpx, List.filter_cons, hg, hf]
    · by_cases hgx : g x = true
      · simp [mapFirst, hpx, List.filter_cons, hgx, ih]
      · simp [mapFirst, hpx, List.filter_cons, hgx, ih]


theorem isFor_client {r : Rec} {c q : Str} (h : r.isFor c q = true) : r.client = c := by
  unfold Rec.isFor at h
  simp at h
  exact h.1

/-- an op of another client leaves `c`'s view untouched -/
theorem step_irrelevant (c : Str) (s : State) (o : PsOp) (h : relevant c o = false) :
    viewS c (step s o).1 = viewS c s := by
  cases o with
  | pub m => simp [relevant] at h
  | sub c' q ast cap =>
    have hne : c' ≠ c := by simpa [relevant] using h
    simp only [step]
    split
    · rfl
    · simp only [viewS, List.filter_append, List.filter_filter]
      have h1 : List.filter (fun x => x.1 == c) [(c', q)] = [] := by simp [hne]
      have h2 : List.filter (fun r : Rec => r.client == c)
          [{ client := c', qstr := q, query := ast, cap := cap, queue := [], taken := [],
             status := Status.active }] = [] := by simp [hne]
      rw [h1, h2]
      simp only [List.append_nil]
      congr 1
      apply List.filter_congr
      intro r _
      by_cases hc : r.client = c
      · have : r.isFor c' q = false := by
          unfold Rec.isFor; simp [hc]; intro h'; exact absurd h'.symm hne
        simp [hc, this]
      · simp [hc]
  | unsub c' q =>
    have hne : c' ≠ c := by simpa [relevant] using h
    simp only [step]
    split
    · rfl
    · simp only [viewS, List.filter_filter]
      congr 1
      · apply List.filter_congr
        intro p _
        by_cases hc : p.1 = c
        · have : p ≠ (c', q) := by intro e; rw [e] at hc; exact hne hc
          simp [hc, this]
        · simp [hc]
      · rw [filter_map_comm]
        · conv => rhs; rw [← List.map_id (List.filter (fun r : Rec => r.client == c) s.recs)]
          apply List.map_congr_left
          intro r hr
          have hrc : r.client = c := by simpa using (List.mem_filter.mp hr).2
          have : r.isFor c' q = false := by
            unfold Rec.isFor; simp [hrc]; intro h'; exact absurd h'.symm hne
          simp [this]
        · intro r; split
          · simp [cancel_client]
          · rfl
  | unsubAll c' =>
    have hne : c' ≠ c := by simpa [relevant] using h
    simp only [step]
    split
    · rfl
    · simp only [viewS, List.filter_filter]
      congr 1
      · apply List.filter_congr
        intro p _
        by_cases hc : p.1 = c
        · have : ¬ c = c' := fun e => hne e.symm
          simp [hc, this]
        · simp [hc]
      · rw [filter_map_comm]
        · conv => rhs; rw [← List.map_id (List.filter (fun r : Rec => r.client == c) s.recs)]
          apply List.map_congr_left
          intro r hr
          have hrc : r.client = c := by simpa using (List.mem_filter.mp hr).2
          have : (r.client == c') = false := by
            simp [hrc]; exact fun e => hne e.symm
          simp [this]
        · intro r; split
          · simp [cancel_client]
          · rfl
  | read c' q =>
    have hne : c' ≠ c := by simpa [relevant] using h
    simp only [step, viewS]
    congr 1
    apply mapFirst_filter_other
    · intro r hr
      have := isFor_client hr
      simp [this, hne]
    · intro r; simp [readRec_client]


theorem contains_filter_fst (l : List (Str × Str)) (c q : Str) :
    (l.filter (·.1 == c)).contains (c, q) = l.contains (c, q) := by
  induction l with
  | nil => rfl
  | cons x xs ih =>
    by_cases hx : x.1 = c
    · simp [List.filter_cons, hx, List.contains_cons, ih]
    · have : ¬ (c, q) = x := by intro e; rw [← e] at hx; exact hx rfl
      simp [List.filter_cons, hx, List.contains_cons, ih, this]

theorem any_filter_fst (l : List (Str × Str)) (c : Str) :
    (l.filter (·.1 == c)).any (·.1 == c) = l.any (·.1 == c) := by
  induction l with
  | nil => rfl
  | cons x xs ih =>
    by_cases hx : x.1 = c <;> simp [List.filter_cons, hx, ih]

/-- an op of `c` itself, or a publication, acts on `c`'s view exactly as it would act if `c` were
the only client; the answer to `c`'s own op is the same too -/
theorem step_relevant (c : Str) (s : State) (o : PsOp) (h : relevant c o = true) :
    viewS c (step s o).1 = (step (viewS c s) o).1 ∧
    (ownOp c o = true → (step s o).2 = (step (viewS c s) o).2) := by
  cases o with
  | pub m =>
    refine ⟨?_, by simp [ownOp]⟩
    simp only [step, viewS]
    congr 1
    exact filter_map_comm _ _ (fun r => by simp [deliver_client]) _
  | sub c' q ast cap =>
    have he : c' = c := by simpa [relevant] using h
    subst he
    simp only [step]
    have hc := contains_filter_fst s.registry c' q
    by_cases hreg : s.registry.contains (c', q) = true
    · have hreg' : (viewS c' s).registry.contains (c', q) = true := by simp only [viewS]; rw [hc]; exact hreg
      rw [if_pos hreg, if_pos hreg']
      exact ⟨rfl, fun _ => rfl⟩
    · have hreg' : ¬ (viewS c' s).registry.contains (c', q) = true := by simp only [viewS]; rw [hc]; exact hreg
      rw [if_neg hreg, if_neg hreg']
      refine ⟨?_, fun _ => rfl⟩
      simp only [viewS, List.filter_append, List.filter_filter]
      congr 1
      · simp
      · congr 1
        · apply List.filter_congr
          intro r _
          exact Bool.and_comm _ _
        · simp
  | unsub c' q =>
    have he : c' = c := by simpa [relevant] using h
    subst he
    simp only [step]
    have hc := contains_filter_fst s.registry c' q
    by_cases hreg : s.registry.contains (c', q) = true
    · have hreg' : (viewS c' s).registry.contains (c', q) = true := by simp only [viewS]; rw [hc]; exact hreg
      simp only [hreg, hreg', Bool.not_true, Bool.false_eq_true, if_false]
      refine ⟨?_, fun _ => trivial⟩
      simp only [viewS, List.filter_filter]
      congr 1
      · apply List.filter_congr
        intro r _
        exact Bool.and_comm _ _
      · apply filter_map_comm
        intro r; split
        · simp [cancel_client]
        · rfl
    · have hreg' : ¬ (viewS c' s).registry.contains (c', q) = true := by simp only [viewS]; rw [hc]; exact hreg
      simp only [hreg, hreg', Bool.not_false, if_true]
      exact ⟨trivial, fun _ => trivial⟩
  | unsubAll c' =>
    have he : c' = c := by simpa [relevant] using h
    subst he
    simp only [step]
    have hc := any_filter_fst s.registry c'
    by_cases hreg : s.registry.any (·.1 == c') = true
    · have hreg' : (viewS c' s).registry.any (·.1 == c') = true := by simp only [viewS]; rw [hc]; exact hreg
      simp only [hreg, hreg', Bool.not_true, Bool.false_eq_true, if_false]
      refine ⟨?_, fun _ => trivial⟩
      simp only [viewS, List.filter_filter]
      congr 1
      · apply List.filter_congr
        intro r _
        exact Bool.and_comm _ _
      · apply filter_map_comm
        intro r; split
        · simp [cancel_client]
        · rfl
    · have hreg' : ¬ (viewS c' s).registry.any (·.1 == c') = true := by simp only [viewS]; rw [hc]; exact hreg
      simp only [hreg, hreg', Bool.not_false, if_true]
      exact ⟨trivial, fun _ => trivial⟩
  | read c' q =>
    have he : c' = c := by simpa [relevant] using h
    subst he
    have := mapFirst_filter_own (·.isFor c' q) (·.client == c') readRec
      (fun r hr => by simp [isFor_client hr]) (fun r => by simp [readRec_client]) s.recs
    simp only [step, viewS]
    refine ⟨?_, fun _ => this.2⟩
    congr 1
    exact this.1


/-! ### one subscription followed through a history -/

def isSub (c q : Str) : PsOp → Bool
  | .sub c' q' _ _ => c' == c && q' == q
  | _ => false

/-- the publications a subscriber with query `ast` is owed: those its own query matches -/
def owed (ast : Query) : List PsOp → List Msg
  | [] => []
  | .pub m :: rest =>
    match «matches» ast m.2 with
    | .ok true => m :: owed ast rest
    | _ => owed ast rest
  | _ :: rest => owed ast rest

/-- everything the client has got or can still get from this subscription object, in order -/
def Rec.content (r : Rec) : List Msg := r.taken ++ r.queue

/-- effect of one op on the subscription object of (c, q) -/
def StepRel (r : Rec) (o : PsOp) (r' : Rec) : Prop :=
  r'.query = r.query ∧
  ((r.status = .active ∧ r'.content = r.content ++ owed r.query [o]) ∨
   (r'.status ≠ .active ∧ r'.content = r.content)) ∧
  (r.status ≠ .active → r'.status ≠ .active)

theorem stepRel_same (r : Rec) (o : PsOp) (h : owed r.query [o] = []) : StepRel r o r := by
  refine ⟨rfl, ?_, fun h => h⟩
  by_cases ha : r.status = .active
  · left; exact ⟨ha, by simp [h]⟩
  · right; exact ⟨ha, rfl⟩

theorem stepRel_cancel (w : Reason) (r : Rec) (o : PsOp) (h : owed r.query [o] = []) :
    StepRel r o (cancel w r) := by
  unfold cancel
  split
  · rename_i ha
    refine ⟨rfl, Or.inl ⟨ha, by simp [Rec.content, h]⟩, fun h' => absurd ha h'⟩
  · exact stepRel_same r o h

theorem stepRel_deliver (m : Msg) (r : Rec) : StepRel r (.pub m) (deliver m r) := by
  unfold deliver
  split
  · rename_i hna
    refine ⟨rfl, Or.inr ⟨hna, rfl⟩, fun h => h⟩
  · rename_i ha
    have ha : r.status = .active := by simpa using ha
    split
    · rename_i hm
      split
      · refine ⟨rfl, Or.inl ⟨ha, ?_⟩, fun h => absurd ha h⟩
        simp [Rec.content, owed, hm]
      · split
        · refine ⟨rfl, Or.inl ⟨ha, ?_⟩, fun h => absurd ha h⟩
          simp [Rec.content, owed, hm]
        · refine ⟨rfl, Or.inr ⟨by simp, rfl⟩, fun h => absurd ha h⟩
    · rename_i hm
      apply stepRel_same
      simp only [owed]

theorem stepRel_read (r : Rec) (o : PsOp) (h : owed r.query [o] = []) :
    StepRel r o (readRec r).1 := by
  unfold readRec
  split
  · rename_i m rest hq
    refine ⟨rfl, ?_, fun h => h⟩
    by_cases ha : r.status = .active
    · left; exact ⟨ha, by simp [Rec.content, hq, h]⟩
    · right; exact ⟨ha, by simp [Rec.content, hq]⟩
  · split <;> exact stepRel_same r o h

theorem isFor_iff (r : Rec) (c q : Str) : r.isFor c q = true ↔ r.client = c ∧ r.qstr = q := by
  simp [Rec.isFor]

theorem cancel_isFor (w : Reason) (r : Rec) (c q : Str) : (cancel w r).isFor c q = r.isFor c q := by
  unfold cancel; split <;> rfl

theorem deliver_isFor (m : Msg) (r : Rec) (c q : Str) : (deliver m r).isFor c q = r.isFor c q := by
  unfold deliver
  split
  · rfl
  · split
    · split
      · rfl
      · split <;> rfl
    · rfl

theorem readRec_isFor (r : Rec) (c q : Str) : (readRec r).1.isFor c q = r.isFor c q := by
  unfold readRec
  split
  · rfl
  · split <;> rfl

/-- one op that is not a re-subscription of (c, q) keeps the pair's subscription object unique
and changes it as `StepRel` says -/
theorem step_rec (c q : Str) (s : State) (r : Rec) (o : PsOp)
    (hf : s.recs.filter (·.isFor c q) = [r]) (ho : isSub c q o = false) :
    ∃ r', (step s o).1.recs.filter (·.isFor c q) = [r'] ∧ StepRel r o r' := by
  cases o with
  | sub c' q' ast cap =>
    have hne : ¬ (c' = c ∧ q' = q) := by simpa [isSub] using ho
    simp only [step]
    split
    · exact ⟨r, hf, stepRel_same r _ rfl⟩
    · refine ⟨r, ?_, stepRel_same r _ rfl⟩
      simp only [List.filter_append, List.filter_filter]
      have h2 : List.filter (fun r : Rec => r.isFor c q)
          [{ client := c', qstr := q', query := ast, cap := cap, queue := [], taken := [],
             status := Status.active }] = [] := by
        simp [Rec.isFor]; intro h1; exact fun h2 => hne ⟨h1, h2⟩
      rw [h2, List.append_nil, ← hf]
      apply List.filter_congr
      intro x _
      by_cases hx : x.isFor c q = true
      · have k1 := (isFor_iff x c q).mp hx
        have hx' : x.isFor c' q' = false := by
          cases h' : x.isFor c' q' with
          | false => rfl
          | true =>
            have k2 := (isFor_iff x c' q').mp h'
            exact absurd ⟨k2.1.symm.trans k1.1, k2.2.symm.trans k1.2⟩ hne
        simp [hx, hx']
      · simp [hx]
  | unsub c' q' =>
    simp only [step]
    split
    · exact ⟨r, hf, stepRel_same r _ rfl⟩
    · simp only []
      rw [filter_map_comm _ _ (fun x => by split <;> simp [cancel_isFor]), hf]
      simp only [List.map_cons, List.map_nil]
      split
      · exact ⟨_, rfl, stepRel_cancel _ r _ rfl⟩
      · exact ⟨_, rfl, stepRel_same r _ rfl⟩
  | unsubAll c' =>
    simp only [step]
    split
    · exact ⟨r, hf, stepRel_same r _ rfl⟩
    · simp only []
      rw [filter_map_comm _ _ (fun x => by split <;> simp [cancel_isFor]), hf]
      simp only [List.map_cons, List.map_nil]
      split
      · exact ⟨_, rfl, stepRel_cancel _ r _ rfl⟩
      · exact ⟨_, rfl, stepRel_same r _ rfl⟩
  | pub m =>
    simp only [step]
    rw [filter_map_comm _ _ (fun x => deliver_isFor m x c q), hf]
    exact ⟨_, rfl, stepRel_deliver m r⟩
  | read c' q' =>
    simp only [step]
    by_cases he : c' = c ∧ q' = q
    · obtain ⟨h1, h2⟩ := he
      subst h1; subst h2
      have := (mapFirst_filter_own (·.isFor c' q') (·.isFor c' q') readRec (fun _ h => h)
        (fun x => readRec_isFor x c' q') s.recs).1
      rw [this, hf]
      have hr : r.isFor c' q' = true := by
        have : r ∈ s.recs.filter (·.isFor c' q') := by rw [hf]; simp
        exact (List.mem_filter.mp this).2
      simp only [mapFirst, hr, if_true]
      exact ⟨_, rfl, stepRel_read r _ rfl⟩
    · refine ⟨r, ?_, stepRel_same r _ rfl⟩
      rw [mapFirst_filter_other _ _ _ _ (fun x => readRec_isFor x c q), hf]
      intro x hx
      have h1 := (isFor_iff x c' q').mp hx
      cases h' : x.isFor c q with
      | false => rfl
      | true =>
        have h2 := (isFor_iff x c q).mp h'
        exact absurd ⟨h1.1.symm.trans h2.1, h1.2.symm.trans h2.2⟩ he

/-- `step_rec` for any relation closed under the four things the server does to a subscription -/
theorem step_rec_gen (R : Rec → Rec → Prop) (hrefl : ∀ r, R r r) (hcancel : ∀ r, R r (cancel .unsubscribed r))
    (hdeliver : ∀ m r, R r (deliver m r)) (hread : ∀ r, R r (readRec r).1)
    (c q : Str) (s : State) (r : Rec) (o : PsOp)
    (hf : s.recs.filter (·.isFor c q) = [r]) (ho : isSub c q o = false) :
    ∃ r', (step s o).1.recs.filter (·.isFor c q) = [r'] ∧ R r r' := by
  cases o with
  | sub c' q' ast cap =>
    have hne : ¬ (c' = c ∧ q' = q) := by simpa [isSub] using ho
    simp only [step]
    split
    · exact ⟨r, hf, hrefl r⟩
    · refine ⟨r, ?_, hrefl r⟩
      simp only [List.filter_append, List.filter_filter]
      have h2 : List.filter (fun r : Rec => r.isFor c q)
          [{ client := c', qstr := q', query := ast, cap := cap, queue := [], taken := [],
             status := Status.active }] = [] := by
        simp [Rec.isFor]; intro h1; exact fun h2 => hne ⟨h1, h2⟩
      rw [h2, List.append_nil, ← hf]
      apply List.filter_congr
      intro x _
      by_cases hx : x.isFor c q = true
      · have k1 := (isFor_iff x c q).mp hx
        have hx' : x.isFor c' q' = false := by
          cases h' : x.isFor c' q' with
          | false => rfl
          | true =>
            have k2 := (isFor_iff x c' q').mp h'
            exact absurd ⟨k2.1.symm.trans k1.1, k2.2.symm.trans k1.2⟩ hne
        simp [hx, hx']
      · simp [hx]
  | unsub c' q' =>
    simp only [step]
    split
    · exact ⟨r, hf, hrefl r⟩
    · simp only []
      rw [filter_map_comm _ _ (fun x => by split <;> simp [cancel_isFor]), hf]
      simp only [List.map_cons, List.map_nil]
      split
      · exact ⟨_, rfl, hcancel r⟩
      · exact ⟨_, rfl, hrefl r⟩
  | unsubAll c' =>
    simp only [step]
    split
    · exact ⟨r, hf, hrefl r⟩
    · simp only []
      rw [filter_map_comm _ _ (fun x => by split <;> simp [cancel_isFor]), hf]
      simp only [List.map_cons, List.map_nil]
      split
      · exact ⟨_, rfl, hcancel r⟩
      · exact ⟨_, rfl, hrefl r⟩
  | pub m =>
    simp only [step]
    rw [filter_map_comm _ _ (fun x => deliver_isFor m x c q), hf]
    exact ⟨_, rfl, hdeliver m r⟩
  | read c' q' =>
    simp only [step]
    by_cases he : c' = c ∧ q' = q
    · obtain ⟨h1, h2⟩ := he
      subst h1; subst h2
      have := (mapFirst_filter_own (·.isFor c' q') (·.isFor c' q') readRec (fun _ h => h)
        (fun x => readRec_isFor x c' q') s.recs).1
      rw [this, hf]
      have hr : r.isFor c' q' = true := by
        have : r ∈ s.recs.filter (·.isFor c' q') := by rw [hf]; simp
        exact (List.mem_filter.mp this).2
      simp only [mapFirst, hr, if_true]
      exact ⟨_, rfl, hread r⟩
    · refine ⟨r, ?_, hrefl r⟩
      rw [mapFirst_filter_other _ _ _ _ (fun x => readRec_isFor x c q), hf]
      intro x hx
      have h1 := (isFor_iff x c' q').mp hx
      cases h' : x.isFor c q with
      | false => rfl
      | true =>
        have h2 := (isFor_iff x c q).mp h'
        exact absurd ⟨h1.1.symm.trans h2.1, h1.2.symm.trans h2.2⟩ he


end Tmv.PubSub
