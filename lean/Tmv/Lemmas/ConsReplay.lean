import Tmv.Lemmas.ConsErase
/-! Replaying a WAL in which the node's own messages are records gives the round state of
`Cons.step` / `Cons.run` over the external inputs, whatever the replaying node's signer does. -/
namespace Tmv.Cons
open Tmv.Node04

variable {c : Cfg}

theorem replayRec_own {b : NodeState} (m : Internal) (hg : ¬ (b.halted = true ∨ b.decided.isSome = true)) :
    replayRec c b (.own m) = handleInternal c b m := by
  unfold replayRec; simp only [hg, if_false]

theorem replayRec_ext {b : NodeState} (i : Input) (hg : ¬ (b.halted = true ∨ b.decided.isSome = true)) :
    replayRec c b (.ext i) = handleInput c b i := by
  unfold replayRec; simp only [hg, if_false]

theorem drain_replay (fuel : Nat) {a b : NodeState} (h : er a = er b) :
    er (drain c fuel a) = er (replayRecs c b ((drainLog c fuel a).map .own)) := by
  induction fuel generalizing a b with
  | zero => unfold drain drainLog; exact h
  | succ n ih =>
    have hh := er_halted h
    have hd := er_decided h
    unfold drain drainLog
    by_cases hg : a.halted = true ∨ a.decided.isSome = true
    · simp only [hg, if_true]; exact h
    · simp only [hg, if_false]
      have hgb : ¬ (b.halted = true ∨ b.decided.isSome = true) := by rw [← hh, ← hd]; exact hg
      cases hq : a.queue with
      | nil => exact h
      | cons m rest =>
        simp only [List.map_cons, replayRecs, List.foldl_cons]
        rw [replayRec_own m hgb]
        exact ih (handleInternal_cong m m (show er { a with queue := rest } = er b from h) rfl)

/-- one step of the consensus model = replaying the records it writes, whatever the replaying
node's signer state, outputs and queue are -/
theorem step_replay (i : Input) {a b : NodeState} (h : er a = er b) :
    er (step c a i) = er (replayRecs c b (stepLog c a i)) := by
  have hh := er_halted h
  have hd := er_decided h
  unfold step stepLog
  by_cases hg : a.halted = true ∨ a.decided.isSome = true
  · simp only [hg, if_true]; exact h
  · simp only [hg, if_false]
    have hgb : ¬ (b.halted = true ∨ b.decided.isSome = true) := by rw [← hh, ← hd]; exact hg
    simp only [replayRecs, List.foldl_cons]
    rw [replayRec_ext i hgb]
    exact drain_replay _ (handleInput_cong i i h rfl)

theorem run_replay (is : List Input) {a b : NodeState} (h : er a = er b) :
    er (run c a is) = er (replayRecs c b (runLog c a is)) := by
  induction is generalizing a b with
  | nil => exact h
  | cons i is ih =>
    have h1 := step_replay (c := c) i h
    show er (run c (step c a i) is) = er (replayRecs c b (stepLog c a i ++ runLog c (step c a i) is))
    unfold replayRecs
    rw [List.foldl_append]
    exact ih h1

/-- replaying ANY record list: the round state does not depend on the signer state, the outputs or
the queue the replaying node starts with -/
theorem replayRecs_cong (w : List Rec) {a b : NodeState} (h : er a = er b) :
    er (replayRecs c a w) = er (replayRecs c b w) := by
  induction w generalizing a b with
  | nil => exact h
  | cons r w ih =>
    have hh := er_halted h
    have hd := er_decided h
    simp only [replayRecs, List.foldl_cons]
    apply ih
    have hgb : (b.halted = true ∨ b.decided.isSome = true) ↔ (a.halted = true ∨ a.decided.isSome = true) := by
      rw [← hh, ← hd]
    by_cases hg : a.halted = true ∨ a.decided.isSome = true
    · have hg' := hgb.2 hg
      cases r <;> simp only [replayRec, hg, hg', if_true] <;> exact h
    · have hg' : ¬ (b.halted = true ∨ b.decided.isSome = true) := fun x => hg (hgb.1 x)
      cases r with
      | ext i => rw [replayRec_ext i hg, replayRec_ext i hg']; exact handleInput_cong i i h rfl
      | own m => rw [replayRec_own m hg, replayRec_own m hg']; exact handleInternal_cong m m h rfl

end Tmv.Cons
