import Tmv.Model.MempoolV1
import Tmv.Model.MempoolV1Split
import Tmv.Lemmas.MempoolList
/-! Invariants of the v1 (priority) mempool model and their preservation by every operation. -/
namespace Tmv.Mempool.V1
open Tmv Tmv.Mempool

/-- structural invariant on (pool keys, key index, byte counter) -/
structure InvC (ks : List Bytes) (map : List Bytes) (bytes : Int) : Prop where
  nodup : ks.Nodup
  map : map.Perm ks
  bytes : bytes = bytesOf ks

def Inv (s : State) : Prop := InvC (keys s) s.byKey s.txsBytes

def Bounded (s : State) : Prop :=
  ((keys s).length : Int) ≤ s.cfg.size ∧ s.txsBytes ≤ s.cfg.maxTxsBytes

def CfgValid (c : Cfg) : Prop := 0 ≤ c.size ∧ 0 ≤ c.maxTxsBytes

/-- everything the invariants (and the filters) look at -/
def Core (s : State) : List Bytes × List Bytes × Int × Cfg × Option Int :=
  (keys s, s.byKey, s.txsBytes, s.cfg, s.post)

theorem keys_length (s : State) : (keys s).length = s.txs.length := by simp [keys]

theorem inv_of_core {a b : State} (h : Core a = Core b) (hi : Inv b) : Inv a := by
  simp only [Core, Prod.mk.injEq] at h
  obtain ⟨h1, h2, h3, _, _⟩ := h
  unfold Inv; rw [h1, h2, h3]; exact hi

theorem bounded_of_core {a b : State} (h : Core a = Core b) (hb : Bounded b) : Bounded a := by
  simp only [Core, Prod.mk.injEq] at h
  obtain ⟨h1, _, h3, h4, _⟩ := h
  unfold Bounded; rw [h1, h3, h4]; exact hb

theorem inv_init (cfg : Cfg) (h : Int) : Inv (init cfg h) :=
  ⟨by simp [init, keys], by simp [init, keys], by simp [init, keys, bytesOf]⟩

theorem bounded_init (cfg : Cfg) (h : Int) (hv : CfgValid cfg) : Bounded (init cfg h) := by
  unfold Bounded init keys; simp; exact hv

theorem mem_byKey_iff {s : State} (hi : Inv s) (k : Bytes) : k ∈ s.byKey ↔ k ∈ keys s :=
  hi.map.mem_iff

/-! ### removeElem / insertTx -/

theorem keys_removeElem (s : State) (w : WTx) : keys (removeElem s w) = (keys s).erase w.tx := by
  simp only [keys, removeElem]
  exact map_eraseP_key (fun e : WTx => e.tx) w.tx s.txs

theorem core_removeElem_tx (s : State) (w w' : WTx) (h : w'.tx = w.tx) :
    Core (removeElem s w') = Core (removeElem s w) := by
  simp only [Core, keys_removeElem, h]
  simp [removeElem, h]

theorem inv_removeElem {s : State} (hi : Inv s) (w : WTx) (hm : w.tx ∈ keys s) :
    Inv (removeElem s w) := by
  refine ⟨?_, ?_, ?_⟩
  · rw [keys_removeElem]; exact hi.nodup.erase _
  · show (s.byKey.erase w.tx).Perm (keys (removeElem s w))
    rw [keys_removeElem]; exact hi.map.erase _
  · show s.txsBytes - (w.tx.length : Int) = bytesOf (keys (removeElem s w))
    rw [keys_removeElem, bytesOf_erase _ _ hm, hi.bytes]

theorem not_mem_removeElem {s : State} (hi : Inv s) (w : WTx) : w.tx ∉ keys (removeElem s w) := by
  rw [keys_removeElem]
  intro h
  exact ((hi.nodup.mem_erase_iff).1 h).1 rfl

theorem keys_removeElem_sub (s : State) (w : WTx) :
    ∀ k, k ∈ keys (removeElem s w) → k ∈ keys s := by
  intro k h; rw [keys_removeElem] at h; exact List.mem_of_mem_erase h

theorem bounded_removeElem {s : State} (hb : Bounded s) (w : WTx) : Bounded (removeElem s w) := by
  unfold Bounded at *
  rw [keys_removeElem]
  have h1 := length_erase_le (keys s) w.tx
  simp only [removeElem]
  constructor <;> omega

theorem keys_insertTx (s : State) (w : WTx) : keys (insertTx s w) = keys s ++ [w.tx] := by
  simp [keys, insertTx]

theorem inv_insertTx {s : State} (hi : Inv s) (w : WTx) (hn : w.tx ∉ s.byKey) :
    Inv (insertTx s w) := by
  have hk : w.tx ∉ keys s := fun h => hn ((mem_byKey_iff hi _).2 h)
  refine ⟨?_, ?_, ?_⟩
  · rw [keys_insertTx, List.nodup_append]
    refine ⟨hi.nodup, by simp, ?_⟩
    intro a ha b hb
    simp at hb; subst hb
    intro e; subst e; exact hk ha
  · show (if w.tx ∈ s.byKey then s.byKey else s.byKey ++ [w.tx]).Perm (keys (insertTx s w))
    rw [keys_insertTx]
    simp only [hn, if_false]
    exact hi.map.append_right _
  · show s.txsBytes + (w.tx.length : Int) = bytesOf (keys (insertTx s w))
    rw [keys_insertTx, bytesOf_append, hi.bytes]

theorem bounded_insertTx {s : State} (w : WTx) (hc : canAddTx s w.tx.length = true) :
    Bounded (insertTx s w) := by
  unfold Bounded
  unfold canAddTx at hc
  simp at hc
  rw [keys_insertTx]
  simp only [insertTx, List.length_append, List.length_cons, List.length_nil, keys_length]
  constructor <;> omega

/-! ### find? on a pool with distinct keys -/

theorem find_tx_of_mem (l : List WTx) (k : Bytes) (h : k ∈ l.map (·.tx)) :
    ∃ w, l.find? (fun e => decide (e.tx = k)) = some w ∧ w.tx = k ∧ w ∈ l := by
  cases hf : l.find? (fun e => decide (e.tx = k)) with
  | none =>
    rw [List.find?_eq_none] at hf
    obtain ⟨e, he, hek⟩ := List.mem_map.1 h
    exact absurd (by simpa using hek) (hf e he)
  | some w =>
    have h1 := List.find?_some hf
    exact ⟨w, rfl, by simpa using h1, List.mem_of_find?_eq_some hf⟩

theorem find_self (l : List WTx) (hn : (l.map (·.tx)).Nodup) :
    ∀ e ∈ l, l.find? (fun x => decide (x.tx = e.tx)) = some e := by
  induction l with
  | nil => intro e he; cases he
  | cons a r ih =>
    intro e he
    have hn' := List.nodup_cons.1 hn
    cases he with
    | head => simp
    | tail _ her =>
      have hne : a.tx ≠ e.tx := by
        intro h
        have hm : e.tx ∈ r.map (·.tx) := List.mem_map_of_mem (f := (·.tx)) her
        rw [← h] at hm
        exact hn'.1 hm
      simp [hne, ih hn'.2 e her]

/-! ### removeTxByKey -/

theorem removeTxByKey_cases {s : State} (hi : Inv s) (k : Bytes) :
    (k ∉ keys s ∧ removeTxByKey s k = s) ∨
    (∃ w, w.tx = k ∧ w ∈ s.txs ∧ removeTxByKey s k = removeElem s w) := by
  unfold removeTxByKey
  by_cases hk : k ∈ s.byKey
  · right
    obtain ⟨w, hf, hw, hm⟩ := find_tx_of_mem s.txs k ((mem_byKey_iff hi k).1 hk)
    exact ⟨w, hw, hm, by simp [hk, hf]⟩
  · left
    exact ⟨fun h => hk ((mem_byKey_iff hi k).2 h), by simp [hk]⟩

/-! ### folds of "keep or remove this entry" steps -/

/-- a step applied to a snapshot entry `w` either leaves the core alone (then `P` holds of `w`)
or removes `w`; it forgets from the cache nothing but `w.tx` -/
structure RemStep (P : Option Int → WTx → Prop) (g : State → WTx → State) : Prop where
  core : ∀ st w, Inv st → w.tx ∈ keys st →
    (Core (g st w) = Core st ∧ P st.post w) ∨ Core (g st w) = Core (removeElem st w)
  cache : ∀ st w k, k ≠ w.tx → st.cache.has k = true → (g st w).cache.has k = true

theorem remFold {P : Option Int → WTx → Prop} {g : State → WTx → State} (hg : RemStep P g)
    (l : List WTx) : ∀ (st : State), Inv st → (∀ w ∈ l, w.tx ∈ keys st) → (l.map (·.tx)).Nodup →
    let r := l.foldl g st
    Inv r ∧ r.cfg = st.cfg ∧ r.post = st.post ∧ (∀ k, k ∈ keys r → k ∈ keys st) ∧
    (∀ k, k ∈ keys r → ∀ w ∈ l, w.tx = k → P st.post w) ∧
    (∀ k, (∀ w ∈ l, w.tx ≠ k) → st.cache.has k = true → r.cache.has k = true) ∧
    (∀ k, k ∈ keys st → (∀ w ∈ l, w.tx ≠ k) → k ∈ keys r) ∧
    (Bounded st → Bounded r) := by
  induction l with
  | nil =>
    intro st hi _ _
    exact ⟨hi, rfl, rfl, fun _ h => h, fun _ _ _ hw => (by cases hw), fun _ _ h => h,
      fun _ h _ => h, fun h => h⟩
  | cons e rest ih =>
    intro st hi hmem hnd
    simp only [List.foldl_cons]
    have hnd' : (rest.map (·.tx)).Nodup := (List.nodup_cons.1 hnd).2
    have hne : ∀ e' ∈ rest, e'.tx ≠ e.tx := by
      intro e' he' heq
      have hm : e'.tx ∈ rest.map (·.tx) := List.mem_map_of_mem (f := (·.tx)) he'
      rw [heq] at hm
      exact (List.nodup_cons.1 hnd).1 hm
    have hin : e.tx ∈ keys st := hmem e List.mem_cons_self
    have hcache := hg.cache st e
    rcases hg.core st e hi hin with ⟨hc, hp⟩ | hc
    · -- kept
      have hk1 : keys (g st e) = keys st := by
        have := congrArg (·.1) hc; simpa [Core] using this
      have hcfg : (g st e).cfg = st.cfg := by
        have := congrArg (·.2.2.2.1) hc; simpa [Core] using this
      have hpost : (g st e).post = st.post := by
        have := congrArg (·.2.2.2.2) hc; simpa [Core] using this
      have hi1 : Inv (g st e) := inv_of_core hc hi
      obtain ⟨h1, h2, h3, h4, h5, h6, h7, h8⟩ := ih (g st e) hi1
        (fun w hw => by rw [hk1]; exact hmem w (List.mem_cons_of_mem _ hw)) hnd'
      refine ⟨h1, h2.trans hcfg, h3.trans hpost, fun k hk => hk1 ▸ h4 k hk, ?_, ?_, ?_, ?_⟩
      · intro k hk w hw hwk
        cases hw with
        | head => exact hp
        | tail _ hw => rw [← hpost]; exact h5 k hk w hw hwk
      · intro k hk hc0
        exact h6 k (fun w hw => hk w (List.mem_cons_of_mem _ hw))
          (hcache k (fun h => hk e List.mem_cons_self h.symm) hc0)
      · intro k hk hnk
        exact h7 k (hk1 ▸ hk) (fun w hw => hnk w (List.mem_cons_of_mem _ hw))
      · intro hb; exact h8 (bounded_of_core hc hb)
    · -- removed
      have hk1 : keys (g st e) = keys (removeElem st e) := by
        have := congrArg (·.1) hc; simpa [Core] using this
      have hcfg : (g st e).cfg = st.cfg := by
        have := congrArg (·.2.2.2.1) hc
        have h0 : (g st e).cfg = (removeElem st e).cfg := by simpa [Core] using this
        exact h0
      have hpost : (g st e).post = st.post := by
        have := congrArg (·.2.2.2.2) hc
        have h0 : (g st e).post = (removeElem st e).post := by simpa [Core] using this
        exact h0
      have hi1 : Inv (g st e) := inv_of_core hc (inv_removeElem hi e hin)
      have hmem1 : ∀ w ∈ rest, w.tx ∈ keys (g st e) := by
        intro w hw
        rw [hk1, keys_removeElem]
        exact (List.mem_erase_of_ne (hne w hw)).2 (hmem w (List.mem_cons_of_mem _ hw))
      obtain ⟨h1, h2, h3, h4, h5, h6, h7, h8⟩ := ih (g st e) hi1 hmem1 hnd'
      have hsub : ∀ k, k ∈ keys (g st e) → k ∈ keys st := by
        intro k hk; rw [hk1] at hk; exact keys_removeElem_sub st e k hk
      have hnot : e.tx ∉ keys (g st e) := by rw [hk1]; exact not_mem_removeElem hi e
      refine ⟨h1, h2.trans hcfg, h3.trans hpost, fun k hk => hsub k (h4 k hk), ?_, ?_, ?_, ?_⟩
      · intro k hk w hw hwk
        cases hw with
        | head => exact absurd (hwk ▸ h4 k hk) hnot
        | tail _ hw => rw [← hpost]; exact h5 k hk w hw hwk
      · intro k hk hc0
        exact h6 k (fun w hw => hk w (List.mem_cons_of_mem _ hw))
          (hcache k (fun h => hk e List.mem_cons_self h.symm) hc0)
      · intro k hk hnk
        apply h7 k _ (fun w hw => hnk w (List.mem_cons_of_mem _ hw))
        rw [hk1, keys_removeElem]
        exact (List.mem_erase_of_ne (fun h => hnk e List.mem_cons_self h.symm)).2 hk
      · intro hb; exact h8 (bounded_of_core hc (bounded_removeElem hb e))

/-- the whole pool as snapshot -/
theorem remFold_all {P : Option Int → WTx → Prop} {g : State → WTx → State} (hg : RemStep P g)
    {st : State} (hi : Inv st) :
    let r := st.txs.foldl g st
    Inv r ∧ r.cfg = st.cfg ∧ r.post = st.post ∧ (∀ k, k ∈ keys r → k ∈ keys st) ∧
    (∀ k, k ∈ keys r → ∀ w ∈ st.txs, w.tx = k → P st.post w) ∧
    (∀ k, k ∉ keys st → st.cache.has k = true → r.cache.has k = true) ∧
    (Bounded st → Bounded r) := by
  obtain ⟨h1, h2, h3, h4, h5, h6, _, h8⟩ := remFold hg st.txs st hi
    (fun w hw => List.mem_map_of_mem (f := (·.tx)) hw) hi.nodup
  refine ⟨h1, h2, h3, h4, h5, ?_, h8⟩
  intro k hk hc
  exact h6 k (fun w hw h => hk (h ▸ List.mem_map_of_mem (f := (·.tx)) hw)) hc

/-- entries the step function is bound to keep stay to the end of the fold -/
theorem remFold_keeps {P : Option Int → WTx → Prop} {g : State → WTx → State} (hg : RemStep P g)
    (K : Cfg → WTx → Prop)
    (hk : ∀ st w, Inv st → w.tx ∈ keys st → K st.cfg w → Core (g st w) = Core st)
    (l : List WTx) : ∀ (st : State), Inv st → (∀ w ∈ l, w.tx ∈ keys st) → (l.map (·.tx)).Nodup →
    ∀ w ∈ l, K st.cfg w → w.tx ∈ keys (l.foldl g st) := by
  induction l with
  | nil => intro st _ _ _ w hw; cases hw
  | cons e rest ih =>
    intro st hi hmem hnd w hw hK
    simp only [List.foldl_cons]
    have hnd' : (rest.map (·.tx)).Nodup := (List.nodup_cons.1 hnd).2
    have hne : ∀ e' ∈ rest, e'.tx ≠ e.tx := by
      intro e' he' heq
      have hm : e'.tx ∈ rest.map (·.tx) := List.mem_map_of_mem (f := (·.tx)) he'
      rw [heq] at hm
      exact (List.nodup_cons.1 hnd).1 hm
    have hin : e.tx ∈ keys st := hmem e List.mem_cons_self
    -- state after the head step: invariant, cfg, membership of the rest
    have hstep : Inv (g st e) ∧ (g st e).cfg = st.cfg ∧ (∀ w' ∈ rest, w'.tx ∈ keys (g st e)) := by
      rcases hg.core st e hi hin with ⟨hc, _⟩ | hc
      · have hk1 : keys (g st e) = keys st := by
          have := congrArg (·.1) hc; simpa [Core] using this
        have hcfg : (g st e).cfg = st.cfg := by
          have := congrArg (·.2.2.2.1) hc; simpa [Core] using this
        exact ⟨inv_of_core hc hi, hcfg, fun w' hw' => by rw [hk1]; exact hmem w' (List.mem_cons_of_mem _ hw')⟩
      · have hk1 : keys (g st e) = keys (removeElem st e) := by
          have := congrArg (·.1) hc; simpa [Core] using this
        have hcfg : (g st e).cfg = st.cfg := by
          have := congrArg (·.2.2.2.1) hc
          have h0 : (g st e).cfg = (removeElem st e).cfg := by simpa [Core] using this
          exact h0
        refine ⟨inv_of_core hc (inv_removeElem hi e hin), hcfg, ?_⟩
        intro w' hw'
        rw [hk1, keys_removeElem]
        exact (List.mem_erase_of_ne (hne w' hw')).2 (hmem w' (List.mem_cons_of_mem _ hw'))
    obtain ⟨hi1, hcfg1, hmem1⟩ := hstep
    cases hw with
    | head =>
      -- the head itself is kept, and no later step touches it
      have hc := hk st e hi hin hK
      have hk1 : keys (g st e) = keys st := by
        have := congrArg (·.1) hc; simpa [Core] using this
      obtain ⟨_, _, _, _, _, _, h7, _⟩ := remFold hg rest (g st e) hi1 hmem1 hnd'
      exact h7 e.tx (hk1 ▸ hin) (fun w' hw' => hne w' hw')
    | tail _ hw => exact ih (g st e) hi1 hmem1 hnd' w hw (hcfg1 ▸ hK)

theorem remStep_removeElem : RemStep (fun _ _ => True) removeElem :=
  ⟨fun _ _ _ _ => Or.inr rfl, fun _ _ _ _ h => h⟩

theorem core_evictOne (s : State) (w : WTx) : Core (evictOne s w) = Core (removeElem s w) := rfl

theorem evictOne_cache (st : State) (w : WTx) (k : Bytes) (hne : k ≠ w.tx)
    (hc : st.cache.has k = true) : (evictOne st w).cache.has k = true :=
  Cache.remove_has_ne _ _ _ hne hc

theorem remStep_purgeOne (h : Int) (expired : WTx → Bool) :
    RemStep (fun _ _ => True) (purgeOne h expired) := by
  constructor
  · intro st w _ _
    unfold purgeOne
    split
    · right; rfl
    · split
      · right; rfl
      · left; exact ⟨rfl, trivial⟩
  · intro st w k hne hc
    unfold purgeOne
    split
    · exact evictOne_cache st w k hne hc
    · split
      · exact evictOne_cache st w k hne hc
      · exact hc

theorem keys_map_prio (l : List WTx) (tx : Bytes) (p : Int) :
    (l.map (fun e => if e.tx = tx then { e with prio := p } else e)).map (·.tx) = l.map (·.tx) := by
  induction l with
  | nil => rfl
  | cons a r ih =>
    simp only [List.map_cons, ih]
    by_cases h : a.tx = tx <;> simp [h]

theorem remStep_recheck (rv : Bytes → Verdict) :
    RemStep (fun post w => accepted post (rv w.tx) = true)
      (fun st w => handleRecheckResult st w.tx (rv w.tx)) := by
  constructor
  · intro st w hi hin
    have hk : w.tx ∈ st.byKey := (mem_byKey_iff hi _).2 hin
    obtain ⟨w', hf, hw', _⟩ := find_tx_of_mem st.txs w.tx hin
    simp only [handleRecheckResult, hk, if_true, hf]
    by_cases hacc : accepted st.post (rv w.tx) = true
    · left
      simp only [hacc, if_true]
      refine ⟨?_, trivial⟩
      simp only [Core, keys, keys_map_prio]
    · right
      split
      · rename_i h; exact absurd h hacc
      · split
        · exact core_removeElem_tx st w w' hw'
        · exact core_removeElem_tx st w w' hw'
  · intro st w k hne hc
    simp only [handleRecheckResult]
    split
    · split
      · exact hc
      · rename_i w' hf
        have hw' : w'.tx = w.tx := by simpa using List.find?_some hf
        split
        · exact hc
        · split
          · show ((removeElem st w').cache.remove w'.tx).has k = true
            rw [hw']; exact Cache.remove_has_ne _ _ _ hne hc
          · exact hc
    · exact hc

/-! ### insertion sort -/

theorem insertBy_perm {α : Type} (lt : α → α → Bool) (a : α) (l : List α) :
    (insertBy lt a l).Perm (a :: l) := by
  induction l with
  | nil => exact List.Perm.refl _
  | cons b r ih =>
    unfold insertBy
    split
    · exact (List.Perm.cons b ih).trans (List.Perm.swap a b r)
    · exact List.Perm.refl _

theorem sortBy_perm {α : Type} (lt : α → α → Bool) (l : List α) : (sortBy lt l).Perm l := by
  induction l with
  | nil => exact List.Perm.refl _
  | cons a r ih =>
    show (insertBy lt a (sortBy lt r)).Perm (a :: r)
    exact (insertBy_perm lt a _).trans (List.Perm.cons a ih)

theorem insertBy_sorted {α : Type} (lt : α → α → Bool)
    (asym : ∀ a b, lt a b = true → lt b a = false)
    (trans : ∀ a b c, lt b a = false → lt c b = false → lt c a = false)
    (a : α) (l : List α) (h : l.Pairwise (fun x y => lt y x = false)) :
    (insertBy lt a l).Pairwise (fun x y => lt y x = false) := by
  induction l with
  | nil => simp [insertBy]
  | cons b r ih =>
    have hp := List.pairwise_cons.1 h
    unfold insertBy
    split
    · rename_i hba
      refine List.pairwise_cons.2 ⟨?_, ih hp.2⟩
      intro x hx
      rcases (List.mem_cons.1 ((insertBy_perm lt a r).mem_iff.1 hx)) with rfl | hx
      · exact asym _ _ hba
      · exact hp.1 x hx
    · rename_i hba
      have hba' : lt b a = false := by simpa using hba
      refine List.pairwise_cons.2 ⟨?_, h⟩
      intro x hx
      rcases List.mem_cons.1 hx with rfl | hx
      · exact hba'
      · exact trans a b x hba' (hp.1 x hx)

theorem sortBy_sorted {α : Type} (lt : α → α → Bool)
    (asym : ∀ a b, lt a b = true → lt b a = false)
    (trans : ∀ a b c, lt b a = false → lt c b = false → lt c a = false)
    (l : List α) : (sortBy lt l).Pairwise (fun x y => lt y x = false) := by
  induction l with
  | nil => simp [sortBy]
  | cons a r ih => exact insertBy_sorted lt asym trans a _ ih

theorem reapBefore_iff (a b : WTx) :
    reapBefore a b = true ↔ (a.prio > b.prio ∨ (a.prio = b.prio ∧ a.seq < b.seq)) := by
  unfold reapBefore
  by_cases e : a.prio = b.prio
  · simp [e]
  · simp [e]

theorem reapBefore_false_iff (a b : WTx) :
    reapBefore a b = false ↔ ¬ (a.prio > b.prio ∨ (a.prio = b.prio ∧ a.seq < b.seq)) := by
  rw [← reapBefore_iff]; simp

theorem reapBefore_asym (a b : WTx) (h : reapBefore a b = true) : reapBefore b a = false := by
  rw [reapBefore_false_iff]
  rw [reapBefore_iff] at h
  omega

theorem reapBefore_trans (a b c : WTx) (h1 : reapBefore b a = false) (h2 : reapBefore c b = false) :
    reapBefore c a = false := by
  rw [reapBefore_false_iff] at *
  omega

/-- what `reapBefore y x = false` says -/
theorem reapBefore_false (x y : WTx) (h : reapBefore y x = false) :
    x.prio > y.prio ∨ (x.prio = y.prio ∧ x.seq ≤ y.seq) := by
  rw [reapBefore_false_iff] at h
  omega

theorem bytesOf_perm {l1 l2 : List Bytes} (h : l1.Perm l2) : bytesOf l1 = bytesOf l2 := by
  induction h with
  | nil => rfl
  | cons x _ ih => simp [bytesOf, ih]
  | swap x y l => simp [bytesOf]; omega
  | trans _ _ ih1 ih2 => exact ih1.trans ih2

theorem sizeOf_perm {l1 l2 : List WTx} (h : l1.Perm l2) : sizeOf l1 = sizeOf l2 :=
  bytesOf_perm (h.map _)

/-! ### the eviction loop -/

theorem evictLoop_spec (need : Int) : ∀ (vs : List WTx) (st : State) (ev : Int), Inv st →
    (∀ w ∈ vs, w.tx ∈ keys st) → (vs.map (·.tx)).Nodup → vs ≠ [] → ev + sizeOf vs ≥ need →
    let r := evictLoop need st vs ev
    Inv r ∧ r.cfg = st.cfg ∧ r.post = st.post ∧ r.pre = st.pre ∧
    (∀ k, k ∈ keys r → k ∈ keys st) ∧ (∀ k, k ∈ r.byKey → k ∈ st.byKey) ∧
    ((keys r).length + 1 ≤ (keys st).length) ∧ (r.txsBytes + need ≤ st.txsBytes + ev) ∧
    (∀ k, k ∈ keys st → k ∉ keys r → k ∈ vs.map (·.tx)) := by
  intro vs
  induction vs with
  | nil => intro st ev _ _ _ hne _; exact absurd rfl hne
  | cons w rest ih =>
    intro st ev hi hmem hnd _ hsz
    have hin : w.tx ∈ keys st := hmem w List.mem_cons_self
    have hk2 : keys (evictOne st w) = (keys st).erase w.tx := keys_removeElem st w
    have hi2 : Inv (evictOne st w) := inv_of_core (core_evictOne st w) (inv_removeElem hi w hin)
    have hlen : (keys (evictOne st w)).length + 1 = (keys st).length := by
      rw [hk2]; exact length_erase_mem _ _ hin
    have hsub : ∀ k, k ∈ keys (evictOne st w) → k ∈ keys st := by
      intro k hk; rw [hk2] at hk; exact List.mem_of_mem_erase hk
    have hbk : ∀ k, k ∈ (evictOne st w).byKey → k ∈ st.byKey :=
      fun k hk => List.mem_of_mem_erase hk
    have hbytes : (evictOne st w).txsBytes = st.txsBytes - (w.tx.length : Int) := rfl
    have hev : ∀ k, k ∈ keys st → k ∉ keys (evictOne st w) → k = w.tx := by
      intro k hk hnk
      rw [hk2] at hnk
      apply Classical.byContradiction
      intro hne
      exact hnk ((List.mem_erase_of_ne hne).2 hk)
    have hcons : sizeOf (w :: rest) = (w.tx.length : Int) + sizeOf rest := by simp [sizeOf, bytesOf]
    unfold evictLoop
    simp only
    split
    · -- enough evicted: stop
      rename_i hge
      refine ⟨hi2, rfl, rfl, rfl, hsub, hbk, by omega, by omega, ?_⟩
      intro k hk hnk
      have := hev k hk hnk
      simp [this]
    · rename_i hlt
      have hsz' : ev + (w.tx.length : Int) + sizeOf rest ≥ need := by omega
      have hrest : rest ≠ [] := by
        intro h; subst h
        have : sizeOf ([] : List WTx) = 0 := by simp [sizeOf, bytesOf]
        omega
      have hnd' := (List.nodup_cons.1 hnd)
      have hmem1 : ∀ w' ∈ rest, w'.tx ∈ keys (evictOne st w) := by
        intro w' hw'
        rw [hk2]
        have hne : w'.tx ≠ w.tx := by
          intro heq
          have hm : w'.tx ∈ rest.map (·.tx) := List.mem_map_of_mem (f := (·.tx)) hw'
          rw [heq] at hm
          exact hnd'.1 hm
        exact (List.mem_erase_of_ne hne).2 (hmem w' (List.mem_cons_of_mem _ hw'))
      obtain ⟨h1, h2, h3, h3', h4, h5, h6, h7, h8⟩ :=
        ih (evictOne st w) (ev + (w.tx.length : Int)) hi2 hmem1 hnd'.2 hrest hsz'
      refine ⟨h1, h2, h3, h3', fun k hk => hsub k (h4 k hk),
        fun k hk => hbk k (h5 k hk), by omega, by omega, ?_⟩
      intro k hk hnk
      by_cases hkw : k = w.tx
      · simp [hkw]
      · have hk1 : k ∈ keys (evictOne st w) := by
          rw [hk2]; exact (List.mem_erase_of_ne hkw).2 hk
        have := h8 k hk1 hnk
        simp only [List.map_cons, List.mem_cons]
        right; exact this

theorem eq_of_tx_eq {l : List WTx} (hn : (l.map (·.tx)).Nodup) {a b : WTx} (ha : a ∈ l) (hb : b ∈ l)
    (h : a.tx = b.tx) : a = b := by
  have h1 := find_self l hn a ha
  have h2 := find_self l hn b hb
  rw [h] at h1
  rw [h1] at h2
  exact Option.some.inj h2

/-- the victims of an arrival with priority `p`, in eviction order -/
def victimsOf (s : State) (p : Int) : List WTx :=
  sortBy victimBefore (s.txs.filter (fun cw => decide (cw.prio < p)))

theorem victimsOf_props {s : State} (hi : Inv s) (p : Int) :
    (∀ x ∈ victimsOf s p, x ∈ s.txs ∧ x.prio < p) ∧ ((victimsOf s p).map (·.tx)).Nodup ∧
    sizeOf (victimsOf s p) = sizeOf (s.txs.filter (fun cw => decide (cw.prio < p))) ∧
    (victimsOf s p).length = (s.txs.filter (fun cw => decide (cw.prio < p))).length := by
  have hperm := sortBy_perm victimBefore (s.txs.filter (fun cw => decide (cw.prio < p)))
  refine ⟨?_, ?_, sizeOf_perm hperm, hperm.length_eq⟩
  · intro x hx
    have := hperm.mem_iff.1 hx
    simpa using List.mem_filter.1 this
  · unfold victimsOf
    rw [(hperm.map (·.tx)).nodup_iff]
    exact List.Nodup.sublist ((List.filter_sublist).map _) hi.nodup

/-- **evict_makes_room**: when the pool is within its limits and the victims are enough, after the
eviction loop `canAddTx` holds for the arriving transaction. -/
theorem evict_makes_room {s : State} (hi : Inv s) (hb : Bounded s) (need : Nat) (p : Int)
    (hne : (s.txs.filter (fun cw => decide (cw.prio < p))).length ≠ 0)
    (hsz : ¬ sizeOf (s.txs.filter (fun cw => decide (cw.prio < p))) < (need : Int)) :
    canAddTx (evictLoop need s (victimsOf s p) 0) need = true := by
  obtain ⟨hv1, hv2, hv3, hv4⟩ := victimsOf_props hi p
  have hvne : victimsOf s p ≠ [] := by
    intro h; rw [h] at hv4; simp at hv4; exact hne hv4.symm
  obtain ⟨_, h2, _, _, _, _, h6, h7, _⟩ := evictLoop_spec need (victimsOf s p) s 0 hi
    (fun w hw => List.mem_map_of_mem (f := (·.tx)) (hv1 w hw).1) hv2 hvne (by rw [hv3]; omega)
  unfold Bounded at hb
  unfold canAddTx
  rw [h2, ← keys_length]
  simp
  constructor <;> omega

theorem addNew_spec {s : State} (hi : Inv s) (w : WTx) (v : Verdict) :
    Inv (addNewTransaction s w v).1 ∧ (addNewTransaction s w v).1.cfg = s.cfg ∧
    (addNewTransaction s w v).1.post = s.post ∧ (addNewTransaction s w v).1.pre = s.pre ∧
    (Bounded s → Bounded (addNewTransaction s w v).1) ∧
    (∀ k, k ∈ keys (addNewTransaction s w v).1 → k ∈ keys s ∨ k = w.tx) ∧
    (∀ e ∈ s.txs, e.tx ∉ keys (addNewTransaction s w v).1 → e.prio < v.prio) ∧
    (accepted s.post v = false → keys (addNewTransaction s w v).1 = keys s) := by
  have same : ∀ r : State, Core r = Core s → r.pre = s.pre →
      Inv r ∧ r.cfg = s.cfg ∧ r.post = s.post ∧ r.pre = s.pre ∧ (Bounded s → Bounded r) ∧
      (∀ k, k ∈ keys r → k ∈ keys s ∨ k = w.tx) ∧ (∀ e ∈ s.txs, e.tx ∉ keys r → e.prio < v.prio) ∧
      (accepted s.post v = false → keys r = keys s) := by
    intro r hc hpre
    have hk : keys r = keys s := by have := congrArg (·.1) hc; simpa [Core] using this
    have hcfg : r.cfg = s.cfg := by have := congrArg (·.2.2.2.1) hc; simpa [Core] using this
    have hpost : r.post = s.post := by have := congrArg (·.2.2.2.2) hc; simpa [Core] using this
    refine ⟨inv_of_core hc hi, hcfg, hpost, hpre, bounded_of_core hc, ?_, ?_, fun _ => hk⟩
    · intro k h; left; rw [hk] at h; exact h
    · intro e he hn; rw [hk] at hn; exact absurd (List.mem_map_of_mem (f := (·.tx)) he) hn
  unfold addNewTransaction
  split
  · -- rejected by the application / post-check
    simp only
    split
    · exact same _ rfl rfl
    · exact same _ rfl rfl
  · rename_i hrej
    have hacc : accepted s.post v = true := by
      unfold accepted
      simp at hrej
      simp [hrej.1, hrej.2]
    split
    · exact same _ rfl rfl
    · rename_i hnk
      split
      · exact same _ rfl rfl
      · simp only
        split
        · -- pool full
          rename_i hfull
          split
          · exact same _ rfl rfl
          · rename_i hvic
            have hvic' : (s.txs.filter (fun cw => decide (cw.prio < v.prio))).length ≠ 0 ∧
                ¬ sizeOf (s.txs.filter (fun cw => decide (cw.prio < v.prio))) < (w.tx.length : Int) := by
              constructor
              · intro h; exact hvic (Or.inl h)
              · intro h; exact hvic (Or.inr h)
            obtain ⟨hv1, hv2, hv3, hv4⟩ := victimsOf_props hi v.prio
            have hvne : victimsOf s v.prio ≠ [] := by
              intro h; rw [h] at hv4; simp at hv4; exact hvic'.1 hv4.symm
            obtain ⟨h1, h2, h3, h3', h4, h5, h6, h7, h8⟩ :=
              evictLoop_spec w.tx.length (victimsOf s v.prio) s 0 hi
                (fun x hx => List.mem_map_of_mem (f := (·.tx)) (hv1 x hx).1) hv2 hvne
                (by rw [hv3]; omega)
            have hnb : w.tx ∉ (evictLoop w.tx.length s (victimsOf s v.prio) 0).byKey :=
              fun h => hnk (h5 _ h)
            refine ⟨inv_insertTx h1 _ hnb, h2, h3, h3', ?_, ?_, ?_, ?_⟩
            · intro hb
              exact bounded_insertTx _ (evict_makes_room hi hb w.tx.length v.prio hvic'.1 hvic'.2)
            · intro k hk
              rw [keys_insertTx] at hk
              rcases List.mem_append.1 hk with hk | hk
              · left; exact h4 k hk
              · right; simpa using hk
            · intro e he hn
              rw [keys_insertTx] at hn
              have hn1 : e.tx ∉ keys (evictLoop w.tx.length s (victimsOf s v.prio) 0) :=
                fun h => hn (List.mem_append_left _ h)
              have hm := h8 e.tx (List.mem_map_of_mem (f := (·.tx)) he) hn1
              obtain ⟨x, hx, hxe⟩ := List.mem_map.1 hm
              have hxe' : x.tx = e.tx := hxe
              have := eq_of_tx_eq hi.nodup (hv1 x hx).1 he hxe'
              rw [← this]; exact (hv1 x hx).2
            · intro h; rw [hacc] at h; cases h
        · -- room available
          rename_i hroom
          have hroom' : canAddTx s w.tx.length = true := by simpa using hroom
          refine ⟨inv_insertTx hi _ hnk, rfl, rfl, rfl, fun _ => bounded_insertTx _ hroom', ?_, ?_, ?_⟩
          · intro k hk
            rw [keys_insertTx] at hk
            rcases List.mem_append.1 hk with hk | hk
            · left; exact hk
            · right; simpa using hk
          · intro e he hn
            rw [keys_insertTx] at hn
            exact absurd (List.mem_append_left _ (List.mem_map_of_mem (f := (·.tx)) he)) hn
          · intro h; rw [hacc] at h; cases h

/-! ### CheckTx -/

theorem checkTx_spec {s : State} (hi : Inv s) (tx : Bytes) (v : Verdict) :
    Inv (checkTx s tx v).1 ∧ (checkTx s tx v).1.cfg = s.cfg ∧
    (Bounded s → Bounded (checkTx s tx v).1) ∧
    (∀ k, k ∈ keys (checkTx s tx v).1 → k ∈ keys s ∨ k = tx) ∧
    (∀ e ∈ s.txs, e.tx ∉ keys (checkTx s tx v).1 → e.prio < v.prio) ∧
    (accepted s.post v = false → keys (checkTx s tx v).1 = keys s) := by
  unfold checkTx
  have same : Inv s ∧ s.cfg = s.cfg ∧ (Bounded s → Bounded s) ∧
      (∀ k, k ∈ keys s → k ∈ keys s ∨ k = tx) ∧ (∀ e ∈ s.txs, e.tx ∉ keys s → e.prio < v.prio) ∧
      (accepted s.post v = false → keys s = keys s) :=
    ⟨hi, rfl, fun h => h, fun _ h => Or.inl h,
      fun e he hn => absurd (List.mem_map_of_mem (f := (·.tx)) he) hn, fun _ => rfl⟩
  split
  · exact same
  · split
    · exact same
    · simp only
      split
      · exact same
      · obtain ⟨h1, h2, _, _, h5, h6, h7, h8⟩ :=
          addNew_spec (s := { s with cache := (s.cache.push tx).1, clock := s.clock + 1 }) hi
            { tx := tx, height := s.height, seq := s.clock, gas := 0, prio := 0, sender := "" } v
        exact ⟨h1, h2, h5, h6, h7, h8⟩

/-! ### peer bookkeeping leaves the core alone -/

theorem recordPeer_keys (s : State) (tx : Bytes) (p : Nat) : keys (recordPeer s tx p) = keys s := by
  simp only [keys, recordPeer, List.map_map]
  apply List.map_congr_left
  intro e _
  simp only [Function.comp]
  split
  · split <;> rfl
  · rfl

theorem recordPeer_has (s : State) (tx : Bytes) (p : Nat) :
    ∀ e ∈ (recordPeer s tx p).txs, e.tx = tx → p ∈ e.peers := by
  intro e he hetx
  simp only [recordPeer, List.mem_map] at he
  obtain ⟨e0, _, rfl⟩ := he
  by_cases h0 : e0.tx = tx
  · by_cases hp : p ∈ e0.peers <;> simp [h0, hp]
  · simp only [h0, if_false] at hetx

theorem checkTxFrom_core (s : State) (tx : Bytes) (v : Verdict) (p : Nat) :
    Core (checkTxFrom s tx v p).1 = Core (checkTx s tx v).1 ∧
    (checkTxFrom s tx v p).1.cache = (checkTx s tx v).1.cache := by
  unfold checkTxFrom
  simp only
  split
  · exact ⟨by simp only [Core, recordPeer_keys]; rfl, rfl⟩
  · split
    · exact ⟨by simp only [Core, recordPeer_keys]; rfl, rfl⟩
    · exact ⟨rfl, rfl⟩
  · exact ⟨rfl, rfl⟩

/-! ### Update -/

theorem commitOne_spec {s : State} (hi : Inv s) (c : Bytes × Nat) :
    Inv (commitOne s c) ∧ (commitOne s c).cfg = s.cfg ∧ (commitOne s c).post = s.post ∧
    (Bounded s → Bounded (commitOne s c)) ∧ (∀ k, k ∈ keys (commitOne s c) → k ∈ keys s) ∧
    c.1 ∉ keys (commitOne s c) := by
  unfold commitOne
  simp only
  generalize hc : (if c.2 = codeOK then (s.cache.push c.1).1
      else if (!s.cfg.keepInvalid) = true then s.cache.remove c.1 else s.cache) = cache
  have hi' : Inv { s with cache := cache } := hi
  rcases removeTxByKey_cases hi' c.1 with ⟨hn, he⟩ | ⟨w, hw, hm, he⟩
  · rw [he]
    exact ⟨hi, rfl, rfl, fun h => h, fun _ h => h, hn⟩
  · rw [he]
    have hin : w.tx ∈ keys s := List.mem_map_of_mem (f := (·.tx)) hm
    refine ⟨inv_removeElem hi' w hin, rfl, rfl, fun hb => bounded_removeElem (s := { s with cache := cache }) hb w,
      keys_removeElem_sub _ w, ?_⟩
    rw [← hw]; exact not_mem_removeElem hi' w

theorem commitAll_spec (block : List (Bytes × Nat)) : ∀ {s : State}, Inv s →
    Inv (block.foldl commitOne s) ∧ (block.foldl commitOne s).cfg = s.cfg ∧
    (block.foldl commitOne s).post = s.post ∧
    (Bounded s → Bounded (block.foldl commitOne s)) ∧
    (∀ k, k ∈ keys (block.foldl commitOne s) → k ∈ keys s) ∧
    (∀ c ∈ block, c.1 ∉ keys (block.foldl commitOne s)) := by
  induction block with
  | nil => intro s hi; exact ⟨hi, rfl, rfl, fun h => h, fun _ h => h, fun _ h => by cases h⟩
  | cons d r ih =>
    intro s hi
    obtain ⟨a1, a2, a3, a4, a5, a6⟩ := commitOne_spec hi d
    obtain ⟨b1, b2, b3, b4, b5, b6⟩ := ih a1
    refine ⟨b1, b2.trans a2, b3.trans a3, fun h => b4 (a4 h), fun k hk => a5 k (b5 k hk), ?_⟩
    intro c hc
    cases hc with
    | head => exact fun h => a6 (b5 _ h)
    | tail _ hc => exact b6 c hc

theorem purge_spec {s : State} (hi : Inv s) (h : Int) (expired : WTx → Bool) :
    Inv (purgeExpiredTxs s h expired) ∧ (purgeExpiredTxs s h expired).cfg = s.cfg ∧
    (purgeExpiredTxs s h expired).post = s.post ∧
    (Bounded s → Bounded (purgeExpiredTxs s h expired)) ∧
    (∀ k, k ∈ keys (purgeExpiredTxs s h expired) → k ∈ keys s) ∧
    (∀ k, k ∉ keys s → s.cache.has k = true → (purgeExpiredTxs s h expired).cache.has k = true) := by
  unfold purgeExpiredTxs
  split
  · exact ⟨hi, rfl, rfl, fun h => h, fun _ h => h, fun _ _ h => h⟩
  · obtain ⟨h1, h2, h3, h4, _, h6, h7⟩ := remFold_all (remStep_purgeOne h expired) hi
    exact ⟨h1, h2, h3, h7, h4, h6⟩

/-- who `purgeExpiredTxs` removes -/
def ttlExpired (cfg : Cfg) (h : Int) (expired : WTx → Bool) (w : WTx) : Prop :=
  (cfg.ttlNumBlocks > 0 ∧ h - w.height > cfg.ttlNumBlocks) ∨ (cfg.ttlDuration = true ∧ expired w = true)

theorem remStep_purgeOne' (h : Int) (expired : WTx → Bool) :
    RemStep (fun _ _ => True) (purgeOne h expired) := remStep_purgeOne h expired

/-- **ttl_purges_exactly_expired**: after `purgeExpiredTxs`, an entry of the pool is still there iff
neither TTL rule applies to it. -/
theorem purge_exact {s : State} (hi : Inv s) (h : Int) (expired : WTx → Bool) :
    ∀ w ∈ s.txs, (w.tx ∈ keys (purgeExpiredTxs s h expired) ↔ ¬ ttlExpired s.cfg h expired w) := by
  classical
  intro w hw
  unfold purgeExpiredTxs
  split
  · rename_i hoff
    constructor
    · intro _ hx
      rcases hx with ⟨h1, _⟩ | ⟨h1, _⟩
      · rw [hoff.1] at h1; omega
      · rw [hoff.2] at h1; cases h1
    · intro _; exact List.mem_map_of_mem (f := (·.tx)) hw
  · constructor
    · -- still there ⇒ not expired: an expired entry is removed by its own step and never re-added
      intro hk hx
      -- direct argument through the exact step behaviour
      have hrem : RemStep (fun _ w' => ¬ ttlExpired s.cfg h expired w') (fun st w' =>
          if st.cfg = s.cfg then purgeOne h expired st w' else removeElem st w') := by
        constructor
        · intro st w' _ _
          by_cases hcfg : st.cfg = s.cfg
          · simp only [hcfg, if_true]
            unfold purgeOne
            split
            · right; rfl
            · rename_i h1
              split
              · right; rfl
              · rename_i h2
                left
                refine ⟨rfl, ?_⟩
                intro hx'
                rcases hx' with hx' | hx'
                · rw [← hcfg] at hx'; exact h1 hx'
                · rw [← hcfg] at hx'; exact h2 ⟨by simpa using hx'.1, hx'.2⟩
          · simp only [hcfg, if_false]; right; trivial
        · intro st w' k hne hc
          by_cases hcfg : st.cfg = s.cfg
          · simp only [hcfg, if_true]; exact (remStep_purgeOne h expired).cache st w' k hne hc
          · simp only [hcfg, if_false]; exact hc
      -- the guarded step function coincides with purgeOne along the fold (cfg never changes)
      have hsame : ∀ (l : List WTx) (st : State), st.cfg = s.cfg →
          l.foldl (fun st w' => if st.cfg = s.cfg then purgeOne h expired st w' else removeElem st w') st =
          l.foldl (purgeOne h expired) st := by
        intro l
        induction l with
        | nil => intro st _; rfl
        | cons e r ih =>
          intro st hc
          simp only [List.foldl_cons, hc, if_true]
          apply ih
          unfold purgeOne
          split
          · exact hc
          · split
            · exact hc
            · exact hc
      obtain ⟨_, _, _, _, h5, _, _⟩ := remFold_all hrem hi
      rw [hsame s.txs s rfl] at h5
      exact h5 w.tx hk w hw rfl hx
    · intro hnx
      refine remFold_keeps (remStep_purgeOne h expired) (fun cfg w' => ¬ ttlExpired cfg h expired w')
        ?_ s.txs s hi (fun w' hw' => List.mem_map_of_mem (f := (·.tx)) hw') hi.nodup w hw hnx
      intro st w' _ _ hK
      unfold purgeOne
      split
      · rename_i h1; exact absurd (Or.inl h1) hK
      · split
        · rename_i h2; exact absurd (Or.inr ⟨by simpa using h2.1, h2.2⟩) hK
        · rfl

theorem recheck_spec {s : State} (hi : Inv s) (rv : Bytes → Verdict) :
    Inv (recheckTransactions s rv) ∧ (recheckTransactions s rv).cfg = s.cfg ∧
    (recheckTransactions s rv).post = s.post ∧
    (Bounded s → Bounded (recheckTransactions s rv)) ∧
    (∀ k, k ∈ keys (recheckTransactions s rv) → k ∈ keys s) ∧
    (∀ k, k ∈ keys (recheckTransactions s rv) → accepted s.post (rv k) = true) ∧
    (∀ k, k ∉ keys s → s.cache.has k = true → (recheckTransactions s rv).cache.has k = true) := by
  unfold recheckTransactions
  obtain ⟨h1, h2, h3, h4, h5, h6, h7⟩ := remFold_all (remStep_recheck rv) hi
  refine ⟨h1, h2, h3, h7, h4, ?_, h6⟩
  intro k hk
  obtain ⟨w, hw, hwk⟩ := List.mem_map.1 (h4 k hk)
  have := h5 k hk w hw hwk
  rw [← hwk]; exact this

/-- the state `Update` works on after setting height and filters -/
def updHead (s : State) (h : Int) (pre post : Option Int) : State :=
  { s with height := h, pre := newFilter pre s.pre, post := newFilter post s.post }

theorem update_eq (s : State) (h : Int) (block : List (Bytes × Nat)) (pre post : Option Int)
    (rv : Bytes → Verdict) (expired : WTx → Bool) :
    update s h block pre post rv expired =
      (let s3 := purgeExpiredTxs (block.foldl commitOne (updHead s h pre post)) h expired
       if s3.txs.length > 0 then (if s3.cfg.recheck then recheckTransactions s3 rv else s3) else s3) := rfl

theorem update_spec {s : State} (hi : Inv s) (h : Int) (block : List (Bytes × Nat))
    (pre post : Option Int) (rv : Bytes → Verdict) (expired : WTx → Bool) :
    Inv (update s h block pre post rv expired) ∧ (update s h block pre post rv expired).cfg = s.cfg ∧
    (Bounded s → Bounded (update s h block pre post rv expired)) ∧
    (∀ k, k ∈ keys (update s h block pre post rv expired) → k ∈ keys s) ∧
    (∀ c ∈ block, c.1 ∉ keys (update s h block pre post rv expired)) ∧
    (s.cfg.recheck = true → ∀ k, k ∈ keys (update s h block pre post rv expired) →
      accepted (newFilter post s.post) (rv k) = true) := by
  rw [update_eq]
  have hi0 : Inv (updHead s h pre post) := hi
  obtain ⟨a1, a2, a3, a4, a5, a6⟩ := commitAll_spec block hi0
  obtain ⟨b1, b2, b3, b4, b5, _⟩ := purge_spec a1 h expired
  have hcfg : (purgeExpiredTxs (block.foldl commitOne (updHead s h pre post)) h expired).cfg = s.cfg :=
    b2.trans a2
  have hpost : (purgeExpiredTxs (block.foldl commitOne (updHead s h pre post)) h expired).post =
      newFilter post s.post := b3.trans a3
  have hbd : Bounded s → Bounded (purgeExpiredTxs (block.foldl commitOne (updHead s h pre post)) h expired) :=
    fun hb => b4 (a4 hb)
  have hsub : ∀ k, k ∈ keys (purgeExpiredTxs (block.foldl commitOne (updHead s h pre post)) h expired) →
      k ∈ keys s := fun k hk => a5 k (b5 k hk)
  have hnot : ∀ c ∈ block, c.1 ∉ keys (purgeExpiredTxs (block.foldl commitOne (updHead s h pre post)) h expired) :=
    fun c hc hk => a6 c hc (b5 _ hk)
  simp only
  split
  · split
    · obtain ⟨c1, c2, c3, c4, c5, c6, _⟩ := recheck_spec b1 rv
      refine ⟨c1, c2.trans hcfg, fun hb => c4 (hbd hb), fun k hk => hsub k (c5 k hk),
        fun c hc hk => hnot c hc (c5 _ hk), ?_⟩
      intro _ k hk
      rw [← hpost]; exact c6 k hk
    · rename_i hrc
      refine ⟨b1, hcfg, hbd, hsub, hnot, ?_⟩
      intro hr; rw [hcfg] at hrc; exact absurd hr hrc
  · rename_i hlen
    refine ⟨b1, hcfg, hbd, hsub, hnot, ?_⟩
    intro _ k hk
    have : (purgeExpiredTxs (block.foldl commitOne (updHead s h pre post)) h expired).txs = [] := by
      cases hl : (purgeExpiredTxs (block.foldl commitOne (updHead s h pre post)) h expired).txs with
      | nil => rfl
      | cons a r => rw [hl] at hlen; simp at hlen
    simp [keys, this] at hk

theorem flush_spec {s : State} (hi : Inv s) :
    Inv (flush s) ∧ (flush s).cfg = s.cfg ∧ (Bounded s → Bounded (flush s)) ∧
    (∀ k, k ∈ keys (flush s) → k ∈ keys s) := by
  unfold flush
  obtain ⟨h1, h2, _, h4, _, _, h7⟩ := remFold_all remStep_removeElem hi
  exact ⟨h1, h2, h7, h4⟩

theorem remStep_removeElem' : RemStep (fun _ _ => False) removeElem :=
  ⟨fun _ _ _ _ => Or.inr rfl, fun _ _ _ _ h => h⟩

theorem flush_empties {s : State} (hi : Inv s) :
    (flush s).txs = [] ∧ (flush s).byKey = [] ∧ (flush s).txsBytes = 0 ∧ (flush s).cache.keys = [] := by
  have hk : keys (flush s) = [] := by
    obtain ⟨_, _, _, h4, h5, _, _⟩ := remFold_all remStep_removeElem' hi
    cases hl : keys (flush s) with
    | nil => rfl
    | cons k r =>
      have hk : k ∈ keys (s.txs.foldl removeElem s) := by
        have : keys (flush s) = keys (s.txs.foldl removeElem s) := rfl
        rw [← this, hl]; exact List.mem_cons_self
      obtain ⟨w, hw, hwk⟩ := List.mem_map.1 (h4 k hk)
      exact (h5 k hk w hw hwk).elim
  have hi' := (flush_spec hi).1
  refine ⟨by simpa [keys] using hk, ?_, ?_, rfl⟩
  · have := hi'.map
    rw [hk] at this
    exact List.Perm.eq_nil this
  · have := hi'.bytes
    rw [hk] at this
    simpa [bytesOf] using this

theorem step_spec {s : State} (hi : Inv s) (op : Op) :
    Inv (step s op) ∧ (step s op).cfg = s.cfg ∧ (Bounded s → Bounded (step s op)) := by
  cases op with
  | check tx v p =>
    obtain ⟨h1, h2, h3, _⟩ := checkTx_spec hi tx v
    have hc := (checkTxFrom_core s tx v p).1
    have hcfg : (checkTxFrom s tx v p).1.cfg = (checkTx s tx v).1.cfg := by
      have := congrArg (·.2.2.2.1) hc; simpa [Core] using this
    exact ⟨inv_of_core hc h1, hcfg.trans h2, fun hb => bounded_of_core hc (h3 hb)⟩
  | update h b pre post rv ex =>
    obtain ⟨h1, h2, h3, _⟩ := update_spec hi h b pre post rv ex
    exact ⟨h1, h2, h3⟩
  | flush =>
    obtain ⟨h1, h2, h3, _⟩ := flush_spec hi
    exact ⟨h1, h2, h3⟩

theorem run_spec (ops : List Op) : ∀ {s : State}, Inv s →
    Inv (run s ops) ∧ (run s ops).cfg = s.cfg ∧ (Bounded s → Bounded (run s ops)) := by
  induction ops with
  | nil => intro s hi; exact ⟨hi, rfl, fun h => h⟩
  | cons o r ih =>
    intro s hi
    obtain ⟨a1, a2, a3⟩ := step_spec hi o
    obtain ⟨b1, b2, b3⟩ := ih a1
    exact ⟨b1, b2.trans a2, fun h => b3 (a3 h)⟩

/-! ### reaping -/

theorem filterMap_eq_self {α : Type} (f : α → Option α) (l : List α) (h : ∀ e ∈ l, f e = some e) :
    l.filterMap f = l := by
  induction l with
  | nil => rfl
  | cons a r ih =>
    rw [List.filterMap_cons, h a List.mem_cons_self]
    simp only
    rw [ih (fun e he => h e (List.mem_cons_of_mem _ he))]

theorem filterMap_find_self (l : List WTx) (hn : (l.map (·.tx)).Nodup) :
    (l.map (·.tx)).filterMap (fun k => l.find? (fun e => decide (e.tx = k))) = l := by
  rw [List.filterMap_map]
  exact filterMap_eq_self _ l (fun e he => find_self l hn e he)

/-- `allEntriesSorted` lists exactly the pool entries (each once) … -/
theorem allEntriesSorted_perm (s : State) : (allEntriesSorted s).Perm s.txs :=
  sortBy_perm _ _

/-- insertion keeps the relative order of what was there and puts the new element in front of
every element it is not strictly after -/
theorem insertBy_stable {α : Type} (lt : α → α → Bool) (a : α) (l : List α) :
    l.Sublist (insertBy lt a l) ∧
    ∀ y ∈ l, lt y a = false → (∀ z ∈ l, lt z a = true → True) →
      (List.Pairwise (fun x y => lt y x = false) l → [a, y].Sublist (insertBy lt a l)) := by
  induction l with
  | nil => exact ⟨List.Sublist.refl _ |>.trans (by simp [insertBy]), fun y hy => by cases hy⟩
  | cons b r ih =>
    constructor
    · unfold insertBy
      split
      · exact List.Sublist.cons₂ b ih.1
      · exact List.Sublist.cons a (List.Sublist.refl _)
    · intro y hy hya _ hp
      have hp' := List.pairwise_cons.1 hp
      unfold insertBy
      split
      · rename_i hba
        -- b is strictly before a; y cannot be b (lt y a = false), so y ∈ r
        rcases List.mem_cons.1 hy with rfl | hyr
        · rw [hya] at hba; cases hba
        · exact List.Sublist.cons b (ih.2 y hyr hya (fun _ _ _ => trivial) hp'.2)
      · exact List.Sublist.cons₂ a (List.singleton_sublist.2 hy)

theorem sortBy_stable {α : Type} (lt : α → α → Bool)
    (asym : ∀ a b, lt a b = true → lt b a = false)
    (trans : ∀ a b c, lt b a = false → lt c b = false → lt c a = false) :
    ∀ (l : List α) (x y : α), [x, y].Sublist l → lt y x = false → [x, y].Sublist (sortBy lt l) := by
  intro l
  induction l with
  | nil => intro x y h; cases h
  | cons a r ih =>
    intro x y h hyx
    show [x, y].Sublist (insertBy lt a (sortBy lt r))
    cases h with
    | cons _ h' => exact (ih x y h' hyx).trans (insertBy_stable lt a _).1
    | cons_cons _ h' =>
      have hy : y ∈ r := List.singleton_sublist.1 h'
      have hy' : y ∈ sortBy lt r := (sortBy_perm lt r).mem_iff.2 hy
      exact (insertBy_stable lt a (sortBy lt r)).2 y hy' hyx (fun _ _ _ => trivial)
        (sortBy_sorted lt asym trans r)

/-- ties keep their arrival (list) order -/
theorem allEntriesSorted_stable (s : State) (x y : WTx) (h : [x, y].Sublist s.txs)
    (hyx : reapBefore y x = false) : [x, y].Sublist (allEntriesSorted s) :=
  sortBy_stable reapBefore reapBefore_asym reapBefore_trans s.txs x y h hyx

/-- … in non-increasing priority, ties by arrival -/
theorem allEntriesSorted_sorted (s : State) :
    (allEntriesSorted s).Pairwise
      (fun x y => x.prio > y.prio ∨ (x.prio = y.prio ∧ x.seq ≤ y.seq)) := by
  unfold allEntriesSorted
  exact (sortBy_sorted reapBefore reapBefore_asym reapBefore_trans _).imp
    (fun {x y} h => reapBefore_false x y h)

def protoSum : List WTx → Int
  | [] => 0
  | e :: r => protoSize e.tx.length + protoSum r

def gasSum : List WTx → Int
  | [] => 0
  | e :: r => e.gas + gasSum r

theorem reapGo_spec (mb mg : Int) : ∀ (l : List WTx) (g sz : Int),
    (mb ≥ 0 → sz ≤ mb) → (mg ≥ 0 → g ≤ mg) →
    ∃ k, k ≤ l.length ∧ reapGo mb mg l g sz = (l.take k).map (·.tx) ∧
      (mb ≥ 0 → sz + protoSum (l.take k) ≤ mb) ∧ (mg ≥ 0 → g + gasSum (l.take k) ≤ mg) ∧
      (∀ e, l[k]? = some e →
        (mb ≥ 0 ∧ sz + protoSum (l.take k) + protoSize e.tx.length > mb) ∨
        (mg ≥ 0 ∧ g + gasSum (l.take k) + e.gas > mg)) := by
  intro l
  induction l with
  | nil =>
    intro g sz h1 h2
    exact ⟨0, by simp, by simp [reapGo], by simpa [protoSum] using h1, by simpa [gasSum] using h2,
      by intro e he; simp at he⟩
  | cons e rest ih =>
    intro g sz h1 h2
    by_cases hx : (mg ≥ 0 ∧ g + e.gas > mg) ∨ (mb ≥ 0 ∧ sz + protoSize e.tx.length > mb)
    · refine ⟨0, by simp, by simp [reapGo, hx], by simpa [protoSum] using h1,
        by simpa [gasSum] using h2, ?_⟩
      intro e' he'
      simp at he'; subst he'
      rcases hx with hx | hx
      · right; simp [gasSum]; exact hx
      · left; simp [protoSum]; exact hx
    · have hx1 : ¬ (mg ≥ 0 ∧ g + e.gas > mg) := fun h => hx (Or.inl h)
      have hx2 : ¬ (mb ≥ 0 ∧ sz + protoSize e.tx.length > mb) := fun h => hx (Or.inr h)
      obtain ⟨k, hk, he, hbb, hgg, hmax⟩ := ih (g + e.gas) (sz + protoSize e.tx.length)
        (by intro h; omega) (by intro h; omega)
      refine ⟨k + 1, by simp; omega, ?_, ?_, ?_, ?_⟩
      · simp [reapGo, hx, he]
      · intro h; have := hbb h; simp [protoSum]; omega
      · intro h; have := hgg h; simp [gasSum]; omega
      · intro e' he'
        simp at he'
        rcases hmax e' he' with h | h
        · left; simp [protoSum]; omega
        · right; simp [gasSum]; omega

theorem reapNGo_spec (max : Int) : ∀ (l : List WTx) (acc : List Bytes),
    reapNGo max l acc =
      acc ++ (l.take (if max < 0 then l.length else (max - (acc.length : Int)).toNat)).map (·.tx) := by
  intro l
  induction l with
  | nil => intro acc; simp [reapNGo]
  | cons e rest ih =>
    intro acc
    unfold reapNGo
    split
    · rename_i h
      have h0 : ¬ max < 0 := by omega
      have : (max - (acc.length : Int)).toNat = 0 := by omega
      simp [h0, this]
    · rename_i h
      rw [ih]
      by_cases h0 : max < 0
      · simp [h0]
      · have h1 : (acc.length : Int) < max := by
          have : ¬ (max ≥ 0 ∧ (acc.length : Int) ≥ max) := h
          omega
        have : (max - (acc.length : Int)).toNat = (max - ((acc ++ [e.tx]).length : Int)).toNat + 1 := by
          simp; omega
        simp only [h0, if_false]
        rw [this]; simp

/-! ### commit and the cache -/

theorem cache_removeTxByKey (s : State) (k : Bytes) : (removeTxByKey s k).cache = s.cache := by
  unfold removeTxByKey
  split
  · split <;> rfl
  · rfl

theorem commitOne_remembers (s : State) (tx : Bytes) (h : s.cache.size > 0) :
    (commitOne s (tx, codeOK)).cache.has tx = true := by
  unfold commitOne
  simp only [if_true]
  rw [cache_removeTxByKey]
  exact Cache.push_has s.cache tx h

theorem cache_size_commitOne (s : State) (c : Bytes × Nat) :
    (commitOne s c).cache.size = s.cache.size := by
  unfold commitOne
  simp only
  rw [cache_removeTxByKey]
  show (if c.2 = codeOK then (s.cache.push c.1).1
      else if (!s.cfg.keepInvalid) = true then s.cache.remove c.1 else s.cache).size = s.cache.size
  split
  · exact Cache.push_size _ _
  · split
    · exact Cache.remove_size _ _
    · rfl

theorem cache_size_commitAll (block : List (Bytes × Nat)) : ∀ (s : State),
    (block.foldl commitOne s).cache.size = s.cache.size := by
  induction block with
  | nil => intro s; rfl
  | cons c r ih => intro s; exact (ih _).trans (cache_size_commitOne s c)

/-! ### the cache stays duplicate-free and within its size -/

theorem cacheOK_evictOne {n : Int} {s : State} (h : s.cache.OKn n) (w : WTx) :
    (evictOne s w).cache.OKn n := Cache.okn_remove _ _ h

theorem cacheOK_evictLoop {n : Int} (need : Int) : ∀ (vs : List WTx) (s : State) (ev : Int),
    s.cache.OKn n → (evictLoop need s vs ev).cache.OKn n := by
  intro vs
  induction vs with
  | nil => intro s ev h; exact h
  | cons w rest ih =>
    intro s ev h
    unfold evictLoop
    simp only
    split
    · exact cacheOK_evictOne h w
    · exact ih _ _ (cacheOK_evictOne h w)

theorem cacheOK_addNew {n : Int} {s : State} (h : s.cache.OKn n) (w : WTx) (v : Verdict) :
    (addNewTransaction s w v).1.cache.OKn n := by
  unfold addNewTransaction
  split
  · simp only
    split
    · exact Cache.okn_remove _ _ h
    · exact h
  · split
    · exact h
    · split
      · exact h
      · simp only
        split
        · split
          · exact Cache.okn_remove _ _ h
          · exact cacheOK_evictLoop _ _ _ _ h
        · exact h

theorem cacheOK_checkTx {n : Int} {s : State} (h : s.cache.OKn n) (tx : Bytes) (v : Verdict) :
    (checkTx s tx v).1.cache.OKn n := by
  unfold checkTx
  split
  · exact h
  · split
    · exact h
    · simp only
      split
      · exact Cache.okn_push _ _ h
      · exact cacheOK_addNew (s := { s with cache := (s.cache.push tx).1, clock := s.clock + 1 })
          (Cache.okn_push _ _ h) _ v

theorem cacheOK_commitOne {n : Int} {s : State} (h : s.cache.OKn n) (c : Bytes × Nat) :
    (commitOne s c).cache.OKn n := by
  unfold commitOne
  simp only
  rw [cache_removeTxByKey]
  show (if c.2 = codeOK then (s.cache.push c.1).1
      else if (!s.cfg.keepInvalid) = true then s.cache.remove c.1 else s.cache).OKn n
  split
  · exact Cache.okn_push _ _ h
  · split
    · exact Cache.okn_remove _ _ h
    · exact h

theorem cacheOK_purgeOne {n : Int} (ht : Int) (expired : WTx → Bool) {s : State}
    (h : s.cache.OKn n) (w : WTx) : (purgeOne ht expired s w).cache.OKn n := by
  unfold purgeOne
  split
  · exact cacheOK_evictOne h w
  · split
    · exact cacheOK_evictOne h w
    · exact h

theorem cacheOK_recheckOne {n : Int} {s : State} (h : s.cache.OKn n) (tx : Bytes) (v : Verdict) :
    (handleRecheckResult s tx v).cache.OKn n := by
  unfold handleRecheckResult
  split
  · split
    · exact h
    · split
      · exact h
      · simp only
        split
        · exact Cache.okn_remove _ _ h
        · exact h
  · exact h

theorem cacheOK_update {n : Int} {s : State} (h : s.cache.OKn n) (ht : Int)
    (block : List (Bytes × Nat)) (pre post : Option Int) (rv : Bytes → Verdict)
    (expired : WTx → Bool) : (update s ht block pre post rv expired).cache.OKn n := by
  rw [update_eq]
  have h2 : (block.foldl commitOne (updHead s ht pre post)).cache.OKn n :=
    foldl_pred (fun st : State => st.cache.OKn n) commitOne (fun st c hq => cacheOK_commitOne hq c) block _ h
  have h3 : (purgeExpiredTxs (block.foldl commitOne (updHead s ht pre post)) ht expired).cache.OKn n := by
    unfold purgeExpiredTxs
    split
    · exact h2
    · exact foldl_pred (fun st : State => st.cache.OKn n) _
        (fun st w hq => cacheOK_purgeOne ht expired hq w) _ _ h2
  simp only
  split
  · split
    · exact foldl_pred (fun st : State => st.cache.OKn n) _
        (fun st w hq => cacheOK_recheckOne hq w.tx (rv w.tx)) _ _ h3
    · exact h3
  · exact h3

theorem cacheOK_flush {n : Int} {s : State} (h : s.cache.OKn n) : (flush s).cache.OKn n := by
  unfold flush
  have : (s.txs.foldl removeElem s).cache.OKn n :=
    foldl_pred (fun st : State => st.cache.OKn n) removeElem (fun st w hq => hq) _ _ h
  exact Cache.okn_reset _ this

theorem cacheOK_step {n : Int} {s : State} (h : s.cache.OKn n) (op : Op) :
    (step s op).cache.OKn n := by
  cases op with
  | check tx v p => exact (checkTxFrom_core s tx v p).2 ▸ cacheOK_checkTx h tx v
  | update ht b pre post rv ex => exact cacheOK_update h ht b pre post rv ex
  | flush => exact cacheOK_flush h

theorem cacheOK_run {n : Int} (ops : List Op) (s : State) (h : s.cache.OKn n) :
    (run s ops).cache.OKn n :=
  foldl_pred (fun st : State => st.cache.OKn n) step (fun st o hq => cacheOK_step hq o) ops s h

/-! ### CheckTx split into its two halves -/

theorem recordPeer_core (s : State) (tx : Bytes) (p : Nat) : Core (recordPeer s tx p) = Core s := by
  simp only [Core, recordPeer_keys]; rfl

theorem sbegin_core (a : SState) (tx : Bytes) (p : Nat) :
    Core (sbegin a tx p).1.s = Core a.s ∧ ((sbegin a tx p).1.s.cache = a.s.cache ∨
      (sbegin a tx p).1.s.cache = (a.s.cache.push tx).1) := by
  unfold sbegin
  split
  · exact ⟨rfl, Or.inl rfl⟩
  · split
    · exact ⟨rfl, Or.inl rfl⟩
    · simp only
      split
      · exact ⟨recordPeer_core _ _ _, Or.inr rfl⟩
      · exact ⟨rfl, Or.inr rfl⟩

theorem sfinish_spec {a : SState} (hi : Inv a.s) (i : Nat) (v : Verdict) :
    Inv (sfinish a i v).1.s ∧ (sfinish a i v).1.s.cfg = a.s.cfg ∧
    (Bounded a.s → Bounded (sfinish a i v).1.s) := by
  unfold sfinish
  split
  · exact ⟨hi, rfl, fun h => h⟩
  · rename_i p _
    simp only
    obtain ⟨h1, h2, _, _, h5, _⟩ := addNew_spec (s := { a.s with clock := a.s.clock + 1 }) hi
      { tx := p.tx, height := p.height, seq := a.s.clock, gas := 0, prio := 0, sender := "" } v
    split
    · have hc := recordPeer_core (addNewTransaction { a.s with clock := a.s.clock + 1 }
        { tx := p.tx, height := p.height, seq := a.s.clock, gas := 0, prio := 0, sender := "" } v).1 p.tx p.peer
      have hcfg : (recordPeer (addNewTransaction { a.s with clock := a.s.clock + 1 }
          { tx := p.tx, height := p.height, seq := a.s.clock, gas := 0, prio := 0, sender := "" } v).1 p.tx p.peer).cfg = a.s.cfg := h2
      exact ⟨inv_of_core hc h1, hcfg, fun hb => bounded_of_core hc (h5 hb)⟩
    · exact ⟨h1, h2, h5⟩

theorem sstep_spec {a : SState} (hi : Inv a.s) (op : SOp) :
    Inv (sstep a op).s ∧ (sstep a op).s.cfg = a.s.cfg ∧ (Bounded a.s → Bounded (sstep a op).s) := by
  cases op with
  | begin tx p =>
    have hc := (sbegin_core a tx p).1
    have hcfg : (sbegin a tx p).1.s.cfg = a.s.cfg := by
      have := congrArg (·.2.2.2.1) hc; simpa [Core] using this
    exact ⟨inv_of_core hc hi, hcfg, fun hb => bounded_of_core hc hb⟩
  | finish i v => exact sfinish_spec hi i v
  | update h b pre post rv ex =>
    obtain ⟨h1, h2, h3, _⟩ := update_spec hi h b pre post rv ex
    exact ⟨h1, h2, h3⟩

theorem srun_spec (ops : List SOp) : ∀ {a : SState}, Inv a.s →
    Inv (srun a ops).s ∧ (srun a ops).s.cfg = a.s.cfg ∧ (Bounded a.s → Bounded (srun a ops).s) := by
  induction ops with
  | nil => intro a hi; exact ⟨hi, rfl, fun h => h⟩
  | cons o r ih =>
    intro a hi
    obtain ⟨a1, a2, a3⟩ := sstep_spec hi o
    obtain ⟨b1, b2, b3⟩ := ih a1
    exact ⟨b1, b2.trans a2, fun h => b3 (a3 h)⟩

end Tmv.Mempool.V1
