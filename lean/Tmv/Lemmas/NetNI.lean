import Tmv.Lemmas.ConsGuard
/-! (N): bookkeeping of a node's output list and internal queue: the outputs only grow (`base` is a
prefix), signed votes are for rounds reached and appear in non-decreasing round order, scheduled
timeouts are for rounds reached, and every vote waiting in the internal queue is the node's own,
correctly signed, and was emitted. -/
namespace Tmv.Cons

def isSched : Output → Prop
  | .schedule _ _ => True
  | _ => False

def VoteLe (o₁ o₂ : Output) : Prop :=
  ∀ t r x t' r' x', o₁ = .signVote t r x → o₂ = .signVote t' r' x' → r ≤ r'

structure NI (me : Nat) (base : List Output) (round : Nat) (queue : List Internal) (out : List Output) : Prop where
  ext : ∃ new, out = base ++ new
  a4 : ∀ t r x, Output.signVote t r x ∈ out → r ≤ round
  sorted : out.Pairwise VoteLe
  sched : ∀ r st, Output.schedule r st ∈ out → r ≤ round
  qi : ∀ v, Internal.vote v ∈ queue → v.val = me ∧ v.sigOK = true ∧ Output.signVote v.typ v.round v.bid ∈ out

abbrev N (me : Nat) (base : List Output) (s : NodeState) : Prop := NI me base s.round s.queue s.out

theorem NI.init (me : Nat) : NI me [] 0 [] [] :=
  ⟨⟨[], rfl⟩, by simp, List.Pairwise.nil, by simp, by simp⟩

theorem NI.rebase {me base round queue out} (h : NI me base round queue out) : NI me out round queue out :=
  ⟨⟨[], by simp⟩, h.a4, h.sorted, h.sched, h.qi⟩

theorem N.init (me : Nat) : N me [] NodeState.init := NI.init me

theorem NI.mono_round {me base r r' q out} (h : NI me base r q out) (hr : r ≤ r') : NI me base r' q out :=
  ⟨h.ext, fun t r₀ x hm => Nat.le_trans (h.a4 t r₀ x hm) hr, h.sorted,
   fun r₀ st hm => Nat.le_trans (h.sched r₀ st hm) hr, h.qi⟩

theorem NI.ext_push {base out : List Output} (h : ∃ new, out = base ++ new) (o : Output) :
    ∃ new, out ++ [o] = base ++ new := by
  rcases h with ⟨new, e⟩
  exact ⟨new ++ [o], by rw [e, List.append_assoc]⟩

theorem NI.push_other {me base r q out} (h : NI me base r q out) (o : Output) (ho : ¬ isVote o)
    (hs : ¬ isSched o) : NI me base r q (out ++ [o]) := by
  have hne : ∀ t r' x, o ≠ Output.signVote t r' x := by
    intro t r' x e; subst e; exact ho trivial
  have hns : ∀ r' st, o ≠ Output.schedule r' st := by
    intro r' st e; subst e; exact hs trivial
  refine ⟨NI.ext_push h.ext o, ?_, ?_, ?_, ?_⟩
  · intro t r' x hm
    rcases List.mem_append.1 hm with a | a
    · exact h.a4 t r' x a
    · simp at a; exact absurd a.symm (hne _ _ _)
  · rw [List.pairwise_append]
    refine ⟨h.sorted, List.pairwise_singleton _ _, ?_⟩
    intro a _ b hb t r₁ x t' r₂ x' _ e2
    simp at hb; subst hb
    exact absurd e2 (hne _ _ _)
  · intro r' st hm
    rcases List.mem_append.1 hm with a | a
    · exact h.sched r' st a
    · simp at a; exact absurd a.symm (hns _ _)
  · intro v hv
    have := h.qi v hv
    exact ⟨this.1, this.2.1, List.mem_append_left _ this.2.2⟩

theorem NI.push_sched {me base r q out} (h : NI me base r q out) (r' : Nat) (st : Step) (hr : r' ≤ r) :
    NI me base r q (out ++ [.schedule r' st]) := by
  refine ⟨NI.ext_push h.ext _, ?_, ?_, ?_, ?_⟩
  · intro t r₀ x hm
    rcases List.mem_append.1 hm with a | a
    · exact h.a4 t r₀ x a
    · simp at a
  · rw [List.pairwise_append]
    refine ⟨h.sorted, List.pairwise_singleton _ _, ?_⟩
    intro a _ b hb t r₁ x t' r₂ x' _ e2
    simp at hb; subst hb
    cases e2
  · intro r₀ st₀ hm
    rcases List.mem_append.1 hm with a | a
    · exact h.sched r₀ st₀ a
    · simp at a; rw [a.1]; exact hr
  · intro v hv
    have := h.qi v hv
    exact ⟨this.1, this.2.1, List.mem_append_left _ this.2.2⟩

theorem NI.push_vote {me base r q out} (h : NI me base r q out) (t : VType) (x : Bid) :
    NI me base r (q ++ [.vote ⟨t, r, x, me, true, me, me⟩]) (out ++ [.signVote t r x]) := by
  refine ⟨NI.ext_push h.ext _, ?_, ?_, ?_, ?_⟩
  · intro t₀ r₀ x₀ hm
    rcases List.mem_append.1 hm with a | a
    · exact h.a4 t₀ r₀ x₀ a
    · simp at a; rw [a.2.1]; exact Nat.le_refl _
  · rw [List.pairwise_append]
    refine ⟨h.sorted, List.pairwise_singleton _ _, ?_⟩
    intro a ha b hb t₁ r₁ x₁ t₂ r₂ x₂ e1 e2
    simp at hb; subst hb; subst e1
    cases e2
    exact h.a4 _ _ _ ha
  · intro r₀ st₀ hm
    rcases List.mem_append.1 hm with a | a
    · exact h.sched r₀ st₀ a
    · simp at a
  · intro v hv
    rcases List.mem_append.1 hv with a | a
    · have := h.qi v a
      exact ⟨this.1, this.2.1, List.mem_append_left _ this.2.2⟩
    · simp at a; subst a
      exact ⟨rfl, rfl, List.mem_append_right _ (List.mem_singleton.2 rfl)⟩

theorem NI.push_queue {me base r q out} (h : NI me base r q out) (ms : List Internal)
    (hms : ∀ v, Internal.vote v ∉ ms) : NI me base r (q ++ ms) out := by
  refine ⟨h.ext, h.a4, h.sorted, h.sched, ?_⟩
  intro v hv
  rcases List.mem_append.1 hv with a | a
  · exact h.qi v a
  · exact absurd a (hms v)

theorem NI.pop {me base r m q out} (h : NI me base r (m :: q) out) : NI me base r q out :=
  ⟨h.ext, h.a4, h.sorted, h.sched, fun v hv => h.qi v (List.mem_cons_of_mem _ hv)⟩

/-! facts about the primitives (proved before they are made irreducible) -/

theorem emit_queue (s : NodeState) (o : Output) : (emit s o).queue = s.queue := by
  unfold emit; split <;> rfl

theorem emit_out_live (s : NodeState) (o : Output) (h : s.halted = false) : (emit s o).out = s.out ++ [o] := by
  unfold emit; simp [h]

theorem panicWith_queue (s : NodeState) (w : String) : (panicWith s w).queue = s.queue := by
  unfold panicWith; split <;> rfl

theorem panicWith_halted (s : NodeState) (w : String) : (panicWith s w).halted = true := by
  unfold panicWith; split
  · assumption
  · rfl

theorem sign_queue {c : Cfg} {s s' : NodeState} {r cd : Nat} {p : Payload} (hs : sign c s r cd p = some s') :
    s'.queue = s.queue := by
  unfold sign at hs
  repeat' split at hs
  all_goals first | (cases hs; rfl) | simp at hs

theorem newRoundReset_queue (s : NodeState) (r : Nat) : (newRoundReset s r).queue = s.queue := by
  unfold newRoundReset; simp only []; split <;> rfl

attribute [local irreducible] emit panicWith sign signAddVote decideProposal doPrevote enterPrevote enterPropose
  enterNewRound newRoundReset enterPrevoteWait unlock enterPrecommit enterPrecommitWait finalizeCommit tryFinalizeCommit
  enterCommit setProposal handleCompleteProposal addBlockPart addVote onPolka prevoteTransitions afterPrevote
  afterPrecommit handleInternal handleTimeout
  handleTxsAvailable handleInput drain step run HVS.addVote HVS.setRound HVS.setPeerMaj23 HVS.polRound
  isProposalComplete maj23Of hasAnyOf hashesTo hasHeader

variable {c : Cfg} {me : Nat} {base : List Output}

-- `hc` is taken (explicitly, first) by every lemma with a `c`, also where unused, so that `ninv_step` can always apply them
set_option linter.unusedVariables false

syntax "ninv_step" : tactic
macro_rules | `(tactic| ninv_step) => `(tactic| assumption)
macro_rules | `(tactic| ninv_step) => `(tactic| rfl)
macro_rules | `(tactic| ninv_step) => `(tactic| exact (fun h => h))
macro_rules | `(tactic| ninv_step) => `(tactic| (intro _ _ e; cases e; done))
macro_rules | `(tactic| ninv_step) => `(tactic| (intro _ _ e; cases e; first | exact Nat.le_refl _ | exact Nat.zero_le _ | omega))
macro "ninv" : tactic => `(tactic| repeat' (first | ninv_step | (dsimp only; ninv_step)))

theorem emit_N {s : NodeState} (o : Output) (ho : ¬ isVote o) (hs : ∀ r st, o = .schedule r st → r ≤ s.round)
    (h : N me base s) : N me base (emit s o) := by
  show NI _ _ _ _ _
  rw [emit_round, emit_queue]
  rcases emit_out s o with e | e <;> rw [e]
  · exact h
  · cases o with
    | schedule r st => exact h.push_sched r st (hs r st rfl)
    | signVote t r x => exact absurd trivial ho
    | signProposal r b p => exact h.push_other _ (fun h => h) (fun h => h)
    | decide b r => exact h.push_other _ (fun h => h) (fun h => h)
    | panic w => exact h.push_other _ (fun h => h) (fun h => h)
macro_rules | `(tactic| ninv_step) => `(tactic| apply emit_N)

theorem panicWith_N {s : NodeState} (w : String) (h : N me base s) : N me base (panicWith s w) := by
  show NI _ _ _ _ _
  rw [panicWith_round, panicWith_queue]
  unfold panicWith; split
  · exact h
  · exact h.push_other _ (fun h => h) (fun h => h)
macro_rules | `(tactic| ninv_step) => `(tactic| apply panicWith_N)

theorem signAddVote_N (hc : c.self = some me) {s : NodeState} (t : VType) (b : Bid) (h : N me base s) :
    N me base (signAddVote c s t b) := by
  unfold signAddVote
  split
  · exact h
  · rename_i hh
    split
    · exact h
    · rename_i me' hme
      rw [hc] at hme; cases hme
      split
      · rename_i s' hs
        have hf := sign_out hs
        have hq := sign_queue hs
        have hl : s'.halted = false := by rw [hf.2]; simpa using hh
        show NI _ _ _ _ _
        dsimp only
        rw [emit_round, emit_queue, emit_out_live _ _ hl, core_round (sign_core hs), hf.1, hq]
        exact h.push_vote t b
      · exact h
macro_rules | `(tactic| ninv_step) => `(tactic| apply signAddVote_N)

theorem decideProposal_N (hc : c.self = some me) {s : NodeState} (r me' : Nat) (h : N me base s) :
    N me base (decideProposal c s r me') := by
  unfold decideProposal
  simp only []
  split
  · rename_i s' hs
    have hf := sign_out hs
    have hq := sign_queue hs
    show NI _ _ _ _ _
    dsimp only
    rw [emit_round, emit_queue, core_round (sign_core hs), hq]
    have hms : ∀ v, Internal.vote v ∉
        [Internal.proposal { round := r, bid := s.validBlock.getD c.ownBlock, pol := s.validRound, signer := me' },
         Internal.part (s.validBlock.getD c.ownBlock)] := by
      intro v hv; simp at hv
    rcases emit_out s' (.signProposal r (s.validBlock.getD c.ownBlock) s.validRound) with e | e <;> rw [e, hf.1]
    · exact h.push_queue _ hms
    · exact (h.push_other (.signProposal r (s.validBlock.getD c.ownBlock) s.validRound)
        (fun h => h) (fun h => h)).push_queue _ hms
  · exact h
macro_rules | `(tactic| ninv_step) => `(tactic| apply decideProposal_N)

theorem doPrevote_N (hc : c.self = some me) {s : NodeState} (h : N me base s) : N me base (doPrevote c s) := by
  unfold doPrevote; repeat' split
  all_goals ninv
macro_rules | `(tactic| ninv_step) => `(tactic| apply doPrevote_N)

theorem enterPrevote_N (hc : c.self = some me) {s : NodeState} (r : Nat) (h : N me base s) :
    N me base (enterPrevote c s r) := by
  unfold enterPrevote
  repeat' split
  all_goals first | exact h | skip
  rename_i hg
  have := doPrevote_N (c := c) hc h
  show NI _ _ _ _ _
  dsimp only
  refine NI.mono_round this ?_
  rw [doPrevote_round]; omega
macro_rules | `(tactic| ninv_step) => `(tactic| apply enterPrevote_N)

macro_rules | `(tactic| ninv_step) => `(tactic| exact Or.inr (Nat.le_refl _))
macro_rules | `(tactic| ninv_step) => `(tactic| (right; omega))

theorem enterPropose_N (hc : c.self = some me) {s : NodeState} (r : Nat) (hle : s.halted = true ∨ r ≤ s.round)
    (h : N me base s) : N me base (enterPropose c s r) := by
  unfold enterPropose
  split
  · exact h
  · rename_i hh
    split
    · exact h
    · rename_i hg
      have hr : r = s.round := by
        rcases hle with hle | hle
        · exact absurd hle hh
        · omega
      subst hr
      simp only []
      have h1 : N me base (emit s (.schedule s.round .propose)) :=
        emit_N _ (fun h => h) (by intro _ _ e; cases e; exact Nat.le_refl _) h
      have key : ∀ t : NodeState, N me base t → t.round = s.round →
          N me base { t with round := s.round, step := .propose } := by
        intro t ht hr
        show NI _ _ _ _ _
        dsimp only
        rw [← hr]; exact ht
      repeat' split
      all_goals (try apply enterPrevote_N hc)
      all_goals apply key
      all_goals first | (ninv; done) | (simp; done)
macro_rules | `(tactic| ninv_step) => `(tactic| apply enterPropose_N)

theorem newRoundReset_N {s : NodeState} (r : Nat) (hr : s.round ≤ r) (h : N me base s) :
    N me base (newRoundReset s r) := by
  have hf := newRoundReset_fields s r
  show NI _ _ _ _ _
  rw [hf.1, hf.2.2.1, newRoundReset_queue]
  exact NI.mono_round h hr

theorem enterNewRound_N (hc : c.self = some me) {s : NodeState} (r : Nat) (h : N me base s) :
    N me base (enterNewRound c s r) := by
  unfold enterNewRound
  split
  · exact h
  · split
    · exact h
    · rename_i hg
      simp only []
      have hround : (newRoundReset s r).round = r := (newRoundReset_fields s r).2.2.1
      have h' : N me base (newRoundReset s r) := newRoundReset_N r (by omega) h
      split
      · ninv
      · repeat' split
        all_goals first
          | (ninv; done)
          | (apply emit_N _ (fun h => h) (by intro _ _ e; cases e; dsimp only; omega); exact h')
          | (apply enterPropose_N hc _ (Or.inr (by dsimp only; omega)); exact h')
macro_rules | `(tactic| ninv_step) => `(tactic| apply enterNewRound_N)

theorem enterPrevoteWait_N (hc : c.self = some me) {s : NodeState} (r : Nat)
    (hle : s.halted = true ∨ r ≤ s.round) (h : N me base s) : N me base (enterPrevoteWait c s r) := by
  unfold enterPrevoteWait
  split
  · exact h
  · rename_i hh
    split
    · exact h
    · rename_i hg
      have hr : r = s.round := by
        rcases hle with hle | hle
        · exact absurd hle hh
        · omega
      subst hr
      split
      · ninv
      · show NI _ _ _ _ _
        dsimp only
        have := emit_N (me := me) (base := base) (s := s) (.schedule s.round .prevoteWait) (fun h => h)
          (by intro _ _ e; cases e; exact Nat.le_refl _) h
        rw [show N _ _ _ = NI _ _ _ _ _ from rfl, emit_round] at this
        exact this
macro_rules | `(tactic| ninv_step) => `(tactic| apply enterPrevoteWait_N)

theorem unlock_N {s : NodeState} (h : N me base s) : N me base (unlock s) := by
  unfold unlock; exact h
macro_rules | `(tactic| ninv_step) => `(tactic| apply unlock_N)

theorem enterPrecommit_N (hc : c.self = some me) {s : NodeState} (r : Nat) (h : N me base s) :
    N me base (enterPrecommit c s r) := by
  unfold enterPrecommit
  split
  · exact h
  · rename_i hh
    split
    · exact h
    · rename_i hg
      have key : ∀ (t : NodeState) (x : Bid), N me base t → t.round = s.round →
          N me base { (signAddVote c t .precommit x) with round := r, step := .precommit } := by
        intro t x ht hr
        have := signAddVote_N (c := c) hc .precommit x ht
        show NI _ _ _ _ _
        dsimp only
        refine NI.mono_round this ?_
        rw [signAddVote_round, hr]; omega
      (try simp only [])
      repeat' split
      all_goals first
        | (ninv; done)
        | (apply key <;> first | (ninv; done) | rfl | (simp; done) | (split <;> first | (ninv; done) | rfl | simp))
macro_rules | `(tactic| ninv_step) => `(tactic| apply enterPrecommit_N)

/-- needed by afterPrecommit: enterPrecommit keeps "halted or round ≥ r" -/
theorem enterPrecommit_reach (s : NodeState) (r : Nat) (h : s.halted = true ∨ r ≤ s.round) :
    (enterPrecommit c s r).halted = true ∨ r ≤ (enterPrecommit c s r).round := by
  unfold enterPrecommit
  split
  · left; assumption
  · split
    · exact h
    · (try simp only [])
      repeat' split
      all_goals first
        | (left; exact panicWith_halted _ _)
        | (right; exact Nat.le_refl _)

theorem enterPrecommitWait_N (hc : c.self = some me) {s : NodeState} (r : Nat)
    (hle : s.halted = true ∨ r ≤ s.round) (h : N me base s) : N me base (enterPrecommitWait c s r) := by
  unfold enterPrecommitWait
  split
  · exact h
  · rename_i hh
    split
    · exact h
    · rename_i hg
      have hr : r = s.round := by
        rcases hle with hle | hle
        · exact absurd hle hh
        · omega
      subst hr
      split
      · ninv
      · show NI _ _ _ _ _
        dsimp only
        exact emit_N (me := me) (base := base) (s := s) (.schedule s.round .precommitWait) (fun h => h)
          (by intro _ _ e; cases e; exact Nat.le_refl _) h
macro_rules | `(tactic| ninv_step) => `(tactic| apply enterPrecommitWait_N)

theorem finalizeCommit_N (hc : c.self = some me) {s : NodeState} (h : N me base s) :
    N me base (finalizeCommit c s) := by
  unfold finalizeCommit; (try simp only []); repeat' split
  all_goals ninv
macro_rules | `(tactic| ninv_step) => `(tactic| apply finalizeCommit_N)

theorem tryFinalizeCommit_N (hc : c.self = some me) {s : NodeState} (h : N me base s) :
    N me base (tryFinalizeCommit c s) := by
  unfold tryFinalizeCommit; (try simp only []); repeat' split
  all_goals ninv
macro_rules | `(tactic| ninv_step) => `(tactic| apply tryFinalizeCommit_N)

theorem enterCommit_N (hc : c.self = some me) {s : NodeState} (r : Nat) (h : N me base s) :
    N me base (enterCommit c s r) := by
  unfold enterCommit
  split
  · exact h
  · split
    · exact h
    · split
      · ninv
      · simp only []
        apply tryFinalizeCommit_N hc
        show NI _ _ _ _ _
        repeat' split
        all_goals exact h
macro_rules | `(tactic| ninv_step) => `(tactic| apply enterCommit_N)

theorem setProposal_N (hc : c.self = some me) {s : NodeState} (p : Proposal) (h : N me base s) :
    N me base (setProposal c s p) := by
  unfold setProposal; (try simp only []); repeat' split
  all_goals ninv
macro_rules | `(tactic| ninv_step) => `(tactic| apply setProposal_N)

theorem handleCompleteProposal_N (hc : c.self = some me) {s : NodeState} (h : N me base s) :
    N me base (handleCompleteProposal c s) := by
  unfold handleCompleteProposal; (try simp only []); repeat' split
  all_goals ninv
macro_rules | `(tactic| ninv_step) => `(tactic| apply handleCompleteProposal_N)

theorem addBlockPart_N (hc : c.self = some me) {s : NodeState} (b : Nat) (h : N me base s) :
    N me base (addBlockPart c s b) := by
  unfold addBlockPart; (try simp only []); repeat' split
  all_goals ninv
macro_rules | `(tactic| ninv_step) => `(tactic| apply addBlockPart_N)

theorem onPolka_N {s : NodeState} (vr : Nat) (bid : Bid) (h : N me base s) : N me base (onPolka s vr bid) := by
  unfold onPolka; (try simp only []); repeat' split
  all_goals ninv
macro_rules | `(tactic| ninv_step) => `(tactic| apply onPolka_N)

theorem prevoteTransitions_N (hc : c.self = some me) {s : NodeState} (vr : Nat) (h : N me base s) :
    N me base (prevoteTransitions c s vr) := by
  unfold prevoteTransitions; (try simp only []); repeat' split
  all_goals ninv
macro_rules | `(tactic| ninv_step) => `(tactic| apply prevoteTransitions_N)

theorem afterPrevote_N (hc : c.self = some me) {s : NodeState} (vr : Nat) (h : N me base s) :
    N me base (afterPrevote c s vr) := by
  unfold afterPrevote; (try simp only []); repeat' split
  all_goals ninv
macro_rules | `(tactic| ninv_step) => `(tactic| apply afterPrevote_N)

theorem afterPrecommit_N (hc : c.self = some me) {s : NodeState} (vr : Nat) (h : N me base s) :
    N me base (afterPrecommit c s vr) := by
  unfold afterPrecommit; simp only []; repeat' split
  all_goals first
    | (ninv; done)
    | (apply enterPrecommitWait_N hc _ (enterPrecommit_reach _ _ (enterNewRound_reach _ _)); ninv; done)
    | (apply enterPrecommitWait_N hc _ (enterNewRound_reach _ _); ninv; done)
macro_rules | `(tactic| ninv_step) => `(tactic| apply afterPrecommit_N)

theorem addVote_N (hc : c.self = some me) {s : NodeState} (v : Vote) (peer : Peer) (h : N me base s) :
    N me base (addVote c s v peer) := by
  unfold addVote; (try simp only []); repeat' split
  all_goals ninv
macro_rules | `(tactic| ninv_step) => `(tactic| apply addVote_N)

theorem handleInternal_N (hc : c.self = some me) {s : NodeState} (m : Internal) (h : N me base s) :
    N me base (handleInternal c s m) := by
  unfold handleInternal; (try simp only []); repeat' split
  all_goals ninv
macro_rules | `(tactic| ninv_step) => `(tactic| apply handleInternal_N)

theorem handleTimeout_N (hc : c.self = some me) {s : NodeState} (r : Nat) (st : Step) (h : N me base s) :
    N me base (handleTimeout c s r st) := by
  unfold handleTimeout; repeat' split
  all_goals ninv
macro_rules | `(tactic| ninv_step) => `(tactic| apply handleTimeout_N)

theorem handleTxsAvailable_N (hc : c.self = some me) {s : NodeState} (h : N me base s) :
    N me base (handleTxsAvailable c s) := by
  unfold handleTxsAvailable; repeat' split
  all_goals ninv
macro_rules | `(tactic| ninv_step) => `(tactic| apply handleTxsAvailable_N)

theorem handleInput_N (hc : c.self = some me) {s : NodeState} (i : Input) (h : N me base s) :
    N me base (handleInput c s i) := by
  unfold handleInput
  cases i with
  | timeout r st => exact handleTimeout_N hc r st h
  | peerMaj23 r t peer bid => exact h
  | proposal p => exact setProposal_N hc p h
  | blockComplete b => exact addBlockPart_N hc b h
  | vote v peer => exact addVote_N hc v peer h
  | txsAvailable => exact handleTxsAvailable_N hc h

theorem drain_N (hc : c.self = some me) (fuel : Nat) {s : NodeState} (h : N me base s) :
    N me base (drain c fuel s) := by
  induction fuel generalizing s with
  | zero => unfold drain; exact h
  | succ n ih =>
    unfold drain; repeat' split
    all_goals first | exact h | skip
    rename_i m rest hq
    have h' : N me base { s with queue := rest } := by
      show NI _ _ _ _ _
      dsimp only
      have h0 : NI me base s.round s.queue s.out := h
      rw [hq] at h0
      exact h0.pop
    exact ih (handleInternal_N hc m h')

theorem step_N (hc : c.self = some me) {s : NodeState} (i : Input) (h : N me base s) : N me base (step c s i) := by
  unfold step; split
  · exact h
  · exact drain_N hc _ (handleInput_N hc i h)

end Tmv.Cons
