import Tmv.Lemmas.ConsLock2
/-! First line of defence: the step guards at the top of every `enterX` alone (whatever the signer
does) let the node sign at most one proposal, one prevote and one precommit per round — provided no
timeout names a round the node has not reached. -/
namespace Tmv.Cons
attribute [local irreducible] emit panicWith sign signAddVote decideProposal doPrevote enterPrevote enterPropose
  enterNewRound newRoundReset enterPrevoteWait unlock enterPrecommit enterPrecommitWait finalizeCommit tryFinalizeCommit
  enterCommit setProposal handleCompleteProposal addBlockPart addVote onPolka prevoteTransitions afterPrevote
  afterPrecommit handleInternal handleTimeout
  handleTxsAvailable handleInput drain step run HVS.addVote HVS.setRound HVS.setPeerMaj23 HVS.polRound
  isProposalComplete maj23Of hasAnyOf hashesTo hasHeader

/-- the step from which on a signature of this kind may exist in the current round -/
def sigRank : Output → Option Nat
  | .signProposal _ _ _ => some 3
  | .signVote .prevote _ _ => some 4
  | .signVote .precommit _ _ => some 6
  | _ => none

def sigRound : Output → Nat
  | .signProposal r _ _ => r
  | .signVote _ r _ => r
  | _ => 0

/-- (G): every signature in `out` is of an earlier round, or of the current round with the step
already past the point where it is cast; and two signatures of one kind and round are equal -/
structure GI (r : Nat) (st : Step) (out : List Output) : Prop where
  past : ∀ o ∈ out, ∀ k, sigRank o = some k → sigRound o < r ∨ (sigRound o = r ∧ k ≤ st.rank)
  uniq : ∀ o₁ ∈ out, ∀ o₂ ∈ out, ∀ k, sigRank o₁ = some k → sigRank o₂ = some k → sigRound o₁ = sigRound o₂ → o₁ = o₂

abbrev G (s : NodeState) : Prop := GI s.round s.step s.out

theorem GI.init : GI 0 .newHeight [] := ⟨by simp, by simp⟩

/-- (round, step) only moves forward -/
theorem GI.mono {r r' st st' out} (h : GI r st out) (hm : r < r' ∨ (r = r' ∧ st.rank ≤ st'.rank)) : GI r' st' out :=
  ⟨fun o ho k hk => by have := h.past o ho k hk; omega, h.uniq⟩

theorem GI.push_other {r st out} (h : GI r st out) (o : Output) (ho : sigRank o = none) : GI r st (out ++ [o]) := by
  refine ⟨?_, ?_⟩
  · intro o' ho' k hk
    rcases List.mem_append.1 ho' with a | a
    · exact h.past o' a k hk
    · simp at a; subst a; rw [ho] at hk; cases hk
  · intro o₁ h₁ o₂ h₂ k k₁ k₂ e
    rcases List.mem_append.1 h₁ with a | a <;> rcases List.mem_append.1 h₂ with b | b
    · exact h.uniq o₁ a o₂ b k k₁ k₂ e
    · simp at b; subst b; rw [ho] at k₂; cases k₂
    · simp at a; subst a; rw [ho] at k₁; cases k₁
    · simp at a b; rw [a, b]

/-- casting the signature of rank `k` of the current round while the step is still before `k`, and
moving the step to `st'` at or past `k` -/
theorem GI.push_sig {r st out} (h : GI r st out) (o : Output) (k : Nat) (ho : sigRank o = some k)
    (hr : sigRound o = r) (hst : st.rank < k) (st' : Step) (hst' : k ≤ st'.rank) :
    GI r st' (out ++ [o]) := by
  refine ⟨?_, ?_⟩
  · intro o' ho' k' hk'
    rcases List.mem_append.1 ho' with a | a
    · have := h.past o' a k' hk'; omega
    · simp at a; subst a; rw [ho] at hk'; cases hk'; exact Or.inr ⟨hr, hst'⟩
  · intro o₁ h₁ o₂ h₂ k' k₁ k₂ e
    rcases List.mem_append.1 h₁ with a | a <;> rcases List.mem_append.1 h₂ with b | b
    · exact h.uniq o₁ a o₂ b k' k₁ k₂ e
    · simp at b; subst b; rw [ho] at k₂; cases k₂
      have := h.past o₁ a k k₁; omega
    · simp at a; subst a; rw [ho] at k₁; cases k₁
      have := h.past o₂ b k k₂; omega
    · simp at a b; rw [a, b]

theorem rank_newHeight : Step.newHeight.rank = 1 := rfl
theorem rank_newRound : Step.newRound.rank = 2 := rfl
theorem rank_propose : Step.propose.rank = 3 := rfl
theorem rank_prevote : Step.prevote.rank = 4 := rfl
theorem rank_prevoteWait : Step.prevoteWait.rank = 5 := rfl
theorem rank_precommit : Step.precommit.rank = 6 := rfl
theorem rank_precommitWait : Step.precommitWait.rank = 7 := rfl
theorem rank_commit : Step.commit.rank = 8 := rfl

macro "ranks" : tactic => `(tactic| simp only [rank_newHeight, rank_newRound, rank_propose, rank_prevote,
  rank_prevoteWait, rank_precommit, rank_precommitWait, rank_commit] at *)

variable {c : Cfg}

syntax "ginv_step" : tactic
macro_rules | `(tactic| ginv_step) => `(tactic| assumption)
macro_rules | `(tactic| ginv_step) => `(tactic| rfl)
macro "ginv" : tactic => `(tactic| repeat' (first | ginv_step | (dsimp only; ginv_step)))

theorem emit_G {s : NodeState} (o : Output) (ho : sigRank o = none) (h : G s) : G (emit s o) := by
  show GI _ _ _
  rw [emit_round, emit_step]
  rcases emit_out s o with e | e <;> rw [e]
  · exact h
  · exact h.push_other o ho
macro_rules | `(tactic| ginv_step) => `(tactic| apply emit_G)

theorem panicWith_G {s : NodeState} (w : String) (h : G s) : G (panicWith s w) := by
  show GI _ _ _
  rw [panicWith_round, panicWith_step]
  unfold panicWith; split
  · exact h
  · exact h.push_other _ rfl
macro_rules | `(tactic| ginv_step) => `(tactic| apply panicWith_G)

theorem signAddVote_out (c : Cfg) (s : NodeState) (t : VType) (b : Bid) :
    (signAddVote c s t b).out = s.out ∨ (signAddVote c s t b).out = s.out ++ [.signVote t s.round b] := by
  unfold signAddVote
  repeat' split
  all_goals first | (left; rfl) | skip
  rename_i s' hs
  have ho := sign_out hs
  show (emit s' _).out = _ ∨ (emit s' _).out = _
  rcases emit_out s' (.signVote t s.round b) with e | e <;> rw [e, ho.1]
  · left; rfl
  · right; rfl

theorem decideProposal_out (c : Cfg) (s : NodeState) (r me : Nat) :
    (decideProposal c s r me).out = s.out ∨
    (decideProposal c s r me).out = s.out ++ [.signProposal r (s.validBlock.getD c.ownBlock) s.validRound] := by
  unfold decideProposal
  simp only []
  split
  · rename_i s' hs
    have ho := sign_out hs
    show (emit s' _).out = _ ∨ (emit s' _).out = _
    rcases emit_out s' (.signProposal r (s.validBlock.getD c.ownBlock) s.validRound) with e | e <;> rw [e, ho.1]
    · left; rfl
    · right; rfl
  · left; rfl

theorem doPrevote_out (c : Cfg) (s : NodeState) :
    (doPrevote c s).out = s.out ∨ ∃ x, (doPrevote c s).out = s.out ++ [.signVote .prevote s.round x] := by
  unfold doPrevote
  repeat' split
  all_goals
    rcases signAddVote_out c s .prevote _ with e | e
    · left; exact e
    · right; exact ⟨_, e⟩

/-- `enterPrevote` for a round the node has reached -/
theorem enterPrevote_G {s : NodeState} (r : Nat) (hle : s.halted = true ∨ r ≤ s.round) (h : G s) :
    G (enterPrevote c s r) := by
  unfold enterPrevote
  split
  · exact h
  · rename_i hh
    split
    · exact h
    · rename_i hg
      have hr : r = s.round := by
        rcases hle with hle | hle
        · exact absurd hle hh
        · omega
      subst hr
      show GI _ _ _
      dsimp only
      ranks
      simp at hg
      rcases doPrevote_out c s with e | ⟨x, e⟩ <;> rw [e]
      · exact h.mono (Or.inr ⟨rfl, by ranks; omega⟩)
      · exact h.push_sig _ 4 rfl rfl (by omega) _ (by ranks; omega)
macro_rules | `(tactic| ginv_step) => `(tactic| apply enterPrevote_G)

macro_rules | `(tactic| ginv_step) => `(tactic| exact Or.inr (Nat.le_refl _))
macro_rules | `(tactic| ginv_step) => `(tactic| (right; omega))

/-- `enterPropose` for a round the node has reached -/
theorem enterPropose_G {s : NodeState} (r : Nat) (hle : s.halted = true ∨ r ≤ s.round) (h : G s) :
    G (enterPropose c s r) := by
  unfold enterPropose
  split
  · exact h
  · rename_i hh
    split
    · exact h
    · rename_i hg
      have hr : r = s.round := by
        rcases hle with hle | hle
        · exact absurd hle hh
        · omega
      subst hr
      ranks
      simp at hg
      (try simp only [])
      have h1 : G (emit s (.schedule s.round .propose)) := emit_G _ rfl h
      have key : ∀ t : NodeState, (t.out = (emit s (.schedule s.round .propose)).out ∨
          ∃ b pol, t.out = (emit s (.schedule s.round .propose)).out ++ [.signProposal s.round b pol]) →
          G { t with round := s.round, step := .propose } := by
        intro t ht
        show GI _ _ _
        dsimp only
        have h1' : GI s.round s.step (emit s (.schedule s.round .propose)).out := by
          have := h1; rw [show G _ = GI _ _ _ from rfl, emit_round, emit_step] at this; exact this
        rcases ht with e | ⟨b, pol, e⟩ <;> rw [e]
        · exact h1'.mono (Or.inr ⟨rfl, by ranks; omega⟩)
        · exact h1'.push_sig _ 3 rfl rfl (by omega) _ (by ranks; omega)
      repeat' split
      all_goals (try apply enterPrevote_G _ (Or.inr (Nat.le_refl _)))
      all_goals apply key
      all_goals first
        | (left; rfl)
        | (rcases decideProposal_out c (emit s (.schedule s.round .propose)) s.round _ with e | e
           · left; exact e
           · right; exact ⟨_, _, e⟩)
macro_rules | `(tactic| ginv_step) => `(tactic| apply enterPropose_G)

theorem enterNewRound_G {s : NodeState} (r : Nat) (h : G s) : G (enterNewRound c s r) := by
  unfold enterNewRound
  split
  · exact h
  · split
    · exact h
    · rename_i hg
      simp only []
      have hf := newRoundReset_fields s r
      have h' : G (newRoundReset s r) := by
        show GI _ _ _
        rw [hf.2.2.1, hf.2.2.2.2.2.2, hf.1]
        by_cases hs : s.step = .newHeight
        · apply h.mono
          rw [hs]; ranks; simp [hs] at hg; omega
        · apply h.mono
          simp [hs] at hg; omega
      split
      · ginv
      · repeat' split
        all_goals first
          | (ginv; done)
          | (apply enterPropose_G _ (Or.inr (by dsimp only; omega)); exact h')
macro_rules | `(tactic| ginv_step) => `(tactic| apply enterNewRound_G)

theorem enterPrevoteWait_G {s : NodeState} (r : Nat) (h : G s) : G (enterPrevoteWait c s r) := by
  unfold enterPrevoteWait
  repeat' split
  all_goals first | exact h | (ginv; done) | skip
  rename_i hg _
  show GI _ _ _
  dsimp only
  have := emit_G (s := s) (.schedule r .prevoteWait) rfl h
  rw [show G _ = GI _ _ _ from rfl, emit_round, emit_step] at this
  apply this.mono
  ranks; simp at hg
  omega
macro_rules | `(tactic| ginv_step) => `(tactic| apply enterPrevoteWait_G)

/-- `enterPrecommit` for a round the node has reached -/
theorem enterPrecommit_G {s : NodeState} (r : Nat) (hle : s.halted = true ∨ r ≤ s.round) (h : G s) :
    G (enterPrecommit c s r) := by
  unfold enterPrecommit
  split
  · exact h
  · rename_i hh
    split
    · exact h
    · rename_i hg
      have hr : r = s.round := by
        rcases hle with hle | hle
        · exact absurd hle hh
        · omega
      subst hr
      ranks
      simp at hg
      have key : ∀ (t : NodeState) (x : Bid), t.round = s.round → t.out = s.out →
          G { (signAddVote c t .precommit x) with round := s.round, step := .precommit } := by
        intro t x hr ho
        show GI _ _ _
        dsimp only
        rcases signAddVote_out c t .precommit x with e | e <;> rw [e, ho]
        · exact h.mono (Or.inr ⟨rfl, by ranks; omega⟩)
        · rw [hr]; exact h.push_sig _ 6 rfl rfl (by omega) _ (by ranks; omega)
      (try simp only [])
      repeat' split
      all_goals first
        | (ginv; done)
        | (apply key <;> first | rfl | (simp; done) | (split <;> first | rfl | simp))
macro_rules | `(tactic| ginv_step) => `(tactic| apply enterPrecommit_G)

theorem Step.rank_le (st : Step) : st.rank ≤ 8 := by cases st <;> decide

theorem enterPrecommitWait_G {s : NodeState} (r : Nat) (h : G s) : G (enterPrecommitWait c s r) := by
  unfold enterPrecommitWait; (try simp only []); repeat' split
  all_goals ginv
macro_rules | `(tactic| ginv_step) => `(tactic| apply enterPrecommitWait_G)

theorem finalizeCommit_G {s : NodeState} (h : G s) : G (finalizeCommit c s) := by
  unfold finalizeCommit; (try simp only []); repeat' split
  all_goals ginv
macro_rules | `(tactic| ginv_step) => `(tactic| apply finalizeCommit_G)

theorem tryFinalizeCommit_G {s : NodeState} (h : G s) : G (tryFinalizeCommit c s) := by
  unfold tryFinalizeCommit; (try simp only []); repeat' split
  all_goals ginv
macro_rules | `(tactic| ginv_step) => `(tactic| apply tryFinalizeCommit_G)

theorem enterCommit_G {s : NodeState} (r : Nat) (h : G s) : G (enterCommit c s r) := by
  unfold enterCommit
  split
  · exact h
  · split
    · exact h
    · split
      · ginv
      · simp only []
        apply tryFinalizeCommit_G
        show GI _ _ _
        have hm : GI s.round .commit s.out := h.mono (Or.inr ⟨rfl, by ranks; exact Step.rank_le _⟩)
        repeat' split
        all_goals exact hm
macro_rules | `(tactic| ginv_step) => `(tactic| apply enterCommit_G)

theorem setProposal_G {s : NodeState} (p : Proposal) (h : G s) : G (setProposal c s p) := by
  unfold setProposal; (try simp only []); repeat' split
  all_goals ginv
macro_rules | `(tactic| ginv_step) => `(tactic| apply setProposal_G)

theorem handleCompleteProposal_G {s : NodeState} (h : G s) : G (handleCompleteProposal c s) := by
  unfold handleCompleteProposal; (try simp only []); repeat' split
  all_goals ginv
macro_rules | `(tactic| ginv_step) => `(tactic| apply handleCompleteProposal_G)

theorem addBlockPart_G {s : NodeState} (b : Nat) (h : G s) : G (addBlockPart c s b) := by
  unfold addBlockPart; (try simp only []); repeat' split
  all_goals ginv
macro_rules | `(tactic| ginv_step) => `(tactic| apply addBlockPart_G)

theorem unlock_G {s : NodeState} (h : G s) : G (unlock s) := by
  unfold unlock; (try simp only []); repeat' split
  all_goals ginv
macro_rules | `(tactic| ginv_step) => `(tactic| apply unlock_G)

theorem onPolka_G {s : NodeState} (vr : Nat) (bid : Bid) (h : G s) : G (onPolka s vr bid) := by
  unfold onPolka; (try simp only []); repeat' split
  all_goals ginv
macro_rules | `(tactic| ginv_step) => `(tactic| apply onPolka_G)

theorem prevoteTransitions_G {s : NodeState} (vr : Nat) (h : G s) : G (prevoteTransitions c s vr) := by
  unfold prevoteTransitions; (try simp only []); repeat' split
  all_goals ginv
macro_rules | `(tactic| ginv_step) => `(tactic| apply prevoteTransitions_G)

theorem afterPrevote_G {s : NodeState} (vr : Nat) (h : G s) : G (afterPrevote c s vr) := by
  unfold afterPrevote; (try simp only []); repeat' split
  all_goals ginv
macro_rules | `(tactic| ginv_step) => `(tactic| apply afterPrevote_G)

theorem afterPrecommit_G {s : NodeState} (vr : Nat) (h : G s) : G (afterPrecommit c s vr) := by
  unfold afterPrecommit; simp only []; repeat' split
  all_goals first
    | (ginv; done)
    | (apply enterCommit_G; apply enterPrecommit_G _ (enterNewRound_reach _ _); ginv)
    | (apply enterPrecommitWait_G; apply enterPrecommit_G _ (enterNewRound_reach _ _); ginv)
macro_rules | `(tactic| ginv_step) => `(tactic| apply afterPrecommit_G)

theorem addVote_G {s : NodeState} (v : Vote) (peer : Peer) (h : G s) : G (addVote c s v peer) := by
  unfold addVote; (try simp only []); repeat' split
  all_goals ginv
macro_rules | `(tactic| ginv_step) => `(tactic| apply addVote_G)

theorem handleInternal_G {s : NodeState} (m : Internal) (h : G s) : G (handleInternal c s m) := by
  unfold handleInternal; (try simp only []); repeat' split
  all_goals ginv
macro_rules | `(tactic| ginv_step) => `(tactic| apply handleInternal_G)

theorem handleTimeout_G {s : NodeState} (r : Nat) (st : Step) (hr : r ≤ s.round) (h : G s) :
    G (handleTimeout c s r st) := by
  unfold handleTimeout; repeat' split
  all_goals ginv

theorem handleTxsAvailable_G {s : NodeState} (h : G s) : G (handleTxsAvailable c s) := by
  unfold handleTxsAvailable; repeat' split
  all_goals ginv

theorem handleInput_G {s : NodeState} (i : Input) (hi : i.notFuture s) (h : G s) : G (handleInput c s i) := by
  unfold handleInput
  cases i with
  | timeout r st => exact handleTimeout_G r st hi h
  | peerMaj23 r t peer bid => exact h
  | proposal p => exact setProposal_G p h
  | blockComplete b => exact addBlockPart_G b h
  | vote v peer => exact addVote_G v peer h
  | txsAvailable => exact handleTxsAvailable_G h

theorem drain_G (fuel : Nat) {s : NodeState} (h : G s) : G (drain c fuel s) := by
  induction fuel generalizing s with
  | zero => unfold drain; exact h
  | succ n ih =>
    unfold drain; repeat' split
    all_goals first | exact h | skip
    rename_i m rest hq
    have h' : G { s with queue := rest } := h
    exact ih (handleInternal_G m h')

theorem step_G {s : NodeState} (i : Input) (hi : i.notFuture s) (h : G s) : G (step c s i) := by
  unfold step; split
  · exact h
  · exact drain_G _ (handleInput_G i hi h)

theorem run_G (is : List Input) {s : NodeState} (hnf : NoFutureTimeout c s is) (h : G s) : G (run c s is) := by
  induction is generalizing s with
  | nil => unfold run; exact h
  | cons i is ih =>
    have := ih hnf.2 (step_G i hnf.1 h)
    unfold run at this ⊢
    simpa [List.foldl] using this

theorem init_G : G NodeState.init := GI.init

end Tmv.Cons
