import Tmv.Model.Chain
/-! Lifting one-height agreement to every height of the chain model `Tmv.Chain` (C01): the nodes that
are correct at a height and have entered it hold the same state there, hence run the height under the
same configuration, hence the height's network is a reachable state of the one-height model.
Core Lean only. -/
namespace Tmv.Chain
open Tmv.Cons Tmv.Net
variable {σ : Type}

/-- one-height agreement, as proved in Props/C01 -/
def Agree1 : Prop := ∀ (nc : NetCfg), 3 * nc.powers.wt nc.faulty < nc.powers.total →
  ∀ (s : Net), Reachable nc s → ∀ p q, nc.correct p → nc.correct q → ∀ b b',
    s.decided p = some b → s.decided q = some b' → b = b'

/-- the hypothesis on the faulty sets: at every height a correct node has entered, less than one third
of the power of the validator set it sees is faulty -/
def Bounded (C : ChainCfg σ) (W : World) : Prop :=
  ∀ h p, W.good C p h → W.entered p h → C.bound (W.st C p h) h

/-! ### facts about the one-height model -/

theorem stepItem_of_decided (c : Cfg) (s : NodeState) (it : Item) (h : s.decided.isSome = true) :
    stepItem c s it = s := by
  unfold stepItem
  rw [if_pos (Or.inr h)]

theorem feed_nodes_ne (nc : NetCfg) (s : Net) (p : Nat) (it : Item) (q : Nat) (h : q ≠ p) :
    (s.feed nc p it).nodes q = s.nodes q := by
  simp only [Net.feed, upd, if_neg h]

theorem feed_decided (nc : NetCfg) (s : Net) (p : Nat) (it : Item) (q b : Nat)
    (h : s.decided q = some b) : (s.feed nc p it).decided q = some b := by
  by_cases hq : q = p
  · subst hq
    have hs : (s.nodes q).decided.isSome = true := by
      unfold Net.decided at h
      cases hd : (s.nodes q).decided with
      | none => rw [hd] at h; simp at h
      | some x => rfl
    have hn : (s.feed nc q it).nodes q = s.nodes q := by
      simp only [Net.feed, upd]
      exact stepItem_of_decided _ _ _ hs
    unfold Net.decided; rw [hn]; exact h
  · unfold Net.decided; rw [feed_nodes_ne _ _ _ _ _ hq]; exact h

theorem NodeStep.is_feed {nc : NetCfg} {p : Nat} {s s' : Net} (h : NodeStep nc p s s') :
    ∃ it, s' = s.feed nc p it := by
  cases h <;> exact ⟨_, rfl⟩

/-- a move of a correct node is a step of the one-height network -/
theorem NodeStep.toNetStep {nc : NetCfg} {p : Nat} {s s' : Net} (h : NodeStep nc p s s')
    (hp : nc.correct p) : NetStep nc s s' := by
  cases h with
  | deliver k peer hk => exact NetStep.deliver s p k peer hp hk
  | block b => exact NetStep.block s p b hp
  | claim r t peer bid => exact NetStep.claim s p r t peer bid hp
  | fire r st hs => exact NetStep.fire s p r st hp hs
  | txs => exact NetStep.txs s p hp
  | own k => exact NetStep.own s p k hp

/-- a network in which only faulty validators (of the set `f`) and non-verifying messages have spoken -/
inductive ByzOnly (f : Nat → Bool) : Net → Prop
  | init : ByzOnly f Net.init
  | app {s : Net} {m : Msg} : ByzOnly f s → (f m.sender = true ∨ m.ok = false) → ByzOnly f (s.append m)

theorem ByzOnly.reachable {f : Nat → Bool} {s : Net} (hs : ByzOnly f s) (nc : NetCfg)
    (hf : nc.faulty = f) : Reachable nc s := by
  induction hs with
  | init => exact Reachable.init
  | app _ hm ih => exact Reachable.step ih (NetStep.byz _ _ (by rw [hf]; exact hm))

theorem ByzOnly.nodes {f : Nat → Bool} {s : Net} (hs : ByzOnly f s) :
    s.nodes = fun _ => NodeState.init := by
  induction hs with
  | init => rfl
  | app _ _ ih => exact ih

theorem nodes_ne_init_of_decided {s : Net} {p : Nat} (h : s.decided p ≠ none) :
    s.nodes p ≠ NodeState.init := by
  intro hn
  apply h
  unfold Net.decided
  rw [hn]
  rfl

/-! ### monotonicity along the steps of the world -/

/-- decisions persist from `W` to `W'` -/
def Mono (W W' : World) : Prop := ∀ p h b, W.decided p h = some b → W'.decided p h = some b

theorem Mono.entered {W W' : World} (m : Mono W W') {p h : Nat} (e : W.entered p h) :
    W'.entered p h := by
  intro h' hlt hn
  cases hd : W.decided p h' with
  | none => exact e h' hlt hd
  | some b => rw [m p h' b hd] at hn; cases hn

theorem st_congr (C : ChainCfg σ) (W W' : World) (p : Nat) :
    ∀ h, (∀ h', h' < h → W.decided p h' = W'.decided p h') → W.st C p h = W'.st C p h
  | 0, _ => rfl
  | h + 1, hh => by
    have ih := st_congr C W W' p h (fun h' hl => hh h' (by omega))
    simp only [World.st]
    rw [← hh h (by omega), ih]

theorem Mono.st_eq {W W' : World} (m : Mono W W') (C : ChainCfg σ) {p h : Nat} (e : W.entered p h) :
    W'.st C p h = W.st C p h := by
  symm
  apply st_congr
  intro h' hl
  cases hd : W.decided p h' with
  | none => exact absurd hd (e h' hl)
  | some b => exact (m p h' b hd).symm

theorem entered_le {W : World} {p h k : Nat} (e : W.entered p h) (hk : k ≤ h) : W.entered p k :=
  fun h' hl => e h' (by omega)

theorem good_le {C : ChainCfg σ} {W : World} {p h k : Nat} (g : W.good C p h) (hk : k ≤ h) :
    W.good C p k :=
  fun h' hl => g h' (by omega)

theorem Mono.good_iff {W W' : World} (m : Mono W W') (C : ChainCfg σ) {p h : Nat}
    (e : W.entered p h) : W'.good C p h ↔ W.good C p h := by
  constructor
  · intro g h' hl
    have := g h' hl
    rw [m.st_eq C (entered_le e hl)] at this
    exact this
  · intro g h' hl
    rw [m.st_eq C (entered_le e hl)]
    exact g h' hl

theorem Mono.bounded {W W' : World} (m : Mono W W') {C : ChainCfg σ} (hb : Bounded C W') :
    Bounded C W := by
  intro h p g e
  have := hb h p ((m.good_iff C e).2 g) (m.entered e)
  rw [m.st_eq C e] at this
  exact this

theorem append_decided (s : Net) (m : Msg) (q : Nat) : (s.append m).decided q = s.decided q := rfl

theorem WStep.mono {C : ChainCfg σ} {W W' : World} (hs : WStep C W W') : Mono W W' := by
  cases hs with
  | node h p N' hent hgood hs =>
    intro q k b hd
    obtain ⟨it, rfl⟩ := hs.is_feed
    simp only [World.decided, World.set] at hd ⊢
    by_cases hk : k = h
    · rw [if_pos hk]
      rw [hk] at hd
      exact feed_decided _ _ _ _ _ _ hd
    · rw [if_neg hk]; exact hd
  | byz h m hm =>
    intro q k b hd
    simp only [World.decided, World.set] at hd ⊢
    by_cases hk : k = h
    · rw [if_pos hk]
      rw [hk] at hd
      exact hd
    · rw [if_neg hk]; exact hd

/-! ### equal states from one-height agreement -/

theorem agree_at (ha : Agree1) (C : ChainCfg σ) (W : World) (h p q : Nat)
    (hr : Reachable (C.netAt (W.st C p h) h) (W.nets h)) (hb : C.bound (W.st C p h) h)
    (hst : W.st C p h = W.st C q h) (hp : W.good C p h) (hq : W.good C q h) (b b' : Nat)
    (h1 : W.decided p h = some b) (h2 : W.decided q h = some b') : b = b' := by
  have cp := hp h (Nat.le_refl _)
  have cq := hq h (Nat.le_refl _)
  rw [← hst] at cq
  exact ha (C.netAt (W.st C p h) h) hb _ hr p q cp cq b b' h1 h2

/-- if the networks of all heights below `H` are reachable (and the faulty power is bounded there),
correct nodes hold the same state at every height up to `H` -/
theorem sync_upto (ha : Agree1) (C : ChainCfg σ) (W : World) (H : Nat)
    (hJ : ∀ h, h < H → ∀ p, W.good C p h → W.entered p h →
      Reachable (C.netAt (W.st C p h) h) (W.nets h))
    (hb : ∀ h, h < H → ∀ p, W.good C p h → W.entered p h → C.bound (W.st C p h) h) :
    ∀ h, h ≤ H → ∀ p q, W.good C p h → W.good C q h → W.entered p h → W.entered q h →
      W.st C p h = W.st C q h := by
  intro h
  induction h with
  | zero => intros; rfl
  | succ h ih =>
    intro hH p q gp gq ep eq
    have gp' := good_le gp (Nat.le_succ h)
    have gq' := good_le gq (Nat.le_succ h)
    have ep' := entered_le ep (Nat.le_succ h)
    have eq' := entered_le eq (Nat.le_succ h)
    have hst := ih (by omega) p q gp' gq' ep' eq'
    cases h1 : W.decided p h with
    | none => exact absurd h1 (ep h (by omega))
    | some b =>
      cases h2 : W.decided q h with
      | none => exact absurd h2 (eq h (by omega))
      | some b' =>
        have hbb : b = b' :=
          agree_at ha C W h p q (hJ h (by omega) p gp' ep') (hb h (by omega) p gp' ep') hst gp' gq'
            b b' h1 h2
        simp only [World.st, h1, h2, hst, hbb]

/-! ### the invariant -/

structure J (C : ChainCfg σ) (W : World) : Prop where
  j1 : ∀ h p, W.good C p h → W.entered p h → Reachable (C.netAt (W.st C p h) h) (W.nets h)
  j2 : ∀ h, (¬ ∃ p, W.good C p h ∧ W.entered p h) → ByzOnly (C.faulty h) (W.nets h)
  j3 : ∀ h p, (W.nets h).nodes p ≠ NodeState.init → W.good C p h ∧ W.entered p h

theorem J.sync (ha : Agree1) {C : ChainCfg σ} {W : World} (j : J C W) (hb : Bounded C W)
    (h p q : Nat) (hp : W.good C p h) (hq : W.good C q h) (ep : W.entered p h) (eq : W.entered q h) :
    W.st C p h = W.st C q h :=
  sync_upto ha C W h (fun k _ => j.j1 k) (fun k _ => hb k) h (Nat.le_refl _) p q hp hq ep eq

theorem J.init (C : ChainCfg σ) : J C World.init where
  j1 := fun _ _ _ _ => Reachable.init
  j2 := fun _ _ => ByzOnly.init
  j3 := fun _ _ hn => absurd rfl hn

theorem J.node_step (ha : Agree1) {C : ChainCfg σ} {W : World} (j : J C W) (h p : Nat) (N' : Net)
    (hent : W.entered p h) (hgood : W.good C p h)
    (hs : NodeStep (C.netAt (W.st C p h) h) p (W.nets h) N')
    (hb' : Bounded C (W.set h N')) : J C (W.set h N') := by
  have m : Mono W (W.set h N') := (WStep.node W h p N' hent hgood hs).mono
  have hb : Bounded C W := m.bounded hb'
  have hnodes : ∀ q k, ¬ (q = p ∧ k = h) → ((W.set h N').nets k).nodes q = (W.nets k).nodes q := by
    intro q k hne
    simp only [World.set]
    by_cases hk : k = h
    · rw [if_pos hk, hk]
      obtain ⟨it, rfl⟩ := hs.is_feed
      exact feed_nodes_ne _ _ _ _ _ (fun hq => hne ⟨hq, hk⟩)
    · rw [if_neg hk]
  have hdec : ∀ q k, ¬ (q = p ∧ k = h) → (W.set h N').decided q k = W.decided q k := by
    intro q k hne
    simp only [World.decided, Net.decided]
    rw [hnodes q k hne]
  -- J1 for the nodes that had entered already
  have j1a : ∀ k q, W.entered q k → (W.set h N').good C q k →
      Reachable (C.netAt ((W.set h N').st C q k) k) ((W.set h N').nets k) := by
    intro k q e g'
    have g := (m.good_iff C e).1 g'
    rw [m.st_eq C e]
    have r := j.j1 k q g e
    by_cases hk : k = h
    · rw [hk] at r g e ⊢
      have hst : W.st C q h = W.st C p h := j.sync ha hb h q p g hgood e hent
      rw [hst] at r ⊢
      simp only [World.set]
      exact Reachable.step r (hs.toNetStep (hgood h (Nat.le_refl _)))
    · simp only [World.set, if_neg hk]; exact r
  -- the only new entry is `p` entering `h + 1`
  have hnew : ∀ k q, (W.set h N').entered q k → ¬ W.entered q k → q = p ∧ k = h + 1 := by
    intro k q e' ne
    have hex : ∃ h', h' < k ∧ W.decided q h' = none :=
      Classical.byContradiction fun hn => ne (fun h' hl hd => hn ⟨h', hl, hd⟩)
    obtain ⟨h', hl, hd⟩ := hex
    have hqp : q = p ∧ h' = h := Classical.byContradiction fun hn => by
      have := e' h' hl
      rw [hdec q h' hn] at this
      exact this hd
    obtain ⟨hq, hh⟩ := hqp
    rw [hq] at e' hd ⊢
    rw [hh] at hl hd
    refine ⟨rfl, ?_⟩
    apply Classical.byContradiction
    intro hk
    have h3 := e' (h + 1) (by omega)
    rw [hdec p (h + 1) (fun hn => by omega)] at h3
    have := (j.j3 (h + 1) p (nodes_ne_init_of_decided h3)).2
    exact this h (by omega) hd
  have hold : ∀ k q, k ≤ h → (W.set h N').entered q k → W.entered q k := by
    intro k q hk e'
    apply Classical.byContradiction
    intro ne
    have := (hnew k q e' ne).2
    omega
  refine ⟨?_, ?_, ?_⟩
  · intro k q g' e'
    by_cases e : W.entered q k
    · exact j1a k q e g'
    · obtain ⟨hq, hk⟩ := hnew k q e' e
      rw [hq, hk] at g' e' ⊢
      have hn : (W.set h N').nets (h + 1) = W.nets (h + 1) := by
        simp only [World.set]; rw [if_neg (by omega)]
      rw [hn]
      by_cases ex : ∃ q', W.good C q' (h + 1) ∧ W.entered q' (h + 1)
      · obtain ⟨q', gq, eq⟩ := ex
        have hsy := sync_upto ha C (W.set h N') (h + 1)
          (fun k hk q g e => j1a k q (hold k q (by omega) e) g)
          (fun k _ => hb' k) (h + 1) (Nat.le_refl _) p q' g' ((m.good_iff C eq).2 gq) e'
          (m.entered eq)
        rw [hsy, m.st_eq C eq]
        exact j.j1 (h + 1) q' gq eq
      · exact (j.j2 (h + 1) ex).reachable _ rfl
  · intro k hno
    have hno' : ¬ ∃ q, W.good C q k ∧ W.entered q k := by
      intro ⟨q, g, e⟩
      exact hno ⟨q, (m.good_iff C e).2 g, m.entered e⟩
    have hk : k ≠ h := by
      intro hk
      rw [hk] at hno'
      exact hno' ⟨p, hgood, hent⟩
    simp only [World.set]; rw [if_neg hk]
    exact j.j2 k hno'
  · intro k q hn
    by_cases hqk : q = p ∧ k = h
    · rw [hqk.1, hqk.2]
      exact ⟨(m.good_iff C hent).2 hgood, m.entered hent⟩
    · rw [hnodes q k hqk] at hn
      obtain ⟨g, e⟩ := j.j3 k q hn
      exact ⟨(m.good_iff C e).2 g, m.entered e⟩

theorem J.byz_step {C : ChainCfg σ} {W : World} (j : J C W) (h : Nat) (m : Msg)
    (hm : C.faulty h m.sender = true ∨ m.ok = false) : J C (W.set h ((W.nets h).append m)) := by
  have hnodes : ∀ k, ((W.set h ((W.nets h).append m)).nets k).nodes = (W.nets k).nodes := by
    intro k
    simp only [World.set]
    by_cases hk : k = h
    · rw [if_pos hk, hk]; rfl
    · rw [if_neg hk]
  have hdec : ∀ q k, (W.set h ((W.nets h).append m)).decided q k = W.decided q k := by
    intro q k
    simp only [World.decided, Net.decided]
    rw [hnodes k]
  have m1 : Mono W (W.set h ((W.nets h).append m)) := fun q k b hd => by rw [hdec]; exact hd
  have m2 : Mono (W.set h ((W.nets h).append m)) W := fun q k b hd => by rw [← hdec]; exact hd
  refine ⟨?_, ?_, ?_⟩
  · intro k q g' e'
    have e := m2.entered e'
    have g := (m1.good_iff C e).1 g'
    rw [m1.st_eq C e]
    have r := j.j1 k q g e
    by_cases hk : k = h
    · rw [hk] at r ⊢
      simp only [World.set]
      exact Reachable.step r (NetStep.byz _ m hm)
    · simp only [World.set, if_neg hk]; exact r
  · intro k hno
    have hno' : ¬ ∃ q, W.good C q k ∧ W.entered q k := by
      intro ⟨q, g, e⟩
      exact hno ⟨q, (m1.good_iff C e).2 g, m1.entered e⟩
    have b := j.j2 k hno'
    by_cases hk : k = h
    · rw [hk] at b ⊢
      simp only [World.set]
      exact ByzOnly.app b hm
    · simp only [World.set, if_neg hk]; exact b
  · intro k q hn
    rw [hnodes k] at hn
    obtain ⟨g, e⟩ := j.j3 k q hn
    exact ⟨(m1.good_iff C e).2 g, m1.entered e⟩

theorem J.of_reachable (ha : Agree1) (C : ChainCfg σ) (W : World) (hr : WReachable C W) :
    Bounded C W → J C W := by
  induction hr with
  | init => exact fun _ => J.init C
  | step _ hs ih =>
    intro hb'
    have j := ih (hs.mono.bounded hb')
    cases hs with
    | node h p N' hent hgood hs => exact j.node_step ha h p N' hent hgood hs hb'
    | byz h m hm => exact j.byz_step h m hm

/-! ### the theorems -/

/-- correct nodes that have entered a height hold the same state there -/
theorem same_state (ha : Agree1) (C : ChainCfg σ) (W : World) (hr : WReachable C W) (hb : Bounded C W)
    (h p q : Nat) (hp : W.good C p h) (hq : W.good C q h) (ep : W.entered p h) (eq : W.entered q h) :
    W.st C p h = W.st C q h :=
  (J.of_reachable ha C W hr hb).sync ha hb h p q hp hq ep eq

/-- each height's network is a reachable state of the one-height model under the common configuration -/
theorem height_reachable (ha : Agree1) (C : ChainCfg σ) (W : World) (hr : WReachable C W) (hb : Bounded C W)
    (h p : Nat) (hp : W.good C p h) (ep : W.entered p h) : Reachable (C.netAt (W.st C p h) h) (W.nets h) :=
  (J.of_reachable ha C W hr hb).j1 h p hp ep

/-- **agreement at every height** -/
theorem agreement_all_heights (ha : Agree1) (C : ChainCfg σ) (W : World) (hr : WReachable C W) (hb : Bounded C W)
    (h p q : Nat) (hp : W.good C p h) (hq : W.good C q h) (b b' : Nat)
    (h1 : W.decided p h = some b) (h2 : W.decided q h = some b') : b = b' := by
  have j := J.of_reachable ha C W hr hb
  have ep : W.entered p h :=
    (j.j3 h p (nodes_ne_init_of_decided (s := W.nets h) (by
      intro hn; unfold World.decided at h1; rw [hn] at h1; cases h1))).2
  have eq : W.entered q h :=
    (j.j3 h q (nodes_ne_init_of_decided (s := W.nets h) (by
      intro hn; unfold World.decided at h2; rw [hn] at h2; cases h2))).2
  exact agree_at ha C W h p q (j.j1 h p hp ep) (hb h p hp ep) (j.sync ha hb h p q hp hq ep eq) hp hq
    b b' h1 h2

end Tmv.Chain
