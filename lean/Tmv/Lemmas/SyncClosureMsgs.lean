import Tmv.Lemmas.SyncClosure
import Tmv.Lemmas.StepQuiet
/-! The fixpoint argument of the gossip closure for PROPOSALS and BLOCK PARTS (C03): when the
closure loop ends because a pass changed nothing, every node that can take the round's proposal has
a proposal, and every node that is waiting for the parts of a block that is in the log has them. -/
namespace Tmv.Sync
open Tmv.Cons

/-- node-wise later stage, now with the relational invariant `Quiet` of Lemmas/StepQuiet.lean -/
def Later3 (c : SCfg) (n n' : Net) : Prop :=
  Later2 c n n' ∧
  ∀ (i : Nat) (nd nd' : Node), n.nodes[i]? = some nd → n'.nodes[i]? = some nd' →
    NHI nd.s → (Quiet nd.s nd'.s ∧ NHI nd'.s)

theorem Later3.refl (c : SCfg) (n : Net) : Later3 c n n := by
  refine ⟨Later2.refl c n, ?_⟩
  intro i nd nd' h h' hn
  rw [h] at h'; cases h'
  exact ⟨Quiet.refl _, hn⟩

theorem Later3.trans {c : SCfg} {a b d : Net} (h₁ : Later3 c a b) (h₂ : Later3 c b d) : Later3 c a d := by
  refine ⟨h₁.1.trans h₂.1, ?_⟩
  intro i nd nd' h h' hn
  obtain ⟨ndb, hb⟩ := getElem?_some_of_length_eq h₁.1.2.1 h
  obtain ⟨q1, n1⟩ := h₁.2 i nd ndb h hb hn
  obtain ⟨q2, n2⟩ := h₂.2 i ndb nd' hb h' n1
  exact ⟨q1.trans q2, n2⟩

def Pres3 (c : SCfg) (f : Net → Net) : Prop := ∀ n, Later3 c n (f n)

theorem Pres3.foldl {c : SCfg} {α} (l : List α) (f : Net → α → Net) (h : ∀ a, Pres3 c (fun n => f n a)) :
    Pres3 c (fun n => l.foldl f n) := by
  induction l with
  | nil => intro n; exact Later3.refl c n
  | cons a l ih => intro n; simp only [List.foldl]; exact (h a n).trans (ih (f n a))

theorem input_pres3 (c : SCfg) (i : Nat) (inp : Input) : Pres3 c (fun n => n.input c i inp) := by
  intro n
  show Later3 c n (n.input c i inp)
  refine ⟨input_pres2 c i inp n, ?_⟩
  intro j nd nd' h h' hn
  cases hi : n.nodes[i]? with
  | none =>
    have : n.input c i inp = n := by unfold Net.input; rw [hi]
    rw [this, h] at h'; cases h'; exact ⟨Quiet.refl _, hn⟩
  | some ndi =>
    by_cases hij : i = j
    · subst hij
      rw [hi] at h; cases h
      obtain ⟨nd2, h2, _, hs⟩ := input_node c n i inp nd hi
      rw [h2] at h'; cases h'
      rw [hs]; exact step_Quiet _ _ _ hn
    · have : (n.input c i inp).nodes[j]? = n.nodes[j]? := by
        unfold Net.input
        rw [hi]
        dsimp only
        simp [setNode, List.getElem?_set_ne hij]
      rw [this, h] at h'; cases h'; exact ⟨Quiet.refl _, hn⟩

theorem deliver_pres3 (c : SCfg) (i k : Nat) : Pres3 c (fun n => n.deliver c i k) := by
  intro n
  show Later3 c n (n.deliver c i k)
  unfold Net.deliver
  split
  · split
    · exact Later3.refl c n
    · exact input_pres3 c i _ n
  · exact Later3.refl c n

theorem claim_pres3 (c : SCfg) (i j : Nat) : Pres3 c (fun n => n.claim c i j) := by
  intro n
  show Later3 c n (n.claim c i j)
  unfold Net.claim
  split
  · exact Later3.refl c n
  · split
    · exact Later3.refl c n
    · rename_i p _ _
      exact Pres3.foldl (claimsOf p.s)
        (fun net (x : Nat × VType × Bid) => net.input c i (.peerMaj23 x.1 x.2.1 (1 + p.idx) x.2.2))
        (fun x => input_pres3 c i _) n

theorem passNode_pres3 (c : SCfg) (i : Nat) : Pres3 c (fun n => n.passNode c i) := by
  intro n
  show Later3 c n (n.passNode c i)
  unfold Net.passNode
  have h1 := Pres3.foldl (List.range n.nodes.length) (fun net j => net.claim c i j) (fun j => claim_pres3 c i j) n
  exact h1.trans (Pres3.foldl _ (fun net k => net.deliver c i k) (fun k => deliver_pres3 c i k) _)

theorem pass_pres3 (c : SCfg) : Pres3 c (fun n => n.pass c) := by
  intro n
  show Later3 c n (n.pass c)
  unfold Net.pass
  exact Pres3.foldl _ (fun net i => net.passNode c i) (fun i => passNode_pres3 c i) n

theorem foldl_through3 {c : SCfg} {α} (f : Net → α → Net) (hf : ∀ a, Pres3 c (fun n => f n a))
    (l : List α) (a : α) (ha : a ∈ l) (b : Net) :
    ∃ b1, Later3 c b b1 ∧ Later3 c (f b1 a) (l.foldl f b) := by
  induction l generalizing b with
  | nil => cases ha
  | cons x l ih =>
    simp only [List.foldl]
    rcases List.mem_cons.1 ha with h | h
    · subst h
      exact ⟨b, Later3.refl c b, Pres3.foldl l f hf (f b a)⟩
    · obtain ⟨b1, h1, h2⟩ := ih h (f b x)
      exact ⟨b1, (hf x b).trans h1, h2⟩

/-- **a gossip pass that changes nothing, seen from one node and one log entry**: there is a net `n2`
inside the pass (a later stage of the start) at which log entry `k` is handed to node `i`, the result
being an earlier stage of the end; the log is the same all along. -/
theorem pass_through (c : SCfg) (n0 : Net) (hsig : (n0.pass c).sig = n0.sig) (i k : Nat)
    (hilt : i < n0.nodes.length) (hklt : k < n0.log.length) :
    ∃ n2, Later3 c n0 n2 ∧ Later3 c (n2.deliver c i k) (n0.pass c) ∧ n2.log = n0.log ∧
      (n0.pass c).log = n0.log := by
  have hL' : Later3 c n0 (n0.pass c) := pass_pres3 c n0
  have hlen : (n0.pass c).log.length = n0.log.length := congrArg NetSig.logLen hsig
  have hlogmid : ∀ m : Net, Later3 c n0 m → Later3 c m (n0.pass c) → m.log = n0.log := by
    intro m h1 h2
    obtain ⟨e1, he1⟩ := h1.1.1
    obtain ⟨e2, he2⟩ := h2.1.1
    have : ((n0.log ++ e1) ++ e2).length = n0.log.length := by rw [← he1, ← he2]; exact hlen
    rw [List.append_assoc] at this
    have := list_append_length_eq this
    have he1' : e1 = [] := (List.append_eq_nil_iff.1 this).1
    rw [he1, he1', List.append_nil]
  have hpass : n0.pass c = (List.range n0.nodes.length).foldl (fun net i => net.passNode c i) n0 := rfl
  obtain ⟨b1, hb1, hb1'⟩ := foldl_through3 (c := c) (fun net i => net.passNode c i) (fun i => passNode_pres3 c i)
    (List.range n0.nodes.length) i (List.mem_range.2 hilt) n0
  rw [← hpass] at hb1'
  let bc : Net := (List.range b1.nodes.length).foldl (fun net j => net.claim c i j) b1
  have hbc : Later3 c b1 bc :=
    Pres3.foldl (List.range b1.nodes.length) (fun net j => net.claim c i j) (fun j => claim_pres3 c i j) b1
  have hpn : b1.passNode c i = (List.range bc.log.length).foldl (fun net k => net.deliver c i k) bc := rfl
  have hbcEnd : Later3 c bc (n0.pass c) := by
    refine Later3.trans ?_ hb1'
    rw [hpn]
    exact Pres3.foldl _ (fun net k => net.deliver c i k) (fun k => deliver_pres3 c i k) bc
  have hbclog : bc.log = n0.log := hlogmid bc (hb1.trans hbc) hbcEnd
  obtain ⟨b2, hb2, hb2'⟩ := foldl_through3 (c := c) (fun net k => net.deliver c i k) (fun k => deliver_pres3 c i k)
    (List.range bc.log.length) k (List.mem_range.2 (by rw [hbclog]; exact hklt)) bc
  rw [← hpn] at hb2'
  have h02 : Later3 c n0 b2 := (hb1.trans hbc).trans hb2
  have h3End : Later3 c (b2.deliver c i k) (n0.pass c) := hb2'.trans hb1'
  have h2End : Later3 c b2 (n0.pass c) := (deliver_pres3 c i k b2).trans h3End
  exact ⟨b2, h02, h3End, hlogmid b2 h02 h2End, hlogmid _ hL' (Later3.refl c _)⟩

/-- what the signature equality of a pass says about one node -/
theorem nodeSig_eq_of_sig (c : SCfg) (n0 : Net) (hsig : (n0.pass c).sig = n0.sig) (i : Nat) (nd0 nd : Node)
    (h0 : n0.nodes[i]? = some nd0) (h1 : (n0.pass c).nodes[i]? = some nd) : nodeSig nd = nodeSig nd0 := by
  have hnodes : (n0.pass c).nodes.map nodeSig = n0.nodes.map nodeSig := congrArg NetSig.nodes hsig
  have a : ((n0.pass c).nodes.map nodeSig)[i]? = some (nodeSig nd) := by rw [List.getElem?_map, h1]; rfl
  have b : (n0.nodes.map nodeSig)[i]? = some (nodeSig nd0) := by rw [List.getElem?_map, h0]; rfl
  rw [hnodes, b] at a
  exact (Option.some.inj a).symm

/-- the three loud quantities are constant between two stages that agree on them at the ends -/
theorem quiet_sandwich {a b d : NodeState} (h₁ : Quiet a b) (h₂ : Quiet b d)
    (hr : d.round = a.round) (hs : d.step.rank = a.step.rank) (ho : d.out.length = a.out.length) :
    (b.round = a.round ∧ b.step.rank = a.step.rank ∧ b.out.length = a.out.length) ∧
    (d.round = b.round ∧ d.step.rank = b.step.rank ∧ d.out.length = b.out.length) := by
  have r1 := h₁.round; have r2 := h₂.round
  have hrb : b.round = a.round := by omega
  have hrd : d.round = b.round := by omega
  have s1 := (h₁.sameRound hrb).2.1
  have s2 := (h₂.sameRound hrd).2.1
  have o1 := h₁.out; have o2 := h₂.out
  exact ⟨⟨hrb, by omega, by omega⟩, ⟨hrd, by omega, by omega⟩⟩

/-- **at a pass that changes nothing every node that can take the round's proposal has one** -/
theorem pass_delivers_proposal (c : SCfg) (n0 : Net) (hsig : (n0.pass c).sig = n0.sig)
    (hnh : AllNodes (fun _ s => NHI s) n0)
    (i k : Nat) (nd : Node) (p : Proposal)
    (hi : (n0.pass c).nodes[i]? = some nd) (hk : (n0.pass c).log[k]? = some (.proposal p))
    (hlive : nd.s.halted = false ∧ nd.s.decided = none)
    (hround : p.round = nd.s.round)
    (hpol : ¬ (p.pol < -1 ∨ (p.pol ≥ 0 ∧ p.pol ≥ (p.round : Int))))
    (hsigner : p.signer = (nodeCfg c.cfg nd.idx).proposer nd.s.valRound ∧ p.signer < c.cfg.n)
    (hnot : p.signer ≠ nd.idx) :
    nd.s.proposal.isSome = true := by
  have hL' : Later3 c n0 (n0.pass c) := pass_pres3 c n0
  have hilt : i < n0.nodes.length := by
    rcases Nat.lt_or_ge i (n0.pass c).nodes.length with h | h
    · rw [← hL'.1.2.1]; exact h
    · rw [List.getElem?_eq_none h] at hi; cases hi
  have hlen : (n0.pass c).log.length = n0.log.length := congrArg NetSig.logLen hsig
  have hklt : k < n0.log.length := by
    rcases Nat.lt_or_ge k (n0.pass c).log.length with h | h
    · omega
    · rw [List.getElem?_eq_none h] at hk; cases hk
  obtain ⟨n2, h02, h3E, hlog2, hlogE⟩ := pass_through c n0 hsig i k hilt hklt
  obtain ⟨nd0, hnd0⟩ : ∃ y, n0.nodes[i]? = some y := ⟨n0.nodes[i], List.getElem?_eq_getElem hilt⟩
  obtain ⟨nd2, hnd2⟩ := getElem?_some_of_length_eq h02.1.2.1 hnd0
  have hnh0 : NHI nd0.s := hnh nd0 (List.mem_of_getElem? hnd0)
  obtain ⟨q02, hnh2⟩ := h02.2 i nd0 nd2 hnd0 hnd2 hnh0
  have h2E : Later3 c n2 (n0.pass c) := (deliver_pres3 c i k n2).trans h3E
  obtain ⟨q2E, _⟩ := h2E.2 i nd2 nd hnd2 hi hnh2
  have hl2E : NodeLater c nd2 nd := h2E.1.2.2 i nd2 nd hnd2 hi
  have hidx2 : nd2.idx = nd.idx := hl2E.idx.symm
  -- rounds agree at the ends of the pass, hence all along
  have hsigi := nodeSig_eq_of_sig c n0 hsig i nd0 nd hnd0 hi
  have hr0 : nd.s.round = nd0.s.round := congrArg NodeSig.round hsigi
  have hr2 : nd2.s.round = nd.s.round := by
    have := q02.round; have := q2E.round; omega
  have hsame2E := q2E.sameRound hr2.symm
  -- if node i already has a proposal at the delivery it keeps it
  cases hp2 : nd2.s.proposal with
  | some p2 => rw [hsame2E.2.2 p2 hp2]; rfl
  | none =>
    -- otherwise the delivery is accepted
    have hk2 : n2.log[k]? = some (.proposal p) := by rw [hlog2, ← hlogE]; exact hk
    have hdel : n2.deliver c i k = n2.input c i (.proposal p) := by
      unfold Net.deliver
      rw [hnd2, hk2]
      have : (Msg.proposal p).own nd2.idx = false := by
        simp [Msg.own, Msg.signer, hidx2, hnot]
      simp [this, Msg.toInput]
    obtain ⟨nd3, hnd3, _, hs3⟩ := input_node c n2 i (.proposal p) nd2 hnd2
    rw [← hdel] at hnd3
    obtain ⟨q3E, _⟩ := h3E.2 i nd3 nd hnd3 hi (by
      rw [hs3]; exact (step_Quiet _ _ _ hnh2).2)
    have hlive2 : ¬ (nd2.s.halted = true ∨ nd2.s.decided.isSome = true) := by
      intro h
      rcases h with h | h
      · have := hl2E.halted h; rw [hlive.1] at this; cases this
      · have := hl2E.decided h; rw [hlive.2] at this; cases this
    -- the state right after `setProposal`
    let cfg := nodeCfg c.cfg nd2.idx
    have hset : (setProposal cfg nd2.s p).proposal = some p := by
      have c1 : nd2.s.proposal.isSome = false := by rw [hp2]; rfl
      have c2 : ¬ (p.round ≠ nd2.s.round) := by rw [hr2, hround]; exact fun h => h rfl
      have c4 : ¬ (p.signer ≠ cfg.proposer nd2.s.valRound ∨ p.signer ≥ cfg.n) := by
        have hv : nd2.s.valRound = nd.s.valRound := hsame2E.1.symm
        show ¬ (p.signer ≠ (nodeCfg c.cfg nd2.idx).proposer nd2.s.valRound ∨ p.signer ≥ c.cfg.n)
        rw [hidx2, hv]
        intro h; rcases h with h | h
        · exact h hsigner.1
        · have := hsigner.2; omega
      unfold setProposal
      dsimp only
      rw [if_neg (by rw [c1]; simp), if_neg c2, if_neg hpol, if_neg c4]
      split <;> rfl
    have hstep : nd3.s = drain cfg drainFuel (setProposal cfg nd2.s p) := by
      rw [hs3]
      unfold Cons.step
      simp only [hlive2, if_false]
      rfl
    have hnhs : NHI (setProposal cfg nd2.s p) := by
      have : (setProposal cfg nd2.s p).step = nd2.s.step ∧ (setProposal cfg nd2.s p).round = nd2.s.round := by
        unfold setProposal; dsimp only; repeat' split
        all_goals exact ⟨rfl, rfl⟩
      intro h; rw [this.1] at h; rw [this.2]; exact hnh2 h
    obtain ⟨qd, _⟩ := drain_Quiet cfg drainFuel (setProposal cfg nd2.s p) hnhs
    rw [← hstep] at qd
    have hrs : (setProposal cfg nd2.s p).round = nd2.s.round := by
      unfold setProposal; dsimp only; repeat' split
      all_goals rfl
    have hr3 : nd3.s.round = (setProposal cfg nd2.s p).round := by
      have := qd.round; have := q3E.round; omega
    have hp3 : nd3.s.proposal = some p := (qd.sameRound hr3).2.2 p hset
    have hr3E : nd.s.round = nd3.s.round := by rw [hr3, hrs, hr2]
    rw [(q3E.sameRound hr3E).2.2 p hp3]; rfl

/-- **at a pass that changes nothing every node that waits for the parts of a block that is in the log
has them** -/
theorem pass_delivers_block (c : SCfg) (n0 : Net) (hsig : (n0.pass c).sig = n0.sig)
    (hnh : AllNodes (fun _ s => NHI s) n0)
    (i k : Nat) (nd : Node) (b : Nat)
    (hi : (n0.pass c).nodes[i]? = some nd) (hk : (n0.pass c).log[k]? = some (.block b))
    (hlive : nd.s.halted = false ∧ nd.s.decided = none)
    (hparts : nd.s.proposalParts = some b) :
    nd.s.partsDone = true := by
  cases hdone : nd.s.partsDone with
  | true => rfl
  | false =>
    exfalso
    have hL' : Later3 c n0 (n0.pass c) := pass_pres3 c n0
    have hilt : i < n0.nodes.length := by
      rcases Nat.lt_or_ge i (n0.pass c).nodes.length with h | h
      · rw [← hL'.1.2.1]; exact h
      · rw [List.getElem?_eq_none h] at hi; cases hi
    have hlen : (n0.pass c).log.length = n0.log.length := congrArg NetSig.logLen hsig
    have hklt : k < n0.log.length := by
      rcases Nat.lt_or_ge k (n0.pass c).log.length with h | h
      · omega
      · rw [List.getElem?_eq_none h] at hk; cases hk
    obtain ⟨n2, h02, h3E, hlog2, hlogE⟩ := pass_through c n0 hsig i k hilt hklt
    obtain ⟨nd0, hnd0⟩ : ∃ y, n0.nodes[i]? = some y := ⟨n0.nodes[i], List.getElem?_eq_getElem hilt⟩
    obtain ⟨nd2, hnd2⟩ := getElem?_some_of_length_eq h02.1.2.1 hnd0
    have hnh0 : NHI nd0.s := hnh nd0 (List.mem_of_getElem? hnd0)
    obtain ⟨q02, hnh2⟩ := h02.2 i nd0 nd2 hnd0 hnd2 hnh0
    have h2E : Later3 c n2 (n0.pass c) := (deliver_pres3 c i k n2).trans h3E
    obtain ⟨q2E, _⟩ := h2E.2 i nd2 nd hnd2 hi hnh2
    have hl2E : NodeLater c nd2 nd := h2E.1.2.2 i nd2 nd hnd2 hi
    -- the node's signature is the same at both ends of the pass
    have hsigi := nodeSig_eq_of_sig c n0 hsig i nd0 nd hnd0 hi
    have e_round : nd.s.round = nd0.s.round := congrArg NodeSig.round hsigi
    have e_step : nd.s.step.rank = nd0.s.step.rank := congrArg NodeSig.step hsigi
    have e_out : nd.s.out.length = nd0.s.out.length := congrArg NodeSig.outLen hsigi
    have e_parts : nd.s.proposalParts = nd0.s.proposalParts := congrArg NodeSig.proposalParts hsigi
    have e_done : nd.s.partsDone = nd0.s.partsDone := congrArg NodeSig.partsDone hsigi
    obtain ⟨⟨a1, a2, a3⟩, ⟨b1, b2, b3⟩⟩ := quiet_sandwich q02 q2E e_round e_step e_out
    -- a header that is the round's polka cannot turn into `b` quietly any more
    have polka_blocks : ∀ (s : NodeState) (x : Nat), Quiet s nd.s → nd.s.round = s.round →
        nd.s.step.rank = s.step.rank → nd.s.out.length = s.out.length →
        x ≠ b → maj23Of (s.votes.prevotes (s.round : Int)) = some (some x) → s.proposalParts = some x → False := by
      intro s x q hr hs ho hx hm hp
      rcases q.quiet hr hs ho x hp with ⟨h1, _⟩ | ⟨y, hy, hmy, _⟩
      · rw [hparts] at h1; exact hx (Option.some.inj h1).symm
      · have := q.maj (s.round : Int) .prevote (some x) hm
        rw [hr] at hmy
        have e : maj23Of (nd.s.votes.prevotes (s.round : Int)) = some (some x) := this
        rw [e] at hmy
        exact hy (Option.some.inj (Option.some.inj hmy)).symm
    -- at the delivery the node waits for `b`
    have hp0 : nd0.s.proposalParts = some b := by rw [← e_parts]; exact hparts
    have hparts2 : nd2.s.proposalParts = some b := by
      rcases q02.quiet a1 a2 a3 b hp0 with ⟨h1, _⟩ | ⟨x, hx, hm, hp⟩
      · exact h1
      · exact (polka_blocks nd2.s x q2E b1 b2 b3 hx hm hp).elim
    have hdone2 : nd2.s.partsDone = false := by
      cases h : nd2.s.partsDone with
      | false => rfl
      | true =>
        exfalso
        rcases q2E.quiet b1 b2 b3 b hparts2 with ⟨_, h2⟩ | ⟨x, hx, _, hp⟩
        · have := h2 h; rw [hdone] at this; cases this
        · rw [hparts] at hp; exact hx (Option.some.inj hp).symm
    -- the delivery
    have hk2 : n2.log[k]? = some (.block b) := by rw [hlog2, ← hlogE]; exact hk
    have hdel : n2.deliver c i k = n2.input c i (.blockComplete b) := by
      unfold Net.deliver
      rw [hnd2, hk2]
      simp [Msg.own, Msg.signer, Msg.toInput]
    obtain ⟨nd3, hnd3, _, hs3⟩ := input_node c n2 i (.blockComplete b) nd2 hnd2
    rw [← hdel] at hnd3
    obtain ⟨q3E, _⟩ := h3E.2 i nd3 nd hnd3 hi (by rw [hs3]; exact (step_Quiet _ _ _ hnh2).2)
    have hlive2 : ¬ (nd2.s.halted = true ∨ nd2.s.decided.isSome = true) := by
      intro h
      rcases h with h | h
      · have := hl2E.halted h; rw [hlive.1] at this; cases this
      · have := hl2E.decided h; rw [hlive.2] at this; cases this
    let cfg := nodeCfg c.cfg nd2.idx
    let sa : NodeState := { nd2.s with partsDone := true, proposalBlock := some b }
    have hstep : nd3.s = drain cfg drainFuel (handleCompleteProposal cfg sa) := by
      rw [hs3]
      unfold Cons.step
      simp only [hlive2, if_false]
      show drain cfg drainFuel (addBlockPart cfg nd2.s b) = _
      unfold addBlockPart
      simp [hparts2, hdone2, sa]
    have hnha : NHI sa := hnh2
    obtain ⟨qh, hnhh⟩ := handleCompleteProposal_Quiet cfg sa hnha
    obtain ⟨qd, _⟩ := drain_Quiet cfg drainFuel (handleCompleteProposal cfg sa) hnhh
    have qa3 : Quiet sa nd3.s := by rw [hstep]; exact qh.trans qd
    -- `sa` agrees with `nd2.s` on the loud quantities, hence with the end
    have ea : nd.s.round = sa.round ∧ nd.s.step.rank = sa.step.rank ∧ nd.s.out.length = sa.out.length :=
      ⟨b1, b2, b3⟩
    obtain ⟨⟨c1, c2, c3⟩, ⟨d1, d2, d3⟩⟩ := quiet_sandwich qa3 q3E ea.1 ea.2.1 ea.2.2
    have hsa : sa.proposalParts = some b := hparts2
    rcases qa3.quiet c1 c2 c3 b hsa with ⟨h1, h2⟩ | ⟨x, hx, hm, hp⟩
    · rcases q3E.quiet d1 d2 d3 b h1 with ⟨_, h4⟩ | ⟨x, hx, _, hp⟩
      · have := h4 (h2 rfl); rw [hdone] at this; cases this
      · rw [hparts] at hp; exact hx (Option.some.inj hp).symm
    · exact polka_blocks nd3.s x q3E d1 d2 d3 hx hm hp

/-! ### the closure -/

theorem nhi_step (c : SCfg) : ∀ idx s inp, NHI s → NHI (Cons.step (nodeCfg c.cfg idx) s inp) :=
  fun _ s inp h => (step_Quiet _ s inp h).2

/-- all nodes of a reachable net satisfy `NHI` -/
theorem run_NHI (c : SCfg) (correct : List Nat) (ops : List Op) :
    AllNodes (fun _ s => NHI s) ((Net.init correct).run c ops) := by
  apply run_keeps c (P := fun _ s => NHI s) (nhi_step c)
  intro nd hm
  unfold Net.init at hm
  simp only [List.mem_map] at hm
  obtain ⟨i, _, e⟩ := hm
  subst e
  exact NHI.init

/-- **after a converged closure every live node has a proposal for its round if the round's proposal
(by the proposer the node expects, with an admissible POL round, not its own) is in the log** -/
theorem closure_delivers_proposal (c : SCfg) (net : Net) (hconv : net.closureConverged c)
    (hnh : AllNodes (fun _ s => NHI s) net)
    (i k : Nat) (nd : Node) (p : Proposal)
    (hi : (net.closure c).nodes[i]? = some nd) (hk : (net.closure c).log[k]? = some (.proposal p))
    (hlive : nd.s.halted = false ∧ nd.s.decided = none)
    (hround : p.round = nd.s.round)
    (hpol : ¬ (p.pol < -1 ∨ (p.pol ≥ 0 ∧ p.pol ≥ (p.round : Int))))
    (hsigner : p.signer = (nodeCfg c.cfg nd.idx).proposer nd.s.valRound ∧ p.signer < c.cfg.n)
    (hnot : p.signer ≠ nd.idx) :
    nd.s.proposal.isSome = true := by
  obtain ⟨j, hc, hsig⟩ := hconv
  rw [hc] at hi hk
  exact pass_delivers_proposal c (passIter c j net) hsig (passIter_keeps c (nhi_step c) j net hnh)
    i k nd p hi hk hlive hround hpol hsigner hnot

/-- **after a converged closure every live node that waits for the parts of a block that is in the log
has them** -/
theorem closure_delivers_block (c : SCfg) (net : Net) (hconv : net.closureConverged c)
    (hnh : AllNodes (fun _ s => NHI s) net)
    (i k : Nat) (nd : Node) (b : Nat)
    (hi : (net.closure c).nodes[i]? = some nd) (hk : (net.closure c).log[k]? = some (.block b))
    (hlive : nd.s.halted = false ∧ nd.s.decided = none)
    (hparts : nd.s.proposalParts = some b) :
    nd.s.partsDone = true := by
  obtain ⟨j, hc, hsig⟩ := hconv
  rw [hc] at hi hk
  exact pass_delivers_block c (passIter c j net) hsig (passIter_keeps c (nhi_step c) j net hnh)
    i k nd b hi hk hlive hparts


end Tmv.Sync
