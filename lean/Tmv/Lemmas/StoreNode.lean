import Tmv.Model.StoreNode
import Tmv.Lemmas.BlockStoreOps
import Tmv.Lemmas.StateStoreInv
/-! The two stores together: single-write granularity over both databases, the combined invariant
`NInv`, and its preservation by every write prefix of every phase of a `finalizeCommit` step. -/
namespace Tmv.StoreNode
open Tmv

/-- one write to one of the two databases -/
inductive W where
  | b (w : BlockStore.Write)
  | s (w : StateStore.Write)

abbrev D := BlockStore.DB × StateStore.DB

def applyW (d : D) : W → D
  | .b w => (BlockStore.apply d.1 w, d.2)
  | .s w => (d.1, StateStore.apply d.2 w)

def applyWs (d : D) (ws : List W) : D := ws.foldl applyW d

def flatU : U → List W
  | .b ws => ws.map W.b
  | .s ws => ws.map W.s

/-- the crash units as the sequence of their individual writes -/
def flat (us : List U) : List W := (us.map flatU).flatten

theorem applyWs_nil (d : D) : applyWs d [] = d := rfl
theorem applyWs_append (d : D) (a b : List W) : applyWs d (a ++ b) = applyWs (applyWs d a) b := by
  simp [applyWs, List.foldl_append]

theorem applyWs_map_b (ws : List BlockStore.Write) (d : D) :
    applyWs d (ws.map W.b) = (BlockStore.applyAll d.1 ws, d.2) := by
  induction ws generalizing d with
  | nil => rfl
  | cons w ws ih =>
    simp only [List.map_cons, applyWs, List.foldl_cons] at ih ⊢
    rw [ih]; rfl

theorem applyWs_map_s (ws : List StateStore.Write) (d : D) :
    applyWs d (ws.map W.s) = (d.1, StateStore.applyAll d.2 ws) := by
  induction ws generalizing d with
  | nil => rfl
  | cons w ws ih =>
    simp only [List.map_cons, applyWs, List.foldl_cons] at ih ⊢
    rw [ih]; rfl

theorem flat_nil : flat [] = [] := rfl
theorem flat_append (a b : List U) : flat (a ++ b) = flat a ++ flat b := by
  simp [flat]

theorem flat_map_b (bus : List (List BlockStore.Write)) : flat (bus.map U.b) = bus.flatten.map W.b := by
  induction bus with
  | nil => rfl
  | cons u us ih =>
    simp only [flat, List.map_cons, List.flatten_cons, flatU, List.map_append] at ih ⊢
    rw [ih]

theorem flat_map_s (sus : List (List StateStore.Write)) : flat (sus.map U.s) = sus.flatten.map W.s := by
  induction sus with
  | nil => rfl
  | cons u us ih =>
    simp only [flat, List.map_cons, List.flatten_cons, flatU, List.map_append] at ih ⊢
    rw [ih]

theorem applyUs_eq (us : List U) (d : D) : applyUs d us = applyWs d (flat us) := by
  induction us generalizing d with
  | nil => rfl
  | cons u us ih =>
    have : flat (u :: us) = flatU u ++ flat us := by simp [flat]
    rw [this, applyWs_append, ← ih]
    simp only [applyUs, List.foldl_cons]
    congr 1
    cases u with
    | b ws => simp only [applyU, flatU, applyWs_map_b]
    | s ws => simp only [applyU, flatU, applyWs_map_s]

/-- lowest height whose state-store records the block store's range needs -/
def lowOf (bdb : BlockStore.DB) (st : StateStore.St) : Int :=
  if (BlockStore.loadRange bdb).2 = 0 then st.initialHeight else (BlockStore.loadRange bdb).1

/-- how far the persisted state may be from the block store's tip: equal, or exactly one block
behind (the block is stored, `ApplyBlock` has not persisted the new state yet — the window the
handshake repairs by re-applying the stored block) -/
def Rrel (bdb : BlockStore.DB) (st : StateStore.St) : Prop :=
  ((BlockStore.loadRange bdb).2 = 0 ∧ st.lastBlockHeight = 0) ∨
  (0 < (BlockStore.loadRange bdb).2 ∧
    (st.lastBlockHeight = (BlockStore.loadRange bdb).2 ∨
     (BlockStore.loadRange bdb).2 = StateStore.saveNext st))

/-- when the state is level with the block store, its `LastBlockID` is the stored tip's id
(what lets `validateBlock` vouch for the `LastCommit` that `SaveBlock` will store) -/
def Link (bdb : BlockStore.DB) (st : StateStore.St) : Prop :=
  ∀ m, 0 < (BlockStore.loadRange bdb).2 → st.lastBlockHeight = (BlockStore.loadRange bdb).2 →
    BlockStore.loadMeta bdb (BlockStore.loadRange bdb).2 = some m → m.hash = st.lastBlockHash

/-- **the combined on-disk invariant** -/
def NInv (d : D) : Prop :=
  ∃ st, StateStore.SInv d.2 st (lowOf d.1 st) ∧ BlockStore.Good d.1 ∧ Rrel d.1 st ∧ Link d.1 st

def AllPrefixN (d : D) (ws : List W) : Prop := ∀ k, NInv (applyWs d (ws.take k))

theorem allPrefixN_nil (d : D) (h : NInv d) : AllPrefixN d [] := by
  intro k; simpa [applyWs_nil] using h

theorem allPrefixN_append (d : D) (a b : List W)
    (ha : AllPrefixN d a) (hb : AllPrefixN (applyWs d a) b) : AllPrefixN d (a ++ b) := by
  intro k
  rw [List.take_append]
  by_cases hk : k ≤ a.length
  · have : k - a.length = 0 := by omega
    rw [this]; simpa using ha k
  · have : a.take k = a := List.take_of_length_le (by omega)
    rw [this, applyWs_append]
    exact hb _

/-- a segment of block-store writes -/
theorem allPrefixN_block (d : D) (st : StateStore.St) (lo0 : Int) (ws : List BlockStore.Write)
    (hS : StateStore.SInv d.2 st lo0)
    (hpre : ∀ k, BlockStore.Good (BlockStore.applyAll d.1 (ws.take k)) ∧
      Rrel (BlockStore.applyAll d.1 (ws.take k)) st ∧
      lo0 ≤ lowOf (BlockStore.applyAll d.1 (ws.take k)) st ∧
      Link (BlockStore.applyAll d.1 (ws.take k)) st) :
    AllPrefixN d (ws.map W.b) := by
  intro k
  rw [← List.map_take, applyWs_map_b]
  obtain ⟨h1, h2, h3, h4⟩ := hpre k
  exact ⟨st, hS.mono h3, h1, h2, h4⟩

/-- a segment of state-store writes -/
theorem allPrefixN_state (d : D) (ws : List StateStore.Write) (hG : BlockStore.Good d.1)
    (hpre : ∀ k, ∃ st, StateStore.SInv (StateStore.applyAll d.2 (ws.take k)) st (lowOf d.1 st) ∧ Rrel d.1 st ∧
      Link d.1 st) :
    AllPrefixN d (ws.map W.s) := by
  intro k
  rw [← List.map_take, applyWs_map_s]
  obtain ⟨st, h1, h2, h3⟩ := hpre k
  exact ⟨st, h1, hG, h2, h3⟩

theorem nextHeight_eq (st : StateStore.St) : nextHeight st = StateStore.saveNext st := rfl

/-- what consensus guarantees about a committed block and neither store nor `validateBlock` check:
the seen commit (the node's own +2/3 precommits) is for this block, the block has at least one part,
and its hash is not the hash of a stored block (collision-freedom).  The block's `LastCommit` is
NOT assumed honest: `finalizeCommit` validates the block before saving it. -/
structure Honest (d : D) (i : StepIn) : Prop where
  sc : i.badsc = false
  parts : 0 < i.parts
  fresh : ∀ h m, (BlockStore.loadRange d.1).1 ≤ h → h ≤ (BlockStore.loadRange d.1).2 →
    BlockStore.loadMeta d.1 h = some m → m.hash ≠ i.id

/-- on disk after phase 1: the block of the height the state waits for is stored -/
structure Window (d1 : D) (st : StateStore.St) : Prop where
  sinv : StateStore.SInv d1.2 st (BlockStore.loadRange d1.1).1
  good : BlockStore.Good d1.1
  tip : (BlockStore.loadRange d1.1).2 = StateStore.saveNext st
  basePos : 0 < (BlockStore.loadRange d1.1).1
  baseLe : (BlockStore.loadRange d1.1).1 ≤ (BlockStore.loadRange d1.1).2

theorem saveBlock_ok_complete (s s' : BlockStore.Store) (b : BlockStore.Block) (c : Bool)
    (sc : BlockStore.Commit) (us : List (List BlockStore.Write))
    (h : BlockStore.saveBlock s b c sc = .ok (s', us)) : c = true := by
  cases c with
  | true => rfl
  | false =>
    unfold BlockStore.saveBlock at h
    split at h
    · cases h
    · simp at h

theorem saveNext_gt (st : StateStore.St) (h1 : 0 ≤ st.lastBlockHeight) (h2 : 1 ≤ st.initialHeight) :
    st.lastBlockHeight < StateStore.saveNext st := by
  unfold StateStore.saveNext; split <;> omega

theorem phase1_spec (d : D) (fb : StateStore.St) (i : StepIn) (st : StateStore.St)
    (hS : StateStore.SInv d.2 st (lowOf d.1 st)) (hG : BlockStore.Good d.1) (hR : Rrel d.1 st)
    (hLk : Link d.1 st)
    (hon : Honest d i) (b : BlockStore.Block) (bs1 : BlockStore.Store) (us1 : List U) (saved : String)
    (hph : phase1 (reopen d fb) i = .ok (some b, bs1, us1, saved)) :
    AllPrefixN d (flat us1) ∧ Window (applyWs d (flat us1)) st ∧ (applyWs d (flat us1)).2 = d.2 ∧
    bs1 = BlockStore.openStore (applyWs d (flat us1)).1 ∧
    (∀ m, BlockStore.loadMeta (applyWs d (flat us1)).1 (StateStore.saveNext st) = some m → m.hash = b.hash) := by
  have hst : (reopen d fb).st = st := by simp [reopen, hS.state]
  have hN := StateStore.saveNext_pos st hS.lNonneg hS.ihPos
  have hLN := saveNext_gt st hS.lNonneg hS.ihPos
  have hninv : NInv d := ⟨st, hS, hG, hR, hLk⟩
  unfold phase1 at hph
  simp only [hst, nextHeight_eq] at hph
  have hbs : (reopen d fb).bs = BlockStore.openStore d.1 := rfl
  have hbdb : (reopen d fb).bdb = d.1 := rfl
  rw [hbs, hbdb] at hph
  rw [BlockStore.good_iff] at hG
  split at hph
  · -- validate, then SaveBlock
    rename_i hlt
    simp only [BlockStore.openStore] at hlt
    split at hph
    · cases hph
    · rename_i hlcok
      have hlc : lastCommitOK st (StateStore.saveNext st) (proposal (reopen d fb) i).1 = true := by
        simpa using hlcok
      split at hph
      · cases hph
      · cases hph
      · rename_i bs' us hsb
        injection hph with hph
        injection hph with e1 hph
        injection hph with e2 hph
        injection hph with e3 e4
        subst e2; subst e3
        have hbeq : b = (proposal (reopen d fb) i).1 := (Option.some.inj e1).symm
        have hcomp := saveBlock_ok_complete _ _ _ _ _ _ hsb
        rw [hcomp] at hsb
        -- the proposal is a valid next block
        have hprop : (proposal (reopen d fb) i).1.height = StateStore.saveNext st ∧
            (proposal (reopen d fb) i).1.hash = i.id ∧ (proposal (reopen d fb) i).1.total = i.parts ∧
            (proposal (reopen d fb) i).2 = { height := StateStore.saveNext st, blockHash := i.id } := by
          simp [proposal, hst, nextHeight_eq, hon.sc]
        obtain ⟨ph, phash, ptot, psc⟩ := hprop
        have hvalid : BlockStore.ValidNext d.1 (proposal (reopen d fb) i).1 (proposal (reopen d fb) i).2 := by
          refine { pos := by rw [ph]; omega, parts := by rw [ptot]; exact hon.parts,
                   seen := by rw [psc, ph, phash], last := ?_, fresh := ?_ }
          · intro m hpos hm
            rcases hR with ⟨h0, _⟩ | ⟨_, hL | hW⟩
            · omega
            · -- validateBlock: the LastCommit is for the state's last block = the stored tip
              have hNe : StateStore.saveNext st = (BlockStore.loadRange d.1).2 + 1 := by
                unfold StateStore.saveNext; rw [hL]; split <;> omega
              have hnih : ¬ StateStore.saveNext st = st.initialHeight := by
                rcases hS.lRange with e | e <;> omega
              unfold lastCommitOK at hlc
              simp only [hnih, if_false, decide_eq_true_eq] at hlc
              rw [hlc, hNe, hLk m hpos hL hm]
              congr 1; omega
            · omega
          · intro h m h1 h2 hm
            rw [phash]; exact hon.fresh h m h1 h2 hm
        obtain ⟨hpre, _, hfinR, hbs'⟩ := BlockStore.save_crash_core d.1 _ _ bs' us
          ((BlockStore.good_iff _).2 hG) hvalid hsb
        rw [ph] at hfinR
        rw [flat_map_b, applyWs_map_b]
        -- the new base and how it compares with the lowest height the state store is asked for
        have hlow : lowOf d.1 st ≤ (if (BlockStore.loadRange d.1).1 = 0 then StateStore.saveNext st
              else (BlockStore.loadRange d.1).1) ∧
            0 < (if (BlockStore.loadRange d.1).1 = 0 then StateStore.saveNext st else (BlockStore.loadRange d.1).1) ∧
            (if (BlockStore.loadRange d.1).1 = 0 then StateStore.saveNext st else (BlockStore.loadRange d.1).1)
              ≤ StateStore.saveNext st := by
          unfold lowOf
          rcases hG with ⟨hB0, hH0⟩ | ⟨hB, hBH, _⟩
          · rcases hR with ⟨_, hL⟩ | ⟨hp, _⟩
            · have : StateStore.saveNext st = st.initialHeight := by
                unfold StateStore.saveNext; rw [hL]; simp
              simp only [hB0, hH0, if_true]; omega
            · omega
          · have h1 : ¬ (BlockStore.loadRange d.1).1 = 0 := by omega
            have h2 : ¬ (BlockStore.loadRange d.1).2 = 0 := by omega
            simp only [h1, h2, if_false]; omega
        obtain ⟨hlow1, hlow2, hlow3⟩ := hlow
        have hlowFin : lowOf (BlockStore.applyAll d.1 us.flatten) st =
            (if (BlockStore.loadRange d.1).1 = 0 then StateStore.saveNext st else (BlockStore.loadRange d.1).1) := by
          unfold lowOf; rw [hfinR]
          have : ¬ StateStore.saveNext st = 0 := by omega
          simp only [this, if_false]
        have hRfin : Rrel (BlockStore.applyAll d.1 us.flatten) st := by
          unfold Rrel; rw [hfinR]; exact Or.inr ⟨by simp only; omega, Or.inr rfl⟩
        have hLkfin : Link (BlockStore.applyAll d.1 us.flatten) st := by
          intro m _ hL _
          rw [hfinR] at hL; simp only at hL; omega
        refine ⟨?_, ?_, rfl, hbs', ?_⟩
        · apply allPrefixN_block d st (lowOf d.1 st) us.flatten hS
          intro k
          refine ⟨hpre k, ?_⟩
          rcases BlockStore.save_prefix_range d.1 _ _ _ _ _ hsb k with e | e
          · refine ⟨?_, ?_, ?_⟩
            · unfold Rrel; rw [e]; exact hR
            · unfold lowOf; rw [e]; exact Int.le_refl _
            · intro m hp hL hm
              rw [e] at hp hL hm
              rw [BlockStore.save_prefix_meta d.1 _ _ _ _ _ hsb k _ (by rw [ph]; omega)] at hm
              exact hLk m hp hL hm
          · rw [e]; exact ⟨hRfin, by rw [hlowFin]; exact hlow1, hLkfin⟩
        · refine { sinv := ?_, good := BlockStore.allPrefixGood_last _ _ hpre, tip := by rw [hfinR],
                   basePos := by rw [hfinR]; exact hlow2, baseLe := by rw [hfinR]; exact hlow3 }
          have : (BlockStore.loadRange (BlockStore.applyAll d.1 us.flatten)).1 =
              (if (BlockStore.loadRange d.1).1 = 0 then StateStore.saveNext st else (BlockStore.loadRange d.1).1) := by
            rw [hfinR]
          simp only [this]
          exact hS.mono hlow1
        · intro m hm
          have := BlockStore.save_final_meta d.1 _ _ _ _ _ hsb
          rw [ph] at this
          simp only at hm
          rw [this] at hm
          rw [hbeq, ← (Option.some.inj hm)]
  · -- the height is already stored: the stored block is applied
    rename_i hnlt
    simp only [BlockStore.openStore] at hnlt
    injection hph with hph
    injection hph with e1 hph
    injection hph with e2 hph
    injection hph with e3 e4
    subst e2; subst e3
    rw [flat_nil, applyWs_nil]
    have hwin : (BlockStore.loadRange d.1).2 = StateStore.saveNext st := by
      rcases hR with ⟨h0, _⟩ | ⟨hp, hL | hW⟩
      · omega
      · have : StateStore.saveNext st = (BlockStore.loadRange d.1).2 + 1 := by
          unfold StateStore.saveNext; rw [hL]; split <;> omega
        omega
      · exact hW
    rcases hG with ⟨_, h0⟩ | ⟨hB, hBH, hGF⟩
    · omega
    · refine ⟨allPrefixN_nil d hninv, ?_, rfl, rfl, ?_⟩
      · refine { sinv := ?_, good := (BlockStore.good_iff _).2 (Or.inr ⟨hB, hBH, hGF⟩), tip := hwin,
                 basePos := hB, baseLe := hBH }
        have : lowOf d.1 st = (BlockStore.loadRange d.1).1 := by
          unfold lowOf
          have : ¬ (BlockStore.loadRange d.1).2 = 0 := by omega
          simp only [this, if_false]
        rw [← this]; exact hS
      · intro m hm
        obtain ⟨m', blk, c, ok⟩ := (BlockStore.checkAt_none_iff d.1 _ _).1
          (hGF (StateStore.saveNext st) (by omega) (by omega))
        have hm' : m' = m := by have := ok.hmeta; rw [hm] at this; exact (Option.some.inj this).symm
        have hb' : blk = b := by have := ok.block; rw [e1] at this; exact (Option.some.inj this).symm
        rw [← hm', ← hb']; exact ok.blockHash.symm

theorem Window.lowOf_eq {d1 : D} {st : StateStore.St} (hw : Window d1 st) (st' : StateStore.St) :
    lowOf d1.1 st' = (BlockStore.loadRange d1.1).1 := by
  unfold lowOf
  have := hw.basePos; have := hw.baseLe
  have h : ¬ (BlockStore.loadRange d1.1).2 = 0 := by omega
  simp only [h, if_false]

/-- in the window the state is strictly behind the tip: the link says nothing -/
theorem Window.link {d1 : D} {st : StateStore.St} (hw : Window d1 st) : Link d1.1 st := by
  intro m _ hL _
  have := saveNext_gt st hw.sinv.lNonneg hw.sinv.ihPos
  rw [hw.tip] at hL; omega

theorem Window.ninv {d1 : D} {st : StateStore.St} (hw : Window d1 st) : NInv d1 :=
  ⟨st, by rw [hw.lowOf_eq]; exact hw.sinv, hw.good,
    Or.inr ⟨by have := hw.basePos; have := hw.baseLe; omega, Or.inr hw.tip⟩, hw.link⟩

theorem applyBlock_spec (d1 : D) (st : StateStore.St) (hw : Window d1 st) (b : BlockStore.Block)
    (hb : ∀ m, BlockStore.loadMeta d1.1 (StateStore.saveNext st) = some m → m.hash = b.hash) :
    AllPrefixN d1 (flat (applyBlock d1.2 st (StateStore.saveNext st) b).units) ∧
    ((applyBlock d1.2 st (StateStore.saveNext st) b).verdict = "ok" →
      StateStore.SInv (applyWs d1 (flat (applyBlock d1.2 st (StateStore.saveNext st) b).units)).2
        (applyBlock d1.2 st (StateStore.saveNext st) b).st (BlockStore.loadRange d1.1).1 ∧
      (applyBlock d1.2 st (StateStore.saveNext st) b).st.lastBlockHeight = StateStore.saveNext st ∧
      (applyWs d1 (flat (applyBlock d1.2 st (StateStore.saveNext st) b).units)).1 = d1.1 ∧
      (applyBlock d1.2 st (StateStore.saveNext st) b).st.lastBlockHash = b.hash) := by
  have hpos : 0 < (BlockStore.loadRange d1.1).2 := by have := hw.basePos; have := hw.baseLe; omega
  unfold applyBlock
  simp only
  split
  · exact ⟨by rw [flat_nil]; exact allPrefixN_nil d1 hw.ninv, fun h => by simp at h⟩
  · split
    · exact ⟨by rw [flat_nil]; exact allPrefixN_nil d1 hw.ninv, fun h => by simp at h⟩
    · -- SaveABCIResponses, then Save of the updated state
      have hA : ∀ j, StateStore.SInv
          (StateStore.applyAll d1.2 ((StateStore.saveAbci (StateStore.saveNext st)).flatten.take j)) st
          (BlockStore.loadRange d1.1).1 := fun j => hw.sinv.abci_prefix _ j
      have hA' : StateStore.SInv (StateStore.applyAll d1.2 (StateStore.saveAbci (StateStore.saveNext st)).flatten)
          st (BlockStore.loadRange d1.1).1 := by
        have := hA (StateStore.saveAbci (StateStore.saveNext st)).flatten.length
        rwa [List.take_length] at this
      have hlo : (BlockStore.loadRange d1.1).1 ≤ StateStore.saveNext st := by
        have := hw.baseLe; rw [hw.tip] at this; exact this
      have hsv := fun j => hA'.save_step hlo b.hash b.vu b.pu j
      have hok := (hsv 0).1
      simp only [hok, Bool.not_true, Bool.false_eq_true, if_false]
      rw [flat_append, flat_map_s, flat_map_s]
      have hR1 : Rrel d1.1 st := Or.inr ⟨hpos, Or.inr hw.tip⟩
      have hR2 : Rrel d1.1 (StateStore.updateState st (StateStore.saveNext st) b.hash b.vu b.pu) :=
        Or.inr ⟨hpos, Or.inl hw.tip.symm⟩
      have hK2 : Link d1.1 (StateStore.updateState st (StateStore.saveNext st) b.hash b.vu b.pu) := by
        intro m _ _ hm
        rw [hw.tip] at hm
        exact hb m hm
      have seg1 : AllPrefixN d1 ((StateStore.saveAbci (StateStore.saveNext st)).flatten.map W.s) :=
        allPrefixN_state d1 _ hw.good (fun k => ⟨st, by rw [hw.lowOf_eq]; exact hA k, hR1, hw.link⟩)
      have seg2 : AllPrefixN (applyWs d1 ((StateStore.saveAbci (StateStore.saveNext st)).flatten.map W.s))
          ((StateStore.save (StateStore.updateState st (StateStore.saveNext st) b.hash b.vu b.pu)).1.flatten.map W.s) := by
        rw [applyWs_map_s]
        apply allPrefixN_state (d1.1, StateStore.applyAll d1.2 (StateStore.saveAbci (StateStore.saveNext st)).flatten)
          _ hw.good
        intro k
        rcases (hsv k).2.1 with e | e
        · exact ⟨st, by rw [hw.lowOf_eq]; exact e, hR1, hw.link⟩
        · exact ⟨_, by rw [hw.lowOf_eq]; exact e, hR2, hK2⟩
      refine ⟨allPrefixN_append _ _ _ seg1 seg2, fun _ => ?_⟩
      rw [applyWs_append, applyWs_map_s, applyWs_map_s]
      exact ⟨(hsv 0).2.2, rfl, rfl, rfl⟩

/-- on disk when block store and state are level: state saved for the tip -/
structure Level (d : D) (st : StateStore.St) : Prop where
  sinv : StateStore.SInv d.2 st (BlockStore.loadRange d.1).1
  good : BlockStore.Good d.1
  basePos : 0 < (BlockStore.loadRange d.1).1
  baseLe : (BlockStore.loadRange d.1).1 ≤ (BlockStore.loadRange d.1).2
  tip : st.lastBlockHeight = (BlockStore.loadRange d.1).2
  link : Link d.1 st

theorem Level.ninv {d : D} {st : StateStore.St} (h : Level d st) : NInv d := by
  have h1 := h.basePos; have h2 := h.baseLe
  refine ⟨st, ?_, h.good, Or.inr ⟨by omega, Or.inl h.tip⟩, h.link⟩
  have : lowOf d.1 st = (BlockStore.loadRange d.1).1 := by
    unfold lowOf
    have : ¬ (BlockStore.loadRange d.1).2 = 0 := by omega
    simp only [this, if_false]
  rw [this]; exact h.sinv

theorem pruneGlue_spec (d3 : D) (st : StateStore.St) (hl : Level d3 st) (retain : Int) :
    AllPrefixN d3 (flat (pruneGlue d3.1 d3.2 (BlockStore.openStore d3.1) retain).units) := by
  have hB := hl.basePos
  have hBH := hl.baseLe
  unfold pruneGlue
  simp only
  split
  · rw [flat_nil]; exact allPrefixN_nil d3 hl.ninv
  · split
    · rw [flat_nil]; exact allPrefixN_nil d3 hl.ninv
    · rename_i bs' cnt bus hp
      obtain ⟨B, H, hr, hBpos, hBr, hrH, hGF, _, _, hu⟩ := BlockStore.prune_setup d3.1 retain bs' cnt bus hl.good hp
      have hBeq : (BlockStore.loadRange d3.1).1 = B := by rw [hr]
      have hHeq : (BlockStore.loadRange d3.1).2 = H := by rw [hr]
      have hspec := BlockStore.pruneLoop_spec H retain (retain - B).toNat B d3.1 [] 0 B (by omega) hrH hr hBpos
        (Int.le_refl _) hGF (fun w hw => by cases hw) (fun w hw => by cases hw)
      have hshape := BlockStore.pruneLoop_pshape H retain (retain - B).toNat B d3.1 [] 0 (by omega)
        (fun w hw => by cases hw)
      rw [← hu] at hspec hshape
      obtain ⟨s1, s2, _, _⟩ := hspec
      have hsn : StateStore.saveNext st = H + 1 := by
        unfold StateStore.saveNext
        have := hl.tip; rw [hHeq] at this; rw [this]
        split <;> omega
      rw [flat_append, flat_map_b, flat_map_s]
      apply allPrefixN_append
      · apply allPrefixN_block d3 st B bus.flatten (by rw [← hBeq]; exact hl.sinv)
        intro k
        obtain ⟨b', hb1, hb2, hb3⟩ := BlockStore.pshape_prefix_range H B retain B hBpos (Int.le_refl _)
          (bus.flatten.take k) d3.1 (fun w hw => hshape w (List.mem_of_mem_take hw))
          ⟨B, hr, Int.le_refl _, hBr⟩
        refine ⟨s1 k, ?_, ?_, ?_⟩
        · unfold Rrel; rw [hb1]
          exact Or.inr ⟨by simp only; omega, Or.inl (by rw [hl.tip, hHeq])⟩
        · unfold lowOf; rw [hb1]
          have : ¬ H = 0 := by omega
          simp only [this, if_false]; exact hb2
        · intro m hp hL hm
          rw [hb1] at hm; simp only at hm
          rw [BlockStore.pshape_prefix_meta H B retain _ d3.1
            (fun w hw => hshape w (List.mem_of_mem_take hw)) H hrH] at hm
          exact hl.link m (by rw [hHeq]; omega) hl.tip (by rw [hHeq]; exact hm)
      · rw [applyWs_map_b]
        apply allPrefixN_state (BlockStore.applyAll d3.1 bus.flatten, d3.2) _ (BlockStore.allPrefixGood_last _ _ s1)
        intro k
        have hlow : lowOf (BlockStore.applyAll d3.1 bus.flatten) st = retain := by
          unfold lowOf; rw [s2]
          have : ¬ H = 0 := by omega
          simp only [this, if_false]
        refine ⟨st, ?_, ?_, ?_⟩
        · rw [hlow]
          have hbase : (BlockStore.openStore d3.1).base = B := by simp [BlockStore.openStore, hBeq]
          rw [hbase]
          exact (show StateStore.SInv d3.2 st B by rw [← hBeq]; exact hl.sinv).prune_prefix B retain hBr
            (by omega) k
        · unfold Rrel; rw [s2]
          exact Or.inr ⟨by simp only; omega, Or.inl (by rw [hl.tip, hHeq])⟩
        · intro m hp hL hm
          simp only at hm
          rw [s2] at hm; simp only at hm
          rw [BlockStore.pshape_prefix_meta H B retain _ d3.1 hshape H hrH] at hm
          exact hl.link m (by rw [hHeq]; omega) hl.tip (by rw [hHeq]; exact hm)

/-- **every write prefix of one `finalizeCommit` step, run on the reopened stores, keeps the
combined invariant** -/
theorem step_prefix_inv (d : D) (fb : StateStore.St) (i : StepIn) (hinv : NInv d) (hon : Honest d i) :
    AllPrefixN d (flat (step (reopen d fb) i).units) := by
  obtain ⟨st, hS, hG, hR, hLk⟩ := hinv
  have hst : (reopen d fb).st = st := by simp [reopen, hS.state]
  have hsdb : (reopen d fb).sdb = d.2 := rfl
  have hbdb : (reopen d fb).bdb = d.1 := rfl
  unfold step
  simp only
  split
  · rw [flat_nil]; exact allPrefixN_nil d ⟨st, hS, hG, hR, hLk⟩
  · rw [flat_nil]; exact allPrefixN_nil d ⟨st, hS, hG, hR, hLk⟩
  · rename_i b bs1 us1 saved hph
    obtain ⟨p1, hw, hsame, hbs1, hbm⟩ := phase1_spec d fb i st hS hG hR hLk hon b bs1 us1 saved hph
    rw [hst, hsdb, hbdb, nextHeight_eq]
    have hd : ((d.1, d.2) : D) = d := rfl
    rw [hd, applyUs_eq us1 d]
    obtain ⟨d1, hd1⟩ : ∃ d1, d1 = applyWs d (flat us1) := ⟨_, rfl⟩
    rw [← hd1] at hw hsame hbs1 hbm ⊢
    rw [← hsame]
    obtain ⟨p2, hpost⟩ := applyBlock_spec d1 st hw b hbm
    obtain ⟨a, ha⟩ : ∃ a, a = applyBlock d1.2 st (StateStore.saveNext st) b := ⟨_, rfl⟩
    rw [← ha] at p2 hpost ⊢
    split
    · simp only [flat_append]
      exact allPrefixN_append _ _ _ p1 (hd1 ▸ p2)
    · rename_i hv
      have hv' : a.verdict = "ok" := by simpa using hv
      obtain ⟨q1, q2, q3, q4⟩ := hpost hv'
      split
      · simp only [flat_append]
        apply allPrefixN_append _ _ _ (allPrefixN_append _ _ _ p1 (hd1 ▸ p2))
        rw [applyWs_append, ← hd1, applyUs_eq a.units d1]
        obtain ⟨d3, hd3⟩ : ∃ d3, d3 = applyWs d1 (flat a.units) := ⟨_, rfl⟩
        rw [← hd3] at q1 q3 ⊢
        have hlev : Level d3 a.st :=
          { sinv := by rw [q3]; exact q1, good := by rw [q3]; exact hw.good,
            basePos := by rw [q3]; exact hw.basePos, baseLe := by rw [q3]; exact hw.baseLe,
            tip := by rw [q3, hw.tip]; exact q2,
            link := by
              intro m _ _ hm
              rw [q3, hw.tip] at hm
              rw [q4]; exact hbm m hm }
        rw [hbs1, ← q3]
        exact pruneGlue_spec d3 a.st hlev b.retain
      · simp only [flat_append]
        exact allPrefixN_append _ _ _ p1 (hd1 ▸ p2)

theorem node_auditFrom_none (bdb : BlockStore.DB) (sdb : StateStore.DB) (H : Int) (fuel : Nat) (h : Int)
    (hall : ∀ a, h ≤ a → a < h + fuel → BlockStore.checkAt bdb H a = none ∧ StateStore.valsLoadable sdb a = true ∧
      StateStore.paramsLoadable sdb a = true) :
    auditFrom bdb sdb H fuel h = none := by
  induction fuel generalizing h with
  | zero => rfl
  | succ fuel ih =>
    unfold auditFrom
    obtain ⟨c1, c2, c3⟩ := hall h (Int.le_refl _) (by omega)
    simp only [c1, c2, c3, Bool.not_true, Bool.false_eq_true, if_false]
    exact ih (h + 1) (fun a ha hb => hall a (by omega) (by omega))


/-! ### the volatile fields after an uncrashed step are what reopening would load -/

theorem applyBlock_not_ok (d1 : D) (st : StateStore.St) (hw : Window d1 st) (b : BlockStore.Block)
    (hv : (applyBlock d1.2 st (StateStore.saveNext st) b).verdict ≠ "ok") :
    (applyBlock d1.2 st (StateStore.saveNext st) b).units = [] ∧
    (applyBlock d1.2 st (StateStore.saveNext st) b).st = st := by
  have hlo : (BlockStore.loadRange d1.1).1 ≤ StateStore.saveNext st := by
    have := hw.baseLe; rw [hw.tip] at this; exact this
  have hA' : StateStore.SInv (StateStore.applyAll d1.2 (StateStore.saveAbci (StateStore.saveNext st)).flatten)
      st (BlockStore.loadRange d1.1).1 := by
    have := hw.sinv.abci_prefix (StateStore.saveNext st) (StateStore.saveAbci (StateStore.saveNext st)).flatten.length
    rwa [List.take_length] at this
  have hok := (hA'.save_step hlo b.hash b.vu b.pu 0).1
  unfold applyBlock at hv ⊢
  simp only at hv ⊢
  split
  · exact ⟨rfl, rfl⟩
  · rename_i h1
    simp only [h1, if_false] at hv
    split
    · exact ⟨rfl, rfl⟩
    · rename_i h2
      simp only [h2, if_false, hok, Bool.not_true, Bool.false_eq_true] at hv
      exact absurd rfl hv

theorem pruneGlue_final (d3 : D) (st : StateStore.St) (hl : Level d3 st) (retain : Int) :
    (pruneGlue d3.1 d3.2 (BlockStore.openStore d3.1) retain).bs =
      BlockStore.openStore (applyWs d3 (flat (pruneGlue d3.1 d3.2 (BlockStore.openStore d3.1) retain).units)).1 ∧
    StateStore.loadState (applyWs d3 (flat (pruneGlue d3.1 d3.2 (BlockStore.openStore d3.1) retain).units)).2
      = some st := by
  have hB := hl.basePos
  have hBH := hl.baseLe
  unfold pruneGlue
  simp only
  split
  · rw [flat_nil, applyWs_nil]; exact ⟨rfl, hl.sinv.state⟩
  · split
    · rw [flat_nil, applyWs_nil]; exact ⟨rfl, hl.sinv.state⟩
    · rename_i bs' cnt bus hp
      obtain ⟨B, H, hr, hBpos, hBr, hrH, hGF, hbs', _, hu⟩ := BlockStore.prune_setup d3.1 retain bs' cnt bus hl.good hp
      have hBeq : (BlockStore.loadRange d3.1).1 = B := by rw [hr]
      have hHeq : (BlockStore.loadRange d3.1).2 = H := by rw [hr]
      have hspec := BlockStore.pruneLoop_spec H retain (retain - B).toNat B d3.1 [] 0 B (by omega) hrH hr hBpos
        (Int.le_refl _) hGF (fun w hw => by cases hw) (fun w hw => by cases hw)
      rw [← hu] at hspec
      obtain ⟨_, s2, _, _⟩ := hspec
      have hsn : StateStore.saveNext st = H + 1 := by
        unfold StateStore.saveNext
        have := hl.tip; rw [hHeq] at this; rw [this]
        split <;> omega
      rw [flat_append, flat_map_b, flat_map_s, applyWs_append, applyWs_map_b, applyWs_map_s]
      constructor
      · simp only [BlockStore.openStore, s2, hbs']
      · have hbase : (BlockStore.openStore d3.1).base = B := by simp [BlockStore.openStore, hBeq]
        rw [hbase]
        have := (show StateStore.SInv d3.2 st B by rw [← hBeq]; exact hl.sinv).prune_prefix B retain hBr
          (by omega) (StateStore.pruneStates d3.2 B retain).1.flatten.length
        rw [List.take_length] at this
        exact this.state

/-- **an uncrashed step leaves exactly the node that reopening the stores would give**: the
volatile `BlockStore{base,height}` and the in-memory `State` are caches of what is on disk, so
"continue without a crash" is the `j ≥ length` case of `Reach2.step`. -/
theorem step_node_eq_reopen (d : D) (fb fb' : StateStore.St) (i : StepIn) (hinv : NInv d) (hon : Honest d i) :
    (step (reopen d fb) i).node = reopen (applyWs d (flat (step (reopen d fb) i).units)) fb' := by
  obtain ⟨st, hS, hG, hR, hLk⟩ := hinv
  have hst : (reopen d fb).st = st := by simp [reopen, hS.state]
  have hsdb : (reopen d fb).sdb = d.2 := rfl
  have hbdb : (reopen d fb).bdb = d.1 := rfl
  have hself : reopen d fb = reopen d fb' := by simp [reopen, hS.state]
  unfold step
  simp only
  split
  · rw [flat_nil, applyWs_nil]; exact hself
  · rw [flat_nil, applyWs_nil]; exact hself
  · rename_i b bs1 us1 saved hph
    obtain ⟨_, hw, hsame, hbs1, hbm⟩ := phase1_spec d fb i st hS hG hR hLk hon b bs1 us1 saved hph
    rw [hst, hsdb, hbdb, nextHeight_eq]
    have hd : ((d.1, d.2) : D) = d := rfl
    rw [hd, applyUs_eq us1 d]
    obtain ⟨d1, hd1⟩ : ∃ d1, d1 = applyWs d (flat us1) := ⟨_, rfl⟩
    rw [← hd1] at hw hsame hbs1 hbm ⊢
    rw [← hsame]
    obtain ⟨_, hpost⟩ := applyBlock_spec d1 st hw b hbm
    have hnot := applyBlock_not_ok d1 st hw b
    obtain ⟨a, ha⟩ : ∃ a, a = applyBlock d1.2 st (StateStore.saveNext st) b := ⟨_, rfl⟩
    rw [← ha] at hpost hnot ⊢
    split
    · rename_i hv
      obtain ⟨e1, e2⟩ := hnot hv
      simp only [e1, e2, List.append_nil, applyUs, List.foldl_nil, ← hd1]
      simp only [reopen, hbs1, hsame, hS.state, Option.getD_some]
    · rename_i hv
      have hv' : a.verdict = "ok" := by simpa using hv
      obtain ⟨q1, q2, q3, q4⟩ := hpost hv'
      split
      · simp only [flat_append]
        rw [applyWs_append, applyWs_append, ← hd1, applyUs_eq a.units d1]
        obtain ⟨d3, hd3⟩ : ∃ d3, d3 = applyWs d1 (flat a.units) := ⟨_, rfl⟩
        rw [← hd3] at q1 q3 ⊢
        have hlev : Level d3 a.st :=
          { sinv := by rw [q3]; exact q1, good := by rw [q3]; exact hw.good,
            basePos := by rw [q3]; exact hw.basePos, baseLe := by rw [q3]; exact hw.baseLe,
            tip := by rw [q3, hw.tip]; exact q2,
            link := by
              intro m _ _ hm
              rw [q3, hw.tip] at hm
              rw [q4]; exact hbm m hm }
        rw [hbs1, ← q3]
        obtain ⟨f1, f2⟩ := pruneGlue_final d3 a.st hlev b.retain
        rw [applyUs_eq]
        simp only [reopen, f1, f2, Option.getD_some]
      · simp only [flat_append]
        rw [applyWs_append, ← hd1, applyUs_eq a.units d1]
        simp only [reopen, hbs1, q3, q1.state, Option.getD_some]

end Tmv.StoreNode
