import Tmv.Lemmas.LightOrder
namespace Tmv.Light

theorem headerExpired_iff (t : LightBlock) (p now : Int) :
    headerExpired t p now = true ↔ t.time + p ≤ now := by
  simp [headerExpired]

theorem verify_expired {cfg : Config} {t u : LightBlock} {now : Int}
    (h : t.time + cfg.period ≤ now) :
    verify cfg t u now = .error .expired := by
  have he : headerExpired t cfg.period now = true := (headerExpired_iff _ _ _).mpr h
  unfold verify
  split
  · rename_i hna
    unfold verifyNonAdjacent
    rw [if_neg hna, if_pos he]
  · rename_i ha
    simp at ha
    unfold verifyAdjacent
    rw [if_neg (by simpa using ha), if_pos he]

theorem seqLoop_expired (now : Int) (new : LightBlock) :
    ∀ (fuel : Nat) (c : Client) (verified : LightBlock) (height : Int) (trace : List LightBlock)
      (c' : Client) (tr : List LightBlock),
      (∀ c1, SameTrust c c1 → verified.time + c1.cfg.period ≤ now) →
      seqLoop now new fuel c verified height trace = (c', .ok tr) →
      tr = trace ∧ ¬ height ≤ new.height := by
  intro fuel
  induction fuel with
  | zero =>
    intro c verified height trace c' tr _ e
    simp only [seqLoop] at e
    obtain ⟨_, h⟩ := Prod.mk.inj e; cases h
  | succ f ih =>
    intro c verified height trace c' tr hexp e
    simp only [seqLoop] at e
    split at e
    · rename_i hgt
      obtain ⟨_, h⟩ := Prod.mk.inj e
      injection h with h
      simp at hgt
      exact ⟨h.symm, by omega⟩
    · generalize hp : (if height = new.height then (c, Except.ok new) else lightBlockFromPrimary c height) = p at e
      obtain ⟨c1, ir⟩ := p
      have hs1 : SameTrust c c1 := by
        split at hp
        · obtain ⟨rfl, _⟩ := Prod.mk.inj hp; exact ⟨rfl, rfl, rfl⟩
        · exact lightBlockFromPrimary_same hp
      simp only at e
      split at e
      · obtain ⟨_, h⟩ := Prod.mk.inj e; cases h
      · rename_i interim
        have hva : verifyAdjacent c1.cfg verified interim now = .error .expired ∨
            verifyAdjacent c1.cfg verified interim now = .error .notAdjacent := by
          have he : headerExpired verified c1.cfg.period now = true :=
            (headerExpired_iff _ _ _).mpr (hexp c1 hs1)
          unfold verifyAdjacent
          by_cases hh : interim.height ≠ verified.height + 1
          · rw [if_pos hh]; exact Or.inr rfl
          · rw [if_neg hh, if_pos he]; exact Or.inl rfl
        split at e
        · rename_i hok
          rcases hva with h | h <;> rw [h] at hok <;> cases hok
        · rename_i e' herr
          have hni : isInvalidHeader e' = false := by
            rcases hva with h | h <;> rw [h] at herr <;> injection herr with herr <;> subst herr <;> rfl
          rw [hni] at e
          simp only [Bool.false_eq_true, if_false] at e
          obtain ⟨_, h⟩ := Prod.mk.inj e; cases h


theorem skipLoop_expired (cfg : Config) (now : Int) (src : Prov) (fuel : Nat) (k : Calls)
    (trusted new : LightBlock) (h : trusted.time + cfg.period ≤ now) :
    (skipLoop cfg now src fuel k trusted [new] 0 [trusted]).2 = .error .fuel ∨
    (skipLoop cfg now src fuel k trusted [new] 0 [trusted]).2 =
      .error (.vfail trusted.height new.height .expired) := by
  cases fuel with
  | zero => left; rfl
  | succ f =>
    right
    simp only [skipLoop, List.getElem?_cons_zero, verify_expired h]

theorem vsap_expired (now : Int) (trusted : LightBlock) (fuel : Nat) (c : Client) (new : LightBlock)
    (h : trusted.time + c.cfg.period ≤ now) :
    (verifySkippingAgainstPrimary now trusted fuel c new).2 ≠ .ok () := by
  cases fuel with
  | zero => simp [verifySkippingAgainstPrimary]
  | succ f =>
    simp only [verifySkippingAgainstPrimary, verifySkipping]
    rcases skipLoop_expired c.cfg now c.primary c.cfg.fuel c.calls trusted new h with he | he
    · rw [he]
      simp [detectDivergence]
    · rw [he]
      simp [isInvalidHeader]

theorem verifySequential_expired {c : Client} {trusted new : LightBlock} {now : Int}
    (h : trusted.time + c.cfg.period ≤ now) :
    (verifySequential c trusted new now).2 ≠ .ok () := by
  intro e
  unfold verifySequential at e
  split at e
  · cases e
  · rename_i c1 trace hs
    have := seqLoop_expired now new _ _ _ _ _ _ _ (fun c1 hs1 => by rw [hs1.1]; exact h) hs
    rw [this.1] at e
    simp [detectDivergence] at e

end Tmv.Light
