import Tmv.Lemmas.SyncClosure
/-! The link between the net's log and the nodes (C03 step (a)): in every net reachable from
`Net.init` (any schedule, any behaviour of the faulty validators)

* every correct node satisfies C02's step-guard invariant `G` (at most one proposal / prevote /
  precommit signed per round) — the timeouts it is given are the ones it scheduled;
* a logged vote carrying a correct validator's index was signed by that node;
* a vote recorded in a node's vote set is the node's own signed vote or a logged vote.

Hence a correct validator's logged vote is the ONLY vote of that validator for that (round, type)
that any correct node can ever have recorded: the `only` hypotheses of `closure_spreads_majority`
hold for correct validators. -/
namespace Tmv.Sync
open Tmv.Cons

/-- the pending timer of a node was scheduled by it (or is the initial `NewHeight` timer of round 0) -/
def PendOK (nd : Node) : Prop :=
  ∀ r st e, nd.tick.pending = some (r, st, e) → r = 0 ∨ Output.schedule r st ∈ nd.s.out

/-- per-node part of the invariant -/
structure NodeOK (nd : Node) : Prop where
  g : G nd.s
  n : N nd.idx [] nd.s
  pend : PendOK nd

/-- the invariant of reachable nets -/
structure LogInv (net : Net) : Prop where
  nodes : ∀ nd ∈ net.nodes, NodeOK nd
  idxNodup : (net.nodes.map (·.idx)).Nodup
  /-- a logged vote with a correct validator's index was signed by that node -/
  signed : ∀ nd ∈ net.nodes, ∀ v : Vote, Msg.vote v ∈ net.log → v.val = nd.idx →
    Output.signVote v.typ v.round v.bid ∈ nd.s.out
  /-- a recorded vote is the node's own signed vote or a logged vote -/
  recorded : ∀ nd ∈ net.nodes, ∀ (r : Int) (t : VType) (k : Bid) (u : Nat), nd.s.votes.has r t k u →
    (u = nd.idx ∧ ∃ rn : Nat, (rn : Int) = r ∧ Output.signVote t rn k ∈ nd.s.out) ∨
    (∃ v : Vote, Msg.vote v ∈ net.log ∧ v.val = u ∧ v.typ = t ∧ (v.round : Int) = r ∧ v.bid = k)

/-! ### what `harvest` puts on the wire and into the ticker -/

theorem mem_logAdd {l : List Msg} {m m' : Msg} : m' ∈ logAdd l m ↔ m' ∈ l ∨ m' = m := by
  unfold logAdd
  split
  · rename_i hc
    constructor
    · exact Or.inl
    · rintro (h | h)
      · exact h
      · subst h; simpa using hc
  · simp [List.mem_append]

theorem schedule_pending (t : Ticker) (e r : Nat) (st : Step) (r' : Nat) (st' : Step) (e' : Nat)
    (h : (t.schedule e r st).pending = some (r', st', e')) :
    t.pending = some (r', st', e') ∨ (r' = r ∧ st' = st) := by
  unfold Ticker.schedule at h
  split at h
  · split at h
    · exact Or.inl h
    · split at h
      · exact Or.inl h
      · simp only [Option.some.injEq, Prod.mk.injEq] at h; exact Or.inr ⟨h.1.symm, h.2.1.symm⟩
  · simp only [Option.some.injEq, Prod.mk.injEq] at h; exact Or.inr ⟨h.1.symm, h.2.1.symm⟩

theorem harvestOne_spec (tmo : Timeouts) (now idx : Nat) (acc : List Msg × Ticker) (o : Output) :
    (∀ v, Msg.vote v ∈ (harvestOne tmo now idx acc o).1 → Msg.vote v ∈ acc.1 ∨
      ∃ t rr b, v = ⟨t, rr, b, idx, true, idx, idx⟩ ∧ o = Output.signVote t rr b) ∧
    (∀ m ∈ acc.1, m ∈ (harvestOne tmo now idx acc o).1) ∧
    (∀ rr st e, (harvestOne tmo now idx acc o).2.pending = some (rr, st, e) →
      acc.2.pending = some (rr, st, e) ∨ o = Output.schedule rr st) := by
  unfold harvestOne
  split
  · refine ⟨?_, ?_, fun _ _ _ h => Or.inl h⟩
    · intro v hv
      rcases mem_logAdd.1 hv with h | h
      · rcases mem_logAdd.1 h with h | h
        · exact Or.inl h
        · cases h
      · cases h
    · intro m hm; exact mem_logAdd.2 (Or.inl (mem_logAdd.2 (Or.inl hm)))
  · rename_i t r b
    refine ⟨?_, ?_, fun _ _ _ h => Or.inl h⟩
    · intro v hv
      rcases mem_logAdd.1 hv with h | h
      · exact Or.inl h
      · exact Or.inr ⟨t, r, b, by cases h; rfl, rfl⟩
    · intro m hm; exact mem_logAdd.2 (Or.inl hm)
  · rename_i r st
    refine ⟨fun _ h => Or.inl h, fun _ h => h, ?_⟩
    intro rr st' e h
    rcases schedule_pending _ _ _ _ _ _ _ h with h | ⟨h1, h2⟩
    · exact Or.inl h
    · exact Or.inr (by rw [h1, h2])
  · exact ⟨fun _ h => Or.inl h, fun _ h => h, fun _ _ _ h => Or.inl h⟩

theorem harvest_fold_spec (tmo : Timeouts) (now idx : Nat) (os : List Output) (acc : List Msg × Ticker) :
    (∀ v, Msg.vote v ∈ (os.foldl (harvestOne tmo now idx) acc).1 → Msg.vote v ∈ acc.1 ∨
      ∃ t rr b, v = ⟨t, rr, b, idx, true, idx, idx⟩ ∧ Output.signVote t rr b ∈ os) ∧
    (∀ m ∈ acc.1, m ∈ (os.foldl (harvestOne tmo now idx) acc).1) ∧
    (∀ rr st e, (os.foldl (harvestOne tmo now idx) acc).2.pending = some (rr, st, e) →
      acc.2.pending = some (rr, st, e) ∨ Output.schedule rr st ∈ os) := by
  induction os generalizing acc with
  | nil => exact ⟨fun _ h => Or.inl h, fun _ h => h, fun _ _ _ h => Or.inl h⟩
  | cons o os ih =>
    simp only [List.foldl]
    obtain ⟨a1, a2, a3⟩ := ih (harvestOne tmo now idx acc o)
    obtain ⟨b1, b2, b3⟩ := harvestOne_spec tmo now idx acc o
    refine ⟨?_, ?_, ?_⟩
    · intro v hv
      rcases a1 v hv with h | ⟨t, rr, b, e, hm⟩
      · rcases b1 v h with h | ⟨t, rr, b, e, ho⟩
        · exact Or.inl h
        · exact Or.inr ⟨t, rr, b, e, by rw [ho]; exact List.mem_cons_self ..⟩
      · exact Or.inr ⟨t, rr, b, e, List.mem_cons_of_mem _ hm⟩
    · intro m hm; exact a2 m (b2 m hm)
    · intro rr st e h
      rcases a3 rr st e h with h | h
      · rcases b3 rr st e h with h | h
        · exact Or.inl h
        · exact Or.inr (by rw [h]; exact List.mem_cons_self ..)
      · exact Or.inr (List.mem_cons_of_mem _ h)

theorem list_set_self_of_getElem? {α} (l : List α) (i : Nat) (a : α) (h : l[i]? = some a) : l.set i a = l := by
  obtain ⟨hlt, e⟩ := List.getElem?_eq_some_iff.1 h
  subst e
  exact List.set_getElem_self hlt

/-- indices at different positions of a list with distinct indices differ -/
theorem idx_ne_of_pos_ne {l : List Node} (hn : (l.map (·.idx)).Nodup) {i j : Nat} {a b : Node}
    (hi : l[i]? = some a) (hj : l[j]? = some b) (hij : i ≠ j) : a.idx ≠ b.idx := by
  intro e
  have hi' : (l.map (·.idx))[i]? = some a.idx := by rw [List.getElem?_map, hi]; rfl
  have hj' : (l.map (·.idx))[j]? = some b.idx := by rw [List.getElem?_map, hj]; rfl
  rw [e] at hi'
  have hlti : i < (l.map (·.idx)).length := by
    rcases Nat.lt_or_ge i (l.map (·.idx)).length with h | h
    · exact h
    · rw [List.getElem?_eq_none h] at hi'; cases hi'
  have hltj : j < (l.map (·.idx)).length := by
    rcases Nat.lt_or_ge j (l.map (·.idx)).length with h | h
    · exact h
    · rw [List.getElem?_eq_none h] at hj'; cases hj'
  have e1 := (List.getElem?_eq_some_iff.1 hi').2
  have e2 := (List.getElem?_eq_some_iff.1 hj').2
  exact hij ((List.getElem_inj (h₀ := hlti) (h₁ := hltj) hn).1 (by rw [e1, e2]))

theorem LogInv.init (correct : List Nat) (hn : correct.Nodup) : LogInv (Net.init correct) := by
  have hnodes : ∀ nd ∈ (Net.init correct).nodes, ∃ i, nd = ⟨i, .init, 0, .init⟩ := by
    intro nd hm
    unfold Net.init at hm
    simp only [List.mem_map] at hm
    obtain ⟨i, _, e⟩ := hm
    exact ⟨i, e.symm⟩
  refine ⟨?_, ?_, ?_, ?_⟩
  · intro nd hm
    obtain ⟨i, e⟩ := hnodes nd hm
    subst e
    refine ⟨init_G, N.init i, ?_⟩
    intro r st e h
    simp only [Ticker.init, Option.some.injEq, Prod.mk.injEq] at h
    exact Or.inl h.1.symm
  · unfold Net.init
    simp only [List.map_map]
    have : ((fun x : Node => x.idx) ∘ fun i => (⟨i, .init, 0, .init⟩ : Node)) = id := by funext i; rfl
    rw [this, List.map_id]; exact hn
  · intro nd _ v hv
    simp [Net.init] at hv
  · intro nd hm r t k u hh
    obtain ⟨i, e⟩ := hnodes nd hm
    subst e
    obtain ⟨vs, hg, hv⟩ := hh
    have hg' : HVS.init.getVoteSet r t = some vs := hg
    rw [getVoteSet_init] at hg'
    split at hg'
    · cases hg'; exact absurd hv (VoteSet.empty_has k u)
    · cases hg'

/-- what an input may be for the invariant to be kept: a timeout only for a round reached, a vote
only from the log and not the node's own -/
def InputOK (net : Net) (nd : Node) (inp : Input) : Prop :=
  inp.notFuture nd.s ∧ ∀ v peer, inp = Input.vote v peer → Msg.vote v ∈ net.log ∧ v.val ≠ nd.idx

theorem input_LogInv (c : SCfg) (net : Net) (i : Nat) (inp : Input) (h : LogInv net)
    (hok : ∀ nd, net.nodes[i]? = some nd → InputOK net nd inp) : LogInv (net.input c i inp) := by
  unfold Net.input
  cases hi : net.nodes[i]? with
  | none => exact h
  | some nd =>
    dsimp only
    have hmem : nd ∈ net.nodes := List.mem_of_getElem? hi
    have hlt : i < net.nodes.length := by
      rcases Nat.lt_or_ge i net.nodes.length with h1 | h1
      · exact h1
      · rw [List.getElem?_eq_none h1] at hi; cases hi
    obtain ⟨hnf, hvote⟩ := hok nd hi
    have hnd := h.nodes nd hmem
    -- the node's new state
    let cfg := nodeCfg c.cfg nd.idx
    let s' := Cons.step cfg nd.s inp
    have hG : G s' := step_G (c := cfg) inp hnf hnd.g
    have hN : N nd.idx [] s' := step_N (c := cfg) rfl inp hnd.n
    have hgrow : ∃ new, s'.out = nd.s.out ++ new :=
      (step_N (c := cfg) (base := nd.s.out) rfl inp hnd.n.rebase).ext
    obtain ⟨new, hnew⟩ := hgrow
    have hsub : ∀ o ∈ nd.s.out, o ∈ s'.out := fun o ho => by rw [hnew]; exact List.mem_append_left _ ho
    -- what harvest does
    have hspec := harvest_fold_spec c.tmo net.now nd.idx (s'.out.drop nd.shown) (net.log, nd.tick)
    have hnews : ∀ o ∈ s'.out.drop nd.shown, o ∈ s'.out := fun o ho => List.mem_of_mem_drop ho
    have hh2 : (harvest c.tmo net.now net.log nd s').2 =
        { nd with s := s', shown := s'.out.length,
                  tick := ((s'.out.drop nd.shown).foldl (harvestOne c.tmo net.now nd.idx) (net.log, nd.tick)).2 } := rfl
    have hh1 : (harvest c.tmo net.now net.log nd s').1 =
        ((s'.out.drop nd.shown).foldl (harvestOne c.tmo net.now nd.idx) (net.log, nd.tick)).1 := rfl
    have hlogmono : ∀ m ∈ net.log, m ∈ (harvest c.tmo net.now net.log nd s').1 := by
      rw [hh1]; exact hspec.2.1
    have hnewvote : ∀ v, Msg.vote v ∈ (harvest c.tmo net.now net.log nd s').1 → Msg.vote v ∈ net.log ∨
        (v.val = nd.idx ∧ Output.signVote v.typ v.round v.bid ∈ s'.out) := by
      intro v hv
      rw [hh1] at hv
      rcases hspec.1 v hv with h1 | ⟨t, rr, b, e, ho⟩
      · exact Or.inl h1
      · subst e; exact Or.inr ⟨rfl, hnews _ ho⟩
    -- nodes of the new net
    have hnodes' : ∀ x ∈ setNode net.nodes i (harvest c.tmo net.now net.log nd s').2,
        (x ∈ net.nodes ∧ x.idx ≠ nd.idx) ∨ x = (harvest c.tmo net.now net.log nd s').2 := by
      intro x hx
      unfold setNode at hx
      obtain ⟨j, hj⟩ := List.getElem?_of_mem hx
      by_cases hij : i = j
      · subst hij
        rw [List.getElem?_set_self hlt] at hj
        exact Or.inr (Option.some.inj hj).symm
      · rw [List.getElem?_set_ne hij] at hj
        exact Or.inl ⟨List.mem_of_getElem? hj,
          fun e => idx_ne_of_pos_ne h.idxNodup hi hj hij e.symm⟩
    refine ⟨?_, ?_, ?_, ?_⟩
    · -- NodeOK
      intro x hx
      rcases hnodes' x hx with ⟨hx', _⟩ | hx'
      · exact h.nodes x hx'
      · subst hx'
        rw [hh2]
        refine ⟨hG, hN, ?_⟩
        intro r st e hp
        rcases hspec.2.2 r st e hp with h1 | h1
        · rcases hnd.pend r st e h1 with h2 | h2
          · exact Or.inl h2
          · exact Or.inr (hsub _ h2)
        · exact Or.inr (hnews _ h1)
    · -- indices
      have : (setNode net.nodes i (harvest c.tmo net.now net.log nd s').2).map (·.idx) = net.nodes.map (·.idx) := by
        unfold setNode
        rw [List.map_set]
        have e1 : (harvest c.tmo net.now net.log nd s').2.idx = nd.idx := rfl
        rw [e1]
        have : (net.nodes.map (·.idx))[i]? = some nd.idx := by rw [List.getElem?_map, hi]; rfl
        exact list_set_self_of_getElem? _ _ _ this
      rw [this]; exact h.idxNodup
    · -- signed
      intro x hx v hv hval
      rcases hnodes' x hx with ⟨hx', hne⟩ | hx'
      · rcases hnewvote v hv with h1 | ⟨h1, _⟩
        · exact h.signed x hx' v h1 hval
        · exact absurd (hval.symm.trans h1) hne
      · subst hx'
        rw [hh2]
        show Output.signVote v.typ v.round v.bid ∈ s'.out
        rcases hnewvote v hv with h1 | ⟨_, h1⟩
        · exact hsub _ (h.signed nd hmem v h1 hval)
        · exact h1
    · -- recorded
      intro x hx r t k u hh
      rcases hnodes' x hx with ⟨hx', _⟩ | hx'
      · rcases h.recorded x hx' r t k u hh with h1 | ⟨v, hv, h2⟩
        · exact Or.inl h1
        · exact Or.inr ⟨v, hlogmono _ hv, h2⟩
      · subst hx'
        rw [hh2] at hh ⊢
        have hX := step_X (c := cfg) (me := nd.idx) (base := []) (outF := s'.out)
          (E := fun w => Msg.vote w ∈ net.log ∧ w.val ≠ nd.idx) (h0 := nd.s.votes) rfl inp hnd.n
          (fun v peer hv => hvote v peer hv) (fun _ ho => ho) (HExt.refl _ _ _)
        have hh' : s'.votes.has r t k u := hh
        rcases hX.has_back hh' with h1 | ⟨w, ⟨hr, ht, hsrc⟩, hb, hu⟩
        · rcases h.recorded nd hmem r t k u h1 with ⟨e, rn, hrn, ho⟩ | ⟨v, hv, h2⟩
          · exact Or.inl ⟨e, rn, hrn, hsub _ ho⟩
          · exact Or.inr ⟨v, hlogmono _ hv, h2⟩
        · rcases hsrc with ⟨hl, _⟩ | ⟨hme, ho⟩
          · exact Or.inr ⟨w, hlogmono _ hl, hu, ht, hr, hb⟩
          · refine Or.inl ⟨hu.symm.trans hme, w.round, hr, ?_⟩
            rw [← ht, ← hb]; exact ho

/-- changes of flags, clock and tickers that keep the pending timers' origin -/
theorem LogInv.of_same {n n' : Net} (h : LogInv n) (hl : n'.log = n.log)
    (hn : n'.nodes = n.nodes) : LogInv n' := by
  refine ⟨?_, ?_, ?_, ?_⟩
  · rw [hn]; exact h.nodes
  · rw [hn]; exact h.idxNodup
  · rw [hn, hl]; exact h.signed
  · rw [hn, hl]; exact h.recorded

theorem foldl_LogInv {α} (l : List α) (f : Net → α → Net) (hf : ∀ a n, LogInv n → LogInv (f n a))
    (n : Net) (h : LogInv n) : LogInv (l.foldl f n) := by
  induction l generalizing n with
  | nil => exact h
  | cons a l ih => exact ih _ (hf a n h)

theorem deliver_LogInv (c : SCfg) (net : Net) (i k : Nat) (h : LogInv net) : LogInv (net.deliver c i k) := by
  unfold Net.deliver
  split
  · rename_i nd m hi hk
    split
    · exact h
    · rename_i hown
      apply input_LogInv c net i _ h
      intro nd' hi'
      rw [hi] at hi'; cases hi'
      refine ⟨?_, ?_⟩
      · cases m <;> exact trivial
      · intro v peer hv
        cases m with
        | proposal p => cases hv
        | block b => cases hv
        | vote w =>
          simp only [Msg.toInput, Input.vote.injEq] at hv
          obtain ⟨e, _⟩ := hv
          subst e
          refine ⟨List.mem_of_getElem? hk, ?_⟩
          intro e
          apply hown
          simp [Msg.own, Msg.signer, e]
  · exact h

theorem claim_LogInv (c : SCfg) (net : Net) (i j : Nat) (h : LogInv net) : LogInv (net.claim c i j) := by
  unfold Net.claim
  split
  · exact h
  · split
    · exact h
    · rename_i p _ _
      apply foldl_LogInv (claimsOf p.s)
        (fun net (x : Nat × VType × Bid) => net.input c i (.peerMaj23 x.1 x.2.1 (1 + p.idx) x.2.2)) _ net h
      intro x n hn
      apply input_LogInv c n i _ hn
      intro nd _
      exact ⟨trivial, fun v peer hv => by cases hv⟩

theorem closure_LogInv' (c : SCfg) (net : Net) (h : LogInv net) : LogInv (net.closure c) := by
  have hpassNode : ∀ i n, LogInv n → LogInv (n.passNode c i) := by
    intro i n hn
    unfold Net.passNode
    have h1 := foldl_LogInv (List.range n.nodes.length) (fun net j => net.claim c i j)
      (fun j n hn => claim_LogInv c n i j hn) n hn
    exact foldl_LogInv _ (fun net k => net.deliver c i k) (fun k n hn => deliver_LogInv c n i k hn) _ h1
  have hpass : ∀ n, LogInv n → LogInv (n.pass c) := by
    intro n hn
    unfold Net.pass
    exact foldl_LogInv _ (fun net i => net.passNode c i) (fun i n hn => hpassNode i n hn) n hn
  have hloop : ∀ fuel n, LogInv n → LogInv (closureLoop c fuel n) := by
    intro fuel
    induction fuel with
    | zero => intro n hn; exact hn
    | succ f ih =>
      intro n hn
      unfold closureLoop
      dsimp only
      split
      · exact hpass n hn
      · exact ih _ (hpass n hn)
  unfold Net.closure
  exact (hloop closureFuel net h).of_same rfl rfl

theorem fire_LogInv (c : SCfg) (net : Net) (i : Nat) (h : LogInv net) : LogInv (net.fire c i) := by
  unfold Net.fire
  cases hi : net.nodes[i]? with
  | none => exact h
  | some nd =>
    dsimp only
    cases hp : nd.tick.pending with
    | none => exact h
    | some x =>
      obtain ⟨r, st, e⟩ := x
      dsimp only
      have hmem : nd ∈ net.nodes := List.mem_of_getElem? hi
      have hlt : i < net.nodes.length := by
        rcases Nat.lt_or_ge i net.nodes.length with h1 | h1
        · exact h1
        · rw [List.getElem?_eq_none h1] at hi; cases hi
      have hnd := h.nodes nd hmem
      -- the net with the timer cleared
      let nd0 : Node := { nd with tick := { nd.tick with pending := none } }
      have hnodes0 : ∀ x ∈ setNode net.nodes i nd0, x ∈ net.nodes ∨ x = nd0 := by
        intro x hx
        unfold setNode at hx
        obtain ⟨j, hj⟩ := List.getElem?_of_mem hx
        by_cases hij : i = j
        · subst hij
          rw [List.getElem?_set_self hlt] at hj
          exact Or.inr (Option.some.inj hj).symm
        · rw [List.getElem?_set_ne hij] at hj
          exact Or.inl (List.mem_of_getElem? hj)
      have h0 : LogInv { net with nodes := setNode net.nodes i nd0, now := max net.now e } := by
        refine ⟨?_, ?_, ?_, ?_⟩
        · intro x hx
          rcases hnodes0 x hx with hx' | hx'
          · exact h.nodes x hx'
          · subst hx'
            exact ⟨hnd.g, hnd.n, fun _ _ _ hh => by cases hh⟩
        · have : (setNode net.nodes i nd0).map (·.idx) = net.nodes.map (·.idx) := by
            unfold setNode
            rw [List.map_set]
            have : (net.nodes.map (·.idx))[i]? = some nd.idx := by rw [List.getElem?_map, hi]; rfl
            exact list_set_self_of_getElem? _ _ _ this
          show ((setNode net.nodes i nd0).map (·.idx)).Nodup
          rw [this]; exact h.idxNodup
        · intro x hx v hv hval
          rcases hnodes0 x hx with hx' | hx'
          · exact h.signed x hx' v hv hval
          · subst hx'; exact h.signed nd hmem v hv hval
        · intro x hx r' t k u hh
          rcases hnodes0 x hx with hx' | hx'
          · exact h.recorded x hx' r' t k u hh
          · subst hx'; exact h.recorded nd hmem r' t k u hh
      apply input_LogInv c _ i _ h0
      intro nd' hi'
      have : (setNode net.nodes i nd0)[i]? = some nd0 := by
        unfold setNode; exact List.getElem?_set_self hlt
      have hi'' : nd' = nd0 := by
        have h1 : (setNode net.nodes i nd0)[i]? = some nd' := hi'
        rw [this] at h1; exact (Option.some.inj h1).symm
      subst hi''
      refine ⟨?_, fun v peer hv => by cases hv⟩
      show r ≤ nd.s.round
      rcases hnd.pend r st e hp with h1 | h1
      · omega
      · exact hnd.n.sched r st h1

/-- every scheduler / adversary move keeps the invariant -/
theorem op_LogInv (c : SCfg) (net : Net) (op : Op) (h : LogInv net) : LogInv (net.op c op) := by
  cases op with
  | dl i k => exact (deliver_LogInv c net i k h).of_same rfl rfl
  | byz m =>
    show LogInv ((net.byz m).getD net)
    have key : (∀ nd ∈ net.nodes, ∀ v, m = Msg.vote v → v.val ≠ nd.idx) →
        LogInv { net with log := logAdd net.log m, closed := false } := by
      intro hm
      refine ⟨h.nodes, h.idxNodup, ?_, ?_⟩
      · intro nd hnd v hv hval
        rcases mem_logAdd.1 hv with h1 | h1
        · exact h.signed nd hnd v h1 hval
        · exact absurd hval (hm nd hnd v h1.symm)
      · intro nd hnd r t k u hh
        rcases h.recorded nd hnd r t k u hh with h1 | ⟨v, hv, h2⟩
        · exact Or.inl h1
        · exact Or.inr ⟨v, mem_logAdd.2 (Or.inl hv), h2⟩
    unfold Net.byz
    dsimp only
    split
    · rename_i hs
      split
      · apply key
        intro nd _ v hv
        subst hv
        simp [Msg.signer] at hs
      · exact h
    · rename_i v hs
      split
      · rename_i hok
        apply key
        intro nd hnd w hw
        subst hw
        simp only [Msg.signer, Option.some.injEq] at hs
        subst hs
        intro e
        have : (net.nodes.any fun nd => decide (nd.idx = w.val)) = true :=
          List.any_eq_true.2 ⟨nd, hnd, by simp [e]⟩
        simp [this] at hok
      · exact h
  | claim i j => exact (claim_LogInv c net i j h).of_same rfl rfl
  | byzclaim i r t peer b =>
    show LogInv (if net.faultyPeer c peer then net.input c i (.peerMaj23 r t peer b) else net)
    split
    · apply input_LogInv c net i _ h
      intro nd _
      exact ⟨trivial, fun v peer hv => by cases hv⟩
    · exact h
  | fire i =>
    show LogInv (if net.synced ∧ !net.closed then net else if net.fireAllowed c i then net.fire c i else net)
    split
    · exact h
    · split
      · exact fire_LogInv c net i h
      · exact h
  | closure => exact closure_LogInv' c net h
  | sync => exact h.of_same rfl rfl

theorem run_LogInv (c : SCfg) (correct : List Nat) (hn : correct.Nodup) (ops : List Op) :
    LogInv ((Net.init correct).run c ops) := by
  unfold Net.run
  have : ∀ (l : List Op) (n : Net), LogInv n → LogInv (l.foldl (Net.op c) n) := by
    intro l
    induction l with
    | nil => intro n h; exact h
    | cons a l ih => intro n h; exact ih _ (op_LogInv c n a h)
  exact this ops _ (LogInv.init correct hn)

theorem closure_LogInv (c : SCfg) (net : Net) (h : LogInv net) : LogInv (net.closure c) :=
  closure_LogInv' c net h

/-- **a correct validator's logged vote is the only vote of that validator for that (round, type)
at every correct node**: `u` is a correct node of the net (other than `nd`), its vote
`(t, r, b)` is in the log ⇒ `nd` holds no vote of `u` for another value in that set. -/
theorem only_of_correct_logged (net : Net) (h : LogInv net) (nd ndu : Node)
    (hm : nd ∈ net.nodes) (hmu : ndu ∈ net.nodes) (hne : ndu.idx ≠ nd.idx)
    (v : Vote) (hv : Msg.vote v ∈ net.log) (hval : v.val = ndu.idx) :
    nd.s.votes.only (v.round : Int) v.typ v.bid ndu.idx := by
  intro vs hg k hk
  have hhas : nd.s.votes.has (v.round : Int) v.typ k ndu.idx := ⟨vs, hg, hk⟩
  rcases h.recorded nd hm _ _ _ _ hhas with ⟨e, _⟩ | ⟨w, hw, hwval, hwt, hwr, hwb⟩
  · exact absurd e hne
  · have hwr' : w.round = v.round := by exact_mod_cast hwr
    have s1 := h.signed ndu hmu v hv hval
    have s2 := h.signed ndu hmu w hw hwval
    rw [hwt, hwr', hwb] at s2
    have hg := (h.nodes ndu hmu).g
    cases ht : v.typ with
    | prevote =>
      rw [ht] at s1 s2
      have := hg.uniq _ s2 _ s1 4 rfl rfl rfl
      cases this; rfl
    | precommit =>
      rw [ht] at s1 s2
      have := hg.uniq _ s2 _ s1 6 rfl rfl rfl
      cases this; rfl

/-! ### the correct nodes stay the same nodes -/

def IdxKeep (f : Net → Net) : Prop := ∀ n, (f n).nodes.map (·.idx) = n.nodes.map (·.idx)

theorem IdxKeep.foldl {α} (l : List α) (f : Net → α → Net) (h : ∀ a, IdxKeep (fun n => f n a)) :
    IdxKeep (fun n => l.foldl f n) := by
  induction l with
  | nil => intro n; rfl
  | cons a l ih => intro n; simp only [List.foldl]; exact (ih (f n a)).trans (h a n)

theorem input_idx (c : SCfg) (i : Nat) (inp : Input) : IdxKeep (fun n => n.input c i inp) := by
  intro n
  show (n.input c i inp).nodes.map (·.idx) = _
  unfold Net.input
  cases hi : n.nodes[i]? with
  | none => rfl
  | some nd =>
    dsimp only
    unfold setNode
    rw [List.map_set]
    have e1 : (harvest c.tmo n.now n.log nd (Cons.step (nodeCfg c.cfg nd.idx) nd.s inp)).2.idx = nd.idx := rfl
    rw [e1]
    have : (n.nodes.map (·.idx))[i]? = some nd.idx := by rw [List.getElem?_map, hi]; rfl
    exact list_set_self_of_getElem? _ _ _ this

theorem deliver_idx (c : SCfg) (i k : Nat) : IdxKeep (fun n => n.deliver c i k) := by
  intro n
  show (n.deliver c i k).nodes.map (·.idx) = _
  unfold Net.deliver
  split
  · split
    · rfl
    · exact input_idx c i _ n
  · rfl

theorem claim_idx (c : SCfg) (i j : Nat) : IdxKeep (fun n => n.claim c i j) := by
  intro n
  show (n.claim c i j).nodes.map (·.idx) = _
  unfold Net.claim
  split
  · rfl
  · split
    · rfl
    · rename_i p _ _
      exact IdxKeep.foldl (claimsOf p.s)
        (fun net (x : Nat × VType × Bid) => net.input c i (.peerMaj23 x.1 x.2.1 (1 + p.idx) x.2.2))
        (fun x => input_idx c i _) n

theorem closure_idx (c : SCfg) : IdxKeep (fun n => n.closure c) := by
  have hpassNode : ∀ i, IdxKeep (fun n => n.passNode c i) := by
    intro i n
    show (n.passNode c i).nodes.map (·.idx) = _
    unfold Net.passNode
    have h1 := IdxKeep.foldl (List.range n.nodes.length) (fun net j => net.claim c i j) (fun j => claim_idx c i j) n
    exact (IdxKeep.foldl _ (fun net k => net.deliver c i k) (fun k => deliver_idx c i k) _).trans h1
  have hpass : IdxKeep (fun n => n.pass c) := by
    intro n
    show (n.pass c).nodes.map (·.idx) = _
    unfold Net.pass
    exact IdxKeep.foldl _ (fun net i => net.passNode c i) hpassNode n
  have hloop : ∀ fuel, IdxKeep (closureLoop c fuel) := by
    intro fuel
    induction fuel with
    | zero => intro n; rfl
    | succ f ih =>
      intro n
      unfold closureLoop
      dsimp only
      split
      · exact hpass n
      · exact (ih _).trans (hpass n)
  intro n
  show (n.closure c).nodes.map (·.idx) = _
  unfold Net.closure
  exact hloop closureFuel n

theorem fire_idx (c : SCfg) (i : Nat) : IdxKeep (fun n => n.fire c i) := by
  intro n
  show (n.fire c i).nodes.map (·.idx) = _
  unfold Net.fire
  cases hi : n.nodes[i]? with
  | none => rfl
  | some nd =>
    dsimp only
    cases hp : nd.tick.pending with
    | none => rfl
    | some x =>
      obtain ⟨r, st, e⟩ := x
      dsimp only
      refine (input_idx c i _ _).trans ?_
      show (setNode n.nodes i _).map (·.idx) = _
      unfold setNode
      rw [List.map_set]
      have : (n.nodes.map (·.idx))[i]? = some nd.idx := by rw [List.getElem?_map, hi]; rfl
      exact list_set_self_of_getElem? _ _ _ this

theorem op_idx (c : SCfg) (op : Op) : IdxKeep (fun n => n.op c op) := by
  intro n
  show (n.op c op).nodes.map (·.idx) = _
  cases op with
  | dl i k => exact deliver_idx c i k n
  | byz m =>
    show ((n.byz m).getD n).nodes.map (·.idx) = _
    unfold Net.byz
    dsimp only
    split <;> split <;> rfl
  | claim i j => exact claim_idx c i j n
  | byzclaim i r t peer b =>
    show (if n.faultyPeer c peer then n.input c i (.peerMaj23 r t peer b) else n).nodes.map (·.idx) = _
    split
    · exact input_idx c i _ n
    · rfl
  | fire i =>
    show (if n.synced ∧ !n.closed then n else if n.fireAllowed c i then n.fire c i else n).nodes.map (·.idx) = _
    split
    · rfl
    · split
      · exact fire_idx c i n
      · rfl
  | closure => exact closure_idx c n
  | sync => rfl

/-- the nodes of a reachable net are exactly the correct validators -/
theorem run_idx (c : SCfg) (correct : List Nat) (ops : List Op) :
    ((Net.init correct).run c ops).nodes.map (·.idx) = correct := by
  have h := IdxKeep.foldl ops (fun n op => n.op c op) (fun op => op_idx c op) (Net.init correct)
  have h' : ((Net.init correct).run c ops).nodes.map (·.idx) = (Net.init correct).nodes.map (·.idx) := h
  rw [h']
  simp [Net.init, List.map_map, Function.comp_def]

/-- two nodes of a net with the same index are the same node -/
theorem node_eq_of_idx {net : Net} (h : LogInv net) {a b : Node} (ha : a ∈ net.nodes) (hb : b ∈ net.nodes)
    (e : a.idx = b.idx) : a = b := by
  obtain ⟨i, hi⟩ := List.getElem?_of_mem ha
  obtain ⟨j, hj⟩ := List.getElem?_of_mem hb
  by_cases hij : i = j
  · subst hij; rw [hi] at hj; exact Option.some.inj hj
  · exact absurd e (idx_ne_of_pos_ne h.idxNodup hi hj hij)

/-- the same without `ndu ≠ nd`: also the node's own logged vote is its only one -/
theorem only_of_logged (net : Net) (h : LogInv net) (nd ndu : Node)
    (hm : nd ∈ net.nodes) (hmu : ndu ∈ net.nodes)
    (v : Vote) (hv : Msg.vote v ∈ net.log) (hval : v.val = ndu.idx) :
    nd.s.votes.only (v.round : Int) v.typ v.bid ndu.idx := by
  by_cases hne : ndu.idx = nd.idx
  · have e : ndu = nd := node_eq_of_idx h hmu hm hne
    subst e
    intro vs hg k hk
    have hhas : ndu.s.votes.has (v.round : Int) v.typ k ndu.idx := ⟨vs, hg, hk⟩
    have s1 := h.signed ndu hmu v hv hval
    have hG := (h.nodes ndu hmu).g
    have fin : ∀ (rr : Nat), rr = v.round → Output.signVote v.typ rr k ∈ ndu.s.out → k = v.bid := by
      intro rr hr s2
      subst hr
      cases ht : v.typ with
      | prevote =>
        rw [ht] at s1 s2
        have := hG.uniq _ s2 _ s1 4 rfl rfl rfl
        cases this; rfl
      | precommit =>
        rw [ht] at s1 s2
        have := hG.uniq _ s2 _ s1 6 rfl rfl rfl
        cases this; rfl
    rcases h.recorded ndu hmu _ _ _ _ hhas with ⟨_, rn, hrn, ho⟩ | ⟨w, hw, hwval, hwt, hwr, hwb⟩
    · exact fin rn (by exact_mod_cast hrn) ho
    · have hwr' : w.round = v.round := by exact_mod_cast hwr
      have s2 := h.signed ndu hmu w hw hwval
      rw [hwt, hwb] at s2
      exact fin w.round hwr' s2
  · exact only_of_correct_logged net h nd ndu hm hmu hne v hv hval


end Tmv.Sync
