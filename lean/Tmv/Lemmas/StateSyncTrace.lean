import Tmv.Model.Syncer
import Tmv.Lemmas.StateSyncPool
/-! Helper lemmas for C14: every step of the syncer keeps the pool clean, keeps what is rejected
rejected, and journals only `Good` events. -/
namespace Tmv.StateSync.Thm
open Tmv Tmv.StateSync

variable (recent : Nat)

/-- a set of rejected snapshot keys, formats and senders -/
structure Rej where
  keys : List Key
  formats : List Nat
  peers : List String

/-- the syncer's pool lists nothing blacklisted, and everything in `R` is blacklisted -/
def Inv (R : Rej) (sy : Sy) : Prop :=
  Clean sy.pool ∧ (∀ k ∈ R.keys, k ∈ sy.pool.blSnap) ∧ (∀ f ∈ R.formats, f ∈ sy.pool.blFormat) ∧
  (∀ p ∈ R.peers, p ∈ sy.pool.blPeer)

/-- what may be journalled once `R` is rejected: offers carry the provider's app hash and are never
for a rejected snapshot or format; no chunk of a rejected sender is queued; nothing a rejected
peer advertises, and no rejected snapshot or format, enters the pool. -/
def Good (env : Env) (R : Rej) : Ev → Prop
  | .offer s ah _ => env.appHash s.height = .ok ah ∧ keyOf s ∉ R.keys ∧ s.format ∉ R.formats
  | .arriveChunk c r => c.sender ∈ R.peers → r ≠ .added
  | .arriveSnap peer s added =>
      (peer ∈ R.peers ∨ s.format ∈ R.formats ∨ keyOf s ∈ R.keys) → added = false
  | _ => True

/-- `sy'` extends `sy`: invariant kept, snapshot/format blacklists untouched, only good events added -/
def Ext (env : Env) (R : Rej) (sy sy' : Sy) : Prop :=
  Inv R sy' ∧ sy'.pool.blSnap = sy.pool.blSnap ∧ sy'.pool.blFormat = sy.pool.blFormat ∧
  ∃ l, sy'.journal = sy.journal ++ l ∧ ∀ e ∈ l, Good env R e

theorem Ext.refl {env : Env} {R : Rej} {sy : Sy} (h : Inv R sy) : Ext env R sy sy :=
  ⟨h, rfl, rfl, [], by simp, by simp⟩

theorem Ext.trans {env : Env} {R : Rej} {a b c : Sy} (h1 : Ext env R a b) (h2 : Ext env R b c) :
    Ext env R a c := by
  obtain ⟨_, a1, a2, l1, j1, g1⟩ := h1
  obtain ⟨i2, b1, b2, l2, j2, g2⟩ := h2
  refine ⟨i2, b1.trans a1, b2.trans a2, l1 ++ l2, by rw [j2, j1, List.append_assoc], ?_⟩
  intro e he
  rcases List.mem_append.mp he with h | h
  · exact g1 e h
  · exact g2 e h

theorem Ext.log {env : Env} {R : Rej} {sy : Sy} (h : Inv R sy) (e : Ev) (he : Good env R e) :
    Ext env R sy (log sy e) :=
  ⟨h, rfl, rfl, [e], rfl, by simpa using he⟩

/-- changing only the queue / active flag keeps everything -/
theorem Ext.queue {env : Env} {R : Rej} {sy : Sy} (h : Inv R sy) (q : Option Queue) (a : Bool) :
    Ext env R sy { sy with queue := q, active := a } :=
  ⟨h, rfl, rfl, [], by simp, by simp⟩

theorem addChunk_spec (sy : Sy) (c : Chunk) :
    (addChunk sy c).1.pool = sy.pool ∧ (addChunk sy c).1.journal = sy.journal ∧
    (c.sender ∈ sy.pool.blPeer → (addChunk sy c).2 ≠ .added) := by
  unfold addChunk
  split
  · split
    · rename_i hb
      exact ⟨rfl, rfl, fun _ => by simp⟩
    · rename_i hb
      refine ⟨rfl, rfl, fun h => ?_⟩
      exact absurd (by simpa using h) hb
  · exact ⟨rfl, rfl, fun _ => by simp⟩

theorem deliver_ext {env : Env} {R : Rej} {sy : Sy} (h : Inv R sy) (m : Msg) :
    Ext env R sy (deliver recent sy m) := by
  obtain ⟨hc, hk, hf, hp⟩ := h
  cases m with
  | chunk c =>
    obtain ⟨e1, e2, e3⟩ := addChunk_spec sy c
    simp only [deliver]
    refine ⟨⟨by rw [e1]; exact hc, by rw [e1]; exact hk, by rw [e1]; exact hf, by rw [e1]; exact hp⟩,
      by rw [e1], by rw [e1], [.arriveChunk c (addChunk sy c).2], by simp [e2], ?_⟩
    intro e he
    simp only [List.mem_singleton] at he
    subst he
    exact fun hin => e3 (hp _ hin)
  | snap peer s =>
    obtain ⟨c1, b1, b2, b3⟩ := clean_add hc recent peer s
    simp only [deliver]
    refine ⟨⟨c1, by rw [b1]; exact hk, by rw [b2]; exact hf, by rw [b3]; exact hp⟩, b1, b2,
      [.arriveSnap peer s (sy.pool.add recent peer s).2], rfl, ?_⟩
    intro e he
    simp only [List.mem_singleton] at he
    subst he
    intro hin
    have : sy.pool.add recent peer s = (sy.pool, false) := by
      apply add_refuses_rejected
      rcases hin with h | h | h
      · exact Or.inl (hp _ h)
      · exact Or.inr (Or.inl (hf _ h))
      · exact Or.inr (Or.inr (hk _ h))
    rw [this]
  | stop peer =>
    obtain ⟨hsub, b1, b2, b3, _⟩ := removePeer_spec sy.pool peer
    simp only [deliver]
    exact ⟨⟨hc.of_sub hsub b1 b2 b3, by rw [b1]; exact hk, by rw [b2]; exact hf, by rw [b3]; exact hp⟩, b1, b2,
      [.peerStopped peer], rfl, by intro e he; simp only [List.mem_singleton] at he; subst he; trivial⟩

theorem deliverAll_ext {env : Env} {R : Rej} (ms : List Msg) : ∀ {sy : Sy}, Inv R sy →
    Ext env R sy (deliverAll recent sy ms) := by
  induction ms with
  | nil => intro sy h; exact Ext.refl h
  | cons m rest ih =>
    intro sy h
    have h1 := deliver_ext (env := env) recent h m
    exact h1.trans (ih h1.1)

theorem gapStep_ext {env : Env} {R : Rej} {sy : Sy} (h : Inv R sy) (sc : Script) :
    Ext env R sy (gapStep recent sy sc).1 := deliverAll_ext recent _ h

theorem starve_ext {env : Env} {R : Rej} (snap : Snapshot) (i : Nat) : ∀ (fuel : Nat) {sy : Sy} (sc : Script),
    Inv R sy → Ext env R sy (starve recent snap i fuel sy sc).1 := by
  intro fuel
  induction fuel with
  | zero => intro sy sc h; exact Ext.refl h
  | succ f ih =>
    intro sy sc h
    unfold starve
    split
    · exact Ext.refl h
    · split
      · exact Ext.refl h
      · split
        · have h1 := deliver_ext (env := env) recent h ‹Msg›
          exact h1.trans (ih _ h1.1)
        · split
          · exact Ext.refl h
          · simp only
            have h1 := deliver_ext (env := env) recent h
              (.chunk { height := snap.height, format := snap.format, index := i, body := some (stdBody i), sender := ‹String› })
            split <;> exact h1

theorem doRefetch_ext {env : Env} {R : Rej} (l : List Nat) : ∀ {sy : Sy} (sc : Script), Inv R sy →
    Ext env R sy (doRefetch recent l sy sc).1 := by
  induction l with
  | nil => intro sy sc h; exact Ext.refl h
  | cons i rest ih =>
    intro sy sc h
    unfold doRefetch
    simp only
    have h0 : Ext env R sy { sy with queue := sy.queue.map (·.discard i) } := ⟨h, rfl, rfl, [], by simp, by simp⟩
    have h1 := gapStep_ext (env := env) recent h0.1 sc
    exact (h0.trans h1).trans (ih _ h1.1)


theorem rejectPeer_ext {env : Env} {R : Rej} {sy : Sy} (h : Inv R sy) (p : String) (q : Option Queue) :
    Ext env R sy { sy with pool := sy.pool.rejectPeer p, queue := q } := by
  obtain ⟨hc, hk, hf, hp⟩ := h
  obtain ⟨c1, _, mono, e1, e2⟩ := clean_rejectPeer hc p
  exact ⟨⟨c1, by simpa [e1] using hk, by simpa [e2] using hf, fun x hx => mono x (hp x hx)⟩, e1, e2, [],
    by simp, by simp⟩

theorem doRejectSenders_ext {env : Env} {R : Rej} (l : List String) : ∀ {sy : Sy} (sc : Script), Inv R sy →
    Ext env R sy (doRejectSenders recent l sy sc).1 := by
  induction l with
  | nil => intro sy sc h; exact Ext.refl h
  | cons p rest ih =>
    intro sy sc h
    unfold doRejectSenders
    split
    · exact ih sc h
    · simp only
      have h0 := rejectPeer_ext (env := env) h p (sy.queue.map (·.discardSender p))
      have h1 := gapStep_ext (env := env) recent h0.1 sc
      exact (h0.trans h1).trans (ih _ h1.1)

theorem Ext.logAll {env : Env} {R : Rej} {sy : Sy} (h : Inv R sy) (es : List Ev)
    (he : ∀ e ∈ es, Good env R e) : Ext env R sy (logAll sy es) :=
  ⟨h, rfl, rfl, es, rfl, he⟩

theorem good_race (env : Env) (R : Rej) (cs : List Chunk) : ∀ e ∈ cs.map Ev.raceChunk, Good env R e := by
  intro e he
  obtain ⟨c, _, rfl⟩ := List.mem_map.mp he
  trivial

theorem applyOne_ext {env : Env} {R : Rej} (c : Chunk) {sy : Sy} (sc : Script) (h : Inv R sy) :
    Ext env R sy (applyOne recent c sy sc).2.1 := by
  unfold applyOne
  cases hv : popApply sc with
  | mk v sc1 =>
    simp only
    have a1 := Ext.log (env := env) h
      (.apply c.index (c.body.getD []) c.sender v.result v.refetch v.rejectSenders) trivial
    have a2 := deliverAll_ext (env := env) recent v.pre a1.1
    split
    · exact a1.trans a2
    · have ar := Ext.logAll (env := env) a2.1 ((racing v).map .raceChunk) (good_race env R _)
      have a3 := doRefetch_ext (env := env) recent v.refetch sc1 ar.1
      have a4 := doRejectSenders_ext (env := env) recent v.rejectSenders
        (doRefetch recent v.refetch (logAll (deliverAll recent (log sy
          (.apply c.index (c.body.getD []) c.sender v.result v.refetch v.rejectSenders)) v.pre)
          ((racing v).map .raceChunk)) sc1).2 a3.1
      exact (((a1.trans a2).trans ar).trans a3).trans a4

theorem applyChunks_ext {env : Env} {R : Rej} (snap : Snapshot) : ∀ (fuel : Nat) {sy : Sy} (sc : Script),
    Inv R sy → Ext env R sy (applyChunks recent snap fuel sy sc).2.1 := by
  intro fuel
  induction fuel with
  | zero => intro sy sc h; exact Ext.refl h
  | succ f ih =>
    intro sy sc h
    unfold applyChunks
    simp only
    have g0 := gapStep_ext (env := env) recent h sc
    split
    · exact g0
    · rename_i q hq
      split
      · exact g0
      · rename_i i hn
        have s1 := starve_ext (env := env) recent snap i ((gapStep recent sy sc).2.late.length + 2)
          (gapStep recent sy sc).2 g0.1
        split
        · exact (g0.trans s1).trans (ih _ s1.1)
        · exact g0.trans s1
      · rename_i c q' hn
        have a0 : Ext env R (gapStep recent sy sc).1 { (gapStep recent sy sc).1 with queue := some q' } :=
          ⟨g0.1, rfl, rfl, [], by simp, by simp⟩
        have a1 := applyOne_ext (env := env) recent c (gapStep recent sy sc).2 a0.1
        have a01 := (g0.trans a0).trans a1
        split
        all_goals
          rename_i syA scA hA
          rw [hA] at a01
          simp only at a01
        · exact a01.trans (ih _ a01.1)
        · exact a01
        · have r0 : Ext env R syA { syA with queue := syA.queue.map (·.retry c.index) } :=
            ⟨a01.1, rfl, rfl, [], by simp, by simp⟩
          exact (a01.trans r0).trans (ih _ r0.1)
        all_goals exact a01

theorem syncBody_ext {env : Env} {R : Rej} (snap : Snapshot) (fuel : Nat) {sy : Sy} (sc : Script)
    (h : Inv R sy) (hk : keyOf snap ∉ R.keys) (hf : snap.format ∉ R.formats) :
    Ext env R sy (syncBody recent env snap fuel sy sc).2.1 := by
  unfold syncBody
  simp only
  have l0 := Ext.log (env := env) h (.provAppHash snap.height) trivial
  split
  · rename_i appHash hah
    have g1 := gapStep_ext (env := env) recent l0.1 sc
    cases hov : popOffer (gapStep recent (log sy (Ev.provAppHash snap.height)) sc).2 with
    | mk ov sc1 =>
      simp only
      have l1 := Ext.log (env := env) g1.1 (.offer snap appHash ov.result) ⟨hah, hk, hf⟩
      have d1 := deliverAll_ext (env := env) recent ov.pre l1.1
      have c1 := ((l0.trans g1).trans l1).trans d1
      split
      all_goals try exact c1
      have g2 := gapStep_ext (env := env) recent d1.1 sc1
      have l2 := Ext.log (env := env) g2.1 (.provState snap.height) trivial
      have c2 := (c1.trans g2).trans l2
      split
      · have g3 := gapStep_ext (env := env) recent l2.1
          (gapStep recent (deliverAll recent (log (gapStep recent (log sy (Ev.provAppHash snap.height)) sc).1
            (Ev.offer snap appHash ov.result)) ov.pre) sc1).2
        have l3 := Ext.log (env := env) g3.1 (.provCommit snap.height) trivial
        have c3 := (c2.trans g3).trans l3
        split
        · have a := applyChunks_ext (env := env) recent snap fuel
            (gapStep recent (log (gapStep recent (deliverAll recent (log (gapStep recent (log sy (Ev.provAppHash snap.height)) sc).1
            (Ev.offer snap appHash ov.result)) ov.pre) sc1).1 (Ev.provState snap.height))
            (gapStep recent (deliverAll recent (log (gapStep recent (log sy (Ev.provAppHash snap.height)) sc).1
            (Ev.offer snap appHash ov.result)) ov.pre) sc1).2).2 l3.1
          have c4 := c3.trans a
          split
          · rename_i hA; rw [hA] at c4; exact c4
          · rename_i syA scA hA
            rw [hA] at c4
            simp only at c4
            have l4 := Ext.log (env := env) c4.1
              (.info (resolveInfo (popInfo scA).1 ‹PState›.appVersion appHash snap.height)) trivial
            split <;> exact c4.trans l4
        · exact c3
      · exact c2
  · exact l0


theorem sync_ext {env : Env} {R : Rej} (snap : Snapshot) (fuel : Nat) {sy : Sy} (sc : Script)
    (h : Inv R sy) (hk : keyOf snap ∉ R.keys) (hf : snap.format ∉ R.formats) :
    Ext env R sy (sync recent env snap fuel sy sc).2.1 := by
  unfold sync
  split
  · exact Ext.refl h
  · simp only
    have a0 : Ext env R sy { sy with active := true } := ⟨h, rfl, rfl, [], by simp, by simp⟩
    have a1 := syncBody_ext (env := env) recent snap fuel sc a0.1 hk hf
    have a2 : Ext env R (syncBody recent env snap fuel { sy with active := true } sc).2.1
        { (syncBody recent env snap fuel { sy with active := true } sc).2.1 with active := false } :=
      ⟨a1.1, rfl, rfl, [], by simp, by simp⟩
    exact (a0.trans a1).trans a2

/-- the weaker extension across `SyncAny` iterations: blacklists may grow -/
def ExtA (env : Env) (R : Rej) (sy sy' : Sy) : Prop :=
  Inv R sy' ∧ ∃ l, sy'.journal = sy.journal ++ l ∧ ∀ e ∈ l, Good env R e

theorem Ext.toA {env : Env} {R : Rej} {a b : Sy} (h : Ext env R a b) : ExtA env R a b :=
  ⟨h.1, h.2.2.2⟩

theorem ExtA.trans {env : Env} {R : Rej} {a b c : Sy} (h1 : ExtA env R a b) (h2 : ExtA env R b c) :
    ExtA env R a c := by
  obtain ⟨_, l1, j1, g1⟩ := h1
  obtain ⟨i2, l2, j2, g2⟩ := h2
  refine ⟨i2, l1 ++ l2, by rw [j2, j1, List.append_assoc], ?_⟩
  intro e he
  rcases List.mem_append.mp he with h | h
  · exact g1 e h
  · exact g2 e h

/-- replacing the pool by one that is still clean and still blacklists `R` (and touching the
queue) journals nothing -/
theorem ExtA.pool {env : Env} {R : Rej} {sy : Sy} (p : Pool) (q : Option Queue)
    (h : Inv R { sy with pool := p, queue := q }) : ExtA env R sy { sy with pool := p, queue := q } :=
  ⟨h, [], by simp, by simp⟩

end Tmv.StateSync.Thm
