import Tmv.Lemmas.LightDetect
namespace Tmv.Light

theorem detectDivergence_spec {c : Client} {trace : List LightBlock} {now : Int} {c' : Client}
    {r : Except Err Unit} (e : detectDivergence c trace now = (c', r)) :
    SameTrust c c' ∧
    (r = .ok () → 2 ≤ trace.length ∧ ∃ h, trace.getLast? = some h ∧
        ∃ (i : Nat) (w : Prov), c.witnesses[i]? = some w ∧ Replied w h.hash) := by
  unfold detectDivergence at e
  split at e
  · obtain ⟨rfl, rfl⟩ := Prod.mk.inj e
    exact ⟨⟨rfl, rfl, rfl⟩, fun h => by cases h⟩
  · rename_i hlen
    split at e
    · obtain ⟨rfl, rfl⟩ := Prod.mk.inj e
      exact ⟨⟨rfl, rfl, rfl⟩, fun h => by cases h⟩
    · rename_i h hlast
      split at e
      · obtain ⟨rfl, rfl⟩ := Prod.mk.inj e
        exact ⟨⟨rfl, rfl, rfl⟩, fun h => by cases h⟩
      · have h2 := detectLoop_spec _ _ _ _ _ _ _ _ _ e
        refine ⟨h2.1, fun hr => ⟨by omega, h, hlast, ?_⟩⟩
        rcases h2.2 hr with hm | hw
        · cases hm
        · exact hw

theorem seqLoop_spec (cfg : Config) (root : Hash → Prop) (now : Int) (new : LightBlock) :
    ∀ (fuel : Nat) (c : Client) (verified : LightBlock) (height : Int) (trace : List LightBlock)
      (c' : Client) (r : Except Err (List LightBlock)),
      c.cfg = cfg → Reach cfg root verified →
      seqLoop now new fuel c verified height trace = (c', r) →
      SameTrust c c' ∧
      (∀ tr, r = .ok tr → (tr = trace ∧ ¬ height ≤ new.height) ∨ Reach cfg root new) := by
  intro fuel
  induction fuel with
  | zero =>
    intro c verified height trace c' r _ _ e
    simp only [seqLoop] at e
    obtain ⟨rfl, rfl⟩ := Prod.mk.inj e
    exact ⟨⟨rfl, rfl, rfl⟩, fun tr h => by cases h⟩
  | succ f ih =>
    intro c verified height trace c' r hcfg hreach e
    simp only [seqLoop] at e
    split at e
    · rename_i hgt
      obtain ⟨rfl, rfl⟩ := Prod.mk.inj e
      refine ⟨⟨rfl, rfl, rfl⟩, fun tr h => ?_⟩
      injection h with h
      simp at hgt
      exact Or.inl ⟨h.symm, by omega⟩
    · rename_i hle
      simp at hle
      generalize hp : (if height = new.height then (c, Except.ok new) else lightBlockFromPrimary c height) = p at e
      obtain ⟨c1, ir⟩ := p
      have hs1 : SameTrust c c1 := by
        split at hp
        · obtain ⟨rfl, _⟩ := Prod.mk.inj hp; exact ⟨rfl, rfl, rfl⟩
        · exact lightBlockFromPrimary_same hp
      have hnew : ∀ b, ir = .ok b → height = new.height → b = new := by
        intro b hb hh
        rw [if_pos hh] at hp
        obtain ⟨_, h2⟩ := Prod.mk.inj hp
        rw [hb] at h2
        injection h2 with h2
        exact h2.symm
      have hcfg1 : c1.cfg = cfg := hs1.1.trans hcfg
      simp only at e
      split at e
      · obtain ⟨rfl, rfl⟩ := Prod.mk.inj e
        exact ⟨hs1, fun tr h => by cases h⟩
      · rename_i interim
        split at e
        · -- verified adjacent step
          rename_i hva
          have hstep : ValidStep cfg now verified interim := by
            rw [hcfg1] at hva
            exact verifyAdjacent_sound (by rw [hva])
          have hri : Reach cfg root interim := Reach.fwd _ _ _ hreach hstep
          have h2 := ih _ _ _ _ _ _ hcfg1 hri e
          refine ⟨hs1.trans h2.1, fun tr htr => ?_⟩
          rcases h2.2 tr htr with ⟨_, hgt⟩ | hr
          · have : height = new.height := by omega
            have := hnew interim rfl this
            rw [← this]
            exact Or.inr hri
          · exact Or.inr hr
        · split at e
          · split at e
            · obtain ⟨rfl, rfl⟩ := Prod.mk.inj e
              exact ⟨hs1, fun tr h => by cases h⟩
            · split at e
              · rename_i c2 _ hf
                obtain ⟨rfl, rfl⟩ := Prod.mk.inj e
                exact ⟨hs1.trans (findNewPrimary_same hf), fun tr h => by cases h⟩
              · rename_i c2 repl hf
                have hs2 := findNewPrimary_same hf
                split at e
                · obtain ⟨rfl, rfl⟩ := Prod.mk.inj e
                  exact ⟨hs1.trans hs2, fun tr h => by cases h⟩
                · have h2 := ih _ _ _ _ _ _ (hs2.1.trans hcfg1) hreach e
                  exact ⟨(hs1.trans hs2).trans h2.1, h2.2⟩
          · obtain ⟨rfl, rfl⟩ := Prod.mk.inj e
            exact ⟨hs1, fun tr h => by cases h⟩

theorem skipLoop_reach (cfg : Config) (root : Hash → Prop) (now : Int) (src : Prov) (new : LightBlock) :
    ∀ (fuel : Nat) (k : Calls) (verified : LightBlock) (tl : List LightBlock) (depth : Nat)
      (trace : List LightBlock) (k' : Calls) (r : Except Err (List LightBlock)),
      Reach cfg root verified →
      skipLoop cfg now src fuel k verified (new :: tl) depth trace = (k', r) →
      ∀ tr, r = .ok tr → Reach cfg root new := by
  intro fuel
  induction fuel with
  | zero =>
    intro k verified tl depth trace k' r _ e tr hr
    simp only [skipLoop] at e
    obtain ⟨_, rfl⟩ := Prod.mk.inj e
    cases hr
  | succ f ih =>
    intro k verified tl depth trace k' r hreach e tr hr
    simp only [skipLoop] at e
    split at e
    · obtain ⟨_, rfl⟩ := Prod.mk.inj e; cases hr
    · rename_i cur hcur
      split at e
      · rename_i hv
        have hstep : ValidStep cfg now verified cur := verify_sound (by rw [hv])
        split at e
        · rename_i hd
          subst hd
          simp at hcur
          subst hcur
          exact Reach.fwd _ _ _ hreach hstep
        · rename_i hd
          obtain ⟨d, rfl⟩ := Nat.exists_eq_succ_of_ne_zero hd
          simp only [List.take_succ_cons] at e
          exact ih _ _ _ _ _ _ _ (Reach.fwd _ _ _ hreach hstep) e tr hr
      · split at e
        · simp only [ask] at e
          split at e
          · simp only [List.cons_append] at e
            exact ih _ _ _ _ _ _ _ hreach e tr hr
          · split at e
            · obtain ⟨_, rfl⟩ := Prod.mk.inj e; cases hr
            · obtain ⟨_, rfl⟩ := Prod.mk.inj e; cases hr
        · exact ih _ _ _ _ _ _ _ hreach e tr hr
      · obtain ⟨_, rfl⟩ := Prod.mk.inj e; cases hr


theorem vsap_spec (cfg : Config) (root : Hash → Prop) (now : Int) (trusted : LightBlock) :
    ∀ (fuel : Nat) (c : Client) (new : LightBlock) (c' : Client) (r : Except Err Unit),
      c.cfg = cfg → Reach cfg root trusted →
      verifySkippingAgainstPrimary now trusted fuel c new = (c', r) →
      SameTrust c c' ∧ (r = .ok () → Reach cfg root new) := by
  intro fuel
  induction fuel with
  | zero =>
    intro c new c' r _ _ e
    simp only [verifySkippingAgainstPrimary] at e
    obtain ⟨rfl, rfl⟩ := Prod.mk.inj e
    exact ⟨⟨rfl, rfl, rfl⟩, fun h => by cases h⟩
  | succ f ih =>
    intro c new c' r hcfg hreach e
    simp only [verifySkippingAgainstPrimary] at e
    split at e
    · -- ok trace
      rename_i trace hsk
      have h2 := detectDivergence_spec e
      refine ⟨⟨h2.1.1, h2.1.2.1, h2.1.2.2⟩, fun _ => ?_⟩
      unfold verifySkipping at hsk
      rw [hcfg] at hsk
      exact skipLoop_reach cfg root now _ new _ _ _ _ _ _ _ _ hreach (Prod.ext rfl rfl) trace hsk
    · split at e
      · split at e
        · obtain ⟨rfl, rfl⟩ := Prod.mk.inj e
          exact ⟨⟨rfl, rfl, rfl⟩, fun h => by cases h⟩
        · split at e
          · rename_i c2 _ hf
            obtain ⟨rfl, rfl⟩ := Prod.mk.inj e
            have := findNewPrimary_same hf
            exact ⟨⟨this.1, this.2.1, this.2.2⟩, fun h => by cases h⟩
          · rename_i c2 repl hf
            have hs2 := findNewPrimary_same hf
            split at e
            · obtain ⟨rfl, rfl⟩ := Prod.mk.inj e
              exact ⟨⟨hs2.1, hs2.2.1, hs2.2.2⟩, fun h => by cases h⟩
            · rename_i hne
              simp at hne
              have h2 := ih _ _ _ _ (hs2.1.trans hcfg) hreach e
              refine ⟨⟨h2.1.1.trans hs2.1, h2.1.2.1.trans hs2.2.1, h2.1.2.2.trans hs2.2.2⟩, fun hr => ?_⟩
              exact Reach.same _ _ (h2.2 hr) hne.symm
      · obtain ⟨rfl, rfl⟩ := Prod.mk.inj e
        exact ⟨⟨rfl, rfl, rfl⟩, fun h => by cases h⟩
    · have h2 := detectDivergence_spec e
      refine ⟨⟨h2.1.1, h2.1.2.1, h2.1.2.2⟩, fun hr => ?_⟩
      have := (h2.2 hr).1
      simp at this

theorem backwards_spec (cfg : Config) (root : Hash → Prop) :
    ∀ (fuel : Nat) (c : Client) (verified new : LightBlock) (c' : Client) (r : Except Err Unit),
      Reach cfg root verified →
      backwards fuel c verified new = (c', r) →
      SameTrust c c' ∧ (r = .ok () → Reach cfg root new) := by
  intro fuel
  induction fuel with
  | zero =>
    intro c verified new c' r _ e
    simp only [backwards] at e
    obtain ⟨rfl, rfl⟩ := Prod.mk.inj e
    exact ⟨⟨rfl, rfl, rfl⟩, fun h => by cases h⟩
  | succ f ih =>
    intro c verified new c' r hreach e
    simp only [backwards] at e
    split at e
    · obtain ⟨rfl, rfl⟩ := Prod.mk.inj e
      refine ⟨⟨rfl, rfl, rfl⟩, fun h => ?_⟩
      split at h
      · cases h
      · rename_i hne
        simp at hne
        exact Reach.same _ _ hreach hne.symm
    · split at e
      · rename_i c1 _ hl
        obtain ⟨rfl, rfl⟩ := Prod.mk.inj e
        exact ⟨lightBlockFromPrimary_same hl, fun h => by cases h⟩
      · rename_i c1 interim hl
        have hs1 := lightBlockFromPrimary_same hl
        split at e
        · split at e
          · rename_i c2 _ hf
            obtain ⟨rfl, rfl⟩ := Prod.mk.inj e
            exact ⟨hs1.trans (findNewPrimary_same hf), fun h => by cases h⟩
          · rename_i c2 np hf
            have hs2 := findNewPrimary_same hf
            split at e
            · obtain ⟨rfl, rfl⟩ := Prod.mk.inj e
              exact ⟨hs1.trans hs2, fun h => by cases h⟩
            · rename_i hne
              simp at hne
              have h2 := ih _ _ _ _ _ hreach e
              exact ⟨(hs1.trans hs2).trans h2.1, fun hr => Reach.same _ _ (h2.2 hr) hne.symm⟩
        · rename_i hvb
          simp at hvb
          have h2 := ih _ _ _ _ _ (Reach.back _ _ hreach (verifyBackwards_sound hvb)) e
          exact ⟨hs1.trans h2.1, h2.2⟩


theorem verifySequential_spec (cfg : Config) (root : Hash → Prop) {c : Client} {trusted new : LightBlock}
    {now : Int} {c' : Client} {r : Except Err Unit}
    (hcfg : c.cfg = cfg) (hreach : Reach cfg root trusted)
    (e : verifySequential c trusted new now = (c', r)) :
    SameTrust c c' ∧ (r = .ok () → Reach cfg root new) := by
  unfold verifySequential at e
  split at e
  · rename_i c1 err hs
    obtain ⟨rfl, rfl⟩ := Prod.mk.inj e
    exact ⟨(seqLoop_spec cfg root now new _ _ _ _ _ _ _ hcfg hreach hs).1, fun h => by cases h⟩
  · rename_i c1 trace hs
    have h1 := seqLoop_spec cfg root now new _ _ _ _ _ _ _ hcfg hreach hs
    have h2 := detectDivergence_spec e
    refine ⟨h1.1.trans h2.1, fun hr => ?_⟩
    rcases h1.2 trace rfl with ⟨ht, _⟩ | hr2
    · have := (h2.2 hr).1
      rw [ht] at this
      simp at this
    · exact hr2

/-! ### the trusted store -/

theorem mem_insertBlock {b x : LightBlock} : ∀ {l : List LightBlock}, b ∈ insertBlock x l → b = x ∨ b ∈ l := by
  intro l
  induction l with
  | nil => intro h; simp [insertBlock] at h; exact Or.inl h
  | cons y r ih =>
    intro h
    simp only [insertBlock] at h
    split at h
    · simp at h
      rcases h with h | h | h
      · exact Or.inl h
      · exact Or.inr (by simp [h])
      · exact Or.inr (by simp [h])
    · split at h
      · simp at h
        rcases h with h | h
        · exact Or.inl h
        · exact Or.inr (by simp [h])
      · simp at h
        rcases h with h | h
        · exact Or.inr (by simp [h])
        · rcases ih h with h | h
          · exact Or.inl h
          · exact Or.inr (by simp [h])

theorem mem_prune {b : LightBlock} {s : Store} {n : Nat} (h : b ∈ (s.prune n).blocks) : b ∈ s.blocks := by
  unfold Store.prune at h
  split at h
  · exact h
  · exact List.mem_of_mem_drop h

/-- the trust invariant: everything in the trusted store, and the cached latest block, is
reachable from the trust root -/
def Inv (cfg : Config) (root : Hash → Prop) (c : Client) : Prop :=
  c.cfg = cfg ∧ (∀ b ∈ c.store.blocks, Reach cfg root b) ∧ (∀ l, c.latest = some l → Reach cfg root l)

theorem Inv.of_same {cfg : Config} {root : Hash → Prop} {c c' : Client} (h : Inv cfg root c)
    (hs : SameTrust c c') : Inv cfg root c' := by
  obtain ⟨h1, h2, h3⟩ := h
  refine ⟨hs.1.trans h1, ?_, ?_⟩
  · rw [hs.2.1]; exact h2
  · rw [hs.2.2]; exact h3

theorem updateTrusted_inv {cfg : Config} {root : Hash → Prop} {c : Client} {l : LightBlock}
    (h : Inv cfg root c) (hl : Reach cfg root l) : Inv cfg root (updateTrustedLightBlock c l) := by
  obtain ⟨h1, h2, h3⟩ := h
  unfold updateTrustedLightBlock
  refine ⟨h1, ?_, ?_⟩
  · intro b hb
    simp only at hb
    have hb' : b ∈ (c.store.save l).blocks := by
      split at hb
      · exact mem_prune hb
      · exact hb
    rcases mem_insertBlock hb' with rfl | hm
    · exact hl
    · exact h2 b hm
  · intro x hx
    simp only at hx
    split at hx
    · injection hx with hx; rw [← hx]; exact hl
    · rename_i t ht
      split at hx
      · injection hx with hx; rw [← hx]; exact hl
      · injection hx with hx; rw [← hx]; exact h3 t ht

theorem store_get_mem {s : Store} {h : Int} {b : LightBlock} (e : s.get h = some b) : b ∈ s.blocks :=
  List.mem_of_find?_eq_some e

theorem store_before_mem {s : Store} {h : Int} {b : LightBlock} (e : s.before h = some b) : b ∈ s.blocks := by
  unfold Store.before at e
  have := List.mem_of_getLast? e
  exact (List.mem_filter.mp this).1

end Tmv.Light
