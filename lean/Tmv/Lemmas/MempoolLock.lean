import Tmv.Model.MempoolLock
/-! Invariant of the v0 lock discipline (C05): the number of read locks held equals the number of
checkers whose request is on the connection; the committer's gate states hold the write lock. -/
namespace Tmv.MempoolLock

def isGate (p : Nat × KPC) : Bool := p.2 == .atGate

def gateCount (l : List (Nat × KPC)) : Nat := (l.filter isGate).length

def setL (l : List (Nat × KPC)) (i : Nat) (k : KPC) : List (Nat × KPC) :=
  l.map fun p => if p.1 = i then (i, k) else p

theorem setK_chk (s : MS) (i : Nat) (k : KPC) : (setK s i k).chk = setL s.chk i k := rfl

theorem setL_keys (l : List (Nat × KPC)) (i : Nat) (k : KPC) :
    (setL l i k).map (·.1) = l.map (·.1) := by
  induction l with
  | nil => rfl
  | cons p l ih =>
    simp only [setL, List.map_cons] at ih ⊢
    by_cases h : p.1 = i <;> simp [h, ih]

theorem setL_absent (l : List (Nat × KPC)) (i : Nat) (k : KPC) (h : ∀ p ∈ l, p.1 ≠ i) :
    setL l i k = l := by
  induction l with
  | nil => rfl
  | cons p l ih =>
    have hp : p.1 ≠ i := h p (by simp)
    have := ih (fun q hq => h q (by simp [hq]))
    simp only [setL, List.map_cons] at this ⊢
    simp [hp, this]

/-- with distinct ids, re-labelling checker `i` from `k0` to `k` moves the gate count by exactly
its own contribution -/
theorem setL_count (l : List (Nat × KPC)) (i : Nat) (k0 k : KPC)
    (hn : (l.map (·.1)).Nodup) (hf : (l.find? (·.1 = i)).map (·.2) = some k0) :
    gateCount (setL l i k) + (if k0 = .atGate then 1 else 0)
      = gateCount l + (if k = .atGate then 1 else 0) := by
  induction l with
  | nil => simp at hf
  | cons p l ih =>
    have hn' : (l.map (·.1)).Nodup := (List.nodup_cons.mp (by simpa using hn)).2
    have hnot : p.1 ∉ l.map (·.1) := (List.nodup_cons.mp (by simpa using hn)).1
    by_cases hp : p.1 = i
    · have hk0 : p.2 = k0 := by simpa [List.find?, hp] using hf
      have habs : ∀ q ∈ l, q.1 ≠ i := by
        intro q hq he
        exact hnot (by rw [hp, ← he]; exact List.mem_map_of_mem hq)
      have hrest : setL l i k = l := setL_absent l i k habs
      have hcons : setL (p :: l) i k = (i, k) :: l := by
        simp only [setL, List.map_cons, hp, if_true] at hrest ⊢
        rw [hrest]
      rw [hcons]
      obtain ⟨p1, p2⟩ := p
      simp only at hk0 hp
      subst hk0
      by_cases h1 : p2 = .atGate <;> by_cases h2 : k = .atGate <;>
        simp [gateCount, List.filter_cons, isGate, h1, h2] <;> omega
    · have hf' : (l.find? (·.1 = i)).map (·.2) = some k0 := by
        simpa [List.find?, hp] using hf
      have := ih hn' hf'
      have hcons : setL (p :: l) i k = p :: setL l i k := by
        simp [setL, hp]
      rw [hcons]
      by_cases hg : isGate p = true
      · simp only [gateCount, List.filter_cons, hg, if_true, List.length_cons] at this ⊢
        omega
      · simp only [gateCount, List.filter_cons, hg] at this ⊢
        simpa using this

def holds : CPC → Bool
  | .flushGate => true
  | .commitGate => true
  | .recheckGate _ _ => true
  | _ => false

structure I0 (s : MS) : Prop where
  nodup : (s.chk.map (·.1)).Nodup
  cnt : s.readers = gateCount s.chk
  wr : s.writer = true → s.readers = 0
  cw : holds s.cpc = true → s.writer = true
  re : s.rechecks = []

theorem kpc_none_absent (s : MS) (i : Nat) (h : (kpc s i).isNone) : ∀ p ∈ s.chk, p.1 ≠ i := by
  intro p hp he
  have : (s.chk.find? (·.1 = i)) = none := by
    simpa [kpc] using h
  have := List.find?_eq_none.mp this p hp
  simp [he] at this

theorem I0.step {s s' : MS} {e : Ev} (h : I0 s) (hs : MempoolLock.step .v0 s e = some s') : I0 s' := by
  cases e with
  | spawnCheck i =>
    simp only [MempoolLock.step] at hs
    split at hs
    · rename_i hk
      cases hs
      have habs := kpc_none_absent s i hk
      refine ⟨?_, ?_, h.wr, h.cw, h.re⟩
      · simp only [List.map_append, List.map_cons, List.map_nil]
        refine List.nodup_append.mpr ⟨h.nodup, by simp, ?_⟩
        intro a ha b hb
        simp at hb
        subst hb
        obtain ⟨p, hp, rfl⟩ := List.mem_map.mp ha
        exact habs p hp
      · simp [gateCount, List.filter_append, isGate, h.cnt]
    · cases hs
  | prelude i =>
    simp only [MempoolLock.step] at hs
    split at hs
    · rename_i hk
      cases hs
      have hc := setL_count s.chk i .wantR .atGate h.nodup (by simpa [kpc] using hk.1)
      refine ⟨?_, ?_, ?_, h.cw, h.re⟩
      · simpa [setK_chk, setL_keys] using h.nodup
      · simp only [setK_chk] at hc ⊢
        have := h.cnt
        simp at hc
        show s.readers + 1 = gateCount (setL s.chk i KPC.atGate)
        omega
      · intro hw
        have : s.writer = true := hw
        simp [hk.2] at this
    · cases hs
  | relCheck i =>
    simp only [MempoolLock.step] at hs
    split at hs
    · rename_i hk
      cases hs
      have hc := setL_count s.chk i .atGate .done h.nodup (by simpa [kpc] using hk)
      refine ⟨?_, ?_, ?_, h.cw, h.re⟩
      · simpa [setK_chk, setL_keys] using h.nodup
      · have := h.cnt
        simp at hc
        show s.readers - 1 = gateCount (setL s.chk i KPC.done)
        omega
      · intro hw
        have := h.wr hw
        show s.readers - 1 = 0
        omega
    · simp at hs
  | addCheck i => simp [MempoolLock.step] at hs
  | spawnCommit =>
    simp only [MempoolLock.step] at hs
    split at hs
    · cases hs
      exact ⟨h.nodup, h.cnt, h.wr, by simp [holds], h.re⟩
    · cases hs
  | lockCommit =>
    simp only [MempoolLock.step] at hs
    split at hs
    · rename_i hk
      cases hs
      refine ⟨h.nodup, h.cnt, ?_, by simp, h.re⟩
      intro _
      have := hk.2
      simp [lockFree] at this
      exact this.2
    · cases hs
  | relFlush =>
    simp only [MempoolLock.step] at hs
    split at hs
    · rename_i hk
      cases hs
      have hw := h.cw (by simp [hk, holds])
      exact ⟨h.nodup, h.cnt, h.wr, fun _ => hw, h.re⟩
    · cases hs
  | relockCommit => simp [MempoolLock.step] at hs
  | relCommit =>
    simp only [MempoolLock.step] at hs
    split at hs
    · rename_i hk
      have hw := h.cw (by simp [hk, holds])
      split at hs
      · cases hs
        exact ⟨h.nodup, h.cnt, by simp, by simp [holds], h.re⟩
      · cases hs
        exact ⟨h.nodup, h.cnt, h.wr, fun _ => hw, h.re⟩
    · cases hs
  | relRecheck j =>
    simp only [MempoolLock.step] at hs
    split at hs
    · rename_i cur left hk
      have hw := h.cw (by simp [hk, holds])
      split at hs
      · split at hs
        · cases hs
          exact ⟨h.nodup, h.cnt, by simp, by simp [holds], h.re⟩
        · cases hs
          exact ⟨h.nodup, h.cnt, h.wr, fun _ => hw, h.re⟩
      · cases hs
    · cases hs
  | handleRecheck => simp [MempoolLock.step] at hs
  | retCheck i => simp [MempoolLock.step] at hs
  | retRecheck => simp [MempoolLock.step] at hs

theorem I0.run {s s' : MS} {es : List Ev} (h : I0 s) (hs : MempoolLock.run .v0 s es = some s') : I0 s' := by
  induction es generalizing s with
  | nil => simp [MempoolLock.run] at hs; subst hs; exact h
  | cons e es ih =>
    simp only [MempoolLock.run] at hs
    cases he : MempoolLock.step .v0 s e with
    | none => simp [he] at hs
    | some s1 =>
      rw [he] at hs
      exact ih (h.step he) hs

theorem I0.init (p : Nat) : I0 { pool := p } :=
  ⟨by simp, by simp [gateCount], by simp, by simp [holds], rfl⟩

theorem any_gate_of_count (l : List (Nat × KPC)) (h : gateCount l = 0) :
    l.any (fun p => p.2 == KPC.atGate) = false := by
  induction l with
  | nil => simp
  | cons p l ih =>
    by_cases hp : isGate p = true
    · simp [gateCount, List.filter_cons, hp] at h
    · have hp' : (p.2 == KPC.atGate) = false := by simpa [isGate] using hp
      have hl : gateCount l = 0 := by simpa [gateCount, List.filter_cons, hp] using h
      simp only [List.any_cons, hp', Bool.false_or]
      exact ih hl

theorem checkInFlight_of_count (s : MS) (h : gateCount s.chk = 0) : checkInFlight s = false :=
  any_gate_of_count s.chk h

/-- v1: while the commit request is outstanding the committer holds the exclusive lock -/
structure I1 (s : MS) : Prop where
  cw : s.cpc = .commitGate → s.writer = true

theorem I1.step {s s' : MS} {e : Ev} (h : I1 s) (hs : MempoolLock.step .v1 s e = some s') : I1 s' := by
  cases e <;> simp only [MempoolLock.step] at hs
  case spawnCheck i => split at hs <;> cases hs; exact ⟨h.cw⟩
  case prelude i => split at hs <;> cases hs; exact ⟨h.cw⟩
  case relCheck i => split at hs <;> first | (cases hs; exact ⟨h.cw⟩) | simp at hs
  case addCheck i => split at hs <;> cases hs; exact ⟨h.cw⟩
  case spawnCommit => split at hs <;> cases hs; exact ⟨by simp⟩
  case lockCommit => split at hs <;> cases hs; exact ⟨by simp⟩
  case relFlush => split at hs <;> cases hs; exact ⟨by simp⟩
  case relockCommit => split at hs <;> cases hs; exact ⟨by simp⟩
  case relCommit => split at hs <;> cases hs; exact ⟨by simp⟩
  case relRecheck j => split at hs <;> cases hs; exact ⟨h.cw⟩
  case handleRecheck => split at hs <;> cases hs; exact ⟨h.cw⟩
  case retCheck i => simp at hs
  case retRecheck => simp at hs

theorem I1.run {s s' : MS} {es : List Ev} (h : I1 s) (hs : MempoolLock.run .v1 s es = some s') : I1 s' := by
  induction es generalizing s with
  | nil => simp [MempoolLock.run] at hs; subst hs; exact h
  | cons e es ih =>
    simp only [MempoolLock.run] at hs
    cases he : MempoolLock.step .v1 s e with
    | none => simp [he] at hs
    | some s1 =>
      rw [he] at hs
      exact ih (h.step he) hs

/-! ## v0 over an asynchronous connection -/

theorem ncbr_of_all_checks (q : List (Bool × Nat)) (h : q.all (fun x => !x.1) = true) :
    noCheckBeforeRecheck q = true := by
  induction q with
  | nil => rfl
  | cons x r ih =>
    obtain ⟨b, i⟩ := x
    simp only [List.all_cons, Bool.and_eq_true] at h
    cases b with
    | true => simp at h
    | false => simpa [noCheckBeforeRecheck] using h.2

theorem ncbr_append_check (q : List (Bool × Nat)) (i : Nat) (h : noCheckBeforeRecheck q = true) :
    noCheckBeforeRecheck (q ++ [(false, i)]) = true := by
  induction q with
  | nil => simp [noCheckBeforeRecheck]
  | cons x r ih =>
    obtain ⟨b, j⟩ := x
    cases b with
    | true => simpa [noCheckBeforeRecheck] using ih (by simpa [noCheckBeforeRecheck] using h)
    | false =>
      simp only [List.cons_append, noCheckBeforeRecheck] at h ⊢
      simp [List.all_append, h]

theorem ncbr_tail (q : List (Bool × Nat)) (h : noCheckBeforeRecheck q = true) :
    noCheckBeforeRecheck q.tail = true := by
  cases q with
  | nil => rfl
  | cons x r =>
    obtain ⟨b, j⟩ := x
    cases b with
    | true => simpa [noCheckBeforeRecheck] using h
    | false => exact ncbr_of_all_checks r (by simpa [noCheckBeforeRecheck] using h)

theorem ncbr_rechecks (l : List Nat) : noCheckBeforeRecheck (l.map fun k => (true, k)) = true := by
  induction l with
  | nil => rfl
  | cons k r ih => simpa [noCheckBeforeRecheck] using ih

/-- invariant of v0 over an asynchronous connection: the committer's gate states hold the write
lock; the commit is requested only on a drained connection; every in-flight checker is in the
queue; no new check is queued in front of a recheck -/
structure IA (s : MS) : Prop where
  cw : holds s.cpc = true → s.writer = true
  cq : s.cpc = .commitGate → s.queue = []
  fl : ∀ p ∈ s.chk, p.2 = .atGate → (false, p.1) ∈ s.queue
  ord : noCheckBeforeRecheck s.queue = true
  re : s.rechecks = []
  nrg : ∀ a b, s.cpc ≠ .recheckGate a b

theorem mem_setL {l : List (Nat × KPC)} {i : Nat} {k : KPC} {p : Nat × KPC} (h : p ∈ setL l i k) :
    (p = (i, k)) ∨ (p ∈ l ∧ p.1 ≠ i) := by
  simp only [setL, List.mem_map] at h
  obtain ⟨q, hq, rfl⟩ := h
  by_cases hqi : q.1 = i
  · left; simp [hqi]
  · right; simp [hqi, hq]

theorem IA.step {s s' : MS} {e : Ev} (h : IA s) (hs : MempoolLock.step .v0a s e = some s') : IA s' := by
  cases e <;> simp only [MempoolLock.step] at hs
  case spawnCheck i =>
    split at hs <;> cases hs
    refine ⟨h.cw, h.cq, ?_, h.ord, h.re, h.nrg⟩
    intro p hp hg
    rcases List.mem_append.mp hp with hp | hp
    · exact h.fl p hp hg
    · simp at hp; subst hp; simp at hg
  case prelude i =>
    split at hs <;> cases hs
    rename_i hk
    refine ⟨h.cw, ?_, ?_, ncbr_append_check _ _ h.ord, h.re, h.nrg⟩
    · intro hc
      have hc' : s.cpc = .commitGate := hc
      have := h.cw (by simp [hc', holds])
      simp [hk.2] at this
    · intro p hp hg
      rcases mem_setL (by simpa [setK_chk] using hp) with rfl | ⟨hp', _⟩
      · simp
      · exact List.mem_append_left _ (h.fl p hp' hg)
  case relCheck i =>
    split at hs
    · split at hs
      · rename_i hk hq
        cases hs
        refine ⟨h.cw, ?_, ?_, ncbr_tail _ h.ord, h.re, h.nrg⟩
        · intro hc
          have := h.cq hc
          simp [this]
        · intro p hp hg
          rcases mem_setL (by simpa [setK_chk] using hp) with rfl | ⟨hp', hne⟩
          · simp at hg
          · have hm := h.fl p hp' hg
            cases hqq : s.queue with
            | nil => simp [hqq] at hm
            | cons x r =>
              rw [hqq] at hm hq
              simp only [List.head?_cons, Option.some.injEq] at hq
              subst hq
              simp only [List.mem_cons, Prod.mk.injEq, true_and] at hm
              rcases hm with hm | hm
              · exact absurd hm hne
              · simpa using hm
      · cases hs
    · simp at hs
  case addCheck i => simp at hs
  case spawnCommit =>
    split at hs <;> cases hs
    exact ⟨by simp [holds], by simp, h.fl, h.ord, h.re, by simp⟩
  case lockCommit =>
    split at hs <;> cases hs
    exact ⟨by simp, by simp, h.fl, h.ord, h.re, by simp⟩
  case relFlush =>
    split at hs
    · rename_i hk
      split at hs
      · rename_i hq
        cases hs
        exact ⟨fun _ => h.cw (by simp [hk, holds]), fun _ => hq, h.fl, h.ord, h.re, by simp⟩
      · cases hs
    · cases hs
  case relockCommit => simp at hs
  case relCommit =>
    split at hs <;> cases hs
    rename_i hk
    have hq := h.cq hk
    refine ⟨by simp [holds], by simp, ?_, ?_, h.re, by simp⟩
    · intro p hp hg
      have := h.fl p hp hg
      simp [hq] at this
    · show noCheckBeforeRecheck (s.queue ++ _) = true
      rw [hq, List.nil_append]
      have := ncbr_rechecks ((List.range s.pool).map (· + s.nextRecheck))
      rw [List.map_map] at this
      exact this
  case relRecheck j =>
    split at hs <;> cases hs
    refine ⟨h.cw, ?_, ?_, ncbr_tail _ h.ord, h.re, h.nrg⟩
    · intro hc
      have := h.cq hc
      simp [this]
    · intro p hp hg
      rename_i hq
      have hm := h.fl p hp hg
      cases hqq : s.queue with
      | nil => simp [hqq] at hm
      | cons x r =>
        rw [hqq] at hm hq
        simp only [List.head?_cons, Option.some.injEq] at hq
        subst hq
        simpa using hm
  case handleRecheck => simp at hs
  case retCheck i => simp at hs
  case retRecheck => simp at hs

theorem IA.run {s s' : MS} {es : List Ev} (h : IA s) (hs : MempoolLock.run .v0a s es = some s') : IA s' := by
  induction es generalizing s with
  | nil => simp [MempoolLock.run] at hs; subst hs; exact h
  | cons e es ih =>
    simp only [MempoolLock.run] at hs
    cases he : MempoolLock.step .v0a s e with
    | none => simp [he] at hs
    | some s1 =>
      rw [he] at hs
      exact ih (h.step he) hs

theorem IA.init (p : Nat) : IA { pool := p } :=
  ⟨by simp [holds], by simp, by simp, rfl, rfl, by simp⟩

/-! ## v0 over a general connection -/

/-- invariant: read locks = blocking checker calls; the write lock excludes them; the committer's
gate states hold the write lock; inside the commit window no checker call has returned unanswered -/
structure IG (s : MS) : Prop where
  nodup : (s.chk.map (·.1)).Nodup
  cnt : s.readers = gateCount s.chk
  wr : s.writer = true → s.readers = 0
  cw : holds s.cpc = true → s.writer = true
  cq : inCommitWindow s = true → ∀ p ∈ s.chk, p.2 ≠ .queued

theorem window_holds {s : MS} (h : inCommitWindow s = true) : holds s.cpc = true := by
  revert h; simp only [inCommitWindow]; cases s.cpc <;> simp [holds]

theorem IG.step {s s' : MS} {e : Ev} (h : IG s) (hs : MempoolLock.step .v0g s e = some s') : IG s' := by
  cases e <;> simp only [MempoolLock.step] at hs
  case spawnCheck i =>
    split at hs <;> cases hs
    rename_i hk
    have habs := kpc_none_absent s i hk
    refine ⟨?_, ?_, h.wr, h.cw, ?_⟩
    · simp only [List.map_append, List.map_cons, List.map_nil]
      refine List.nodup_append.mpr ⟨h.nodup, by simp, ?_⟩
      intro a ha b hb
      simp at hb
      subst hb
      obtain ⟨p, hp, rfl⟩ := List.mem_map.mp ha
      exact habs p hp
    · simp [gateCount, List.filter_append, isGate, h.cnt]
    · intro hw p hp
      rcases List.mem_append.mp hp with hp | hp
      · exact h.cq hw p hp
      · simp at hp; subst hp; simp
  case prelude i =>
    split at hs <;> cases hs
    rename_i hk
    have hc := setL_count s.chk i .wantR .atGate h.nodup (by simpa [kpc] using hk.1)
    refine ⟨by simpa [setK_chk, setL_keys] using h.nodup, ?_, ?_, h.cw, ?_⟩
    · have := h.cnt
      simp at hc
      show s.readers + 1 = gateCount (setL s.chk i KPC.atGate)
      omega
    · intro hw
      have : s.writer = true := hw
      simp [hk.2] at this
    · intro hw
      have hwr : s.writer = true := h.cw (window_holds hw)
      simp [hk.2] at hwr
  case relCheck i =>
    split at hs
    · rename_i hk
      cases hs
      have hc := setL_count s.chk i .atGate .done h.nodup (by simpa [kpc] using hk)
      refine ⟨by simpa [setK_chk, setL_keys] using h.nodup, ?_, ?_, h.cw, ?_⟩
      · have := h.cnt
        simp at hc
        show s.readers - 1 = gateCount (setL s.chk i KPC.done)
        omega
      · intro hw
        have := h.wr hw
        show s.readers - 1 = 0
        omega
      · intro hw p hp
        rcases mem_setL (by simpa [setK_chk] using hp) with rfl | ⟨hp', _⟩
        · simp
        · exact h.cq hw p hp'
    · split at hs
      · rename_i hk
        cases hs
        have hc := setL_count s.chk i .queued .done h.nodup (by simpa [kpc] using hk.2)
        refine ⟨by simpa [setK_chk, setL_keys] using h.nodup, ?_, h.wr, h.cw, ?_⟩
        · have := h.cnt
          simp at hc
          show s.readers = gateCount (setL s.chk i KPC.done)
          omega
        · intro hw p hp
          rcases mem_setL (by simpa [setK_chk] using hp) with rfl | ⟨hp', _⟩
          · simp
          · exact h.cq hw p hp'
      · cases hs
  case addCheck i => simp at hs
  case spawnCommit =>
    split at hs <;> cases hs
    exact ⟨h.nodup, h.cnt, h.wr, by simp [holds], by simp [inCommitWindow]⟩
  case lockCommit =>
    split at hs <;> cases hs
    rename_i hk
    refine ⟨h.nodup, h.cnt, ?_, by simp, by simp [inCommitWindow]⟩
    intro _
    have := hk.2
    simp [lockFree] at this
    exact this.2
  case relFlush =>
    split at hs
    · rename_i hk
      split at hs
      · rename_i hq
        cases hs
        refine ⟨h.nodup, h.cnt, h.wr, fun _ => h.cw (by simp [hk, holds]), ?_⟩
        intro _ p hp
        have := hq.1
        simp only [List.all_eq_true] at this
        simpa using this p hp
      · cases hs
    · cases hs
  case relockCommit => simp at hs
  case relCommit =>
    split at hs
    · rename_i hk
      have hwin : inCommitWindow s = true := by simp [inCommitWindow, hk]
      have hw := h.cw (window_holds hwin)
      split at hs <;> cases hs
      · exact ⟨h.nodup, h.cnt, by simp, by simp [holds], by simp [inCommitWindow]⟩
      · exact ⟨h.nodup, h.cnt, h.wr, fun _ => hw, fun _ => h.cq hwin⟩
    · cases hs
  case relRecheck j =>
    split at hs
    · rename_i cur left hk
      have hwin : inCommitWindow s = true := by simp [inCommitWindow, hk]
      have hw := h.cw (window_holds hwin)
      split at hs
      · split at hs <;> cases hs
        · exact ⟨h.nodup, h.cnt, by simp, by simp [holds], by simp [inCommitWindow]⟩
        · exact ⟨h.nodup, h.cnt, h.wr, fun _ => hw, fun _ => h.cq hwin⟩
      · split at hs <;> cases hs
        exact ⟨h.nodup, h.cnt, h.wr, h.cw, fun hw' => h.cq (by simpa [inCommitWindow] using hw')⟩
    · split at hs <;> cases hs
      exact ⟨h.nodup, h.cnt, h.wr, h.cw, fun hw' => h.cq (by simpa [inCommitWindow] using hw')⟩
  case handleRecheck => simp at hs
  case retCheck i =>
    split at hs <;> cases hs
    rename_i hk
    have hc := setL_count s.chk i .atGate .queued h.nodup (by simpa [kpc] using hk.2)
    have hcnt := h.cnt
    simp at hc
    refine ⟨by simpa [setK_chk, setL_keys] using h.nodup, ?_, ?_, h.cw, ?_⟩
    · show s.readers - 1 = gateCount (setL s.chk i KPC.queued)
      omega
    · intro hw
      have := h.wr hw
      show s.readers - 1 = 0
      omega
    · -- a blocking call exists, so the write lock is not held: not inside the window
      intro hw
      have hwr : s.writer = true := h.cw (window_holds hw)
      have := h.wr hwr
      omega
  case retRecheck =>
    split at hs
    · split at hs
      · rename_i cur left hk
        have hwin : inCommitWindow s = true := by simp [inCommitWindow, hk]
        have hw := h.cw (window_holds hwin)
        split at hs <;> cases hs
        · exact ⟨h.nodup, h.cnt, by simp, by simp [holds], by simp [inCommitWindow]⟩
        · exact ⟨h.nodup, h.cnt, h.wr, fun _ => hw, fun _ => h.cq hwin⟩
      · cases hs
    · cases hs

theorem IG.run {s s' : MS} {es : List Ev} (h : IG s) (hs : MempoolLock.run .v0g s es = some s') : IG s' := by
  induction es generalizing s with
  | nil => simp [MempoolLock.run] at hs; subst hs; exact h
  | cons e es ih =>
    simp only [MempoolLock.run] at hs
    cases he : MempoolLock.step .v0g s e with
    | none => simp [he] at hs
    | some s1 =>
      rw [he] at hs
      exact ih (h.step he) hs

theorem IG.init (p : Nat) : IG { pool := p } :=
  ⟨by simp, by simp [gateCount], by simp, by simp [holds], by simp [inCommitWindow]⟩

/-! ## v1 over the asynchronous connection -/

/-- what survives of v1's discipline: the committer holds the exclusive lock while the commit is
requested; and a flush still pending has exactly the requests in front of it that are counted -/
structure I1A (s : MS) : Prop where
  cw : s.cpc = .commitGate → s.writer = true
  fl : s.flushAfter ≤ s.queue.length

theorem I1A.step {s s' : MS} {e : Ev} (h : I1A s) (hs : MempoolLock.step .v1a s e = some s') : I1A s' := by
  cases e <;> simp only [MempoolLock.step] at hs
  case spawnCheck i => split at hs <;> cases hs; exact ⟨h.cw, h.fl⟩
  case prelude i =>
    split at hs <;> cases hs
    refine ⟨h.cw, ?_⟩
    have := h.fl
    show s.flushAfter ≤ (s.queue ++ [(false, i)]).length
    simp; omega
  case relCheck i =>
    split at hs
    · split at hs <;> cases hs
      refine ⟨h.cw, ?_⟩
      have := h.fl
      show s.flushAfter - 1 ≤ s.queue.tail.length
      simp; omega
    · simp at hs
  case addCheck i => split at hs <;> cases hs; exact ⟨h.cw, h.fl⟩
  case spawnCommit => split at hs <;> cases hs; exact ⟨by simp, h.fl⟩
  case lockCommit => split at hs <;> cases hs; exact ⟨by simp, Nat.le_refl _⟩
  case relFlush =>
    split at hs
    · split at hs <;> cases hs
      exact ⟨by simp, h.fl⟩
    · cases hs
  case relockCommit => split at hs <;> cases hs; exact ⟨by simp, h.fl⟩
  case relCommit =>
    split at hs <;> cases hs
    exact ⟨by simp, by have := h.fl; simp; omega⟩
  case relRecheck j =>
    split at hs <;> cases hs
    refine ⟨h.cw, ?_⟩
    have := h.fl
    show s.flushAfter - 1 ≤ s.queue.tail.length
    simp; omega
  case handleRecheck => split at hs <;> cases hs; exact ⟨h.cw, h.fl⟩
  case retCheck i => simp at hs
  case retRecheck => simp at hs

theorem I1A.run {s s' : MS} {es : List Ev} (h : I1A s) (hs : MempoolLock.run .v1a s es = some s') : I1A s' := by
  induction es generalizing s with
  | nil => simp [MempoolLock.run] at hs; subst hs; exact h
  | cons e es ih =>
    simp only [MempoolLock.run] at hs
    cases he : MempoolLock.step .v1a s e with
    | none => simp [he] at hs
    | some s1 =>
      rw [he] at hs
      exact ih (h.step he) hs

/-! every run of the local-client discipline `v0` is a run of the general discipline `v0g` -/

def noQ (s : MS) : Prop := (∀ p ∈ s.chk, p.2 ≠ KPC.queued) ∧ s.rechecks = []

theorem noQ_setK {s : MS} {i : Nat} {k : KPC} (h : ∀ p ∈ s.chk, p.2 ≠ KPC.queued) (hk : k ≠ .queued) :
    ∀ p ∈ (setK s i k).chk, p.2 ≠ KPC.queued := by
  intro p hp
  rcases mem_setL (by simpa [setK_chk] using hp) with rfl | ⟨hp', _⟩
  · exact hk
  · exact h p hp'

theorem v0_step_in_v0g {s s' : MS} {e : Ev} (hq : noQ s) (h : MempoolLock.step .v0 s e = some s') :
    MempoolLock.step .v0g s e = some s' ∧ noQ s' := by
  cases e <;> simp only [MempoolLock.step] at h ⊢
  case spawnCheck i =>
    split at h <;> cases h
    rename_i hk
    refine ⟨by simp [hk], ?_, hq.2⟩
    intro p hp
    rcases List.mem_append.mp hp with hp | hp
    · exact hq.1 p hp
    · simp at hp; subst hp; simp
  case prelude i =>
    split at h <;> cases h
    rename_i hk
    exact ⟨by simp [hk], noQ_setK hq.1 (by simp), hq.2⟩
  case relCheck i =>
    split at h
    · rename_i hk
      cases h
      exact ⟨by simp [hk], noQ_setK hq.1 (by simp), hq.2⟩
    · simp at h
  case addCheck i => simp at h
  case spawnCommit =>
    split at h <;> cases h
    rename_i hk
    exact ⟨by simp [hk], hq⟩
  case lockCommit =>
    split at h <;> cases h
    rename_i hk
    exact ⟨by simp [hk], hq⟩
  case relFlush =>
    split at h <;> cases h
    rename_i hk
    refine ⟨?_, hq⟩
    have : (s.chk.all fun p => p.2 != KPC.queued) = true := by
      simp only [List.all_eq_true]; intro p hp; simpa using hq.1 p hp
    simp [hk, this, hq.2]
  case relockCommit => simp at h
  case relCommit =>
    split at h
    · rename_i hk
      split at h <;> cases h
      · rename_i hp; exact ⟨by simp [hk, hp], hq⟩
      · rename_i hp; exact ⟨by simp [hk, hp], hq⟩
    · cases h
  case relRecheck j =>
    split at h
    · rename_i cur left hk
      split at h
      · rename_i hj
        split at h <;> cases h
        · rename_i hl; exact ⟨by simp [hj, hl], hq⟩
        · rename_i hl; exact ⟨by simp [hj, hl], hq⟩
      · cases h
    · cases h
  case handleRecheck => simp at h
  case retCheck i => simp at h
  case retRecheck => simp at h

theorem v0_run_in_v0g {s s' : MS} {es : List Ev} (hq : noQ s) (h : MempoolLock.run .v0 s es = some s') :
    MempoolLock.run .v0g s es = some s' := by
  induction es generalizing s with
  | nil => simpa [MempoolLock.run] using h
  | cons e es ih =>
    simp only [MempoolLock.run] at h ⊢
    cases he : MempoolLock.step .v0 s e with
    | none => simp [he] at h
    | some s1 =>
      rw [he] at h
      obtain ⟨h1, h2⟩ := v0_step_in_v0g hq he
      rw [h1]
      exact ih h2 h

end Tmv.MempoolLock
