import Tmv.Model.Syncer
/-! Helper lemmas for C14: step specifications of the chunk queue and stability of a recorded
arrival under every operation that does not discard it. -/
namespace Tmv.StateSync.Thm
open Tmv Tmv.StateSync Tmv.StateSync.Queue

theorem find_range_min {n : Nat} {p : Nat → Bool} {i : Nat} (h : (List.range n).find? p = some i) :
    i < n ∧ p i = true ∧ ∀ j, j < i → p j = false := by
  rw [List.find?_range_eq_some] at h
  obtain ⟨h1, h2, h3⟩ := h
  refine ⟨by simpa using h2, h1, ?_⟩
  intro j hj
  simpa using h3 j hj

/-- **chunks_in_index_order** (queue): `Next` hands out the lowest index that is not currently
returned, marks exactly that index returned, and hands it out with the bytes and sender that are
recorded for it. -/
theorem next_chunk_spec {q q' : Queue} {c : Chunk} (h : q.next = .chunk c q') :
    ∃ s body, q.snap = some s ∧ c.index < s.chunks ∧ q.returned c.index = false ∧
      (∀ j, j < c.index → q.returned j = true) ∧
      q.files c.index = some body ∧ c.body = some body ∧ c.sender = (q.senders c.index).getD "" ∧
      c.height = s.height ∧ c.format = s.format ∧
      q' = { q with returned := upd q.returned c.index true } := by
  unfold Queue.next at h
  split at h
  · rename_i s i hs hi
    unfold nextUp at hi
    rw [hs] at hi
    simp only at hi
    obtain ⟨h1, h2, h3⟩ := find_range_min hi
    split at h
    · cases h
    · rename_i body hb
      injection h with hc hq
      subst hc
      refine ⟨s, body, hs, h1, by simpa using h2, ?_, hb, rfl, rfl, rfl, rfl, hq.symm⟩
      intro j hj
      simpa using h3 j hj
  · cases h

/-- where `Next` blocks: on the lowest unreturned index, and only because nothing is recorded
for it -/
theorem next_wait_spec {q : Queue} {i : Nat} (h : q.next = .wait i) :
    ∃ s, q.snap = some s ∧ i < s.chunks ∧ q.returned i = false ∧ (∀ j, j < i → q.returned j = true) ∧
      q.files i = none := by
  unfold Queue.next at h
  split at h
  · rename_i s i' hs hi
    unfold nextUp at hi
    rw [hs] at hi
    simp only at hi
    obtain ⟨h1, h2, h3⟩ := find_range_min hi
    split at h
    · rename_i hb
      injection h with hi'
      subst hi'
      exact ⟨s, hs, h1, by simpa using h2, fun j hj => by simpa using h3 j hj, hb⟩
    · cases h
  · cases h

/-- `Next` reports completion only when every chunk is returned (or the queue is closed) -/
theorem next_done_spec {q : Queue} (h : q.next = .done) :
    q.snap = none ∨ ∃ s, q.snap = some s ∧ ∀ j, j < s.chunks → q.returned j = true := by
  unfold Queue.next at h
  split at h
  · split at h <;> cases h
  · rename_i hno
    cases hs : q.snap with
    | none => left; rfl
    | some s =>
      right
      refine ⟨s, rfl, ?_⟩
      cases hn : nextUp q with
      | some i => exact absurd hn (hno s i hs)
      | none =>
        unfold nextUp at hn
        rw [hs] at hn
        simp only at hn
        rw [List.find?_eq_none] at hn
        intro j hj
        have := hn j (List.mem_range.mpr hj)
        simpa using this


theorem add_added_spec {q q1 : Queue} {c : Chunk} (h : q.add c = (q1, .added)) :
    ∃ s body, c.body = some body ∧ q.snap = some s ∧ c.height = s.height ∧ c.format = s.format ∧
      c.index < s.chunks ∧ q.files c.index = none ∧
      q1 = { q with files := upd q.files c.index (some body),
                    senders := upd q.senders c.index (some c.sender) } := by
  unfold Queue.add at h
  split at h
  · cases h
  · rename_i body hb
    split at h
    · cases h
    · rename_i s hs
      split at h
      · cases h
      · split at h
        · cases h
        · split at h
          · cases h
          · split at h
            · cases h
            · rename_i h1 h2 h3 h4
              injection h with hq _
              refine ⟨s, body, hb, hs, by simpa using h1, by simpa using h2, by omega, ?_, hq.symm⟩
              cases hf : q.files c.index with
              | none => rfl
              | some _ => simp [hf] at h4

theorem add_other_unchanged {q q1 : Queue} {c : Chunk} {r : AddRes} (h : q.add c = (q1, r))
    (hr : r ≠ .added) : q1 = q := by
  unfold Queue.add at h
  repeat' split at h
  all_goals first
    | (injection h with hq hr'; first | exact hq.symm | (subst hr'; exact absurd rfl hr))

inductive QOp
  | add (c : Chunk) | allocate | close | discard (i : Nat) | discardSender (p : String) | next
  | retry (i : Nat) | retryAll

def qstep (q : Queue) : QOp → Queue
  | .add c => (q.add c).1
  | .allocate => q.allocate.1
  | .close => q.close
  | .discard i => q.discard i
  | .discardSender p => q.discardSender p
  | .next => match q.next with
    | .chunk _ q' => q'
    | _ => q
  | .retry i => q.retry i
  | .retryAll => q.retryAll

def qrun (q : Queue) (ops : List QOp) : Queue := ops.foldl qstep q

/-- the only operations that can remove the record of chunk `i` sent by `p` -/
def removes (i : Nat) (p : String) : QOp → Bool
  | .discard j => j = i
  | .discardSender p' => p' = p
  | _ => false

theorem record_stable_step {q : Queue} {i : Nat} {b : Bytes} {p : String} (op : QOp)
    (hf : q.files i = some b) (hs : q.senders i = some p) (hop : removes i p op = false) :
    (qstep q op).files i = some b ∧ (qstep q op).senders i = some p := by
  cases op with
  | add c =>
    simp only [qstep]
    cases hr : q.add c with
    | mk q1 r =>
      by_cases hra : r = .added
      · subst hra
        obtain ⟨s, body, _, _, _, _, _, hnone, rfl⟩ := add_added_spec hr
        have hne : i ≠ c.index := by intro h; subst h; rw [hf] at hnone; cases hnone
        simp [upd, hne, hf, hs]
      · rw [add_other_unchanged hr hra]; exact ⟨hf, hs⟩
  | allocate =>
    simp only [qstep, Queue.allocate]
    repeat' split
    all_goals exact ⟨hf, hs⟩
  | close => exact ⟨hf, hs⟩
  | discard j =>
    have hne : i ≠ j := by intro h; subst h; simp [removes] at hop
    simp only [qstep, Queue.discard]
    repeat' split
    all_goals simp [upd, hne, hf, hs]
  | discardSender p' =>
    have hne : p' ≠ p := by intro h; subst h; simp [removes] at hop
    have hne' : ¬ p = p' := fun h => hne h.symm
    simp only [qstep, Queue.discardSender]
    split <;> simp [hs, hf, hne']
  | next =>
    simp only [qstep]
    split
    · rename_i c q' h
      obtain ⟨_, _, _, _, _, _, _, _, _, _, _, rfl⟩ := next_chunk_spec h
      exact ⟨hf, hs⟩
    · exact ⟨hf, hs⟩
  | retry j => exact ⟨hf, hs⟩
  | retryAll => exact ⟨hf, hs⟩


theorem record_stable {i : Nat} {b : Bytes} {p : String} (ops : List QOp) :
    ∀ (q : Queue), q.files i = some b → q.senders i = some p →
      (∀ op ∈ ops, removes i p op = false) →
      (qrun q ops).files i = some b ∧ (qrun q ops).senders i = some p := by
  induction ops with
  | nil => intro q hf hs _; exact ⟨hf, hs⟩
  | cons op rest ih =>
    intro q hf hs hall
    obtain ⟨h1, h2⟩ := record_stable_step op hf hs (hall op (by simp))
    exact ih (qstep q op) h1 h2 (fun o ho => hall o (by simp [ho]))


end Tmv.StateSync.Thm
