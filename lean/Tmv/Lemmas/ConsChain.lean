import Tmv.Lemmas.ConsSign
/-! Generic propagation through every function of the consensus model `Tmv.Cons` (same chaining
technique as `Lemmas/ConsSign.lean`, for an arbitrary relation): any relation `R` between the output
list and the abstract signer state that is kept by appending a non-signature output and by a
successful `sign` followed by its output is kept by `Cons.step` / `Cons.run` — unless the node
panicked (`halted`), which in the real code is the death of the process. Used by
`Lemmas/SignCons.lean` to chain the call-by-call agreement of the two signers through a whole step. -/
namespace Tmv.Cons

structure ChainClosed (c : Cfg) (R : List Output → Option (Nat × Nat × Payload) → Prop) : Prop where
  other : ∀ out lss o, R out lss → sigKey o = none → R (out ++ [o]) lss
  signed : ∀ (s s' : NodeState) r cd p o, R s.out s.lss → sign c s r cd p = some s' →
    sigKey o = some (r, cd, p) → R (s'.out ++ [o]) s'.lss

syntax "cinv_step " term : tactic
macro_rules | `(tactic| cinv_step $_) => `(tactic| assumption)
macro_rules | `(tactic| cinv_step $_) => `(tactic| rfl)
macro "cinv " hc:term : tactic =>
  `(tactic| repeat' (first | cinv_step $hc | (dsimp only; cinv_step $hc)))

attribute [local irreducible] emit panicWith sign signAddVote decideProposal doPrevote enterPrevote enterPropose
  enterNewRound newRoundReset enterPrevoteWait unlock enterPrecommit enterPrecommitWait finalizeCommit tryFinalizeCommit
  enterCommit setProposal handleCompleteProposal addBlockPart addVote onPolka prevoteTransitions afterPrevote afterPrecommit handleInternal handleTimeout
  handleTxsAvailable handleInput drain step run HVS.addVote HVS.setRound HVS.setPeerMaj23 HVS.polRound
  isProposalComplete maj23Of hasAnyOf hashesTo hasHeader

section
variable {c : Cfg} {R : List Output → Option (Nat × Nat × Payload) → Prop} (hc : ChainClosed c R)

include hc

theorem emit_chain {s : NodeState} (o : Output) (ho : sigKey o = none) (h : s.halted = true ∨ R s.out s.lss) :
    (emit s o).halted = true ∨ R (emit s o).out (emit s o).lss := by
  unfold emit; split
  · exact h
  · rename_i hh
    rcases h with h | h
    · exact absurd h hh
    · exact Or.inr (hc.other _ _ _ h ho)
macro_rules | `(tactic| cinv_step $hc) => `(tactic| apply emit_chain $hc)

omit hc in
theorem panicWith_chain {s : NodeState} (w : String) (h : s.halted = true ∨ R s.out s.lss) :
    (panicWith s w).halted = true ∨ R (panicWith s w).out (panicWith s w).lss := by
  unfold panicWith; split
  · exact h
  · exact Or.inl rfl
macro_rules | `(tactic| cinv_step $_) => `(tactic| apply panicWith_chain)

theorem signed_emit_chain {s s' : NodeState} {r cd : Nat} {p : Payload} (o : Output)
    (h : s.halted = true ∨ R s.out s.lss) (hsig : sign c s r cd p = some s')
    (ho : sigKey o = some (r, cd, p)) :
    (emit s' o).halted = true ∨ R (emit s' o).out (emit s' o).lss := by
  have hf := sign_fields hsig
  unfold emit; split
  · rename_i hh; exact Or.inl hh
  · rename_i hh
    rcases h with h | h
    · rw [← hf.2.2.1] at h; exact absurd h hh
    · exact Or.inr (hc.signed s s' r cd p o h hsig ho)

theorem signAddVote_chain {s : NodeState} (t : VType) (bid : Bid) (h : s.halted = true ∨ R s.out s.lss) :
    (signAddVote c s t bid).halted = true ∨ R (signAddVote c s t bid).out (signAddVote c s t bid).lss := by
  unfold signAddVote
  split
  · exact h
  · split
    · exact h
    · split
      · rename_i s' hsig
        exact signed_emit_chain hc (.signVote t s.round bid) h hsig (by simp [sigKey])
      · exact h
macro_rules | `(tactic| cinv_step $hc) => `(tactic| apply signAddVote_chain $hc)

theorem decideProposal_chain {s : NodeState} (round me : Nat) (h : s.halted = true ∨ R s.out s.lss) :
    (decideProposal c s round me).halted = true ∨ R (decideProposal c s round me).out (decideProposal c s round me).lss := by
  unfold decideProposal
  simp only []
  split
  · rename_i s' hsig
    exact signed_emit_chain hc (.signProposal round (s.validBlock.getD c.ownBlock) s.validRound) h hsig (by simp [sigKey])
  · exact h
macro_rules | `(tactic| cinv_step $hc) => `(tactic| apply decideProposal_chain $hc)

theorem doPrevote_chain {s : NodeState} (h : s.halted = true ∨ R s.out s.lss) :
    (doPrevote c s).halted = true ∨ R (doPrevote c s).out (doPrevote c s).lss := by
  unfold doPrevote; repeat' split
  all_goals cinv hc
macro_rules | `(tactic| cinv_step $hc) => `(tactic| apply doPrevote_chain $hc)

theorem enterPrevote_chain {s : NodeState} (r : Nat) (h : s.halted = true ∨ R s.out s.lss) :
    (enterPrevote c s r).halted = true ∨ R (enterPrevote c s r).out (enterPrevote c s r).lss := by
  unfold enterPrevote; (try simp only []); repeat' split
  all_goals cinv hc
macro_rules | `(tactic| cinv_step $hc) => `(tactic| apply enterPrevote_chain $hc)

theorem enterPropose_chain {s : NodeState} (r : Nat) (h : s.halted = true ∨ R s.out s.lss) :
    (enterPropose c s r).halted = true ∨ R (enterPropose c s r).out (enterPropose c s r).lss := by
  unfold enterPropose; (try simp only []); repeat' split
  all_goals cinv hc
macro_rules | `(tactic| cinv_step $hc) => `(tactic| apply enterPropose_chain $hc)

omit hc in
theorem newRoundReset_chain {s : NodeState} (r : Nat) (h : s.halted = true ∨ R s.out s.lss) :
    (newRoundReset s r).halted = true ∨ R (newRoundReset s r).out (newRoundReset s r).lss := by
  unfold newRoundReset; simp only []; split <;> exact h
macro_rules | `(tactic| cinv_step $_) => `(tactic| apply newRoundReset_chain)

theorem enterNewRound_chain {s : NodeState} (r : Nat) (h : s.halted = true ∨ R s.out s.lss) :
    (enterNewRound c s r).halted = true ∨ R (enterNewRound c s r).out (enterNewRound c s r).lss := by
  unfold enterNewRound; (try simp only []); repeat' split
  all_goals cinv hc
macro_rules | `(tactic| cinv_step $hc) => `(tactic| apply enterNewRound_chain $hc)

omit hc in
theorem unlock_chain {s : NodeState} (h : s.halted = true ∨ R s.out s.lss) : (unlock s).halted = true ∨ R (unlock s).out (unlock s).lss := by
  unfold unlock; exact h
macro_rules | `(tactic| cinv_step $_) => `(tactic| apply unlock_chain)

theorem enterPrevoteWait_chain {s : NodeState} (r : Nat) (h : s.halted = true ∨ R s.out s.lss) :
    (enterPrevoteWait c s r).halted = true ∨ R (enterPrevoteWait c s r).out (enterPrevoteWait c s r).lss := by
  unfold enterPrevoteWait; (try simp only []); repeat' split
  all_goals cinv hc
macro_rules | `(tactic| cinv_step $hc) => `(tactic| apply enterPrevoteWait_chain $hc)

theorem enterPrecommit_chain {s : NodeState} (r : Nat) (h : s.halted = true ∨ R s.out s.lss) :
    (enterPrecommit c s r).halted = true ∨ R (enterPrecommit c s r).out (enterPrecommit c s r).lss := by
  unfold enterPrecommit; (try simp only []); repeat' split
  all_goals cinv hc
macro_rules | `(tactic| cinv_step $hc) => `(tactic| apply enterPrecommit_chain $hc)

theorem enterPrecommitWait_chain {s : NodeState} (r : Nat) (h : s.halted = true ∨ R s.out s.lss) :
    (enterPrecommitWait c s r).halted = true ∨ R (enterPrecommitWait c s r).out (enterPrecommitWait c s r).lss := by
  unfold enterPrecommitWait; (try simp only []); repeat' split
  all_goals cinv hc
macro_rules | `(tactic| cinv_step $hc) => `(tactic| apply enterPrecommitWait_chain $hc)

theorem finalizeCommit_chain {s : NodeState} (h : s.halted = true ∨ R s.out s.lss) :
    (finalizeCommit c s).halted = true ∨ R (finalizeCommit c s).out (finalizeCommit c s).lss := by
  unfold finalizeCommit; (try simp only []); repeat' split
  all_goals cinv hc
macro_rules | `(tactic| cinv_step $hc) => `(tactic| apply finalizeCommit_chain $hc)

theorem tryFinalizeCommit_chain {s : NodeState} (h : s.halted = true ∨ R s.out s.lss) :
    (tryFinalizeCommit c s).halted = true ∨ R (tryFinalizeCommit c s).out (tryFinalizeCommit c s).lss := by
  unfold tryFinalizeCommit; (try simp only []); repeat' split
  all_goals cinv hc
macro_rules | `(tactic| cinv_step $hc) => `(tactic| apply tryFinalizeCommit_chain $hc)

theorem enterCommit_chain {s : NodeState} (r : Nat) (h : s.halted = true ∨ R s.out s.lss) :
    (enterCommit c s r).halted = true ∨ R (enterCommit c s r).out (enterCommit c s r).lss := by
  unfold enterCommit; (try simp only []); repeat' split
  all_goals cinv hc
macro_rules | `(tactic| cinv_step $hc) => `(tactic| apply enterCommit_chain $hc)

theorem setProposal_chain {s : NodeState} (p : Proposal) (h : s.halted = true ∨ R s.out s.lss) :
    (setProposal c s p).halted = true ∨ R (setProposal c s p).out (setProposal c s p).lss := by
  unfold setProposal; (try simp only []); repeat' split
  all_goals cinv hc
macro_rules | `(tactic| cinv_step $hc) => `(tactic| apply setProposal_chain $hc)

theorem handleCompleteProposal_chain {s : NodeState} (h : s.halted = true ∨ R s.out s.lss) :
    (handleCompleteProposal c s).halted = true ∨ R (handleCompleteProposal c s).out (handleCompleteProposal c s).lss := by
  unfold handleCompleteProposal; (try simp only []); repeat' split
  all_goals cinv hc
macro_rules | `(tactic| cinv_step $hc) => `(tactic| apply handleCompleteProposal_chain $hc)

theorem addBlockPart_chain {s : NodeState} (b : Nat) (h : s.halted = true ∨ R s.out s.lss) :
    (addBlockPart c s b).halted = true ∨ R (addBlockPart c s b).out (addBlockPart c s b).lss := by
  unfold addBlockPart; (try simp only []); repeat' split
  all_goals cinv hc
macro_rules | `(tactic| cinv_step $hc) => `(tactic| apply addBlockPart_chain $hc)

omit hc in
theorem onPolka_chain {s : NodeState} (vr : Nat) (bid : Bid) (h : s.halted = true ∨ R s.out s.lss) :
    (onPolka s vr bid).halted = true ∨ R (onPolka s vr bid).out (onPolka s vr bid).lss := by
  unfold onPolka; (try simp only []); repeat' split
  all_goals cinv hc
macro_rules | `(tactic| cinv_step $_) => `(tactic| apply onPolka_chain)

theorem prevoteTransitions_chain {s : NodeState} (vr : Nat) (h : s.halted = true ∨ R s.out s.lss) :
    (prevoteTransitions c s vr).halted = true ∨ R (prevoteTransitions c s vr).out (prevoteTransitions c s vr).lss := by
  unfold prevoteTransitions; (try simp only []); repeat' split
  all_goals cinv hc
macro_rules | `(tactic| cinv_step $hc) => `(tactic| apply prevoteTransitions_chain $hc)

theorem afterPrevote_chain {s : NodeState} (vr : Nat) (h : s.halted = true ∨ R s.out s.lss) :
    (afterPrevote c s vr).halted = true ∨ R (afterPrevote c s vr).out (afterPrevote c s vr).lss := by
  unfold afterPrevote; (try simp only []); repeat' split
  all_goals cinv hc
macro_rules | `(tactic| cinv_step $hc) => `(tactic| apply afterPrevote_chain $hc)

theorem afterPrecommit_chain {s : NodeState} (vr : Nat) (h : s.halted = true ∨ R s.out s.lss) :
    (afterPrecommit c s vr).halted = true ∨ R (afterPrecommit c s vr).out (afterPrecommit c s vr).lss := by
  unfold afterPrecommit; (try simp only []); repeat' split
  all_goals cinv hc
macro_rules | `(tactic| cinv_step $hc) => `(tactic| apply afterPrecommit_chain $hc)

theorem addVote_chain {s : NodeState} (v : Vote) (peer : Peer) (h : s.halted = true ∨ R s.out s.lss) :
    (addVote c s v peer).halted = true ∨ R (addVote c s v peer).out (addVote c s v peer).lss := by
  unfold addVote; (try simp only []); repeat' split
  all_goals cinv hc
macro_rules | `(tactic| cinv_step $hc) => `(tactic| apply addVote_chain $hc)

theorem handleInternal_chain {s : NodeState} (m : Internal) (h : s.halted = true ∨ R s.out s.lss) :
    (handleInternal c s m).halted = true ∨ R (handleInternal c s m).out (handleInternal c s m).lss := by
  unfold handleInternal; (try simp only []); repeat' split
  all_goals cinv hc
macro_rules | `(tactic| cinv_step $hc) => `(tactic| apply handleInternal_chain $hc)

theorem handleTimeout_chain {s : NodeState} (r : Nat) (st : Step) (h : s.halted = true ∨ R s.out s.lss) :
    (handleTimeout c s r st).halted = true ∨ R (handleTimeout c s r st).out (handleTimeout c s r st).lss := by
  unfold handleTimeout; (try simp only []); repeat' split
  all_goals cinv hc
macro_rules | `(tactic| cinv_step $hc) => `(tactic| apply handleTimeout_chain $hc)

theorem handleTxsAvailable_chain {s : NodeState} (h : s.halted = true ∨ R s.out s.lss) :
    (handleTxsAvailable c s).halted = true ∨ R (handleTxsAvailable c s).out (handleTxsAvailable c s).lss := by
  unfold handleTxsAvailable; (try simp only []); repeat' split
  all_goals cinv hc
macro_rules | `(tactic| cinv_step $hc) => `(tactic| apply handleTxsAvailable_chain $hc)

theorem handleInput_chain {s : NodeState} (i : Input) (h : s.halted = true ∨ R s.out s.lss) :
    (handleInput c s i).halted = true ∨ R (handleInput c s i).out (handleInput c s i).lss := by
  unfold handleInput; (try simp only []); repeat' split
  all_goals cinv hc
macro_rules | `(tactic| cinv_step $hc) => `(tactic| apply handleInput_chain $hc)

theorem drain_chain (fuel : Nat) {s : NodeState} (h : s.halted = true ∨ R s.out s.lss) :
    (drain c fuel s).halted = true ∨ R (drain c fuel s).out (drain c fuel s).lss := by
  induction fuel generalizing s with
  | zero => unfold drain; exact h
  | succ n ih =>
    unfold drain; repeat' split
    all_goals first | exact h | (apply ih; cinv hc)

theorem step_chain {s : NodeState} (i : Input) (h : s.halted = true ∨ R s.out s.lss) :
    (step c s i).halted = true ∨ R (step c s i).out (step c s i).lss := by
  unfold step; split
  · exact h
  · exact drain_chain hc _ (handleInput_chain hc i h)

theorem run_chain (is : List Input) {s : NodeState} (h : s.halted = true ∨ R s.out s.lss) :
    (run c s is).halted = true ∨ R (run c s is).out (run c s is).lss := by
  induction is generalizing s with
  | nil => unfold run; exact h
  | cons i is ih =>
    have := ih (step_chain hc i h)
    unfold run at this ⊢
    simpa [List.foldl] using this



end
end Tmv.Cons
