import Tmv.Lemmas.BlockStore
/-! The loop of `PruneBlocks`: invariant, crash safety of every write prefix, and what is on disk
afterwards. -/
namespace Tmv.BlockStore

theorem unused_mono (db : DB) (h h' H : Int) (w : Write) (hu : Unused db h H w) (hle : h ≤ h') :
    Unused db h' H w :=
  ⟨hu.1, fun a ha hH => hu.2 a (by omega) hH⟩

theorem get_apply_congr (db1 db2 : DB) (w : Write) (k : Key) (h : get db1 k = get db2 k) :
    get (apply db1 w) k = get (apply db2 w) k := by
  cases w with
  | set k' v => simp only [get_set, h]
  | del k' => simp only [get_del, h]

theorem get_applyAll_congr (ws : List Write) (db1 db2 : DB) (k : Key) (h : get db1 k = get db2 k) :
    get (applyAll db1 ws) k = get (applyAll db2 ws) k := by
  induction ws generalizing db1 db2 with
  | nil => exact h
  | cons w ws ih => exact ih _ _ (get_apply_congr _ _ _ _ h)

/-- key `k` is one of the keys `PruneBlocks` deletes for height `a` -/
def OwnedBy (db : DB) (a : Int) (k : Key) : Prop :=
  ∃ m, loadMeta db a = some m ∧ Write.del k ∈ deletesFor a m

theorem mem_deletesFor (h : Int) (m : Meta) (w : Write) : w ∈ deletesFor h m ↔
    w = .del (.bmeta h) ∨ w = .del (.hashIdx m.hash) ∨ w = .del (.commit h) ∨ w = .del (.seen h) ∨
      ∃ p, p < m.total ∧ w = .del (.part h p) := by
  simp only [deletesFor, List.mem_append, List.mem_cons, List.mem_nil_iff, or_false, List.mem_map,
    List.mem_range]
  constructor
  · rintro ((h1 | h1 | h1 | h1) | ⟨p, hp, rfl⟩)
    · exact Or.inl h1
    · exact Or.inr (Or.inl h1)
    · exact Or.inr (Or.inr (Or.inl h1))
    · exact Or.inr (Or.inr (Or.inr (Or.inl h1)))
    · exact Or.inr (Or.inr (Or.inr (Or.inr ⟨p, hp, rfl⟩)))
  · rintro (h1 | h1 | h1 | h1 | ⟨p, hp, rfl⟩)
    · exact Or.inl (Or.inl h1)
    · exact Or.inl (Or.inr (Or.inl h1))
    · exact Or.inl (Or.inr (Or.inr (Or.inl h1)))
    · exact Or.inl (Or.inr (Or.inr (Or.inr h1)))
    · exact Or.inr ⟨p, hp, rfl⟩

/-- the deletes queued for an audited height are not read by any higher audited height -/
theorem deletes_unused (db : DB) (B H h : Int) (m : Meta) (hG : GoodFrom db B H)
    (hB : B ≤ h) (hH : h ≤ H) (hm : loadMeta db h = some m) :
    ∀ w ∈ deletesFor h m, Unused db (h + 1) H w := by
  intro w hw
  rw [mem_deletesFor] at hw
  rcases hw with rfl | rfl | rfl | rfl | ⟨p, _, rfl⟩
  all_goals
    refine ⟨by simp [Write.key], ?_⟩
    intro a ha haH
    simp only [Write.key, usedAt]
    rintro (e1 | ⟨i', e1⟩ | ⟨hlt, e1⟩ | ⟨hge, e1⟩ | ⟨m', hm', e1⟩) <;>
      first
        | (injection e1 with e1
           exact hash_ne_of_good db H a h m' m (hG a (by omega) haH) (hG h hB hH) hm' hm (by omega) e1.symm)
        | (injection e1; omega)
        | cases e1

/-- one `flush(batch, b')`: descriptor first, then the deletes -/
theorem flush_safe (db : DB) (B H b' : Int) (batch : List Write)
    (hr : loadRange db = (B, H)) (hB : 0 < B) (hBb : B ≤ b') (hbH : b' ≤ H)
    (hG : GoodFrom db B H) (hu : ∀ w ∈ batch, Unused db b' H w) :
    AllPrefixGood db ([.set .bsState (.range b' H)] ++ batch) ∧
    loadRange (applyAll db ([.set .bsState (.range b' H)] ++ batch)) = (b', H) ∧
    GoodFrom (applyAll db ([.set .bsState (.range b' H)] ++ batch)) b' H ∧
    (∀ a, b' ≤ a → a ≤ H →
      loadMeta (applyAll db ([.set .bsState (.range b' H)] ++ batch)) a = loadMeta db a) ∧
    (∀ k, k ≠ .bsState → get (applyAll db ([.set .bsState (.range b' H)] ++ batch)) k = get (applyAll db batch) k) := by
  have hGood : Good db := by
    rw [good_iff, hr]; exact Or.inr ⟨hB, by simp only; omega, hG⟩
  have hr1 : loadRange (apply db (.set .bsState (.range b' H))) = (b', H) :=
    loadRange_set _ _ _ (by omega)
  have hget1 : ∀ k, k ≠ Key.bsState → get (apply db (.set .bsState (.range b' H))) k = get db k :=
    fun k hk => get_apply_of_ne _ _ _ (by simpa [Write.key] using hk.symm)
  have hmeta1 : ∀ a, loadMeta (apply db (.set .bsState (.range b' H))) a = loadMeta db a := by
    intro a; simp only [loadMeta, hget1 (.bmeta a) (by simp)]
  have hG1 : GoodFrom (apply db (.set .bsState (.range b' H))) b' H := by
    intro a ha haH
    rw [checkAt_congr db _ H a, hG a (by omega) haH]
    intro k hk
    apply hget1
    rintro rfl
    rcases hk with e1 | ⟨i, e1⟩ | ⟨_, e1⟩ | ⟨_, e1⟩ | ⟨m, _, e1⟩ <;> cases e1
  have hGood1 : Good (apply db (.set .bsState (.range b' H))) := by
    rw [good_iff, hr1]; exact Or.inr ⟨by simp only; omega, hbH, hG1⟩
  have hu1 : ∀ w ∈ batch, Unused (apply db (.set .bsState (.range b' H)))
      (loadRange (apply db (.set .bsState (.range b' H)))).1
      (loadRange (apply db (.set .bsState (.range b' H)))).2 w := by
    rw [hr1]
    intro w hw
    refine ⟨(hu w hw).1, fun a ha haH hused => (hu w hw).2 a ha haH ?_⟩
    exact (usedAt_congr db _ H a _ (hmeta1 a)).1 hused
  have hD : AllPrefixGood db [.set .bsState (.range b' H)] := by
    intro k
    cases k with
    | zero => simpa [applyAll_nil] using hGood
    | succ k => simpa [applyAll_cons, applyAll_nil] using hGood1
  have hbatch := allPrefixGood_unused _ batch hGood1 hu1
  refine ⟨allPrefixGood_append _ _ _ hD (by simpa [applyAll_cons, applyAll_nil] using hbatch), ?_, ?_, ?_, ?_⟩
  · rw [applyAll_append, applyAll_cons, applyAll_nil,
      loadRange_applyAll_of_not_mem _ _ (fun w hw => (hu w hw).1), hr1]
  · rw [applyAll_append, applyAll_cons, applyAll_nil]
    apply goodFrom_applyAll_unused _ _ _ _ hG1
    intro w hw
    have := hu1 w hw
    rw [hr1] at this
    exact this
  · intro a ha haH
    rw [applyAll_append, applyAll_cons, applyAll_nil]
    have h1 := hu1
    rw [hr1] at h1
    rw [loadMeta_applyAll_unused _ b' H batch h1 a ha haH, hmeta1]
  · intro k hk
    rw [applyAll_append, applyAll_cons, applyAll_nil]
    exact get_applyAll_congr _ _ _ _ (hget1 k hk)

/-- only deletes -/
def AllDels (ws : List Write) : Prop := ∀ w ∈ ws, ∃ k, w = .del k

theorem get_applyAll_dels (ws : List Write) (db : DB) (k : Key) (hd : AllDels ws) :
    (Write.del k ∈ ws → get (applyAll db ws) k = none) ∧
    (Write.del k ∉ ws → get (applyAll db ws) k = get db k) := by
  induction ws generalizing db with
  | nil => exact ⟨fun h => (by cases h), fun _ => rfl⟩
  | cons w ws ih =>
    obtain ⟨k', rfl⟩ := hd w List.mem_cons_self
    have hd' : AllDels ws := fun w hw => hd w (List.mem_cons_of_mem _ hw)
    rw [applyAll_cons]
    constructor
    · intro hmem
      by_cases hin : Write.del k ∈ ws
      · exact (ih _ hd').1 hin
      · have : k = k' := by
          rcases List.mem_cons.1 hmem with e | e
          · injection e
          · exact absurd e hin
        subst this
        rw [(ih _ hd').2 hin, get_del]; simp
    · intro hmem
      have hne : k' ≠ k := by
        rintro rfl; exact hmem List.mem_cons_self
      have hin : Write.del k ∉ ws := fun e => hmem (List.mem_cons_of_mem _ e)
      rw [(ih _ hd').2 hin, get_del]; simp [hne]

theorem allDels_deletesFor (h : Int) (m : Meta) : AllDels (deletesFor h m) := by
  intro w hw
  rw [mem_deletesFor] at hw
  rcases hw with rfl | rfl | rfl | rfl | ⟨p, _, rfl⟩ <;> exact ⟨_, rfl⟩

theorem pruneLoop_zero (H retain h : Int) (db : DB) (batch : List Write) (pruned : Nat) :
    pruneLoop H retain 0 h db batch pruned = (pruned, [[.set .bsState (.range retain H)], batch]) := rfl

theorem pruneLoop_succ_flush (H retain h : Int) (fuel : Nat) (db : DB) (batch : List Write)
    (pruned : Nat) (m : Meta) (hm : loadMeta db h = some m) (hfl : (pruned + 1) % batchSize = 0) :
    pruneLoop H retain (fuel + 1) h db batch pruned =
      ((pruneLoop H retain fuel (h + 1)
          (applyAll db ([.set .bsState (.range (h + 1) H)] ++ (batch ++ deletesFor h m))) [] (pruned + 1)).1,
        [.set .bsState (.range (h + 1) H)] :: (batch ++ deletesFor h m) ::
        (pruneLoop H retain fuel (h + 1)
          (applyAll db ([.set .bsState (.range (h + 1) H)] ++ (batch ++ deletesFor h m))) [] (pruned + 1)).2) := by
  rw [applyAll_append db [.set .bsState (.range (h + 1) H)] (batch ++ deletesFor h m)]
  simp only [pruneLoop, hm, hfl, if_true]

theorem pruneLoop_succ_keep (H retain h : Int) (fuel : Nat) (db : DB) (batch : List Write)
    (pruned : Nat) (m : Meta) (hm : loadMeta db h = some m) (hfl : ¬ (pruned + 1) % batchSize = 0) :
    pruneLoop H retain (fuel + 1) h db batch pruned =
      pruneLoop H retain fuel (h + 1) db (batch ++ deletesFor h m) (pruned + 1) := by
  simp only [pruneLoop, hm, hfl, if_false]

theorem pruneLoop_spec (H retain : Int) :
    ∀ (fuel : Nat) (h : Int) (db : DB) (batch : List Write) (pruned : Nat) (B : Int),
      h + fuel = retain → retain ≤ H → loadRange db = (B, H) → 0 < B → B ≤ h →
      GoodFrom db B H → (∀ w ∈ batch, Unused db h H w) → AllDels batch →
      AllPrefixGood db (pruneLoop H retain fuel h db batch pruned).2.flatten ∧
      loadRange (applyAll db (pruneLoop H retain fuel h db batch pruned).2.flatten) = (retain, H) ∧
      (∀ k, k ≠ .bsState →
        ((Write.del k ∈ batch ∨ ∃ a, h ≤ a ∧ a < retain ∧ OwnedBy db a k) →
          get (applyAll db (pruneLoop H retain fuel h db batch pruned).2.flatten) k = none) ∧
        (¬ (Write.del k ∈ batch ∨ ∃ a, h ≤ a ∧ a < retain ∧ OwnedBy db a k) →
          get (applyAll db (pruneLoop H retain fuel h db batch pruned).2.flatten) k = get db k)) ∧
      (pruneLoop H retain fuel h db batch pruned).1 = pruned + fuel := by
  intro fuel
  induction fuel with
  | zero =>
    intro h db batch pruned B hf hrH hr hB hBh hG hu hd
    have hh : h = retain := by omega
    subst hh
    obtain ⟨f1, f2, _, _, f5⟩ := flush_safe db B H h batch hr hB hBh hrH hG hu
    rw [pruneLoop_zero]
    simp only [List.flatten_cons, List.flatten_nil, List.append_nil]
    refine ⟨f1, f2, ?_, by omega⟩
    intro k hk
    rw [f5 k hk]
    have := get_applyAll_dels batch db k hd
    constructor
    · rintro (h1 | ⟨a, h1, h2, _⟩)
      · exact this.1 h1
      · omega
    · intro hn
      exact this.2 (fun e => hn (Or.inl e))
  | succ fuel ih =>
    intro h db batch pruned B hf hrH hr hB hBh hG hu hd
    have hhr : h < retain := by omega
    have hhH : h ≤ H := by omega
    cases hm : loadMeta db h with
    | none =>
      exfalso
      obtain ⟨m, _, _, ok⟩ := (checkAt_none_iff db H h).1 (hG h hBh hhH)
      rw [ok.hmeta] at hm; cases hm
    | some m =>
      have hu' : ∀ w ∈ batch ++ deletesFor h m, Unused db (h + 1) H w := by
        intro w hw
        rcases List.mem_append.1 hw with e | e
        · exact unused_mono db h (h + 1) H w (hu w e) (by omega)
        · exact deletes_unused db B H h m hG hBh hhH hm w e
      have hd' : AllDels (batch ++ deletesFor h m) := by
        intro w hw
        rcases List.mem_append.1 hw with e | e
        · exact hd w e
        · exact allDels_deletesFor h m w e
      have hown : ∀ k, Write.del k ∈ batch ++ deletesFor h m ↔ (Write.del k ∈ batch ∨ OwnedBy db h k) := by
        intro k
        rw [List.mem_append]
        constructor
        · rintro (e | e)
          · exact Or.inl e
          · exact Or.inr ⟨m, hm, e⟩
        · rintro (e | ⟨m', hm', e⟩)
          · exact Or.inl e
          · rw [hm] at hm'; cases hm'; exact Or.inr e
      by_cases hfl : (pruned + 1) % batchSize = 0
      · -- intermediate flush: base moves to h+1, then the batch
        rw [pruneLoop_succ_flush H retain h fuel db batch pruned m hm hfl]
        simp only [List.flatten_cons]
        obtain ⟨f1, f2, f3, f4, f5⟩ := flush_safe db B H (h + 1) (batch ++ deletesFor h m) hr hB
          (by omega) (by omega) hG hu'
        obtain ⟨db2, hdb2⟩ : ∃ db2, db2 = applyAll db ([.set .bsState (.range (h + 1) H)] ++ (batch ++ deletesFor h m)) :=
          ⟨_, rfl⟩
        rw [← hdb2] at f2 f3 f4 f5 ⊢
        have hnil1 : ∀ w ∈ ([] : List Write), Unused db2 (h + 1) H w := by
          intro w hw; cases hw
        have hnil2 : AllDels [] := by intro w hw; cases hw
        have hf' : h + 1 + (fuel : Int) = retain := by omega
        have hpos' : (0 : Int) < h + 1 := by omega
        obtain ⟨i1, i2, i3, i4⟩ := ih (h + 1) db2 [] (pruned + 1) (h + 1)
          hf' hrH f2 hpos' (Int.le_refl _) f3 hnil1 hnil2
        rw [← List.append_assoc]
        have e2 : ∀ rest, applyAll db (([.set .bsState (.range (h + 1) H)] ++ (batch ++ deletesFor h m)) ++ rest)
            = applyAll db2 rest := by
          intro rest; rw [applyAll_append, ← hdb2]
        refine ⟨allPrefixGood_append _ _ _ f1 (by rw [← hdb2]; exact i1), ?_, ?_, by omega⟩
        · rw [e2]; exact i2
        · intro k hk
          rw [e2]
          have hdel := get_applyAll_dels (batch ++ deletesFor h m) db k hd'
          have hown2 : ∀ a, h + 1 ≤ a → a < retain → (OwnedBy db2 a k ↔ OwnedBy db a k) := by
            intro a ha har
            simp only [OwnedBy, f4 a ha (by omega)]
          constructor
          · rintro (e | ⟨a, ha, har, e⟩)
            · by_cases hex : ∃ a, h + 1 ≤ a ∧ a < retain ∧ OwnedBy db a k
              · obtain ⟨a, ha, har, e'⟩ := hex
                exact (i3 k hk).1 (Or.inr ⟨a, ha, har, (hown2 a ha har).2 e'⟩)
              · rw [(i3 k hk).2 ?_, f5 k hk]
                · exact hdel.1 ((hown k).2 (Or.inl e))
                · rintro (e' | ⟨a, ha, har, e'⟩)
                  · cases e'
                  · exact hex ⟨a, ha, har, (hown2 a ha har).1 e'⟩
            · by_cases hah : a = h
              · subst hah
                by_cases hex : ∃ a', a + 1 ≤ a' ∧ a' < retain ∧ OwnedBy db a' k
                · obtain ⟨a', ha', har', e'⟩ := hex
                  exact (i3 k hk).1 (Or.inr ⟨a', ha', har', (hown2 a' ha' har').2 e'⟩)
                · rw [(i3 k hk).2 ?_, f5 k hk]
                  · exact hdel.1 ((hown k).2 (Or.inr e))
                  · rintro (e' | ⟨a', ha', har', e'⟩)
                    · cases e'
                    · exact hex ⟨a', ha', har', (hown2 a' ha' har').1 e'⟩
              · exact (i3 k hk).1 (Or.inr ⟨a, by omega, har, (hown2 a (by omega) har).2 e⟩)
          · intro hn
            rw [(i3 k hk).2 ?_, f5 k hk]
            · apply hdel.2
              intro e
              rcases (hown k).1 e with e | e
              · exact hn (Or.inl e)
              · exact hn (Or.inr ⟨h, Int.le_refl _, hhr, e⟩)
            · rintro (e' | ⟨a, ha, har, e'⟩)
              · cases e'
              · exact hn (Or.inr ⟨a, by omega, har, (hown2 a ha har).1 e'⟩)
      · -- keep collecting
        rw [pruneLoop_succ_keep H retain h fuel db batch pruned m hm hfl]
        have hf' : h + 1 + (fuel : Int) = retain := by omega
        have hB' : B ≤ h + 1 := by omega
        obtain ⟨i1, i2, i3, i4⟩ := ih (h + 1) db (batch ++ deletesFor h m) (pruned + 1) B
          hf' hrH hr hB hB' hG hu' hd'
        refine ⟨i1, i2, ?_, by omega⟩
        intro k hk
        constructor
        · rintro (e | ⟨a, ha, har, e⟩)
          · exact (i3 k hk).1 (Or.inl ((hown k).2 (Or.inl e)))
          · by_cases hah : a = h
            · subst hah; exact (i3 k hk).1 (Or.inl ((hown k).2 (Or.inr e)))
            · exact (i3 k hk).1 (Or.inr ⟨a, by omega, har, e⟩)
        · intro hn
          apply (i3 k hk).2
          rintro (e | ⟨a, ha, har, e⟩)
          · rcases (hown k).1 e with e | e
            · exact hn (Or.inl e)
            · exact hn (Or.inr ⟨h, Int.le_refl _, hhr, e⟩)
          · exact hn (Or.inr ⟨a, by omega, har, e⟩)

end Tmv.BlockStore
