import Tmv.Lemmas.ConsLock
/-! (T) is kept by every function of the node model (given (A) and no future-round timeouts). -/
namespace Tmv.Cons
attribute [local irreducible] emit panicWith sign signAddVote decideProposal doPrevote enterPrevote enterPropose
  enterNewRound newRoundReset enterPrevoteWait unlock enterPrecommit enterPrecommitWait finalizeCommit tryFinalizeCommit
  enterCommit setProposal handleCompleteProposal addBlockPart addVote onPolka prevoteTransitions afterPrevote
  afterPrecommit handleInternal handleTimeout
  handleTxsAvailable handleInput drain step run HVS.addVote HVS.setRound HVS.setPeerMaj23 HVS.polRound
  isProposalComplete maj23Of hasAnyOf hashesTo hasHeader

variable {c : Cfg}

syntax "tinv_step" : tactic
macro_rules | `(tactic| tinv_step) => `(tactic| ainv_step)
macro_rules | `(tactic| tinv_step) => `(tactic| assumption)
macro "tinv" : tactic => `(tactic| repeat' (first | tinv_step | (dsimp only; tinv_step)))

theorem emit_out (s : NodeState) (o : Output) : (emit s o).out = s.out ∨ (emit s o).out = s.out ++ [o] := by
  unfold emit; split
  · left; rfl
  · right; rfl

theorem emit_T {s : NodeState} (o : Output) (ho : ¬ isVote o) (h : T s) : T (emit s o) := by
  show TR _ _ _ _ _
  rw [emit_round, emit_lockedRound, emit_lockedBlock, emit_votes]
  rcases emit_out s o with e | e <;> rw [e]
  · exact h
  · exact h.push_other o ho
macro_rules | `(tactic| tinv_step) => `(tactic| exact (fun h => h))
macro_rules | `(tactic| tinv_step) => `(tactic| apply emit_T)

theorem panicWith_T {s : NodeState} (w : String) (h : T s) : T (panicWith s w) := by
  show TR _ _ _ _ _
  rw [panicWith_round, panicWith_lockedRound, panicWith_lockedBlock, panicWith_votes]
  unfold panicWith; split
  · exact h
  · exact h.push_other _ (fun h => h)
macro_rules | `(tactic| tinv_step) => `(tactic| apply panicWith_T)

theorem decideProposal_T {s : NodeState} (r me : Nat) (h : T s) : T (decideProposal c s r me) := by
  show TR _ _ _ _ _
  rw [decideProposal_round, decideProposal_lockedRound, decideProposal_lockedBlock, decideProposal_votes]
  unfold decideProposal
  simp only []
  split
  · rename_i s' hs
    have ho := sign_out hs
    show TR _ _ _ _ (emit s' _).out
    rcases emit_out s' (.signProposal r (s.validBlock.getD c.ownBlock) s.validRound) with e | e <;> rw [e, ho.1]
    · exact h
    · exact h.push_other _ (fun h => h)
  · exact h
macro_rules | `(tactic| tinv_step) => `(tactic| apply decideProposal_T)

theorem signAddVote_T {s : NodeState} (t : VType) (bid : Bid)
    (hpv : t = .prevote → ∀ b, s.lockedBlock = some b → bid = some b)
    (hpc : t = .precommit → ∀ b, bid = some b → s.lockedBlock = some b ∧ s.lockedRound = (s.round : Int))
    (h : T s) : T (signAddVote c s t bid) := by
  show TR _ _ _ _ _
  rw [signAddVote_round, signAddVote_lockedRound, signAddVote_lockedBlock, signAddVote_votes]
  unfold signAddVote
  repeat' split
  all_goals first | exact h | skip
  rename_i s' hs
  have ho := sign_out hs
  show TR _ _ _ _ (emit s' _).out
  rcases emit_out s' (.signVote t s.round bid) with e | e <;> rw [e, ho.1]
  · exact h
  · cases t with
    | prevote => exact h.push_pv bid (hpv rfl)
    | precommit => exact h.push_pc bid (hpc rfl)

theorem doPrevote_T {s : NodeState} (h : T s) : T (doPrevote c s) := by
  unfold doPrevote
  split
  · rename_i b hb
    apply signAddVote_T _ _ _ _ h
    · intro _ b' hb'; rw [hb] at hb'; cases hb'; rfl
    · intro e; cases e
  · rename_i hb
    repeat' split
    all_goals
      apply signAddVote_T _ _ _ _ h
      · intro _ b' hb'; rw [hb] at hb'; cases hb'
      · intro e; cases e
macro_rules | `(tactic| tinv_step) => `(tactic| apply doPrevote_T)

theorem enterPrevote_T {s : NodeState} (r : Nat) (h : T s) : T (enterPrevote c s r) := by
  unfold enterPrevote
  repeat' split
  all_goals first | exact h | skip
  rename_i hg
  have := doPrevote_T (c := c) h
  show TR _ _ _ _ _
  dsimp only
  refine TR.mono_round this ?_
  rw [doPrevote_round]; omega
macro_rules | `(tactic| tinv_step) => `(tactic| apply enterPrevote_T)

theorem enterPropose_T {s : NodeState} (r : Nat) (h : T s) : T (enterPropose c s r) := by
  unfold enterPropose
  split
  · exact h
  · split
    · exact h
    · rename_i hg
      simp only []
      have key : ∀ t : NodeState, T t → t.round = s.round →
          T { t with round := r, step := .propose } := by
        intro t ht hr
        show TR _ _ _ _ _
        dsimp only
        exact TR.mono_round ht (by omega)
      repeat' split
      all_goals (try apply enterPrevote_T)
      all_goals apply key
      all_goals first | (tinv; done) | (simp; done)
macro_rules | `(tactic| tinv_step) => `(tactic| apply enterPropose_T)

theorem newRoundReset_T {s : NodeState} (r : Nat) (hr : s.round ≤ r) (h : T s) : T (newRoundReset s r) := by
  have hf := newRoundReset_fields s r
  show TR _ _ _ _ _
  rw [hf.1, hf.2.1, hf.2.2.1, hf.2.2.2.1, hf.2.2.2.2.1]
  exact TR.mono_round h hr

theorem enterNewRound_T {s : NodeState} (r : Nat) (h : T s) : T (enterNewRound c s r) := by
  unfold enterNewRound
  split
  · exact h
  · split
    · exact h
    · rename_i hg
      simp only []
      have h' : T (newRoundReset s r) := newRoundReset_T r (by omega) h
      split
      · tinv
      · rename_i hv hsr
        have h2 : TR (newRoundReset s r).round (newRoundReset s r).lockedRound (newRoundReset s r).lockedBlock hv
            (newRoundReset s r).out := TR.stable h' (HVS.setRound_stable _ _ _ hsr)
        repeat' split
        all_goals tinv
macro_rules | `(tactic| tinv_step) => `(tactic| apply enterNewRound_T)

theorem enterPrevoteWait_T {s : NodeState} (r : Nat) (h : T s) : T (enterPrevoteWait c s r) := by
  unfold enterPrevoteWait
  repeat' split
  all_goals first | exact h | (tinv; done) | skip
  rename_i hg _
  show TR _ _ _ _ _
  dsimp only
  have := emit_T (s := s) (.schedule r .prevoteWait) (fun h => h) h
  refine TR.mono_round this ?_
  rw [emit_round]; omega
macro_rules | `(tactic| tinv_step) => `(tactic| apply enterPrevoteWait_T)

theorem hashesTo_some {ob : Option Nat} {b : Nat} (h : hashesTo ob (some b) = true) : ob = some b := by
  unfold hashesTo at h
  cases ob with
  | none => simp at h
  | some x => simp at h; rw [h]

theorem hashesTo_ne {b' : Nat} {bid : Bid} (h : ¬ hashesTo (some b') bid = true) : bid ≠ some b' := by
  intro e; subst e
  apply h; unfold hashesTo; simp

/-- releasing the lock is justified by a recorded majority for something else in a later round -/
theorem unlock_T {s : NodeState} (vr : Nat) (bid : Bid) (hm : maj23Of (s.votes.prevotes (vr : Int)) = some bid)
    (h1 : s.lockedRound < (vr : Int)) (h2 : vr ≤ s.round) (h3 : ∀ b, s.lockedBlock = some b → bid ≠ some b)
    (h : T s) : T (unlock s) := by
  show TR _ _ _ _ _
  rw [unlock_round, unlock_lockedRound, unlock_lockedBlock, unlock_votes, unlock_out]
  apply h.relock
  intro b hb
  exact Or.inr ⟨vr, bid, h1, h2, h3 b hb, hm⟩

theorem onPolka_T {s : NodeState} (vr : Nat) (bid : Bid) (hm : maj23Of (s.votes.prevotes (vr : Int)) = some bid)
    (h : T s) : T (onPolka s vr bid) := by
  unfold onPolka
  simp only []
  by_cases hc : s.lockedBlock.isSome = true ∧ s.lockedRound < (vr : Int) ∧ vr ≤ s.round ∧
      (!hashesTo s.lockedBlock bid) = true
  · have hU : T (unlock s) := by
      apply unlock_T vr bid hm hc.2.1 hc.2.2.1 _ h
      intro b hb
      have := hc.2.2.2
      rw [hb] at this
      exact hashesTo_ne (by simpa using this)
    simp only [hc, and_self, if_true]
    repeat' split
    all_goals exact hU
  · simp only [hc, if_false]
    repeat' split
    all_goals exact h

theorem enterPrecommit_T {s : NodeState} (round : Nat) (hle : s.halted = true ∨ round ≤ s.round) (hA : A s)
    (h : T s) : T (enterPrecommit c s round) := by
  unfold enterPrecommit
  split
  · exact h
  · rename_i hh
    split
    · exact h
    · rename_i hg
      have hr : round = s.round := by
        rcases hle with hle | hle
        · exact absurd hle hh
        · omega
      subst hr
      have hlt : s.lockedRound < (s.round : Int) := by
        simp [AI, Step.rank] at hA hg
        omega
      have done : ∀ t : NodeState, T t → t.round = s.round → T { t with round := s.round, step := .precommit } := by
        intro t ht hr
        show TR _ _ _ _ _
        dsimp only
        rw [← hr]; exact ht
      simp only []
      split
      · apply done _ _ (by simp)
        apply signAddVote_T _ _ (fun e => by cases e) (fun _ b e => by cases e) h
      · rename_i bid hm
        split
        · tinv
        · split
          · -- +2/3 prevoted nil
            apply done _ _ (by split <;> simp)
            apply signAddVote_T _ _ (fun e => by cases e) (fun _ b e => by cases e)
            split
            · exact h
            · exact unlock_T s.round none hm hlt (Nat.le_refl _) (fun b _ => by simp) h
          · rename_i b
            split
            · -- relock
              rename_i hl
              have hlb := hashesTo_some hl
              apply done _ _ (by simp)
              apply signAddVote_T _ _ (fun e => by cases e)
              · intro _ b' e; cases e; exact ⟨hlb, rfl⟩
              · show TR _ _ _ _ _
                dsimp only
                apply h.relock
                intro b' hb'
                exact Or.inl ⟨hb', by omega⟩
            · rename_i hl
              split
              · rename_i hp
                split
                · tinv
                · -- lock the proposal block
                  have hpb := hashesTo_some hp
                  apply done _ _ (by simp)
                  apply signAddVote_T _ _ (fun e => by cases e)
                  · intro _ b' e; cases e; exact ⟨hpb, rfl⟩
                  · show TR _ _ _ _ _
                    dsimp only
                    apply h.relock
                    intro b' hb'
                    rw [hb'] at hl
                    exact Or.inr ⟨s.round, some b, hlt, Nat.le_refl _, hashesTo_ne hl, hm⟩
              · -- polka for a block we do not have: unlock, precommit nil
                have hU : T (unlock s) := by
                  apply unlock_T s.round (some b) hm hlt (Nat.le_refl _) _ h
                  intro b' hb'
                  rw [hb'] at hl
                  exact hashesTo_ne hl
                apply done _ _ (by split <;> simp)
                apply signAddVote_T _ _ (fun e => by cases e) (fun _ b e => by cases e)
                split
                · exact hU
                · exact hU

macro_rules | `(tactic| tinv_step) => `(tactic| exact Or.inr (Nat.le_refl _))
macro_rules | `(tactic| tinv_step) => `(tactic| (right; omega))
macro_rules | `(tactic| tinv_step) => `(tactic| apply enterPrecommit_T)

theorem enterPrecommitWait_T {s : NodeState} (r : Nat) (h : T s) : T (enterPrecommitWait c s r) := by
  unfold enterPrecommitWait; (try simp only []); repeat' split
  all_goals tinv
macro_rules | `(tactic| tinv_step) => `(tactic| apply enterPrecommitWait_T)

theorem finalizeCommit_T {s : NodeState} (h : T s) : T (finalizeCommit c s) := by
  unfold finalizeCommit; (try simp only []); repeat' split
  all_goals tinv
macro_rules | `(tactic| tinv_step) => `(tactic| apply finalizeCommit_T)

theorem tryFinalizeCommit_T {s : NodeState} (h : T s) : T (tryFinalizeCommit c s) := by
  unfold tryFinalizeCommit; (try simp only []); repeat' split
  all_goals tinv
macro_rules | `(tactic| tinv_step) => `(tactic| apply tryFinalizeCommit_T)

theorem enterCommit_T {s : NodeState} (r : Nat) (h : T s) : T (enterCommit c s r) := by
  unfold enterCommit; (try simp only []); repeat' split
  all_goals tinv
macro_rules | `(tactic| tinv_step) => `(tactic| apply enterCommit_T)

theorem setProposal_T {s : NodeState} (p : Proposal) (h : T s) : T (setProposal c s p) := by
  unfold setProposal; (try simp only []); repeat' split
  all_goals tinv
macro_rules | `(tactic| tinv_step) => `(tactic| apply setProposal_T)

theorem handleCompleteProposal_T {s : NodeState} (hA : A s) (h : T s) : T (handleCompleteProposal c s) := by
  unfold handleCompleteProposal; (try simp only []); repeat' split
  all_goals tinv
macro_rules | `(tactic| tinv_step) => `(tactic| apply handleCompleteProposal_T)

theorem addBlockPart_T {s : NodeState} (b : Nat) (hA : A s) (h : T s) : T (addBlockPart c s b) := by
  unfold addBlockPart; (try simp only []); repeat' split
  all_goals tinv
macro_rules | `(tactic| tinv_step) => `(tactic| apply addBlockPart_T)

theorem prevoteTransitions_T {s : NodeState} (vr : Nat) (hA : A s) (h : T s) : T (prevoteTransitions c s vr) := by
  unfold prevoteTransitions; (try simp only []); repeat' split
  all_goals tinv
macro_rules | `(tactic| tinv_step) => `(tactic| apply prevoteTransitions_T)

theorem afterPrevote_T {s : NodeState} (vr : Nat) (hA : A s) (h : T s) : T (afterPrevote c s vr) := by
  unfold afterPrevote; simp only []
  split
  · rename_i bid hm
    apply prevoteTransitions_T _ (onPolka_A _ _ hA) (onPolka_T _ _ hm h)
  · exact prevoteTransitions_T _ hA h
macro_rules | `(tactic| tinv_step) => `(tactic| apply afterPrevote_T)

theorem afterPrecommit_T {s : NodeState} (vr : Nat) (hA : A s) (h : T s) : T (afterPrecommit c s vr) := by
  unfold afterPrecommit; simp only []; repeat' split
  all_goals first
    | (tinv; done)
    | (apply enterCommit_T; apply enterPrecommit_T _ (enterNewRound_reach _ _) (enterNewRound_A _ hA); tinv)
    | (apply enterPrecommitWait_T; apply enterPrecommit_T _ (enterNewRound_reach _ _) (enterNewRound_A _ hA); tinv)
macro_rules | `(tactic| tinv_step) => `(tactic| apply afterPrecommit_T)

theorem addVote_T {s : NodeState} (v : Vote) (peer : Peer) (hA : A s) (h : T s) : T (addVote c s v peer) := by
  have h' : TR s.round s.lockedRound s.lockedBlock (s.votes.addVote c v peer).1 s.out :=
    TR.stable h (HVS.addVote_stable c _ v peer)
  unfold addVote; simp only []; repeat' split
  all_goals tinv

theorem handleInternal_T {s : NodeState} (m : Internal) (hA : A s) (h : T s) : T (handleInternal c s m) := by
  unfold handleInternal; repeat' split
  all_goals first | (tinv; done) | exact addVote_T _ _ hA h

theorem handleTimeout_T {s : NodeState} (r : Nat) (st : Step) (hr : r ≤ s.round) (hA : A s) (h : T s) :
    T (handleTimeout c s r st) := by
  unfold handleTimeout; repeat' split
  all_goals tinv

theorem handleTxsAvailable_T {s : NodeState} (h : T s) : T (handleTxsAvailable c s) := by
  unfold handleTxsAvailable; repeat' split
  all_goals tinv

theorem handleInput_T {s : NodeState} (i : Input) (hi : i.notFuture s) (hA : A s) (h : T s) :
    T (handleInput c s i) := by
  unfold handleInput
  cases i with
  | timeout r st => exact handleTimeout_T r st hi hA h
  | peerMaj23 r t peer bid =>
    show TR _ _ _ _ _
    dsimp only
    exact TR.stable h (HVS.setPeerMaj23_stable _ _ _ _ _)
  | proposal p => exact setProposal_T p h
  | blockComplete b => exact addBlockPart_T b hA h
  | vote v peer => exact addVote_T v peer hA h
  | txsAvailable => exact handleTxsAvailable_T h

theorem drain_T (fuel : Nat) {s : NodeState} (hA : A s) (h : T s) : T (drain c fuel s) := by
  induction fuel generalizing s with
  | zero => unfold drain; exact h
  | succ n ih =>
    unfold drain; repeat' split
    all_goals first | exact h | skip
    rename_i m rest hq
    have hA' : A { s with queue := rest } := hA
    have h' : T { s with queue := rest } := h
    exact ih (handleInternal_A m hA') (handleInternal_T m hA' h')

theorem step_T {s : NodeState} (i : Input) (hi : i.notFuture s) (hA : A s) (h : T s) : T (step c s i) := by
  unfold step; split
  · exact h
  · exact drain_T _ (handleInput_A i hA) (handleInput_T i hi hA h)

theorem run_AT (is : List Input) {s : NodeState} (hnf : NoFutureTimeout c s is) (hA : A s) (h : T s) :
    A (run c s is) ∧ T (run c s is) := by
  induction is generalizing s with
  | nil => unfold run; exact ⟨hA, h⟩
  | cons i is ih =>
    have := ih hnf.2 (step_A i hA) (step_T i hnf.1 hA h)
    unfold run at this ⊢
    simpa [List.foldl] using this

theorem init_A : A NodeState.init := by
  show AI _ _ _
  simp [AI, NodeState.init]

theorem init_T : T NodeState.init := TR.init

end Tmv.Cons
