import Tmv.Lemmas.ConsJust
/-! Lock discipline: (A) `LockedRound ≤ Round`, with equality only from the precommit step on;
(T) once a block precommit is signed, the node is locked on that block until a +2/3 prevote majority
for something else in a later round is recorded, and its later prevotes respect that. -/
namespace Tmv.Cons

@[simp] theorem emit_round (s : NodeState) (o : Output) : (emit s o).round = s.round :=
  congrArg (fun x => x.1) (emit_core s o)
@[simp] theorem emit_step (s : NodeState) (o : Output) : (emit s o).step = s.step :=
  congrArg (fun x => x.2.1) (emit_core s o)
@[simp] theorem emit_lockedRound (s : NodeState) (o : Output) : (emit s o).lockedRound = s.lockedRound :=
  congrArg (fun x => x.2.2.1) (emit_core s o)
@[simp] theorem emit_lockedBlock (s : NodeState) (o : Output) : (emit s o).lockedBlock = s.lockedBlock :=
  congrArg (fun x => x.2.2.2.1) (emit_core s o)
@[simp] theorem emit_proposalBlock (s : NodeState) (o : Output) : (emit s o).proposalBlock = s.proposalBlock :=
  congrArg (fun x => x.2.2.2.2.2.2.2.1) (emit_core s o)
@[simp] theorem emit_votes (s : NodeState) (o : Output) : (emit s o).votes = s.votes :=
  congrArg (fun x => x.2.2.2.2.2.2.2.2.2.2.2.2.1) (emit_core s o)
@[simp] theorem panicWith_round (s : NodeState) (w : String) : (panicWith s w).round = s.round :=
  congrArg (fun x => x.1) (panicWith_core s w)
@[simp] theorem panicWith_step (s : NodeState) (w : String) : (panicWith s w).step = s.step :=
  congrArg (fun x => x.2.1) (panicWith_core s w)
@[simp] theorem panicWith_lockedRound (s : NodeState) (w : String) : (panicWith s w).lockedRound = s.lockedRound :=
  congrArg (fun x => x.2.2.1) (panicWith_core s w)
@[simp] theorem panicWith_lockedBlock (s : NodeState) (w : String) : (panicWith s w).lockedBlock = s.lockedBlock :=
  congrArg (fun x => x.2.2.2.1) (panicWith_core s w)
@[simp] theorem panicWith_proposalBlock (s : NodeState) (w : String) : (panicWith s w).proposalBlock = s.proposalBlock :=
  congrArg (fun x => x.2.2.2.2.2.2.2.1) (panicWith_core s w)
@[simp] theorem panicWith_votes (s : NodeState) (w : String) : (panicWith s w).votes = s.votes :=
  congrArg (fun x => x.2.2.2.2.2.2.2.2.2.2.2.2.1) (panicWith_core s w)
@[simp] theorem signAddVote_round (c : Cfg) (s : NodeState) (t : VType) (b : Bid) : (signAddVote c s t b).round = s.round :=
  congrArg (fun x => x.1) (signAddVote_core c s t b)
@[simp] theorem signAddVote_step (c : Cfg) (s : NodeState) (t : VType) (b : Bid) : (signAddVote c s t b).step = s.step :=
  congrArg (fun x => x.2.1) (signAddVote_core c s t b)
@[simp] theorem signAddVote_lockedRound (c : Cfg) (s : NodeState) (t : VType) (b : Bid) : (signAddVote c s t b).lockedRound = s.lockedRound :=
  congrArg (fun x => x.2.2.1) (signAddVote_core c s t b)
@[simp] theorem signAddVote_lockedBlock (c : Cfg) (s : NodeState) (t : VType) (b : Bid) : (signAddVote c s t b).lockedBlock = s.lockedBlock :=
  congrArg (fun x => x.2.2.2.1) (signAddVote_core c s t b)
@[simp] theorem signAddVote_proposalBlock (c : Cfg) (s : NodeState) (t : VType) (b : Bid) : (signAddVote c s t b).proposalBlock = s.proposalBlock :=
  congrArg (fun x => x.2.2.2.2.2.2.2.1) (signAddVote_core c s t b)
@[simp] theorem signAddVote_votes (c : Cfg) (s : NodeState) (t : VType) (b : Bid) : (signAddVote c s t b).votes = s.votes :=
  congrArg (fun x => x.2.2.2.2.2.2.2.2.2.2.2.2.1) (signAddVote_core c s t b)
@[simp] theorem decideProposal_round (c : Cfg) (s : NodeState) (r me : Nat) : (decideProposal c s r me).round = s.round :=
  congrArg (fun x => x.1) (decideProposal_core c s r me)
@[simp] theorem decideProposal_step (c : Cfg) (s : NodeState) (r me : Nat) : (decideProposal c s r me).step = s.step :=
  congrArg (fun x => x.2.1) (decideProposal_core c s r me)
@[simp] theorem decideProposal_lockedRound (c : Cfg) (s : NodeState) (r me : Nat) : (decideProposal c s r me).lockedRound = s.lockedRound :=
  congrArg (fun x => x.2.2.1) (decideProposal_core c s r me)
@[simp] theorem decideProposal_lockedBlock (c : Cfg) (s : NodeState) (r me : Nat) : (decideProposal c s r me).lockedBlock = s.lockedBlock :=
  congrArg (fun x => x.2.2.2.1) (decideProposal_core c s r me)
@[simp] theorem decideProposal_proposalBlock (c : Cfg) (s : NodeState) (r me : Nat) : (decideProposal c s r me).proposalBlock = s.proposalBlock :=
  congrArg (fun x => x.2.2.2.2.2.2.2.1) (decideProposal_core c s r me)
@[simp] theorem decideProposal_votes (c : Cfg) (s : NodeState) (r me : Nat) : (decideProposal c s r me).votes = s.votes :=
  congrArg (fun x => x.2.2.2.2.2.2.2.2.2.2.2.2.1) (decideProposal_core c s r me)
@[simp] theorem doPrevote_round (c : Cfg) (s : NodeState) : (doPrevote c s).round = s.round :=
  congrArg (fun x => x.1) (doPrevote_core c s)
@[simp] theorem doPrevote_step (c : Cfg) (s : NodeState) : (doPrevote c s).step = s.step :=
  congrArg (fun x => x.2.1) (doPrevote_core c s)
@[simp] theorem doPrevote_lockedRound (c : Cfg) (s : NodeState) : (doPrevote c s).lockedRound = s.lockedRound :=
  congrArg (fun x => x.2.2.1) (doPrevote_core c s)
@[simp] theorem doPrevote_lockedBlock (c : Cfg) (s : NodeState) : (doPrevote c s).lockedBlock = s.lockedBlock :=
  congrArg (fun x => x.2.2.2.1) (doPrevote_core c s)
@[simp] theorem doPrevote_proposalBlock (c : Cfg) (s : NodeState) : (doPrevote c s).proposalBlock = s.proposalBlock :=
  congrArg (fun x => x.2.2.2.2.2.2.2.1) (doPrevote_core c s)
@[simp] theorem doPrevote_votes (c : Cfg) (s : NodeState) : (doPrevote c s).votes = s.votes :=
  congrArg (fun x => x.2.2.2.2.2.2.2.2.2.2.2.2.1) (doPrevote_core c s)

@[simp] theorem unlock_lockedRound (s : NodeState) : (unlock s).lockedRound = -1 := rfl
@[simp] theorem unlock_lockedBlock (s : NodeState) : (unlock s).lockedBlock = none := rfl
@[simp] theorem unlock_round (s : NodeState) : (unlock s).round = s.round := rfl
@[simp] theorem unlock_step (s : NodeState) : (unlock s).step = s.step := rfl
@[simp] theorem unlock_votes (s : NodeState) : (unlock s).votes = s.votes := rfl
@[simp] theorem unlock_out (s : NodeState) : (unlock s).out = s.out := rfl
@[simp] theorem unlock_proposalBlock (s : NodeState) : (unlock s).proposalBlock = s.proposalBlock := rfl

attribute [local irreducible] emit panicWith sign signAddVote decideProposal doPrevote enterPrevote enterPropose
  enterNewRound newRoundReset enterPrevoteWait unlock enterPrecommit enterPrecommitWait finalizeCommit tryFinalizeCommit
  enterCommit setProposal handleCompleteProposal addBlockPart addVote onPolka prevoteTransitions afterPrevote
  afterPrecommit handleInternal handleTimeout
  handleTxsAvailable handleInput drain step run HVS.addVote HVS.setRound HVS.setPeerMaj23 HVS.polRound
  isProposalComplete maj23Of hasAnyOf hashesTo hasHeader

/-- (A): the lock is never ahead of the round, and is of the current round only from the
precommit step on -/
def AI (r : Nat) (st : Step) (lr : Int) : Prop := lr ≤ (r : Int) ∧ (lr = (r : Int) → 6 ≤ st.rank)

abbrev A (s : NodeState) : Prop := AI s.round s.step s.lockedRound

syntax "ainv_step" : tactic
macro_rules | `(tactic| ainv_step) => `(tactic| assumption)
macro_rules | `(tactic| ainv_step) => `(tactic| (simp [AI, Step.rank] at * <;> omega))
macro "ainv" : tactic => `(tactic| repeat' (first | ainv_step | (dsimp only; ainv_step)))

variable {c : Cfg}

theorem enterPrevote_A {s : NodeState} (r : Nat) (h : A s) : A (enterPrevote c s r) := by
  unfold enterPrevote; (try simp only []); repeat' split
  all_goals ainv
macro_rules | `(tactic| ainv_step) => `(tactic| apply enterPrevote_A)

theorem enterPropose_A {s : NodeState} (r : Nat) (h : A s) : A (enterPropose c s r) := by
  unfold enterPropose; (try simp only []); repeat' split
  all_goals ainv
macro_rules | `(tactic| ainv_step) => `(tactic| apply enterPropose_A)

theorem newRoundReset_A {s : NodeState} (r : Nat) (hg : ¬(r < s.round ∨ s.round = r ∧ s.step ≠ Step.newHeight))
    (h : A s) : A (newRoundReset s r) := by
  have hf := newRoundReset_fields s r
  show AI _ _ _
  rw [hf.2.2.1, hf.2.2.2.1, hf.2.2.2.2.2.2]
  by_cases hs : s.step = .newHeight
  · simp [AI, Step.rank, hs] at *; omega
  · simp [AI, Step.rank, hs] at *; omega

theorem enterNewRound_A {s : NodeState} (r : Nat) (h : A s) : A (enterNewRound c s r) := by
  unfold enterNewRound
  split
  · exact h
  · split
    · exact h
    · rename_i hg
      simp only []
      have h' := newRoundReset_A r hg h
      split
      · ainv
      · repeat' split
        all_goals ainv
macro_rules | `(tactic| ainv_step) => `(tactic| apply enterNewRound_A)

theorem enterPrevoteWait_A {s : NodeState} (r : Nat) (h : A s) : A (enterPrevoteWait c s r) := by
  unfold enterPrevoteWait; (try simp only []); repeat' split
  all_goals ainv
macro_rules | `(tactic| ainv_step) => `(tactic| apply enterPrevoteWait_A)

theorem unlock_A {s : NodeState} (h : A s) : A (unlock s) := by
  unfold unlock; (try simp only []); repeat' split
  all_goals ainv
macro_rules | `(tactic| ainv_step) => `(tactic| apply unlock_A)

theorem enterPrecommit_A {s : NodeState} (r : Nat) (h : A s) : A (enterPrecommit c s r) := by
  unfold enterPrecommit; (try simp only []); repeat' split
  all_goals ainv
macro_rules | `(tactic| ainv_step) => `(tactic| apply enterPrecommit_A)

theorem enterPrecommitWait_A {s : NodeState} (r : Nat) (h : A s) : A (enterPrecommitWait c s r) := by
  unfold enterPrecommitWait; (try simp only []); repeat' split
  all_goals ainv
macro_rules | `(tactic| ainv_step) => `(tactic| apply enterPrecommitWait_A)

theorem finalizeCommit_A {s : NodeState} (h : A s) : A (finalizeCommit c s) := by
  unfold finalizeCommit; (try simp only []); repeat' split
  all_goals ainv
macro_rules | `(tactic| ainv_step) => `(tactic| apply finalizeCommit_A)

theorem tryFinalizeCommit_A {s : NodeState} (h : A s) : A (tryFinalizeCommit c s) := by
  unfold tryFinalizeCommit; (try simp only []); repeat' split
  all_goals ainv
macro_rules | `(tactic| ainv_step) => `(tactic| apply tryFinalizeCommit_A)

theorem enterCommit_A {s : NodeState} (r : Nat) (h : A s) : A (enterCommit c s r) := by
  unfold enterCommit; (try simp only []); repeat' split
  all_goals ainv
macro_rules | `(tactic| ainv_step) => `(tactic| apply enterCommit_A)

theorem setProposal_A {s : NodeState} (p : Proposal) (h : A s) : A (setProposal c s p) := by
  unfold setProposal; (try simp only []); repeat' split
  all_goals ainv
macro_rules | `(tactic| ainv_step) => `(tactic| apply setProposal_A)

theorem handleCompleteProposal_A {s : NodeState} (h : A s) : A (handleCompleteProposal c s) := by
  unfold handleCompleteProposal; (try simp only []); repeat' split
  all_goals ainv
macro_rules | `(tactic| ainv_step) => `(tactic| apply handleCompleteProposal_A)

theorem addBlockPart_A {s : NodeState} (b : Nat) (h : A s) : A (addBlockPart c s b) := by
  unfold addBlockPart; (try simp only []); repeat' split
  all_goals ainv
macro_rules | `(tactic| ainv_step) => `(tactic| apply addBlockPart_A)

theorem onPolka_A {s : NodeState} (vr : Nat) (bid : Bid) (h : A s) : A (onPolka s vr bid) := by
  unfold onPolka; (try simp only []); repeat' split
  all_goals ainv
macro_rules | `(tactic| ainv_step) => `(tactic| apply onPolka_A)

theorem prevoteTransitions_A {s : NodeState} (vr : Nat) (h : A s) : A (prevoteTransitions c s vr) := by
  unfold prevoteTransitions; (try simp only []); repeat' split
  all_goals ainv
macro_rules | `(tactic| ainv_step) => `(tactic| apply prevoteTransitions_A)

theorem afterPrevote_A {s : NodeState} (vr : Nat) (h : A s) : A (afterPrevote c s vr) := by
  unfold afterPrevote; (try simp only []); repeat' split
  all_goals ainv
macro_rules | `(tactic| ainv_step) => `(tactic| apply afterPrevote_A)

theorem afterPrecommit_A {s : NodeState} (vr : Nat) (h : A s) : A (afterPrecommit c s vr) := by
  unfold afterPrecommit; (try simp only []); repeat' split
  all_goals ainv
macro_rules | `(tactic| ainv_step) => `(tactic| apply afterPrecommit_A)

theorem addVote_A {s : NodeState} (v : Vote) (peer : Peer) (h : A s) : A (addVote c s v peer) := by
  unfold addVote; (try simp only []); repeat' split
  all_goals ainv
macro_rules | `(tactic| ainv_step) => `(tactic| apply addVote_A)

theorem handleInternal_A {s : NodeState} (m : Internal) (h : A s) : A (handleInternal c s m) := by
  unfold handleInternal; (try simp only []); repeat' split
  all_goals ainv
macro_rules | `(tactic| ainv_step) => `(tactic| apply handleInternal_A)

theorem handleTimeout_A {s : NodeState} (r : Nat) (st : Step) (h : A s) : A (handleTimeout c s r st) := by
  unfold handleTimeout; (try simp only []); repeat' split
  all_goals ainv
macro_rules | `(tactic| ainv_step) => `(tactic| apply handleTimeout_A)

theorem handleTxsAvailable_A {s : NodeState} (h : A s) : A (handleTxsAvailable c s) := by
  unfold handleTxsAvailable; (try simp only []); repeat' split
  all_goals ainv
macro_rules | `(tactic| ainv_step) => `(tactic| apply handleTxsAvailable_A)

theorem handleInput_A {s : NodeState} (i : Input) (h : A s) : A (handleInput c s i) := by
  unfold handleInput; (try simp only []); repeat' split
  all_goals ainv
macro_rules | `(tactic| ainv_step) => `(tactic| apply handleInput_A)

theorem drain_A (fuel : Nat) {s : NodeState} (h : A s) : A (drain c fuel s) := by
  induction fuel generalizing s with
  | zero => unfold drain; exact h
  | succ n ih =>
    unfold drain; repeat' split
    all_goals first | exact h | (apply ih; apply handleInternal_A; exact h)

theorem step_A {s : NodeState} (i : Input) (h : A s) : A (step c s i) := by
  unfold step; split
  · exact h
  · exact drain_A _ (handleInput_A i h)

end Tmv.Cons

namespace Tmv.Cons
attribute [local irreducible] emit panicWith sign signAddVote decideProposal doPrevote enterPrevote enterPropose
  enterNewRound newRoundReset enterPrevoteWait unlock enterPrecommit enterPrecommitWait finalizeCommit tryFinalizeCommit
  enterCommit setProposal handleCompleteProposal addBlockPart addVote onPolka prevoteTransitions afterPrevote
  afterPrecommit handleInternal handleTimeout
  handleTxsAvailable handleInput drain step run HVS.addVote HVS.setRound HVS.setPeerMaj23 HVS.polRound
  isProposalComplete maj23Of hasAnyOf hashesTo hasHeader

/-- a +2/3 prevote majority for something other than block `b` is recorded for a round in `(lo, hi]` -/
def Polka (v : HVS) (lo : Int) (hi : Nat) (b : Nat) : Prop :=
  ∃ (r'' : Nat) (y : Bid), lo < (r'' : Int) ∧ r'' ≤ hi ∧ y ≠ some b ∧ maj23Of (v.prevotes (r'' : Int)) = some y

theorem Polka.mono {v v' : HVS} {lo lo' : Int} {hi hi' : Nat} {b : Nat} (h : Polka v lo hi b)
    (hs : Stable v v') (h1 : lo' ≤ lo) (h2 : hi ≤ hi') : Polka v' lo' hi' b := by
  obtain ⟨r, y, a, b', c', d⟩ := h
  exact ⟨r, y, by omega, by omega, c', hs _ _ d⟩

/-- (T): votes signed so far vs. lock and recorded majorities -/
structure TR (r : Nat) (lr : Int) (lb : Option Nat) (v : HVS) (out : List Output) : Prop where
  /-- signed votes are for rounds reached -/
  a4 : ∀ t r' x, Output.signVote t r' x ∈ out → r' ≤ r
  /-- a signed block precommit is still the lock, or a later polka for something else is recorded -/
  k : ∀ r₀ b, Output.signVote .precommit r₀ (some b) ∈ out → (lb = some b ∧ (r₀ : Int) ≤ lr) ∨ Polka v r₀ r b
  /-- a prevote for something else in a later round has such a polka no later than its own round -/
  p : ∀ r₀ b r' x, Output.signVote .precommit r₀ (some b) ∈ out → Output.signVote .prevote r' x ∈ out →
      r₀ < r' → x ≠ some b → Polka v r₀ r' b

abbrev T (s : NodeState) : Prop := TR s.round s.lockedRound s.lockedBlock s.votes s.out

theorem TR.init : TR 0 (-1) none HVS.init [] := ⟨by simp, by simp, by simp⟩

theorem TR.mono_round {r r' lr lb v out} (h : TR r lr lb v out) (hr : r ≤ r') : TR r' lr lb v out :=
  ⟨fun t r₀ x hm => Nat.le_trans (h.a4 t r₀ x hm) hr,
   fun r₀ b hm => (h.k r₀ b hm).imp id (fun q => q.mono (Stable.refl _) (Int.le_refl _) hr),
   h.p⟩

theorem TR.stable {r lr lb v v' out} (h : TR r lr lb v out) (hs : Stable v v') : TR r lr lb v' out :=
  ⟨h.a4,
   fun r₀ b hm => (h.k r₀ b hm).imp id (fun q => q.mono hs (Int.le_refl _) (Nat.le_refl _)),
   fun r₀ b r' x h1 h2 h3 h4 => (h.p r₀ b r' x h1 h2 h3 h4).mono hs (Int.le_refl _) (Nat.le_refl _)⟩

def isVote : Output → Prop
  | .signVote _ _ _ => True
  | _ => False

theorem TR.push_other {r lr lb v out} (h : TR r lr lb v out) (o : Output) (ho : ¬ isVote o) :
    TR r lr lb v (out ++ [o]) := by
  have hne : ∀ t r' x, o ≠ Output.signVote t r' x := by
    intro t r' x e; subst e; exact ho trivial
  refine ⟨?_, ?_, ?_⟩
  · intro t r' x hm
    rcases List.mem_append.1 hm with a | a
    · exact h.a4 t r' x a
    · simp at a; exact absurd a.symm (hne _ _ _)
  · intro r₀ b hm
    rcases List.mem_append.1 hm with a | a
    · exact h.k r₀ b a
    · simp at a; exact absurd a.symm (hne _ _ _)
  · intro r₀ b r' x h1 h2 h3 h4
    rcases List.mem_append.1 h1 with a | a
    · rcases List.mem_append.1 h2 with a' | a'
      · exact h.p r₀ b r' x a a' h3 h4
      · simp at a'; exact absurd a'.symm (hne _ _ _)
    · simp at a; exact absurd a.symm (hne _ _ _)

/-- signing a prevote for `x` in the current round, where `x` is the locked block if there is one -/
theorem TR.push_pv {r lr lb v out} (h : TR r lr lb v out) (x : Bid) (hx : ∀ b, lb = some b → x = some b) :
    TR r lr lb v (out ++ [.signVote .prevote r x]) := by
  refine ⟨?_, ?_, ?_⟩
  · intro t r' x' hm
    rcases List.mem_append.1 hm with a | a
    · exact h.a4 t r' x' a
    · simp at a; omega
  · intro r₀ b hm
    rcases List.mem_append.1 hm with a | a
    · exact h.k r₀ b a
    · simp at a
  · intro r₀ b r' x' h1 h2 h3 h4
    rcases List.mem_append.1 h1 with a | a
    · rcases List.mem_append.1 h2 with a' | a'
      · exact h.p r₀ b r' x' a a' h3 h4
      · simp at a'
        obtain ⟨rfl, rfl⟩ := a'
        rcases h.k r₀ b a with ⟨hl, _⟩ | hp
        · exact absurd (hx b hl) h4
        · exact hp
    · simp at a

/-- signing a precommit in the current round: nil, or the block locked in this round -/
theorem TR.push_pc {r lr lb v out} (h : TR r lr lb v out) (x : Bid)
    (hx : ∀ b, x = some b → lb = some b ∧ lr = (r : Int)) :
    TR r lr lb v (out ++ [.signVote .precommit r x]) := by
  refine ⟨?_, ?_, ?_⟩
  · intro t r' x' hm
    rcases List.mem_append.1 hm with a | a
    · exact h.a4 t r' x' a
    · simp at a; omega
  · intro r₀ b hm
    rcases List.mem_append.1 hm with a | a
    · exact h.k r₀ b a
    · simp at a
      obtain ⟨rfl, rfl⟩ := a
      have := hx b rfl
      exact Or.inl ⟨this.1, by omega⟩
  · intro r₀ b r' x' h1 h2 h3 h4
    rcases List.mem_append.1 h2 with a' | a'
    · rcases List.mem_append.1 h1 with a | a
      · exact h.p r₀ b r' x' a a' h3 h4
      · simp at a
        obtain ⟨rfl, rfl⟩ := a
        have := h.a4 _ _ _ a'
        omega
    · simp at a'

/-- changing the lock: every block that was locked stays locked (no earlier), or a polka for something
else in a round after the old lock round is recorded -/
theorem TR.relock {r lr lb v out} (h : TR r lr lb v out) (lr' : Int) (lb' : Option Nat)
    (hc : ∀ b, lb = some b → (lb' = some b ∧ lr ≤ lr') ∨ Polka v lr r b) :
    TR r lr' lb' v out := by
  refine ⟨h.a4, ?_, h.p⟩
  intro r₀ b hm
  rcases h.k r₀ b hm with ⟨hl, hle⟩ | hp
  · rcases hc b hl with ⟨e, hle'⟩ | hp
    · exact Or.inl ⟨e, by omega⟩
    · exact Or.inr (hp.mono (Stable.refl _) hle (Nat.le_refl _))
  · exact Or.inr hp

end Tmv.Cons
