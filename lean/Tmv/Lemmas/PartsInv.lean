import Tmv.Lemmas.VoteReachRun
/-! A universal invariant of the node model: a complete part set IS the proposal block
(`partsDone = true → proposalBlock = proposalParts`, and the header is known). Converse of
`Cons.KI.pb` (Lemmas/CommitInv.lean). -/
namespace Tmv.Cons

/-- a complete part set is the proposal block -/
def PD (s : NodeState) : Prop :=
  s.partsDone = true → s.proposalBlock = s.proposalParts ∧ s.proposalParts.isSome = true

/-- `PD` on the three fields it reads -/
def PDI (block parts : Option Nat) (done : Bool) : Prop :=
  done = true → block = parts ∧ parts.isSome = true

theorem PD_def (s : NodeState) : PD s = PDI s.proposalBlock s.proposalParts s.partsDone := rfl

theorem PD.init : PD NodeState.init := by
  intro h
  change false = true at h
  cases h

/-- nothing is complete: nothing to show -/
theorem PDI.clear (b p : Option Nat) : PDI b p false := fun e => by cases e

/-- a complete block with its own header -/
theorem PDI.full (x : Nat) : PDI (some x) (some x) true := fun _ => ⟨rfl, rfl⟩

theorem PD.proj {B : NodeState} (h : PD B) : PDI B.proposalBlock B.proposalParts B.partsDone := h

/-- the invariant only reads `Core` fields -/
theorem PD.core {s t : NodeState} (hc : Core t = Core s) (h : PD s) : PD t := by
  unfold Core at hc
  simp only [Prod.mk.injEq] at hc
  obtain ⟨_, _, _, _, _, _, _, epb, epp, epd, _⟩ := hc
  rw [PD_def, epb, epp, epd]
  exact h

private theorem pd_hashesTo_eq {ob : Option Nat} {bid : Bid} (h : hashesTo ob bid = true) :
    ∃ b, ob = some b ∧ bid = some b := by
  unfold hashesTo at h
  split at h
  · rename_i b b'; simp at h; subst h; exact ⟨b, rfl, rfl⟩
  · cases h

private theorem pd_hasHeader_eq {p : Option Nat} {bid : Bid} (h : hasHeader p bid = true) :
    ∃ b, p = some b ∧ bid = some b := by
  unfold hasHeader at h
  split at h
  · rename_i b b'; simp at h; subst h; exact ⟨b, rfl, rfl⟩
  · cases h

private theorem pd_hashesTo_self (b : Nat) : hashesTo (some b) (some b) = true := by
  unfold hashesTo; simp

variable {c : Cfg}

/-! ### every function of the node model keeps `PD` -/

attribute [local irreducible] emit panicWith sign signAddVote decideProposal doPrevote enterPrevote enterPropose
  enterNewRound newRoundReset enterPrevoteWait unlock enterPrecommit enterPrecommitWait finalizeCommit tryFinalizeCommit
  enterCommit setProposal handleCompleteProposal addBlockPart addVote onPolka prevoteTransitions afterPrevote
  afterPrecommit handleInternal handleTimeout
  handleTxsAvailable handleInput drain step run HVS.addVote HVS.setRound HVS.setPeerMaj23 HVS.polRound
  isProposalComplete maj23Of hasAnyOf hashesTo hasHeader

/-- `pd_app`: the goal `PD (f …)` is reduced to `PD` of the argument state by the lemma of `f` (extended
after each lemma); `pd_step` also sees through record updates of fields `PD` does not read. Every
step makes structural progress, so `pdinv` terminates. -/
syntax "pd_app" : tactic
macro_rules | `(tactic| pd_app) => `(tactic| assumption)
macro "pd_step" : tactic =>
  `(tactic| first
    | pd_app
    | (dsimp only [PD_def]; first | exact PDI.clear _ _ | (refine PD.proj ?_; pd_app)))
macro "pdinv" : tactic => `(tactic| repeat' pd_step)

theorem emit_PD {s : NodeState} (o : Output) (h : PD s) : PD (emit s o) := h.core (emit_core s o)
macro_rules | `(tactic| pd_app) => `(tactic| apply emit_PD)
theorem panicWith_PD {s : NodeState} (w : String) (h : PD s) : PD (panicWith s w) := h.core (panicWith_core s w)
macro_rules | `(tactic| pd_app) => `(tactic| apply panicWith_PD)
theorem signAddVote_PD {s : NodeState} (t : VType) (b : Bid) (h : PD s) : PD (signAddVote c s t b) :=
  h.core (signAddVote_core c s t b)
macro_rules | `(tactic| pd_app) => `(tactic| apply signAddVote_PD)
theorem decideProposal_PD {s : NodeState} (r me : Nat) (h : PD s) : PD (decideProposal c s r me) :=
  h.core (decideProposal_core c s r me)
macro_rules | `(tactic| pd_app) => `(tactic| apply decideProposal_PD)
theorem doPrevote_PD {s : NodeState} (h : PD s) : PD (doPrevote c s) := h.core (doPrevote_core c s)
macro_rules | `(tactic| pd_app) => `(tactic| apply doPrevote_PD)
theorem unlock_PD {s : NodeState} (h : PD s) : PD (unlock s) := by
  unfold unlock; exact h
macro_rules | `(tactic| pd_app) => `(tactic| apply unlock_PD)

theorem enterPrevote_PD {s : NodeState} (r : Nat) (h : PD s) : PD (enterPrevote c s r) := by
  unfold enterPrevote; (try simp only []); repeat' split
  all_goals pdinv
macro_rules | `(tactic| pd_app) => `(tactic| apply enterPrevote_PD)

theorem enterPropose_PD {s : NodeState} (r : Nat) (h : PD s) : PD (enterPropose c s r) := by
  unfold enterPropose; (try simp only []); repeat' split
  all_goals pdinv
macro_rules | `(tactic| pd_app) => `(tactic| apply enterPropose_PD)

theorem newRoundReset_PD {s : NodeState} (r : Nat) (h : PD s) : PD (newRoundReset s r) := by
  unfold newRoundReset; (try simp only []); repeat' split
  all_goals pdinv
macro_rules | `(tactic| pd_app) => `(tactic| apply newRoundReset_PD)

theorem enterNewRound_PD {s : NodeState} (r : Nat) (h : PD s) : PD (enterNewRound c s r) := by
  unfold enterNewRound; (try simp only []); repeat' split
  all_goals pdinv
macro_rules | `(tactic| pd_app) => `(tactic| apply enterNewRound_PD)

theorem enterPrevoteWait_PD {s : NodeState} (r : Nat) (h : PD s) : PD (enterPrevoteWait c s r) := by
  unfold enterPrevoteWait; (try simp only []); repeat' split
  all_goals pdinv
macro_rules | `(tactic| pd_app) => `(tactic| apply enterPrevoteWait_PD)

theorem enterPrecommit_PD {s : NodeState} (r : Nat) (h : PD s) : PD (enterPrecommit c s r) := by
  unfold enterPrecommit; (try simp only []); repeat' split
  all_goals pdinv
macro_rules | `(tactic| pd_app) => `(tactic| apply enterPrecommit_PD)

theorem enterPrecommitWait_PD {s : NodeState} (r : Nat) (h : PD s) : PD (enterPrecommitWait c s r) := by
  unfold enterPrecommitWait; (try simp only []); repeat' split
  all_goals pdinv
macro_rules | `(tactic| pd_app) => `(tactic| apply enterPrecommitWait_PD)

theorem finalizeCommit_PD {s : NodeState} (h : PD s) : PD (finalizeCommit c s) := by
  unfold finalizeCommit; (try simp only []); repeat' split
  all_goals pdinv
macro_rules | `(tactic| pd_app) => `(tactic| apply finalizeCommit_PD)

theorem tryFinalizeCommit_PD {s : NodeState} (h : PD s) : PD (tryFinalizeCommit c s) := by
  unfold tryFinalizeCommit; (try simp only []); repeat' split
  all_goals pdinv
macro_rules | `(tactic| pd_app) => `(tactic| apply tryFinalizeCommit_PD)

theorem enterCommit_PD {s : NodeState} (r : Nat) (h : PD s) : PD (enterCommit c s r) := by
  unfold enterCommit; (try simp only []); repeat' split
  all_goals first
    | (pdinv; done)
    | skip
  -- the locked block is the committed one: it is taken over, complete
  all_goals
    obtain ⟨b, hb, _⟩ := pd_hashesTo_eq (ob := s.lockedBlock) (by assumption)
    apply tryFinalizeCommit_PD
    dsimp only [PD_def]
    rw [hb]
    exact PDI.full b
macro_rules | `(tactic| pd_app) => `(tactic| apply enterCommit_PD)

theorem setProposal_PD {s : NodeState} (p : Proposal) (h : PD s) : PD (setProposal c s p) := by
  unfold setProposal; (try simp only []); repeat' split
  all_goals pdinv
macro_rules | `(tactic| pd_app) => `(tactic| apply setProposal_PD)

theorem handleCompleteProposal_PD {s : NodeState} (h : PD s) : PD (handleCompleteProposal c s) := by
  unfold handleCompleteProposal; (try simp only []); repeat' split
  all_goals pdinv
macro_rules | `(tactic| pd_app) => `(tactic| apply handleCompleteProposal_PD)

theorem addBlockPart_PD {s : NodeState} (b : Nat) (h : PD s) : PD (addBlockPart c s b) := by
  unfold addBlockPart; (try simp only []); repeat' split
  all_goals first
    | (pdinv; done)
    | skip
  rename_i x hp hx _
  simp at hx
  subst hx
  apply handleCompleteProposal_PD
  dsimp only [PD_def]
  rw [hp]
  exact PDI.full x
macro_rules | `(tactic| pd_app) => `(tactic| apply addBlockPart_PD)

theorem onPolka_PD {s : NodeState} (vr : Nat) (bid : Bid) (h : PD s) : PD (onPolka s vr bid) := by
  have key : ∀ t : NodeState, PD t → PD
      (if bid.isSome ∧ t.validRound < (vr : Int) ∧ vr = t.round then
        (let t' := if hashesTo t.proposalBlock bid then
            { t with validRound := vr, validBlock := t.proposalBlock }
          else { t with proposalBlock := none }
        if !hasHeader t'.proposalParts bid then
          { t' with proposalParts := bid, partsDone := false } else t')
      else t) := by
    intro t ht
    simp only []
    repeat' split
    all_goals first
      | (pdinv; done)
      | skip
    -- the block is dropped but the parts are kept: they were not complete
    rename_i hh hn
    dsimp only at hn
    dsimp only [PD_def]
    intro hd
    obtain ⟨e1, e2⟩ := ht hd
    have hhd : hasHeader t.proposalParts bid = true := by
      cases hx : hasHeader t.proposalParts bid with
      | true => rfl
      | false => rw [hx] at hn; exact absurd rfl hn
    obtain ⟨x, hx, e⟩ := pd_hasHeader_eq hhd
    subst e
    rw [e1, hx, pd_hashesTo_self] at hh
    exact absurd rfl hh
  unfold onPolka
  simp only []
  split
  · exact key _ (unlock_PD h)
  · exact key _ h
macro_rules | `(tactic| pd_app) => `(tactic| apply onPolka_PD)

theorem prevoteTransitions_PD {s : NodeState} (vr : Nat) (h : PD s) : PD (prevoteTransitions c s vr) := by
  unfold prevoteTransitions; (try simp only []); repeat' split
  all_goals pdinv
macro_rules | `(tactic| pd_app) => `(tactic| apply prevoteTransitions_PD)

theorem afterPrevote_PD {s : NodeState} (vr : Nat) (h : PD s) : PD (afterPrevote c s vr) := by
  unfold afterPrevote; (try simp only []); repeat' split
  all_goals pdinv
macro_rules | `(tactic| pd_app) => `(tactic| apply afterPrevote_PD)

theorem afterPrecommit_PD {s : NodeState} (vr : Nat) (h : PD s) : PD (afterPrecommit c s vr) := by
  unfold afterPrecommit; (try simp only []); repeat' split
  all_goals pdinv
macro_rules | `(tactic| pd_app) => `(tactic| apply afterPrecommit_PD)

theorem addVote_PD {s : NodeState} (v : Vote) (peer : Peer) (h : PD s) : PD (addVote c s v peer) := by
  unfold addVote; (try simp only []); repeat' split
  all_goals pdinv
macro_rules | `(tactic| pd_app) => `(tactic| apply addVote_PD)

theorem handleTimeout_PD {s : NodeState} (r : Nat) (st : Step) (h : PD s) : PD (handleTimeout c s r st) := by
  unfold handleTimeout; (try simp only []); repeat' split
  all_goals pdinv

theorem handleTxsAvailable_PD {s : NodeState} (h : PD s) : PD (handleTxsAvailable c s) := by
  unfold handleTxsAvailable; (try simp only []); repeat' split
  all_goals pdinv

theorem handleInternal_PD {s : NodeState} (m : Internal) (h : PD s) : PD (handleInternal c s m) := by
  unfold handleInternal
  cases m with
  | proposal p => exact setProposal_PD p h
  | part b => exact addBlockPart_PD b h
  | vote v => exact addVote_PD v 0 h

theorem handleInput_PD {s : NodeState} (i : Input) (h : PD s) : PD (handleInput c s i) := by
  unfold handleInput
  cases i with
  | timeout r st => exact handleTimeout_PD r st h
  | peerMaj23 r t peer bid => exact h
  | proposal p => exact setProposal_PD p h
  | blockComplete b => exact addBlockPart_PD b h
  | vote v peer => exact addVote_PD v peer h
  | txsAvailable => exact handleTxsAvailable_PD h

theorem drain_PD (fuel : Nat) {s : NodeState} (h : PD s) : PD (drain c fuel s) := by
  induction fuel generalizing s with
  | zero => unfold drain; exact h
  | succ n ih =>
    by_cases h1 : s.halted = true ∨ s.decided.isSome = true
    · rw [drain_succ_stop n s (Or.inl h1)]; exact h
    · cases hq : s.queue with
      | nil => rw [drain_succ_stop n s (Or.inr hq)]; exact h
      | cons m rest =>
        rw [drain_succ_cons n s m rest h1 hq]
        exact ih (handleInternal_PD m (s := { s with queue := rest }) h)

/-- one input of the receive routine keeps `PD` (no hypothesis on the input) -/
theorem step_PD {c : Cfg} {s : NodeState} (i : Input) (h : PD s) : PD (step c s i) := by
  unfold step; split
  · exact h
  · exact drain_PD _ (handleInput_PD i h)

theorem run_PD {c : Cfg} (is : List Input) {s : NodeState} (h : PD s) : PD (run c s is) := by
  induction is generalizing s with
  | nil => unfold run; exact h
  | cons i is ih =>
    have := ih (step_PD (c := c) i h)
    unfold run at this ⊢
    simpa [List.foldl] using this

end Tmv.Cons
