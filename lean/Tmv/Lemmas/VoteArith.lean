import Tmv.Lemmas.NetVoteSet
import Tmv.Lemmas.Agreement
/-! Vote-set arithmetic for C03 (termination): votes carrying at least the quorum for one value,
delivered in ANY order to a vote set that may also hold conflicting votes of other validators and
catch-up junk, yield the recorded +2/3 majority for that value; and votes of more than 2/3 of the
power for anything yield `hasTwoThirdsAny`. Everything is stated over a well-formedness invariant
`VoteSet.WF` that holds of every vote set built from `VoteSet.empty` by `addVote` / `setPeerMaj23`
(reusing C01's bucket-membership invariant `MSv` and C02's `Qv`). -/
namespace Tmv.Cons

/-! ### helpers: association lists, sums -/

theorem alookup_isSome_iff {α β} [DecidableEq α] (l : List (α × β)) (k : α) :
    (alookup l k).isSome = true ↔ k ∈ l.map (·.1) := by
  rw [← alookup_any]
  simp only [List.any_eq_true, List.mem_map, decide_eq_true_eq]

theorem alookup_none_iff {α β} [DecidableEq α] (l : List (α × β)) (k : α) :
    alookup l k = none ↔ k ∉ l.map (·.1) := by
  rw [← alookup_isSome_iff]
  cases alookup l k <;> simp

theorem aset_keys_some {α β} [DecidableEq α] (l : List (α × β)) (k : α) (v : β)
    (h : (alookup l k).isSome = true) : (aset l k v).map (·.1) = l.map (·.1) := by
  unfold aset
  rw [alookup_any, h]
  simp only [if_true, List.map_map]
  apply List.map_congr_left
  intro p _
  simp only [Function.comp]
  split
  · rename_i e; exact e.symm
  · rfl

theorem aset_keys_none {α β} [DecidableEq α] (l : List (α × β)) (k : α) (v : β)
    (h : alookup l k = none) : (aset l k v).map (·.1) = l.map (·.1) ++ [k] := by
  unfold aset
  rw [alookup_any, h]
  simp

theorem foldl_aset_keys {β} (L : List Nat) (key : β) (vv : List (Nat × β))
    (h : ∀ i ∈ L, (alookup vv i).isSome = true) :
    (L.foldl (fun vv i => aset vv i key) vv).map (·.1) = vv.map (·.1) := by
  induction L generalizing vv with
  | nil => rfl
  | cons a L ih =>
    simp only [List.foldl]
    have ha := aset_keys_some vv a key (h a (List.mem_cons_self ..))
    rw [ih, ha]
    intro i hi
    rw [alookup_isSome_iff, ha, ← alookup_isSome_iff]
    exact h i (List.mem_cons_of_mem _ hi)

theorem foldl_aset_lookup {β} (L : List Nat) (key : β) (vv : List (Nat × β)) (v : Nat) (k : β)
    (h : alookup (L.foldl (fun vv i => aset vv i key) vv) v = some k) :
    v ∈ L ∨ alookup vv v = some k := by
  induction L generalizing vv with
  | nil => exact Or.inr h
  | cons a L ih =>
    simp only [List.foldl] at h
    rcases ih _ h with h1 | h1
    · exact Or.inl (List.mem_cons_of_mem _ h1)
    · rw [alookup_aset] at h1
      by_cases e : v = a
      · subst e; exact Or.inl (List.mem_cons_self ..)
      · simp only [e, if_false] at h1; exact Or.inr h1

/-- a nodup list contained in another list weighs at most as much -/
theorem sum_map_le_of_subset (f : Nat → Nat) (Q L : List Nat) (hq : Q.Nodup) (hs : ∀ v ∈ Q, v ∈ L) :
    (Q.map f).sum ≤ (L.map f).sum := by
  induction Q generalizing L with
  | nil => simp
  | cons a Q ih =>
    have ha : a ∈ L := hs a (List.mem_cons_self ..)
    rw [sum_map_perm f (List.perm_cons_erase ha)]
    simp only [List.map_cons, List.sum_cons]
    have hq' := List.nodup_cons.mp hq
    have := ih (L.erase a) hq'.2 (by
      intro v hv
      have hne : v ≠ a := by intro e; subst e; exact hq'.1 hv
      exact (List.mem_erase_of_ne hne).mpr (hs v (List.mem_cons_of_mem _ hv)))
    omega

theorem BlockVotes.mem_add (bv : BlockVotes) (idx p v : Nat) :
    v ∈ (bv.add idx p).voted ↔ v ∈ bv.voted ∨ v = idx := by
  unfold BlockVotes.add
  split
  · rename_i h
    have : idx ∈ bv.voted := by simpa using h
    constructor
    · exact Or.inl
    · rintro (h | h)
      · exact h
      · subst h; exact this
  · simp


/-- validator `v` has a recorded vote for `key` in `vs` (it is listed in the bucket of `key`) -/
def VoteSet.has (vs : VoteSet) (key : Bid) (v : Nat) : Prop :=
  ∃ bv, alookup vs.byBlock key = some bv ∧ v ∈ bv.voted

/-- every recorded vote of `v` in `vs` is for `key` -/
def VoteSet.only (vs : VoteSet) (key : Bid) (v : Nat) : Prop := ∀ k, vs.has k v → k = key

/-- what `VoteSet.addVote` checks before `addVerified`: index in range, address and signature belong
to the validator at that index -/
def Vote.wellSigned (c : Cfg) (v : Vote) : Prop :=
  v.val < c.n ∧ v.addr = v.val ∧ v.sigOK = true ∧ v.signer = v.val

/-- invariant of every vote set reachable from `VoteSet.empty` -/
structure VoteSet.WF (c : Cfg) (vs : VoteSet) : Prop where
  ms : MSv c (fun _ _ => true) vs
  q : Qv c vs
  cross : ∀ k, c.quorum ≤ vs.blockSum k → vs.maj23.isSome = true
  keys : (vs.votes.map (·.1)).Nodup
  keysLt : ∀ p ∈ vs.votes, p.1 < c.n
  sum : vs.sum = ((vs.votes.map (·.1)).map c.power).sum
  slot : ∀ k v, vs.has k v → (alookup vs.votes v).isSome = true
  slotHas : ∀ v k, alookup vs.votes v = some k → ∃ k', vs.has k' v

theorem VoteSet.WF.empty (c : Cfg) : VoteSet.WF c VoteSet.empty := by
  sorry

theorem VoteSet.WF.addVote {c : Cfg} {vs : VoteSet} (h : vs.WF c) (v : Vote) : (vs.addVote c v).1.WF c := by
  sorry

theorem VoteSet.WF.setPeerMaj23 {c : Cfg} {vs : VoteSet} (h : vs.WF c) (peer : Peer) (key : Bid) :
    (vs.setPeerMaj23 peer key).WF c := by
  sorry

/-- recorded votes are never removed -/
theorem VoteSet.has_addVote {c : Cfg} {vs : VoteSet} {k : Bid} {u : Nat} (v : Vote) (h : vs.has k u) :
    (vs.addVote c v).1.has k u := by
  sorry

theorem VoteSet.has_setPeerMaj23 {vs : VoteSet} {k : Bid} {u : Nat} (peer : Peer) (key : Bid) (h : vs.has k u) :
    (vs.setPeerMaj23 peer key).has k u := by
  sorry

/-- **a well-signed vote of a validator with no conflicting vote in the set is recorded** (whether
it is new or a duplicate) -/
theorem VoteSet.addVote_records {c : Cfg} {vs : VoteSet} (h : vs.WF c) (v : Vote) (hv : v.wellSigned c)
    (ho : vs.only v.bid v.val) : (vs.addVote c v).1.has v.bid v.val := by
  sorry

/-- a vote of another validator, or for the same value, keeps `only` -/
theorem VoteSet.only_addVote {c : Cfg} {vs : VoteSet} {key : Bid} {u : Nat} (v : Vote)
    (ho : vs.only key u) (hv : v.val ≠ u ∨ v.bid = key) : (vs.addVote c v).1.only key u := by
  sorry

theorem VoteSet.only_setPeerMaj23 {vs : VoteSet} {key : Bid} {u : Nat} (peer : Peer) (k : Bid)
    (ho : vs.only key u) : (vs.setPeerMaj23 peer k).only key u := by
  sorry

/-- the empty set: nobody has voted -/
theorem VoteSet.only_empty (key : Bid) (u : Nat) : VoteSet.empty.only key u := by
  sorry

/-- **votes of validators carrying the quorum, all recorded for `b` and for nothing else, give the
recorded majority `b`** — whatever else the set holds (votes of other validators for other values,
including a bucket that crossed nothing) and in whatever order everything arrived. -/
theorem VoteSet.quorum_majority {c : Cfg} {vs : VoteSet} (h : vs.WF c) (b : Bid) (Q : List Nat)
    (hn : Q.Nodup) (hq : ∀ v ∈ Q, v < c.n ∧ vs.has b v ∧ vs.only b v)
    (hp : c.quorum ≤ (Q.map c.power).sum) : vs.maj23 = some b := by
  sorry

/-- **recorded votes (for anything) of validators carrying more than 2/3 of the power give
`hasTwoThirdsAny`** -/
theorem VoteSet.any_of_members {c : Cfg} {vs : VoteSet} (h : vs.WF c) (R : List Nat)
    (hn : R.Nodup) (hr : ∀ v ∈ R, v < c.n ∧ ∃ k, vs.has k v)
    (hp : c.total * 2 / 3 < (R.map c.power).sum) : vs.hasTwoThirdsAny c = true := by
  sorry

end Tmv.Cons
