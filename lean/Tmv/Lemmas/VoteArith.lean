import Tmv.Lemmas.NetVoteSet
/-! Vote-set arithmetic for C03 (termination): votes carrying at least the quorum for one value,
delivered in ANY order to a vote set that may also hold conflicting votes of other validators and
catch-up junk, yield the recorded +2/3 majority for that value; and votes of more than 2/3 of the
power for anything yield `hasTwoThirdsAny`. Everything is stated over a well-formedness invariant
`VoteSet.WF` that holds of every vote set built from `VoteSet.empty` by `addVote` / `setPeerMaj23`
(reusing C01's bucket-membership invariant `MSv` and C02's `Qv`). -/
namespace Tmv.Cons

/-! ### helpers: association lists, sums -/

theorem alookup_isSome_iff {α β} [DecidableEq α] (l : List (α × β)) (k : α) :
    (alookup l k).isSome = true ↔ k ∈ l.map (·.1) := by
  rw [← alookup_any]
  simp only [List.any_eq_true, List.mem_map, decide_eq_true_eq]

theorem alookup_none_iff {α β} [DecidableEq α] (l : List (α × β)) (k : α) :
    alookup l k = none ↔ k ∉ l.map (·.1) := by
  rw [← alookup_isSome_iff]
  cases alookup l k <;> simp

theorem aset_keys_some {α β} [DecidableEq α] (l : List (α × β)) (k : α) (v : β)
    (h : (alookup l k).isSome = true) : (aset l k v).map (·.1) = l.map (·.1) := by
  unfold aset
  rw [alookup_any, h]
  simp only [if_true, List.map_map]
  apply List.map_congr_left
  intro p _
  simp only [Function.comp]
  split
  · rename_i e; exact e.symm
  · rfl

theorem aset_keys_none {α β} [DecidableEq α] (l : List (α × β)) (k : α) (v : β)
    (h : alookup l k = none) : (aset l k v).map (·.1) = l.map (·.1) ++ [k] := by
  unfold aset
  rw [alookup_any, h]
  simp

theorem foldl_aset_keys {β} (L : List Nat) (key : β) (vv : List (Nat × β))
    (h : ∀ i ∈ L, (alookup vv i).isSome = true) :
    (L.foldl (fun vv i => aset vv i key) vv).map (·.1) = vv.map (·.1) := by
  induction L generalizing vv with
  | nil => rfl
  | cons a L ih =>
    simp only [List.foldl]
    have ha := aset_keys_some vv a key (h a (List.mem_cons_self ..))
    rw [ih, ha]
    intro i hi
    rw [alookup_isSome_iff, ha, ← alookup_isSome_iff]
    exact h i (List.mem_cons_of_mem _ hi)

theorem foldl_aset_lookup {β} (L : List Nat) (key : β) (vv : List (Nat × β)) (v : Nat) (k : β)
    (h : alookup (L.foldl (fun vv i => aset vv i key) vv) v = some k) :
    v ∈ L ∨ alookup vv v = some k := by
  induction L generalizing vv with
  | nil => exact Or.inr h
  | cons a L ih =>
    simp only [List.foldl] at h
    rcases ih _ h with h1 | h1
    · exact Or.inl (List.mem_cons_of_mem _ h1)
    · rw [alookup_aset] at h1
      by_cases e : v = a
      · subst e; exact Or.inl (List.mem_cons_self ..)
      · simp only [e, if_false] at h1; exact Or.inr h1

/-- a nodup list contained in another list weighs at most as much -/
theorem sum_map_le_of_subset (f : Nat → Nat) (Q L : List Nat) (hq : Q.Nodup) (hs : ∀ v ∈ Q, v ∈ L) :
    (Q.map f).sum ≤ (L.map f).sum := by
  induction Q generalizing L with
  | nil => simp
  | cons a Q ih =>
    have ha : a ∈ L := hs a (List.mem_cons_self ..)
    rw [sum_map_perm f (List.perm_cons_erase ha)]
    simp only [List.map_cons, List.sum_cons]
    have hq' := List.nodup_cons.mp hq
    have := ih (L.erase a) hq'.2 (by
      intro v hv
      have hne : v ≠ a := by intro e; subst e; exact hq'.1 hv
      exact (List.mem_erase_of_ne hne).mpr (hs v (List.mem_cons_of_mem _ hv)))
    omega

theorem BlockVotes.mem_add (bv : BlockVotes) (idx p v : Nat) :
    v ∈ (bv.add idx p).voted ↔ v ∈ bv.voted ∨ v = idx := by
  unfold BlockVotes.add
  split
  · rename_i h
    have : idx ∈ bv.voted := by simpa using h
    constructor
    · exact Or.inl
    · rintro (h | h)
      · exact h
      · subst h; exact this
  · simp


/-- validator `v` has a recorded vote for `key` in `vs` (it is listed in the bucket of `key`) -/
def VoteSet.has (vs : VoteSet) (key : Bid) (v : Nat) : Prop :=
  ∃ bv, alookup vs.byBlock key = some bv ∧ v ∈ bv.voted

/-- every recorded vote of `v` in `vs` is for `key` -/
def VoteSet.only (vs : VoteSet) (key : Bid) (v : Nat) : Prop := ∀ k, vs.has k v → k = key

/-- what `VoteSet.addVote` checks before `addVerified`: index in range, address and signature belong
to the validator at that index -/
def Vote.wellSigned (c : Cfg) (v : Vote) : Prop :=
  v.val < c.n ∧ v.addr = v.val ∧ v.sigOK = true ∧ v.signer = v.val

/-- invariant of every vote set reachable from `VoteSet.empty` -/
structure VoteSet.WF (c : Cfg) (vs : VoteSet) : Prop where
  ms : MSv c (fun _ _ => true) vs
  q : Qv c vs
  cross : ∀ k, c.quorum ≤ vs.blockSum k → vs.maj23.isSome = true
  keys : (vs.votes.map (·.1)).Nodup
  keysLt : ∀ p ∈ vs.votes, p.1 < c.n
  sum : vs.sum = ((vs.votes.map (·.1)).map c.power).sum
  slot : ∀ k v, vs.has k v → (alookup vs.votes v).isSome = true
  slotHas : ∀ v k, alookup vs.votes v = some k → ∃ k', vs.has k' v

/-! ### helpers: `has`, and the part of `WF` that `recordVote` / `finish` rebuild -/

theorem VoteSet.has_congr {vs vs' : VoteSet} (e : vs'.byBlock = vs.byBlock) (k : Bid) (v : Nat) :
    vs'.has k v ↔ vs.has k v := by
  unfold VoteSet.has; rw [e]

theorem VoteSet.has_aset {vs vs' : VoteSet} {key : Bid} {bv : BlockVotes}
    (e : vs'.byBlock = aset vs.byBlock key bv) (k : Bid) (v : Nat) :
    vs'.has k v ↔ if k = key then v ∈ bv.voted else vs.has k v := by
  unfold VoteSet.has
  rw [e, alookup_aset]
  by_cases hk : k = key
  · simp only [hk, if_true]
    constructor
    · rintro ⟨b, hb, hv⟩; cases hb; exact hv
    · intro hv; exact ⟨bv, rfl, hv⟩
  · simp only [hk, if_false]

theorem VoteSet.blockSum_congr {vs vs' : VoteSet} (e : vs'.byBlock = vs.byBlock) (k : Bid) :
    vs'.blockSum k = vs.blockSum k := by
  unfold VoteSet.blockSum; rw [e]

theorem VoteSet.blockSum_aset' {vs vs' : VoteSet} {key : Bid} {bv : BlockVotes}
    (e : vs'.byBlock = aset vs.byBlock key bv) (k : Bid) :
    vs'.blockSum k = if k = key then bv.sum else vs.blockSum k := by
  unfold VoteSet.blockSum
  rw [e, alookup_aset]
  by_cases hk : k = key <;> simp [hk]

/-- `WF` without the bucket invariants, and with `slotHas` excused on `P` -/
structure VoteSet.WFp (c : Cfg) (vs : VoteSet) (P : Nat → Prop) : Prop where
  cross : ∀ k, c.quorum ≤ vs.blockSum k → vs.maj23.isSome = true
  keys : (vs.votes.map (·.1)).Nodup
  keysLt : ∀ k ∈ vs.votes.map (·.1), k < c.n
  sum : vs.sum = ((vs.votes.map (·.1)).map c.power).sum
  slot : ∀ k v, vs.has k v → (alookup vs.votes v).isSome = true
  slotHas : ∀ v k, alookup vs.votes v = some k → P v ∨ ∃ k', vs.has k' v

theorem VoteSet.WF.toWFp {c : Cfg} {vs : VoteSet} (h : vs.WF c) : vs.WFp c (fun _ => False) where
  cross := h.cross
  keys := h.keys
  keysLt := by
    intro k hk
    obtain ⟨p, hp, e⟩ := List.mem_map.mp hk
    subst e; exact h.keysLt p hp
  sum := h.sum
  slot := h.slot
  slotHas := fun v k hv => Or.inr (h.slotHas v k hv)

theorem VoteSet.WFp.toWF {c : Cfg} {vs : VoteSet} {P : Nat → Prop} (h : vs.WFp c P) (hP : ∀ v, ¬ P v)
    (hm : MSv c (fun _ _ => true) vs) (hq : Qv c vs) : vs.WF c where
  ms := hm
  q := hq
  cross := h.cross
  keys := h.keys
  keysLt := fun p hp => h.keysLt p.1 (List.mem_map.mpr ⟨p, hp, rfl⟩)
  sum := h.sum
  slot := h.slot
  slotHas := by
    intro v k hv
    rcases h.slotHas v k hv with h1 | h1
    · exact absurd h1 (hP v)
    · exact h1

theorem VoteSet.recordVote_byBlock (c : Cfg) (vs : VoteSet) (idx : Nat) (key : Bid) :
    (vs.recordVote c idx key).byBlock = vs.byBlock ∧ (vs.recordVote c idx key).maj23 = vs.maj23 := by
  unfold VoteSet.recordVote; repeat' split
  all_goals exact ⟨rfl, rfl⟩

theorem VoteSet.recordVote_WFp {c : Cfg} {vs : VoteSet} (idx : Nat) (key : Bid)
    (h : vs.WFp c (fun _ => False)) (hi : idx < c.n) :
    (vs.recordVote c idx key).WFp c (fun v => v = idx ∧ alookup vs.votes idx = none) ∧
      (alookup (vs.recordVote c idx key).votes idx).isSome = true := by
  have hsame : vs.WFp c (fun v => v = idx ∧ alookup vs.votes idx = none) :=
    { h with slotHas := fun v k hv => (h.slotHas v k hv).elim False.elim Or.inr }
  unfold VoteSet.recordVote
  split
  · rename_i b hb
    have hsome : (alookup vs.votes idx).isSome = true := by rw [hb]; rfl
    split
    · have hk := aset_keys_some vs.votes idx key hsome
      refine ⟨⟨h.cross, ?_, ?_, ?_, ?_, ?_⟩, ?_⟩
      · show ((aset vs.votes idx key).map (·.1)).Nodup
        rw [hk]; exact h.keys
      · show ∀ k ∈ (aset vs.votes idx key).map (·.1), k < c.n
        rw [hk]; exact h.keysLt
      · show vs.sum = (((aset vs.votes idx key).map (·.1)).map c.power).sum
        rw [hk]; exact h.sum
      · intro k v hv
        show (alookup (aset vs.votes idx key) v).isSome = true
        rw [alookup_isSome_iff, hk, ← alookup_isSome_iff]
        exact h.slot k v hv
      · intro v k hv
        have hv' : alookup (aset vs.votes idx key) v = some k := hv
        rw [alookup_aset] at hv'
        by_cases e : v = idx
        · subst e
          exact (h.slotHas v b hb).elim False.elim Or.inr
        · simp only [e, if_false] at hv'
          exact (h.slotHas v k hv').elim False.elim Or.inr
      · show (alookup (aset vs.votes idx key) idx).isSome = true
        rw [alookup_aset]; simp
    · exact ⟨hsame, hsome⟩
  · rename_i hb
    have hk := aset_keys_none vs.votes idx key hb
    have hni : idx ∉ vs.votes.map (·.1) := (alookup_none_iff _ _).mp hb
    refine ⟨⟨h.cross, ?_, ?_, ?_, ?_, ?_⟩, ?_⟩
    · show ((aset vs.votes idx key).map (·.1)).Nodup
      rw [hk, List.nodup_append]
      refine ⟨h.keys, by simp, ?_⟩
      intro a ha b hb'
      simp at hb'; subst hb'
      intro e; subst e; exact hni ha
    · show ∀ k ∈ (aset vs.votes idx key).map (·.1), k < c.n
      rw [hk]
      intro k hk'
      rcases List.mem_append.mp hk' with h1 | h1
      · exact h.keysLt k h1
      · simp at h1; subst h1; exact hi
    · show vs.sum + c.power idx = (((aset vs.votes idx key).map (·.1)).map c.power).sum
      rw [hk, List.map_append, List.sum_append, ← h.sum]; simp
    · intro k v hv
      show (alookup (aset vs.votes idx key) v).isSome = true
      rw [alookup_isSome_iff, hk]
      exact List.mem_append_left _ ((alookup_isSome_iff _ _).mp (h.slot k v hv))
    · intro v k hv
      have hv' : alookup (aset vs.votes idx key) v = some k := hv
      rw [alookup_aset] at hv'
      by_cases e : v = idx
      · exact Or.inl ⟨e, hb⟩
      · simp only [e, if_false] at hv'
        exact (h.slotHas v k hv').elim False.elim Or.inr
    · show (alookup (aset vs.votes idx key) idx).isSome = true
      rw [alookup_aset]; simp

theorem VoteSet.finish_votes (c : Cfg) (vs : VoteSet) (idx : Nat) (key : Bid) (bv : BlockVotes) :
    (VoteSet.finish c vs idx key bv).1.sum = vs.sum ∧
    ((VoteSet.finish c vs idx key bv).1.votes = vs.votes ∨
     (VoteSet.finish c vs idx key bv).1.votes =
       (bv.add idx (c.power idx)).voted.foldl (fun vv i => aset vv i key) vs.votes) := by
  unfold VoteSet.finish
  simp only []
  repeat' split
  all_goals first | exact ⟨rfl, Or.inl rfl⟩ | exact ⟨rfl, Or.inr rfl⟩

theorem VoteSet.finish_cross (c : Cfg) (vs : VoteSet) (idx : Nat) (key : Bid) (bv : BlockVotes)
    (hc : ∀ k, c.quorum ≤ vs.blockSum k → vs.maj23.isSome = true)
    (hsum : c.quorum ≤ bv.sum → vs.maj23.isSome = true) (k : Bid)
    (hk : c.quorum ≤ (VoteSet.finish c vs idx key bv).1.blockSum k) :
    (VoteSet.finish c vs idx key bv).1.maj23.isSome = true := by
  have hstab : vs.maj23.isSome = true → (VoteSet.finish c vs idx key bv).1.maj23.isSome = true := by
    intro hs
    cases hm : vs.maj23 with
    | none => rw [hm] at hs; cases hs
    | some x => rw [VoteSet.finish_maj23 c vs idx key bv x hm]; rfl
  rw [VoteSet.blockSum_aset' (VoteSet.finish_byBlock c vs idx key bv)] at hk
  by_cases e : k = key
  · simp only [e, if_true] at hk
    by_cases ho : c.quorum ≤ bv.sum
    · exact hstab (hsum ho)
    · by_cases hn : vs.maj23.isSome = true
      · exact hstab hn
      · unfold VoteSet.finish
        simp only []
        have hcond : bv.sum < c.quorum ∧ c.quorum ≤ (bv.add idx (c.power idx)).sum := ⟨by omega, hk⟩
        have hnone : vs.maj23.isNone = true := by
          cases hm : vs.maj23 with
          | none => rfl
          | some x => rw [hm] at hn; exact absurd rfl hn
        simp only [hcond, and_self, if_true, hnone]
        rfl
  · simp only [e, if_false] at hk
    exact hstab (hc k hk)

theorem VoteSet.finish_WFp {c : Cfg} {vs : VoteSet} {P : Nat → Prop} (idx : Nat) (key : Bid) (bv : BlockVotes)
    (h : vs.WFp c P) (hP : ∀ v, P v → v = idx) (hidx : (alookup vs.votes idx).isSome = true)
    (hsum : c.quorum ≤ bv.sum → vs.maj23.isSome = true)
    (hmem : ∀ v, v ∈ bv.voted ↔ vs.has key v) :
    (VoteSet.finish c vs idx key bv).1.WFp c (fun _ => False) := by
  have hb := VoteSet.finish_byBlock c vs idx key bv
  have hhas : ∀ k v, (VoteSet.finish c vs idx key bv).1.has k v ↔
      if k = key then (v ∈ bv.voted ∨ v = idx) else vs.has k v := by
    intro k v
    rw [VoteSet.has_aset hb, BlockVotes.mem_add]
  have hmono : ∀ k v, vs.has k v → (VoteSet.finish c vs idx key bv).1.has k v := by
    intro k v hv
    rw [hhas]
    by_cases e : k = key
    · subst e; simp only [if_true]; exact Or.inl ((hmem v).mpr hv)
    · simp only [e, if_false]; exact hv
  have hslotv : ∀ i ∈ (bv.add idx (c.power idx)).voted, (alookup vs.votes i).isSome = true := by
    intro i hi
    rcases (BlockVotes.mem_add _ _ _ _).mp hi with h1 | h1
    · exact h.slot key i ((hmem i).mp h1)
    · subst h1; exact hidx
  obtain ⟨hs, hv⟩ := VoteSet.finish_votes c vs idx key bv
  have hk : (VoteSet.finish c vs idx key bv).1.votes.map (·.1) = vs.votes.map (·.1) := by
    rcases hv with hv | hv
    · rw [hv]
    · rw [hv]; exact foldl_aset_keys _ key vs.votes hslotv
  have hl : ∀ v k, alookup (VoteSet.finish c vs idx key bv).1.votes v = some k →
      v ∈ (bv.add idx (c.power idx)).voted ∨ alookup vs.votes v = some k := by
    intro v k hvk
    rcases hv with hv | hv
    · rw [hv] at hvk; exact Or.inr hvk
    · rw [hv] at hvk; exact foldl_aset_lookup _ key vs.votes v k hvk
  refine ⟨VoteSet.finish_cross c vs idx key bv h.cross hsum, ?_, ?_, ?_, ?_, ?_⟩
  · rw [hk]; exact h.keys
  · rw [hk]; exact h.keysLt
  · rw [hk, hs]; exact h.sum
  · intro k v hkv
    rw [alookup_isSome_iff, hk, ← alookup_isSome_iff]
    rw [hhas] at hkv
    by_cases e : k = key
    · simp only [e, if_true] at hkv
      exact hslotv v ((BlockVotes.mem_add _ _ _ _).mpr hkv)
    · simp only [e, if_false] at hkv
      exact h.slot k v hkv
  · intro v k hvk
    right
    have hin : ∀ u, u ∈ (bv.add idx (c.power idx)).voted → (VoteSet.finish c vs idx key bv).1.has key u := by
      intro u hu
      rw [hhas]; simp only [if_true]; exact (BlockVotes.mem_add _ _ _ _).mp hu
    rcases hl v k hvk with h1 | h1
    · exact ⟨key, hin v h1⟩
    · rcases h.slotHas v k h1 with h2 | ⟨k', h2⟩
      · have := hP v h2; subst this
        exact ⟨key, hin v ((BlockVotes.mem_add _ _ _ _).mpr (Or.inr rfl))⟩
      · exact ⟨k', hmono k' v h2⟩

theorem VoteSet.addVerified_WFp {c : Cfg} {vs : VoteSet} (idx : Nat) (key : Bid)
    (h : vs.WFp c (fun _ => False)) (hi : idx < c.n) :
    (vs.addVerified c idx key).1.WFp c (fun _ => False) := by
  obtain ⟨h1, hidx⟩ := VoteSet.recordVote_WFp idx key h hi
  have hconf : (alookup vs.votes idx).isSome = true → (vs.recordVote c idx key).WFp c (fun _ => False) := by
    intro hs
    refine { h1 with slotHas := fun v k hv => ?_ }
    rcases h1.slotHas v k hv with ⟨_, h2⟩ | h2
    · rw [h2] at hs; cases hs
    · exact Or.inr h2
  unfold VoteSet.addVerified
  simp only []
  split
  · rename_i bv hb
    split
    · rename_i hc
      apply hconf
      cases hs : (alookup vs.votes idx).isSome
      · simp [hs] at hc
      · rfl
    · apply VoteSet.finish_WFp idx key bv h1 (fun v hv => hv.1) hidx
      · intro hq
        apply h1.cross key
        unfold VoteSet.blockSum; rw [hb]; exact hq
      · intro v
        unfold VoteSet.has; rw [hb]
        constructor
        · intro hv; exact ⟨bv, rfl, hv⟩
        · rintro ⟨b, e, hv⟩; cases e; exact hv
  · rename_i hb
    split
    · rename_i hc
      exact hconf hc
    · apply VoteSet.finish_WFp idx key _ h1 (fun v hv => hv.1) hidx
      · intro hq
        have : 1 ≤ c.quorum := by unfold Cfg.quorum; omega
        have hq' : c.quorum ≤ 0 := hq
        omega
      · intro v
        unfold VoteSet.has; rw [hb]
        constructor
        · intro hv; cases hv
        · rintro ⟨b, e, _⟩; cases e

theorem VoteSet.addVerified_byBlock (c : Cfg) (vs : VoteSet) (idx : Nat) (key : Bid) :
    ∃ bv : BlockVotes, (∀ v, v ∈ bv.voted ↔ vs.has key v) ∧
      (((vs.addVerified c idx key).1.byBlock = vs.byBlock ∧ (alookup vs.votes idx).isSome = true) ∨
       (vs.addVerified c idx key).1.byBlock = aset vs.byBlock key (bv.add idx (c.power idx))) := by
  have eb := (VoteSet.recordVote_byBlock c vs idx key).1
  unfold VoteSet.addVerified
  simp only []
  rw [eb]
  split
  · rename_i bv hb
    refine ⟨bv, ?_, ?_⟩
    · intro v
      unfold VoteSet.has; rw [hb]
      constructor
      · intro hv; exact ⟨bv, rfl, hv⟩
      · rintro ⟨b, e, hv⟩; cases e; exact hv
    · split
      · rename_i hc
        left
        refine ⟨eb, ?_⟩
        cases hs : (alookup vs.votes idx).isSome
        · simp [hs] at hc
        · rfl
      · right
        rw [VoteSet.finish_byBlock, eb]
  · rename_i hb
    refine ⟨⟨false, [], 0⟩, ?_, ?_⟩
    · intro v
      unfold VoteSet.has; rw [hb]
      constructor
      · intro hv; cases hv
      · rintro ⟨b, e, _⟩; cases e
    · split
      · rename_i hc
        exact Or.inl ⟨eb, hc⟩
      · right
        rw [VoteSet.finish_byBlock, eb]

theorem VoteSet.addVerified_has (c : Cfg) (vs : VoteSet) (idx : Nat) (key : Bid) (k : Bid) (u : Nat) :
    ((vs.addVerified c idx key).1.has k u → vs.has k u ∨ (k = key ∧ u = idx)) ∧
    (vs.has k u → (vs.addVerified c idx key).1.has k u) := by
  obtain ⟨bv, hmem, hb | hb⟩ := VoteSet.addVerified_byBlock c vs idx key
  · rw [VoteSet.has_congr hb.1]
    exact ⟨Or.inl, id⟩
  · rw [VoteSet.has_aset hb, BlockVotes.mem_add]
    by_cases e : k = key
    · subst e
      rw [if_pos rfl]
      constructor
      · rintro (h | h)
        · exact Or.inl ((hmem u).mp h)
        · exact Or.inr ⟨rfl, h⟩
      · intro h; exact Or.inl ((hmem u).mpr h)
    · simp only [e, if_false]
      exact ⟨Or.inl, id⟩

theorem VoteSet.addVote_has (c : Cfg) (vs : VoteSet) (v : Vote) (k : Bid) (u : Nat) :
    ((vs.addVote c v).1.has k u → vs.has k u ∨ (k = v.bid ∧ u = v.val)) ∧
    (vs.has k u → (vs.addVote c v).1.has k u) := by
  unfold VoteSet.addVote
  repeat' split
  all_goals first | exact ⟨Or.inl, id⟩ | exact VoteSet.addVerified_has c vs v.val v.bid k u

theorem VoteSet.setPeerMaj23_fields (vs : VoteSet) (peer : Peer) (key : Bid) :
    (vs.setPeerMaj23 peer key).votes = vs.votes ∧ (vs.setPeerMaj23 peer key).sum = vs.sum ∧
      (vs.setPeerMaj23 peer key).maj23 = vs.maj23 := by
  unfold VoteSet.setPeerMaj23
  simp only []
  repeat' split
  all_goals exact ⟨rfl, rfl, rfl⟩

theorem VoteSet.setPeerMaj23_byBlock (vs : VoteSet) (peer : Peer) (key : Bid) :
    (vs.setPeerMaj23 peer key).byBlock = vs.byBlock ∨
    (∃ bv : BlockVotes, alookup vs.byBlock key = some bv ∧
      (vs.setPeerMaj23 peer key).byBlock = aset vs.byBlock key { bv with peerMaj23 := true }) ∨
    (alookup vs.byBlock key = none ∧
      (vs.setPeerMaj23 peer key).byBlock = vs.byBlock ++ [(key, ⟨true, [], 0⟩)]) := by
  unfold VoteSet.setPeerMaj23
  simp only []
  split
  · exact Or.inl rfl
  · split
    · rename_i bv hb
      split
      · exact Or.inl rfl
      · exact Or.inr (Or.inl ⟨bv, hb, rfl⟩)
    · rename_i hb
      exact Or.inr (Or.inr ⟨hb, rfl⟩)

theorem VoteSet.setPeerMaj23_bucket (vs : VoteSet) (peer : Peer) (key : Bid) (k : Bid) :
    ((vs.setPeerMaj23 peer key).blockSum k = vs.blockSum k) ∧
    (∀ u, (vs.setPeerMaj23 peer key).has k u ↔ vs.has k u) := by
  rcases VoteSet.setPeerMaj23_byBlock vs peer key with e | ⟨bv, hb, e⟩ | ⟨hb, e⟩
  · exact ⟨VoteSet.blockSum_congr e k, fun u => VoteSet.has_congr e k u⟩
  · constructor
    · rw [VoteSet.blockSum_aset' e]
      by_cases hk : k = key
      · subst hk
        simp only [if_true]
        unfold VoteSet.blockSum; rw [hb]
      · simp only [hk, if_false]
    · intro u
      rw [VoteSet.has_aset e]
      by_cases hk : k = key
      · subst hk
        simp only [if_true]
        unfold VoteSet.has; rw [hb]
        constructor
        · intro hu; exact ⟨bv, rfl, hu⟩
        · rintro ⟨b, e', hu⟩; cases e'; exact hu
      · simp only [hk, if_false]
  · unfold VoteSet.blockSum VoteSet.has
    rw [e, alookup_append]
    cases hl : alookup vs.byBlock k with
    | some x => exact ⟨rfl, fun _ => Iff.rfl⟩
    | none =>
      by_cases hk : k = key
      · rw [if_pos hk]
        refine ⟨rfl, fun u => ?_⟩
        constructor
        · rintro ⟨b, e', hu⟩; cases e'; cases hu
        · rintro ⟨b, e', _⟩; cases e'
      · rw [if_neg hk]
        exact ⟨rfl, fun _ => Iff.rfl⟩

theorem wtUpTo_compl (power : Nat → Nat) (p : Nat → Bool) (k : Nat) :
    VoteLog.wtUpTo power p k + VoteLog.wtUpTo power (fun v => !p v) k =
      VoteLog.wtUpTo power (fun _ => true) k := by
  induction k with
  | zero => simp [VoteLog.wtUpTo]
  | succ k ih =>
    simp only [VoteLog.wtUpTo]
    by_cases hp : p k = true <;> simp [hp] <;> omega

theorem VoteSet.WF.empty (c : Cfg) : VoteSet.WF c VoteSet.empty := by
  have hno : ∀ k v, ¬ VoteSet.empty.has k v := by
    intro k v ⟨bv, hb, _⟩
    simp [VoteSet.empty, alookup] at hb
  refine ⟨MSv.empty c _, Qv.empty c, ?_, ?_, ?_, ?_, ?_, ?_⟩
  · intro k hk
    have : VoteSet.empty.blockSum k = 0 := by simp [VoteSet.blockSum, VoteSet.empty, alookup]
    rw [this] at hk
    unfold Cfg.quorum at hk; omega
  · simp [VoteSet.empty]
  · intro p hp; simp [VoteSet.empty] at hp
  · simp [VoteSet.empty]
  · intro k v h; exact absurd h (hno k v)
  · intro v k h; simp [VoteSet.empty, alookup] at h

theorem VoteSet.WF.addVote {c : Cfg} {vs : VoteSet} (h : vs.WF c) (v : Vote) : (vs.addVote c v).1.WF c := by
  have hm := VoteSet.addVote_MS c (fun _ _ => true) vs v h.ms (fun _ _ => rfl)
  have hq := VoteSet.addVote_Q c vs v h.q
  refine VoteSet.WFp.toWF ?_ (fun _ => id) hm hq
  unfold VoteSet.addVote
  split
  · exact h.toWFp
  · rename_i hn
    repeat' split
    all_goals first | exact h.toWFp | exact VoteSet.addVerified_WFp v.val v.bid h.toWFp (by omega)

theorem VoteSet.WF.setPeerMaj23 {c : Cfg} {vs : VoteSet} (h : vs.WF c) (peer : Peer) (key : Bid) :
    (vs.setPeerMaj23 peer key).WF c := by
  obtain ⟨ev, es, em⟩ := VoteSet.setPeerMaj23_fields vs peer key
  have hb := VoteSet.setPeerMaj23_bucket vs peer key
  refine ⟨VoteSet.setPeerMaj23_MS c _ vs peer key h.ms, VoteSet.setPeerMaj23_Q c vs peer key h.q,
    ?_, ?_, ?_, ?_, ?_, ?_⟩
  · intro k hk
    rw [(hb k).1] at hk; rw [em]; exact h.cross k hk
  · rw [ev]; exact h.keys
  · rw [ev]; exact h.keysLt
  · rw [ev, es]; exact h.sum
  · intro k v hv
    rw [ev]; exact h.slot k v (((hb k).2 v).mp hv)
  · intro v k hv
    rw [ev] at hv
    obtain ⟨k', hk'⟩ := h.slotHas v k hv
    exact ⟨k', ((hb k').2 v).mpr hk'⟩

/-- recorded votes are never removed -/
theorem VoteSet.has_addVote {c : Cfg} {vs : VoteSet} {k : Bid} {u : Nat} (v : Vote) (h : vs.has k u) :
    (vs.addVote c v).1.has k u :=
  (VoteSet.addVote_has c vs v k u).2 h

theorem VoteSet.has_setPeerMaj23 {vs : VoteSet} {k : Bid} {u : Nat} (peer : Peer) (key : Bid) (h : vs.has k u) :
    (vs.setPeerMaj23 peer key).has k u :=
  ((VoteSet.setPeerMaj23_bucket vs peer key k).2 u).mpr h

/-- **a well-signed vote of a validator with no conflicting vote in the set is recorded** (whether
it is new or a duplicate) -/
theorem VoteSet.addVote_records {c : Cfg} {vs : VoteSet} (h : vs.WF c) (v : Vote) (hv : v.wellSigned c)
    (ho : vs.only v.bid v.val) : (vs.addVote c v).1.has v.bid v.val := by
  obtain ⟨hlt, haddr, hsig, hsigner⟩ := hv
  -- a canonical slot means the vote is already in the bucket of `v.bid`
  have hslot : ∀ b, alookup vs.votes v.val = some b → vs.has v.bid v.val := by
    intro b hb
    obtain ⟨k', hk'⟩ := h.slotHas v.val b hb
    have := ho k' hk'
    subst this; exact hk'
  by_cases hhas : vs.has v.bid v.val
  · exact VoteSet.has_addVote v hhas
  · have hnone : alookup vs.votes v.val = none := by
      cases hl : alookup vs.votes v.val with
      | none => rfl
      | some b => exact absurd (hslot b hl) hhas
    have hget : vs.getVote v.val v.bid = false := by
      unfold VoteSet.getVote
      rw [hnone]
      cases hl : alookup vs.byBlock v.bid with
      | none => rfl
      | some bv =>
        simp only [Bool.false_or]
        cases hc : bv.voted.contains v.val
        · rfl
        · exact absurd ⟨bv, hl, by simpa using hc⟩ hhas
    unfold VoteSet.addVote
    rw [if_neg (by omega), if_neg (by simp [haddr]), hget]
    simp only [hsig, hsigner, decide_true, Bool.and_self, Bool.not_true, if_false, Bool.false_eq_true]
    obtain ⟨bv, _, hb | hb⟩ := VoteSet.addVerified_byBlock c vs v.val v.bid
    · rw [hnone] at hb; exact absurd hb.2 (by simp)
    · rw [VoteSet.has_aset hb, BlockVotes.mem_add]
      simp

/-- a vote of another validator, or for the same value, keeps `only` -/
theorem VoteSet.only_addVote {c : Cfg} {vs : VoteSet} {key : Bid} {u : Nat} (v : Vote)
    (ho : vs.only key u) (hv : v.val ≠ u ∨ v.bid = key) : (vs.addVote c v).1.only key u := by
  intro k hk
  rcases (VoteSet.addVote_has c vs v k u).1 hk with h1 | ⟨h1, h2⟩
  · exact ho k h1
  · rcases hv with hv | hv
    · exact absurd h2.symm hv
    · rw [h1, hv]

theorem VoteSet.only_setPeerMaj23 {vs : VoteSet} {key : Bid} {u : Nat} (peer : Peer) (k : Bid)
    (ho : vs.only key u) : (vs.setPeerMaj23 peer k).only key u := by
  intro k' hk'
  exact ho k' (((VoteSet.setPeerMaj23_bucket vs peer k k').2 u).mp hk')

/-- the empty set: nobody has voted -/
theorem VoteSet.only_empty (key : Bid) (u : Nat) : VoteSet.empty.only key u := by
  intro k ⟨bv, hb, _⟩
  simp [VoteSet.empty, alookup] at hb

/-- a recorded majority `k` other than `b` is impossible when validators carrying the quorum have no
vote for anything but `b`: the bucket of `k` is disjoint from them and `2 * quorum > total` -/
theorem VoteSet.majority_unique_aux {c : Cfg} {vs : VoteSet} (h : vs.WF c) (b : Bid) (Q : List Nat)
    (hn : Q.Nodup) (hq : ∀ v ∈ Q, v < c.n ∧ vs.only b v)
    (hp : c.quorum ≤ (Q.map c.power).sum) (k : Bid) (hm : vs.maj23 = some k) : k = b := by
  apply Classical.byContradiction
  intro hkb
  have hqk := h.q k hm
  unfold VoteSet.blockSum at hqk
  cases hl : alookup vs.byBlock k with
  | none => rw [hl] at hqk; simp at hqk; unfold Cfg.quorum at hqk; omega
  | some bk =>
    rw [hl] at hqk
    have hqk' : c.quorum ≤ bk.sum := hqk
    obtain ⟨hknd, hksum, hklt⟩ := h.ms k bk hl
    have hdisj : ∀ v ∈ bk.voted, v ∉ Q := by
      intro v hv hvq
      exact hkb ((hq v hvq).2 k ⟨bk, hl, hv⟩)
    have h1 := sum_le_wtUpTo c.power (fun v => Q.contains v) c.n Q hn
      (fun v hv => ⟨(hq v hv).1, by simpa using hv⟩)
    have h2 := sum_le_wtUpTo c.power (fun v => !Q.contains v) c.n bk.voted hknd
      (fun v hv => ⟨(hklt v hv).1, by simpa using hdisj v hv⟩)
    have h3 := wtUpTo_compl c.power (fun v => Q.contains v) c.n
    have h4 := total_eq_wt c
    rw [← hksum] at h2
    unfold Cfg.quorum at hp hqk'
    omega

/-- **votes of validators carrying the quorum, all recorded for `b` and for nothing else, give the
recorded majority `b`** — whatever else the set holds (votes of other validators for other values,
including a bucket that crossed nothing) and in whatever order everything arrived. -/
theorem VoteSet.quorum_majority {c : Cfg} {vs : VoteSet} (h : vs.WF c) (b : Bid) (Q : List Nat)
    (hn : Q.Nodup) (hq : ∀ v ∈ Q, v < c.n ∧ vs.has b v ∧ vs.only b v)
    (hp : c.quorum ≤ (Q.map c.power).sum) : vs.maj23 = some b := by
  have hq1 : 1 ≤ c.quorum := by unfold Cfg.quorum; omega
  have ⟨a, ha⟩ : ∃ a, a ∈ Q := by
    cases Q with
    | nil => simp at hp; omega
    | cons a _ => exact ⟨a, List.mem_cons_self ..⟩
  obtain ⟨_, ⟨bvb, hbb, _⟩, _⟩ := hq a ha
  have hsub : ∀ v ∈ Q, v ∈ bvb.voted := by
    intro v hv
    obtain ⟨_, ⟨bv, hb, hm⟩, _⟩ := hq v hv
    rw [hbb] at hb; cases hb; exact hm
  obtain ⟨_, hbsum, _⟩ := h.ms b bvb hbb
  have hge : c.quorum ≤ vs.blockSum b := by
    unfold VoteSet.blockSum; rw [hbb]
    show c.quorum ≤ bvb.sum
    rw [hbsum]
    exact Nat.le_trans hp (sum_map_le_of_subset c.power Q bvb.voted hn hsub)
  have hsome := h.cross b hge
  cases hm : vs.maj23 with
  | none => rw [hm] at hsome; cases hsome
  | some k =>
    rw [VoteSet.majority_unique_aux h b Q hn (fun v hv => ⟨(hq v hv).1, (hq v hv).2.2⟩) hp k hm]

/-- validators carrying the quorum that have no vote for anything but `b` (they need not be recorded
yet): no other value can hold the recorded majority -/
theorem VoteSet.majority_unique {c : Cfg} {vs : VoteSet} (h : vs.WF c) (b : Bid) (Q : List Nat)
    (hn : Q.Nodup) (hq : ∀ v ∈ Q, v < c.n ∧ vs.only b v)
    (hp : c.quorum ≤ (Q.map c.power).sum) (k : Bid) (hm : vs.maj23 = some k) : k = b :=
  VoteSet.majority_unique_aux h b Q hn hq hp k hm

/-- **recorded votes (for anything) of validators carrying more than 2/3 of the power give
`hasTwoThirdsAny`** -/
theorem VoteSet.any_of_members {c : Cfg} {vs : VoteSet} (h : vs.WF c) (R : List Nat)
    (hn : R.Nodup) (hr : ∀ v ∈ R, v < c.n ∧ ∃ k, vs.has k v)
    (hp : c.total * 2 / 3 < (R.map c.power).sum) : vs.hasTwoThirdsAny c = true := by
  have hsub : ∀ v ∈ R, v ∈ vs.votes.map (·.1) := by
    intro v hv
    obtain ⟨_, k, hk⟩ := hr v hv
    exact (alookup_isSome_iff _ _).mp (h.slot k v hk)
  have hle := sum_map_le_of_subset c.power R _ hn hsub
  rw [← h.sum] at hle
  unfold VoteSet.hasTwoThirdsAny
  simp only [gt_iff_lt, decide_eq_true_eq]
  omega

end Tmv.Cons
