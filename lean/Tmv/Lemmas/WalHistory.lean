import Tmv.Lemmas.WalGroup
/-! Histories of WAL operations: logs, invariant and per-step lemmas (C15). -/
namespace Tmv.Wal
open Tmv

/-- records of the rotated files a reader over the whole group passes, in index order -/
def filesPart (P : Params) (g : Group) : List Bytes :=
  fileRecs P g (List.range' g.minIndex (g.maxIndex - g.minIndex))

/-- everything written and still in the group (rotated files, head file, write buffer) -/
def wlog (P : Params) (g : Group) : List Bytes := filesPart P g ++ recsOf P (g.head ++ g.buf)
/-- what is on stable storage: rotated files and the head up to the fsync watermark -/
def dlog (P : Params) (g : Group) : List Bytes :=
  filesPart P g ++ recsOf P ((g.head ++ g.buf).take g.synced)
/-- what a reader over the whole group returns now -/
def rlog (P : Params) (g : Group) : List Bytes := filesPart P g ++ recsOf P g.head

theorem recsOf_nil (P : Params) : recsOf P [] = [] := by
  simp [recsOf, readAllG, decodeAllWith, decodeG_nil]

theorem fileRecs_append (P : Params) (g : Group) (a b : List Nat) :
    fileRecs P g (a ++ b) = fileRecs P g a ++ fileRecs P g b := by
  simp [fileRecs, List.flatMap_append]

theorem fileRecs_congr (P : Params) (g g' : Group) (l : List Nat)
    (h : ∀ j ∈ l, fileAt g' j = fileAt g j) : fileRecs P g' l = fileRecs P g l := by
  induction l with
  | nil => rfl
  | cons a l ih =>
    simp only [fileRecs, List.flatMap_cons] at ih ⊢
    rw [h a (by simp), ih (fun j hj => h j (by simp [hj]))]

theorem fileRecs_empty (P : Params) (g : Group) (l : List Nat) (h : ∀ j ∈ l, fileAt g j = []) :
    fileRecs P g l = [] := by
  induction l with
  | nil => rfl
  | cons a l ih =>
    simp only [fileRecs, List.flatMap_cons] at ih ⊢
    rw [h a (by simp), recsOf_nil, ih (fun j hj => h j (by simp [hj]))]
    rfl

/-- all non-empty rotated files have an index in `[minIndex, maxIndex)` -/
def IdxOK (g : Group) : Prop :=
  (∀ j, fileAt g j ≠ [] → g.minIndex ≤ j ∧ j < g.maxIndex) ∧ g.minIndex ≤ g.maxIndex

theorem range_split (lo mid hi : Nat) (h1 : lo ≤ mid) (h2 : mid ≤ hi) :
    List.range' lo (hi - lo) = List.range' lo (mid - lo) ++ List.range' mid (hi - mid) := by
  have e : hi - lo = (mid - lo) + (hi - mid) := by omega
  rw [e, ← List.range'_append_1]
  congr 2; omega

/-- the records of the rotated files do not depend on the index window, as long as it covers all
non-empty files -/
theorem fileRecs_window (P : Params) (g : Group) (lo hi lo' hi' : Nat) (h1 : lo ≤ hi) (h2 : lo' ≤ hi')
    (hs : ∀ j, fileAt g j ≠ [] → lo ≤ j ∧ j < hi) (hs' : ∀ j, fileAt g j ≠ [] → lo' ≤ j ∧ j < hi') :
    fileRecs P g (List.range' lo (hi - lo)) = fileRecs P g (List.range' lo' (hi' - lo')) := by
  -- both equal the window [min lo lo', max hi hi')
  have key : ∀ (a b c d : Nat), a ≤ b → c ≤ a → b ≤ d →
      (∀ j, fileAt g j ≠ [] → a ≤ j ∧ j < b) →
      fileRecs P g (List.range' c (d - c)) = fileRecs P g (List.range' a (b - a)) := by
    intro a b c d hab hca hbd hsup
    rw [range_split c a d hca (by omega), range_split a b d hab hbd, fileRecs_append, fileRecs_append]
    have e1 : fileRecs P g (List.range' c (a - c)) = [] := by
      apply fileRecs_empty
      intro j hj
      rw [List.mem_range'_1] at hj
      apply Classical.byContradiction
      intro hne
      have := hsup j hne
      omega
    have e2 : fileRecs P g (List.range' b (d - b)) = [] := by
      apply fileRecs_empty
      intro j hj
      rw [List.mem_range'_1] at hj
      apply Classical.byContradiction
      intro hne
      have := hsup j hne
      omega
    rw [e1, e2]; simp
  rw [← key lo hi (min lo lo') (max hi hi') h1 (Nat.min_le_left _ _) (Nat.le_max_left _ _) hs,
    ← key lo' hi' (min lo lo') (max hi hi') h2 (Nat.min_le_right _ _) (Nat.le_max_right _ _) hs']

theorem filesPart_eq (P : Params) (g g' : Group) (hf : ∀ j, fileAt g' j = fileAt g j)
    (hi : IdxOK g) (hi' : IdxOK g') : filesPart P g' = filesPart P g := by
  unfold filesPart
  rw [fileRecs_congr P g g' _ (fun j _ => hf j)]
  exact fileRecs_window P g _ _ _ _ hi'.2 hi.2 (fun j hj => hi'.1 j (by rw [hf j]; exact hj)) hi.1

/-- invariant of a running group between operations: rotated files hold whole valid records,
`hs` are the records handed to the head so far (file + buffer) -/
structure HInv (P : Params) (g : Group) (hs : List Bytes) : Prop where
  filesOK : FilesOK P g
  idx : IdxOK g
  valid : ∀ d ∈ hs, ValidRec P d
  clean : g.head ++ g.buf = frames P hs
  synced : g.synced ≤ g.head.length

theorem wlog_eq (P : Params) (G : Good P) (g : Group) (hs : List Bytes) (h : HInv P g hs) :
    wlog P g = filesPart P g ++ hs := by
  unfold wlog; rw [h.clean, recsOf_frames P G hs h.valid]

theorem dlog_eq (P : Params) (G : Good P) (g : Group) (hs : List Bytes) (h : HInv P g hs) :
    dlog P g = filesPart P g ++ hs.take (whole P hs g.synced) := by
  unfold dlog; rw [h.clean, recsOf_prefix P G hs h.valid]

theorem rlog_eq (P : Params) (G : Good P) (g : Group) (hs : List Bytes) (h : HInv P g hs) :
    rlog P g = filesPart P g ++ hs.take (whole P hs g.head.length) := by
  unfold rlog
  have : g.head = (frames P hs).take g.head.length := by
    rw [← h.clean]; simp
  have e := congrArg (recsOf P) this
  rw [recsOf_prefix P G hs h.valid] at e
  rw [e]

/-- `b` keeps the records of `a` in order, except possibly a prefix (allowed only when `dropOK`),
and may have more at the end -/
def KeepsD (dropOK : Bool) (a b : List Bytes) : Prop :=
  ∃ dropped kept new, a = dropped ++ kept ∧ b = kept ++ new ∧ (dropOK = false → dropped = [])

theorem KeepsD.refl (a : List Bytes) : KeepsD false a a := ⟨[], a, [], by simp, by simp, fun _ => rfl⟩

theorem KeepsD.of_append (a n : List Bytes) : KeepsD false a (a ++ n) :=
  ⟨[], a, n, by simp, rfl, fun _ => rfl⟩

theorem KeepsD.mono {x : Bool} {a b : List Bytes} (h : KeepsD false a b) : KeepsD x a b := by
  obtain ⟨d, k, n, h1, h2, h3⟩ := h
  exact ⟨d, k, n, h1, h2, fun _ => h3 rfl⟩

theorem KeepsD.trans {x y : Bool} {a b c : List Bytes} (h1 : KeepsD x a b) (h2 : KeepsD y b c) :
    KeepsD (x || y) a c := by
  obtain ⟨d1, k1, n1, ha, hb, hd1⟩ := h1
  obtain ⟨d2, k2, n2, hb', hc, hd2⟩ := h2
  rw [hb] at hb'
  rcases List.append_eq_append_iff.mp hb' with ⟨m, e1, e2⟩ | ⟨m, e1, e2⟩
  · -- d2 = k1 ++ m : everything of k1 was dropped
    refine ⟨d1 ++ k1, [], c, by rw [ha]; simp, by simp, ?_⟩
    intro hxy
    have hx : x = false := by cases x <;> simp_all
    have hy : y = false := by cases y <;> simp_all
    have := hd2 hy
    rw [this] at e1
    have hk : k1 = [] := by
      have := congrArg List.length e1; simp at this; exact List.length_eq_zero_iff.mp (by omega)
    rw [hd1 hx, hk]; rfl
  · refine ⟨d1 ++ d2, m, n1 ++ n2, by rw [ha, e1]; simp, by rw [hc, e2]; simp, ?_⟩
    intro hxy
    have hx : x = false := by cases x <;> simp_all
    have hy : y = false := by cases y <;> simp_all
    rw [hd1 hx, hd2 hy]; rfl

theorem filesPart_same (P : Params) (g g' : Group) (hf : g'.files = g.files)
    (h1 : g'.minIndex = g.minIndex) (h2 : g'.maxIndex = g.maxIndex) : filesPart P g' = filesPart P g := by
  unfold filesPart
  rw [h1, h2]
  exact fileRecs_congr P g g' _ (fun j _ => fileAt_congr hf j)

theorem idxOK_same (g g' : Group) (hf : g'.files = g.files)
    (h1 : g'.minIndex = g.minIndex) (h2 : g'.maxIndex = g.maxIndex) (h : IdxOK g) : IdxOK g' := by
  unfold IdxOK at *
  rw [h1, h2]
  exact ⟨fun j hj => h.1 j (by rw [← fileAt_congr hf j]; exact hj), h.2⟩

/-- a write of a valid record -/
theorem write_step (P : Params) (G : Good P) (S : Nat) (g g' : Group) (hs : List Bytes) (d : Bytes)
    (hi : HInv P g hs) (hd : ValidRec P d) (hw : write P S g d = some g') :
    HInv P g' (hs ++ [d]) ∧ dlog P g' = dlog P g ∧ wlog P g' = wlog P g ++ [d] := by
  obtain ⟨h1, h2, h3, h4, h5, x, hx⟩ := write_concat P S g g' d hd.2.1 hw
  have hinv : HInv P g' (hs ++ [d]) := by
    refine ⟨?_, idxOK_same g g' h2 h4 h5 hi.idx, ?_, ?_, ?_⟩
    · intro j; rw [fileAt_congr h2 j]; exact hi.filesOK j
    · intro y hy
      rcases List.mem_append.mp hy with h | h
      · exact hi.valid y h
      · simp at h; subst h; exact hd
    · rw [h1, hi.clean, frames_append]; simp [frames_cons, frames_nil]
    · rw [h3, hx]; simp; have := hi.synced; omega
  refine ⟨hinv, ?_, ?_⟩
  · unfold dlog
    rw [filesPart_same P g g' h2 h4 h5, h1, h3]
    have : g.synced ≤ (g.head ++ g.buf).length := by
      have := hi.synced; simp; omega
    rw [List.take_append_of_le_length this]
  · rw [wlog_eq P G g' _ hinv, wlog_eq P G g hs hi, filesPart_same P g g' h2 h4 h5]; simp

/-- `FlushAndSync` -/
theorem sync_step (P : Params) (G : Good P) (g : Group) (hs : List Bytes) (hi : HInv P g hs) :
    HInv P (flushAndSync g) hs ∧ dlog P (flushAndSync g) = wlog P g ∧
      wlog P (flushAndSync g) = wlog P g ∧ KeepsD false (dlog P g) (dlog P (flushAndSync g)) := by
  have hinv : HInv P (flushAndSync g) hs :=
    ⟨fun j => hi.filesOK j, hi.idx, hi.valid, by simp [flushAndSync, hi.clean], by simp [flushAndSync]⟩
  have hfp : filesPart P (flushAndSync g) = filesPart P g := filesPart_same P g _ rfl rfl rfl
  have hd : dlog P (flushAndSync g) = wlog P g := by
    unfold dlog wlog
    rw [hfp]
    have : List.take (g.head.length + g.buf.length) (g.head ++ g.buf) = g.head ++ g.buf :=
      List.take_of_length_le (by simp)
    simp [flushAndSync, this]
  have hw : wlog P (flushAndSync g) = wlog P g := by
    unfold wlog
    rw [hfp]
    simp [flushAndSync]
  refine ⟨hinv, hd, hw, ?_⟩
  rw [hd, dlog_eq P G g hs hi, wlog_eq P G g hs hi]
  refine ⟨[], filesPart P g ++ hs.take (whole P hs g.synced), hs.drop (whole P hs g.synced), by simp, ?_, fun _ => rfl⟩
  simp


theorem fileAt_rotate (g : Group) (j : Nat) :
    fileAt (rotateFile g) j = if j = g.maxIndex then g.head ++ g.buf else fileAt g j := by
  unfold fileAt rotateFile
  simp only [flushAndSync]
  rw [lookup_setFile]
  split <;> simp

/-- `RotateFile` -/
theorem rotate_step (P : Params) (G : Good P) (g : Group) (hs : List Bytes) (hi : HInv P g hs) :
    HInv P (rotateFile g) [] ∧ dlog P (rotateFile g) = wlog P g ∧ wlog P (rotateFile g) = wlog P g := by
  have hmax : (rotateFile g).maxIndex = g.maxIndex + 1 := rfl
  have hmin : (rotateFile g).minIndex = g.minIndex := rfl
  have hinv : HInv P (rotateFile g) [] := by
    refine ⟨?_, ⟨?_, ?_⟩, by simp, by simp [rotateFile, flushAndSync, frames_nil], by simp [rotateFile]⟩
    · intro j
      rw [fileAt_rotate]
      split
      · exact ⟨hs, hi.valid, hi.clean⟩
      · exact hi.filesOK j
    · intro j hj
      rw [fileAt_rotate] at hj
      rw [hmax, hmin]
      split at hj
      · rename_i e; subst e; have := hi.idx.2; omega
      · have := hi.idx.1 j hj; omega
    · rw [hmax, hmin]; have := hi.idx.2; omega
  have hfp : filesPart P (rotateFile g) = filesPart P g ++ hs := by
    unfold filesPart
    rw [hmax, hmin]
    have hle := hi.idx.2
    rw [range_split g.minIndex g.maxIndex (g.maxIndex + 1) hle (by omega), fileRecs_append]
    congr 1
    · apply fileRecs_congr
      intro j hj
      rw [List.mem_range'_1] at hj
      rw [fileAt_rotate]
      have : ¬ j = g.maxIndex := by omega
      simp [this]
    · have : g.maxIndex + 1 - g.maxIndex = 1 := by omega
      rw [this]
      simp only [List.range'_one, fileRecs, List.flatMap_cons, List.flatMap_nil, List.append_nil]
      rw [fileAt_rotate]
      simp only [if_true]
      rw [hi.clean, recsOf_frames P G hs hi.valid]
  have hw : wlog P (rotateFile g) = wlog P g := by
    rw [wlog_eq P G _ _ hinv, wlog_eq P G g hs hi, hfp]; simp
  refine ⟨hinv, ?_, hw⟩
  rw [dlog_eq P G _ _ hinv, hfp, wlog_eq P G g hs hi]; simp

theorem fileRecs_drop_oldest (P : Params) (g g' : Group) (rem : List Nat)
    (hf : ∀ j, fileAt g' j = if j ∈ rem then [] else fileAt g j)
    (hold : ∀ x ∈ rem, ∀ j, j ∉ rem → fileAt g j ≠ [] → x < j) :
    ∀ (n lo : Nat), ∃ dropped, fileRecs P g (List.range' lo n) = dropped ++ fileRecs P g' (List.range' lo n) := by
  intro n
  induction n with
  | zero => intro lo; exact ⟨[], by simp [fileRecs]⟩
  | succ n ih =>
    intro lo
    obtain ⟨dr, hdr⟩ := ih (lo + 1)
    have hcons : List.range' lo (n + 1) = lo :: List.range' (lo + 1) n := by
      simp [List.range'_succ]
    rw [hcons]
    simp only [fileRecs, List.flatMap_cons] at hdr ⊢
    by_cases hmem : lo ∈ rem
    · have : fileAt g' lo = [] := by rw [hf lo]; simp [hmem]
      rw [this, recsOf_nil, hdr]
      exact ⟨recsOf P (fileAt g lo) ++ dr, by simp⟩
    · have hsame : fileAt g' lo = fileAt g lo := by rw [hf lo]; simp [hmem]
      rw [hsame]
      by_cases hne : fileAt g lo = []
      · rw [hne, recsOf_nil, hdr]
        exact ⟨dr, by simp⟩
      · -- a surviving non-empty file: nothing after it is removed
        refine ⟨[], ?_⟩
        simp only [List.nil_append]
        congr 1
        have := fileRecs_congr P g g' (List.range' (lo + 1) n) (by
          intro j hj
          rw [List.mem_range'_1] at hj
          rw [hf j]
          have : j ∉ rem := by
            intro hjm
            have := hold j hjm lo hmem hne
            omega
          simp [this])
        simp only [fileRecs] at this
        exact this.symm

theorem prune_spec (k : Nat) (g g' : Group) (rem : List Nat)
    (hr : checkTotalSizeLimit k g = (g', rem)) :
    g'.head = g.head ∧ g'.buf = g.buf ∧ g'.synced = g.synced ∧
    g'.minIndex = g.minIndex ∧ g'.maxIndex = g.maxIndex ∧
    (∀ j, lookupFile g'.files j = if j ∈ rem then none else lookupFile g.files j) ∧
    (∀ x ∈ rem, (lookupFile g.files x).isSome = true ∧ x ≠ (readGroupInfo g).maxIndex) ∧
    (∀ j, (lookupFile g'.files j).isSome = true → ∀ x ∈ rem, x < j) := by
  unfold checkTotalSizeLimit at hr
  split at hr
  · simp only [Prod.mk.injEq] at hr
    obtain ⟨rfl, rfl⟩ := hr
    simp
  · obtain ⟨new, h1, h2, h3, h4⟩ := pruneLoop_spec g.totalLimit (readGroupInfo g) k 0
      (readGroupInfo g).totalSize g.files []
    simp only [List.nil_append] at h1
    simp only [Prod.mk.injEq] at hr
    obtain ⟨rfl, rfl⟩ := hr
    refine ⟨rfl, rfl, rfl, rfl, rfl, ?_, ?_, ?_⟩
    · intro j; rw [h1]; exact h2 j
    · intro x hx; rw [h1] at hx; exact h3 x hx
    · intro j hj x hx
      rw [h1] at hx
      have hjs : (lookupFile g.files j).isSome = true := by
        have := h2 j
        split at this
        · rw [this] at hj; simp at hj
        · rw [this] at hj; exact hj
      exact h4 j (by have := (readGroupInfo_range g j hjs).1; omega) hj x hx

/-- `checkTotalSizeLimit`: only a prefix of the logs can disappear (whole oldest files) -/
theorem prune_step (P : Params) (k : Nat) (g : Group) (hs : List Bytes) (hi : HInv P g hs) :
    HInv P (checkTotalSizeLimit k g).1 hs ∧
    ∃ dropped, dlog P g = dropped ++ dlog P (checkTotalSizeLimit k g).1 ∧
      wlog P g = dropped ++ wlog P (checkTotalSizeLimit k g).1 := by
  cases hr : checkTotalSizeLimit k g with
  | mk g' rem =>
    obtain ⟨h1, h2, h3, h4, h5, h6, h7, h8⟩ := prune_spec k g g' rem hr
    simp only
    have hf : ∀ j, fileAt g' j = if j ∈ rem then [] else fileAt g j := by
      intro j; unfold fileAt; rw [h6 j]; split <;> simp
    have hold : ∀ x ∈ rem, ∀ j, j ∉ rem → fileAt g j ≠ [] → x < j := by
      intro x hx j hj hne
      apply h8 j _ x hx
      rw [h6 j]; simp only [hj, if_false]
      unfold fileAt at hne
      cases hl : lookupFile g.files j with
      | none => rw [hl] at hne; simp at hne
      | some b => rfl
    have hinv : HInv P g' hs := by
      refine ⟨?_, ⟨?_, by rw [h4, h5]; exact hi.idx.2⟩, hi.valid, by rw [h1, h2]; exact hi.clean,
        by rw [h1, h3]; exact hi.synced⟩
      · intro j; rw [hf j]; split
        · exact ⟨[], by simp, by simp [frames_nil]⟩
        · exact hi.filesOK j
      · intro j hj
        rw [h4, h5]
        apply hi.idx.1 j
        rw [hf j] at hj
        split at hj
        · exact absurd rfl hj
        · exact hj
    obtain ⟨dr, hdr⟩ := fileRecs_drop_oldest P g g' rem hf hold (g.maxIndex - g.minIndex) g.minIndex
    have hfp : filesPart P g = dr ++ filesPart P g' := by
      unfold filesPart; rw [h4, h5]; exact hdr
    refine ⟨hinv, dr, ?_, ?_⟩
    · unfold dlog; rw [hfp, h1, h2, h3]; simp
    · unfold wlog; rw [hfp, h1, h2]; simp

/-- readers and searches (they may create empty files) -/
theorem read_step (P : Params) (g g' : Group) (hs : List Bytes) (hi : HInv P g hs) (sd : SameDisk g g') :
    HInv P g' hs ∧ dlog P g' = dlog P g ∧ wlog P g' = wlog P g := by
  have hfp : filesPart P g' = filesPart P g := by
    unfold filesPart; rw [sd.minIndex, sd.maxIndex]
    exact fileRecs_congr P g g' _ (fun j _ => sd.files j)
  refine ⟨⟨sd.filesOK hi.filesOK, ⟨?_, by rw [sd.minIndex, sd.maxIndex]; exact hi.idx.2⟩, hi.valid,
    by rw [sd.head, sd.buf]; exact hi.clean, by rw [sd.head, sd.synced]; exact hi.synced⟩, ?_, ?_⟩
  · intro j hj; rw [sd.minIndex, sd.maxIndex]; exact hi.idx.1 j (by rw [← sd.files j]; exact hj)
  · unfold dlog; rw [hfp, sd.head, sd.buf, sd.synced]
  · unfold wlog; rw [hfp, sd.head, sd.buf]


theorem take_prefix_take {α : Type} (l : List α) {m n : Nat} (h : m ≤ n) : l.take m <+: l.take n := by
  have : l.take m = (l.take n).take m := by rw [List.take_take, Nat.min_eq_left h]
  rw [this]; exact List.take_prefix _ _

/-- `whole P hs g.synced` records of the head are on stable storage (their frames end at or before
the fsync watermark); all records of rotated files are. -/
def durableHead (P : Params) (g : Group) (hs : List Bytes) : List Bytes :=
  hs.take (whole P hs g.synced)


theorem cycle_clean (P : Params) (G : Good P) (S : Nat) (g : Group) (hf : FilesOK P g)
    (hs : List Bytes) (hv : ∀ d ∈ hs, ValidRec P d) (hc : g.head ++ g.buf = frames P hs)
    (cut hl tl : Nat) (h : Int) (e0 : Bytes) (he : ValidRec P e0) (res : RecoverRes) (g' : Group)
    (dhl dtl : Nat)
    (hrec : recover P S dhl dtl (onStart P S (openGroup (crash g cut) hl tl) e0).1 h e0 = (res, g'))
    (hok : RecoveredOK res) :
    (∀ j, fileAt g' j = fileAt g j) ∧ g'.buf = [] ∧
      ((∃ hw', (∀ d ∈ hw', ValidRec P d) ∧ g'.head = frames P hw' ∧
          durableHead P g hs <+: hw' ∧ (hw' <+: hs ∨ hw' = [e0])) ∨ Collision P) := by
  obtain ⟨k, t, hk1, hk2, hrep, hshape⟩ := crash_rep P G g hs hv hc cut
  -- the reopened group
  have hgo_head : (openGroup (crash g cut) hl tl).head = (crash g cut).head := rfl
  have hgo_buf : (openGroup (crash g cut) hl tl).buf = [] := rfl
  have hgo_files : (openGroup (crash g cut) hl tl).files = g.files := rfl
  -- the torn record, if any
  have hd0 : t = [] ∨ (ValidRec P ((hs[k]?).getD []) ∧ (t.length) < (frame P ((hs[k]?).getD [])).length ∧
      t = (frame P ((hs[k]?).getD [])).take t.length) := by
    rcases hshape with h0 | ⟨d, m, hd, hm, ht⟩
    · exact Or.inl h0
    · right
      rw [hd]
      simp only [Option.getD_some]
      have hl : t.length = m := by rw [ht]; simp [List.length_take]; omega
      exact ⟨hv d (List.mem_of_getElem? hd), by omega, by rw [hl]; exact ht⟩
  -- OnStart: writes the height-0 marker only into an empty head
  have hstart : ∃ hw2 t2 g2, (onStart P S (openGroup (crash g cut) hl tl) e0).1 = g2 ∧
      HeadRep P g2 hw2 t2 ∧ g2.buf = [] ∧ g2.files = g.files ∧
      ((hw2 = hs.take k ∧ t2 = t) ∨ (hs.take k = [] ∧ t = [] ∧ hw2 = [e0] ∧ t2 = [])) := by
    by_cases h0 : (openGroup (crash g cut) hl tl).head.length = 0
    · have hnil : (crash g cut).head = [] := by
        rw [hgo_head] at h0; exact List.length_eq_zero_iff.mp h0
      have hboth : frames P (hs.take k) = [] ∧ t = [] := by
        have := hrep.eq; rw [hnil] at this
        exact List.append_eq_nil_iff.mp this.symm
      have hwnil : hs.take k = [] := by
        cases hq : hs.take k with
        | nil => rfl
        | cons a b =>
          have h8 := hboth.1
          rw [hq, frames_cons] at h8
          have := congrArg List.length h8
          simp [frame_length P G] at this
      obtain ⟨hw3, h3head, h3buf, h3files, _, _, h3shape, _⟩ :=
        onStart_rep P S (openGroup (crash g cut) hl tl) e0 he [] (by rw [hgo_head, hnil]; rfl) hgo_buf G
      have hw3e : hw3 = [e0] := by
        rcases h3shape with h | ⟨_, h⟩
        · exfalso
          unfold onStart at h3head
          simp only [h0, if_true] at h3head
          subst h
          unfold writeSync at h3head
          cases hwr : write P S (openGroup (crash g cut) hl tl) e0 with
          | none =>
            unfold write at hwr
            rw [encode_valid P e0 he.2.1] at hwr
            simp at hwr
          | some g1 =>
            rw [hwr] at h3head
            obtain ⟨h1, _⟩ := write_concat P S _ g1 e0 he.2.1 hwr
            simp only [Option.map_some] at h3head
            have : g1.head ++ g1.buf = [] := h3head
            rw [h1] at this
            have := congrArg List.length this
            simp [frame_length P G] at this
        · exact h
      subst hw3e
      refine ⟨[e0], [], _, rfl, ⟨?_, by rw [h3head]; simp, Or.inl rfl⟩, h3buf, h3files.trans hgo_files,
        Or.inr ⟨hwnil, hboth.2, rfl, rfl⟩⟩
      intro d hd; simp at hd; subst hd; exact he
    · refine ⟨hs.take k, t, _, rfl, ?_, ?_, ?_, Or.inl ⟨rfl, rfl⟩⟩
      · unfold onStart; simp only [h0, if_false]
        exact ⟨hrep.valid, hrep.eq, hrep.torn⟩
      · unfold onStart; simp only [h0, if_false]; rfl
      · unfold onStart; simp only [h0, if_false]; rfl
  obtain ⟨hw2, t2, g2, hg2, hr2, hb2, hfiles2, hcase⟩ := hstart
  rw [hg2] at hrec
  have hf2 : FilesOK P g2 := by
    intro j; rw [fileAt_congr hfiles2 j]; exact hf j
  have hd02 : t2 = [] ∨ (ValidRec P ((hs[k]?).getD []) ∧ (t.length) < (frame P ((hs[k]?).getD [])).length ∧
      t2 = (frame P ((hs[k]?).getD [])).take t.length) := by
    rcases hcase with ⟨_, rfl⟩ | ⟨_, _, _, rfl⟩
    · exact hd0
    · exact Or.inl rfl
  obtain ⟨c1, c2, c3⟩ := recover_clean P G S g2 h e0 he hf2 hw2 t2 hr2 _ _ hd02 hb2 dhl dtl res g' hrec hok
  refine ⟨fun j => (c1 j).trans (fileAt_congr hfiles2 j), c2, ?_⟩
  rcases c3 with ⟨hw', hv', hhead', hafter⟩ | hcol
  · left
    refine ⟨hw', hv', hhead', ?_⟩
    have hdur : durableHead P g hs <+: hs.take k := by
      unfold durableHead
      exact take_prefix_take hs hk1
    rcases hcase with ⟨rfl, rfl⟩ | ⟨hnil, htnil, rfl, rfl⟩
    · rcases hafter with rfl | ⟨htn, rfl⟩ | ⟨hnil, rfl⟩
      · exact ⟨hdur, Or.inl (List.take_prefix _ _)⟩
      · -- the torn record was restored by zero-filling: it is the next written record
        rcases hshape with h0 | ⟨d, m, hd, hm, ht⟩
        · exact absurd h0 htn
        · rw [hd]
          simp only [Option.getD_some]
          have : hs.take k ++ [d] = hs.take (k + 1) := by
            rw [List.take_add_one, hd]; simp
          rw [this]
          exact ⟨hdur.trans (take_prefix_take hs (Nat.le_succ k)),
            Or.inl (List.take_prefix _ _)⟩
      · rw [hnil] at hdur
        exact ⟨hdur.trans (List.nil_prefix), Or.inr rfl⟩
    · rw [hnil] at hdur
      rcases hafter with rfl | ⟨htn, _⟩ | ⟨hx, _⟩
      · exact ⟨hdur.trans (List.nil_prefix), Or.inr rfl⟩
      · exact absurd rfl htn
      · simp at hx
  · right; exact hcol


theorem readGroupInfo_le (g : Group) : (readGroupInfo g).minIndex ≤ (readGroupInfo g).maxIndex := by
  unfold readGroupInfo
  cases hl : g.files.map (·.1) with
  | nil => simp
  | cons i is =>
    simp only
    have h1 := (foldl_min_le is i).1
    have h2 := (foldl_max_ge is i).1
    omega

theorem openGroup_idxOK (g : Group) (hl tl : Nat) : IdxOK (openGroup g hl tl) := by
  refine ⟨?_, readGroupInfo_le g⟩
  intro j hj
  have hs : (lookupFile g.files j).isSome = true := by
    have : fileAt (openGroup g hl tl) j = fileAt g j := rfl
    rw [this] at hj
    unfold fileAt at hj
    cases h : lookupFile g.files j with
    | none => rw [h] at hj; simp at hj
    | some b => rfl
  exact readGroupInfo_range g j hs

theorem write_frame (P : Params) (S : Nat) (g g' : Group) (d : Bytes) (h : write P S g d = some g') :
    g'.files = g.files ∧ g'.minIndex = g.minIndex ∧ g'.maxIndex = g.maxIndex := by
  unfold write at h
  cases he : encode P d with
  | none => rw [he] at h; cases h
  | some f =>
    rw [he] at h
    simp only [Option.some.injEq] at h
    subst h
    exact ⟨rfl, rfl, rfl⟩

/-- indices cover the files and everything in the head file is fsynced -/
def Shape (g : Group) : Prop := IdxOK g ∧ g.synced = g.head.length

theorem onStart_shape (P : Params) (S : Nat) (g : Group) (e0 : Bytes) (h : Shape g) :
    Shape (onStart P S g e0).1 := by
  unfold onStart
  split
  · unfold writeSync
    cases hw : write P S g e0 with
    | none => exact h
    | some g1 =>
      obtain ⟨h1, h2, h3⟩ := write_frame P S g g1 e0 hw
      simp only [Option.map_some]
      exact ⟨idxOK_same g (flushAndSync g1) h1 h2 h3 h.1, rfl⟩
  · exact h

theorem sameDisk_shape {g g' : Group} (sd : SameDisk g g') (h : Shape g) : Shape g' := by
  refine ⟨⟨?_, by rw [sd.minIndex, sd.maxIndex]; exact h.1.2⟩, by rw [sd.synced, sd.head]; exact h.2⟩
  intro j hj; rw [sd.minIndex, sd.maxIndex]; exact h.1.1 j (by rw [← sd.files j]; exact hj)

theorem recover_shape (P : Params) (S dhl dtl : Nat) (g : Group) (h : Int) (e0 : Bytes) (hsh : Shape g) :
    Shape (recover P S dhl dtl g h e0).2 := by
  unfold recover
  have sd1 := catchup_sameDisk P g h
  cases hc : catchup P g h with
  | mk r g1 =>
    rw [hc] at sd1
    simp only at sd1
    have hnon : Shape g1 := sameDisk_shape sd1 hsh
    cases r with
    | corrupt ds e =>
      simp only
      have hgo : ∃ go : Group, repairHead P S dhl dtl g1 e0 = onStart P S go e0 ∧ Shape go := by
        unfold repairHead
        exact ⟨_, rfl, openGroup_idxOK _ _ _, rfl⟩
      obtain ⟨go, hgo_eq, hgo_sh⟩ := hgo
      rw [hgo_eq]
      have h2 := onStart_shape P S go e0 hgo_sh
      cases hos : onStart P S go e0 with
      | mk g2 w =>
        rw [hos] at h2
        simp only at h2 ⊢
        have sd3 := catchup_sameDisk P g2 h
        cases hc2 : catchup P g2 h with
        | mk r2 g3 =>
          rw [hc2] at sd3
          exact sameDisk_shape sd3 h2
    | ok ds => exact hnon
    | foundCurrent => exact hnon
    | belowInitial => exact hnon
    | noMarker => exact hnon
    | searchErr e => exact hnon


/-- one crash / reopen / recover cycle whose catch-up reported success -/
theorem restart_step (P : Params) (G : Good P) (S dhl dtl : Nat) (g : Group) (hs : List Bytes)
    (hi : HInv P g hs) (cut hl tl : Nat) (h : Int) (e0 : Bytes) (he : ValidRec P e0)
    (res : RecoverRes) (g' : Group)
    (hrec : recover P S dhl dtl (onStart P S (openGroup (crash g cut) hl tl) e0).1 h e0 = (res, g'))
    (hok : RecoveredOK res) :
    (∃ hs', HInv P g' hs' ∧ KeepsD false (dlog P g) (dlog P g') ∧ (wlog P g').Sublist (wlog P g ++ [e0]))
      ∨ Collision P := by
  obtain ⟨c1, c2, c3⟩ := cycle_clean P G S g hi.filesOK hs hi.valid hi.clean cut hl tl h e0 he res g' dhl dtl hrec hok
  rcases c3 with ⟨hw', hv', hhead', hdur, hshape⟩ | hcol
  · left
    have hsh : Shape g' := by
      have h0 : Shape (openGroup (crash g cut) hl tl) := ⟨openGroup_idxOK _ _ _, rfl⟩
      have h1 := onStart_shape P S _ e0 h0
      have h2 := recover_shape P S dhl dtl _ h e0 h1
      rw [hrec] at h2; exact h2
    have hinv : HInv P g' hw' := by
      refine ⟨?_, hsh.1, hv', by rw [c2, hhead']; simp, by rw [hsh.2]; exact Nat.le_refl _⟩
      intro j; rw [c1 j]; exact hi.filesOK j
    have hfp : filesPart P g' = filesPart P g := filesPart_eq P g g' c1 hi.idx hsh.1
    refine ⟨hw', hinv, ?_, ?_⟩
    · have hd' : dlog P g' = filesPart P g ++ hw' := by
        unfold dlog
        rw [hfp, c2, hsh.2]
        simp only [List.append_nil, List.take_length]
        rw [hhead', recsOf_frames P G hw' hv']
      have hd : dlog P g = filesPart P g ++ durableHead P g hs := dlog_eq P G g hs hi
      rw [hd, hd']
      obtain ⟨n, hn⟩ := hdur
      rw [← hn, ← List.append_assoc]
      exact KeepsD.of_append _ _
    · rw [wlog_eq P G g' hw' hinv, wlog_eq P G g hs hi, hfp, List.append_assoc]
      apply List.Sublist.append (List.Sublist.refl _)
      rcases hshape with hp | he0
      · exact (hp.sublist).trans (List.sublist_append_left _ _)
      · rw [he0]; exact List.sublist_append_right _ _
  · right; exact hcol

/-- operations of a history -/
inductive HOp where
  | write (d : Bytes)
  | writeSync (d : Bytes)
  | sync
  | rotate
  | prune
  | read
  | restart (cut hl tl : Nat) (h : Int) (e0 : Bytes)

/-- records an operation can add to the log -/
def HOp.recs : HOp → List Bytes
  | .write d => [d]
  | .writeSync d => [d]
  | .restart _ _ _ _ e0 => [e0]
  | _ => []

def HOp.isPrune : HOp → Bool
  | .prune => true
  | _ => false

/-- one step of a history on the model. `read` stands for any reader or search (they only create
empty files); `restart` is a crash with any cut of the unsynced tail, the reopening with any
limits, `OnStart`, and a catch-up loop that reported success. -/
inductive Step (P : Params) (S dhl dtl k : Nat) : Group → HOp → Group → Prop where
  | write {g g' d} : ValidRec P d → write P S g d = some g' → Step P S dhl dtl k g (.write d) g'
  | writeSync {g g' d} : ValidRec P d → writeSync P S g d = some g' → Step P S dhl dtl k g (.writeSync d) g'
  | sync {g} : Step P S dhl dtl k g .sync (flushAndSync g)
  | rotate {g} : Step P S dhl dtl k g .rotate (checkHeadSizeLimit g).1
  | prune {g} : Step P S dhl dtl k g .prune (checkTotalSizeLimit k g).1
  | read {g g'} : SameDisk g g' → Step P S dhl dtl k g .read g'
  | restart {g g' cut hl tl h e0 res} : ValidRec P e0 →
      recover P S dhl dtl (onStart P S (openGroup (crash g cut) hl tl) e0).1 h e0 = (res, g') →
      RecoveredOK res → Step P S dhl dtl k g (.restart cut hl tl h e0) g'

inductive Steps (P : Params) (S dhl dtl k : Nat) : Group → List HOp → Group → Prop where
  | nil {g} : Steps P S dhl dtl k g [] g
  | cons {g g1 g2 op ops} : Step P S dhl dtl k g op g1 → Steps P S dhl dtl k g1 ops g2 →
      Steps P S dhl dtl k g (op :: ops) g2

theorem step_lemma (P : Params) (G : Good P) (S dhl dtl k : Nat) (g g' : Group) (op : HOp)
    (hs : List Bytes) (hi : HInv P g hs) (st : Step P S dhl dtl k g op g') :
    (∃ hs', HInv P g' hs' ∧ KeepsD op.isPrune (dlog P g) (dlog P g') ∧
      (wlog P g').Sublist (wlog P g ++ op.recs)) ∨ Collision P := by
  cases st with
  | write hd hw =>
    obtain ⟨h1, h2, h3⟩ := write_step P G S g g' hs _ hi hd hw
    exact Or.inl ⟨_, h1, by rw [h2]; exact KeepsD.refl _, by rw [h3]; exact List.Sublist.refl _⟩
  | @writeSync _ d hd hw =>
    unfold writeSync at hw
    cases hw1 : write P S g d with
    | none => rw [hw1] at hw; simp at hw
    | some g1 =>
      rw [hw1] at hw
      simp only [Option.map_some, Option.some.injEq] at hw
      subst hw
      obtain ⟨h1, h2, h3⟩ := write_step P G S g g1 hs _ hi hd hw1
      obtain ⟨s1, s2, s3, s4⟩ := sync_step P G g1 _ h1
      refine Or.inl ⟨_, s1, ?_, by rw [s3, h3]; exact List.Sublist.refl _⟩
      rw [← h2]; exact s4
  | sync =>
    obtain ⟨s1, s2, s3, s4⟩ := sync_step P G g hs hi
    exact Or.inl ⟨_, s1, s4, by rw [s3]; simp [HOp.recs]⟩
  | rotate =>
    unfold checkHeadSizeLimit
    split
    · exact Or.inl ⟨hs, hi, KeepsD.refl _, by simp [HOp.recs]⟩
    · split
      · obtain ⟨r1, r2, r3⟩ := rotate_step P G g hs hi
        obtain ⟨_, s2, _, s4⟩ := sync_step P G g hs hi
        refine Or.inl ⟨[], r1, ?_, by rw [r3]; simp [HOp.recs]⟩
        rw [r2, ← s2]; exact s4
      · exact Or.inl ⟨hs, hi, KeepsD.refl _, by simp [HOp.recs]⟩
  | prune =>
    obtain ⟨p1, dr, p2, p3⟩ := prune_step P k g hs hi
    refine Or.inl ⟨hs, p1, ⟨dr, _, [], p2, by simp, by simp [HOp.isPrune]⟩, ?_⟩
    rw [p3]; simp [HOp.recs]
  | read sd =>
    obtain ⟨r1, r2, r3⟩ := read_step P g g' hs hi sd
    exact Or.inl ⟨hs, r1, by rw [r2]; exact KeepsD.refl _, by rw [r3]; simp [HOp.recs]⟩
  | restart he hrec hok =>
    rcases restart_step P G S dhl dtl g hs hi _ _ _ _ _ he _ g' hrec hok with ⟨hs', a, b, c⟩ | hc
    · exact Or.inl ⟨hs', a, b, c⟩
    · exact Or.inr hc

/-- **History theorem.** After any history of writes, synced writes, syncs, rotations, prunings,
readers and crash/reopen/recover cycles: the invariant holds again, the durable log kept all its
records in order except a prefix that only prunings may remove, and the log contains nothing but
what it contained before and what the operations wrote, in that order — or a checksum collision
is exhibited. -/
theorem history (P : Params) (G : Good P) (S dhl dtl k : Nat) (ops : List HOp) :
    ∀ (g g' : Group) (hs : List Bytes), HInv P g hs → Steps P S dhl dtl k g ops g' →
    (∃ hs', HInv P g' hs' ∧ KeepsD (ops.any HOp.isPrune) (dlog P g) (dlog P g') ∧
      (wlog P g').Sublist (wlog P g ++ ops.flatMap HOp.recs)) ∨ Collision P := by
  induction ops with
  | nil =>
    intro g g' hs hi st
    cases st
    exact Or.inl ⟨hs, hi, KeepsD.refl _, by simp⟩
  | cons op ops ih =>
    intro g g' hs hi st
    cases st with
    | cons s1 srest =>
      rcases step_lemma P G S dhl dtl k g _ op hs hi s1 with ⟨hs1, i1, k1, w1⟩ | hc
      · rcases ih _ g' hs1 i1 srest with ⟨hs2, i2, k2, w2⟩ | hc
        · refine Or.inl ⟨hs2, i2, ?_, ?_⟩
          · simpa [List.any_cons] using KeepsD.trans k1 k2
          · simp only [List.flatMap_cons, ← List.append_assoc]
            exact w2.trans (List.Sublist.append w1 (List.Sublist.refl _))
        · exact Or.inr hc
      · exact Or.inr hc


theorem Steps.append {P : Params} {S dhl dtl k : Nat} {g g1 g2 : Group} {a b : List HOp}
    (h1 : Steps P S dhl dtl k g a g1) (h2 : Steps P S dhl dtl k g1 b g2) :
    Steps P S dhl dtl k g (a ++ b) g2 := by
  induction h1 with
  | nil => exact h2
  | cons s _ ih => exact Steps.cons s (ih h2)

/-- what a reader over the whole group returns in a state satisfying the invariant -/
theorem readAll_inv (P : Params) (G : Good P) (g : Group) (hs : List Bytes) (hi : HInv P g hs) :
    ∃ e, e.isMsg = false ∧ (readAll P g).1 = (rlog P g, e) ∧
      dlog P g <+: rlog P g ∧ rlog P g <+: wlog P g := by
  have hh : g.head = (frames P hs).take g.head.length := by rw [← hi.clean]; simp
  obtain ⟨e, he, hr⟩ := stream_read P G g hi.filesOK hs hi.valid g.head.length hh g.minIndex
  refine ⟨e, he, ?_, ?_, ?_⟩
  · unfold readAll
    simp only
    rw [hr, rlog_eq P G g hs hi]; rfl
  · rw [dlog_eq P G g hs hi, rlog_eq P G g hs hi]
    exact (List.prefix_append_right_inj _).mpr
      (take_prefix_take hs (whole_mono P hs _ _ hi.synced))
  · rw [rlog_eq P G g hs hi, wlog_eq P G g hs hi]
    exact (List.prefix_append_right_inj _).mpr (List.take_prefix _ _)

theorem headRep_inv (P : Params) (g : Group) (hs : List Bytes) (hi : HInv P g hs) :
    ∃ t, HeadRep P g (hs.take (whole P hs g.head.length)) t ∧ (g.buf = [] → t = []) := by
  have hh : g.head = (frames P hs).take g.head.length := by rw [← hi.clean]; simp
  obtain ⟨t, ht, hT⟩ := take_frames P hs g.head.length
  refine ⟨t, ⟨fun d hd => hi.valid d (List.mem_of_mem_take hd), by rw [← ht, ← hh], ?_⟩, ?_⟩
  · rcases hT with h | ⟨d, m, hd, hm, he⟩
    · exact Or.inl h
    · exact Or.inr ⟨d, m, hi.valid d (List.mem_of_getElem? hd), hm, he⟩
  · intro hb
    have hc := hi.clean
    rw [hb, List.append_nil] at hc
    have hlen : (frames P hs).length ≤ g.head.length := by rw [hc]; exact Nat.le_refl _
    rw [whole_all P hs _ hlen, List.take_length, List.take_of_length_le hlen] at ht
    have := congrArg List.length ht
    simp at this
    exact this


end Tmv.Wal
