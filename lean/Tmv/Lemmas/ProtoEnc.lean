import Tmv.Model.LightRpc
/-! Injectivity of the protobuf pieces the C20 model hashes (varints are prefix-free; a message made
of fields with distinct ascending tags parses uniquely). All values are 64-bit. -/
namespace Tmv.LightRpc

theorem ofNat_inj {a b : Nat} (ha : a < 256) (hb : b < 256) (h : UInt8.ofNat a = UInt8.ofNat b) : a = b := by
  have := congrArg UInt8.toNat h
  simp at this
  omega

theorem uvarintF_prefix_free : ∀ (f n m : Nat) (r s : Bytes), n < 128 ^ f → m < 128 ^ f →
    uvarintF f n ++ r = uvarintF f m ++ s → n = m ∧ r = s := by
  intro f
  induction f with
  | zero => intro n m r s hn hm h; simp at hn hm; subst hn; subst hm; simpa [uvarintF] using h
  | succ f ih =>
    intro n m r s hn hm h
    unfold uvarintF at h
    by_cases h1 : n < 128 <;> by_cases h2 : m < 128
    · simp only [h1, h2, if_true, List.cons_append, List.nil_append, List.cons.injEq] at h
      exact ⟨ofNat_inj (by omega) (by omega) h.1, h.2⟩
    · simp only [h1, h2, if_true, if_false, List.cons_append, List.nil_append, List.cons.injEq] at h
      have := ofNat_inj (by omega) (by omega) h.1
      omega
    · simp only [h1, h2, if_true, if_false, List.cons_append, List.nil_append, List.cons.injEq] at h
      have := ofNat_inj (by omega) (by omega) h.1
      omega
    · simp only [h1, h2, if_false, List.cons_append, List.cons.injEq] at h
      have e := ofNat_inj (by omega) (by omega) h.1
      have hn' : n / 128 < 128 ^ f := by
        rw [Nat.pow_succ] at hn; exact Nat.div_lt_of_lt_mul (by omega)
      have hm' : m / 128 < 128 ^ f := by
        rw [Nat.pow_succ] at hm; exact Nat.div_lt_of_lt_mul (by omega)
      obtain ⟨e2, e3⟩ := ih _ _ _ _ hn' hm' h.2
      exact ⟨by omega, e3⟩

theorem uvarint_prefix_free (n m : Nat) (r s : Bytes) (hn : n < 2 ^ 64) (hm : m < 2 ^ 64)
    (h : uvarint n ++ r = uvarint m ++ s) : n = m ∧ r = s :=
  uvarintF_prefix_free 10 n m r s (by omega) (by omega) h

/-- `encodeByteSlice` is prefix-free -/
theorem encBS_append_inj (a b x y : Bytes) (ha : a.length < 2 ^ 64) (hb : b.length < 2 ^ 64)
    (h : encBS a ++ x = encBS b ++ y) : a = b ∧ x = y := by
  unfold encBS at h
  rw [List.append_assoc, List.append_assoc] at h
  obtain ⟨e1, e2⟩ := uvarint_prefix_free _ _ _ _ ha hb h
  exact List.append_inj e2 e1

/-- what follows a field with tag `t`: nothing, or a field with another tag -/
def StartsNot (t : UInt8) (X : Bytes) : Prop := ∀ rest, X ≠ t :: rest

theorem startsNot_nil (t : UInt8) : StartsNot t [] := by intro rest h; cases h

theorem fVarint_startsNot (t t' : UInt8) (n : Nat) (X : Bytes) (ht : t' ≠ t) (hX : StartsNot t X) :
    StartsNot t (fVarint t' n ++ X) := by
  intro rest h
  unfold fVarint at h
  split at h
  · exact hX rest (by simpa using h)
  · simp at h; exact ht h.1

theorem fBytes_startsNot (t t' : UInt8) (b : Bytes) (X : Bytes) (ht : t' ≠ t) (hX : StartsNot t X) :
    StartsNot t (fBytes t' b ++ X) := by
  intro rest h
  unfold fBytes at h
  split at h
  · exact hX rest (by simpa using h)
  · simp at h; exact ht h.1

theorem fVarint_append_inj (t : UInt8) (a a' : Nat) (X X' : Bytes) (ha : a < 2 ^ 64) (ha' : a' < 2 ^ 64)
    (hX : StartsNot t X) (hX' : StartsNot t X') (h : fVarint t a ++ X = fVarint t a' ++ X') :
    a = a' ∧ X = X' := by
  unfold fVarint at h
  by_cases h0 : a = 0 <;> by_cases h0' : a' = 0
  · simp [h0, h0'] at h; exact ⟨by omega, h⟩
  · simp [h0, h0'] at h; exact absurd h (hX _)
  · simp [h0, h0'] at h; exact absurd h.symm (hX' _)
  · simp only [h0, h0', if_false, List.cons_append, List.cons.injEq, true_and] at h
    exact uvarint_prefix_free _ _ _ _ ha ha' h

theorem fBytes_append_inj (t : UInt8) (b b' : Bytes) (X X' : Bytes) (hb : b.length < 2 ^ 64)
    (hb' : b'.length < 2 ^ 64) (hX : StartsNot t X) (hX' : StartsNot t X')
    (h : fBytes t b ++ X = fBytes t b' ++ X') : b = b' ∧ X = X' := by
  unfold fBytes at h
  by_cases h0 : b = [] <;> by_cases h0' : b' = []
  · simp [h0, h0'] at h; exact ⟨by rw [h0, h0'], h⟩
  · simp [h0, h0'] at h; exact absurd h (hX _)
  · simp [h0, h0'] at h; exact absurd h.symm (hX' _)
  · simp only [h0, h0', if_false, List.cons_append, List.cons.injEq, true_and, List.append_assoc] at h
    obtain ⟨e1, e2⟩ := uvarint_prefix_free _ _ _ _ hb hb' h
    exact List.append_inj e2 e1

/-- two's-complement encoding is injective on int64 -/
theorem u64_inj (a b : Int) (ha : -(2 ^ 63) ≤ a ∧ a < 2 ^ 63) (hb : -(2 ^ 63) ≤ b ∧ b < 2 ^ 63)
    (h : u64 a = u64 b) : a = b := by
  unfold u64 at h
  split at h <;> split at h <;> omega

theorem u64_lt (a : Int) (ha : -(2 ^ 63) ≤ a ∧ a < 2 ^ 63) : u64 a < 2 ^ 64 := by
  unfold u64; split <;> omega

/-- a value fits an int64 -/
def I64 (a : Int) : Prop := -(2 ^ 63) ≤ a ∧ a < 2 ^ 63

/-- a DeliverTx result with 64-bit fields (what protobuf can carry) -/
def TxResult.WF (r : TxResult) : Prop :=
  r.code < 2 ^ 64 ∧ r.data.length < 2 ^ 64 ∧ I64 r.gasWanted ∧ I64 r.gasUsed

theorem TxResult.enc_inj (r r' : TxResult) (hr : r.WF) (hr' : r'.WF) (h : r.enc = r'.enc) : r = r' := by
  unfold TxResult.enc at h
  obtain ⟨c1, d1, w1, u1⟩ := hr
  obtain ⟨c2, d2, w2, u2⟩ := hr'
  have s30 : ∀ (n : Nat), StartsNot 0x28 (fVarint 0x30 n ++ []) := fun n =>
    fVarint_startsNot _ _ _ _ (by decide) (startsNot_nil _)
  have s12a : ∀ (n m : Nat), StartsNot 0x12 (fVarint 0x28 n ++ (fVarint 0x30 m ++ [])) := fun n m =>
    fVarint_startsNot _ _ _ _ (by decide) (fVarint_startsNot _ _ _ _ (by decide) (startsNot_nil _))
  have s08 : ∀ (b : Bytes) (n m : Nat), StartsNot 0x08 (fBytes 0x12 b ++ (fVarint 0x28 n ++ (fVarint 0x30 m ++ []))) :=
    fun b n m => fBytes_startsNot _ _ _ _ (by decide)
      (fVarint_startsNot _ _ _ _ (by decide) (fVarint_startsNot _ _ _ _ (by decide) (startsNot_nil _)))
  have h' : fVarint 0x08 r.code ++ (fBytes 0x12 r.data ++ (fVarint 0x28 (u64 r.gasWanted) ++ (fVarint 0x30 (u64 r.gasUsed) ++ [])))
      = fVarint 0x08 r'.code ++ (fBytes 0x12 r'.data ++ (fVarint 0x28 (u64 r'.gasWanted) ++ (fVarint 0x30 (u64 r'.gasUsed) ++ []))) := by
    simpa [List.append_assoc] using h
  obtain ⟨e1, h1⟩ := fVarint_append_inj _ _ _ _ _ c1 c2 (s08 _ _ _) (s08 _ _ _) h'
  obtain ⟨e2, h2⟩ := fBytes_append_inj _ _ _ _ _ d1 d2 (s12a _ _) (s12a _ _) h1
  obtain ⟨e3, h3⟩ := fVarint_append_inj _ _ _ _ _ (u64_lt _ w1) (u64_lt _ w2) (s30 _) (s30 _) h2
  obtain ⟨e4, _⟩ := fVarint_append_inj _ _ _ _ _ (u64_lt _ u1) (u64_lt _ u2) (startsNot_nil _) (startsNot_nil _) h3
  have e3' := u64_inj _ _ w1 w2 e3
  have e4' := u64_inj _ _ u1 u2 e4
  cases r; cases r'; simp_all

theorem map_enc_inj : ∀ (rs rs' : List TxResult), (∀ r ∈ rs, r.WF) → (∀ r ∈ rs', r.WF) →
    rs.map TxResult.enc = rs'.map TxResult.enc → rs = rs'
  | [], [], _, _, _ => rfl
  | [], _ :: _, _, _, h => by simp at h
  | _ :: _, [], _, _, h => by simp at h
  | r :: rs, r' :: rs', h1, h2, h => by
    simp only [List.map_cons, List.cons.injEq] at h
    have e := TxResult.enc_inj r r' (h1 r (by simp)) (h2 r' (by simp)) h.1
    have e' := map_enc_inj rs rs' (fun x hx => h1 x (by simp [hx])) (fun x hx => h2 x (by simp [hx])) h.2
    rw [e, e']

theorem fBytes_inj (t : UInt8) (a b : Bytes) (ha : a.length < 2 ^ 64) (hb : b.length < 2 ^ 64)
    (h : fBytes t a = fBytes t b) : a = b := by
  have h' : fBytes t a ++ [] = fBytes t b ++ [] := by simpa using h
  exact (fBytes_append_inj t a b [] [] ha hb (startsNot_nil _) (startsNot_nil _) h').1

theorem fVarint_inj (t : UInt8) (a b : Nat) (ha : a < 2 ^ 64) (hb : b < 2 ^ 64)
    (h : fVarint t a = fVarint t b) : a = b := by
  have h' : fVarint t a ++ [] = fVarint t b ++ [] := by simpa using h
  exact (fVarint_append_inj t a b [] [] ha hb (startsNot_nil _) (startsNot_nil _) h').1

theorem fVarint2_inj (t1 t2 : UInt8) (ht : t2 ≠ t1) (a b a' b' : Nat) (ha : a < 2 ^ 64) (hb : b < 2 ^ 64)
    (ha' : a' < 2 ^ 64) (hb' : b' < 2 ^ 64)
    (h : fVarint t1 a ++ fVarint t2 b = fVarint t1 a' ++ fVarint t2 b') : a = a' ∧ b = b' := by
  have s : ∀ n : Nat, StartsNot t1 (fVarint t2 n ++ []) := fun n =>
    fVarint_startsNot _ _ _ _ ht (startsNot_nil _)
  have h' : fVarint t1 a ++ (fVarint t2 b ++ []) = fVarint t1 a' ++ (fVarint t2 b' ++ []) := by simpa using h
  obtain ⟨e1, h1⟩ := fVarint_append_inj _ _ _ _ _ ha ha' (s _) (s _) h'
  obtain ⟨e2, _⟩ := fVarint_append_inj _ _ _ _ _ hb hb' (startsNot_nil _) (startsNot_nil _) h1
  exact ⟨e1, e2⟩

theorem uvarintF_length_le : ∀ (f n : Nat), (uvarintF f n).length ≤ f := by
  intro f
  induction f with
  | zero => intro n; simp [uvarintF]
  | succ f ih =>
    intro n
    unfold uvarintF
    split
    · simp
    · simp only [List.length_cons]; have := ih (n / 128); omega

theorem fVarint_length_le (t : UInt8) (n : Nat) : (fVarint t n).length ≤ 11 := by
  unfold fVarint; split
  · simp
  · simp only [List.length_cons, uvarint]; have := uvarintF_length_le 10 n; omega

theorem fBytes_length_le (t : UInt8) (b : Bytes) : (fBytes t b).length ≤ 11 + b.length := by
  unfold fBytes; split
  · simp
  · simp only [List.length_cons, List.length_append, uvarint]; have := uvarintF_length_le 10 b.length; omega

theorem fMsg_inj (t : UInt8) (x y : Bytes) (hx : x.length < 2 ^ 64) (hy : y.length < 2 ^ 64)
    (h : fMsg t x = fMsg t y) : x = y := by
  unfold fMsg at h
  simp only [List.cons.injEq, true_and] at h
  obtain ⟨e1, e2⟩ := uvarint_prefix_free _ _ _ _ hx hy h
  exact e2

/-- sizes a BlockID / Header can have on the wire (slices below 4 GiB, 64-bit numbers) -/
def BlockID.WF (b : BlockID) : Prop := b.hash.length < 2 ^ 32 ∧ b.total < 2 ^ 64 ∧ b.psHash.length < 2 ^ 32

theorem BlockID.enc_inj (b b' : BlockID) (hb : b.WF) (hb' : b'.WF) (h : b.enc = b'.enc) : b = b' := by
  unfold BlockID.enc at h
  obtain ⟨h1, t1, p1⟩ := hb
  obtain ⟨h2, t2, p2⟩ := hb'
  have sm : ∀ x : Bytes, StartsNot 0x0a (fMsg 0x12 x) := by
    intro x rest hh; unfold fMsg at hh; simp at hh
  obtain ⟨e1, hm⟩ := fBytes_append_inj _ _ _ _ _ (by omega) (by omega) (sm _) (sm _) h
  have l1 := fVarint_length_le 0x08 b.total
  have l2 := fBytes_length_le 0x12 b.psHash
  have l1' := fVarint_length_le 0x08 b'.total
  have l2' := fBytes_length_le 0x12 b'.psHash
  have hin := fMsg_inj _ _ _ (by simp only [List.length_append]; omega) (by simp only [List.length_append]; omega) hm
  have sb : ∀ x : Bytes, StartsNot 0x08 (fBytes 0x12 x ++ []) := fun x =>
    fBytes_startsNot _ _ _ _ (by decide) (startsNot_nil _)
  have hin' : fVarint 0x08 b.total ++ (fBytes 0x12 b.psHash ++ []) = fVarint 0x08 b'.total ++ (fBytes 0x12 b'.psHash ++ []) := by
    simpa using hin
  obtain ⟨e2, hr⟩ := fVarint_append_inj _ _ _ _ _ t1 t2 (sb _) (sb _) hin'
  obtain ⟨e3, _⟩ := fBytes_append_inj _ _ _ _ _ (by omega) (by omega) (startsNot_nil _) (startsNot_nil _) hr
  cases b; cases b'; simp_all

def Header.WF (h : Header) : Prop :=
  h.versionBlock < 2 ^ 64 ∧ h.versionApp < 2 ^ 64 ∧ h.chainID.length < 2 ^ 32 ∧ I64 h.height ∧
  I64 h.timeSec ∧ I64 h.timeNanos ∧ h.lastBlockID.WF ∧ h.lastCommitHash.length < 2 ^ 32 ∧
  h.dataHash.length < 2 ^ 32 ∧ h.validatorsHash.length < 2 ^ 32 ∧ h.nextValidatorsHash.length < 2 ^ 32 ∧
  h.consensusHash.length < 2 ^ 32 ∧ h.appHash.length < 2 ^ 32 ∧ h.lastResultsHash.length < 2 ^ 32 ∧
  h.evidenceHash.length < 2 ^ 32 ∧ h.proposer.length < 2 ^ 32

/-- the 14 hashed byte strings determine the header -/
theorem Header.fields_inj (h h' : Header) (hw : h.WF) (hw' : h'.WF) (he : h.fields = h'.fields) : h = h' := by
  obtain ⟨a1, a2, a3, a4, a5, a6, a7, a8, a9, a10, a11, a12, a13, a14, a15, a16⟩ := hw
  obtain ⟨b1, b2, b3, b4, b5, b6, b7, b8, b9, b10, b11, b12, b13, b14, b15, b16⟩ := hw'
  simp only [Header.fields, List.cons.injEq, and_true] at he
  obtain ⟨e1, e2, e3, e4, e5, e6, e7, e8, e9, e10, e11, e12, e13, e14⟩ := he
  obtain ⟨v1, v2⟩ := fVarint2_inj _ _ (by decide) _ _ _ _ a1 a2 b1 b2 e1
  have c := fBytes_inj _ _ _ (by omega) (by omega) e2
  have ht := u64_inj _ _ a4 b4 (fVarint_inj _ _ _ (u64_lt _ a4) (u64_lt _ b4) e3)
  obtain ⟨t1, t2⟩ := fVarint2_inj _ _ (by decide) _ _ _ _ (u64_lt _ a5) (u64_lt _ a6) (u64_lt _ b5) (u64_lt _ b6) e4
  have t1' := u64_inj _ _ a5 b5 t1
  have t2' := u64_inj _ _ a6 b6 t2
  have lb := BlockID.enc_inj _ _ a7 b7 e5
  have f6 := fBytes_inj _ _ _ (by omega) (by omega) e6
  have f7 := fBytes_inj _ _ _ (by omega) (by omega) e7
  have f8 := fBytes_inj _ _ _ (by omega) (by omega) e8
  have f9 := fBytes_inj _ _ _ (by omega) (by omega) e9
  have f10 := fBytes_inj _ _ _ (by omega) (by omega) e10
  have f11 := fBytes_inj _ _ _ (by omega) (by omega) e11
  have f12 := fBytes_inj _ _ _ (by omega) (by omega) e12
  have f13 := fBytes_inj _ _ _ (by omega) (by omega) e13
  have f14 := fBytes_inj _ _ _ (by omega) (by omega) e14
  cases h; cases h'; simp_all

end Tmv.LightRpc
