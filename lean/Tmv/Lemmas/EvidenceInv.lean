import Tmv.Lemmas.Evidence
/-! Invariants of the evidence-pool model and what each operation does to them. -/
namespace Tmv.Evidence
variable (c : Ctx)

/-- a vote pair reported by consensus is genuine: the evidence formed from it against the
validator set of its height verifies (consensus only reports votes whose signatures it checked) -/
def GoodPair (v1 v2 : Vote) : Prop :=
  ∀ b, blockAt c v1.height = some b → ∀ t d, newDVE v1 v2 t b.vals = some d → DVProves c d b.vals

structure PoolInv (storeH : Int) (p : Pool) : Prop where
  size : p.size = u32 p.pending.length
  sorted : Sorted c p.pending
  disj : ∀ e ∈ p.pending, key c e ∉ p.committed
  proven : ∀ e ∈ p.pending, Proves c storeH e
  buf : ∀ pr ∈ p.buffer, GoodPair c pr.1 pr.2

/-- no pending item has expired (by both limits) under the pool's state -/
def Fresh (p : Pool) : Prop := ∀ e ∈ p.pending, expired p.state e.height e.time = false

@[simp] theorem addPending_state (p : Pool) (e : Ev) : (addPending c p e).state = p.state := rfl
@[simp] theorem addPending_committed (p : Pool) (e : Ev) : (addPending c p e).committed = p.committed := rfl
@[simp] theorem addPending_buffer (p : Pool) (e : Ev) : (addPending c p e).buffer = p.buffer := rfl
@[simp] theorem addPending_pending (p : Pool) (e : Ev) :
    (addPending c p e).pending = setPending c e p.pending := rfl
@[simp] theorem removePending_state (p : Pool) (e : Ev) : (removePending c p e).state = p.state := rfl
@[simp] theorem removePending_committed (p : Pool) (e : Ev) :
    (removePending c p e).committed = p.committed := rfl
@[simp] theorem removePending_buffer (p : Pool) (e : Ev) : (removePending c p e).buffer = p.buffer := rfl
@[simp] theorem removePending_pending (p : Pool) (e : Ev) :
    (removePending c p e).pending = p.pending.filter (fun x => !(key c x == key c e)) := rfl

theorem addPending_inv {storeH : Int} {p : Pool} {e : Ev} (hi : PoolInv c storeH p)
    (hp : isPending c p e = false) (hc : isCommitted c p e = false) (hv : Proves c storeH e) :
    PoolInv c storeH (addPending c p e) := by
  have hp' := (isPending_false_iff c p e).1 hp
  refine ⟨?_, ?_, ?_, ?_, hi.buf⟩
  · show u32 (p.size + 1) = u32 (setPending c e p.pending).length
    rw [length_setPending_new c hp']
    exact u32_succ _ _ hi.size
  · exact setPending_sorted c hi.sorted
  · intro x hx
    rcases mem_of_mem_setPending c hx with h | h
    · subst h; intro hm
      have := (isCommitted_iff c p x).2 hm
      rw [hc] at this; cases this
    · exact hi.disj x h
  · intro x hx
    rcases mem_of_mem_setPending c hx with h | h
    · subst h; exact hv
    · exact hi.proven x h

theorem addPending_fresh {p : Pool} {e : Ev} (hf : Fresh p)
    (he : expired p.state e.height e.time = false) : Fresh (addPending c p e) := by
  intro x hx
  rcases mem_of_mem_setPending c hx with h | h
  · subst h; exact he
  · exact hf x h

theorem isPending_addPending_self (p : Pool) (e : Ev) : isPending c (addPending c p e) e = true := by
  rw [isPending_iff]; exact ⟨e, mem_setPending_self c e _, rfl⟩

theorem isPending_addPending_of (p : Pool) (e x : Ev) (h : isPending c p x = true) :
    isPending c (addPending c p e) x = true := by
  rw [isPending_iff] at *
  obtain ⟨y, hy, hk⟩ := h
  by_cases hye : key c y = key c e
  · exact ⟨e, mem_setPending_self c e _, by rw [← hye, hk]⟩
  · exact ⟨y, mem_setPending_of_mem c hy hye, hk⟩

theorem removePending_inv {storeH : Int} {p : Pool} {e : Ev} (hi : PoolInv c storeH p)
    (hp : isPending c p e = true) : PoolInv c storeH (removePending c p e) := by
  have hp' := (isPending_iff c p e).1 hp
  refine ⟨?_, ?_, ?_, ?_, hi.buf⟩
  · show u32 (p.size + 4294967295) = u32 (p.pending.filter _).length
    have := length_filter_key c hi.sorted hp'
    apply u32_pred
    rw [this]; exact hi.size
  · exact sorted_filter c _ hi.sorted
  · intro x hx; simp at hx; exact hi.disj x hx.1
  · intro x hx; simp at hx; exact hi.proven x hx.1

theorem removePending_fresh {p : Pool} {e : Ev} (hf : Fresh p) : Fresh (removePending c p e) := by
  intro x hx; simp at hx; exact hf x hx.1

theorem mem_removePending {p : Pool} {e x : Ev} :
    x ∈ (removePending c p e).pending ↔ x ∈ p.pending ∧ key c x ≠ key c e := by
  simp

/-! ### AddEvidence -/

theorem addEvidence_inv {storeH : Int} {p : Pool} (e : Ev) (hi : PoolInv c storeH p) :
    PoolInv c storeH (addEvidence c storeH p e).1 := by
  unfold addEvidence
  split
  · exact hi
  · split
    · exact hi
    · split
      · exact hi
      · rename_i hp hc _ _ hv
        exact addPending_inv c hi (by simpa using hp) (by simpa using hc) ((verify_ok_iff c _ _ _).1 hv).1

theorem addEvidence_fresh {storeH : Int} {p : Pool} (e : Ev) (hf : Fresh p) :
    Fresh (addEvidence c storeH p e).1 := by
  unfold addEvidence
  split
  · exact hf
  · split
    · exact hf
    · split
      · exact hf
      · rename_i hv
        exact addPending_fresh c hf ((verify_ok_iff c _ _ _).1 hv).2

theorem addEvidence_same {storeH : Int} (p : Pool) (e : Ev) :
    (addEvidence c storeH p e).1.state = p.state ∧ (addEvidence c storeH p e).1.committed = p.committed ∧
    (addEvidence c storeH p e).1.buffer = p.buffer := by
  unfold addEvidence
  split
  · simp
  · split
    · simp
    · split <;> simp

/-! ### CheckEvidence -/

/-- everything the loop keeps: invariant, freshness, state, committed set, buffer -/
structure Keeps (storeH : Int) (p q : Pool) : Prop where
  inv : PoolInv c storeH q
  fresh : Fresh p → Fresh q
  state : q.state = p.state
  committed : q.committed = p.committed
  buffer : q.buffer = p.buffer
  grows : ∀ x, isPending c p x = true → isPending c q x = true
  len : p.pending.length ≤ q.pending.length
  mem : ∀ x ∈ p.pending, x ∈ q.pending

theorem Keeps.refl {storeH : Int} {p : Pool} (hi : PoolInv c storeH p) : Keeps c storeH p p :=
  ⟨hi, id, rfl, rfl, rfl, fun _ h => h, Nat.le_refl _, fun _ h => h⟩

theorem Keeps.trans {storeH : Int} {p q r : Pool} (h1 : Keeps c storeH p q) (h2 : Keeps c storeH q r) :
    Keeps c storeH p r :=
  ⟨h2.inv, fun h => h2.fresh (h1.fresh h), h2.state.trans h1.state, h2.committed.trans h1.committed,
   h2.buffer.trans h1.buffer, fun x h => h2.grows x (h1.grows x h), Nat.le_trans h1.len h2.len,
   fun x h => h2.mem x (h1.mem x h)⟩

theorem Keeps.add {storeH : Int} {p : Pool} {e : Ev} (hi : PoolInv c storeH p)
    (hp : isPending c p e = false) (hc : isCommitted c p e = false)
    (hv : verify c storeH p.state e = .ok ()) : Keeps c storeH p (addPending c p e) :=
  have h := (verify_ok_iff c _ _ _).1 hv
  ⟨addPending_inv c hi hp hc h.1, fun hf => addPending_fresh c hf h.2, rfl, rfl, rfl,
   fun x hx => isPending_addPending_of c p e x hx,
   by simp [length_setPending_new c ((isPending_false_iff c p e).1 hp)],
   fun x hx => mem_setPending_of_mem c hx ((isPending_false_iff c p e).1 hp x hx)⟩

theorem checkLoop_keeps {storeH : Int} (l : List Ev) :
    ∀ (p : Pool) (seen : List Nat), PoolInv c storeH p → Keeps c storeH p (checkLoop c storeH p seen l).1 := by
  induction l with
  | nil => intro p seen hi; simpa [checkLoop] using Keeps.refl c hi
  | cons e rest ih =>
    intro p seen hi
    unfold checkLoop
    simp only
    split
    · rename_i p' r hstep
      -- the step returned a result: p' = p
      split at hstep
      · split at hstep
        · simp at hstep; rw [← hstep.1]; exact Keeps.refl c hi
        · split at hstep
          · simp at hstep; rw [← hstep.1]; exact Keeps.refl c hi
          · simp at hstep
      · simp at hstep
    · rename_i p' hstep
      have hk : Keeps c storeH p p' := by
        split at hstep
        · split at hstep
          · simp at hstep
          · rename_i hc
            split at hstep
            · simp at hstep
            · rename_i hv
              simp at hstep
              rw [← hstep]
              split
              · exact Keeps.refl c hi
              · rename_i hp
                exact Keeps.add c hi (by simpa using hp) (by simpa using hc) hv
        · simp at hstep; rw [← hstep]; exact Keeps.refl c hi
      split
      · exact hk
      · exact Keeps.trans c hk (ih p' _ hk.inv)


theorem checkLoop_sound {storeH : Int} (l : List Ev) :
    ∀ (p : Pool) (seen : List Nat), PoolInv c storeH p →
      (checkLoop c storeH p seen l).2 = .ok →
      ∀ e ∈ l, key c e ∉ p.committed ∧
        ((Proves c storeH e ∧ (Fresh p → expired p.state e.height e.time = false)) ∨
          ∃ x, x ≠ e ∧ key c x = key c e) := by
  induction l with
  | nil => intro p seen _ _ e he; simp at he
  | cons e rest ih =>
    intro p seen hi hok
    unfold checkLoop at hok
    simp only at hok
    split at hok
    · rename_i p' r hstep
      split at hstep
      · split at hstep
        · simp at hstep; rw [← hstep.2] at hok; cases hok
        · split at hstep
          · simp at hstep; rw [← hstep.2] at hok; cases hok
          · simp at hstep
      · simp at hstep
    · rename_i p' hstep
      split at hok
      · cases hok
      · -- facts about the head
        have hhead : (key c e ∉ p.committed ∧
            ((Proves c storeH e ∧ (Fresh p → expired p.state e.height e.time = false)) ∨
              ∃ x, x ≠ e ∧ key c x = key c e)) ∧
            PoolInv c storeH p' ∧ (Fresh p → Fresh p') ∧ p'.state = p.state ∧ p'.committed = p.committed := by
          split at hstep
          · split at hstep
            · simp at hstep
            · rename_i hc
              split at hstep
              · simp at hstep
              · rename_i hv
                simp at hstep
                have hvv := (verify_ok_iff c _ _ _).1 hv
                have hnc : key c e ∉ p.committed := by
                  intro hm; exact hc ((isCommitted_iff c p e).2 hm)
                refine ⟨⟨hnc, Or.inl ⟨hvv.1, fun _ => hvv.2⟩⟩, ?_⟩
                rw [← hstep]
                split
                · exact ⟨hi, id, rfl, rfl⟩
                · rename_i hp
                  have hkk := Keeps.add c hi (by simpa using hp) (by simpa using hc) hv
                  exact ⟨hkk.inv, hkk.fresh, hkk.state, hkk.committed⟩
          · rename_i hcond
            simp at hstep
            rw [← hstep]
            refine ⟨?_, hi, id, rfl, rfl⟩
            simp at hcond
            obtain ⟨x, hx, hxe⟩ := (isPending_iff c p e).1 hcond.2
            have hnc : key c e ∉ p.committed := by rw [← hxe]; exact hi.disj x hx
            refine ⟨hnc, ?_⟩
            by_cases hxx : x = e
            · subst hxx; exact Or.inl ⟨hi.proven x hx, fun hf => hf x hx⟩
            · exact Or.inr ⟨x, hxx, hxe⟩
        obtain ⟨hh, hi', hf', hs', hc'⟩ := hhead
        intro y hy
        simp at hy
        rcases hy with hy | hy
        · subst hy; exact hh
        · have := ih p' _ hi' hok y hy
          rw [hs', hc'] at this
          refine ⟨this.1, ?_⟩
          rcases this.2 with ⟨h1, h2⟩ | h2
          · exact Or.inl ⟨h1, fun hf => h2 (hf' hf)⟩
          · exact Or.inr h2

theorem checkLoop_nodup {storeH : Int} (l : List Ev) :
    ∀ (p : Pool) (seen : List Nat), (checkLoop c storeH p seen l).2 = .ok →
      (l.map c.H).Nodup ∧ ∀ e ∈ l, c.H e ∉ seen := by
  induction l with
  | nil => intro p seen _; simp
  | cons e rest ih =>
    intro p seen hok
    unfold checkLoop at hok
    simp only at hok
    split at hok
    · rename_i p' r hstep
      split at hstep
      · split at hstep
        · simp at hstep; rw [← hstep.2] at hok; cases hok
        · split at hstep
          · simp at hstep; rw [← hstep.2] at hok; cases hok
          · simp at hstep
      · simp at hstep
    · rename_i p' hstep
      split at hok
      · cases hok
      · rename_i hns
        have ⟨h1, h2⟩ := ih p' _ hok
        simp at hns
        refine ⟨?_, ?_⟩
        · simp only [List.map_cons, List.nodup_cons]
          refine ⟨?_, h1⟩
          intro hm
          simp at hm
          obtain ⟨y, hy, hye⟩ := hm
          have := h2 y hy
          simp [hye] at this
        · intro y hy
          simp at hy
          rcases hy with hy | hy
          · subst hy; exact hns
          · have := h2 y hy
            simp at this
            exact this.2

/-! ### consensus buffer -/

theorem newDVE_height {v1 v2 : Vote} {t : Int} {vals : List Validator} {d : DV}
    (h : newDVE v1 v2 t vals = some d) :
    d.time = t ∧ ((d.a = v1 ∧ d.b = v2) ∨ (d.a = v2 ∧ d.b = v1)) := by
  unfold newDVE at h
  split at h
  · simp at h
  · simp at h
    split at h <;> (subst h; simp)

theorem formed_proves {storeH : Int} {v1 v2 : Vote} {b : Block} {d : DV}
    (hb : blockAt c v1.height = some b) (hh : v1.height ≤ storeH) (hg : GoodPair c v1 v2)
    (hd : newDVE v1 v2 b.time b.vals = some d) : Proves c storeH (.dv d) := by
  have hp := hg b hb b.time d hd
  obtain ⟨ht, hab⟩ := newDVE_height hd
  have hheight : d.a.height = v1.height := by
    obtain ⟨val, _, hh2, _⟩ := hp
    rcases hab with ⟨h1, _⟩ | ⟨h1, h2⟩
    · rw [h1]
    · rw [hh2, h2]
  unfold Proves
  simp only [Ev.height, Ev.time, hheight, ht]
  refine ⟨?_, b.vals, ?_, hp⟩
  · simp [metaTime, hh, hb]
  · simp [loadVals, hh, hb]


theorem stateAt_height (h : Int) : (stateAt c h).height = h := by
  unfold stateAt; split <;> rfl

theorem formEvidence_some {storeH h : Int} {v1 v2 : Vote} {d : DV} (hh : h ≤ storeH)
    (hf : formEvidence c storeH (stateAt c h) v1 v2 = some (some d)) :
    ∃ b, blockAt c v1.height = some b ∧ v1.height ≤ h ∧ newDVE v1 v2 b.time b.vals = some d := by
  unfold formEvidence at hf
  rw [stateAt_height] at hf
  split at hf
  · rename_i heq
    cases hb : blockAt c h with
    | none =>
      simp [stateAt, hb, newDVE] at hf
    | some b =>
      simp [stateAt, hb] at hf
      exact ⟨b, by rw [heq]; exact hb, by omega, hf⟩
  · split at hf
    · rename_i hlt
      have hle : v1.height ≤ storeH := by omega
      cases hb : blockAt c v1.height with
      | none => simp [loadVals, hle, hb] at hf
      | some b =>
        simp [loadVals, metaTime, hle, hb] at hf
        exact ⟨b, rfl, by omega, hf⟩
    · simp at hf

theorem formEvidence_of_block {storeH h : Int} {v1 v2 : Vote} {b : Block} (hh : h ≤ storeH)
    (hb : blockAt c v1.height = some b) (hle : v1.height ≤ h) :
    formEvidence c storeH (stateAt c h) v1 v2 = some (newDVE v1 v2 b.time b.vals) := by
  unfold formEvidence
  rw [stateAt_height]
  by_cases heq : v1.height = h
  · rw [if_pos heq]
    rw [heq] at hb
    simp [stateAt, hb]
  · rw [if_neg heq, if_pos (by omega)]
    have hle : v1.height ≤ storeH := by omega
    simp [loadVals, metaTime, hle, hb]

/-- like `Keeps`, without freshness (flushing the buffer may add evidence that has expired) -/
structure KeepsW (storeH : Int) (p q : Pool) : Prop where
  inv : PoolInv c storeH q
  state : q.state = p.state
  committed : q.committed = p.committed
  buffer : q.buffer = p.buffer
  grows : ∀ x, isPending c p x = true → isPending c q x = true
  mem : ∀ x ∈ p.pending, x ∈ q.pending

theorem KeepsW.refl {storeH : Int} {p : Pool} (hi : PoolInv c storeH p) : KeepsW c storeH p p :=
  ⟨hi, rfl, rfl, rfl, fun _ h => h, fun _ h => h⟩

theorem KeepsW.trans {storeH : Int} {p q r : Pool} (h1 : KeepsW c storeH p q) (h2 : KeepsW c storeH q r) :
    KeepsW c storeH p r :=
  ⟨h2.inv, h2.state.trans h1.state, h2.committed.trans h1.committed,
   h2.buffer.trans h1.buffer, fun x h => h2.grows x (h1.grows x h), fun x h => h2.mem x (h1.mem x h)⟩

theorem flushBuffer_keeps {storeH h : Int} (hh : h ≤ storeH) (l : List (Vote × Vote)) :
    ∀ p, PoolInv c storeH p → (∀ pr ∈ l, GoodPair c pr.1 pr.2) →
      KeepsW c storeH p (flushBuffer c storeH (stateAt c h) p l).1 := by
  induction l with
  | nil => intro p hi _; simpa [flushBuffer] using KeepsW.refl c hi
  | cons pr rest ih =>
    intro p hi hg
    obtain ⟨v1, v2⟩ := pr
    have hg' : ∀ pr ∈ rest, GoodPair c pr.1 pr.2 := fun pr hpr => hg pr (by simp [hpr])
    unfold flushBuffer
    split
    · exact ih p hi hg'
    · exact KeepsW.refl c hi
    · rename_i d hf
      simp only
      split
      · exact ih p hi hg'
      · split
        · exact ih p hi hg'
        · rename_i hp hc
          obtain ⟨b, hb, hle, hd⟩ := formEvidence_some c hh hf
          have hpr := formed_proves c (storeH := storeH) hb (by omega) (hg (v1, v2) (by simp)) hd
          have hi' := addPending_inv c hi (by simpa using hp) (by simpa using hc) hpr
          have hk : KeepsW c storeH p (addPending c p (.dv d)) :=
            ⟨hi', rfl, rfl, rfl, fun x hx => isPending_addPending_of c p _ x hx,
             fun x hx => mem_setPending_of_mem c hx ((isPending_false_iff c p _).1 (by simpa using hp) x hx)⟩
          exact KeepsW.trans c hk (ih _ hi' hg')

/-- every buffered pair whose evidence can be formed is pending afterwards, unless it was
committed already (or the loop died) -/
theorem flushBuffer_pending {storeH h : Int} (hh : h ≤ storeH) (l : List (Vote × Vote)) :
    ∀ p, PoolInv c storeH p → (∀ pr ∈ l, GoodPair c pr.1 pr.2) →
      (flushBuffer c storeH (stateAt c h) p l).2 = false →
      ∀ pr ∈ l, ∀ d, formEvidence c storeH (stateAt c h) pr.1 pr.2 = some (some d) →
        isPending c (flushBuffer c storeH (stateAt c h) p l).1 (.dv d) = true ∨ isCommitted c p (.dv d) = true := by
  induction l with
  | nil => intro p _ _ _ pr hpr; simp at hpr
  | cons pr0 rest ih =>
    intro p hi hg hok pr hpr d hf
    obtain ⟨v1, v2⟩ := pr0
    have hg' : ∀ pr ∈ rest, GoodPair c pr.1 pr.2 := fun pr hpr => hg pr (by simp [hpr])
    unfold flushBuffer at hok
    simp at hpr
    split at hok
    · rename_i hf0
      simp only [flushBuffer, hf0]
      rcases hpr with hpr | hpr
      · subst hpr; simp [hf0] at hf
      · exact ih p hi hg' hok pr hpr d hf
    · simp at hok
    · rename_i d0 hf0
      simp only at hok
      have hkeep := fun q (hq : PoolInv c storeH q) => flushBuffer_keeps c hh rest q hq hg'
      split at hok
      · rename_i hp0
        simp only [flushBuffer, hf0, hp0, ↓reduceIte]
        rcases hpr with hpr | hpr
        · subst hpr; rw [hf0] at hf; simp at hf; subst hf
          exact Or.inl ((hkeep p hi).grows _ hp0)
        · exact ih p hi hg' hok pr hpr d hf
      · rename_i hp0
        split at hok
        · rename_i hc0
          simp only [flushBuffer, hf0, hp0, hc0, ↓reduceIte]
          rcases hpr with hpr | hpr
          · subst hpr; rw [hf0] at hf; simp at hf; subst hf
            exact Or.inr hc0
          · exact ih p hi hg' hok pr hpr d hf
        · rename_i hc0
          simp only [flushBuffer, hf0, hp0, hc0, ↓reduceIte]
          obtain ⟨b, hb, hle, hd⟩ := formEvidence_some c hh hf0
          have hpr0 := formed_proves c (storeH := storeH) hb (by omega) (hg (v1, v2) (by simp)) hd
          have hi' := addPending_inv c hi (by simpa using hp0) (by simpa using hc0) hpr0
          rcases hpr with hpr | hpr
          · subst hpr; rw [hf0] at hf; simp at hf; subst hf
            exact Or.inl ((hkeep _ hi').grows _ (isPending_addPending_self c p _))
          · have := ih _ hi' hg' hok pr hpr d hf
            simpa [isCommitted] using this

/-! ### markEvidenceAsCommitted -/

structure KeepsC (storeH : Int) (p q : Pool) : Prop where
  inv : PoolInv c storeH q
  fresh : Fresh p → Fresh q
  state : q.state = p.state
  buffer : q.buffer = p.buffer
  sub : ∀ x ∈ q.pending, x ∈ p.pending
  comm : ∀ k ∈ p.committed, k ∈ q.committed
  keep : ∀ x ∈ p.pending, x ∈ q.pending ∨ key c x ∈ q.committed

theorem KeepsC.refl {storeH : Int} {p : Pool} (hi : PoolInv c storeH p) : KeepsC c storeH p p :=
  ⟨hi, id, rfl, rfl, fun _ h => h, fun _ h => h, fun _ h => Or.inl h⟩

theorem KeepsC.trans {storeH : Int} {p q r : Pool} (h1 : KeepsC c storeH p q) (h2 : KeepsC c storeH q r) :
    KeepsC c storeH p r :=
  ⟨h2.inv, fun h => h2.fresh (h1.fresh h), h2.state.trans h1.state, h2.buffer.trans h1.buffer,
   fun x h => h1.sub x (h2.sub x h), fun k h => h2.comm k (h1.comm k h),
   fun x h => by
     rcases h1.keep x h with h | h
     · exact h2.keep x h
     · exact Or.inr (h2.comm _ h)⟩

/-- one evidence of the committed block -/
def commitOne (p : Pool) (e : Ev) : Pool :=
  let p1 := if isPending c p e then removePending c p e else p
  if p1.committed.contains (key c e) then p1 else { p1 with committed := key c e :: p1.committed }

theorem markCommitted_cons (p : Pool) (e : Ev) (rest : List Ev) :
    markCommitted c p (e :: rest) = markCommitted c (commitOne c p e) rest := by
  simp [markCommitted, commitOne]

theorem commitOne_spec {storeH : Int} {p : Pool} (e : Ev) (hi : PoolInv c storeH p) :
    KeepsC c storeH p (commitOne c p e) ∧ key c e ∈ (commitOne c p e).committed := by
  unfold commitOne
  by_cases hp : isPending c p e = true
  · simp only [hp, ↓reduceIte]
    have hi1 := removePending_inv c hi hp
    have hsub : ∀ x ∈ (removePending c p e).pending, x ∈ p.pending := by
      intro x hx; simp at hx; exact hx.1
    have hne : ∀ x ∈ (removePending c p e).pending, key c x ≠ key c e := by
      intro x hx; simp at hx; exact hx.2
    split
    · rename_i hc
      refine ⟨⟨hi1, fun hf => removePending_fresh c hf, rfl, rfl, hsub, fun k hk => hk, ?_⟩, by simpa using hc⟩
      intro x hx
      by_cases hk : key c x = key c e
      · right; rw [hk]; simpa using hc
      · left; simp; exact ⟨hx, hk⟩
    · refine ⟨⟨⟨hi1.size, hi1.sorted, ?_, hi1.proven, hi1.buf⟩, fun hf => removePending_fresh c hf, rfl, rfl,
        hsub, fun k hk => by simp [hk], ?_⟩, by simp⟩
      · intro x hx
        simp only [List.mem_cons, not_or]
        exact ⟨hne x hx, hi1.disj x hx⟩
      · intro x hx
        by_cases hk : key c x = key c e
        · right; simp [hk]
        · left; simp; exact ⟨hx, hk⟩
  · have hpf : isPending c p e = false := by simpa using hp
    simp only [hpf, Bool.false_eq_true, ↓reduceIte]
    have hp' := (isPending_false_iff c p e).1 hpf
    split
    · rename_i hc
      exact ⟨KeepsC.refl c hi, by simpa using hc⟩
    · refine ⟨⟨⟨hi.size, hi.sorted, ?_, hi.proven, hi.buf⟩, id, rfl, rfl, fun _ h => h,
        fun k hk => by simp [hk], fun x hx => Or.inl hx⟩, by simp⟩
      intro x hx
      simp only [List.mem_cons, not_or]
      exact ⟨hp' x hx, hi.disj x hx⟩

theorem markCommitted_spec {storeH : Int} (l : List Ev) :
    ∀ p, PoolInv c storeH p →
      KeepsC c storeH p (markCommitted c p l) ∧ ∀ e ∈ l, key c e ∈ (markCommitted c p l).committed := by
  induction l with
  | nil => intro p hi; exact ⟨by simpa [markCommitted] using KeepsC.refl c hi, by simp⟩
  | cons e rest ih =>
    intro p hi
    rw [markCommitted_cons]
    obtain ⟨h1, h2⟩ := commitOne_spec c e hi
    obtain ⟨h3, h4⟩ := ih _ h1.inv
    refine ⟨KeepsC.trans c h1 h3, ?_⟩
    intro x hx
    simp at hx
    rcases hx with hx | hx
    · subst hx; exact h3.comm _ h2
    · exact h4 x hx

/-! ### expiry and pruning -/

/-- block times do not decrease with the height (chain validity: BFT time is monotone) -/
def MonoTime : Prop :=
  ∀ h1 h2 b1 b2, h1 ≤ h2 → blockAt c h1 = some b1 → blockAt c h2 = some b2 → b1.time ≤ b2.time

theorem expired_mono {st : State} {h1 h2 t1 t2 : Int} (hh : h1 ≤ h2) (ht : t1 ≤ t2)
    (h : expired st h1 t1 = false) : expired st h2 t2 = false := by
  unfold expired at *
  simp at *
  omega

theorem proves_block {storeH : Int} {e : Ev} (h : Proves c storeH e) :
    ∃ b, blockAt c e.height = some b ∧ b.time = e.time := by
  have h1 := h.1
  unfold metaTime at h1
  split at h1
  · cases hb : blockAt c e.height with
    | none => simp [hb] at h1
    | some b => simp [hb] at h1; exact ⟨b, rfl, h1⟩
  · simp at h1

theorem fresh_of_head {storeH : Int} (hm : MonoTime c) {st : State} {y : Ev} {ys : List Ev}
    (hs : Sorted c (y :: ys)) (hp : ∀ x ∈ y :: ys, Proves c storeH x)
    (hy : expired st y.height y.time = false) : ∀ x ∈ y :: ys, expired st x.height x.time = false := by
  intro x hx
  simp at hx
  rcases hx with hx | hx
  · subst hx; exact hy
  · unfold Sorted at hs
    rw [List.pairwise_cons] at hs
    have hle : y.height ≤ x.height := keyLt_height (hs.1 x hx)
    obtain ⟨b1, hb1, ht1⟩ := proves_block c (hp y (by simp))
    obtain ⟨b2, hb2, ht2⟩ := proves_block c (hp x (by simp [hx]))
    have := hm _ _ _ _ hle hb1 hb2
    exact expired_mono hle (by omega) hy

structure KeepsP (storeH : Int) (st : State) (p q : Pool) : Prop where
  inv : PoolInv c storeH q
  state : q.state = p.state
  committed : q.committed = p.committed
  buffer : q.buffer = p.buffer
  sub : ∀ x ∈ q.pending, x ∈ p.pending
  keep : ∀ x ∈ p.pending, x ∈ q.pending ∨ expired st x.height x.time = true
  head : ∀ y ys, q.pending = y :: ys → expired st y.height y.time = false

theorem removeExpiredLoop_spec {storeH : Int} (st : State) (l : List Ev) :
    ∀ p, PoolInv c storeH p → p.pending = l →
      KeepsP c storeH st p (removeExpiredLoop c st p l).1 := by
  induction l with
  | nil =>
    intro p hi hl
    simp only [removeExpiredLoop]
    exact ⟨hi, rfl, rfl, rfl, fun _ h => h, fun _ h => Or.inl h, fun y ys h => by simp [hl] at h⟩
  | cons e rest ih =>
    intro p hi hl
    unfold removeExpiredLoop
    split
    · rename_i hne
      refine ⟨hi, rfl, rfl, rfl, fun _ h => h, fun _ h => Or.inl h, ?_⟩
      intro y ys h
      rw [hl] at h
      simp at h
      rw [← h.1]
      simpa using hne
    · rename_i hex
      have hex' : expired st e.height e.time = true := by simpa using hex
      have hmem : e ∈ p.pending := by simp [hl]
      have hpend : isPending c p e = true := (isPending_iff c p e).2 ⟨e, hmem, rfl⟩
      have hi' := removePending_inv c hi hpend
      have hl' : (removePending c p e).pending = rest := by
        simp only [removePending_pending, hl]
        exact filter_head c (by rw [← hl]; exact hi.sorted)
      have := ih _ hi' hl'
      refine ⟨this.inv, this.state, this.committed, this.buffer, ?_, ?_, this.head⟩
      · intro x hx
        have := this.sub x hx
        rw [hl'] at this
        simp [hl, this]
      · intro x hx
        rw [hl] at hx
        simp at hx
        rcases hx with hx | hx
        · subst hx; exact Or.inr hex'
        · exact this.keep x (by rw [hl']; exact hx)

theorem removeExpired_spec {storeH : Int} (hm : MonoTime c) {p : Pool} (hi : PoolInv c storeH p) :
    KeepsP c storeH p.state p (removeExpired c p) ∧ Fresh (removeExpired c p) := by
  have h := removeExpiredLoop_spec c p.state p.pending p hi rfl
  have hk : KeepsP c storeH p.state p (removeExpired c p) := by
    unfold removeExpired
    exact ⟨⟨h.inv.size, h.inv.sorted, h.inv.disj, h.inv.proven, h.inv.buf⟩, h.state, h.committed, h.buffer,
      h.sub, h.keep, h.head⟩
  refine ⟨hk, ?_⟩
  unfold Fresh
  rw [hk.state]
  cases hpd : (removeExpired c p).pending with
  | nil => intro x hx; simp at hx
  | cons y ys =>
    have hs := hk.inv.sorted
    have hp := hk.inv.proven
    rw [hpd] at hs hp
    exact fresh_of_head c hm hs hp (hk.head y ys hpd)

theorem addEvidence_keeps {storeH : Int} {p : Pool} (e : Ev) (hi : PoolInv c storeH p) :
    Keeps c storeH p (addEvidence c storeH p e).1 := by
  unfold addEvidence
  split
  · exact Keeps.refl c hi
  · split
    · exact Keeps.refl c hi
    · split
      · exact Keeps.refl c hi
      · rename_i hp hc _ _ hv
        exact Keeps.add c hi (by simpa using hp) (by simpa using hc) hv

/-! ### NewPool: the counter is 0 while expired items are removed, then set -/

def SameBut (p q : Pool) : Prop :=
  p.pending = q.pending ∧ p.committed = q.committed ∧ p.buffer = q.buffer ∧ p.state = q.state

theorem removeExpiredLoop_sameBut (st : State) (l : List Ev) :
    ∀ p q, SameBut p q → SameBut (removeExpiredLoop c st p l).1 (removeExpiredLoop c st q l).1 := by
  induction l with
  | nil => intro p q h; simpa [removeExpiredLoop] using h
  | cons e rest ih =>
    intro p q h
    unfold removeExpiredLoop
    split
    · exact h
    · apply ih
      obtain ⟨h1, h2, h3, h4⟩ := h
      exact ⟨by simp [h1], by simp [h2], by simp [h3], by simp [h4]⟩

theorem newPool_spec {storeH : Int} (hm : MonoTime c) {p : Pool} (st : State) (hi : PoolInv c storeH p) :
    let q := newPool c st p.pending p.committed
    PoolInv c storeH q ∧ Fresh q ∧ q.state = st ∧ q.committed = p.committed ∧ q.buffer = [] ∧
    (∀ x ∈ q.pending, x ∈ p.pending) ∧
    (∀ x ∈ p.pending, x ∈ q.pending ∨ expired st x.height x.time = true) := by
  intro q
  -- the same walk on a pool whose counter is right
  let p1 : Pool := { pending := p.pending, committed := p.committed, size := u32 p.pending.length,
                     buffer := [], state := st, pruneH := 0, pruneT := 0 }
  have hi1 : PoolInv c storeH p1 := ⟨rfl, hi.sorted, hi.disj, hi.proven, by intro pr h; simp [p1] at h⟩
  obtain ⟨hk, hf⟩ := removeExpired_spec c hm hi1
  let p0 : Pool := { pending := p.pending, committed := p.committed, size := 0, buffer := [], state := st,
                     pruneH := 0, pruneT := 0 }
  have hsb : SameBut (removeExpired c p0) (removeExpired c p1) := by
    have := removeExpiredLoop_sameBut c st p.pending p0 p1 ⟨rfl, rfl, rfl, rfl⟩
    simpa [removeExpired, SameBut, p0, p1] using this
  obtain ⟨e1, e2, e3, e4⟩ := hsb
  have hq : q = { removeExpired c p0 with size := u32 (removeExpired c p0).pending.length } := rfl
  have q1 : q.pending = (removeExpired c p1).pending := by rw [hq]; exact e1
  have q2 : q.committed = (removeExpired c p1).committed := by rw [hq]; exact e2
  have q3 : q.buffer = (removeExpired c p1).buffer := by rw [hq]; exact e3
  have q4 : q.state = (removeExpired c p1).state := by rw [hq]; exact e4
  refine ⟨⟨?_, ?_, ?_, ?_, ?_⟩, ?_, ?_, ?_, ?_, ?_, ?_⟩
  · rw [hq]
  · rw [q1]; exact hk.inv.sorted
  · rw [q1, q2]; exact hk.inv.disj
  · rw [q1]; exact hk.inv.proven
  · rw [q3, hk.buffer]; intro pr h; simp [p1] at h
  · unfold Fresh; rw [q1, q4]; exact hf
  · rw [q4, hk.state]
  · rw [q2, hk.committed]
  · rw [q3, hk.buffer]
  · rw [q1]; exact hk.sub
  · rw [q1]; exact hk.keep

/-! ### Update -/

theorem u32_small {n : Nat} (h : n < 4294967296) : u32 n = n := by unfold u32; omega

structure UpdateOk (storeH h : Int) (p q : Pool) (evs : List Ev) : Prop where
  inv : PoolInv c storeH q
  fresh : q.pending.length < 4294967296 → Fresh q
  state : q.state = stateAt c h
  buffer : q.buffer = []
  marked : ∀ e ∈ evs, key c e ∈ q.committed
  comm : ∀ k ∈ p.committed, k ∈ q.committed
  keep : ∀ x ∈ p.pending, x ∈ q.pending ∨ key c x ∈ q.committed ∨
          expired (stateAt c h) x.height x.time = true
  flushed : ∀ pr ∈ p.buffer, ∀ d, formEvidence c storeH (stateAt c h) pr.1 pr.2 = some (some d) →
          isPending c q (.dv d) = true ∨ key c (.dv d) ∈ q.committed ∨
          expired (stateAt c h) (Ev.dv d).height (Ev.dv d).time = true

theorem update_spec {storeH h : Int} (hm : MonoTime c) (hh : h ≤ storeH) {p : Pool} (evs : List Ev)
    (hi : PoolInv c storeH p) :
    PoolInv c storeH (update c storeH p (stateAt c h) evs).1 ∧
    ((update c storeH p (stateAt c h) evs).2 = .ok ∨ (update c storeH p (stateAt c h) evs).2 = .panicked) ∧
    (∀ k ∈ p.committed, k ∈ (update c storeH p (stateAt c h) evs).1.committed) ∧
    (∀ x ∈ p.pending, x ∈ (update c storeH p (stateAt c h) evs).1.pending ∨
        (update c storeH p (stateAt c h) evs).2 = .ok) ∧
    ((update c storeH p (stateAt c h) evs).2 = .ok →
      UpdateOk c storeH h p (update c storeH p (stateAt c h) evs).1 evs) := by
  unfold update
  split
  · exact ⟨hi, Or.inr rfl, fun _ h => h, fun _ h => Or.inl h, fun h => by cases h⟩
  · have hfl := flushBuffer_keeps c hh p.buffer p hi hi.buf
    have hfp := flushBuffer_pending c hh p.buffer p hi hi.buf
    split
    · rename_i p1 heq
      have e1 : (flushBuffer c storeH (stateAt c h) p p.buffer).1 = p1 := by rw [heq]
      rw [e1] at hfl
      exact ⟨hfl.inv, Or.inr rfl, fun k hk => by rw [hfl.committed]; exact hk,
        fun x hx => Or.inl (hfl.mem x hx), fun h => by cases h⟩
    · rename_i p1 heq
      have e1 : (flushBuffer c storeH (stateAt c h) p p.buffer).1 = p1 := by rw [heq]
      have e2 : (flushBuffer c storeH (stateAt c h) p p.buffer).2 = false := by rw [heq]
      rw [e1] at hfl hfp
      have hfp := hfp e2
      have hdt : ∀ pr ∈ p.buffer, ∀ d, formEvidence c storeH (stateAt c h) pr.1 pr.2 = some (some d) →
          Proves c storeH (.dv d) := by
        intro pr hpr d hf
        obtain ⟨b, hb, hle, hd⟩ := formEvidence_some c hh hf
        exact formed_proves c (storeH := storeH) hb (by omega) (hi.buf pr hpr) hd
      dsimp only
      -- state switched, buffer emptied
      have hi2 : PoolInv c storeH { p1 with buffer := [], state := stateAt c h } :=
        ⟨hfl.inv.size, hfl.inv.sorted, hfl.inv.disj, hfl.inv.proven, by intro pr h; simp at h⟩
      obtain ⟨hkc, hmk⟩ := markCommitted_spec c evs _ hi2
      have hcomm1 : ∀ k ∈ p.committed, k ∈ (markCommitted c { p1 with buffer := [], state := stateAt c h } evs).committed := by
        intro k hk; apply hkc.comm; show k ∈ p1.committed; rw [hfl.committed]; exact hk
      have hkeep1 : ∀ x ∈ p.pending,
          x ∈ (markCommitted c { p1 with buffer := [], state := stateAt c h } evs).pending ∨
          key c x ∈ (markCommitted c { p1 with buffer := [], state := stateAt c h } evs).committed :=
        fun x hx => hkc.keep x (hfl.mem x hx)
      have hflushed1 : ∀ pr ∈ p.buffer, ∀ d,
          formEvidence c storeH (stateAt c h) pr.1 pr.2 = some (some d) →
          (∃ y ∈ (markCommitted c { p1 with buffer := [], state := stateAt c h } evs).pending, key c y = key c (.dv d)) ∨
          key c (.dv d) ∈ (markCommitted c { p1 with buffer := [], state := stateAt c h } evs).committed := by
        intro pr hpr d hf
        rcases hfp pr hpr d hf with h1 | h1
        · obtain ⟨y, hy, hye⟩ := (isPending_iff c p1 _).1 h1
          rcases hkc.keep y hy with h2 | h2
          · exact Or.inl ⟨y, h2, hye⟩
          · exact Or.inr (by rw [← hye]; exact h2)
        · exact Or.inr (hcomm1 _ ((isCommitted_iff c p _).1 h1))
      generalize hp3 : markCommitted c { p1 with buffer := [], state := stateAt c h } evs = p3 at *
      have hst3 : p3.state = stateAt c h := hkc.state
      have hbuf3 : p3.buffer = [] := hkc.buffer
      split
      · -- pruned
        obtain ⟨hkp, hfr⟩ := removeExpired_spec c hm hkc.inv
        rw [hst3] at hkp
        refine ⟨hkp.inv, Or.inl rfl, fun k hk => by rw [hkp.committed]; exact hcomm1 k hk,
          fun _ _ => Or.inr rfl, fun _ => ?_⟩
        refine ⟨hkp.inv, fun _ => hfr, hkp.state.trans hst3, hkp.buffer.trans hbuf3,
          fun e he => by rw [hkp.committed]; exact hmk e he,
          fun k hk => by rw [hkp.committed]; exact hcomm1 k hk, ?_, ?_⟩
        · intro x hx
          rcases hkeep1 x hx with h1 | h1
          · rcases hkp.keep x h1 with h2 | h2
            · exact Or.inl h2
            · exact Or.inr (Or.inr h2)
          · exact Or.inr (Or.inl (by rw [hkp.committed]; exact h1))
        · intro pr hpr d hf
          rcases hflushed1 pr hpr d hf with ⟨y, hy, hye⟩ | h1
          · rcases hkp.keep y hy with h2 | h2
            · exact Or.inl ((isPending_iff c _ _).2 ⟨y, h2, hye⟩)
            · right; right
              have hpy := hkc.inv.proven y hy
              have hpd := hdt pr hpr d hf
              have hh2 : y.height = (Ev.dv d).height := congrArg Prod.fst hye
              obtain ⟨b1, hb1, ht1⟩ := proves_block c hpy
              obtain ⟨b2, hb2, ht2⟩ := proves_block c hpd
              rw [hh2, hb2] at hb1
              have hbb : b2 = b1 := Option.some.inj hb1
              rw [← hh2, ← ht2, hbb, ht1]
              exact h2
          · exact Or.inr (Or.inl (by rw [hkp.committed]; exact h1))
      · rename_i hsz
        refine ⟨hkc.inv, Or.inl rfl, hcomm1, fun _ _ => Or.inr rfl, fun _ => ?_⟩
        refine ⟨hkc.inv, ?_, hst3, hbuf3, hmk, hcomm1, ?_, ?_⟩
        · intro hlen x hx
          have hs := hkc.inv.size
          rw [u32_small hlen] at hs
          have hsz' : ¬ p3.size > 0 := by assumption
          simp only at hs hlen hx
          have : p3.pending.length = 0 := by omega
          have : p3.pending = [] := List.length_eq_zero_iff.1 this
          rw [this] at hx; simp at hx
        · intro x hx
          rcases hkeep1 x hx with h1 | h1
          · exact Or.inl h1
          · exact Or.inr (Or.inl h1)
        · intro pr hpr d hf
          rcases hflushed1 pr hpr d hf with ⟨y, hy, hye⟩ | h1
          · exact Or.inl ((isPending_iff c _ _).2 ⟨y, hy, hye⟩)
          · exact Or.inr (Or.inl h1)

/-! ### the system: every reachable state satisfies the invariant -/

structure Inv (s : Sys) : Prop where
  pool : PoolInv c s.storeH s.pool
  fresh : s.dead = false → s.pool.pending.length < 4294967296 → Fresh s.pool

/-- consensus reports only genuine conflicting votes (it verified the signatures) -/
def GoodOp : Op → Prop
  | .report v1 v2 => GoodPair c v1 v2
  | _ => True

theorem PoolInv_mono {s1 s2 : Int} {p : Pool} (hs : s1 ≤ s2) (h : PoolInv c s1 p) : PoolInv c s2 p :=
  ⟨h.size, h.sorted, h.disj, fun e he => Proves_mono c hs (h.proven e he), h.buf⟩

theorem Res_not_panicked {r : Res} (h : r = .ok ∨ r = .panicked) (hb : (r == .panicked) = false) : r = .ok := by
  rcases h with h | h
  · exact h
  · subst h; simp at hb

theorem stepLive_inv (hm : MonoTime c) {s : Sys} (o : Op) (hi : Inv c s) (hg : GoodOp c o)
    (hd : s.dead = false ∨ (∃ h, o = .grow h) ∨ o = .restart ∨ o = .replay) : Inv c (stepLive c s o).1 := by
  cases o with
  | grow h =>
    simp only [stepLive]
    split
    · rename_i hcg
      simp [canGrow] at hcg
      exact ⟨PoolInv_mono c hcg.1 hi.pool, hi.fresh⟩
    · exact hi
  | add e =>
    have hdd : s.dead = false := by rcases hd with h | ⟨_, h⟩ | h | h <;> first | exact h | cases h
    have hk := addEvidence_keeps c e hi.pool
    simp only [stepLive]
    exact ⟨hk.inv, fun _ hl => hk.fresh (hi.fresh hdd (Nat.lt_of_le_of_lt hk.len hl))⟩
  | check l =>
    have hdd : s.dead = false := by rcases hd with h | ⟨_, h⟩ | h | h <;> first | exact h | cases h
    have hk := checkLoop_keeps c l s.pool [] hi.pool
    simp only [stepLive]
    exact ⟨hk.inv, fun _ hl => hk.fresh (hi.fresh hdd (Nat.lt_of_le_of_lt hk.len hl))⟩
  | update h evs =>
    simp only [stepLive]
    split
    · rename_i hh
      obtain ⟨h1, h2, _, _, h5⟩ := update_spec c hm hh evs hi.pool
      refine ⟨h1, fun hdead hl => ?_⟩
      have hok := Res_not_panicked h2 hdead
      exact (h5 hok).fresh hl
    · exact hi
  | report v1 v2 =>
    simp only [stepLive]
    refine ⟨⟨hi.pool.size, hi.pool.sorted, hi.pool.disj, hi.pool.proven, ?_⟩, hi.fresh⟩
    intro pr hpr
    simp [report] at hpr
    rcases hpr with hpr | hpr
    · exact hi.pool.buf pr hpr
    · subst hpr; exact hg
  | restart =>
    simp only [stepLive]
    obtain ⟨h1, h2, _⟩ := newPool_spec c hm (stateAt c s.stateH) hi.pool
    exact ⟨h1, fun _ _ => h2⟩
  | saveBlock h =>
    simp only [stepLive]
    split
    · rename_i hcg
      simp [canGrow] at hcg
      exact ⟨PoolInv_mono c hcg.1 hi.pool, hi.fresh⟩
    · exact hi
  | saveState h =>
    simp only [stepLive]
    split
    · exact ⟨hi.pool, hi.fresh⟩
    · exact hi
  | replay =>
    simp only [stepLive]
    split
    · exact ⟨hi.pool, hi.fresh⟩
    · exact hi

theorem step_inv (hm : MonoTime c) {s : Sys} (o : Op) (hi : Inv c s) (hg : GoodOp c o) :
    Inv c (step c s o).1 := by
  unfold step
  cases hd : s.dead with
  | false => exact stepLive_inv c hm o hi hg (Or.inl hd)
  | true =>
    cases o with
    | restart => exact stepLive_inv c hm _ hi hg (Or.inr (Or.inr (Or.inl rfl)))
    | grow h => exact stepLive_inv c hm _ hi hg (Or.inr (Or.inl ⟨h, rfl⟩))
    | replay => exact stepLive_inv c hm _ hi hg (Or.inr (Or.inr (Or.inr rfl)))
    | add e => exact hi
    | check l => exact hi
    | update h evs => exact hi
    | report v1 v2 => exact hi
    | saveBlock h => exact hi
    | saveState h => exact hi

/-- states reachable from a fresh pool by any sequence of operations, consensus reporting genuine
vote pairs -/
inductive Reach : Sys → Prop
  | init (h0 : Int) : Reach (initSys c h0)
  | step {s : Sys} (o : Op) : Reach s → GoodOp c o → Reach (step c s o).1

theorem init_inv (hm : MonoTime c) (h0 : Int) : Inv c (initSys c h0) := by
  let p : Pool := { pending := [], committed := [], size := 0, buffer := [], state := stateAt c h0,
                    pruneH := 0, pruneT := 0 }
  have hp : PoolInv c h0 p := ⟨rfl, List.Pairwise.nil, by intro e h; simp [p] at h, by intro e h; simp [p] at h,
    by intro e h; simp [p] at h⟩
  obtain ⟨h1, h2, _⟩ := newPool_spec c hm (stateAt c h0) hp
  exact ⟨h1, fun _ _ => h2⟩

theorem reach_inv (hm : MonoTime c) {s : Sys} (hr : Reach c s) : Inv c s := by
  induction hr with
  | init h0 => exact init_inv c hm h0
  | step o _ hg ih => exact step_inv c hm o ih hg

theorem checkLoop_complete {storeH : Int} (l : List Ev) :
    ∀ (p : Pool) (seen : List Nat), PoolInv c storeH p →
      (∀ e ∈ l, (e.isLCA = false ∧ isPending c p e = true) ∨
        (isCommitted c p e = false ∧ verify c storeH p.state e = .ok ())) →
      (l.map c.H).Nodup → (∀ e ∈ l, c.H e ∉ seen) →
      (checkLoop c storeH p seen l).2 = .ok := by
  induction l with
  | nil => intro p seen _ _ _ _; simp [checkLoop]
  | cons e rest ih =>
    intro p seen hi hall hnd hseen
    have he := hall e (by simp)
    have hns : seen.contains (c.H e) = false := by
      simpa using hseen e (by simp)
    simp only [List.map_cons, List.nodup_cons] at hnd
    -- what the recursive call needs, for any pool the head step leaves
    have hrec : ∀ p', Keeps c storeH p p' → (checkLoop c storeH p' (c.H e :: seen) rest).2 = .ok := by
      intro p' hk
      apply ih p' _ hk.inv
      · intro x hx
        rcases hall x (by simp [hx]) with ⟨h1, h2⟩ | ⟨h1, h2⟩
        · exact Or.inl ⟨h1, hk.grows x h2⟩
        · refine Or.inr ⟨?_, by rw [hk.state]; exact h2⟩
          simp only [isCommitted] at h1 ⊢; rw [hk.committed]; exact h1
      · exact hnd.2
      · intro x hx
        simp only [List.mem_cons, not_or]
        refine ⟨?_, hseen x (by simp [hx])⟩
        intro hxe
        exact hnd.1 (by rw [← hxe]; exact List.mem_map_of_mem hx)
    unfold checkLoop
    simp only
    split
    · rename_i p' r hstep
      split at hstep
      · rename_i hcond
        rcases he with ⟨h1, h2⟩ | ⟨h1, h2⟩
        · simp [h1, h2] at hcond
        · simp [h1, h2] at hstep
      · simp at hstep
    · rename_i p' hstep
      rw [hns]
      simp only [Bool.false_eq_true, ↓reduceIte]
      apply hrec
      split at hstep
      · rcases he with ⟨h1, h2⟩ | ⟨h1, h2⟩
        · rename_i hcond; simp [h1, h2] at hcond
        · simp [h1, h2] at hstep
          rw [← hstep]
          split
          · exact Keeps.refl c hi
          · rename_i hp
            exact Keeps.add c hi (by simpa using hp) h1 h2
      · simp at hstep; rw [← hstep]; exact Keeps.refl c hi

end Tmv.Evidence
