import Tmv.Model.StateProviderLight
import Tmv.Lemmas.LightInv
/-! Helper lemmas for C14 on top of C09's lemmas: the light block RETURNED by
`VerifyLightBlockAtHeight` (not only what it stores) is reachable from the trust root. -/
namespace Tmv.Light

theorem verifyLightBlock_ok_reach {cfg : Config} {root : Hash → Prop} {c : Client} {new : LightBlock} {now : Int}
    {c' : Client} (h : Inv cfg root c) (e : verifyLightBlock c new now = (c', .ok ())) : Reach cfg root new := by
  unfold verifyLightBlock at e
  split at e
  · obtain ⟨_, h2⟩ := Prod.mk.inj e; cases h2
  · rename_i latest hl
    have hrl : Reach cfg root latest := h.2.2 latest hl
    simp only at e
    generalize hp : (if new.height ≥ latest.height then
        if c.cfg.sequential = true then verifySequential c latest new now
        else verifySkippingAgainstPrimary now latest c.cfg.fuel c new
      else if new.height < c.store.firstHeight then
        match c.store.get c.store.firstHeight with
        | none => (c, Except.error (Err.msg "first"))
        | some fb => backwards c.cfg.fuel c fb new
      else
        match c.store.before new.height with
        | none => (c, Except.error (Err.msg "before"))
        | some cb =>
          if c.cfg.sequential = true then verifySequential c cb new now
          else verifySkippingAgainstPrimary now cb c.cfg.fuel c new) = p at e
    obtain ⟨c1, r1⟩ := p
    have key : SameTrust c c1 ∧ (r1 = .ok () → Reach cfg root new) := by
      split at hp
      · split at hp
        · exact verifySequential_spec cfg root h.1 hrl hp
        · exact vsap_spec cfg root now latest _ _ _ _ _ h.1 hrl hp
      · split at hp
        · split at hp
          · obtain ⟨rfl, rfl⟩ := Prod.mk.inj hp
            exact ⟨⟨rfl, rfl, rfl⟩, fun h => by cases h⟩
          · rename_i fb hfb
            exact backwards_spec cfg root _ _ _ _ _ _ (h.2.1 fb (store_get_mem hfb)) hp
        · split at hp
          · obtain ⟨rfl, rfl⟩ := Prod.mk.inj hp
            exact ⟨⟨rfl, rfl, rfl⟩, fun h => by cases h⟩
          · rename_i cb hcb
            have hrc := h.2.1 cb (store_before_mem hcb)
            split at hp
            · exact verifySequential_spec cfg root h.1 hrc hp
            · exact vsap_spec cfg root now cb _ _ _ _ _ h.1 hrc hp
    simp only at e
    split at e
    · obtain ⟨_, h2⟩ := Prod.mk.inj e; cases h2
    · rename_i u
      cases u
      exact key.2 rfl

/-- what `VerifyLightBlockAtHeight` hands to its caller is reachable from the trust root, and the
client keeps its invariant -/
theorem verifyLightBlockAtHeight_ok_reach {cfg : Config} {root : Hash → Prop} {c : Client} {height now : Int}
    {c' : Client} {l : LightBlock} (h : Inv cfg root c)
    (e : verifyLightBlockAtHeight c height now = (c', .ok l)) : Reach cfg root l := by
  unfold verifyLightBlockAtHeight at e
  split at e
  · obtain ⟨_, h2⟩ := Prod.mk.inj e; cases h2
  · simp only at e
    split at e
    · rename_i b hb
      obtain ⟨_, h2⟩ := Prod.mk.inj e
      injection h2 with h2
      subst h2
      have hget : c.store.get height = some b := by
        split at hb
        · cases hb
        · split at hb
          · cases hb
          · exact hb
      exact h.2.1 b (store_get_mem hget)
    · split at e
      · obtain ⟨_, h2⟩ := Prod.mk.inj e; cases h2
      · rename_i c1 l1 hl
        have h1 := h.of_same (lightBlockFromPrimary_same hl)
        split at e
        · obtain ⟨_, h2⟩ := Prod.mk.inj e; cases h2
        · rename_i c2 u hv
          obtain ⟨_, h2⟩ := Prod.mk.inj e
          injection h2 with h2
          subst h2
          cases u
          exact verifyLightBlock_ok_reach h1 hv

end Tmv.Light

namespace Tmv.StateSync
open Tmv.Light

theorem vlb_spec {cfg : Config} {root : Hash → Prop} {c : Client} (s : List Prov → List Nat) (h : Nat) (now : Int)
    (hinv : Inv cfg root c) :
    Inv cfg root (vlb c s h now).1 ∧ ∀ l, (vlb c s h now).2 = .ok l → Reach cfg root l := by
  have h' : Inv cfg root { c with sched := s } := ⟨hinv.1, hinv.2.1, hinv.2.2⟩
  unfold vlb
  refine ⟨verifyLightBlockAtHeight_inv h' (Prod.ext rfl rfl), ?_⟩
  intro l hl
  exact verifyLightBlockAtHeight_ok_reach h' (Prod.ext rfl hl)

theorem res_ok {v : LightView} {r : Except Light.Err Light.LightBlock} {b : LightBlock} (h : v.res r = .ok b) :
    ∃ l, r = .ok l ∧ b = v.block l := by
  cases r with
  | ok l => exact ⟨l, rfl, by simpa [LightView.res] using h.symm⟩
  | error e => cases e <;> simp [LightView.res] at h

end Tmv.StateSync
