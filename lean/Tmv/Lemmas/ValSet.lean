import Tmv.Model.ValSet
/-! Lemmas for the C08 validator-set model: insertion sort, the scan of `processChanges`,
order-independence of `updateWithChangeSet`. -/
namespace Tmv.ValSet

theorem maxTotal_eq : maxTotal = 1152921504606846975 := rfl
theorem windowFactor_eq : windowFactor = 2 := rfl

/-! ### insertion sort -/

theorem insertBy_perm (le : Val → Val → Bool) (x : Val) (l : List Val) :
    (insertBy le x l).Perm (x :: l) := by
  induction l with
  | nil => exact List.Perm.refl _
  | cons y ys ih =>
    unfold insertBy
    split
    · exact List.Perm.refl _
    · exact (List.Perm.cons y ih).trans (List.Perm.swap x y ys)

theorem sortBy_perm (le : Val → Val → Bool) (l : List Val) : (sortBy le l).Perm l := by
  induction l with
  | nil => exact List.Perm.refl _
  | cons x xs ih =>
    unfold sortBy
    exact (insertBy_perm le x _).trans (List.Perm.cons x ih)

theorem insertBy_pairwise (le : Val → Val → Bool)
    (htot : ∀ a b, le a b = true ∨ le b a = true)
    (htr : ∀ a b c, le a b = true → le b c = true → le a c = true)
    (x : Val) (l : List Val) (hl : l.Pairwise (fun a b => le a b = true)) :
    (insertBy le x l).Pairwise (fun a b => le a b = true) := by
  induction l with
  | nil => simp [insertBy]
  | cons y ys ih =>
    unfold insertBy
    rw [List.pairwise_cons] at hl
    split
    · rename_i hxy
      rw [List.pairwise_cons]
      refine ⟨?_, List.pairwise_cons.mpr hl⟩
      intro z hz
      rcases List.mem_cons.mp hz with e | hz'
      · rw [e]; exact hxy
      · exact htr _ _ _ hxy (hl.1 z hz')
    · rename_i hxy
      have hyx : le y x = true := by
        rcases htot x y with h | h
        · exact absurd h hxy
        · exact h
      rw [List.pairwise_cons]
      refine ⟨?_, ih hl.2⟩
      intro z hz
      have := (insertBy_perm le x ys).mem_iff.mp hz
      rcases List.mem_cons.mp this with e | hz'
      · rw [e]; exact hyx
      · exact hl.1 z hz'

theorem sortBy_pairwise (le : Val → Val → Bool)
    (htot : ∀ a b, le a b = true ∨ le b a = true)
    (htr : ∀ a b c, le a b = true → le b c = true → le a c = true)
    (l : List Val) : (sortBy le l).Pairwise (fun a b => le a b = true) := by
  induction l with
  | nil => simp [sortBy]
  | cons x xs ih => unfold sortBy; exact insertBy_pairwise le htot htr x _ ih

theorem leAddr_total (a b : Val) : leAddr a b = true ∨ leAddr b a = true := by
  simp only [leAddr, decide_eq_true_eq]; omega
theorem leAddr_trans (a b c : Val) (h1 : leAddr a b = true) (h2 : leAddr b c = true) :
    leAddr a c = true := by
  simp only [leAddr, decide_eq_true_eq] at *; omega

theorem lePower_total (a b : Val) : lePower a b = true ∨ lePower b a = true := by
  simp only [lePower, decide_eq_true_eq]; omega
theorem lePower_trans (a b c : Val) (h1 : lePower a b = true) (h2 : lePower b c = true) :
    lePower a c = true := by
  simp only [lePower, decide_eq_true_eq] at *; omega

theorem nodup_map_inj (l : List Val) (hnd : (l.map (·.addr)).Nodup) (a b : Val)
    (ha : a ∈ l) (hb : b ∈ l) (hab : a.addr = b.addr) : a = b := by
  induction l with
  | nil => cases ha
  | cons x xs ih =>
    simp only [List.map_cons, List.nodup_cons] at hnd
    rcases List.mem_cons.mp ha with e1 | ha'
    · rcases List.mem_cons.mp hb with e2 | hb'
      · rw [e1, e2]
      · exfalso; apply hnd.1; rw [← e1, hab]; exact List.mem_map.mpr ⟨b, hb', rfl⟩
    · rcases List.mem_cons.mp hb with e2 | hb'
      · exfalso; apply hnd.1; rw [← e2, ← hab]; exact List.mem_map.mpr ⟨a, ha', rfl⟩
      · exact ih hnd.2 ha' hb'

/-- sorting by address is a function of the multiset when addresses are unique -/
theorem sortBy_leAddr_perm_eq (l1 l2 : List Val) (hp : l1.Perm l2)
    (hnd : (l1.map (·.addr)).Nodup) : sortBy leAddr l1 = sortBy leAddr l2 := by
  have hinj : ∀ a b, a ∈ l1 → b ∈ l1 → a.addr = b.addr → a = b := by
    intro a b ha hb hab
    exact nodup_map_inj l1 hnd a b ha hb hab
  apply List.Perm.eq_of_pairwise (le := fun a b => leAddr a b = true)
  · intro a b ha hb h1 h2
    have ha' : a ∈ l1 := (sortBy_perm leAddr l1).mem_iff.mp ha
    have hb' : b ∈ l1 := hp.mem_iff.mpr ((sortBy_perm leAddr l2).mem_iff.mp hb)
    apply hinj a b ha' hb'
    simp only [leAddr, decide_eq_true_eq] at h1 h2; omega
  · exact sortBy_pairwise leAddr leAddr_total leAddr_trans l1
  · exact sortBy_pairwise leAddr leAddr_total leAddr_trans l2
  · exact (sortBy_perm leAddr l1).trans (hp.trans (sortBy_perm leAddr l2).symm)

/-! ### the scan of `processChanges` fails on duplicate addresses -/

theorem scanChanges_dup (l : List Val) (prev : Option Nat)
    (hs : l.Pairwise (fun a b => leAddr a b = true))
    (hd : ¬ (l.map (·.addr)).Nodup) : ∃ e, scanChanges prev l = .error e := by
  induction l generalizing prev with
  | nil => simp at hd
  | cons v rest ih =>
    rw [List.pairwise_cons] at hs
    simp only [List.map_cons, List.nodup_cons] at hd
    have hd : v.addr ∈ rest.map (·.addr) ∨ ¬ (rest.map (·.addr)).Nodup := by
      by_cases hm : v.addr ∈ rest.map (·.addr)
      · exact Or.inl hm
      · exact Or.inr (fun hn => hd ⟨hm, hn⟩)
    unfold scanChanges
    split
    · exact ⟨_, rfl⟩
    · split
      · exact ⟨_, rfl⟩
      · split
        · exact ⟨_, rfl⟩
        · have hrest : ∃ e, scanChanges (some v.addr) rest = .error e := by
            rcases hd with hmem | hnd
            · -- v's address occurs again: the next element has the same address
              cases rest with
              | nil => simp at hmem
              | cons w rest' =>
                have hw : w.addr = v.addr := by
                  obtain ⟨b, hb, hbv⟩ := List.mem_map.mp hmem
                  have h1 := hs.1 w (List.mem_cons_self)
                  have h2 := hs.1 b hb
                  simp only [leAddr, decide_eq_true_eq] at h1 h2
                  rcases List.mem_cons.mp hb with e | hb'
                  · rw [← e]; exact hbv
                  · have h3 := (List.pairwise_cons.mp hs.2).1 b hb'
                    simp only [leAddr, decide_eq_true_eq] at h3
                    omega
                unfold scanChanges
                simp [hw]
            · exact ih _ hs.2 hnd
          obtain ⟨e, he⟩ := hrest
          rw [he]
          exact ⟨e, rfl⟩

/-! ### the pieces of a successful update -/

/-- strictly ascending addresses -/
def SAddr (l : List Val) : Prop := l.Pairwise (fun a b => a.addr < b.addr)

theorem SAddr.nodup {l : List Val} (h : SAddr l) : (l.map (·.addr)).Nodup := by
  unfold SAddr at h
  rw [List.Nodup, List.pairwise_map]
  exact h.imp (fun hab => by omega)

theorem sAddr_of_sorted_nodup (l : List Val) (hs : l.Pairwise (fun a b => leAddr a b = true))
    (hn : (l.map (·.addr)).Nodup) : SAddr l := by
  unfold SAddr
  rw [List.Nodup, List.pairwise_map] at hn
  exact (hs.and hn).imp (fun ⟨h1, h2⟩ => by simp only [leAddr, decide_eq_true_eq] at h1; omega)

theorem scanChanges_ok (l : List Val) (prev : Option Nat) (u d : List Val)
    (hs : l.Pairwise (fun a b => leAddr a b = true)) (h : scanChanges prev l = .ok (u, d)) :
    (∀ w, l.head? = some w → some w.addr ≠ prev) ∧ SAddr l ∧ u.Sublist l ∧ d.Sublist l ∧
    (∀ v ∈ u, 0 < v.power ∧ v.power ≤ maxTotal) ∧ (∀ v ∈ d, v.power = 0) ∧
    (∀ v ∈ l, v ∈ u ∨ v ∈ d) := by
  induction l generalizing prev u d with
  | nil =>
    simp only [scanChanges, Except.ok.injEq, Prod.mk.injEq] at h
    obtain ⟨rfl, rfl⟩ := h
    simp [SAddr]
  | cons v rest ih =>
    rw [List.pairwise_cons] at hs
    unfold scanChanges at h
    split at h
    · cases h
    · rename_i hprev
      split at h
      · cases h
      · rename_i hneg
        split at h
        · cases h
        · rename_i hbig
          split at h
          · cases h
          · rename_i u' d' hrec
            obtain ⟨ih1, ih2, ih3, ih4, ih5, ih6, ih7⟩ := ih (some v.addr) u' d' hs.2 hrec
            have hstrict : SAddr (v :: rest) := by
              unfold SAddr
              rw [List.pairwise_cons]
              refine ⟨?_, ih2⟩
              intro w hw
              cases rest with
              | nil => cases hw
              | cons w0 rest' =>
                have h0 : some w0.addr ≠ some v.addr := ih1 w0 rfl
                have h0' : w0.addr ≠ v.addr := fun e => h0 (by rw [e])
                have h1 := hs.1 w0 List.mem_cons_self
                simp only [leAddr, decide_eq_true_eq] at h1
                rcases List.mem_cons.mp hw with e | hw'
                · rw [e]; omega
                · have := (List.pairwise_cons.mp ih2).1 w hw'
                  omega
            have hhead : ∀ w, (v :: rest).head? = some w → some w.addr ≠ prev := by
              intro w hw; simp only [List.head?_cons, Option.some.injEq] at hw
              rw [← hw]; exact hprev
            split at h
            · rename_i hz
              simp only [Except.ok.injEq, Prod.mk.injEq] at h
              obtain ⟨rfl, rfl⟩ := h
              refine ⟨hhead, hstrict, ih3.cons _, ih4.cons₂ _, ih5, ?_, ?_⟩
              · intro x hx
                rcases List.mem_cons.mp hx with e | hx'
                · rw [e]; exact hz
                · exact ih6 x hx'
              · intro x hx
                rcases List.mem_cons.mp hx with e | hx'
                · right; rw [e]; exact List.mem_cons_self
                · rcases ih7 x hx' with h1 | h1
                  · left; exact h1
                  · right; exact List.mem_cons_of_mem _ h1
            · rename_i hz
              simp only [Except.ok.injEq, Prod.mk.injEq] at h
              obtain ⟨rfl, rfl⟩ := h
              refine ⟨hhead, hstrict, ih3.cons₂ _, ih4.cons _, ?_, ih6, ?_⟩
              · intro x hx
                rcases List.mem_cons.mp hx with e | hx'
                · rw [e]; omega
                · exact ih5 x hx'
              · intro x hx
                rcases List.mem_cons.mp hx with e | hx'
                · left; rw [e]; exact List.mem_cons_self
                · rcases ih7 x hx' with h1 | h1
                  · left; exact List.mem_cons_of_mem _ h1
                  · right; exact h1

theorem mergeUpd_mem (f : Nat) (es us : List Val) :
    ∀ x, x ∈ mergeUpd f es us → x ∈ es ∨ x ∈ us := by
  induction f generalizing es us with
  | zero => intro x hx; simpa [mergeUpd] using hx
  | succ n ih =>
    intro x hx
    cases es with
    | nil => simp only [mergeUpd] at hx; exact Or.inr hx
    | cons e es' =>
      cases us with
      | nil => simp only [mergeUpd] at hx; exact Or.inl hx
      | cons u us' =>
        simp only [mergeUpd] at hx
        split at hx
        · rcases List.mem_cons.mp hx with e1 | hx'
          · left; rw [e1]; exact List.mem_cons_self
          · rcases ih _ _ x hx' with h | h
            · left; exact List.mem_cons_of_mem _ h
            · right; exact h
        · split at hx
          · rcases List.mem_cons.mp hx with e1 | hx'
            · right; rw [e1]; exact List.mem_cons_self
            · rcases ih _ _ x hx' with h | h
              · left; exact List.mem_cons_of_mem _ h
              · right; exact List.mem_cons_of_mem _ h
          · rcases List.mem_cons.mp hx with e1 | hx'
            · right; rw [e1]; exact List.mem_cons_self
            · rcases ih _ _ x hx' with h | h
              · left; exact h
              · right; exact List.mem_cons_of_mem _ h

theorem mergeUpd_spec (f : Nat) (es us : List Val) (hf : es.length + us.length ≤ f)
    (he : SAddr es) (hu : SAddr us) :
    SAddr (mergeUpd f es us) ∧
    (∀ x ∈ mergeUpd f es us, x ∈ us ∨ (x ∈ es ∧ ∀ u ∈ us, u.addr ≠ x.addr)) ∧
    (∀ u ∈ us, u ∈ mergeUpd f es us) ∧
    (∀ e ∈ es, (∀ u ∈ us, u.addr ≠ e.addr) → e ∈ mergeUpd f es us) := by
  induction f generalizing es us with
  | zero =>
    have h1 : es = [] := List.eq_nil_of_length_eq_zero (by omega)
    have h2 : us = [] := List.eq_nil_of_length_eq_zero (by omega)
    subst h1; subst h2
    simp [mergeUpd, SAddr]
  | succ n ih =>
    cases es with
    | nil =>
      simp only [mergeUpd]
      exact ⟨hu, fun x hx => Or.inl hx, fun u hu' => hu', fun e he' => (by cases he')⟩
    | cons e es' =>
      cases us with
      | nil =>
        simp only [mergeUpd]
        exact ⟨he, fun x hx => Or.inr ⟨hx, fun u hu' => (by cases hu')⟩, fun u hu' => (by cases hu'),
          fun x hx _ => hx⟩
      | cons u us' =>
        have he' := List.pairwise_cons.mp he
        have hu' := List.pairwise_cons.mp hu
        simp only [List.length_cons] at hf
        simp only [mergeUpd]
        split
        · rename_i hlt
          obtain ⟨i1, i2, i3, i4⟩ := ih es' (u :: us') (by simp only [List.length_cons]; omega) he'.2 hu
          refine ⟨?_, ?_, ?_, ?_⟩
          · unfold SAddr; rw [List.pairwise_cons]
            refine ⟨?_, i1⟩
            intro x hx
            rcases mergeUpd_mem _ _ _ x hx with h | h
            · exact he'.1 x h
            · rcases List.mem_cons.mp h with e1 | h'
              · rw [e1]; exact hlt
              · have := hu'.1 x h'; omega
          · intro x hx
            rcases List.mem_cons.mp hx with e1 | hx'
            · right; rw [e1]
              refine ⟨List.mem_cons_self, ?_⟩
              intro w hw
              rcases List.mem_cons.mp hw with e2 | hw'
              · rw [e2]; omega
              · have := hu'.1 w hw'; omega
            · rcases i2 x hx' with h | ⟨h1, h2⟩
              · left; exact h
              · right; exact ⟨List.mem_cons_of_mem _ h1, h2⟩
          · intro w hw; exact List.mem_cons_of_mem _ (i3 w hw)
          · intro x hx hne
            rcases List.mem_cons.mp hx with e1 | hx'
            · rw [e1]; exact List.mem_cons_self
            · exact List.mem_cons_of_mem _ (i4 x hx' hne)
        · rename_i hnlt
          split
          · rename_i heq
            obtain ⟨i1, i2, i3, i4⟩ := ih es' us' (by omega) he'.2 hu'.2
            refine ⟨?_, ?_, ?_, ?_⟩
            · unfold SAddr; rw [List.pairwise_cons]
              refine ⟨?_, i1⟩
              intro x hx
              rcases mergeUpd_mem _ _ _ x hx with h | h
              · have := he'.1 x h; omega
              · exact hu'.1 x h
            · intro x hx
              rcases List.mem_cons.mp hx with e1 | hx'
              · left; rw [e1]; exact List.mem_cons_self
              · rcases i2 x hx' with h | ⟨h1, h2⟩
                · left; exact List.mem_cons_of_mem _ h
                · right
                  refine ⟨List.mem_cons_of_mem _ h1, ?_⟩
                  intro w hw
                  rcases List.mem_cons.mp hw with e2 | hw'
                  · rw [e2]; have := he'.1 x h1; omega
                  · exact h2 w hw'
            · intro w hw
              rcases List.mem_cons.mp hw with e2 | hw'
              · rw [e2]; exact List.mem_cons_self
              · exact List.mem_cons_of_mem _ (i3 w hw')
            · intro x hx hne
              rcases List.mem_cons.mp hx with e1 | hx'
              · exfalso; exact hne u List.mem_cons_self (by rw [e1]; exact heq.symm)
              · exact List.mem_cons_of_mem _ (i4 x hx' (fun w hw => hne w (List.mem_cons_of_mem _ hw)))
          · rename_i hneq
            have hgt : u.addr < e.addr := by omega
            obtain ⟨i1, i2, i3, i4⟩ := ih (e :: es') us' (by simp only [List.length_cons]; omega) he hu'.2
            refine ⟨?_, ?_, ?_, ?_⟩
            · unfold SAddr; rw [List.pairwise_cons]
              refine ⟨?_, i1⟩
              intro x hx
              rcases mergeUpd_mem _ _ _ x hx with h | h
              · rcases List.mem_cons.mp h with e1 | h'
                · rw [e1]; exact hgt
                · have := he'.1 x h'; omega
              · exact hu'.1 x h
            · intro x hx
              rcases List.mem_cons.mp hx with e1 | hx'
              · left; rw [e1]; exact List.mem_cons_self
              · rcases i2 x hx' with h | ⟨h1, h2⟩
                · left; exact List.mem_cons_of_mem _ h
                · right
                  refine ⟨h1, ?_⟩
                  intro w hw
                  rcases List.mem_cons.mp hw with e2 | hw'
                  · rw [e2]
                    rcases List.mem_cons.mp h1 with e3 | h1'
                    · rw [e3]; omega
                    · have := he'.1 x h1'; omega
                  · exact h2 w hw'
            · intro w hw
              rcases List.mem_cons.mp hw with e2 | hw'
              · rw [e2]; exact List.mem_cons_self
              · exact List.mem_cons_of_mem _ (i3 w hw')
            · intro x hx hne
              exact List.mem_cons_of_mem _ (i4 x hx (fun w hw => hne w (List.mem_cons_of_mem _ hw)))

theorem applyRemovals_sublist (es ds : List Val) : (applyRemovals es ds).Sublist es := by
  induction es generalizing ds with
  | nil => cases ds <;> simp [applyRemovals]
  | cons e es' ih =>
    cases ds with
    | nil => simp [applyRemovals]
    | cons d ds' =>
      simp only [applyRemovals]
      split
      · exact (ih ds').cons _
      · exact (ih (d :: ds')).cons₂ _

theorem applyRemovals_spec (es ds : List Val) (he : SAddr es) (hd : SAddr ds)
    (hsub : ∀ d ∈ ds, ∃ e ∈ es, e.addr = d.addr) :
    ∀ x ∈ es, (x ∈ applyRemovals es ds ↔ ∀ d ∈ ds, d.addr ≠ x.addr) := by
  induction es generalizing ds with
  | nil => intro x hx; cases hx
  | cons e es' ih =>
    cases ds with
    | nil => intro x hx; simp [applyRemovals, hx]
    | cons d ds' =>
      have he' := List.pairwise_cons.mp he
      have hd' := List.pairwise_cons.mp hd
      have hnotin : ∀ l : List Val, l.Sublist es' → e ∉ l := by
        intro l hl hin
        have := he'.1 e (hl.subset hin); omega
      simp only [applyRemovals]
      split
      · rename_i heq
        have hsub' : ∀ d' ∈ ds', ∃ e' ∈ es', e'.addr = d'.addr := by
          intro d' hd''
          obtain ⟨e', he1, he2⟩ := hsub d' (List.mem_cons_of_mem _ hd'')
          have := hd'.1 d' hd''
          rcases List.mem_cons.mp he1 with e3 | he3
          · rw [e3] at he2; omega
          · exact ⟨e', he3, he2⟩
        intro x hx
        rcases List.mem_cons.mp hx with e1 | hx'
        · rw [e1]
          constructor
          · intro hin; exact absurd hin (hnotin _ (applyRemovals_sublist es' ds'))
          · intro hall; exact absurd heq.symm (hall d List.mem_cons_self)
        · rw [ih ds' he'.2 hd'.2 hsub' x hx']
          constructor
          · intro hall d' hd''
            rcases List.mem_cons.mp hd'' with e2 | h2
            · rw [e2]; have := he'.1 x hx'; omega
            · exact hall d' h2
          · intro hall d' hd''; exact hall d' (List.mem_cons_of_mem _ hd'')
      · rename_i hneq
        have hdgt : e.addr < d.addr := by
          obtain ⟨e', he1, he2⟩ := hsub d List.mem_cons_self
          rcases List.mem_cons.mp he1 with e3 | he3
          · rw [e3] at he2; exact absurd he2 hneq
          · have := he'.1 e' he3; omega
        have hsub' : ∀ d' ∈ d :: ds', ∃ e' ∈ es', e'.addr = d'.addr := by
          intro d' hd''
          obtain ⟨e', he1, he2⟩ := hsub d' hd''
          have hgt : e.addr < d'.addr := by
            rcases List.mem_cons.mp hd'' with e2 | h2
            · rw [e2]; exact hdgt
            · have := hd'.1 d' h2; omega
          rcases List.mem_cons.mp he1 with e3 | he3
          · rw [e3] at he2; omega
          · exact ⟨e', he3, he2⟩
        intro x hx
        rcases List.mem_cons.mp hx with e1 | hx'
        · rw [e1]
          constructor
          · intro _ d' hd''
            rcases List.mem_cons.mp hd'' with e2 | h2
            · rw [e2]; omega
            · have := hd'.1 d' h2; omega
          · intro _; exact List.mem_cons_self
        · have hxe : x ≠ e := by
            intro e2; have := he'.1 x hx'; rw [e2] at this; omega
          rw [List.mem_cons]
          constructor
          · intro hin
            rcases hin with e2 | hin'
            · exact absurd e2 hxe
            · exact (ih (d :: ds') he'.2 hd hsub' x hx').mp hin'
          · intro hall; right
            exact (ih (d :: ds') he'.2 hd hsub' x hx').mpr hall

theorem findAddr_some {l : List Val} {a : Nat} {v : Val} (h : findAddr l a = some v) :
    v ∈ l ∧ v.addr = a := by
  unfold findAddr at h
  exact ⟨List.mem_of_find?_eq_some h, by simpa using List.find?_some h⟩

theorem findAddr_none {l : List Val} {a : Nat} (h : findAddr l a = none) : ∀ v ∈ l, v.addr ≠ a := by
  unfold findAddr at h
  intro v hv
  have := List.find?_eq_none.mp h v hv
  simpa using this

theorem verifyRemovals_some (vals ds : List Val) (acc r : Int)
    (h : verifyRemovals vals ds acc = some r) : ∀ d ∈ ds, ∃ e ∈ vals, e.addr = d.addr := by
  induction ds generalizing acc with
  | nil => intro d hd; cases hd
  | cons d ds' ih =>
    unfold verifyRemovals at h
    split at h
    · cases h
    · rename_i v hv
      intro x hx
      rcases List.mem_cons.mp hx with e | hx'
      · rw [e]; exact ⟨v, (findAddr_some hv).1, (findAddr_some hv).2⟩
      · exact ih _ h x hx'

/-- same addresses and powers, position by position -/
def SameAP (l l' : List Val) : Prop := l.map (fun v => (v.addr, v.power)) = l'.map (fun v => (v.addr, v.power))

theorem sameAP_map_setPrio (l : List Val) (f : Val → Int) : SameAP (l.map (fun v => setPrio v (f v))) l := by
  unfold SameAP
  rw [List.map_map]
  apply List.map_congr_left
  intro v _; rfl

theorem rescale_sameAP (l : List Val) (d : Int) : SameAP (rescale l d) l := by
  unfold rescale
  split
  · rfl
  · simp only
    split
    · exact sameAP_map_setPrio l _
    · rfl

theorem shiftByAvg_sameAP (l : List Val) : SameAP (shiftByAvg l) l := by
  unfold shiftByAvg
  exact sameAP_map_setPrio l _

theorem SameAP.trans {a b c : List Val} (h1 : SameAP a b) (h2 : SameAP b c) : SameAP a c :=
  Eq.trans h1 h2

theorem SameAP.addrs {a b : List Val} (h : SameAP a b) : a.map (·.addr) = b.map (·.addr) := by
  have := congrArg (List.map Prod.fst) h
  simpa [List.map_map, Function.comp_def] using this

theorem SameAP.powers {a b : List Val} (h : SameAP a b) : a.map (·.power) = b.map (·.power) := by
  have := congrArg (List.map Prod.snd) h
  simpa [List.map_map, Function.comp_def] using this

def sumPower (l : List Val) : Int := (l.map (·.power)).sum

/-- `updateTotalVotingPower` without the clamp: for non-negative powers the running clipped sum
that never exceeds the limit is the plain sum -/
theorem totalFrom_noclip (l : List Val) (acc : Int) (hacc : 0 ≤ acc) (hacc2 : acc ≤ maxTotal)
    (hp : ∀ v ∈ l, 0 ≤ v.power) (hnp : totalPanicsFrom acc l = false) :
    totalFrom acc l = acc + sumPower l ∧ acc + sumPower l ≤ maxTotal := by
  induction l generalizing acc with
  | nil => simp [totalFrom, sumPower, hacc2]
  | cons v r ih =>
    have hv := hp v List.mem_cons_self
    unfold totalPanicsFrom at hnp
    simp only at hnp
    rw [maxTotal_eq] at hacc2
    have hclip : safeAddClip acc v.power = acc + v.power := by
      by_cases hbig : acc + v.power > 9223372036854775807
      · exfalso
        have : safeAddClip acc v.power = 9223372036854775807 := by
          unfold safeAddClip maxI64 minI64
          split
          · rfl
          · split <;> omega
        rw [this, maxTotal_eq] at hnp
        simp at hnp
      · unfold safeAddClip maxI64 minI64
        split
        · omega
        · split <;> omega
    rw [hclip] at hnp
    split at hnp
    · cases hnp
    · rename_i hle
      have := ih (acc + v.power) (by omega) (by omega) (fun w hw => hp w (List.mem_cons_of_mem _ hw)) hnp
      unfold totalFrom
      rw [hclip]
      simp only [sumPower, List.map_cons, List.sum_cons] at this ⊢
      constructor
      · rw [this.1]; omega
      · omega

end Tmv.ValSet
