import Tmv.Lemmas.ValTurns
/-! `IncrementProposerPriority(k)` for arbitrary `k ≥ 1`: one normalisation, then `k` raw
rotations.  Bounds that do not depend on `k`: the sum of priorities is invariant, every priority
stays ≥ −2·total, hence ≤ n + 2·total·(n−1). -/
namespace Tmv.ValSet

theorem cmpPrio_ge (r : Option Val) (v : Val) :
    v.prio ≤ (cmpPrio r v).prio ∧ ∀ x, r = some x → x.prio ≤ (cmpPrio r v).prio := by
  unfold cmpPrio
  cases r with
  | none => exact ⟨Int.le_refl _, fun x hx => by cases hx⟩
  | some y =>
    simp only
    refine ⟨?_, ?_⟩
    · split
      · omega
      · split
        · omega
        · split
          · omega
          · split <;> omega
    · intro x hx
      cases hx
      split
      · omega
      · split
        · omega
        · split
          · omega
          · split <;> omega

theorem mostFrom_max (l : List Val) (res : Option Val) (m : Val) (h : mostFrom res l = some m) :
    (∀ v ∈ l, v.prio ≤ m.prio) ∧ ∀ x, res = some x → x.prio ≤ m.prio := by
  induction l generalizing res with
  | nil =>
    simp only [mostFrom] at h
    refine ⟨fun v hv => (by cases hv), ?_⟩
    intro x hx
    rw [h] at hx; cases hx; exact Int.le_refl _
  | cons v r ih =>
    unfold mostFrom at h
    obtain ⟨i1, i2⟩ := ih _ h
    have hc := cmpPrio_ge res v
    have hm := i2 _ rfl
    refine ⟨?_, ?_⟩
    · intro w hw
      rcases List.mem_cons.mp hw with e | hw'
      · rw [e]; omega
      · exact i1 w hw'
    · intro x hx
      have := hc.2 x hx
      omega

theorem prioSum_nonpos (l : List Val) (h : ∀ v ∈ l, v.prio ≤ 0) : prioSum l ≤ 0 := by
  induction l with
  | nil => simp [prioSum]
  | cons v r ih =>
    have := h v List.mem_cons_self
    have := ih (fun w hw => h w (List.mem_cons_of_mem _ hw))
    simp only [prioSum]; omega

theorem prioSum_lower (l : List Val) (L : Int) (hlow : ∀ v ∈ l, -L ≤ v.prio) :
    -(L * (l.length : Int)) ≤ prioSum l := by
  induction l with
  | nil => simp [prioSum]
  | cons x r ih =>
    have hx := hlow x List.mem_cons_self
    have := ih (fun w hw => hlow w (List.mem_cons_of_mem _ hw))
    simp only [prioSum, List.length_cons, Int.natCast_succ, Int.mul_add, Int.mul_one]
    omega

/-- from a lower bound on everybody and the sum, an upper bound on each -/
theorem upper_of_lower_sum (l : List Val) (L : Int) (hlow : ∀ v ∈ l, -L ≤ v.prio) :
    ∀ v ∈ l, v.prio ≤ prioSum l + L * ((l.length : Int) - 1) := by
  induction l with
  | nil => intro v hv; cases hv
  | cons x r ih =>
    have hr : ∀ w ∈ r, -L ≤ w.prio := fun w hw => hlow w (List.mem_cons_of_mem _ hw)
    have hsum := prioSum_lower r L hr
    intro v hv
    simp only [prioSum, List.length_cons, Int.natCast_succ]
    have hx := hlow x List.mem_cons_self
    have e : L * ((r.length : Int) + 1 - 1) = L * (r.length : Int) := by
      congr 1; omega
    rw [e]
    rcases List.mem_cons.mp hv with e1 | hv'
    · rw [e1]; omega
    · have h1 := ih hr v hv'
      have e2 : L * ((r.length : Int) - 1) = L * (r.length : Int) - L := by
        rw [Int.mul_sub, Int.mul_one]
      rw [e2] at h1
      omega

/-- invariant of the raw rotation loop of `IncrementProposerPriority(k)` -/
structure LoopInv (l0 l : List Val) (T : Int) : Prop where
  ap : SameAP l l0
  sum : prioSum l = prioSum l0
  low : ∀ v ∈ l, -(2 * T) ≤ v.prio

theorem incrOnce_loop (l0 l : List Val) (T : Int) (hne : l0 ≠ [])
    (hnd : (l0.map (·.addr)).Nodup) (hT1 : 1 ≤ T) (hT2 : T ≤ 1152921504606846975)
    (hT0 : sumPower l0 = T) (hpow : ∀ v ∈ l0, 0 < v.power)
    (hS1 : 0 ≤ prioSum l0) (hS2 : prioSum l0 < (l0.length : Int))
    (hB : 2 * (T * (l0.length : Int)) + (l0.length : Int) ≤ prioCap) (hi : LoopInv l0 l T) :
    LoopInv l0 (incrOnce l T).1 T ∧ (∃ p, (incrOnce l T).2 = some p ∧ p ∈ (incrOnce l T).1) ∧
    ∀ v ∈ l, v.prio ≤ 2 * (T * (l0.length : Int)) + (l0.length : Int) := by
  have hlen : l.length = l0.length := hi.ap.length
  have hlne : l ≠ [] := by
    intro e; rw [e] at hlen; exact hne (List.eq_nil_of_length_eq_zero hlen.symm)
  have hn1 : 1 ≤ (l0.length : Int) := by
    cases l0 with
    | nil => exact absurd rfl hne
    | cons a b => simp only [List.length_cons, Int.natCast_succ]; omega
  have hup := upper_of_lower_sum l (2 * T) hi.low
  rw [hi.sum, hlen] at hup
  have e2 : 2 * T * ((l0.length : Int) - 1) = 2 * (T * (l0.length : Int)) - 2 * T := by
    rw [Int.mul_sub, Int.mul_one, Int.mul_assoc]
  rw [e2] at hup
  have hupper : ∀ v ∈ l, v.prio ≤ 2 * (T * (l0.length : Int)) + (l0.length : Int) := by
    intro v hv; have := hup v hv; omega
  have hTn : T ≤ T * (l0.length : Int) := by
    have := Int.mul_le_mul_of_nonneg_left hn1 (by omega : (0 : Int) ≤ T)
    rw [Int.mul_one] at this; exact this
  have hpb : PBound (2 * (T * (l0.length : Int)) + (l0.length : Int)) l := by
    intro v hv
    have := hi.low v hv
    have := hupper v hv
    omega
  have hpos0 : ∀ v ∈ l0, 0 ≤ v.power := fun v hv => by have := hpow v hv; omega
  have hpw : ∀ v ∈ l, 0 ≤ v.power ∧ v.power ≤ T := by
    intro v hv
    obtain ⟨y, hy, _, e⟩ := hi.ap.mem v hv
    rw [← e, ← hT0]
    exact ⟨hpos0 y hy, power_le_sum l0 hpos0 y hy⟩
  obtain ⟨io, _⟩ := incrOnce_spec' l T (2 * (T * (l0.length : Int)) + (l0.length : Int)) hlne
    (by rw [hi.ap.addrs]; exact hnd) (by omega) (by unfold prioCap at hB; omega) (by omega) hT2 hpw hpb
  have hsp : sumPower l = T := by rw [hi.ap.sumPower, hT0]
  refine ⟨⟨io.sameAP.trans hi.ap, by rw [io.sum, hsp, hi.sum]; omega, ?_⟩, io.prop, hupper⟩
  -- lower bound after the step
  obtain ⟨m, hm, hmost, hout1, _⟩ := io.exact
  have hmax := (mostFrom_max _ none m hmost).1
  have hsum1 : prioSum (l.map (fun v => setPrio v (v.prio + v.power))) = prioSum l0 + T := by
    rw [prioSum_map_add, hi.sum, hsp]
  have hmpos : 1 ≤ m.prio := by
    apply Classical.byContradiction
    intro hcon
    have := prioSum_nonpos _ (fun v hv => by have := hmax v hv; omega)
    omega
  intro x hx
  rw [hout1] at hx
  obtain ⟨v1, hv1, e⟩ := List.mem_map.mp hx
  obtain ⟨v, hv, e1⟩ := mem_map_setPrio hv1
  have hvl := hi.low v hv
  have hvp := (hpw v hv).1
  split at e
  · rw [← e]; simp only [setPrio]; omega
  · rw [← e, e1]; simp only [setPrio]; omega

theorem incrLoop_inv (k : Nat) (l0 l : List Val) (T : Int) (p : Option Val) (hne : l0 ≠ [])
    (hnd : (l0.map (·.addr)).Nodup) (hT1 : 1 ≤ T) (hT2 : T ≤ 1152921504606846975)
    (hT0 : sumPower l0 = T) (hpow : ∀ v ∈ l0, 0 < v.power)
    (hS1 : 0 ≤ prioSum l0) (hS2 : prioSum l0 < (l0.length : Int))
    (hB : 2 * (T * (l0.length : Int)) + (l0.length : Int) ≤ prioCap) (hi : LoopInv l0 l T) :
    LoopInv l0 (incrLoop k l T p).1 T ∧
    (1 ≤ k → ∃ q, (incrLoop k l T p).2 = some q ∧ q ∈ (incrLoop k l T p).1) := by
  induction k generalizing l p with
  | zero => exact ⟨hi, fun h => by omega⟩
  | succ j ih =>
    unfold incrLoop
    obtain ⟨h1, h2, _⟩ := incrOnce_loop l0 l T hne hnd hT1 hT2 hT0 hpow hS1 hS2 hB hi
    obtain ⟨i1, i2⟩ := ih (incrOnce l T).1 (incrOnce l T).2 h1
    refine ⟨i1, fun _ => ?_⟩
    cases j with
    | zero => simp only [incrLoop]; exact h2
    | succ j' => exact i2 (by omega)

/-- **`IncrementProposerPriority(k)` for every `k ≥ 1`** on a reachable set with
`n·(2·total + 1) ≤ 3·MaxTotalVotingPower`: no clamp is taken at any of the `k` inner rotations;
membership and powers are unchanged; the sum of priorities stays in `[0, n)`; every priority stays
within `[−2·total, 2·total·n + n]` — bounds that do not depend on `k`. -/
theorem increment_k_bounded (s : VSet) (hr : Reach s.vals) (k : Int) (hk : 1 ≤ k)
    (hB : 2 * (sumPower s.vals * (s.vals.length : Int)) + (s.vals.length : Int) ≤ prioCap) :
    ∃ s', increment s k = some s' ∧ SameAP s'.vals s.vals ∧
      0 ≤ prioSum s'.vals ∧ prioSum s'.vals < (s.vals.length : Int) ∧
      (∃ q, s'.proposer = some q ∧ q ∈ s'.vals) ∧
      ∀ v ∈ s'.vals, -(2 * sumPower s.vals) ≤ v.prio ∧
        v.prio ≤ 2 * (sumPower s.vals * (s.vals.length : Int)) + (s.vals.length : Int) := by
  have hwf := hr.wf
  have hT1 := hwf.total_pos
  have hT2 := hwf.total_le
  rw [maxTotal_eq] at hT2
  have htot := hwf.total_eq
  obtain ⟨r1, r2⟩ := rescale_spec s.vals prioCap (sumPower s.vals) hwf.ne (by unfold prioCap; omega)
    (by unfold prioCap; omega) hT1 hT2 hr.bound
  have hrap := rescale_sameAP s.vals (2 * sumPower s.vals)
  have hrne : rescale s.vals (2 * sumPower s.vals) ≠ [] := by
    intro e; have := hrap.length; rw [e] at this
    exact hwf.ne (List.eq_nil_of_length_eq_zero this.symm)
  obtain ⟨_, sb, s3, s4⟩ := shift_spec _ prioCap (2 * sumPower s.vals) hrne (by unfold prioCap; omega)
    (by unfold prioCap; omega) r1 r2
  have hnorm : normalize s.vals = shiftByAvg (rescale s.vals (2 * sumPower s.vals)) := by
    unfold normalize; rw [windowFactor_eq, htot]
  rw [← hnorm] at sb s3 s4
  have hnap : SameAP (normalize s.vals) s.vals := by
    rw [hnorm]; exact (shiftByAvg_sameAP _).trans hrap
  have hlen : (normalize s.vals).length = s.vals.length := hnap.length
  have hlen2 : (rescale s.vals (2 * sumPower s.vals)).length = s.vals.length := hrap.length
  rw [hlen2] at s4
  have hnne : normalize s.vals ≠ [] := by
    intro e; rw [e] at hlen; exact hwf.ne (List.eq_nil_of_length_eq_zero hlen.symm)
  have hpow : ∀ v ∈ normalize s.vals, 0 < v.power := by
    intro v hv
    obtain ⟨y, hy, _, e⟩ := hnap.mem v hv
    rw [← e]; exact hwf.pos y hy
  have h0 : LoopInv (normalize s.vals) (normalize s.vals) (sumPower s.vals) :=
    ⟨rfl, rfl, fun v hv => (sb v hv).1⟩
  obtain ⟨li, lp⟩ := incrLoop_inv k.toNat (normalize s.vals) (normalize s.vals) (sumPower s.vals) none hnne
    (by rw [hnap.addrs]; exact hwf.nodup) (by omega) hT2 hnap.sumPower hpow s3 (by rw [hlen]; exact s4)
    (by rw [hlen]; exact hB) h0
  refine ⟨⟨(incrLoop k.toNat (normalize s.vals) (sumPower s.vals) none).1,
      (incrLoop k.toNat (normalize s.vals) (sumPower s.vals) none).2⟩, ?_, li.ap.trans hnap, ?_, ?_,
      lp (by omega), ?_⟩
  · unfold increment
    have a1 : ¬ k ≤ 0 := by omega
    simp only [hwf.ne, if_false, a1, htot]
  · simp only; rw [li.sum]; exact s3
  · simp only; rw [li.sum]; exact s4
  · intro v hv
    have hv' : v ∈ (incrLoop k.toNat (normalize s.vals) (sumPower s.vals) none).1 := hv
    refine ⟨li.low v hv', ?_⟩
    have hup := upper_of_lower_sum _ (2 * sumPower s.vals) li.low v hv'
    rw [li.sum, li.ap.length, hlen] at hup
    have e2 : 2 * sumPower s.vals * ((s.vals.length : Int) - 1) =
        2 * (sumPower s.vals * (s.vals.length : Int)) - 2 * sumPower s.vals := by
      rw [Int.mul_sub, Int.mul_one, Int.mul_assoc]
    rw [e2] at hup
    omega

end Tmv.ValSet
