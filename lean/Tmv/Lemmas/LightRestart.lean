import Tmv.Lemmas.LightExpiry
namespace Tmv.Light

theorem Reach.mono {cfg : Config} {R R' : Hash → Prop} (hm : ∀ h, R h → R' h) {b : LightBlock}
    (h : Reach cfg R b) : Reach cfg R' b := by
  induction h with
  | root b hb => exact Reach.root b (hm _ hb)
  | fwd a b now _ hs ih => exact Reach.fwd a b now ih hs
  | back a b _ hs ih => exact Reach.back a b ih hs
  | same a b _ hs ih => exact Reach.same a b ih hs

theorem mem_delete {s : Store} {h : Int} {b : LightBlock} (hb : b ∈ (s.delete h).blocks) : b ∈ s.blocks :=
  (List.mem_filter.mp hb).1

theorem mem_cleanupAfterLoop (height : Int) :
    ∀ (f : Nat) (s : Store) (prev : Int) (b : LightBlock),
      b ∈ (cleanupAfterLoop height f s prev).blocks → b ∈ s.blocks := by
  intro f
  induction f with
  | zero => intro s prev b h; exact h
  | succ f ih =>
    intro s prev b h
    simp only [cleanupAfterLoop] at h
    split at h
    · exact h
    · split at h
      · exact h
      · exact mem_delete (ih _ _ _ h)

theorem restore_inv {cfg : Config} {R : Hash → Prop} {c : Client} (h : Inv cfg R c) :
    Inv cfg R (restore c) := by
  unfold restore
  simp only
  split
  · split
    · rename_i b hb
      exact ⟨h.1, h.2.1, fun l hl => by injection hl with hl; rw [← hl]; exact h.2.1 b (store_get_mem hb)⟩
    · exact h
  · exact h

theorem cleanupAfter_inv {cfg : Config} {R : Hash → Prop} {c : Client} {height : Int} (h : Inv cfg R c) :
    Inv cfg R (cleanupAfter c height) := by
  unfold cleanupAfter
  split
  · exact h
  · apply restore_inv
    exact ⟨h.1, fun b hb => h.2.1 b (mem_cleanupAfterLoop _ _ _ _ _ hb), fun l hl => by cases hl⟩

theorem cleanup_inv {cfg : Config} {R : Hash → Prop} {c : Client} (h : Inv cfg R c) :
    Inv cfg R (cleanup c) :=
  ⟨h.1, fun b hb => h.2.1 b (mem_prune hb), fun l hl => by cases hl⟩

theorem checkTrusted_inv {cfg : Config} {R : Hash → Prop} {c : Client} {height : Int} {hash : Hash}
    (h : Inv cfg R c) : Inv cfg R (checkTrustedHeaderUsingOptions c height hash).1 := by
  unfold checkTrustedHeaderUsingOptions
  split
  · exact h
  · rename_i latest hl
    simp only
    generalize hp : (if height > latest.height then
        match lightBlockFromPrimary c latest.height with
        | (c1, Except.error e) => (c1, Except.error e)
        | (c1, Except.ok lb) => (c1, Except.ok lb.hash)
      else if height = latest.height then (c, Except.ok hash)
      else (cleanupAfter c height, Except.ok hash) : Client × Except Err Hash) = p
    obtain ⟨c1, ph⟩ := p
    have h1 : Inv cfg R c1 := by
      split at hp
      · split at hp
        · rename_i c1' _ hq
          obtain ⟨rfl, _⟩ := Prod.mk.inj hp
          exact h.of_same (lightBlockFromPrimary_same hq)
        · rename_i c1' _ hq
          obtain ⟨rfl, _⟩ := Prod.mk.inj hp
          exact h.of_same (lightBlockFromPrimary_same hq)
      · split at hp
        · obtain ⟨rfl, _⟩ := Prod.mk.inj hp; exact h
        · obtain ⟨rfl, _⟩ := Prod.mk.inj hp; exact cleanupAfter_inv h
    simp only
    split
    · exact h1
    · split
      · exact h1
      · split
        · exact cleanup_inv h1
        · exact h1

theorem initialize_inv {cfg : Config} {R : Hash → Prop} {c : Client} {height : Int} {hash : Hash}
    (h : Inv cfg R c) (hr : R hash) : Inv cfg R (initializeWithOptions c height hash).1 := by
  unfold initializeWithOptions
  split
  · rename_i c1 _ hl
    exact h.of_same (lightBlockFromPrimary_same hl)
  · rename_i c1 l hl
    have h1 := h.of_same (lightBlockFromPrimary_same hl)
    split
    · exact h1
    · split
      · exact h1
      · rename_i hh
        simp at hh
        split
        · exact h1
        · split
          · rename_i c2 _ hc
            exact h1.of_same (compareFirst_same hc)
          · rename_i c2 _ hc
            exact updateTrusted_inv (h1.of_same (compareFirst_same hc)) (Reach.root _ (hh ▸ hr))

theorem newClientOn_inv {cfg : Config} {R : Hash → Prop} {base : Client} {primary : Prov}
    {witnesses : List Prov} {sched : List Prov → List Nat} {withOptions : Bool} {period height : Int}
    {hash : Hash} (hbase : Inv cfg R base) (hr : withOptions = true → R hash) :
    Inv cfg R (newClientOn base cfg primary witnesses sched withOptions period height hash).1 := by
  unfold newClientOn
  split; · exact hbase
  split; · exact hbase
  split; · exact hbase
  split; · exact hbase
  simp only
  have h0 : Inv cfg R (restore (clientOn base cfg primary witnesses sched)) :=
    restore_inv ⟨rfl, hbase.2.1, fun l hl => by cases hl⟩
  generalize restore (clientOn base cfg primary witnesses sched) = c at h0 ⊢
  cases hw : withOptions with
  | false => simpa using h0
  | true =>
    simp only [Bool.not_true, Bool.false_eq_true, if_false]
    have h1 : Inv cfg R (if c.latest.isSome = true then checkTrustedHeaderUsingOptions c height hash
        else (c, none)).1 := by
      split
      · exact checkTrusted_inv h0
      · exact h0
    generalize (if c.latest.isSome = true then checkTrustedHeaderUsingOptions c height hash
        else (c, none)) = q at h1 ⊢
    obtain ⟨c1, e1⟩ := q
    simp only at h1 ⊢
    cases e1 with
    | some e => exact h1
    | none =>
      simp only
      split
      · exact initialize_inv h1 (hr hw)
      · split
        · exact initialize_inv h1 (hr hw)
        · exact h1

theorem verifyHeader_inv {cfg : Config} {R : Hash → Prop} {c : Client} {hash : Hash} {height now : Int}
    (h : Inv cfg R c) : Inv cfg R (verifyHeader c hash height now).1 := by
  unfold verifyHeader
  split
  · exact h
  · simp only
    split
    · exact h
    · split
      · rename_i c1 _ hl
        exact h.of_same (lightBlockFromPrimary_same hl)
      · rename_i c1 l hl
        have h1 := h.of_same (lightBlockFromPrimary_same hl)
        split
        · exact h1
        · exact verifyLightBlock_inv h1 (Prod.ext rfl rfl)

end Tmv.Light
