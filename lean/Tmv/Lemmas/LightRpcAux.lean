import Tmv.Lemmas.LightRpc
import Tmv.Lemmas.ProtoEnc
import Tmv.Lemmas.MerkleComplete
import Tmv.Lemmas.MerkleInclusion
import Tmv.Lemmas.LightRpcTraced
/-! Auxiliary definitions and lemmas for Props/C20 (kept out of the property file): the honest
application state used to state the ABCIQuery theorems, loop lemmas, and the concrete one-block
chain `Wit` used for witnesses and non-vacuity examples. -/
namespace Tmv.Props.C20
open Tmv Tmv.Merkle Tmv.LightRpc Tmv.TxProof
variable (H : Bytes → Bytes)

theorem fBytes_cancel (L : Nat) (hL : 0 < L) (tag : UInt8) (x y : Bytes) (hx : x.length = L) (hy : y.length = L)
    (h : fBytes tag x = fBytes tag y) : x = y := by
  have hxne : x ≠ [] := by intro e; rw [e] at hx; simp at hx; omega
  have hyne : y ≠ [] := by intro e; rw [e] at hy; simp at hy; omega
  simp only [fBytes, hxne, hyne, if_false, hx, hy, List.cons.injEq, true_and] at h
  exact List.append_cancel_left h


/-- inclusion for every tree, the empty one included: a proof verifying against `root items` is for
one of the items -/
theorem verify_inclusion_any (L : Nat) (hL : 0 < L) (hlen : ∀ x, (H x).length = L)
    (items : List Bytes) (leaf : Bytes) (p : Proof)
    (hv : verify H (root H items) leaf p = .ok ()) :
    leaf ∈ items ∨ Nonempty (Collision H) := by
  by_cases hne : items = []
  · right
    subst hne
    unfold verify at hv
    split at hv; · cases hv
    split at hv; · cases hv
    split at hv; · cases hv
    rename_i hleaf
    have hrne : root H [] ≠ [] := by
      intro h
      have := rootF_len H L hlen ([] : List Bytes).length []
      unfold root at h; rw [h] at this; simp at this; omega
    have hcomp : computeRoot H p = some (root H []) := by
      split at hv
      · simp [hrne] at hv
      · rename_i h heq; split at hv
        · rename_i e; rw [heq, e]
        · cases hv
    unfold computeRoot at hcomp
    split at hcomp; · cases hcomp
    have hlh : p.leafHash = leafHash H leaf := by simpa using hleaf
    rw [hlh] at hcomp
    exact fromAunts_ne_emptyHash H leaf _ _ _ _ hcomp
  · unfold verify at hv
    split at hv; · cases hv
    split at hv; · cases hv
    split at hv; · cases hv
    rename_i hleaf
    have hrootlen : (root H items).length = L := rootF_len H L hlen _ _
    have hrne : root H items ≠ [] := by
      intro h; rw [h] at hrootlen; simp at hrootlen; omega
    have hcomp : computeRoot H p = some (root H items) := by
      split at hv
      · simp [hrne] at hv
      · rename_i h heq; split at hv
        · rename_i e; rw [heq, e]
        · cases hv
    unfold computeRoot at hcomp
    split at hcomp; · cases hcomp
    have hlh : p.leafHash = leafHash H leaf := by simpa using hleaf
    rw [hlh] at hcomp
    exact fromAunts_inclusion H L hlen items.length items (Nat.le_refl _) hne _ _ _ leaf _ hcomp


/-- a height inside the requested range (`0` = bound not given) -/
def InRange (mn mx h : Int) : Prop := ¬ ((mn > 0 ∧ h < mn) ∨ (mx > 0 ∧ h > mx))

theorem checkMetas_none (mn mx : Int) :
    ∀ (metas : List (Option BlockMeta)), checkMetas H mn mx metas = none →
      ∀ x ∈ metas, ∃ m, x = some m ∧ m.validateBasic H = true ∧ InRange mn mx m.header.height := by
  intro metas
  induction metas with
  | nil => intro _ x hx; cases hx
  | cons y ys ih =>
    intro h x hx
    cases y with
    | none => simp [checkMetas] at h
    | some m =>
      simp only [checkMetas] at h
      split at h; · cases h
      rename_i hv
      split at h; · cases h
      rename_i hr
      simp only [List.mem_cons] at hx
      rcases hx with rfl | hx
      · exact ⟨m, rfl, by simpa using hv, hr⟩
      · exact ih h x hx

theorem checkMetas_ne_ok (mn mx : Int) :
    ∀ (metas : List (Option BlockMeta)), checkMetas H mn mx metas ≠ some .ok := by
  intro metas
  induction metas with
  | nil => simp [checkMetas]
  | cons y ys ih =>
    cases y with
    | none => simp [checkMetas]
    | some m =>
      simp only [checkMetas]
      split; · simp
      split; · simp
      exact ih

theorem checkMetas_complete (mn mx : Int) :
    ∀ (metas : List (Option BlockMeta)),
      (∀ x ∈ metas, ∃ m, x = some m ∧ m.validateBasic H = true ∧ InRange mn mx m.header.height) →
      checkMetas H mn mx metas = none := by
  intro metas
  induction metas with
  | nil => intro _; rfl
  | cons y ys ih =>
    intro h
    obtain ⟨m, e, hv, hr⟩ := h y (by simp)
    subst e
    simp only [checkMetas, hv, Bool.not_true, Bool.false_eq_true, if_false]
    unfold InRange at hr
    simp only [hr, if_false]
    exact ih (fun x hx => h x (by simp [hx]))

theorem verifyMetas_sound :
    ∀ (metas : List (Option BlockMeta)) (lc lc' : LC), verifyMetas H lc metas = (.ok, lc') →
      lc'.chain = lc.chain ∧
      ∀ x ∈ metas, ∃ m t, x = some m ∧ lc.at? m.header.height = some t ∧
        m.header.hash H = t.header.hash H := by
  intro metas
  induction metas with
  | nil => intro lc lc' h; simp [verifyMetas] at h; subst h; simp
  | cons x rest ih =>
    intro lc lc' h
    cases x with
    | none => simp [verifyMetas] at h
    | some m =>
      simp only [verifyMetas] at h
      split at h
      · simp at h
      · rename_i t lc1 hupd
        obtain ⟨hchain, _, hat⟩ := updateTo_ok lc lc1 _ t hupd
        split at h; · simp at h
        rename_i hhash
        obtain ⟨hc2, hrest⟩ := ih lc1 lc' h
        refine ⟨by rw [hc2, hchain], ?_⟩
        intro y hy
        simp only [List.mem_cons] at hy
        rcases hy with rfl | hy
        · exact ⟨m, t, rfl, hat _ rfl, by simpa using hhash⟩
        · obtain ⟨m', t', e1, e2, e3⟩ := hrest y hy
          exact ⟨m', t', e1, by rw [← at?_of_chain_eq lc lc1 hchain]; exact e2, e3⟩


theorem verifyMetas_complete :
    ∀ (metas : List (Option BlockMeta)) (lc : LC),
      (∀ x ∈ metas, ∃ m t, x = some m ∧ lc.at? m.header.height = some t ∧ m.header = t.header) →
      ∃ lc', verifyMetas H lc metas = (.ok, lc') := by
  intro metas
  induction metas with
  | nil => intro lc _; exact ⟨lc, rfl⟩
  | cons x rest ih =>
    intro lc hall
    obtain ⟨m, t, e1, e2, e3⟩ := hall x (by simp)
    subst e1
    obtain ⟨lc1, hupd⟩ := updateTo_some_complete lc _ t e2
    obtain ⟨hchain, _, _⟩ := updateTo_ok lc lc1 _ t hupd
    have hrest : ∀ y ∈ rest, ∃ m t, y = some m ∧ lc1.at? m.header.height = some t ∧ m.header = t.header := by
      intro y hy
      obtain ⟨m', t', a, b, c⟩ := hall y (by simp [hy])
      exact ⟨m', t', a, by rw [at?_of_chain_eq lc lc1 hchain]; exact b, c⟩
    obtain ⟨lc2, h2⟩ := ih lc1 hrest
    refine ⟨lc2, ?_⟩
    simp only [verifyMetas]
    rw [hupd]
    simp only [e3, ne_eq, not_true_eq_false, if_false]
    exact h2


/-- the leaf bytes of a simple-map tree: `encodeByteSlice(key) ++ encodeByteSlice(H value)` -/
def kvBytes (k v : Bytes) : Bytes := encBS k ++ encBS (H v)

/-- a store: its key/value pairs in tree order; the application state: named stores in tree order -/
abbrev Store := List (Bytes × Bytes)
def storeLeaves (kvs : Store) : List Bytes := kvs.map fun kv => kvBytes H kv.1 kv.2
def storeRoot (kvs : Store) : Bytes := root H (storeLeaves H kvs)
def appLeaves (stores : List (Bytes × Store)) : List Bytes :=
  stores.map fun s => kvBytes H s.1 (storeRoot H s.2)
/-- the AppHash an application with these stores reports (root over the store roots) -/
def appHashOf (stores : List (Bytes × Store)) : Bytes := root H (appLeaves H stores)

/-- one `ValueOp`: if its output is the root of a tree, its (key, argument) leaf is in that tree -/
theorem runOp_inclusion (L : Nat) (hL : 0 < L) (hlen : ∀ x, (H x).length = L)
    (o : ProofOp) (value out : Bytes) (leaves : List Bytes)
    (hrun : runOp H o value = some out) (hroot : out = root H leaves) :
    kvBytes H o.key value ∈ leaves ∨ Nonempty (Collision H) := by
  unfold runOp at hrun
  split at hrun; · cases hrun
  rename_i hleaf
  have hleaf' : o.proof.leafHash = leafHash H (kvBytes H o.key value) := by
    have : kvLeaf H o.key value = o.proof.leafHash := by simpa using hleaf
    rw [← this]; rfl
  have hcomp : computeRoot H o.proof = some (root H leaves) := by rw [hrun, hroot]
  unfold computeRoot at hcomp
  split at hcomp; · cases hcomp
  rw [hleaf'] at hcomp
  by_cases hne : leaves = []
  · right; subst hne; exact fromAunts_ne_emptyHash H _ _ _ _ _ hcomp
  · exact fromAunts_inclusion H L hlen leaves.length leaves (Nat.le_refl _) hne _ _ _ _ _ hcomp

/-- equal KV leaves have equal keys and equal value hashes -/
theorem kvBytes_inj (L : Nat) (hL64 : L < 2 ^ 64) (hlen : ∀ x, (H x).length = L) (k k' v v' : Bytes)
    (hk : k.length < 2 ^ 64) (hk' : k'.length < 2 ^ 64) (h : kvBytes H k v = kvBytes H k' v') :
    k = k' ∧ H v = H v' := by
  unfold kvBytes at h
  obtain ⟨e1, e2⟩ := encBS_append_inj _ _ _ _ hk hk' h
  have e2' : encBS (H v) ++ [] = encBS (H v') ++ [] := by simpa using e2
  obtain ⟨e3, _⟩ := encBS_append_inj _ _ _ _ (by rw [hlen]; exact hL64) (by rw [hlen]; exact hL64) e2'
  exact ⟨e1, e3⟩

/-- key lengths an application can have (anything protobuf can carry) -/
def StoresWF (stores : List (Bytes × Store)) : Prop :=
  ∀ s ∈ stores, s.1.length < 2 ^ 64 ∧ ∀ kv ∈ s.2, kv.1.length < 2 ^ 64


theorem runOps_append (xs ys : List ProofOp) :
    ∀ (keys : List Bytes) (arg : Bytes),
      runOps H (xs ++ ys) keys arg = (runOps H xs keys arg).bind (fun p => runOps H ys p.1 p.2) := by
  induction xs with
  | nil => intro keys arg; simp [runOps]
  | cons o rest ih =>
    intro keys arg
    simp only [List.cons_append, runOps]
    split
    · simp
    · split
      · simp
      · exact ih _ _

/-- one step of the loop -/
theorem runOps_single (o : ProofOp) (keys : List Bytes) (arg : Bytes) (keys' : List Bytes) (out : Bytes)
    (h : runOps H [o] keys arg = some (keys', out)) :
    runOp H o arg = some out ∧
      ((o.key = [] ∧ keys' = keys) ∨ (o.key ≠ [] ∧ keys.getLast? = some o.key ∧ keys' = keys.dropLast)) := by
  simp only [runOps] at h
  by_cases hk : o.key = []
  · simp only [hk, ne_eq, not_true_eq_false, if_false] at h
    cases hr : runOp H o arg with
    | none => simp [hr] at h
    | some r =>
      simp only [hr, Option.some.injEq, Prod.mk.injEq] at h
      exact ⟨by rw [h.2], Or.inl ⟨hk, h.1.symm⟩⟩
  · simp only [hk, ne_eq, not_false_eq_true, if_true] at h
    cases hl : keys.getLast? with
    | none => simp [hl] at h
    | some k =>
      simp only [hl] at h
      by_cases hkk : k = o.key
      · simp only [hkk, not_true_eq_false, if_false] at h
        cases hr : runOp H o arg with
        | none => simp [hr] at h
        | some r =>
          simp only [hr, Option.some.injEq, Prod.mk.injEq] at h
          exact ⟨by rw [h.2], Or.inr ⟨hk, by rw [hkk], h.1.symm⟩⟩
      · simp [hkk] at h

/-- the output of a `ValueOp` has the length of a hash -/
theorem runOp_len (L : Nat) (hlen : ∀ x, (H x).length = L) (o : ProofOp) (arg out : Bytes)
    (h : runOp H o arg = some out) : out.length = L := by
  unfold runOp at h
  split at h; · cases h
  rename_i hl
  have hl' : o.proof.leafHash.length = L := by
    have : kvLeaf H o.key arg = o.proof.leafHash := by simpa using hl
    rw [← this]; simp [kvLeaf, leafHash, hlen]
  unfold computeRoot at h
  split at h; · cases h
  exact fromAunts_len H L hlen _ _ _ _ _ _ hl' h

/-- operators that all carry a key consume one key-path element each -/
theorem runOps_keyed_length :
    ∀ (ops : List ProofOp) (keys : List Bytes) (arg : Bytes) (keys' : List Bytes) (out : Bytes),
      (∀ o ∈ ops, o.key ≠ []) → runOps H ops keys arg = some (keys', out) →
      keys.length = ops.length + keys'.length := by
  intro ops
  induction ops with
  | nil => intro keys arg keys' out _ h; simp [runOps] at h; rw [h.1]; simp
  | cons o rest ih =>
    intro keys arg keys' out hk h
    have hok : o.key ≠ [] := hk o (by simp)
    simp only [runOps, hok, ne_eq, not_false_eq_true, if_true] at h
    cases hl : keys.getLast? with
    | none => simp [hl] at h
    | some k =>
      simp only [hl] at h
      by_cases hkk : k = o.key
      · simp only [hkk, not_true_eq_false, if_false] at h
        cases hr : runOp H o arg with
        | none => simp [hr] at h
        | some out1 =>
          simp only [hr] at h
          have := ih keys.dropLast out1 keys' out (fun o' ho' => hk o' (by simp [ho'])) h
          have hne : keys ≠ [] := by intro e; rw [e] at hl; simp at hl
          have hlen : keys.dropLast.length = keys.length - 1 := List.length_dropLast
          have hpos : 0 < keys.length := List.length_pos_iff.mpr hne
          simp only [List.length_cons]
          omega
      · simp [hkk] at h

theorem verifyABCI_ok_verifyValue (lc lc' : LC) (store : Option Bytes) (r : ABCIResp)
    (hacc : verifyABCI H lc store r = (.ok, lc')) :
    ∃ (t : LightBlock) (v s' k' : Bytes), verifyValue H r.ops t.header.appHash [s', k'] v = true := by
  unfold verifyABCI at hacc
  split at hacc; · simp at hacc
  split at hacc; · simp at hacc
  split at hacc; · simp at hacc
  split at hacc; · simp at hacc
  split at hacc
  · simp at hacc
  · rename_i t lc1 hupd
    cases hv : r.value with
    | none => simp [hv] at hacc
    | some v =>
    cases store with
    | none => simp [hv] at hacc
    | some st =>
    cases hs' : keyRoundTrip st with
    | none => simp [hv, hs'] at hacc
    | some s' =>
    cases hk' : keyRoundTrip r.key with
    | none => simp [hv, hs', hk'] at hacc
    | some k' =>
    simp only [hv, hs', hk'] at hacc
    by_cases hver : verifyValue H r.ops t.header.appHash [s', k'] v = true
    case neg => simp [hver] at hacc
    case pos => exact ⟨t, v, s', k', hver⟩


theorem computeRoot_proofOf (items : List Bytes) (i : Nat) (hi : i < items.length) :
    computeRoot H (proofOf H items i) = some (root H items) := by
  have hc := fromAunts_auntsF H items.length items i hi (Nat.le_refl _)
  have hget : items[i]?.getD [] = items.getD i [] := by simp [List.getD_eq_getElem?_getD]
  rw [hget] at hc
  unfold computeRoot proofOf
  have h3 : ¬ ((i : Int) < 0 ∨ (items.length : Int) ≤ 0) := by omega
  simp only [h3, if_false, Int.toNat_natCast]
  exact hc


theorem foldl_max_ge (l : List Int) (a : Int) : a ≤ l.foldl (fun a b => if a < b then b else a) a := by
  induction l generalizing a with
  | nil => simp
  | cons x xs ih =>
    simp only [List.foldl_cons]
    split
    · have := ih x; omega
    · exact ih a

theorem foldl_max_mem (l : List Int) (a : Int) :
    l.foldl (fun a b => if a < b then b else a) a = a ∨ l.foldl (fun a b => if a < b then b else a) a ∈ l := by
  induction l generalizing a with
  | nil => left; rfl
  | cons x xs ih =>
    simp only [List.foldl_cons]
    split
    · rcases ih x with h | h
      · right; rw [h]; simp
      · right; simp [h]
    · rcases ih a with h | h
      · left; exact h
      · right; simp [h]

theorem foldl_max_ge_mem (l : List Int) (a x : Int) (hx : x ∈ l) :
    x ≤ l.foldl (fun a b => if a < b then b else a) a := by
  induction l generalizing a with
  | nil => cases hx
  | cons y ys ih =>
    simp only [List.foldl_cons]
    simp only [List.mem_cons] at hx
    rcases hx with rfl | hx
    · split
      · exact foldl_max_ge ys x
      · have := foldl_max_ge ys a; omega
    · exact ih _ hx


/-- `verify_inclusion_any` with the collision located: among the leaf preimage and the inner nodes of
the claimed path on the proof side, the nodes of the genuine tree on the other -/
theorem verify_inclusion_any_traced (L : Nat) (hL : 0 < L) (hlen : ∀ x, (H x).length = L)
    (items : List Bytes) (leaf : Bytes) (p : Proof)
    (hv : verify H (root H items) leaf p = .ok ()) :
    leaf ∈ items ∨
      CollisionIn H ((0 :: leaf) :: pathPre H p.total.toNat p.index.toNat p.total.toNat (leafHash H leaf) p.aunts)
        (rootPre H items.length items) := by
  unfold verify at hv
  split at hv; · cases hv
  split at hv; · cases hv
  split at hv; · cases hv
  rename_i hleaf
  have hrootlen : (root H items).length = L := rootF_len H L hlen _ _
  have hrne : root H items ≠ [] := by
    intro h; rw [h] at hrootlen; simp at hrootlen; omega
  have hcomp : computeRoot H p = some (root H items) := by
    split at hv
    · simp [hrne] at hv
    · rename_i h heq; split at hv
      · rename_i e; rw [heq, e]
      · cases hv
  unfold computeRoot at hcomp
  split at hcomp; · cases hcomp
  have hlh : p.leafHash = leafHash H leaf := by simpa using hleaf
  rw [hlh] at hcomp
  by_cases hne : items = []
  · right
    subst hne
    have := fromAunts_emptyHash_traced2 H leaf _ _ _ _ hcomp
    simpa [rootPre] using this
  · exact fromAunts_inclusion_traced H L hlen items.length items (Nat.le_refl _) hne _ _ _ leaf _ hcomp

/-- `Txs.Proof(i)` validates against `Txs.Hash()` (the completeness half of C10, re-derived here from
the aunts lemma so that this file does not depend on Props/C10) -/
theorem proofFor_validates (txs : List Bytes) (i : Nat) (hi : i < txs.length) :
    validate H (txsHash H txs) (proofFor H txs i) = .ok () := by
  have hi' : i < (txs.map H).length := by simpa using hi
  have hc := computeRoot_proofOf H (txs.map H) i hi'
  unfold validate proofFor txsHash
  have h1 : ¬ ((proofOf H (txs.map H) i).index < 0) := by simp [proofOf]
  have h2 : ¬ ((proofOf H (txs.map H) i).total ≤ 0) := by
    simp only [proofOf, List.length_map]; omega
  simp only [ne_eq, not_true_eq_false, if_false, h1, h2]
  have hd : txs.getD i [] = txs[i] := by simp [List.getD_eq_getElem?_getD, hi]
  have hv : verify H (root H (txs.map H)) (H (txs.getD i [])) (proofOf H (txs.map H) i) = .ok () := by
    unfold verify
    have t1 : ¬ ((proofOf H (txs.map H) i).total < 0) := by simp [proofOf]
    have hl : (proofOf H (txs.map H) i).leafHash = leafHash H (H (txs.getD i [])) := by
      simp [proofOf, List.getD_eq_getElem?_getD, hi]
    simp only [t1, h1, if_false, hl, ne_eq, not_true_eq_false, hc]
    simp
  rw [hv]

/-! ### a concrete one-block chain -/
namespace Wit
def z32 : Bytes := List.replicate 32 0
def H0 : Bytes → Bytes := fun _ => z32

theorem H0_len : ∀ x, (H0 x).length = 32 := by intro x; simp [H0, z32]

theorem root_H0 (xs : List Bytes) : root H0 xs = z32 := by
  unfold root
  cases h : xs.length with
  | zero => rfl
  | succ n =>
    match xs with
    | [] => rfl
    | [x] => rfl
    | a :: b :: c => rw [rootF_cons2]; rfl

def hdr : Header :=
  { versionBlock := 11, versionApp := 0, chainID := [99], height := 1, timeSec := 5, timeNanos := 0,
    lastBlockID := { hash := [], total := 0, psHash := [] }, lastCommitHash := z32, dataHash := z32,
    validatorsHash := z32, nextValidatorsHash := z32, consensusHash := z32, appHash := z32,
    lastResultsHash := [], evidenceHash := z32, proposer := List.replicate 20 0 }

def lb : LightBlock :=
  { header := hdr, commitBlockID := { hash := z32, total := 1, psHash := z32 },
    vals := [{ address := List.replicate 20 1, power := 10 }] }

def lc0 : LC := { chain := [lb], stored := [1] }

def blk : Block :=
  { header := hdr, txs := [], evidence := [], evidenceOK := true, lastCommitNil := false,
    lastCommitSigs := [], lastCommitOK := true }

theorem hdr_hash : hdr.hash H0 = z32 := by
  unfold Header.hash
  have : hdr.validatorsHash ≠ [] := by decide
  simp only [this, if_false]
  exact root_H0 _

theorem at_one : lc0.at? 1 = some lb := by simp [LC.at?, lc0]

theorem at_inv (k : Int) (t : LightBlock) (h : lc0.at? k = some t) : k = 1 ∧ t = lb := by
  unfold LC.at? at h
  split at h; · cases h
  rename_i hk
  simp only [lc0] at h
  cases hn : (k - 1).toNat with
  | zero =>
    rw [hn] at h
    simp at h
    exact ⟨by omega, h.symm⟩
  | succ n => rw [hn] at h; simp at h

end Wit

end Tmv.Props.C20
