import Tmv.Lemmas.NetStep
import Tmv.Lemmas.Agreement
import Tmv.Model.Net
/-! The lift (C01): in every reachable state of the network model `Tmv.Net` the verified votes of
the log satisfy `Tmv.VoteLog.Behaved` — from the per-node step specification `Tmv.Cons.step_spec`
(which rests on the C02 invariants of the node model). `Inv` is the network invariant: every correct
node satisfies the node invariants relative to the current log, the log's votes of a correct
validator are exactly votes that node emitted, and every log entry of a correct validator is `Good`
relative to the log before it. -/
namespace Tmv.Net
open Tmv.Cons Tmv.VoteLog

/-- what `Behaved` asks of one log entry of a correct validator, relative to the log before it -/
structure Good (P : Powers) (pre : Log) (m : VoteMsg) : Prop where
  o : ∀ m' ∈ pre, m'.sender = m.sender → m'.round ≤ m.round
  u : m.isPrecommit = true → ∀ m' ∈ pre, m'.sender = m.sender → m'.isPrecommit = true →
        m'.round = m.round → m'.value = m.value
  j : m.isPrecommit = true → ∀ b, m.value = some b → polka P pre m.round (some b)
  l : m.isPrecommit = false → ∀ m' ∈ pre, m'.sender = m.sender → m'.isPrecommit = true → ∀ b, m'.value = some b →
        m'.round < m.round → m.value ≠ some b →
        ∃ r'' y, m'.round < r'' ∧ r'' ≤ m.round ∧ y ≠ some b ∧ polka P pre r'' y

def AllGood (P : Powers) (faulty : Nat → Bool) (L : Log) : Prop :=
  ∀ i (hi : i < L.length), faulty L[i].sender = false → Good P (L.take i) L[i]

theorem AllGood.nil (P : Powers) (faulty : Nat → Bool) : AllGood P faulty [] := by
  intro i hi; simp at hi

theorem AllGood.snoc {P : Powers} {faulty : Nat → Bool} {L : Log} {m : VoteMsg} (h : AllGood P faulty L)
    (hm : faulty m.sender = false → Good P L m) : AllGood P faulty (L ++ [m]) := by
  intro i hi hf
  by_cases hlt : i < L.length
  · have e1 : (L ++ [m])[i] = L[i] := List.getElem_append_left hlt
    have e2 : (L ++ [m]).take i = L.take i := List.take_append_of_le_length (by omega)
    rw [e1] at hf ⊢; rw [e2]
    exact h i hlt hf
  · have hi' : i = L.length := by simp at hi; omega
    subst hi'
    have e1 : (L ++ [m])[L.length] = m := by simp
    have e2 : (L ++ [m]).take L.length = L := by simp
    rw [e1] at hf ⊢; rw [e2]
    exact hm hf

theorem mem_take_lt {α} {l : List α} {i j : Nat} (hj : j < l.length) (hji : j < i) : l[j] ∈ l.take i := by
  rw [List.mem_take_iff_getElem]
  exact ⟨j, by omega, rfl⟩

theorem AllGood.behaved {P : Powers} {faulty : Nat → Bool} {L : Log} (h : AllGood P faulty L) :
    Behaved P faulty L := by
  have order : ∀ i j (hi : i < L.length) (hj : j < L.length),
      faulty L[i].sender = false → L[i].sender = L[j].sender → L[i].round < L[j].round → i < j := by
    intro i j hi hj hf hs hr
    apply Classical.byContradiction
    intro hn
    have hne : i ≠ j := by intro e; subst e; omega
    have hlt : j < i := by omega
    have := (h i hi hf).o L[j] (mem_take_lt hj hlt) hs.symm
    omega
  refine ⟨?_, ?_, ?_, ?_⟩
  · intro i j hi hj hf hs _ hr
    exact order i j hi hj hf hs hr
  · intro i j hi hj hf hs hpi hpj hr
    rcases Nat.lt_trichotomy i j with hlt | heq | hgt
    · have hf' : faulty L[j].sender = false := by rw [← hs]; exact hf
      exact (h j hj hf').u hpj L[i] (mem_take_lt hi hlt) hs hpi hr
    · subst heq; rfl
    · exact ((h i hi hf).u hpi L[j] (mem_take_lt hj hgt) hs.symm hpj hr.symm).symm
  · intro i hi b hf hp hv
    exact (h i hi hf).j hp b hv
  · intro i j hi hj b hf hs hpi hvi hpj hr hne
    have hlt := order i j hi hj hf hs hr
    have hf' : faulty L[j].sender = false := by rw [← hs]; exact hf
    exact (h j hj hf').l hpj L[i] (mem_take_lt hi hlt) hs hpi b hvi hr hne

/-! the log of a network and the outputs of its nodes -/

theorem voteLog_append (a b : List Msg) : voteLog (a ++ b) = voteLog a ++ voteLog b := by
  unfold voteLog; exact List.filterMap_append

theorem voteLog_outs (p : Nat) (outs : List Output) : voteLog (outs.filterMap (outMsg p)) = ownVotes p outs := by
  unfold voteLog ownVotes
  rw [List.filterMap_filterMap]
  congr 1
  funext o
  cases o <;> simp [outMsg, voteOf, ownVote, Option.bind]


theorem _root_.Tmv.Cons.MInv.mono {c : Cfg} {me : Nat} {L : Log} (L' : Log) {s : NodeState} (h : MInv c me L s) :
    MInv c me (L ++ L') s :=
  ⟨h.g, h.a, h.t, h.j, WI.mono (fun t r k v hv => EL_mono _ _ t r k v hv) h.w, h.n,
    fun t r x hm => voted_append_left _ _ _ _ _ _ (h.own t r x hm)⟩

/-- the invariant of the network -/
structure Inv (nc : NetCfg) (s : Net) : Prop where
  node : ∀ p, nc.correct p → MInv (nc.node p) p (voteLog s.log) (s.nodes p)
  mine : ∀ p, nc.correct p → ∀ m ∈ voteLog s.log, m.sender = p →
    ∃ t, (t == VType.precommit) = m.isPrecommit ∧ Output.signVote t m.round m.value ∈ (s.nodes p).out
  good : AllGood nc.powers nc.faulty (voteLog s.log)

theorem polka_iff (nc : NetCfg) (p : Nat) (L : Log) (r : Nat) (y : Bid) :
    2 * (nc.node p).total < 3 * wtUpTo (nc.node p).power (voted L false r y) (nc.node p).n ↔
      polka nc.powers L r y := by
  unfold polka Powers.total Powers.wt
  rw [total_eq_wt]
  constructor <;> intro h <;> exact h

theorem good_of_goodOut (nc : NetCfg) (p : Nat) (L0 : Log) (outpre : List Output) (t : VType) (r : Nat) (x : Bid)
    (hmine : ∀ m ∈ L0, m.sender = p →
      ∃ t', (t' == VType.precommit) = m.isPrecommit ∧ Output.signVote t' m.round m.value ∈ outpre)
    (h : GoodOut (nc.node p) L0 outpre t r x) : Good nc.powers L0 ⟨p, t == VType.precommit, r, x⟩ := by
  refine ⟨?_, ?_, ?_, ?_⟩
  · intro m' hm hs
    obtain ⟨t', _, hmem⟩ := hmine m' hm hs
    exact h.o t' _ _ hmem
  · intro ht m' hm hs hp hr
    have ht' : t = VType.precommit := by cases t <;> simp_all
    obtain ⟨t', e, hmem⟩ := hmine m' hm hs
    have : t' = VType.precommit := by rw [hp] at e; cases t' <;> simp_all
    subst this
    simp only at hr
    rw [hr] at hmem
    exact h.u ht' _ hmem
  · intro ht b hb
    have ht' : t = VType.precommit := by cases t <;> simp_all
    exact (polka_iff nc p L0 r (some b)).1 (h.j ht' b hb)
  · intro ht m' hm hs hp b hv hr hne
    have ht' : t = VType.prevote := by cases t <;> simp_all
    obtain ⟨t', e, hmem⟩ := hmine m' hm hs
    have : t' = VType.precommit := by rw [hp] at e; cases t' <;> simp_all
    subst this
    rw [hv] at hmem
    obtain ⟨r'', y, a1, a2, a3, a4⟩ := h.l ht' m'.round b hmem hr hne
    exact ⟨r'', y, a1, a2, a3, (polka_iff nc p L0 r'' y).1 a4⟩

theorem ownVote_none_of_not_vote (p : Nat) (o : Output) (h : ¬ ∃ t r x, o = Output.signVote t r x) :
    ownVote p o = none := by
  cases o <;> first | rfl | (exfalso; exact h ⟨_, _, _, rfl⟩)

theorem allGood_outs (nc : NetCfg) (p : Nat) (hf : nc.faulty p = false) :
    ∀ (new : List Output) (L0 : Log) (outpre : List Output),
      AllGood nc.powers nc.faulty L0 →
      (∀ m ∈ L0, m.sender = p →
        ∃ t', (t' == VType.precommit) = m.isPrecommit ∧ Output.signVote t' m.round m.value ∈ outpre) →
      (∀ a t r x b, new = a ++ Output.signVote t r x :: b →
        GoodOut (nc.node p) (L0 ++ ownVotes p a) (outpre ++ a) t r x) →
      AllGood nc.powers nc.faulty (L0 ++ ownVotes p new) := by
  intro new
  induction new with
  | nil => intro L0 outpre h _ _; simpa [ownVotes] using h
  | cons o rest ih =>
    intro L0 outpre h hmine hgo
    have hmine' : ∀ m ∈ L0, m.sender = p →
        ∃ t', (t' == VType.precommit) = m.isPrecommit ∧ Output.signVote t' m.round m.value ∈ outpre ++ [o] := by
      intro m hm hs
      obtain ⟨t', e, hmem⟩ := hmine m hm hs
      exact ⟨t', e, List.mem_append_left _ hmem⟩
    by_cases hv : ∃ t r x, o = Output.signVote t r x
    · obtain ⟨t, r, x, rfl⟩ := hv
      have e : L0 ++ ownVotes p (Output.signVote t r x :: rest) =
          (L0 ++ [⟨p, t == VType.precommit, r, x⟩]) ++ ownVotes p rest := by
        simp [ownVotes, ownVote]
      rw [e]
      apply ih _ (outpre ++ [Output.signVote t r x])
      · apply h.snoc
        intro _
        apply good_of_goodOut nc p L0 outpre t r x hmine
        have := hgo [] t r x rest rfl
        simpa [ownVotes] using this
      · intro m hm hs
        rcases List.mem_append.1 hm with a | a
        · exact hmine' m a hs
        · simp at a; subst a
          exact ⟨t, rfl, by simp⟩
      · intro a t' r' x' b hsplit
        have := hgo (Output.signVote t r x :: a) t' r' x' b (by rw [hsplit]; rfl)
        simpa [ownVotes, ownVote, List.append_assoc] using this
    · have e : ownVotes p (o :: rest) = ownVotes p rest := by
        simp [ownVotes, ownVote_none_of_not_vote p o hv]
      rw [e]
      apply ih _ (outpre ++ [o]) h hmine'
      intro a t' r' x' b hsplit
      have := hgo (o :: a) t' r' x' b (by rw [hsplit]; rfl)
      have e2 : ownVotes p (o :: a) = ownVotes p a := by
        simp [ownVotes, ownVote_none_of_not_vote p o hv]
      rw [e2] at this
      simpa [List.append_assoc] using this

theorem Inv.init (nc : NetCfg) : Inv nc Net.init := by
  refine ⟨?_, ?_, ?_⟩
  · intro p _
    show MInv (nc.node p) p (voteLog []) NodeState.init
    exact ⟨init_G, init_A, init_T, by intro r b h; simp [NodeState.init] at h, W.init _ _, N.init p,
      by intro t r x h; simp [NodeState.init] at h⟩
  · intro p _ m hm; simp [Net.init, voteLog] at hm
  · simpa [Net.init, voteLog] using AllGood.nil nc.powers nc.faulty

/-- a correct node moving to a state that satisfies the item specification keeps the invariant -/
theorem Inv.update {nc : NetCfg} {s : Net} (h : Inv nc s) (p : Nat) (hp : nc.correct p) (s' : NodeState)
    (hspec : ∃ new, s'.out = (s.nodes p).out ++ new ∧ MInv (nc.node p) p (voteLog s.log ++ ownVotes p new) s' ∧
      ∀ k (hk : k < new.length) t r x, new[k] = Output.signVote t r x →
        GoodOut (nc.node p) (voteLog s.log ++ ownVotes p (new.take k)) ((s.nodes p).out ++ new.take k) t r x) :
    Inv nc ⟨upd s.nodes p s', s.log ++ (s'.out.drop (s.nodes p).out.length).filterMap (outMsg p)⟩ := by
  obtain ⟨new, hnew, hmi, hgood⟩ := hspec
  have hlog : voteLog (s.log ++ (s'.out.drop (s.nodes p).out.length).filterMap (outMsg p)) =
      voteLog s.log ++ ownVotes p new := by
    rw [voteLog_append, voteLog_outs, hnew]
    simp
  have hnode : ∀ q, upd s.nodes p s' q = if q = p then s' else s.nodes q := by
    intro q; rfl
  refine ⟨?_, ?_, ?_⟩
  · intro q hq
    show MInv _ _ (voteLog (s.log ++ _)) (upd s.nodes p s' q)
    rw [hlog, hnode]
    by_cases e : q = p
    · subst e; simpa using hmi
    · simp only [e, if_false]
      exact (h.node q hq).mono _
  · intro q hq m hm hs
    change m ∈ voteLog (s.log ++ _) at hm
    rw [hlog] at hm
    show ∃ t, _ ∧ _ ∈ (upd s.nodes p s' q).out
    rw [hnode]
    by_cases e : q = p
    · subst e
      simp only [if_true]
      rw [hnew]
      rcases List.mem_append.1 hm with a | a
      · obtain ⟨t, e1, e2⟩ := h.mine q hq m a hs
        exact ⟨t, e1, List.mem_append_left _ e2⟩
      · unfold ownVotes at a
        rw [List.mem_filterMap] at a
        obtain ⟨o, ho, hov⟩ := a
        cases o <;> simp [ownVote] at hov
        subst hov
        exact ⟨_, rfl, List.mem_append_right _ ho⟩
    · simp only [e, if_false]
      rcases List.mem_append.1 hm with a | a
      · exact h.mine q hq m a hs
      · exfalso
        unfold ownVotes at a
        rw [List.mem_filterMap] at a
        obtain ⟨o, _, hov⟩ := a
        cases o <;> simp [ownVote] at hov
        subst hov
        exact e hs.symm
  · rw [hlog]
    apply allGood_outs nc p hp.2 new (voteLog s.log) (s.nodes p).out h.good (h.mine p hp)
    intro a t r x b hsplit
    have hk : a.length < new.length := by rw [hsplit]; simp
    have e1 : new[a.length] = Output.signVote t r x := by simp [hsplit]
    have e2 : new.take a.length = a := by rw [hsplit]; simp
    have := hgood a.length hk t r x e1
    rw [e2] at this
    exact this

/-- the item specification for `stepItem` -/
theorem item_spec {c : Cfg} {me : Nat} (hc : c.self = some me) (L0 : Log) (s : NodeState) (it : Item)
    (h : MInv c me L0 s) (hi : ∀ i, it = .ext i → i.notFuture s)
    (hin : ∀ i v peer, it = .ext i → i = .vote v peer → v.val < c.n → v.sigOK = true →
      voted L0 (v.typ == VType.precommit) v.round v.bid v.val = true) :
    ∃ new, (stepItem c s it).out = s.out ++ new ∧ MInv c me (L0 ++ ownVotes me new) (stepItem c s it) ∧
      ∀ k (hk : k < new.length) t r x, new[k] = Output.signVote t r x →
        GoodOut c (L0 ++ ownVotes me (new.take k)) (s.out ++ new.take k) t r x := by
  have same : ∃ new, s.out = s.out ++ new ∧ MInv c me (L0 ++ ownVotes me new) s ∧
      ∀ k (hk : k < new.length) t r x, new[k] = Output.signVote t r x →
        GoodOut c (L0 ++ ownVotes me (new.take k)) (s.out ++ new.take k) t r x :=
    ⟨[], by simp, by simpa [ownVotes] using h, by intro k hk; simp at hk⟩
  by_cases hh : s.halted ∨ s.decided.isSome
  · have e : stepItem c s it = s := by unfold stepItem; rw [if_pos hh]
    rw [e]; exact same
  · cases it with
    | ext i =>
      have e : stepItem c s (.ext i) = handleInput c s i := by unfold stepItem; rw [if_neg hh]
      rw [e]
      exact ext_spec hc L0 s i h (hi i rfl) (fun v peer hv => hin i v peer rfl hv)
    | own k =>
      cases hq : s.queue[k]? with
      | none =>
        have e : stepItem c s (.own k) = s := by
          unfold stepItem handleOwn; rw [if_neg hh]; simp only [hq]
        rw [e]; exact same
      | some m =>
        have e : stepItem c s (.own k) = handleInternal c { s with queue := s.queue.eraseIdx k } m := by
          unfold stepItem handleOwn; rw [if_neg hh]; simp only [hq]
        rw [e]
        exact own_spec hc L0 s k m hq h

/-- a correct node handling one item keeps the invariant, provided a timeout is for a round reached
and a correctly signed vote comes from the log -/
theorem Inv.feed {nc : NetCfg} {s : Net} (h : Inv nc s) (p : Nat) (it : Item) (hp : nc.correct p)
    (hi : ∀ i, it = .ext i → i.notFuture (s.nodes p))
    (hin : ∀ i v peer, it = .ext i → i = .vote v peer → v.val < nc.n → v.sigOK = true →
      voted (voteLog s.log) (v.typ == VType.precommit) v.round v.bid v.val = true) :
    Inv nc (s.feed nc p it) :=
  h.update p hp _ (item_spec (c := nc.node p) (me := p) rfl (voteLog s.log) (s.nodes p) it (h.node p hp) hi hin)

theorem Inv.append {nc : NetCfg} {s : Net} (h : Inv nc s) (m : Msg)
    (hm : nc.faulty m.sender = true ∨ m.ok = false) : Inv nc (s.append m) := by
  have hlog : voteLog (s.append m).log = voteLog s.log ++ (voteOf m).toList := by
    unfold Net.append voteLog
    simp only [List.filterMap_append]
    cases hv : voteOf m <;> simp [List.filterMap, hv]
  have hsender : ∀ vm, voteOf m = some vm → nc.faulty vm.sender = true := by
    intro vm hv
    unfold voteOf at hv
    split at hv
    · rename_i hb hok
      cases hv
      rcases hm with a | a
      · exact a
      · rw [a] at hok; cases hok
    · cases hv
  refine ⟨?_, ?_, ?_⟩
  · intro q hq
    rw [hlog]
    exact (h.node q hq).mono _
  · intro q hq m' hm' hs
    rw [hlog] at hm'
    rcases List.mem_append.1 hm' with a | a
    · exact h.mine q hq m' a hs
    · exfalso
      cases hv : voteOf m with
      | none => rw [hv] at a; simp at a
      | some vm =>
        rw [hv] at a; simp at a; subst a
        have := hsender _ hv
        rw [hs, hq.2] at this
        cases this
  · rw [hlog]
    cases hv : voteOf m with
    | none => simpa using h.good
    | some vm =>
      simp only [Option.toList]
      apply h.good.snoc
      intro hf
      rw [hsender _ hv] at hf
      cases hf

theorem Inv.step {nc : NetCfg} {s s' : Net} (h : Inv nc s) (hs : NetStep nc s s') : Inv nc s' := by
  have noVote : ∀ (j : Input), (∀ v peer, j ≠ .vote v peer) →
      ∀ i v peer, Item.ext j = .ext i → i = .vote v peer → v.val < nc.n → v.sigOK = true →
        voted (voteLog s.log) (v.typ == VType.precommit) v.round v.bid v.val = true := by
    intro j hj i v peer e hv
    cases e
    exact absurd hv (hj v peer)
  cases hs with
  | deliver p k peer hp hk =>
    apply h.feed p _ hp
    · intro i e; cases e
      unfold toInput; split <;> exact True.intro
    · intro i v peer' e hv h1 h2
      cases e
      unfold toInput at hv
      split at hv
      · cases hv
      · rename_i t r bid hb
        cases hv
        simp only at h2 ⊢
        have : (⟨s.log[k].sender, t == VType.precommit, r, bid⟩ : VoteMsg) ∈ voteLog s.log := by
          unfold voteLog
          rw [List.mem_filterMap]
          refine ⟨s.log[k], List.getElem_mem hk, ?_⟩
          unfold voteOf
          rw [hb, h2]
        exact voted_of_mem _ _ this
  | block p b hp =>
    exact h.feed p _ hp (by intro i e; cases e; exact True.intro) (noVote _ (by intro v peer e; cases e))
  | claim p r t peer bid hp =>
    exact h.feed p _ hp (by intro i e; cases e; exact True.intro) (noVote _ (by intro v peer e; cases e))
  | fire p r st hp hsch =>
    apply h.feed p _ hp
    · intro i e; cases e
      show r ≤ (s.nodes p).round
      rcases hsch with ⟨rfl, _⟩ | hsch
      · exact Nat.zero_le _
      · exact (h.node p hp).n.sched r st hsch
    · exact noVote _ (by intro v peer e; cases e)
  | txs p hp =>
    exact h.feed p _ hp (by intro i e; cases e; exact True.intro) (noVote _ (by intro v peer e; cases e))
  | own p k hp =>
    exact h.feed p _ hp (by intro i e; cases e) (by intro i v peer e; cases e)
  | byz m hm => exact h.append m hm

theorem Inv.reachable {nc : NetCfg} {s : Net} (h : Reachable nc s) : Inv nc s := by
  induction h with
  | init => exact Inv.init nc
  | step _ hs ih => exact ih.step hs

end Tmv.Net
