import Tmv.Lemmas.ConsSign
import Tmv.Model.SignCons
/-! The round state of the consensus model does not depend on the signer's answers: erasing what
the signer and the own-message plumbing write (`lss`, `out`, `queue`) commutes with every handler. -/
namespace Tmv.Cons

/-- the round state: everything except last sign state, output list and internal queue -/
def er (s : NodeState) : NodeState := { s with lss := none, out := [], queue := [] }

/-- `y` has the round state of `x` and its own signer part -/
theorem eq_mix {x y : NodeState} (h : er x = er y) :
    y = { x with lss := y.lss, out := y.out, queue := y.queue } := by
  cases x; cases y
  simp only [er, NodeState.mk.injEq] at h ⊢
  obtain ⟨h1, h2, h3, h4, h5, h6, h7, h8, h9, h10, h11, h12, h13, h14, _, h16, h17, _, _⟩ := h
  simp [*]

theorem er_mix (x : NodeState) (l : Option (Nat × Nat × Payload)) (o : List Output) (q : List Internal) :
    er { x with lss := l, out := o, queue := q } = er x := rfl

theorem er_round {a b : NodeState} (h : er a = er b) : a.round = b.round := (congrArg NodeState.round h : (er a).round = (er b).round)
theorem er_step {a b : NodeState} (h : er a = er b) : a.step = b.step := (congrArg NodeState.step h : (er a).step = (er b).step)
theorem er_lockedRound {a b : NodeState} (h : er a = er b) : a.lockedRound = b.lockedRound := (congrArg NodeState.lockedRound h : (er a).lockedRound = (er b).lockedRound)
theorem er_lockedBlock {a b : NodeState} (h : er a = er b) : a.lockedBlock = b.lockedBlock := (congrArg NodeState.lockedBlock h : (er a).lockedBlock = (er b).lockedBlock)
theorem er_validRound {a b : NodeState} (h : er a = er b) : a.validRound = b.validRound := (congrArg NodeState.validRound h : (er a).validRound = (er b).validRound)
theorem er_validBlock {a b : NodeState} (h : er a = er b) : a.validBlock = b.validBlock := (congrArg NodeState.validBlock h : (er a).validBlock = (er b).validBlock)
theorem er_proposal {a b : NodeState} (h : er a = er b) : a.proposal = b.proposal := (congrArg NodeState.proposal h : (er a).proposal = (er b).proposal)
theorem er_proposalBlock {a b : NodeState} (h : er a = er b) : a.proposalBlock = b.proposalBlock := (congrArg NodeState.proposalBlock h : (er a).proposalBlock = (er b).proposalBlock)
theorem er_proposalParts {a b : NodeState} (h : er a = er b) : a.proposalParts = b.proposalParts := (congrArg NodeState.proposalParts h : (er a).proposalParts = (er b).proposalParts)
theorem er_partsDone {a b : NodeState} (h : er a = er b) : a.partsDone = b.partsDone := (congrArg NodeState.partsDone h : (er a).partsDone = (er b).partsDone)
theorem er_commitRound {a b : NodeState} (h : er a = er b) : a.commitRound = b.commitRound := (congrArg NodeState.commitRound h : (er a).commitRound = (er b).commitRound)
theorem er_triggered {a b : NodeState} (h : er a = er b) : a.triggered = b.triggered := (congrArg NodeState.triggered h : (er a).triggered = (er b).triggered)
theorem er_votes {a b : NodeState} (h : er a = er b) : a.votes = b.votes := (congrArg NodeState.votes h : (er a).votes = (er b).votes)
theorem er_valRound {a b : NodeState} (h : er a = er b) : a.valRound = b.valRound := (congrArg NodeState.valRound h : (er a).valRound = (er b).valRound)
theorem er_decided {a b : NodeState} (h : er a = er b) : a.decided = b.decided := (congrArg NodeState.decided h : (er a).decided = (er b).decided)
theorem er_halted {a b : NodeState} (h : er a = er b) : a.halted = b.halted := (congrArg NodeState.halted h : (er a).halted = (er b).halted)

theorem er_ext {a b : NodeState}
    (h_round : a.round = b.round)
    (h_step : a.step = b.step)
    (h_lockedRound : a.lockedRound = b.lockedRound)
    (h_lockedBlock : a.lockedBlock = b.lockedBlock)
    (h_validRound : a.validRound = b.validRound)
    (h_validBlock : a.validBlock = b.validBlock)
    (h_proposal : a.proposal = b.proposal)
    (h_proposalBlock : a.proposalBlock = b.proposalBlock)
    (h_proposalParts : a.proposalParts = b.proposalParts)
    (h_partsDone : a.partsDone = b.partsDone)
    (h_commitRound : a.commitRound = b.commitRound)
    (h_triggered : a.triggered = b.triggered)
    (h_votes : a.votes = b.votes)
    (h_valRound : a.valRound = b.valRound)
    (h_decided : a.decided = b.decided)
    (h_halted : a.halted = b.halted)
    : er a = er b := by
  cases a; cases b
  simp only [er, NodeState.mk.injEq]
  simp only at *
  simp [*]

/-- extensible chaining (as in `Lemmas/ConsSign.lean`): each congruence lemma registers itself -/
syntax "er_step" : tactic
macro_rules | `(tactic| er_step) => `(tactic| assumption)
macro_rules | `(tactic| er_step) => `(tactic| rfl)
macro_rules | `(tactic| er_step) => `(tactic| apply er_round)
macro_rules | `(tactic| er_step) => `(tactic| apply er_step)
macro_rules | `(tactic| er_step) => `(tactic| apply er_lockedRound)
macro_rules | `(tactic| er_step) => `(tactic| apply er_lockedBlock)
macro_rules | `(tactic| er_step) => `(tactic| apply er_validRound)
macro_rules | `(tactic| er_step) => `(tactic| apply er_validBlock)
macro_rules | `(tactic| er_step) => `(tactic| apply er_proposal)
macro_rules | `(tactic| er_step) => `(tactic| apply er_proposalBlock)
macro_rules | `(tactic| er_step) => `(tactic| apply er_proposalParts)
macro_rules | `(tactic| er_step) => `(tactic| apply er_partsDone)
macro_rules | `(tactic| er_step) => `(tactic| apply er_commitRound)
macro_rules | `(tactic| er_step) => `(tactic| apply er_triggered)
macro_rules | `(tactic| er_step) => `(tactic| apply er_votes)
macro_rules | `(tactic| er_step) => `(tactic| apply er_valRound)
macro_rules | `(tactic| er_step) => `(tactic| apply er_decided)
macro_rules | `(tactic| er_step) => `(tactic| apply er_halted)
macro_rules | `(tactic| er_step) => `(tactic| (apply er_ext <;> dsimp only))
macro "er_chain" : tactic => `(tactic| repeat' (first | er_step | (dsimp only; er_step)))
/-- close the goals left by `repeat' split` on both sides: the same branch on both sides chains
the registered lemmas, different branches are contradictory -/
macro "er_close" : tactic =>
  `(tactic| all_goals (try (first | contradiction | (er_chain; done) | (er_chain; all_goals simp; done) | (exfalso; omega) | (simp_all; done) | (simp_all; omega))))

attribute [local irreducible] sign signAddVote decideProposal doPrevote enterPrevote enterPropose
  enterNewRound enterPrevoteWait enterPrecommit enterPrecommitWait finalizeCommit tryFinalizeCommit
  enterCommit setProposal handleCompleteProposal addBlockPart addVote prevoteTransitions afterPrevote afterPrecommit
  handleInternal handleTimeout handleTxsAvailable handleInput drain step run HVS.addVote HVS.setRound HVS.setPeerMaj23
  HVS.polRound maj23Of hasAnyOf hashesTo hasHeader

variable {c : Cfg}

theorem emit_cong {a b : NodeState} (o : Output) (h : er a = er b) : er (emit a o) = er (emit b o) := by
  have hh := er_halted h
  unfold emit
  rw [hh]
  split
  · exact h
  · er_chain
macro_rules | `(tactic| er_step) => `(tactic| apply emit_cong)

theorem panicWith_cong {a b : NodeState} (w : String) (h : er a = er b) : er (panicWith a w) = er (panicWith b w) := by
  have hh := er_halted h
  unfold panicWith
  rw [hh]
  split
  · exact h
  · er_chain
macro_rules | `(tactic| er_step) => `(tactic| apply panicWith_cong)

/-! what the signer-facing functions do to the round state: nothing -/

theorem er_emit (s : NodeState) (o : Output) : er (emit s o) = er s := by
  unfold emit; split <;> rfl

theorem er_sign {s s' : NodeState} {r cd : Nat} {p : Payload} (h : sign c s r cd p = some s') : er s' = er s := by
  unfold sign at h
  repeat' split at h
  all_goals first | (cases h; rfl) | (simp at h)

theorem signAddVote_er (s : NodeState) (t : VType) (bid : Bid) : er (signAddVote c s t bid) = er s := by
  unfold signAddVote
  split
  · rfl
  · split
    · rfl
    · split
      · rename_i s' hs
        show er (emit s' _) = er s
        rw [er_emit, er_sign hs]
      · rfl

theorem decideProposal_er (s : NodeState) (round me : Nat) : er (decideProposal c s round me) = er s := by
  unfold decideProposal
  simp only []
  split
  · rename_i s' hs
    show er (emit s' _) = er s
    rw [er_emit, er_sign hs]
  · rfl

theorem signAddVote_cong {a b : NodeState} (t : VType) (bid : Bid) (h : er a = er b) :
    er (signAddVote c a t bid) = er (signAddVote c b t bid) := by
  rw [signAddVote_er, signAddVote_er, h]
macro_rules | `(tactic| er_step) => `(tactic| apply signAddVote_cong)

theorem decideProposal_cong {a b : NodeState} (round me : Nat) (h : er a = er b) :
    er (decideProposal c a round me) = er (decideProposal c b round me) := by
  rw [decideProposal_er, decideProposal_er, h]
macro_rules | `(tactic| er_step) => `(tactic| apply decideProposal_cong)

theorem doPrevote_mix (x : NodeState) (l : Option (Nat × Nat × Payload)) (o : List Output) (q : List Internal)  :
    er (doPrevote c { x with lss := l, out := o, queue := q } ) = er (doPrevote c x ) := by
  unfold doPrevote 
  try dsimp only
  repeat' split
  er_close

theorem doPrevote_cong {a b : NodeState}   (h : er a = er b)  :
    er (doPrevote c a ) = er (doPrevote c b ) := by
  have e := eq_mix h
  rw [e]
  exact (doPrevote_mix a _ _ _ ).symm
macro_rules | `(tactic| er_step) => `(tactic| apply doPrevote_cong)

theorem enterPrevote_mix (x : NodeState) (l : Option (Nat × Nat × Payload)) (o : List Output) (q : List Internal) (r : Nat) :
    er (enterPrevote c { x with lss := l, out := o, queue := q } r) = er (enterPrevote c x r) := by
  unfold enterPrevote 
  try dsimp only
  repeat' split
  er_close

theorem enterPrevote_cong {a b : NodeState} (r : Nat) (r' : Nat) (h : er a = er b) (e_r : r = r') :
    er (enterPrevote c a r) = er (enterPrevote c b r') := by
  subst e_r
  have e := eq_mix h
  rw [e]
  exact (enterPrevote_mix a _ _ _ r).symm
macro_rules | `(tactic| er_step) => `(tactic| apply enterPrevote_cong)

@[local simp] theorem decideProposal_round (s : NodeState) (r me : Nat) : (decideProposal c s r me).round = s.round := er_round (decideProposal_er s r me)
@[local simp] theorem emit_round (s : NodeState) (o : Output) : (emit s o).round = s.round := er_round (er_emit s o)
@[local simp] theorem decideProposal_step (s : NodeState) (r me : Nat) : (decideProposal c s r me).step = s.step := er_step (decideProposal_er s r me)
@[local simp] theorem emit_step (s : NodeState) (o : Output) : (emit s o).step = s.step := er_step (er_emit s o)
@[local simp] theorem decideProposal_lockedRound (s : NodeState) (r me : Nat) : (decideProposal c s r me).lockedRound = s.lockedRound := er_lockedRound (decideProposal_er s r me)
@[local simp] theorem emit_lockedRound (s : NodeState) (o : Output) : (emit s o).lockedRound = s.lockedRound := er_lockedRound (er_emit s o)
@[local simp] theorem decideProposal_lockedBlock (s : NodeState) (r me : Nat) : (decideProposal c s r me).lockedBlock = s.lockedBlock := er_lockedBlock (decideProposal_er s r me)
@[local simp] theorem emit_lockedBlock (s : NodeState) (o : Output) : (emit s o).lockedBlock = s.lockedBlock := er_lockedBlock (er_emit s o)
@[local simp] theorem decideProposal_validRound (s : NodeState) (r me : Nat) : (decideProposal c s r me).validRound = s.validRound := er_validRound (decideProposal_er s r me)
@[local simp] theorem emit_validRound (s : NodeState) (o : Output) : (emit s o).validRound = s.validRound := er_validRound (er_emit s o)
@[local simp] theorem decideProposal_validBlock (s : NodeState) (r me : Nat) : (decideProposal c s r me).validBlock = s.validBlock := er_validBlock (decideProposal_er s r me)
@[local simp] theorem emit_validBlock (s : NodeState) (o : Output) : (emit s o).validBlock = s.validBlock := er_validBlock (er_emit s o)
@[local simp] theorem decideProposal_proposal (s : NodeState) (r me : Nat) : (decideProposal c s r me).proposal = s.proposal := er_proposal (decideProposal_er s r me)
@[local simp] theorem emit_proposal (s : NodeState) (o : Output) : (emit s o).proposal = s.proposal := er_proposal (er_emit s o)
@[local simp] theorem decideProposal_proposalBlock (s : NodeState) (r me : Nat) : (decideProposal c s r me).proposalBlock = s.proposalBlock := er_proposalBlock (decideProposal_er s r me)
@[local simp] theorem emit_proposalBlock (s : NodeState) (o : Output) : (emit s o).proposalBlock = s.proposalBlock := er_proposalBlock (er_emit s o)
@[local simp] theorem decideProposal_proposalParts (s : NodeState) (r me : Nat) : (decideProposal c s r me).proposalParts = s.proposalParts := er_proposalParts (decideProposal_er s r me)
@[local simp] theorem emit_proposalParts (s : NodeState) (o : Output) : (emit s o).proposalParts = s.proposalParts := er_proposalParts (er_emit s o)
@[local simp] theorem decideProposal_partsDone (s : NodeState) (r me : Nat) : (decideProposal c s r me).partsDone = s.partsDone := er_partsDone (decideProposal_er s r me)
@[local simp] theorem emit_partsDone (s : NodeState) (o : Output) : (emit s o).partsDone = s.partsDone := er_partsDone (er_emit s o)
@[local simp] theorem decideProposal_commitRound (s : NodeState) (r me : Nat) : (decideProposal c s r me).commitRound = s.commitRound := er_commitRound (decideProposal_er s r me)
@[local simp] theorem emit_commitRound (s : NodeState) (o : Output) : (emit s o).commitRound = s.commitRound := er_commitRound (er_emit s o)
@[local simp] theorem decideProposal_triggered (s : NodeState) (r me : Nat) : (decideProposal c s r me).triggered = s.triggered := er_triggered (decideProposal_er s r me)
@[local simp] theorem emit_triggered (s : NodeState) (o : Output) : (emit s o).triggered = s.triggered := er_triggered (er_emit s o)
@[local simp] theorem decideProposal_votes (s : NodeState) (r me : Nat) : (decideProposal c s r me).votes = s.votes := er_votes (decideProposal_er s r me)
@[local simp] theorem emit_votes (s : NodeState) (o : Output) : (emit s o).votes = s.votes := er_votes (er_emit s o)
@[local simp] theorem decideProposal_valRound (s : NodeState) (r me : Nat) : (decideProposal c s r me).valRound = s.valRound := er_valRound (decideProposal_er s r me)
@[local simp] theorem emit_valRound (s : NodeState) (o : Output) : (emit s o).valRound = s.valRound := er_valRound (er_emit s o)
@[local simp] theorem decideProposal_decided (s : NodeState) (r me : Nat) : (decideProposal c s r me).decided = s.decided := er_decided (decideProposal_er s r me)
@[local simp] theorem emit_decided (s : NodeState) (o : Output) : (emit s o).decided = s.decided := er_decided (er_emit s o)
@[local simp] theorem decideProposal_halted (s : NodeState) (r me : Nat) : (decideProposal c s r me).halted = s.halted := er_halted (decideProposal_er s r me)
@[local simp] theorem emit_halted (s : NodeState) (o : Output) : (emit s o).halted = s.halted := er_halted (er_emit s o)

set_option maxHeartbeats 1600000 in
theorem enterPropose_mix (x : NodeState) (l : Option (Nat × Nat × Payload)) (o : List Output) (q : List Internal) (r : Nat) :
    er (enterPropose c { x with lss := l, out := o, queue := q } r) = er (enterPropose c x r) := by
  unfold enterPropose isProposalComplete
  try dsimp only
  repeat' split
  er_close

theorem enterPropose_cong {a b : NodeState} (r : Nat) (r' : Nat) (h : er a = er b) (e_r : r = r') :
    er (enterPropose c a r) = er (enterPropose c b r') := by
  subst e_r
  have e := eq_mix h
  rw [e]
  exact (enterPropose_mix a _ _ _ r).symm
macro_rules | `(tactic| er_step) => `(tactic| apply enterPropose_cong)

theorem newRoundReset_mix (x : NodeState) (l : Option (Nat × Nat × Payload)) (o : List Output) (q : List Internal) (r : Nat) :
    er (newRoundReset { x with lss := l, out := o, queue := q } r) = er (newRoundReset x r) := by
  unfold newRoundReset 
  try dsimp only
  repeat' split
  er_close

theorem newRoundReset_cong {a b : NodeState} (r : Nat) (r' : Nat) (h : er a = er b) (e_r : r = r') :
    er (newRoundReset a r) = er (newRoundReset b r') := by
  subst e_r
  have e := eq_mix h
  rw [e]
  exact (newRoundReset_mix a _ _ _ r).symm
macro_rules | `(tactic| er_step) => `(tactic| apply newRoundReset_cong)

theorem newRoundReset_comm (x : NodeState) (l : Option (Nat × Nat × Payload)) (o : List Output) (q : List Internal) (r : Nat) :
    newRoundReset { x with lss := l, out := o, queue := q } r =
      { newRoundReset x r with lss := l, out := o, queue := q } := by
  unfold newRoundReset
  dsimp only
  split <;> rfl

theorem enterNewRound_mix (x : NodeState) (l : Option (Nat × Nat × Payload)) (o : List Output) (q : List Internal) (r : Nat) :
    er (enterNewRound c { x with lss := l, out := o, queue := q } r) = er (enterNewRound c x r) := by
  unfold enterNewRound
  rw [newRoundReset_comm]
  try dsimp only
  repeat' split
  er_close

theorem enterNewRound_cong {a b : NodeState} (r : Nat) (r' : Nat) (h : er a = er b) (e_r : r = r') :
    er (enterNewRound c a r) = er (enterNewRound c b r') := by
  subst e_r
  have e := eq_mix h
  rw [e]
  exact (enterNewRound_mix a _ _ _ r).symm
macro_rules | `(tactic| er_step) => `(tactic| apply enterNewRound_cong)

theorem enterPrevoteWait_mix (x : NodeState) (l : Option (Nat × Nat × Payload)) (o : List Output) (q : List Internal) (r : Nat) :
    er (enterPrevoteWait c { x with lss := l, out := o, queue := q } r) = er (enterPrevoteWait c x r) := by
  unfold enterPrevoteWait 
  try dsimp only
  repeat' split
  er_close

theorem enterPrevoteWait_cong {a b : NodeState} (r : Nat) (r' : Nat) (h : er a = er b) (e_r : r = r') :
    er (enterPrevoteWait c a r) = er (enterPrevoteWait c b r') := by
  subst e_r
  have e := eq_mix h
  rw [e]
  exact (enterPrevoteWait_mix a _ _ _ r).symm
macro_rules | `(tactic| er_step) => `(tactic| apply enterPrevoteWait_cong)

theorem unlock_mix (x : NodeState) (l : Option (Nat × Nat × Payload)) (o : List Output) (q : List Internal)  :
    er (unlock { x with lss := l, out := o, queue := q } ) = er (unlock x ) := by
  unfold unlock 
  try dsimp only
  repeat' split
  er_close

theorem unlock_cong {a b : NodeState}   (h : er a = er b)  :
    er (unlock a ) = er (unlock b ) := by
  have e := eq_mix h
  rw [e]
  exact (unlock_mix a _ _ _ ).symm
macro_rules | `(tactic| er_step) => `(tactic| apply unlock_cong)

set_option maxHeartbeats 1600000 in
theorem enterPrecommit_mix (x : NodeState) (l : Option (Nat × Nat × Payload)) (o : List Output) (q : List Internal) (r : Nat) :
    er (enterPrecommit c { x with lss := l, out := o, queue := q } r) = er (enterPrecommit c x r) := by
  unfold enterPrecommit unlock
  try dsimp only
  repeat' split
  er_close

theorem enterPrecommit_cong {a b : NodeState} (r : Nat) (r' : Nat) (h : er a = er b) (e_r : r = r') :
    er (enterPrecommit c a r) = er (enterPrecommit c b r') := by
  subst e_r
  have e := eq_mix h
  rw [e]
  exact (enterPrecommit_mix a _ _ _ r).symm
macro_rules | `(tactic| er_step) => `(tactic| apply enterPrecommit_cong)

theorem enterPrecommitWait_mix (x : NodeState) (l : Option (Nat × Nat × Payload)) (o : List Output) (q : List Internal) (r : Nat) :
    er (enterPrecommitWait c { x with lss := l, out := o, queue := q } r) = er (enterPrecommitWait c x r) := by
  unfold enterPrecommitWait 
  try dsimp only
  repeat' split
  er_close

theorem enterPrecommitWait_cong {a b : NodeState} (r : Nat) (r' : Nat) (h : er a = er b) (e_r : r = r') :
    er (enterPrecommitWait c a r) = er (enterPrecommitWait c b r') := by
  subst e_r
  have e := eq_mix h
  rw [e]
  exact (enterPrecommitWait_mix a _ _ _ r).symm
macro_rules | `(tactic| er_step) => `(tactic| apply enterPrecommitWait_cong)

theorem finalizeCommit_mix (x : NodeState) (l : Option (Nat × Nat × Payload)) (o : List Output) (q : List Internal)  :
    er (finalizeCommit c { x with lss := l, out := o, queue := q } ) = er (finalizeCommit c x ) := by
  unfold finalizeCommit 
  try dsimp only
  repeat' split
  er_close

theorem finalizeCommit_cong {a b : NodeState}   (h : er a = er b)  :
    er (finalizeCommit c a ) = er (finalizeCommit c b ) := by
  have e := eq_mix h
  rw [e]
  exact (finalizeCommit_mix a _ _ _ ).symm
macro_rules | `(tactic| er_step) => `(tactic| apply finalizeCommit_cong)

theorem tryFinalizeCommit_mix (x : NodeState) (l : Option (Nat × Nat × Payload)) (o : List Output) (q : List Internal)  :
    er (tryFinalizeCommit c { x with lss := l, out := o, queue := q } ) = er (tryFinalizeCommit c x ) := by
  unfold tryFinalizeCommit 
  try dsimp only
  repeat' split
  er_close

theorem tryFinalizeCommit_cong {a b : NodeState}   (h : er a = er b)  :
    er (tryFinalizeCommit c a ) = er (tryFinalizeCommit c b ) := by
  have e := eq_mix h
  rw [e]
  exact (tryFinalizeCommit_mix a _ _ _ ).symm
macro_rules | `(tactic| er_step) => `(tactic| apply tryFinalizeCommit_cong)

set_option maxHeartbeats 1600000 in
theorem enterCommit_mix (x : NodeState) (l : Option (Nat × Nat × Payload)) (o : List Output) (q : List Internal) (r : Nat) :
    er (enterCommit c { x with lss := l, out := o, queue := q } r) = er (enterCommit c x r) := by
  unfold enterCommit 
  try dsimp only
  repeat' split
  er_close

theorem enterCommit_cong {a b : NodeState} (r : Nat) (r' : Nat) (h : er a = er b) (e_r : r = r') :
    er (enterCommit c a r) = er (enterCommit c b r') := by
  subst e_r
  have e := eq_mix h
  rw [e]
  exact (enterCommit_mix a _ _ _ r).symm
macro_rules | `(tactic| er_step) => `(tactic| apply enterCommit_cong)

theorem setProposal_mix (x : NodeState) (l : Option (Nat × Nat × Payload)) (o : List Output) (q : List Internal) (p : Proposal) :
    er (setProposal c { x with lss := l, out := o, queue := q } p) = er (setProposal c x p) := by
  unfold setProposal 
  try dsimp only
  repeat' split
  er_close

theorem setProposal_cong {a b : NodeState} (p : Proposal) (p' : Proposal) (h : er a = er b) (e_p : p = p') :
    er (setProposal c a p) = er (setProposal c b p') := by
  subst e_p
  have e := eq_mix h
  rw [e]
  exact (setProposal_mix a _ _ _ p).symm
macro_rules | `(tactic| er_step) => `(tactic| apply setProposal_cong)

set_option maxHeartbeats 1600000 in
theorem handleCompleteProposal_mix (x : NodeState) (l : Option (Nat × Nat × Payload)) (o : List Output) (q : List Internal)  :
    er (handleCompleteProposal c { x with lss := l, out := o, queue := q } ) = er (handleCompleteProposal c x ) := by
  unfold handleCompleteProposal isProposalComplete
  try dsimp only
  repeat' split
  er_close

theorem handleCompleteProposal_cong {a b : NodeState}   (h : er a = er b)  :
    er (handleCompleteProposal c a ) = er (handleCompleteProposal c b ) := by
  have e := eq_mix h
  rw [e]
  exact (handleCompleteProposal_mix a _ _ _ ).symm
macro_rules | `(tactic| er_step) => `(tactic| apply handleCompleteProposal_cong)

theorem addBlockPart_mix (x : NodeState) (l : Option (Nat × Nat × Payload)) (o : List Output) (q : List Internal) (bid : Nat) :
    er (addBlockPart c { x with lss := l, out := o, queue := q } bid) = er (addBlockPart c x bid) := by
  unfold addBlockPart 
  try dsimp only
  repeat' split
  er_close

theorem addBlockPart_cong {a b : NodeState} (bid : Nat) (bid' : Nat) (h : er a = er b) (e_bid : bid = bid') :
    er (addBlockPart c a bid) = er (addBlockPart c b bid') := by
  subst e_bid
  have e := eq_mix h
  rw [e]
  exact (addBlockPart_mix a _ _ _ bid).symm
macro_rules | `(tactic| er_step) => `(tactic| apply addBlockPart_cong)

theorem onPolka_mix (x : NodeState) (l : Option (Nat × Nat × Payload)) (o : List Output) (q : List Internal) (vr : Nat) (bid : Bid) :
    er (onPolka { x with lss := l, out := o, queue := q } vr bid) = er (onPolka x vr bid) := by
  unfold onPolka unlock
  try dsimp only
  repeat' split
  er_close

theorem onPolka_cong {a b : NodeState} (vr : Nat) (bid : Bid) (vr' : Nat) (bid' : Bid) (h : er a = er b) (e_vr : vr = vr') (e_bid : bid = bid') :
    er (onPolka a vr bid) = er (onPolka b vr' bid') := by
  subst e_vr
  subst e_bid
  have e := eq_mix h
  rw [e]
  exact (onPolka_mix a _ _ _ vr bid).symm
macro_rules | `(tactic| er_step) => `(tactic| apply onPolka_cong)

set_option maxHeartbeats 1600000 in
theorem prevoteTransitions_mix (x : NodeState) (l : Option (Nat × Nat × Payload)) (o : List Output) (q : List Internal) (vr : Nat) :
    er (prevoteTransitions c { x with lss := l, out := o, queue := q } vr) = er (prevoteTransitions c x vr) := by
  unfold prevoteTransitions isProposalComplete
  try dsimp only
  repeat' split
  er_close

theorem prevoteTransitions_cong {a b : NodeState} (vr : Nat) (vr' : Nat) (h : er a = er b) (e_vr : vr = vr') :
    er (prevoteTransitions c a vr) = er (prevoteTransitions c b vr') := by
  subst e_vr
  have e := eq_mix h
  rw [e]
  exact (prevoteTransitions_mix a _ _ _ vr).symm
macro_rules | `(tactic| er_step) => `(tactic| apply prevoteTransitions_cong)

theorem afterPrevote_mix (x : NodeState) (l : Option (Nat × Nat × Payload)) (o : List Output) (q : List Internal) (vr : Nat) :
    er (afterPrevote c { x with lss := l, out := o, queue := q } vr) = er (afterPrevote c x vr) := by
  unfold afterPrevote 
  try dsimp only
  repeat' split
  er_close

theorem afterPrevote_cong {a b : NodeState} (vr : Nat) (vr' : Nat) (h : er a = er b) (e_vr : vr = vr') :
    er (afterPrevote c a vr) = er (afterPrevote c b vr') := by
  subst e_vr
  have e := eq_mix h
  rw [e]
  exact (afterPrevote_mix a _ _ _ vr).symm
macro_rules | `(tactic| er_step) => `(tactic| apply afterPrevote_cong)

theorem afterPrecommit_mix (x : NodeState) (l : Option (Nat × Nat × Payload)) (o : List Output) (q : List Internal) (vr : Nat) :
    er (afterPrecommit c { x with lss := l, out := o, queue := q } vr) = er (afterPrecommit c x vr) := by
  unfold afterPrecommit 
  try dsimp only
  repeat' split
  er_close

theorem afterPrecommit_cong {a b : NodeState} (vr : Nat) (vr' : Nat) (h : er a = er b) (e_vr : vr = vr') :
    er (afterPrecommit c a vr) = er (afterPrecommit c b vr') := by
  subst e_vr
  have e := eq_mix h
  rw [e]
  exact (afterPrecommit_mix a _ _ _ vr).symm
macro_rules | `(tactic| er_step) => `(tactic| apply afterPrecommit_cong)

theorem addVote_mix (x : NodeState) (l : Option (Nat × Nat × Payload)) (o : List Output) (q : List Internal) (v : Vote) (peer : Peer) :
    er (addVote c { x with lss := l, out := o, queue := q } v peer) = er (addVote c x v peer) := by
  unfold addVote 
  try dsimp only
  repeat' split
  er_close

theorem addVote_cong {a b : NodeState} (v : Vote) (peer : Peer) (v' : Vote) (peer' : Peer) (h : er a = er b) (e_v : v = v') (e_peer : peer = peer') :
    er (addVote c a v peer) = er (addVote c b v' peer') := by
  subst e_v
  subst e_peer
  have e := eq_mix h
  rw [e]
  exact (addVote_mix a _ _ _ v peer).symm
macro_rules | `(tactic| er_step) => `(tactic| apply addVote_cong)

theorem handleInternal_mix (x : NodeState) (l : Option (Nat × Nat × Payload)) (o : List Output) (q : List Internal) (m : Internal) :
    er (handleInternal c { x with lss := l, out := o, queue := q } m) = er (handleInternal c x m) := by
  unfold handleInternal 
  try dsimp only
  repeat' split
  er_close

theorem handleInternal_cong {a b : NodeState} (m : Internal) (m' : Internal) (h : er a = er b) (e_m : m = m') :
    er (handleInternal c a m) = er (handleInternal c b m') := by
  subst e_m
  have e := eq_mix h
  rw [e]
  exact (handleInternal_mix a _ _ _ m).symm
macro_rules | `(tactic| er_step) => `(tactic| apply handleInternal_cong)

theorem handleTimeout_mix (x : NodeState) (l : Option (Nat × Nat × Payload)) (o : List Output) (q : List Internal) (r : Nat) (st : Step) :
    er (handleTimeout c { x with lss := l, out := o, queue := q } r st) = er (handleTimeout c x r st) := by
  unfold handleTimeout 
  try dsimp only
  repeat' split
  er_close

theorem handleTimeout_cong {a b : NodeState} (r : Nat) (st : Step) (r' : Nat) (st' : Step) (h : er a = er b) (e_r : r = r') (e_st : st = st') :
    er (handleTimeout c a r st) = er (handleTimeout c b r' st') := by
  subst e_r
  subst e_st
  have e := eq_mix h
  rw [e]
  exact (handleTimeout_mix a _ _ _ r st).symm
macro_rules | `(tactic| er_step) => `(tactic| apply handleTimeout_cong)

theorem handleTxsAvailable_mix (x : NodeState) (l : Option (Nat × Nat × Payload)) (o : List Output) (q : List Internal)  :
    er (handleTxsAvailable c { x with lss := l, out := o, queue := q } ) = er (handleTxsAvailable c x ) := by
  unfold handleTxsAvailable 
  try dsimp only
  repeat' split
  er_close

theorem handleTxsAvailable_cong {a b : NodeState}   (h : er a = er b)  :
    er (handleTxsAvailable c a ) = er (handleTxsAvailable c b ) := by
  have e := eq_mix h
  rw [e]
  exact (handleTxsAvailable_mix a _ _ _ ).symm
macro_rules | `(tactic| er_step) => `(tactic| apply handleTxsAvailable_cong)

theorem handleInput_mix (x : NodeState) (l : Option (Nat × Nat × Payload)) (o : List Output) (q : List Internal) (i : Input) :
    er (handleInput c { x with lss := l, out := o, queue := q } i) = er (handleInput c x i) := by
  unfold handleInput 
  try dsimp only
  repeat' split
  er_close

theorem handleInput_cong {a b : NodeState} (i : Input) (i' : Input) (h : er a = er b) (e_i : i = i') :
    er (handleInput c a i) = er (handleInput c b i') := by
  subst e_i
  have e := eq_mix h
  rw [e]
  exact (handleInput_mix a _ _ _ i).symm
macro_rules | `(tactic| er_step) => `(tactic| apply handleInput_cong)

end Tmv.Cons
