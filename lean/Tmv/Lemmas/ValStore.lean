import Tmv.Model.ValStore
/-! Lemmas for the C08 store model: table algebra, `increment` keeps a set non-empty with a
proposer, `incrTimes` composition. -/
namespace Tmv.ValStore
open Tmv.ValSet

theorem interval_eq : interval = 100000 := rfl

theorem Tbl.get_del {α} (t : Tbl α) (h k : Int) :
    Tbl.get (Tbl.del t h) k = if k = h then none else Tbl.get t k := by
  induction t with
  | nil => simp [Tbl.del, Tbl.get]
  | cons kv r ih =>
    obtain ⟨a, v⟩ := kv
    unfold Tbl.del at ih ⊢
    by_cases hah : a = h
    · subst hah
      simp only [List.filter, ne_eq, not_true_eq_false, decide_false]
      rw [ih]
      by_cases hk : k = a
      · simp [hk]
      · have : ¬ a = k := fun e => hk e.symm
        simp [Tbl.get, hk, this]
    · simp only [List.filter, ne_eq, hah, not_false_eq_true, decide_true]
      simp only [Tbl.get]
      rw [ih]
      by_cases hk : k = h
      · subst hk; simp [hah]
      · simp [hk]

theorem Tbl.get_put {α} (t : Tbl α) (h k : Int) (v : α) :
    Tbl.get (Tbl.put t h v) k = if k = h then some v else Tbl.get t k := by
  unfold Tbl.put
  simp only [Tbl.get]
  rw [Tbl.get_del]
  by_cases hk : k = h
  · subst hk; simp
  · have : ¬ h = k := fun e => hk e.symm
    simp [hk, this]

/-! ### `increment` keeps the set non-empty and sets a proposer -/

theorem mostFrom_isSome (l : List Val) (r : Option Val) (h : r.isSome ∨ l ≠ []) :
    (mostFrom r l).isSome := by
  induction l generalizing r with
  | nil => simpa [mostFrom] using h
  | cons v t ih => exact ih _ (Or.inl rfl)

theorem rescale_ne_nil (l : List Val) (d : Int) (hl : l ≠ []) : rescale l d ≠ [] := by
  unfold rescale
  split
  · exact hl
  · simp only
    split
    · simpa using hl
    · exact hl

theorem normalize_ne_nil (l : List Val) (hl : l ≠ []) : normalize l ≠ [] := by
  unfold normalize shiftByAvg
  simpa using rescale_ne_nil l _ hl

theorem incrOnce_spec (l : List Val) (t : Int) (hl : l ≠ []) :
    (incrOnce l t).1 ≠ [] ∧ (incrOnce l t).2.isSome := by
  unfold incrOnce
  have h1 : l.map (fun v => setPrio v (safeAddClip v.prio v.power)) ≠ [] := by simpa using hl
  have h2 := mostFrom_isSome _ none (Or.inr h1)
  simp only
  cases hm : mostPrio (l.map (fun v => setPrio v (safeAddClip v.prio v.power))) with
  | none => simp [mostPrio] at hm; rw [hm] at h2; simp at h2
  | some m => simpa using hl

theorem incrLoop_spec (n : Nat) (l : List Val) (t : Int) (p : Option Val) (hl : l ≠ [])
    (hp : p.isSome ∨ 1 ≤ n) :
    (incrLoop n l t p).1 ≠ [] ∧ (incrLoop n l t p).2.isSome := by
  induction n generalizing l p with
  | zero =>
    rcases hp with hp | hp
    · exact ⟨hl, hp⟩
    · omega
  | succ k ih =>
    unfold incrLoop
    have := incrOnce_spec l t hl
    exact ih _ _ this.1 (Or.inl this.2)

/-- a set that has a non-empty validator list and a proposer (what the store can round-trip) -/
def Full (s : VSet) : Prop := s.vals ≠ [] ∧ s.proposer.isSome

theorem increment_full (s s' : VSet) (t : Int) (h : increment s t = some s') : Full s' := by
  unfold increment at h
  split at h
  · cases h
  · rename_i hne
    split at h
    · cases h
    · rename_i ht
      simp only [Option.some.injEq] at h
      subst h
      have : 1 ≤ t.toNat := by omega
      exact incrLoop_spec _ _ _ _ (normalize_ne_nil _ hne) (Or.inr this)

theorem increment_isSome (s : VSet) (h : s.vals ≠ []) : ∃ s', increment s 1 = some s' := by
  unfold increment
  simp [h]

theorem fromProto_full (p : VSet) (h : Full p) : fromProto p = some p := by
  unfold fromProto
  obtain ⟨h1, h2⟩ := h
  have : p.proposer ≠ none := by intro e; rw [e] at h2; simp at h2
  simp [h1, this]

theorem toProto_full (p : VSet) (h : Full p) : toProto p = some p := by
  unfold toProto
  obtain ⟨h1, h2⟩ := h
  have : p.proposer ≠ none := by intro e; rw [e] at h2; simp at h2
  simp [h1, this]

/-- `incrTimes (n+1)` = `incrTimes n` followed by one more single increment -/
theorem incrTimes_succ (n : Nat) (s : VSet) :
    incrTimes (n + 1) s = (incrTimes n s).bind (fun x => increment x 1) := by
  induction n generalizing s with
  | zero =>
    cases h : increment s 1 <;> simp [incrTimes, h]
  | succ k ih =>
    rw [incrTimes]
    cases h : increment s 1 with
    | none => simp [incrTimes, h]
    | some s1 =>
      simp only
      rw [ih s1]
      conv => rhs; rw [incrTimes, h]

end Tmv.ValStore
