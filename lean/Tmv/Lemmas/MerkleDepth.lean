import Tmv.Lemmas.Merkle
/-! The aunts list of an honest proof is short: `2 ^ aunts.length < 2 * (number of leaves)`,
so at most 100 aunts (`MaxAunts`) for any tree with at most 2^100 leaves — honest proofs pass
`Proof.ValidateBasic`. -/
namespace Tmv.Merkle
variable (H : Bytes → Bytes)

theorem splitPoint_pow {n : Nat} (h : 2 ≤ n) : ∃ j, splitPoint n = 2 ^ j := by
  unfold splitPoint
  simp only
  split
  · rename_i heq
    have hl : 1 ≤ Nat.log2 n := by
      rcases Nat.eq_zero_or_pos (Nat.log2 n) with h0 | h0
      · rw [h0] at heq; simp at heq; omega
      · exact h0
    refine ⟨Nat.log2 n - 1, ?_⟩
    have : Nat.log2 n = (Nat.log2 n - 1) + 1 := by omega
    rw [this, Nat.pow_succ]
    simp
  · exact ⟨Nat.log2 n, rfl⟩

/-- the right part is no larger than the left part -/
theorem splitPoint_half {n : Nat} (h : 2 ≤ n) : n - splitPoint n ≤ splitPoint n := by
  unfold splitPoint
  have hlt : n < 2 ^ (Nat.log2 n + 1) := Nat.lt_log2_self
  have hle : 2 ^ Nat.log2 n ≤ n := Nat.log2_self_le (by omega)
  simp only
  split
  · rename_i heq
    have hl : 1 ≤ Nat.log2 n := by
      rcases Nat.eq_zero_or_pos (Nat.log2 n) with h0 | h0
      · rw [h0] at heq; simp at heq; omega
      · exact h0
    have hpow : 2 ^ Nat.log2 n = 2 ^ (Nat.log2 n - 1) * 2 := by
      rw [← Nat.pow_succ]; congr 1; omega
    omega
  · rw [Nat.pow_succ] at hlt
    omega

theorem auntsF_depth :
    ∀ (fuel : Nat) (items : List Bytes) (i : Nat), items.length ≤ fuel → items ≠ [] →
      2 ^ (auntsF H fuel items i).length < 2 * items.length := by
  intro fuel
  induction fuel with
  | zero =>
    intro items i hle hne
    cases items with
    | nil => exact absurd rfl hne
    | cons a t => simp at hle
  | succ f ih =>
    intro items i hle hne
    match items, hne with
    | [x], _ => simp [auntsF]
    | a :: b :: c, _ =>
      have hlen2 : 2 ≤ (a :: b :: c).length := by simp
      obtain ⟨hk0, hk⟩ := splitPoint_lt hlen2
      obtain ⟨j, hj⟩ := splitPoint_pow hlen2
      have hhalf := splitPoint_half hlen2
      generalize hitems : (a :: b :: c) = items at *
      have haunts : auntsF H (f+1) items i =
          if i < splitPoint items.length then
            auntsF H f (items.take (splitPoint items.length)) i ++ [rootF H f (items.drop (splitPoint items.length))]
          else auntsF H f (items.drop (splitPoint items.length)) (i - splitPoint items.length)
                 ++ [rootF H f (items.take (splitPoint items.length))] := by
        subst hitems; simp [auntsF]
      rw [haunts]
      have htl : (items.take (splitPoint items.length)).length = splitPoint items.length := by
        simp; omega
      have hdl : (items.drop (splitPoint items.length)).length = items.length - splitPoint items.length := by
        simp
      -- any subtree of size m ≤ 2^j has depth d with 2^d < 2m ≤ 2^(j+1), hence d ≤ j
      have key : ∀ (d m : Nat), 2 ^ d < 2 * m → m ≤ 2 ^ j → 2 ^ (d + 1) < 2 * items.length := by
        intro d m h1 h2
        have hd : d < j + 1 := by
          apply (Nat.pow_lt_pow_iff_right (by decide : 1 < 2)).mp
          rw [Nat.pow_succ]; omega
        have : 2 ^ (d + 1) ≤ 2 ^ (j + 1) := Nat.pow_le_pow_right (by decide) (by omega)
        have e1 : 2 ^ (j + 1) = 2 ^ j * 2 := Nat.pow_succ 2 j
        omega
      split
      · have := ih (items.take (splitPoint items.length)) i (by rw [htl]; omega)
          (by intro hh; rw [hh] at htl; simp at htl; omega)
        rw [htl] at this
        simp only [List.length_append, List.length_singleton]
        exact key _ _ this (by rw [hj]; exact Nat.le_refl _)
      · have := ih (items.drop (splitPoint items.length)) (i - splitPoint items.length) (by rw [hdl]; omega)
          (by intro hh; rw [hh] at hdl; simp at hdl; omega)
        rw [hdl] at this
        simp only [List.length_append, List.length_singleton]
        exact key _ _ this (by rw [← hj]; exact hhalf)

theorem auntsF_le_maxAunts (items : List Bytes) (i : Nat) (hne : items ≠ [])
    (hsize : items.length ≤ 2 ^ 100) : (auntsF H items.length items i).length ≤ 100 := by
  have h := auntsF_depth H items.length items i (Nat.le_refl _) hne
  have : 2 ^ (auntsF H items.length items i).length < 2 ^ 101 := by
    have : 2 * items.length ≤ 2 ^ 101 := by rw [Nat.pow_succ]; omega
    omega
  have := (Nat.pow_lt_pow_iff_right (by decide : 1 < 2)).mp this
  omega

theorem aunts_len_hash (L : Nat) (hlen : ∀ x, (H x).length = L) :
    ∀ (fuel : Nat) (items : List Bytes) (i : Nat), ∀ a ∈ auntsF H fuel items i, a.length = L := by
  intro fuel
  induction fuel with
  | zero => intro items i a ha; simp [auntsF] at ha
  | succ f ih =>
    intro items i a ha
    match items with
    | [] => simp [auntsF] at ha
    | [x] => simp [auntsF] at ha
    | x :: y :: z =>
      simp only [auntsF] at ha
      split at ha
      · rw [List.mem_append] at ha
        rcases ha with ha | ha
        · exact ih _ _ a ha
        · simp at ha; rw [ha]; exact rootF_len H L hlen _ _
      · rw [List.mem_append] at ha
        rcases ha with ha | ha
        · exact ih _ _ a ha
        · simp at ha; rw [ha]; exact rootF_len H L hlen _ _

end Tmv.Merkle
