import Tmv.Lemmas.MerkleRootInj
import Tmv.Lemmas.MerkleTraced
namespace Tmv.Merkle
variable (H : Bytes → Bytes)

/-- `rootPre` does not depend on the fuel once it covers the list -/
theorem rootPre_fuel : ∀ (f : Nat) (items : List Bytes), items.length ≤ f →
    rootPre H f items = rootPre H items.length items := by
  intro f
  induction f using Nat.strongRecOn with
  | _ f ih =>
    intro items hle
    match items, hle with
    | [], _ => cases f <;> simp [rootPre]
    | [x], hle =>
      cases f with
      | zero => simp at hle
      | succ f => simp [rootPre]
    | a :: b :: c, hle =>
      cases f with
      | zero => simp at hle
      | succ f =>
        have h2 : 2 ≤ (a :: b :: c).length := by simp
        obtain ⟨hk0, hk⟩ := splitPoint_lt h2
        generalize hitems : (a :: b :: c) = items at *
        have hlen : items.length = c.length + 2 := by subst hitems; simp
        have e1 : rootPre H (f+1) items =
            (1 :: (rootF H f (items.take (splitPoint items.length)) ++ rootF H f (items.drop (splitPoint items.length)))) ::
              (rootPre H f (items.take (splitPoint items.length)) ++ rootPre H f (items.drop (splitPoint items.length))) := by
          subst hitems; simp [rootPre]
        have e2 : rootPre H items.length items =
            (1 :: (rootF H (items.length - 1) (items.take (splitPoint items.length)) ++ rootF H (items.length - 1) (items.drop (splitPoint items.length)))) ::
              (rootPre H (items.length - 1) (items.take (splitPoint items.length)) ++ rootPre H (items.length - 1) (items.drop (splitPoint items.length))) := by
          rw [hlen]; subst hitems; simp [rootPre]
        rw [e1, e2]
        have ht : (items.take (splitPoint items.length)).length = splitPoint items.length := by
          simp; omega
        have hd : (items.drop (splitPoint items.length)).length = items.length - splitPoint items.length := by
          simp
        rw [ih f (by omega) _ (by rw [ht]; omega), ih f (by omega) _ (by rw [hd]; omega),
          ih (items.length - 1) (by omega) _ (by rw [ht]; omega),
          ih (items.length - 1) (by omega) _ (by rw [hd]; omega),
          rootF_fuel H f _ (by rw [ht]; omega), rootF_fuel H f _ (by rw [hd]; omega),
          rootF_fuel H (items.length - 1) _ (by rw [ht]; omega),
          rootF_fuel H (items.length - 1) _ (by rw [hd]; omega)]

/-- `rootF_inj` with the collision located among the strings hashed for the two trees -/
theorem rootF_inj_traced (L : Nat) (hlen : ∀ x, (H x).length = L) :
    ∀ (f : Nat) (a b : List Bytes), a.length ≤ f → b.length ≤ f →
      rootF H f a = rootF H f b → a = b ∨ CollisionIn H (rootPre H f a) (rootPre H f b) := by
  intro f
  induction f with
  | zero =>
    intro a b ha hb _
    left
    have : a = [] := List.eq_nil_of_length_eq_zero (by omega)
    have : b = [] := List.eq_nil_of_length_eq_zero (by omega)
    simp [*]
  | succ f ih =>
    intro a b ha hb h
    have split2 : ∀ (x y : Bytes) (z : List Bytes), rootF H (f+1) (x :: y :: z) =
        innerHash H (rootF H f ((x :: y :: z).take (splitPoint (x :: y :: z).length)))
          (rootF H f ((x :: y :: z).drop (splitPoint (x :: y :: z).length))) := by
      intro x y z; simp [rootF]
    have pre2 : ∀ (x y : Bytes) (z : List Bytes), rootPre H (f+1) (x :: y :: z) =
        (1 :: (rootF H f ((x :: y :: z).take (splitPoint (x :: y :: z).length)) ++
          rootF H f ((x :: y :: z).drop (splitPoint (x :: y :: z).length)))) ::
          (rootPre H f ((x :: y :: z).take (splitPoint (x :: y :: z).length)) ++
            rootPre H f ((x :: y :: z).drop (splitPoint (x :: y :: z).length))) := by
      intro x y z; simp [rootPre]
    match a, b, ha, hb, h with
    | [], [], _, _, _ => left; rfl
    | [], [y], _, _, h =>
      right; simp [rootF, leafHash] at h
      exact ⟨[], 0 :: y, by simp [rootPre], by simp [rootPre], by simp, h⟩
    | [x], [], _, _, h =>
      right; simp [rootF, leafHash] at h
      exact ⟨0 :: x, [], by simp [rootPre], by simp [rootPre], by simp, h⟩
    | [], y1 :: y2 :: z, _, _, h =>
      right; rw [split2] at h; simp only [rootF, innerHash] at h
      exact ⟨[], _, by simp [rootPre], by rw [pre2]; exact List.mem_cons_self, by simp, h⟩
    | x1 :: x2 :: z, [], _, _, h =>
      right; rw [split2] at h; simp only [rootF, innerHash] at h
      exact ⟨_, [], by rw [pre2]; exact List.mem_cons_self, by simp [rootPre], by simp, h⟩
    | [x], [y], _, _, h =>
      simp [rootF, leafHash] at h
      by_cases e : x = y
      · left; rw [e]
      · right; exact ⟨0 :: x, 0 :: y, by simp [rootPre], by simp [rootPre], by simp [e], h⟩
    | [x], y1 :: y2 :: z, _, _, h =>
      right; rw [split2] at h
      simp only [rootF, leafHash, innerHash] at h
      exact ⟨0 :: x, _, by simp [rootPre], by rw [pre2]; exact List.mem_cons_self, by simp, h⟩
    | x1 :: x2 :: z, [y], _, _, h =>
      right; rw [split2] at h
      simp only [rootF, leafHash, innerHash] at h
      exact ⟨_, 0 :: y, by rw [pre2]; exact List.mem_cons_self, by simp [rootPre], by simp, h⟩
    | x1 :: x2 :: xs, y1 :: y2 :: ys, ha, hb, h =>
      rw [split2, split2] at h
      rw [pre2, pre2]
      generalize hA : (x1 :: x2 :: xs) = A at *
      generalize hB : (y1 :: y2 :: ys) = B at *
      have hA2 : 2 ≤ A.length := by subst hA; simp
      have hB2 : 2 ≤ B.length := by subst hB; simp
      obtain ⟨ka0, ka⟩ := splitPoint_lt hA2
      obtain ⟨kb0, kb⟩ := splitPoint_lt hB2
      by_cases hc : (1 :: (rootF H f (A.take (splitPoint A.length)) ++ rootF H f (A.drop (splitPoint A.length))) : Bytes)
          = 1 :: (rootF H f (B.take (splitPoint B.length)) ++ rootF H f (B.drop (splitPoint B.length)))
      · have h1 := (List.cons.inj hc).2
        obtain ⟨hl, hr⟩ := List.append_inj h1 (by rw [rootF_len H L hlen, rootF_len H L hlen])
        rcases ih _ _ (by simp; omega) (by simp; omega) hl with e1 | c1
        · rcases ih _ _ (by simp; omega) (by simp; omega) hr with e2 | c2
          · left
            rw [← List.take_append_drop (splitPoint A.length) A,
              ← List.take_append_drop (splitPoint B.length) B, e1, e2]
          · right
            exact c2.mono H (fun x hx => List.mem_cons_of_mem _ (List.mem_append_right _ hx))
              (fun x hx => List.mem_cons_of_mem _ (List.mem_append_right _ hx))
        · right
          exact c1.mono H (fun x hx => List.mem_cons_of_mem _ (List.mem_append_left _ hx))
            (fun x hx => List.mem_cons_of_mem _ (List.mem_append_left _ hx))
      · right
        exact ⟨_, _, List.mem_cons_self, List.mem_cons_self, hc, h⟩

/-- **the root binds the list**, with the collision traced to the strings hashed for the two roots -/
theorem root_inj_traced (L : Nat) (hlen : ∀ x, (H x).length = L) (a b : List Bytes)
    (h : root H a = root H b) :
    a = b ∨ CollisionIn H (rootPre H a.length a) (rootPre H b.length b) := by
  unfold root at h
  rw [← rootF_fuel H (max a.length b.length) a (Nat.le_max_left _ _),
    ← rootF_fuel H (max a.length b.length) b (Nat.le_max_right _ _)] at h
  rw [← rootPre_fuel H (max a.length b.length) a (Nat.le_max_left _ _),
    ← rootPre_fuel H (max a.length b.length) b (Nat.le_max_right _ _)]
  exact rootF_inj_traced H L hlen _ a b (Nat.le_max_left _ _) (Nat.le_max_right _ _) h

/-- equal lists of hashes ⇒ equal preimage lists, or a collision between two of the hashed items -/
theorem map_hash_inj_traced : ∀ (a b : List Bytes), a.map H = b.map H →
    a = b ∨ CollisionIn H a b
  | [], [], _ => Or.inl rfl
  | [], _ :: _, h => by simp at h
  | _ :: _, [], h => by simp at h
  | x :: a, y :: b, h => by
    simp only [List.map_cons, List.cons.injEq] at h
    by_cases e : x = y
    · rcases map_hash_inj_traced a b h.2 with r | r
      · left; rw [e, r]
      · right; exact r.mono H (fun z hz => List.mem_cons_of_mem _ hz) (fun z hz => List.mem_cons_of_mem _ hz)
    · right; exact ⟨x, y, List.mem_cons_self, List.mem_cons_self, e, h.1⟩

end Tmv.Merkle
